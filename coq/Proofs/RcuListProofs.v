(* Layer A of the rcu_list proof: the doubly linked list under the write mutex.
   Inductive invariant InvA: the abstract list [lst] is exactly the forward chain from m_head,
   back pointers / m_tail agree with it except at the named pcs of the (unique) mutex holder,
   every node reference held by any thread is a *published* node (in the list, or erased), the
   next pointer of a published node is a published node further down the global position
   order.  Nothing here depends on the reclamation protocol: destroy / deallocate never change
   the contents of a cell.  Used by C12 (traversals, writers serialised) and by Layer B. *)
From Coq Require Import List Arith ZArith Lia Bool.
Import ListNotations.
From GV Require Import Sched Events RcuModel RcuBase.
Local Open Scope Z_scope.

(* ---------- thread list access ---------- *)
Definition dloc : loc := Loc [] Idle None [].
Definition locof (ls : list loc) (u : nat) : loc := match nth_error ls u with Some l => l | None => dloc end.
Definition pcof (ls : list loc) (u : nat) : pc := at_ (locof ls u).
Lemma locof_upd ls t l l' u : nth_error ls t = Some l ->
  locof (upd ls t l') u = if Nat.eqb u t then l' else locof ls u.
Proof.
  intros H. unfold locof. destruct (Nat.eqb_spec u t) as [->|Hne].
  - rewrite (nth_upd_eq _ _ _ _ H). reflexivity.
  - rewrite nth_upd_ne by auto. reflexivity.
Qed.
Lemma pcof_upd ls t l l' u : nth_error ls t = Some l ->
  pcof (upd ls t l') u = if Nat.eqb u t then at_ l' else pcof ls u.
Proof. intros H. unfold pcof. rewrite (locof_upd _ _ _ _ _ H). destruct (Nat.eqb u t); reflexivity. Qed.
Lemma locof_at ls t l : nth_error ls t = Some l -> locof ls t = l.
Proof. intros H. unfold locof. rewrite H. reflexivity. Qed.
Lemma pcof_at ls t l : nth_error ls t = Some l -> pcof ls t = at_ l.
Proof. intros H. unfold pcof. rewrite (locof_at _ _ _ H). reflexivity. Qed.
Arguments pcof : simpl never.
Arguments locof : simpl never.

(* ---------- pc classification ---------- *)
Definition holds (p : pc) : bool :=
  match p with
  | P_alloc _ | P_constr _ _ | P_ld _ _ | P_e1 _ _ | P_e2 _ | PF_next _ _ | PF_back _ _ | PF_head _
  | PB_back _ _ | PB_next _ _ | PB_tail _ | P_unlock
  | E_ld0 _ _ | E_ldb _ _ _ _ | E_ldn _ _ _ _ _ | E_s1 _ _ _ _ _ _ | E_s2 _ _ _ _ _ _ | E_alloc _ _ _
  | E_constr _ _ _ _ | E_ldz _ _ _ | E_stz _ _ _ _ | E_cas _ _ _ _ | E_unlock _ _
  | PX_alloc | PX_constr _ | PX_free _ | PX_unl | PA_fail | EF_ld0 _ _ | EF_alloc => true
  | _ => false
  end.
Definition priv_node (p : pc) : option nat :=
  match p with
  | P_constr _ n | P_ld _ n | P_e1 _ n | PF_next n _ | PF_back n _ | PF_head n | PB_back n _ | PB_next n _ => Some n
  | _ => None
  end.
Definition priv_rec (p : pc) : option nat :=
  match p with
  | R_constr _ z | R_ldh _ z | R_st _ z _ | R_cas _ z _
  | E_constr _ _ _ z | E_ldz _ _ z | E_stz _ _ z _ | E_cas _ _ z _
  | E_ldb _ _ _ z | E_ldn _ _ _ _ z | E_s1 _ _ _ _ _ z | E_s2 _ _ _ _ _ z => Some z
  | _ => None
  end.
Definition erasing (p : pc) : option nat :=
  match p with E_ldb _ c _ _ | E_ldn _ c _ _ _ | E_s1 _ c _ _ _ _ => Some c | _ => None end.
Definition in_unlock (p : pc) : bool :=
  match p with
  | U_ld | U_own _ _ | U_nx _ _ | U_dd _ _ | U_df _ _ | U_ln _ | U_zd _ _ | U_zf _ _ | U_stn | U_sto => true
  | _ => false
  end.
Definition o2l (o : option nat) : list nat := match o with Some k => [k] | None => [] end.
Definition pc_refs (p : pc) : list nat :=
  match p with
  | N_ld _ c | D_rd _ c | E_lock _ c | E_ld0 _ c | EF_lock _ c | EF_ld0 _ c => [c]
  | E_ldb _ c nx0 _ | E_ldn _ c nx0 _ _ | E_s1 _ c nx0 _ _ _ | E_s2 _ c nx0 _ _ _ | E_alloc _ c nx0 | E_constr _ c nx0 _ => c :: o2l nx0
  | E_ldz _ nx0 _ | E_stz _ nx0 _ _ | E_cas _ nx0 _ _ | E_unlock _ nx0 => o2l nx0
  | _ => []
  end.
Definition its_refs (l : list (nat * option nat)) : list nat := flat_map (fun p => o2l (snd p)) l.
Definition nrefs (l : loc) : list nat := its_refs (its l) ++ pc_refs (at_ l).

(* ---------- list structure ---------- *)
Definition nx (g : glob) (k : nat) : option nat := nnext (gnode g k).
Definition bk (g : glob) (k : nat) : option nat := nback (gnode g k).
Definition dl (g : glob) (k : nat) : bool := ndel (gnode g k).
Definition ps (g : glob) (k : nat) : Z := npos (gnode g k).

Definition hd_or (l : list nat) (e : option nat) : option nat := match l with [] => e | a :: _ => Some a end.
Definition hd_opt (l : list nat) : option nat := hd_or l None.
Fixpoint last_opt (l : list nat) : option nat :=
  match l with [] => None | [a] => Some a | _ :: r => last_opt r end.
Definition last_or (l : list nat) (p : option nat) : option nat := match last_opt l with Some a => Some a | None => p end.

(* forward chain: every element's next is its successor, the last one's next is [e] *)
Fixpoint chn (g : glob) (l : list nat) (e : option nat) : Prop :=
  match l with
  | [] => True
  | a :: r => nx g a = hd_or r e /\ chn g r e
  end.
Definition fwd (g : glob) (h : option nat) (l : list nat) : Prop := h = hd_opt l /\ chn g l None.
(* backward chain: every element's back is its predecessor, the first one's back is [p] *)
Fixpoint bwdl (g : glob) (p : option nat) (l : list nat) : Prop :=
  match l with
  | [] => True
  | a :: r => bk g a = p /\ bwdl g (Some a) r
  end.

Lemma last_opt_app l a : last_opt (l ++ [a]) = Some a.
Proof. induction l as [|b r IH]; [reflexivity|]. cbn. destruct (r ++ [a]) eqn:E; [destruct r; discriminate|]. exact IH. Qed.
Lemma last_opt_cons a l : l <> [] -> last_opt (a :: l) = last_opt l.
Proof. destruct l; [congruence|reflexivity]. Qed.
Lemma last_opt_app2 l1 l2 : l2 <> [] -> last_opt (l1 ++ l2) = last_opt l2.
Proof.
  intros H. induction l1 as [|a r IH]; [reflexivity|]. cbn [app].
  rewrite last_opt_cons; [exact IH|]. destruct r; cbn; [exact H|discriminate].
Qed.
Lemma last_opt_In l a : last_opt l = Some a -> In a l.
Proof.
  induction l as [|b r IH]; [discriminate|]. destruct r as [|c r'].
  - cbn. intros E. inversion E. auto.
  - intros E. right. apply IH. exact E.
Qed.
Lemma last_opt_split l a : last_opt l = Some a -> exists l0, l = l0 ++ [a].
Proof.
  induction l as [|b r IH]; [discriminate|]. destruct r as [|c r'].
  - cbn. intros E. inversion E. exists []. reflexivity.
  - intros E. destruct (IH E) as [l0 E0]. exists (b :: l0). rewrite E0. reflexivity.
Qed.
Lemma last_opt_none l : last_opt l = None -> l = [].
Proof.
  induction l as [|b r IH]; [reflexivity|]. destruct r as [|c r'].
  - discriminate.
  - intros E. specialize (IH E). discriminate.
Qed.
Lemma last_or_app l1 l2 p : last_or (l1 ++ l2) p = last_or l2 (last_or l1 p).
Proof.
  unfold last_or. destruct l2 as [|b r].
  - rewrite app_nil_r. cbn. destruct (last_opt l1); reflexivity.
  - rewrite last_opt_app2 by discriminate. destruct (last_opt (b :: r)) eqn:E; [reflexivity|].
    apply last_opt_none in E. discriminate.
Qed.

Lemma chn_ext g g' l e : (forall a, In a l -> nx g' a = nx g a) -> chn g l e -> chn g' l e.
Proof.
  induction l as [|a r IH]; intros He H; cbn in *; [exact I|].
  destruct H as [H1 H2]. split; [rewrite He by auto; exact H1|]. apply IH; auto.
Qed.
Lemma bwdl_ext g g' p l : (forall a, In a l -> bk g' a = bk g a) -> bwdl g p l -> bwdl g' p l.
Proof.
  revert p. induction l as [|a r IH]; intros p He H; cbn in *; [exact I|].
  destruct H as [H1 H2]. split; [rewrite He by auto; exact H1|]. apply IH; auto.
Qed.
Lemma hd_or_app l1 l2 e : hd_or (l1 ++ l2) e = hd_or l1 (hd_or l2 e).
Proof. destruct l1; reflexivity. Qed.
Lemma chn_app g l1 l2 e : chn g (l1 ++ l2) e <-> chn g l1 (hd_or l2 e) /\ chn g l2 e.
Proof.
  induction l1 as [|a r IH]; cbn [app chn]; [tauto|].
  rewrite IH, hd_or_app. tauto.
Qed.
Lemma bwdl_app g p l1 l2 : bwdl g p (l1 ++ l2) <-> bwdl g p l1 /\ bwdl g (last_or l1 p) l2.
Proof.
  revert p. induction l1 as [|a r IH]; intros p.
  - cbn. tauto.
  - cbn [app bwdl]. rewrite IH. unfold last_or. destruct r as [|b r']; [cbn; tauto|].
    change (last_opt (a :: b :: r')) with (last_opt (b :: r')).
    destruct (last_opt (b :: r')) eqn:E; [tauto|]. apply last_opt_none in E. discriminate.
Qed.

(* ---------- the invariant ---------- *)
Definition pubn (g : glob) (k : nat) : Prop := isnode g k = true /\ (In k (lst g) \/ dl g k = true).

Definition strictF (g : glob) (n : nat) : Prop := forall k, isnode g k = true -> k <> n -> lo g < ps g k.
Definition strictB (g : glob) (n : nat) : Prop := forall k, isnode g k = true -> k <> n -> ps g k < hi g.
Definition strict (g : glob) (o : op) (n : nat) : Prop := if is_front o then strictF g n else strictB g n.
Definition fresh_node (g : glob) (o : op) (n : nat) : Prop :=
  isnode g n = true /\ ~ In n (lst g) /\ nx g n = None /\ bk g n = None /\ dl g n = false /\
  ps g n = (if is_front o then lo g else hi g) /\ strict g o n.

(* facts about the registers of the mutex holder *)
Definition hold_ok (g : glob) (p : pc) : Prop :=
  match p with
  | P_constr o n => cs_of g n = Some Alloc /\ gnode g n = dnode /\ isnode g n = true /\ ~ In n (lst g) /\ strict g o n
  | P_ld o n => fresh_node g o n
  | P_e1 o n => fresh_node g o n /\ lst g = []
  | PF_next n old => fresh_node g (PushFront 0) n /\ hd_opt (lst g) = Some old
  | PF_back n old => isnode g n = true /\ ~ In n (lst g) /\ nx g n = Some old /\ bk g n = None /\ dl g n = false /\
                     ps g n = lo g /\ strictF g n /\ hd_opt (lst g) = Some old
  | PF_head n => exists old, isnode g n = true /\ ~ In n (lst g) /\ nx g n = Some old /\ bk g n = None /\ dl g n = false /\
                     ps g n = lo g /\ strictF g n /\ hd_opt (lst g) = Some old
  | PB_back n old => fresh_node g (PushBack 0) n /\ last_opt (lst g) = Some old
  | PB_next n old => isnode g n = true /\ ~ In n (lst g) /\ nx g n = None /\ bk g n = Some old /\ dl g n = false /\
                     ps g n = hi g /\ strictB g n /\ last_opt (lst g) = Some old
  | E_alloc _ c _ | E_constr _ c _ _ | E_ldb _ c _ _ => In c (lst g) /\ dl g c = false
  | E_ldn _ c _ pv _ => dl g c = true /\ exists l1 l2, lst g = l1 ++ c :: l2 /\ pv = last_opt l1
  | E_s1 _ c _ pv nxt _ => dl g c = true /\ exists l1 l2, lst g = l1 ++ c :: l2 /\ pv = last_opt l1 /\ nxt = hd_opt l2
  | _ => True
  end.
(* back pointers and m_tail, with the windows in which the holder has not yet repaired them *)
Definition back_ok (g : glob) (p : pc) : Prop :=
  match p with
  | PF_head n => bwdl g (Some n) (lst g) /\ tail g = last_opt (lst g)
  | P_e2 n => lst g = [n] /\ bk g n = None /\ tail g = None
  | PB_tail n => bwdl g None (lst g) /\ exists l0, lst g = l0 ++ [n] /\ tail g = last_opt l0
  | E_s2 _ c _ pv nxt _ => isnode g c = true /\ dl g c = true /\ ~ In c (lst g) /\
                         exists l1 l2, lst g = l1 ++ l2 /\ pv = last_opt l1 /\ nxt = hd_opt l2 /\
                                       bwdl g None l1 /\ bwdl g (Some c) l2 /\ tail g = last_or l2 (Some c)
  | _ => bwdl g None (lst g) /\ tail g = last_opt (lst g)
  end.

Record GS (g : glob) (p : pc) : Prop := {
  gs_nodup : NoDup (lst g);
  gs_nodes : forall k, In k (lst g) -> isnode g k = true;
  gs_fwd : fwd g (head g) (lst g);
  gs_class : forall k, isnode g k = true -> In k (lst g) \/ dl g k = true \/ priv_node p = Some k;
  gs_del : forall k, In k (lst g) -> dl g k = true -> erasing p = Some k;
  gs_next : forall k m, pubn g k -> nx g k = Some m -> pubn g m /\ ps g k < ps g m;
  gs_pos : lo g <= 0 <= hi g /\ forall k, isnode g k = true -> lo g <= ps g k <= hi g;
  gs_back : back_ok g p;
  gs_hold : hold_ok g p;
  gs_mlog : lst g = fold_left apply_m (mlog g) []
}.

Record thr_ok (g : glob) (l : loc) : Prop := {
  t_refs : forall c, In c (nrefs l) -> pubn g c;
  t_prec : forall z, priv_rec (at_ l) = Some z -> isrec g z = true;
  t_hrec : forall w z, hnd l = Some (w, Some z) -> isrec g z = true;
  t_unl : in_unlock (at_ l) = true -> exists w z, hnd l = Some (w, Some z)
}.

Definition hpc (g : glob) (ls : list loc) : pc := match wmtx g with Some a => pcof ls a | None => Idle end.

Record InvA (g : glob) (ls : list loc) : Prop := {
  a_own : forall u, holds (pcof ls u) = true -> wmtx g = Some u;
  a_held : forall a, wmtx g = Some a -> holds (pcof ls a) = true;
  a_gs : GS g (hpc g ls);
  a_thr : forall u l, nth_error ls u = Some l -> thr_ok g l
}.

(* ---------- plain pcs: the holder is outside every window ---------- *)
Definition plain (p : pc) : bool :=
  match p with
  | P_constr _ _ | P_ld _ _ | P_e1 _ _ | P_e2 _ | PF_next _ _ | PF_back _ _ | PF_head _
  | PB_back _ _ | PB_next _ _ | PB_tail _ | E_ldb _ _ _ _ | E_ldn _ _ _ _ _ | E_s1 _ _ _ _ _ _ | E_s2 _ _ _ _ _ _
  | E_alloc _ _ _ | E_constr _ _ _ _ => false
  | _ => true
  end.
Lemma GS_plain g p p' : plain p = true -> plain p' = true -> GS g p -> GS g p'.
Proof.
  intros Hp Hp' [H1 H2 H3 H4 H5 H6 H7 H8 H9 H10].
  assert (priv_node p = None /\ erasing p = None) as [Ep Ee] by (destruct p; try discriminate; split; reflexivity).
  assert (priv_node p' = None /\ erasing p' = None) as [Ep' Ee'] by (destruct p'; try discriminate; split; reflexivity).
  assert (back_ok g p') as Hb by (destruct p; try discriminate; destruct p'; try discriminate; exact H8).
  assert (hold_ok g p') as Hh by (destruct p'; try discriminate; exact I).
  constructor; auto.
  - intros k Hk. rewrite Ep'. rewrite Ep in H4. auto.
  - intros k Hk Hd. rewrite Ee'. rewrite Ee in H5. auto.
Qed.

(* ---------- states that look the same to Layer A ---------- *)
Record sameA (g g' : glob) : Prop := {
  sa_head : head g' = head g; sa_tail : tail g' = tail g; sa_lst : lst g' = lst g; sa_mlog : mlog g' = mlog g;
  sa_lo : lo g' = lo g; sa_hi : hi g' = hi g;
  sa_gnode : forall k, gnode g' k = gnode g k;
  sa_isnode : forall k, isnode g' k = isnode g k;
  sa_isrec : forall k, isrec g k = true -> isrec g' k = true;
  sa_alloc : forall k, isnode g k = true -> cs_of g k = Some Alloc -> cs_of g' k = Some Alloc
}.
Lemma sameA_refl g : sameA g g.
Proof. constructor; auto. Qed.
Lemma sameA_trans a b c : sameA a b -> sameA b c -> sameA a c.
Proof.
  intros [A1 A2 A3 A4 A5 A6 A7 A8 A9 A10] [B1 B2 B3 B4 B5 B6 B7 B8 B9 B10].
  constructor; [congruence|congruence|congruence|congruence|congruence|congruence| | | |].
  - intros k. rewrite B7. apply A7.
  - intros k. rewrite B8. apply A8.
  - auto.
  - intros k Hk Hc. apply B10; [rewrite A8; exact Hk|auto].
Qed.

Lemma sameA_views g g' : sameA g g' ->
  (forall k, nx g' k = nx g k) /\ (forall k, bk g' k = bk g k) /\ (forall k, dl g' k = dl g k) /\ (forall k, ps g' k = ps g k).
Proof. intros H. unfold nx, bk, dl, ps. repeat split; intros k; rewrite (sa_gnode _ _ H); reflexivity. Qed.

Lemma pubn_sameA g g' k : sameA g g' -> pubn g k -> pubn g' k.
Proof.
  intros H [H1 H2]. destruct (sameA_views _ _ H) as (_ & _ & Ed & _).
  split; [rewrite (sa_isnode _ _ H); exact H1|]. rewrite (sa_lst _ _ H), Ed. exact H2.
Qed.
Lemma pubn_sameA_rev g g' k : sameA g g' -> pubn g' k -> pubn g k.
Proof.
  intros H [H1 H2]. destruct (sameA_views _ _ H) as (_ & _ & Ed & _).
  split; [rewrite <- (sa_isnode _ _ H); exact H1|]. rewrite <- (sa_lst _ _ H), <- Ed. exact H2.
Qed.

Lemma GS_frame g g' p : sameA g g' -> GS g p -> GS g' p.
Proof.
  intros S [H1 H2 H3 H4 H5 H6 H7 H8 H9 H10].
  destruct (sameA_views _ _ S) as (En & Eb & Ed & Ep).
  pose proof (sa_lst _ _ S) as EL. pose proof (sa_isnode _ _ S) as EI.
  assert (forall l e, chn g l e -> chn g' l e) as Hchn by (intros; eapply chn_ext; eauto).
  assert (forall q l, bwdl g q l -> bwdl g' q l) as Hbw by (intros; eapply bwdl_ext; eauto).
  assert (forall o n, strict g o n -> strict g' o n) as Hstr.
  { intros o n. unfold strict, strictF, strictB. rewrite (sa_lo _ _ S), (sa_hi _ _ S).
    destruct (is_front o); intros Hs k; rewrite EI, Ep; auto. }
  assert (forall n, strictF g n -> strictF g' n) as HsF by (intros n; apply (Hstr (PushFront 0) n)).
  assert (forall n, strictB g n -> strictB g' n) as HsB by (intros n; apply (Hstr (PushBack 0) n)).
  assert (forall o n, fresh_node g o n -> fresh_node g' o n) as Hfr.
  { intros o n (F1 & F2 & F3 & F4 & F5 & F6 & F7). unfold fresh_node.
    rewrite EI, EL, En, Eb, Ed, Ep, (sa_lo _ _ S), (sa_hi _ _ S). repeat split; auto. }
  constructor.
  - rewrite EL. exact H1.
  - intros k. rewrite EL, EI. auto.
  - destruct H3 as [A B]. split; [rewrite (sa_head _ _ S), EL; exact A|rewrite EL; apply Hchn; exact B].
  - intros k. rewrite EI, EL, Ed. auto.
  - intros k. rewrite EL, Ed. auto.
  - intros k m Hk Hm. rewrite En in Hm. destruct (H6 k m (pubn_sameA_rev _ _ _ S Hk) Hm) as [A B].
    split; [eapply pubn_sameA; eauto|rewrite !Ep; exact B].
  - rewrite (sa_lo _ _ S), (sa_hi _ _ S). destruct H7 as [A B]. split; [exact A|]. intros k. rewrite EI, Ep. auto.
  - destruct p; cbn [back_ok] in *; rewrite ?EL, ?(sa_tail _ _ S), ?Eb, ?EI, ?Ed;
      try (destruct H8; split; auto; fail).
    all: try (destruct H8 as (A & B & C); auto; fail).
    all: try (destruct H8 as (A & l0 & B & C); split; [auto|exists l0; auto]; fail).
    destruct H8 as (A & B & C & l1 & l2 & D & E & F & G & H & J). repeat split; auto.
    exists l1, l2. repeat split; auto.
  - clear Hfr. destruct p; cbn [hold_ok] in *; auto; unfold fresh_node in *;
      rewrite ?EL, ?EI, ?En, ?Eb, ?Ed, ?Ep, ?(sa_lo _ _ S), ?(sa_hi _ _ S), ?(sa_gnode _ _ S).
    all: repeat match goal with H : _ /\ _ |- _ => destruct H | H : exists _, _ |- _ => destruct H end.
    all: repeat (first [split | eexists]); eauto.
    all: try (apply (sa_alloc _ _ S); auto).
  - rewrite EL, (sa_mlog _ _ S). exact H10.
Qed.

Lemma thr_ok_sameA g g' l : sameA g g' -> thr_ok g l -> thr_ok g' l.
Proof.
  intros S [T1 T2 T3 T4]. constructor; auto.
  - intros c Hc. eapply pubn_sameA; eauto.
  - intros z Hz. apply (sa_isrec _ _ S). auto.
  - intros w z Hz. apply (sa_isrec _ _ S). eauto.
Qed.

(* ---------- primitive updates that Layer A does not see ---------- *)
Lemma sameA_fault g x : sameA g x -> sameA g (with_fault x).
Proof. intros [A1 A2 A3 A4 A5 A6 A7 A8 A9 A10]. constructor; auto. Qed.
Lemma sameA_misuse g x : sameA g x -> sameA g (with_misuse x).
Proof. intros [A1 A2 A3 A4 A5 A6 A7 A8 A9 A10]. constructor; auto. Qed.
Lemma sameA_zhead g x z : sameA g x -> sameA g (with_zhead x z).
Proof. intros [A1 A2 A3 A4 A5 A6 A7 A8 A9 A10]. constructor; auto. Qed.
Lemma sameA_zlog g x z : sameA g x -> sameA g (with_zlog x z).
Proof. intros [A1 A2 A3 A4 A5 A6 A7 A8 A9 A10]. constructor; auto. Qed.
Lemma sameA_mtx g x z : sameA g x -> sameA g (with_mtx x z).
Proof. intros [A1 A2 A3 A4 A5 A6 A7 A8 A9 A10]. constructor; auto. Qed.
Lemma sameA_chk g x ok k : sameA g x -> sameA g (fst (chk ok k x)).
Proof. intros H. destruct ok; cbn; [exact H|apply sameA_fault; exact H]. Qed.

Lemma sameA_alloc_rec g r : sameA g (fst (do_alloc g (BRec r))).
Proof.
  constructor; try reflexivity.
  - intros k. apply gnode_alloc_rec.
  - intros k. rewrite isnode_alloc. destruct (Nat.eqb_spec k (nheap g)) as [->|]; [|reflexivity].
    unfold isnode. rewrite getc_ge by lia. reflexivity.
  - intros k H. rewrite isrec_alloc. destruct (Nat.eqb k (nheap g)); auto.
  - intros k Hk Hc. rewrite cs_of_alloc. destruct (Nat.eqb k (nheap g)); auto.
Qed.
Lemma sameA_setz g z r : isrec g z = true -> sameA g (setz g z r).
Proof.
  intros H. destruct (modc_fields g z (set_body (BRec r))) as (F1 & F2 & F3 & F4 & F5 & F6 & F7 & F8 & F9 & F10 & F11 & F12).
  constructor; auto.
  - intros k. apply gnode_setz. exact H.
  - intros k. apply isnode_setz. exact H.
  - intros k Hk. rewrite isrec_setz; auto.
  - intros k Hk Hc. rewrite cs_of_setz. exact Hc.
Qed.
Lemma sameA_construct_rec g z r : isrec g z = true -> sameA g (fst (do_construct g z (BRec r))).
Proof.
  intros H. destruct (construct_fields g z (BRec r)) as (F1 & F2 & F3 & F4 & F5 & F6 & F7 & F8 & F9 & F10 & F11 & F12).
  constructor; auto.
  - intros k. apply gnode_construct_rec. exact H.
  - intros k. apply isnode_construct_rec. exact H.
  - intros k Hk. rewrite isrec_construct_rec; auto.
  - intros k Hk Hc. rewrite cs_of_construct. destruct (Nat.eqb_spec k z) as [->|]; [|exact Hc].
    rewrite (isrec_isnode _ _ H) in Hk. discriminate.
Qed.
Lemma sameA_destroy g k : sameA g (fst (do_destroy g k)).
Proof.
  destruct (destroy_fields g k) as (F1 & F2 & F3 & F4 & F5 & F6 & F7 & F8 & F9 & F10 & F11 & F12).
  constructor; auto.
  - intros j. apply gnode_destroy.
  - intros j. apply isnode_destroy.
  - intros j Hj. rewrite isrec_destroy. exact Hj.
  - intros j Hj Hc. rewrite cs_of_destroy. destruct (Nat.eqb_spec j k) as [->|]; [rewrite Hc; reflexivity|exact Hc].
Qed.
Lemma sameA_dealloc g k : sameA g (fst (do_dealloc g k)).
Proof.
  destruct (dealloc_fields g k) as (F1 & F2 & F3 & F4 & F5 & F6 & F7 & F8 & F9 & F10 & F11 & F12).
  constructor; auto.
  - intros j. apply gnode_dealloc.
  - intros j. apply isnode_dealloc.
  - intros j Hj. rewrite isrec_dealloc. exact Hj.
  - intros j Hj Hc. rewrite cs_of_dealloc. destruct (Nat.eqb_spec j k) as [->|]; [rewrite Hc; reflexivity|exact Hc].
Qed.
Lemma sameA_alloc_raw g : sameA g (fst (do_alloc g BRaw)).
Proof.
  constructor; try reflexivity.
  - intros k. apply gnode_alloc_raw.
  - intros k. rewrite isnode_alloc. destruct (Nat.eqb_spec k (nheap g)) as [->|]; [|reflexivity].
    unfold isnode. rewrite getc_ge by lia. reflexivity.
  - intros k H. rewrite isrec_alloc. destruct (Nat.eqb_spec k (nheap g)) as [->|]; [|exact H]. apply isrec_lt in H. lia.
  - intros k Hk Hc. rewrite cs_of_alloc. destruct (Nat.eqb k (nheap g)); auto.
Qed.
Lemma sameA_dealloc_raw g k : sameA g (fst (do_dealloc_raw g k)).
Proof.
  destruct (dealloc_raw_fields g k) as (F1 & F2 & F3 & F4 & F5 & F6 & F7 & F8 & F9 & F10 & F11 & F12).
  constructor; auto.
  - intros j. apply gnode_dealloc_raw.
  - intros j. apply isnode_dealloc_raw.
  - intros j Hj. rewrite isrec_dealloc_raw. exact Hj.
  - intros j Hj Hc. rewrite cs_of_dealloc_raw by (left; exact Hj). exact Hc.
Qed.
Lemma sameA_null g kind : sameA g (fst (null_call g kind)).
Proof. cbn. apply sameA_fault, sameA_refl. Qed.

(* ---------- monotone facts other threads rely on ---------- *)
Definition mono (g g' : glob) : Prop :=
  (forall k, pubn g k -> pubn g' k) /\ (forall k, isrec g k = true -> isrec g' k = true).
Lemma thr_ok_mono g g' l : mono g g' -> thr_ok g l -> thr_ok g' l.
Proof. intros [M1 M2] [T1 T2 T3 T4]. constructor; eauto. Qed.
Lemma mono_sameA g g' : sameA g g' -> mono g g'.
Proof. intros S. split; [intros k; apply pubn_sameA; exact S|apply (sa_isrec _ _ S)]. Qed.

(* ---------- iterators ---------- *)
Lemma getit_In l i c : getit l i = Some (Some c) -> In c (its_refs l).
Proof.
  induction l as [|[j x] r IH]; cbn; [discriminate|].
  destruct (Nat.eqb i j).
  - intros E. inversion E; subst. cbn. auto.
  - intros E. apply in_or_app. right. apply IH. exact E.
Qed.
Lemma its_refs_filter f l c : In c (its_refs (filter f l)) -> In c (its_refs l).
Proof.
  induction l as [|[j x] r IH]; cbn; [auto|]. destruct (f (j, x)); cbn; intros H.
  - apply in_app_or in H. apply in_or_app. destruct H; [left; exact H|right; apply IH; exact H].
  - apply in_or_app. right. apply IH. exact H.
Qed.
Lemma its_refs_setit l i x c : In c (its_refs (setit l i x)) -> x = Some c \/ In c (its_refs l).
Proof.
  unfold setit. cbn. intros H. apply in_app_or in H. destruct H as [H|H].
  - left. destruct x; cbn in H; [destruct H as [->|[]]; reflexivity|contradiction].
  - right. eapply its_refs_filter. exact H.
Qed.

(* ---------- node field writes ---------- *)
Record nviews (g g' : glob) : Prop := {
  nv_isnode : forall j, isnode g' j = isnode g j;
  nv_isrec : forall j, isrec g' j = isrec g j;
  nv_cs : forall j, cs_of g' j = cs_of g j;
  nv_head : head g' = head g; nv_tail : tail g' = tail g; nv_lst : lst g' = lst g; nv_mlog : mlog g' = mlog g;
  nv_lo : lo g' = lo g; nv_hi : hi g' = hi g; nv_mtx : wmtx g' = wmtx g
}.
Lemma nviews_setn g k n : isnode g k = true -> nviews g (setn g k n).
Proof.
  intros H. destruct (modc_fields g k (set_body (BNode n))) as (F1 & F2 & F3 & F4 & F5 & F6 & F7 & F8 & F9 & F10 & F11 & F12).
  constructor; auto.
  - intros j. apply isnode_setn. exact H.
  - intros j. apply isrec_setn. exact H.
  - intros j. apply cs_of_setn.
Qed.
Lemma set_next_views g k x : isnode g k = true ->
  let g' := setn g k (n_next (gnode g k) x) in
  (forall j, nx g' j = if Nat.eqb j k then x else nx g j) /\ (forall j, bk g' j = bk g j) /\
  (forall j, dl g' j = dl g j) /\ (forall j, ps g' j = ps g j).
Proof.
  intros H g'. pose proof (isnode_lt _ _ H) as Hlt. unfold nx, bk, dl, ps, g'.
  repeat split; intros j; rewrite (gnode_setn _ _ _ _ Hlt); destruct (Nat.eqb_spec j k) as [->|]; reflexivity.
Qed.
Lemma set_back_views g k x : isnode g k = true ->
  let g' := setn g k (n_back (gnode g k) x) in
  (forall j, nx g' j = nx g j) /\ (forall j, bk g' j = if Nat.eqb j k then x else bk g j) /\
  (forall j, dl g' j = dl g j) /\ (forall j, ps g' j = ps g j).
Proof.
  intros H g'. pose proof (isnode_lt _ _ H) as Hlt. unfold nx, bk, dl, ps, g'.
  repeat split; intros j; rewrite (gnode_setn _ _ _ _ Hlt); destruct (Nat.eqb_spec j k) as [->|]; reflexivity.
Qed.
Lemma set_del_views g k : isnode g k = true ->
  let g' := setn g k (n_del (gnode g k)) in
  (forall j, nx g' j = nx g j) /\ (forall j, bk g' j = bk g j) /\
  (forall j, dl g' j = if Nat.eqb j k then true else dl g j) /\ (forall j, ps g' j = ps g j).
Proof.
  intros H g'. pose proof (isnode_lt _ _ H) as Hlt. unfold nx, bk, dl, ps, g'.
  repeat split; intros j; rewrite (gnode_setn _ _ _ _ Hlt); destruct (Nat.eqb_spec j k) as [->|]; reflexivity.
Qed.

Lemma fold_apply_app l m : fold_left apply_m (l ++ [m]) [] = apply_m (fold_left apply_m l []) m.
Proof. rewrite fold_left_app. reflexivity. Qed.

Lemma hd_opt_In l a : hd_opt l = Some a -> exists r, l = a :: r.
Proof. destruct l; cbn; intros E; [discriminate|]. inversion E. eauto. Qed.
Lemma last_opt_cons_or a l : last_opt (a :: l) = last_or l (Some a).
Proof. unfold last_or. destruct l; [reflexivity|]. change (last_opt (a :: n :: l)) with (last_opt (n :: l)).
  destruct (last_opt (n :: l)) eqn:E; [reflexivity|]. apply last_opt_none in E. discriminate. Qed.
Lemma NoDup_app_l {A} (a b : list A) : NoDup (a ++ b) -> NoDup a.
Proof. induction a; cbn; intros H; [constructor|]. inversion H; subst. constructor; [intros Hi; apply H2; apply in_or_app; auto|auto]. Qed.
Lemma NoDup_mid {A} (a : list A) x b : NoDup (a ++ x :: b) -> ~ In x a /\ ~ In x b /\ NoDup (a ++ b).
Proof.
  intros H. pose proof (NoDup_remove_1 _ _ _ H). pose proof (NoDup_remove_2 _ _ _ H) as H2.
  repeat split; auto; intros Hi; apply H2; apply in_or_app; auto.
Qed.

(* ---------- the steps of the mutex holder ---------- *)
Lemma lst_lt g p k : GS g p -> In k (lst g) -> (k < nheap g)%nat.
Proof. intros G H. apply isnode_lt. apply (gs_nodes _ _ G). exact H. Qed.

Lemma pubn_lt g k : pubn g k -> (k < nheap g)%nat.
Proof. intros [H _]. apply isnode_lt. exact H. Qed.

Lemma step_P_alloc g o lo' hi' :
  GS g (P_alloc o) ->
  (is_front o = true /\ lo' = lo g - 1 /\ hi' = hi g) \/ (is_front o = false /\ lo' = lo g /\ hi' = hi g + 1) ->
  let g' := with_pos (fst (do_alloc g (BNode dnode))) lo' hi' in
  GS g' (P_constr o (nheap g)) /\ mono g g'.
Proof.
  intros G Hpos g'. set (n := nheap g).
  assert (EI : forall k, isnode g' k = if Nat.eqb k n then true else isnode g k).
  { intros k. unfold g', isnode at 1. change (getc (with_pos ?x _ _) k) with (getc x k).
    fold (isnode (fst (do_alloc g (BNode dnode))) k). rewrite isnode_alloc. reflexivity. }
  assert (EG : forall k, gnode g' k = gnode g k).
  { intros k. unfold g', gnode at 1. change (getc (with_pos ?x _ _) k) with (getc x k).
    rewrite getc_alloc. fold n. destruct (Nat.eqb_spec k n) as [Ekn|]; [rewrite Ekn in *; clear Ekn|]; [|reflexivity].
    unfold gnode. rewrite getc_ge by (unfold n; lia). reflexivity. }
  assert (ER : forall k, isrec g k = true -> isrec g' k = true).
  { intros k H. unfold g', isrec at 1. change (getc (with_pos ?x _ _) k) with (getc x k).
    fold (isrec (fst (do_alloc g (BNode dnode))) k). rewrite isrec_alloc.
    destruct (Nat.eqb_spec k (nheap g)) as [->|]; [|exact H]. apply isrec_lt in H. lia. }
  assert (EN : forall k, nx g' k = nx g k) by (intros; unfold nx; rewrite EG; reflexivity).
  assert (EB : forall k, bk g' k = bk g k) by (intros; unfold bk; rewrite EG; reflexivity).
  assert (ED : forall k, dl g' k = dl g k) by (intros; unfold dl; rewrite EG; reflexivity).
  assert (EP : forall k, ps g' k = ps g k) by (intros; unfold ps; rewrite EG; reflexivity).
  assert (EL : lst g' = lst g) by reflexivity.
  assert (Hn : isnode g n = false) by (unfold isnode; rewrite getc_ge by (unfold n; lia); reflexivity).
  assert (Hnl : ~ In n (lst g)) by (intros H; apply (lst_lt _ _ _ G) in H; unfold n in H; lia).
  assert (Hpub : forall k, pubn g k -> pubn g' k).
  { intros k [A B]. split; [rewrite EI; destruct (Nat.eqb k n); auto|rewrite EL, ED; exact B]. }
  assert (Hpub' : forall k, pubn g' k -> pubn g k).
  { intros k [A B]. rewrite EL, ED in B. split; [|exact B]. rewrite EI in A.
    destruct (Nat.eqb_spec k n) as [Ekn|]; [rewrite Ekn in *; clear Ekn|]; [|exact A]. exfalso. destruct B as [B|B]; [auto|].
    unfold dl, gnode in B. rewrite getc_ge in B by (unfold n; lia). discriminate. }
  destruct G as [H1 H2 H3 H4 H5 H6 H7 H8 H9 H10]. split; [|split; auto].
  constructor.
  - rewrite EL. exact H1.
  - intros k Hk. rewrite EI. destruct (Nat.eqb k n); auto.
  - destruct H3 as [A B]. split; [exact A|]. eapply chn_ext; [|exact B]. intros; apply EN.
  - intros k Hk. rewrite EI in Hk. rewrite EL, ED. cbn [priv_node].
    destruct (Nat.eqb_spec k n) as [Ekn|]; [rewrite Ekn in *; clear Ekn|]; [auto|]. destruct (H4 k Hk) as [A|[A|A]]; auto. discriminate.
  - intros k Hk Hd. rewrite ED in Hd. specialize (H5 k Hk Hd). discriminate.
  - intros k m Hk Hm. rewrite EN in Hm. destruct (H6 k m (Hpub' _ Hk) Hm) as [A B]. split; [auto|rewrite !EP; exact B].
  - destruct H7 as [A B]. assert (Elo : lo g' = lo') by reflexivity. assert (Ehi : hi g' = hi') by reflexivity.
    rewrite Elo, Ehi. split; [destruct Hpos as [(_ & -> & ->)|(_ & -> & ->)]; lia|].
    intros k Hk. rewrite EI in Hk. rewrite EP.
    destruct (Nat.eqb_spec k n) as [Ekn|].
    + rewrite Ekn. unfold ps, gnode. rewrite getc_ge by (unfold n; lia). cbn. destruct Hpos as [(_ & -> & ->)|(_ & -> & ->)]; lia.
    + specialize (B k Hk). destruct Hpos as [(_ & -> & ->)|(_ & -> & ->)]; lia.
  - cbn [back_ok] in *. destruct H8 as [A B]. split; [|exact B]. eapply bwdl_ext; [|exact A]. intros; apply EB.
  - cbn [hold_ok]. repeat split.
    + unfold g', cs_of. change (getc (with_pos ?x _ _) n) with (getc x n). rewrite getc_alloc. unfold n. rewrite Nat.eqb_refl. reflexivity.
    + rewrite EG. unfold gnode. rewrite getc_ge by (unfold n; lia). reflexivity.
    + rewrite EI, Nat.eqb_refl. reflexivity.
    + exact Hnl.
    + unfold strict, strictF, strictB. destruct H7 as [_ B].
      destruct Hpos as [(-> & E1 & E2)|(-> & E1 & E2)]; intros k Hk Hne; rewrite EI in Hk;
        destruct (Nat.eqb_spec k n); try contradiction; rewrite EP;
        [change (lo g') with lo'|change (hi g') with hi']; specialize (B k Hk); lia.
  - exact H10.
Qed.

(* g' differs from g (as far as Layer A can see) only in the contents of node cell k *)
Record nodeupd (g g' : glob) (k : nat) : Prop := {
  nu_isnode : forall j, isnode g' j = isnode g j;
  nu_isrec : forall j, isrec g' j = isrec g j;
  nu_head : head g' = head g; nu_tail : tail g' = tail g; nu_lst : lst g' = lst g; nu_mlog : mlog g' = mlog g;
  nu_lo : lo g' = lo g; nu_hi : hi g' = hi g;
  nu_gnode : forall j, j <> k -> gnode g' j = gnode g j
}.
Lemma nodeupd_setn g k n : isnode g k = true -> nodeupd g (setn g k n) k.
Proof.
  intros H. destruct (nviews_setn g k n H). constructor; auto. intros j Hj. apply gnode_setn_ne. exact Hj.
Qed.
Lemma nodeupd_construct g k n : isnode g k = true -> nodeupd g (fst (do_construct g k (BNode n))) k.
Proof.
  intros H. destruct (construct_fields g k (BNode n)) as (F1 & F2 & F3 & F4 & F5 & F6 & F7 & F8 & F9 & F10 & F11 & F12).
  constructor; auto.
  - intros j. apply isnode_construct_node. exact H.
  - intros j. apply isrec_construct_node. exact H.
  - intros j Hj. rewrite gnode_construct_node by exact H. destruct (Nat.eqb_spec j k); [contradiction|reflexivity].
Qed.
Lemma nodeupd_views g g' k : nodeupd g g' k ->
  (forall j, j <> k -> nx g' j = nx g j) /\ (forall j, j <> k -> bk g' j = bk g j) /\
  (forall j, j <> k -> dl g' j = dl g j) /\ (forall j, j <> k -> ps g' j = ps g j).
Proof. intros U. unfold nx, bk, dl, ps. repeat split; intros j Hj; rewrite (nu_gnode _ _ _ U j Hj); reflexivity. Qed.

(* an update of the holder's private (unpublished) node leaves the list structure alone *)
Lemma GS_priv_upd g g' p p' n :
  nodeupd g g' n -> GS g p ->
  priv_node p = Some n -> priv_node p' = Some n -> erasing p = None -> erasing p' = None ->
  (back_ok g p = (bwdl g None (lst g) /\ tail g = last_opt (lst g))) ->
  (back_ok g' p' = (bwdl g' None (lst g') /\ tail g' = last_opt (lst g'))) ->
  ~ In n (lst g) -> dl g n = false -> dl g' n = false -> lo g <= ps g' n <= hi g ->
  hold_ok g' p' ->
  GS g' p' /\ mono g g'.
Proof.
  intros U G Pp Pp' Ep Ep' Bp Bp' Hnl Hd Hd' Hps Hh.
  destruct (nodeupd_views _ _ _ U) as (EN & EB & ED & EP).
  pose proof (nu_lst _ _ _ U) as EL. pose proof (nu_isnode _ _ _ U) as EI.
  assert (Hne : forall k, In k (lst g) -> k <> n) by (intros k Hk ->; auto).
  assert (Hpub : forall k, pubn g k -> pubn g' k /\ k <> n).
  { intros k [A B]. assert (k <> n) as Hk by (intros ->; destruct B as [B|B]; [auto|congruence]).
    split; [|exact Hk]. split; [rewrite EI; exact A|rewrite EL, ED by exact Hk; exact B]. }
  assert (Hpub' : forall k, pubn g' k -> pubn g k /\ k <> n).
  { intros k [A B]. rewrite EL in B. assert (k <> n) as Hk by (intros ->; destruct B as [B|B]; [auto|congruence]).
    split; [|exact Hk]. split; [rewrite <- EI; exact A|rewrite <- ED by exact Hk; exact B]. }
  destruct G as [H1 H2 H3 H4 H5 H6 H7 H8 H9 H10]. split.
  - constructor.
    + rewrite EL. exact H1.
    + intros k. rewrite EL, EI. auto.
    + destruct H3 as [A B]. split; [rewrite (nu_head _ _ _ U), EL; exact A|]. rewrite EL.
      eapply chn_ext; [|exact B]. intros a Ha. apply EN. auto.
    + intros k Hk. rewrite EI in Hk. rewrite EL, Pp'. destruct (Nat.eq_dec k n) as [->|Hkn]; [auto|].
      rewrite ED by exact Hkn. destruct (H4 k Hk) as [A|[A|A]]; auto. rewrite Pp in A. auto.
    + intros k Hk Hdk. rewrite EL in Hk. rewrite ED in Hdk by auto. specialize (H5 k Hk Hdk). congruence.
    + intros k m Hk Hm. destruct (Hpub' _ Hk) as [Hk0 Hkn]. rewrite EN in Hm by exact Hkn.
      destruct (H6 k m Hk0 Hm) as [A B]. destruct (Hpub _ A) as [A' Hmn].
      split; [exact A'|]. rewrite !EP by auto. exact B.
    + rewrite (nu_lo _ _ _ U), (nu_hi _ _ _ U). destruct H7 as [A B]. split; [exact A|].
      intros k Hk. rewrite EI in Hk. destruct (Nat.eq_dec k n) as [->|Hkn]; [exact Hps|]. rewrite EP by exact Hkn. auto.
    + rewrite Bp'. rewrite Bp in H8. destruct H8 as [A B]. rewrite EL, (nu_tail _ _ _ U). split; [|exact B].
      eapply bwdl_ext; [|exact A]. intros a Ha. apply EB. auto.
    + exact Hh.
    + rewrite EL, (nu_mlog _ _ _ U). exact H10.
  - split; [intros k Hk; apply Hpub; exact Hk|intros k Hk; rewrite (nu_isrec _ _ _ U); exact Hk].
Qed.

Lemma strictF_upd g g' n : nodeupd g g' n -> strictF g n -> strictF g' n.
Proof.
  intros U H k Hk Hkn. destruct (nodeupd_views _ _ _ U) as (_ & _ & _ & EP).
  rewrite (nu_isnode _ _ _ U) in Hk. rewrite (nu_lo _ _ _ U), EP by exact Hkn. auto.
Qed.
Lemma strictB_upd g g' n : nodeupd g g' n -> strictB g n -> strictB g' n.
Proof.
  intros U H k Hk Hkn. destruct (nodeupd_views _ _ _ U) as (_ & _ & _ & EP).
  rewrite (nu_isnode _ _ _ U) in Hk. rewrite (nu_hi _ _ _ U), EP by exact Hkn. auto.
Qed.
Lemma strict_upd g g' o n : nodeupd g g' n -> strict g o n -> strict g' o n.
Proof. unfold strict. destruct (is_front o); [apply strictF_upd|apply strictB_upd]. Qed.

Lemma step_P_constr g o n v :
  GS g (P_constr o n) ->
  let g' := fst (do_construct g n (BNode (Node None None false v (if is_front o then lo g else hi g)))) in
  GS g' (P_ld o n) /\ mono g g'.
Proof.
  intros G g'. pose proof (gs_hold _ _ G) as Hh. cbn [hold_ok] in Hh. destruct Hh as (Hc & Hg & Hi & Hnl & Hs).
  pose proof (nodeupd_construct g n (Node None None false v (if is_front o then lo g else hi g)) Hi) as U. fold g' in U.
  assert (gnode g' n = Node None None false v (if is_front o then lo g else hi g)) as En.
  { unfold g'. rewrite gnode_construct_node by exact Hi. rewrite Nat.eqb_refl.
    apply cs_is_iff in Hc. rewrite Hc. reflexivity. }
  destruct (gs_pos _ _ G) as [[P1 P2] _].
  eapply GS_priv_upd; eauto; try reflexivity.
  - unfold dl. rewrite Hg. reflexivity.
  - unfold dl. rewrite En. reflexivity.
  - unfold ps. rewrite En. cbn. destruct (is_front o); lia.
  - cbn [hold_ok]. unfold fresh_node, nx, bk, dl, ps. rewrite En, (nu_isnode _ _ _ U), (nu_lst _ _ _ U), (nu_lo _ _ _ U), (nu_hi _ _ _ U).
    cbn. repeat split; auto. eapply strict_upd; eauto.
Qed.

Lemma step_PF_next g n old :
  GS g (PF_next n old) ->
  let g' := setn g n (n_next (gnode g n) (Some old)) in
  GS g' (PF_back n old) /\ mono g g'.
Proof.
  intros G g'. pose proof (gs_hold _ _ G) as Hh. cbn [hold_ok] in Hh.
  destruct Hh as ((Hi & Hnl & Hx & Hb & Hd & Hp & Hs) & Hhd). cbn in Hp, Hs.
  pose proof (nodeupd_setn g n (n_next (gnode g n) (Some old)) Hi) as U. fold g' in U.
  destruct (set_next_views g n (Some old) Hi) as (EN & EB & ED & EP). fold g' in EN, EB, ED, EP.
  destruct (gs_pos _ _ G) as [_ P].
  eapply GS_priv_upd; eauto; try reflexivity.
  - rewrite EP. apply P. exact Hi.
  - cbn [hold_ok]. rewrite (nu_isnode _ _ _ U), (nu_lst _ _ _ U), EN, EB, ED, EP, Nat.eqb_refl, (nu_lo _ _ _ U).
    repeat split; auto. eapply strictF_upd; eauto.
Qed.

Lemma step_PB_back g n old :
  GS g (PB_back n old) ->
  let g' := setn g n (n_back (gnode g n) (Some old)) in
  GS g' (PB_next n old) /\ mono g g'.
Proof.
  intros G g'. pose proof (gs_hold _ _ G) as Hh. cbn [hold_ok] in Hh.
  destruct Hh as ((Hi & Hnl & Hx & Hb & Hd & Hp & Hs) & Hhd). cbn in Hp, Hs.
  pose proof (nodeupd_setn g n (n_back (gnode g n) (Some old)) Hi) as U. fold g' in U.
  destruct (set_back_views g n (Some old) Hi) as (EN & EB & ED & EP). fold g' in EN, EB, ED, EP.
  destruct (gs_pos _ _ G) as [_ P].
  eapply GS_priv_upd; eauto; try reflexivity.
  - rewrite EP. apply P. exact Hi.
  - cbn [hold_ok]. rewrite (nu_isnode _ _ _ U), (nu_lst _ _ _ U), EN, EB, ED, EP, Nat.eqb_refl, (nu_hi _ _ _ U).
    repeat split; auto. eapply strictB_upd; eauto.
Qed.

(* P_ld: the load of m_head / m_tail only chooses the branch *)
Lemma GS_hold_only g p p' :
  GS g p -> priv_node p' = priv_node p -> erasing p' = erasing p -> back_ok g p' = back_ok g p -> hold_ok g p' -> GS g p'.
Proof.
  intros [H1 H2 H3 H4 H5 H6 H7 H8 H9 H10] Pp Ep Bp Hh. constructor; auto.
  - rewrite Pp. exact H4.
  - rewrite Ep. exact H5.
  - rewrite Bp. exact H8.
Qed.
Lemma step_P_ld g o n :
  GS g (P_ld o n) ->
  GS g (if is_front o then match head g with None => P_e1 o n | Some old => PF_next n old end
        else match tail g with None => P_e1 o n | Some old => PB_back n old end).
Proof.
  intros G. pose proof (gs_hold _ _ G) as Hh. cbn [hold_ok] in Hh.
  pose proof (gs_fwd _ _ G) as [Hf _]. pose proof (gs_back _ _ G) as Hb. cbn [back_ok] in Hb. destruct Hb as [_ Ht].
  destruct (is_front o) eqn:Ef.
  - destruct (head g) as [old|] eqn:Eh; eapply GS_hold_only; eauto; cbn [hold_ok].
    + split; [|congruence]. unfold fresh_node, strict in *. rewrite Ef in Hh. exact Hh.
    + split; [exact Hh|]. destruct (lst g); [reflexivity|discriminate].
  - destruct (tail g) as [old|] eqn:Et; eapply GS_hold_only; eauto; cbn [hold_ok].
    + split; [|congruence]. unfold fresh_node, strict in *. rewrite Ef in Hh. exact Hh.
    + split; [exact Hh|]. apply last_opt_none. congruence.
Qed.

(* ---------- publication of the first element ---------- *)
Lemma step_P_e1 g o n :
  GS g (P_e1 o n) ->
  let g' := commit (with_head g (Some n)) (if is_front o then MPushF n else MPushB n) in
  GS g' (P_e2 n) /\ mono g g'.
Proof.
  intros G g'. pose proof (gs_hold _ _ G) as Hh. cbn [hold_ok] in Hh.
  destruct Hh as ((Hi & Hnl & Hx & Hb & Hd & Hp & Hs) & Hl).
  assert (EL : lst g' = [n]) by (unfold g'; cbn; rewrite Hl; destruct (is_front o); reflexivity).
  assert (EV : forall k, gnode g' k = gnode g k) by reflexivity.
  assert (EI : forall k, isnode g' k = isnode g k) by reflexivity.
  assert (Hpub : forall k, pubn g k -> pubn g' k).
  { intros k [A B]. split; [exact A|]. rewrite Hl in B. destruct B as [[]|B]. right. exact B. }
  destruct G as [H1 H2 H3 H4 H5 H6 H7 H8 H9 H10]. split; [|split; [exact Hpub|auto]].
  constructor.
  - rewrite EL. constructor; [intros []|constructor].
  - intros k. rewrite EL. intros [<-|[]]. exact Hi.
  - rewrite EL. split; [reflexivity|]. cbn. split; [exact Hx|exact I].
  - intros k Hk. rewrite EL. destruct (H4 k Hk) as [A|[A|A]]; [rewrite Hl in A; destruct A|auto|].
    cbn in A. inversion A. left. left. reflexivity.
  - intros k. rewrite EL. intros [<-|[]] Hdk. change (dl g' n) with (dl g n) in Hdk. congruence.
  - intros k m [A B] Hm. rewrite EL in B. change (nx g' k) with (nx g k) in Hm.
    assert (pubn g k) as Hk.
    { destruct B as [[<-|[]]|B]; [congruence|]. split; [exact A|right; exact B]. }
    destruct (H6 k m Hk Hm) as [C D]. split; [apply Hpub; exact C|exact D].
  - exact H7.
  - cbn [back_ok] in *. rewrite EL. destruct H8 as [_ Ht]. rewrite Hl in Ht. repeat split; auto.
  - exact I.
  - unfold g'. cbn [lst mlog commit with_head]. rewrite fold_apply_app, <- H10. reflexivity.
Qed.

(* same node-level views except back pointers and m_tail *)
Record sameN (g g' : glob) : Prop := {
  sn_head : head g' = head g; sn_lst : lst g' = lst g;
  sn_mlog : lst g = fold_left apply_m (mlog g) [] -> lst g' = fold_left apply_m (mlog g') [];
  sn_lo : lo g' = lo g; sn_hi : hi g' = hi g;
  sn_nx : forall k, nx g' k = nx g k; sn_dl : forall k, dl g' k = dl g k; sn_ps : forall k, ps g' k = ps g k;
  sn_isnode : forall k, isnode g' k = isnode g k;
  sn_isrec : forall k, isrec g' k = isrec g k
}.
Lemma sameN_tail g x : sameN g (with_tail g x).
Proof. constructor; try reflexivity. auto. Qed.
Lemma sameN_refl g : sameN g g.
Proof. constructor; try reflexivity. auto. Qed.
Lemma pubn_sameN g g' k : sameN g g' -> pubn g k <-> pubn g' k.
Proof.
  intros S. unfold pubn. rewrite (sn_isnode _ _ S), (sn_lst _ _ S), (sn_dl _ _ S). tauto.
Qed.
Lemma mono_sameN g g' : sameN g g' -> mono g g'.
Proof. intros S. split; [intros k; apply (pubn_sameN _ _ _ S)|intros k; rewrite (sn_isrec _ _ S); auto]. Qed.
Lemma GS_sameN g g' p p' :
  sameN g g' -> GS g p ->
  (forall k, priv_node p = Some k -> priv_node p' = Some k \/ In k (lst g) \/ dl g k = true) ->
  (forall k, erasing p = Some k -> erasing p' = Some k \/ ~ In k (lst g)) ->
  back_ok g' p' -> hold_ok g' p' -> GS g' p'.
Proof.
  intros S [H1 H2 H3 H4 H5 H6 H7 H8 H9 H10] Pp Ep Hb Hh.
  pose proof (sn_nx _ _ S) as EN. pose proof (sn_dl _ _ S) as ED. pose proof (sn_ps _ _ S) as EP.
  pose proof (sn_lst _ _ S) as EL. pose proof (sn_isnode _ _ S) as EI.
  constructor; auto.
  - rewrite EL. exact H1.
  - intros k. rewrite EL, EI. auto.
  - destruct H3 as [A B]. split; [rewrite (sn_head _ _ S), EL; exact A|rewrite EL; eapply chn_ext; [|exact B]; intros; apply EN].
  - intros k Hk. rewrite EI in Hk. rewrite EL, ED. destruct (H4 k Hk) as [A|[A|A]]; auto.
    destruct (Pp k A) as [B|[B|B]]; auto.
  - intros k Hk Hd. rewrite EL in Hk. rewrite ED in Hd. destruct (Ep k (H5 k Hk Hd)) as [A|A]; [exact A|contradiction].
  - intros k m Hk Hm. rewrite EN in Hm. apply (pubn_sameN _ _ _ S) in Hk. destruct (H6 k m Hk Hm) as [A B].
    split; [apply (pubn_sameN _ _ _ S); exact A|rewrite !EP; exact B].
  - rewrite (sn_lo _ _ S), (sn_hi _ _ S). destruct H7 as [A B]. split; [exact A|]. intros k. rewrite EI, EP. auto.
  - apply (sn_mlog _ _ S). exact H10.
Qed.

Lemma step_P_e2 g n :
  GS g (P_e2 n) -> GS (with_tail g (Some n)) P_unlock /\ mono g (with_tail g (Some n)).
Proof.
  intros G. pose proof (gs_back _ _ G) as Hb. cbn [back_ok] in Hb. destruct Hb as (Hl & Hb & Ht).
  split; [|apply mono_sameN, sameN_tail].
  eapply GS_sameN; [apply sameN_tail|exact G| | | |exact I].
  - intros k E. discriminate.
  - intros k E. discriminate.
  - cbn [back_ok]. change (lst (with_tail g (Some n))) with (lst g). rewrite Hl. cbn. repeat split. exact Hb.
Qed.

Lemma sameN_set_back g k x : isnode g k = true -> sameN g (setn g k (n_back (gnode g k) x)).
Proof.
  intros H. destruct (set_back_views g k x H) as (EN & EB & ED & EP). destruct (nviews_setn g k (n_back (gnode g k) x) H).
  constructor; auto. congruence.
Qed.

Lemma strictF_sameN g g' n : sameN g g' -> strictF g n -> strictF g' n.
Proof. intros S H k Hk Hkn. rewrite (sn_isnode _ _ S) in Hk. rewrite (sn_lo _ _ S), (sn_ps _ _ S). auto. Qed.
Lemma strictB_sameN g g' n : sameN g g' -> strictB g n -> strictB g' n.
Proof. intros S H k Hk Hkn. rewrite (sn_isnode _ _ S) in Hk. rewrite (sn_hi _ _ S), (sn_ps _ _ S). auto. Qed.

Lemma step_PF_back g n old :
  GS g (PF_back n old) ->
  let g' := setn g old (n_back (gnode g old) (Some n)) in
  GS g' (PF_head n) /\ mono g g'.
Proof.
  intros G g'. pose proof (gs_hold _ _ G) as Hh. cbn [hold_ok] in Hh.
  destruct Hh as (Hi & Hnl & Hx & Hb & Hd & Hp & Hs & Hhd).
  destruct (hd_opt_In _ _ Hhd) as [r Er].
  assert (Hio : isnode g old = true) by (apply (gs_nodes _ _ G); rewrite Er; left; reflexivity).
  pose proof (sameN_set_back g old (Some n) Hio) as S. fold g' in S.
  destruct (set_back_views g old (Some n) Hio) as (_ & EB & _ & _). fold g' in EB.
  assert (Hno : n <> old) by (intros ->; apply Hnl; rewrite Er; left; reflexivity).
  split; [|apply mono_sameN; exact S].
  eapply GS_sameN; [exact S|exact G| | | |].
  - intros k E. left. exact E.
  - intros k E. discriminate.
  - cbn [back_ok]. rewrite (sn_lst _ _ S). pose proof (gs_back _ _ G) as Hbk. cbn [back_ok] in Hbk. destruct Hbk as [Hbw Ht].
    split; [|destruct (nviews_setn g old (n_back (gnode g old) (Some n)) Hio) as [_ _ _ _ T _ _ _ _ _]; fold g' in T; rewrite T; exact Ht].
    rewrite Er in *. cbn [bwdl] in *. destruct Hbw as [_ Hbw]. split; [rewrite EB, Nat.eqb_refl; reflexivity|].
    eapply bwdl_ext; [|exact Hbw]. intros a Ha. rewrite EB. destruct (Nat.eqb_spec a old) as [->|]; [|reflexivity].
    pose proof (gs_nodup _ _ G) as ND. rewrite Er in ND. inversion ND; contradiction.
  - cbn [hold_ok]. exists old. rewrite (sn_isnode _ _ S), (sn_lst _ _ S), (sn_nx _ _ S), (sn_dl _ _ S), (sn_ps _ _ S), (sn_lo _ _ S), EB.
    destruct (Nat.eqb_spec n old); [contradiction|]. repeat split; auto. eapply strictF_sameN; eauto.
Qed.

Lemma step_PF_head g n :
  GS g (PF_head n) ->
  let g' := commit (with_head g (Some n)) (MPushF n) in
  GS g' P_unlock /\ mono g g'.
Proof.
  intros G g'. pose proof (gs_hold _ _ G) as Hh. cbn [hold_ok] in Hh.
  destruct Hh as (old & Hi & Hnl & Hx & Hb & Hd & Hp & Hs & Hhd).
  destruct (hd_opt_In _ _ Hhd) as [r Er].
  assert (EL : lst g' = n :: lst g) by reflexivity.
  assert (Hpub : forall k, pubn g k -> pubn g' k).
  { intros k [A B]. split; [exact A|]. rewrite EL. destruct B; [left; right; auto|right; auto]. }
  assert (Hpubn : pubn g' n) by (split; [exact Hi|left; rewrite EL; left; reflexivity]).
  destruct G as [H1 H2 H3 H4 H5 H6 H7 H8 H9 H10]. split; [|split; [exact Hpub|auto]].
  constructor.
  - rewrite EL. constructor; auto.
  - intros k. rewrite EL. intros [<-|Hk]; [exact Hi|apply H2; exact Hk].
  - rewrite EL. destruct H3 as [A B]. split; [reflexivity|]. cbn [chn]. split; [|eapply chn_ext; [|exact B]; reflexivity].
    change (nx g' n) with (nx g n). rewrite Hx, Er. reflexivity.
  - intros k Hk. rewrite EL. destruct (H4 k Hk) as [A|[A|A]]; [left; right; exact A|right; left; exact A|].
    cbn in A. inversion A. left. left. reflexivity.
  - intros k. rewrite EL. intros [<-|Hk] Hdk; [change (dl g' n) with (dl g n) in Hdk; congruence|].
    specialize (H5 k Hk Hdk). discriminate.
  - intros k m [A B] Hm. rewrite EL in B. change (nx g' k) with (nx g k) in Hm.
    destruct (Nat.eq_dec k n) as [->|Hkn].
    + rewrite Hx in Hm. inversion Hm; subst m. split.
      * apply Hpub. split; [apply H2; rewrite Er; left; reflexivity|left; rewrite Er; left; reflexivity].
      * change (ps g' n) with (ps g n). change (ps g' old) with (ps g old). rewrite Hp. apply Hs.
        -- apply H2. rewrite Er. left. reflexivity.
        -- intros ->. apply Hnl. rewrite Er. left. reflexivity.
    + assert (pubn g k) as Hk.
      { split; [exact A|]. destruct B as [[E|B]|B]; [congruence|left; exact B|right; exact B]. }
      destruct (H6 k m Hk Hm) as [C D]. split; [apply Hpub; exact C|exact D].
  - exact H7.
  - cbn [back_ok] in *. rewrite EL. destruct H8 as [Hbw Ht]. cbn [bwdl]. repeat split; [exact Hb|eapply bwdl_ext; [|exact Hbw]; reflexivity|].
    change (tail g') with (tail g). rewrite Ht, Er. reflexivity.
  - exact I.
  - unfold g'. cbn [lst mlog commit with_head]. rewrite fold_apply_app, <- H10. reflexivity.
Qed.

Lemma NoDup_snoc {A} (l : list A) x : NoDup l -> ~ In x l -> NoDup (l ++ [x]).
Proof.
  induction l as [|a r IH]; cbn; intros H Hx; [constructor; [intros []|constructor]|].
  inversion H; subst. constructor.
  - intros Hi. apply in_app_or in Hi. destruct Hi as [Hi|[->|[]]]; [contradiction|]. apply Hx. left. reflexivity.
  - apply IH; auto.
Qed.

Lemma step_PB_next g n old :
  GS g (PB_next n old) ->
  let g' := commit (setn g old (n_next (gnode g old) (Some n))) (MPushB n) in
  GS g' (PB_tail n) /\ mono g g'.
Proof.
  intros G g'. pose proof (gs_hold _ _ G) as Hh. cbn [hold_ok] in Hh.
  destruct Hh as (Hi & Hnl & Hx & Hb & Hd & Hp & Hs & Hla).
  destruct (last_opt_split _ _ Hla) as [l0 El].
  assert (Hio : isnode g old = true) by (apply (gs_nodes _ _ G); rewrite El; apply in_or_app; right; left; reflexivity).
  set (g1 := setn g old (n_next (gnode g old) (Some n))).
  destruct (set_next_views g old (Some n) Hio) as (EN & EB & ED & EP). fold g1 in EN, EB, ED, EP.
  destruct (nviews_setn g old (n_next (gnode g old) (Some n)) Hio) as [VI VR VC VH VT VL VM VLo VHi VX]. fold g1 in VI, VR, VC, VH, VT, VL, VM, VLo, VHi, VX.
  assert (EL : lst g' = lst g ++ [n]) by (change (lst g') with (lst g1 ++ [n]); rewrite VL; reflexivity).
  assert (Hno : n <> old) by (intros ->; apply Hnl; rewrite El; apply in_or_app; right; left; reflexivity).
  pose proof (gs_nodup _ _ G) as ND.
  assert (Hol0 : ~ In old l0).
  { rewrite El in ND. apply NoDup_remove_2 in ND. rewrite app_nil_r in ND. exact ND. }
  assert (Hpub : forall k, pubn g k -> pubn g' k).
  { intros k [A B]. split; [change (isnode g' k) with (isnode g1 k); rewrite VI; exact A|].
    rewrite EL. change (dl g' k) with (dl g1 k). rewrite ED. destruct B; [left; apply in_or_app; auto|right; auto]. }
  assert (Hpubn : pubn g' n).
  { split; [change (isnode g' n) with (isnode g1 n); rewrite VI; exact Hi|left; rewrite EL; apply in_or_app; right; left; reflexivity]. }
  destruct G as [H1 H2 H3 H4 H5 H6 H7 H8 H9 H10].
  split; [|split; [exact Hpub|intros k Hk; change (isrec g' k) with (isrec g1 k); rewrite VR; exact Hk]].
  constructor.
  - rewrite EL. apply NoDup_snoc; auto.
  - intros k. rewrite EL. intros Hk. change (isnode g' k) with (isnode g1 k). rewrite VI.
    apply in_app_or in Hk. destruct Hk as [Hk|[<-|[]]]; [apply H2; exact Hk|exact Hi].
  - rewrite EL. destruct H3 as [A B]. split.
    + change (head g') with (head g1). rewrite VH, A, El. destruct l0; reflexivity.
    + rewrite El in B |- *. rewrite <- app_assoc. cbn [app]. apply chn_app in B. destruct B as [B1 B2].
      apply chn_app. cbn [hd_or chn] in *. change (nx g' old) with (nx g1 old). change (nx g' n) with (nx g1 n).
      rewrite !EN, Nat.eqb_refl. destruct (Nat.eqb_spec n old); [contradiction|]. repeat split; auto.
      eapply chn_ext; [|exact B1]. intros a Ha. change (nx g' a) with (nx g1 a). rewrite EN.
      destruct (Nat.eqb_spec a old) as [->|]; [contradiction|reflexivity].
  - intros k Hk. change (isnode g' k) with (isnode g1 k) in Hk. rewrite VI in Hk. rewrite EL. change (dl g' k) with (dl g1 k). rewrite ED.
    destruct (H4 k Hk) as [A|[A|A]]; [left; apply in_or_app; auto|auto|].
    cbn in A. inversion A. left. apply in_or_app. right. left. reflexivity.
  - intros k. rewrite EL. change (dl g' k) with (dl g1 k). rewrite ED. intros Hk Hdk.
    apply in_app_or in Hk. destruct Hk as [Hk|[<-|[]]]; [specialize (H5 k Hk Hdk); discriminate|congruence].
  - intros k m [A B] Hm. change (nx g' k) with (nx g1 k) in Hm. rewrite EN in Hm.
    change (ps g' k) with (ps g1 k). change (ps g' m) with (ps g1 m). rewrite !EP.
    change (isnode g' k) with (isnode g1 k) in A. rewrite VI in A. change (dl g' k) with (dl g1 k) in B. rewrite ED, EL in B.
    destruct (Nat.eqb_spec k old) as [->|Hko].
    + inversion Hm; subst m. split; [exact Hpubn|]. rewrite Hp. apply Hs; auto.
    + destruct (Nat.eq_dec k n) as [->|Hkn]; [congruence|].
      assert (pubn g k) as Hk.
      { split; [exact A|]. destruct B as [B|B]; [|right; exact B]. apply in_app_or in B. destruct B as [B|[B|[]]]; [left; exact B|congruence]. }
      destruct (H6 k m Hk Hm) as [C D]. split; [apply Hpub; exact C|exact D].
  - change (lo g') with (lo g1). change (hi g') with (hi g1). rewrite VLo, VHi. destruct H7 as [A B]. split; [exact A|].
    intros k Hk. change (isnode g' k) with (isnode g1 k) in Hk. rewrite VI in Hk. change (ps g' k) with (ps g1 k). rewrite EP. auto.
  - cbn [back_ok] in *. rewrite EL. destruct H8 as [Hbw Ht]. split.
    + apply bwdl_app. split.
      * eapply bwdl_ext; [|exact Hbw]. intros a Ha. change (bk g' a) with (bk g1 a). apply EB.
      * unfold last_or. rewrite Hla. cbn. split; [|exact I]. change (bk g' n) with (bk g1 n). rewrite EB. exact Hb.
    + exists (lst g). split; [reflexivity|]. change (tail g') with (tail g1). rewrite VT. exact Ht.
  - exact I.
  - change (lst g') with (apply_m (lst g1) (MPushB n)). change (mlog g') with (mlog g1 ++ [MPushB n]).
    rewrite VM, VL, fold_apply_app, <- H10. reflexivity.
Qed.

Lemma step_PB_tail g n :
  GS g (PB_tail n) -> GS (with_tail g (Some n)) P_unlock /\ mono g (with_tail g (Some n)).
Proof.
  intros G. pose proof (gs_back _ _ G) as Hb. cbn [back_ok] in Hb. destruct Hb as (Hbw & l0 & Hl & Ht).
  split; [|apply mono_sameN, sameN_tail].
  eapply GS_sameN; [apply sameN_tail|exact G| | | |exact I].
  - intros k E. discriminate.
  - intros k E. discriminate.
  - cbn [back_ok]. change (lst (with_tail g (Some n))) with (lst g). split.
    + eapply bwdl_ext; [|exact Hbw]. reflexivity.
    + rewrite Hl, last_opt_app. reflexivity.
Qed.

(* ---------- erase ---------- *)
(* erase of an already erased node: the sequential no-op *)
Lemma step_E_ld0_noop g p0 c : GS g p0 -> plain p0 = true ->
  pubn g c -> dl g c = true ->
  ~ In c (lst g) /\ forall p', plain p' = true -> GS (commit g (MErase c)) p' /\ mono g (commit g (MErase c)).
Proof.
  intros G Hp0 Hc Hd.
  assert (Hnl : ~ In c (lst g)).
  { intros Hi. pose proof (gs_del _ _ G c Hi Hd) as E. destruct p0; discriminate. }
  split; [exact Hnl|]. intros p' Hp'.
  assert (S : sameN g (commit g (MErase c))).
  { constructor; try reflexivity.
    - cbn. apply remove_nat_notin. exact Hnl.
    - intros H. cbn [lst mlog commit]. rewrite fold_apply_app, <- H. reflexivity. }
  split; [|apply mono_sameN; exact S].
  apply (GS_plain _ Idle p' eq_refl Hp').
  eapply GS_sameN; [exact S|apply (GS_plain _ p0 Idle Hp0 eq_refl G)|intros k E; discriminate|intros k E; discriminate| |exact I].
  cbn [back_ok]. pose proof (gs_back _ _ (GS_plain _ p0 Idle Hp0 eq_refl G)) as Hb. cbn [back_ok] in Hb. destruct Hb as [A B].
  rewrite (sn_lst _ _ S). split; [eapply bwdl_ext; [|exact A]; reflexivity|exact B].
Qed.

(* erase of a node that is in the list: nothing changes until the record has been built *)
Lemma step_E_ld0_go g p0 it c nx0 : GS g p0 -> plain p0 = true -> pubn g c -> dl g c = false -> GS g (E_alloc it c nx0).
Proof.
  intros G Hp0 [Hi [Hc|Hc]] Hd; [|congruence]. pose proof (GS_plain _ p0 Idle Hp0 eq_refl G) as G0.
  eapply GS_sameN; [apply sameN_refl|exact G0|intros k E; discriminate|intros k E; discriminate|exact (gs_back _ _ G0)|].
  cbn [hold_ok]. auto.
Qed.
Lemma GS_retag_hold g p p' : GS g p -> priv_node p = None -> priv_node p' = None -> (forall k, erasing p = Some k -> erasing p' = Some k) ->
  (back_ok g p -> back_ok g p') -> hold_ok g p' -> GS g p'.
Proof.
  intros G Ep Ep' Ee Hb Hh. eapply GS_sameN; [apply sameN_refl|exact G| | |apply Hb; exact (gs_back _ _ G)|exact Hh].
  - intros k E. congruence.
  - intros k E. left. apply Ee. exact E.
Qed.
(* deleted := true and the load of back *)
Lemma step_E_ldb g it c nx0 z :
  GS g (E_ldb it c nx0 z) ->
  let g' := setn g c (n_del (gnode g c)) in
  GS g' (E_ldn it c nx0 (bk g c) z) /\ mono g g'.
Proof.
  intros G g'. pose proof (gs_hold _ _ G) as Hh. cbn [hold_ok] in Hh. destruct Hh as [Hc Hd].
  pose proof (gs_nodes _ _ G c Hc) as Hi.
  destruct (set_del_views g c Hi) as (EN & EB & ED & EP). fold g' in EN, EB, ED, EP.
  destruct (nviews_setn g c (n_del (gnode g c)) Hi) as [VI VR VC VH VT VL VM VLo VHi VX]. fold g' in VI, VR, VC, VH, VT, VL, VM, VLo, VHi, VX.
  assert (Hpub : forall k, pubn g k -> pubn g' k).
  { intros k [A B]. split; [rewrite VI; exact A|]. rewrite VL, ED. destruct (Nat.eqb k c); tauto. }
  assert (Hpub' : forall k, pubn g' k -> pubn g k).
  { intros k [A B]. rewrite VI in A. rewrite VL, ED in B. split; [exact A|].
    destruct (Nat.eqb_spec k c) as [->|]; [left; exact Hc|exact B]. }
  destruct G as [H1 H2 H3 H4 H5 H6 H7 H8 H9 H10].
  split; [|split; [exact Hpub|intros k Hk; rewrite VR; exact Hk]].
  constructor.
  - rewrite VL. exact H1.
  - intros k. rewrite VL, VI. auto.
  - destruct H3 as [A B]. split; [rewrite VH, VL; exact A|rewrite VL; eapply chn_ext; [|exact B]; intros; apply EN].
  - intros k Hk. rewrite VI in Hk. rewrite VL, ED. destruct (H4 k Hk) as [A|[A|A]]; [auto| |discriminate].
    right. left. destruct (Nat.eqb k c); auto.
  - intros k Hk Hdk. rewrite VL in Hk. rewrite ED in Hdk. destruct (Nat.eqb_spec k c) as [->|]; [reflexivity|].
    specialize (H5 k Hk Hdk). cbn [erasing] in H5. congruence.
  - intros k m Hk Hm. rewrite EN in Hm. destruct (H6 k m (Hpub' _ Hk) Hm) as [A B]. split; [auto|rewrite !EP; exact B].
  - rewrite VLo, VHi. destruct H7 as [A B]. split; [exact A|]. intros k. rewrite VI, EP. auto.
  - cbn [back_ok] in *. rewrite VL, VT. destruct H8 as [A B]. split; [|exact B]. eapply bwdl_ext; [|exact A]. intros; apply EB.
  - cbn [hold_ok]. rewrite VL, ED, Nat.eqb_refl. split; [reflexivity|]. destruct (in_split _ _ Hc) as (l1 & l2 & El). exists l1, l2. split; [exact El|].
    cbn [back_ok] in H8. destruct H8 as [A _]. rewrite El in A.
    apply bwdl_app in A. destruct A as [_ A]. cbn [bwdl] in A. destruct A as [A _]. rewrite A.
    unfold last_or. destruct (last_opt l1); reflexivity.
  - rewrite VL, VM. exact H10.
Qed.

Lemma step_E_ldn g it c nx0 pv z :
  GS g (E_ldn it c nx0 pv z) -> GS g (E_s1 it c nx0 pv (nx g c) z).
Proof.
  intros G. pose proof (gs_hold _ _ G) as Hh. cbn [hold_ok] in Hh. destruct Hh as (Hd & l1 & l2 & El & Hpv).
  eapply GS_sameN; [apply sameN_refl|exact G| | | |].
  - intros k E. discriminate.
  - intros k E. left. exact E.
  - exact (gs_back _ _ G).
  - cbn [hold_ok]. split; [exact Hd|]. exists l1, l2. repeat split; auto.
    pose proof (gs_fwd _ _ G) as [_ B]. rewrite El in B. apply chn_app in B. destruct B as [_ B]. cbn [chn] in B. destruct B as [B _]. exact B.
Qed.

Lemma option_eq_dec (a b : option nat) : {a = b} + {a <> b}.
Proof. decide equality. apply Nat.eq_dec. Qed.
Lemma In_last_opt_split l p : last_opt l = Some p -> exists l0, l = l0 ++ [p].
Proof. apply last_opt_split. Qed.

(* the unlink: g1 is g with the predecessor's next (or m_head) redirected to the successor *)
Lemma step_E_s1_gen g g1 it c nx0 pv nxt z :
  GS g (E_s1 it c nx0 pv nxt z) ->
  (forall j, isnode g1 j = isnode g j) -> (forall j, isrec g1 j = isrec g j) ->
  (forall j, bk g1 j = bk g j) -> (forall j, dl g1 j = dl g j) -> (forall j, ps g1 j = ps g j) ->
  lst g1 = lst g -> mlog g1 = mlog g -> lo g1 = lo g -> hi g1 = hi g -> tail g1 = tail g ->
  (forall j, pv <> Some j -> nx g1 j = nx g j) ->
  (forall p, pv = Some p -> nx g1 p = nxt /\ head g1 = head g) ->
  (pv = None -> head g1 = nxt) ->
  let g' := commit g1 (MErase c) in
  GS g' (E_s2 it c nx0 pv nxt z) /\ mono g g'.
Proof.
  intros G VI VR EB ED EP VL VM VLo VHi VT EN EN1 EH g'.
  pose proof (gs_hold _ _ G) as Hh. cbn [hold_ok] in Hh. destruct Hh as (Hd & l1 & l2 & El & Hpv & Hnx).
  pose proof (gs_nodup _ _ G) as ND. rewrite El in ND. destruct (NoDup_mid _ _ _ ND) as (Hc1 & Hc2 & ND').
  assert (EL : lst g' = l1 ++ l2).
  { change (lst g') with (remove_nat c (lst g1)). rewrite VL, El. apply remove_nat_mid; auto. }
  assert (Hic : isnode g c = true) by (apply (gs_nodes _ _ G); rewrite El; apply in_or_app; right; left; reflexivity).
  assert (Hsub : forall k, In k (l1 ++ l2) -> In k (lst g)).
  { intros k Hk. rewrite El. apply in_app_or in Hk. apply in_or_app. destruct Hk; [left|right; right]; auto. }
  assert (Hsub' : forall k, In k (lst g) -> In k (l1 ++ l2) \/ k = c).
  { intros k Hk. rewrite El in Hk. apply in_app_or in Hk. destruct Hk as [Hk|[Hk|Hk]]; [left; apply in_or_app; auto|auto|left; apply in_or_app; auto]. }
  assert (Hpub : forall k, pubn g k -> pubn g' k).
  { intros k [A B]. split; [change (isnode g' k) with (isnode g1 k); rewrite VI; exact A|].
    rewrite EL. change (dl g' k) with (dl g1 k). rewrite ED. destruct B as [B|B]; [|auto].
    destruct (Hsub' _ B) as [B'| ->]; auto. }
  assert (Hpub' : forall k, pubn g' k -> pubn g k).
  { intros k [A B]. change (isnode g' k) with (isnode g1 k) in A. rewrite VI in A. split; [exact A|].
    rewrite EL in B. change (dl g' k) with (dl g1 k) in B. rewrite ED in B. destruct B as [B|B]; auto. }
  pose proof (gs_fwd _ _ G) as [FA FB]. rewrite El in FA, FB.
  apply chn_app in FB. destruct FB as [FB1 FB2]. cbn [chn hd_or] in FB1, FB2. destruct FB2 as [FBc FB2].
  assert (Enxt : nxt = hd_or l2 None) by exact Hnx.
  pose proof (gs_back _ _ G) as Hb. cbn [back_ok] in Hb. destruct Hb as [BA BT]. rewrite El in BA, BT.
  apply bwdl_app in BA. destruct BA as [BA1 BA2]. cbn [bwdl] in BA2. destruct BA2 as [BAc BA2].
  destruct G as [H1 H2 H3 H4 H5 H6 H7 H8 H9 H10].
  split; [|split; [exact Hpub|intros k Hk; change (isrec g' k) with (isrec g1 k); rewrite VR; exact Hk]].
  constructor.
  - rewrite EL. exact ND'.
  - intros k. rewrite EL. intros Hk. change (isnode g' k) with (isnode g1 k). rewrite VI. apply H2. apply Hsub. exact Hk.
  - rewrite EL. change (head g') with (head g1). change (chn g' (l1 ++ l2) None) with (chn g1 (l1 ++ l2) None).
    destruct pv as [p|].
    + symmetry in Hpv. destruct (last_opt_split _ _ Hpv) as [l0 E0]. subst l1.
      destruct (EN1 p eq_refl) as [Np Hh]. split.
      * rewrite Hh, FA. destruct l0; reflexivity.
      * rewrite <- app_assoc. cbn [app].
        apply chn_app in FB1. destruct FB1 as [F0 Fp]. cbn [chn hd_or] in F0, Fp.
        assert (Hp0 : ~ In p l0).
        { apply NoDup_app_l in ND'. apply NoDup_remove_2 in ND'. rewrite app_nil_r in ND'. exact ND'. }
        assert (Hp2 : ~ In p l2).
        { rewrite <- app_assoc in ND'. cbn [app] in ND'. apply NoDup_remove_2 in ND'. intros Hi. apply ND'. apply in_or_app. auto. }
        apply chn_app. cbn [chn hd_or]. repeat split.
        -- eapply chn_ext; [|exact F0]. intros a Ha. apply EN. intros E; inversion E; subst; contradiction.
        -- change (nx g' p) with (nx g1 p). rewrite Np. exact Enxt.
        -- eapply chn_ext; [|exact FB2]. intros a Ha. apply EN. intros E; inversion E; subst; contradiction.
    + symmetry in Hpv. apply last_opt_none in Hpv. subst l1. cbn [app] in *. split.
      * rewrite (EH eq_refl). exact Enxt.
      * eapply chn_ext; [|exact FB2]. intros a Ha. apply EN. discriminate.
  - intros k Hk. change (isnode g' k) with (isnode g1 k) in Hk. rewrite VI in Hk. rewrite EL. change (dl g' k) with (dl g1 k). rewrite ED.
    destruct (H4 k Hk) as [A|[A|A]]; [|auto|discriminate]. destruct (Hsub' _ A) as [A'| ->]; auto.
  - intros k. rewrite EL. change (dl g' k) with (dl g1 k). rewrite ED. intros Hk Hdk.
    pose proof (H5 k (Hsub _ Hk) Hdk) as E. cbn in E. inversion E; subst k. exfalso.
    apply in_app_or in Hk. destruct Hk; contradiction.
  - intros k m Hk Hm. change (nx g' k) with (nx g1 k) in Hm. change (ps g' k) with (ps g1 k). change (ps g' m) with (ps g1 m). rewrite !EP.
    destruct (option_eq_dec pv (Some k)) as [Epv|Epv].
    + destruct (EN1 k Epv) as [Nk _]. rewrite Nk in Hm. subst nxt.
      (* k is the predecessor of c, m its successor *)
      assert (nx g k = Some c) as Nkc.
      { symmetry in Hpv. rewrite Epv in Hpv. destruct (last_opt_split _ _ Hpv) as [l0 E0]. subst l1.
        apply chn_app in FB1. destruct FB1 as [_ Fp]. cbn [chn hd_or app] in Fp. destruct Fp as [Fp _]. exact Fp. }
      assert (nx g c = Some m) as Ncm by congruence.
      destruct (H6 k c (Hpub' _ Hk) Nkc) as [Pc Lkc]. destruct (H6 c m Pc Ncm) as [Pm Lcm].
      split; [apply Hpub; exact Pm|lia].
    + rewrite EN in Hm by exact Epv. destruct (H6 k m (Hpub' _ Hk) Hm) as [A B]. split; [apply Hpub; exact A|exact B].
  - change (lo g') with (lo g1). change (hi g') with (hi g1). rewrite VLo, VHi. destruct H7 as [A B]. split; [exact A|].
    intros k Hk. change (isnode g' k) with (isnode g1 k) in Hk. rewrite VI in Hk. change (ps g' k) with (ps g1 k). rewrite EP. auto.
  - cbn [back_ok]. change (isnode g' c) with (isnode g1 c). change (dl g' c) with (dl g1 c). rewrite VI, ED, EL.
    repeat split; auto.
    + intros Hi. apply in_app_or in Hi. destruct Hi; contradiction.
    + exists l1, l2. repeat split; auto.
      * eapply bwdl_ext; [|exact BA1]. intros a Ha. change (bk g' a) with (bk g1 a). apply EB.
      * eapply bwdl_ext; [|exact BA2]. intros a Ha. change (bk g' a) with (bk g1 a). apply EB.
      * change (tail g') with (tail g1). rewrite VT, BT. rewrite last_opt_app2 by discriminate. apply last_opt_cons_or.
  - exact I.
  - change (lst g') with (apply_m (lst g1) (MErase c)). change (mlog g') with (mlog g1 ++ [MErase c]).
    rewrite VM, VL, fold_apply_app, <- H10. reflexivity.
Qed.

Lemma step_E_s2_some g it c nx0 pv x z p' :
  GS g (E_s2 it c nx0 pv (Some x) z) -> plain p' = true ->
  let g' := setn g x (n_back (gnode g x) pv) in
  GS g' p' /\ mono g g'.
Proof.
  intros G Hp' g'. pose proof (gs_back _ _ G) as Hb. cbn [back_ok] in Hb.
  destruct Hb as (Hic & Hdc & Hcl & l1 & l2 & El & Hpv & Hnx & B1 & B2 & Ht).
  symmetry in Hnx. destruct (hd_opt_In _ _ Hnx) as [r2 E2]. subst l2.
  assert (Hix : isnode g x = true) by (apply (gs_nodes _ _ G); rewrite El; apply in_or_app; right; left; reflexivity).
  pose proof (sameN_set_back g x pv Hix) as S. fold g' in S.
  destruct (set_back_views g x pv Hix) as (_ & EB & _ & _). fold g' in EB.
  pose proof (gs_nodup _ _ G) as ND. rewrite El in ND. destruct (NoDup_mid _ _ _ ND) as (Hx1 & Hx2 & _).
  split; [|apply mono_sameN; exact S].
  apply (GS_plain _ (E_ldz it nx0 z) p' eq_refl Hp').
  eapply GS_sameN; [exact S|exact G|intros k E; discriminate|intros k E; discriminate| |exact I].
  cbn [back_ok]. rewrite (sn_lst _ _ S), El. split.
  - apply bwdl_app. split.
    + eapply bwdl_ext; [|exact B1]. intros a Ha. rewrite EB. destruct (Nat.eqb_spec a x) as [->|]; [contradiction|reflexivity].
    + cbn [bwdl] in *. destruct B2 as [_ B2]. split.
      * rewrite EB, Nat.eqb_refl. unfold last_or. rewrite <- Hpv. destruct pv; reflexivity.
      * eapply bwdl_ext; [|exact B2]. intros a Ha. rewrite EB. destruct (Nat.eqb_spec a x) as [->|]; [contradiction|reflexivity].
  - destruct (nviews_setn g x (n_back (gnode g x) pv) Hix) as [_ _ _ _ T _ _ _ _ _]. fold g' in T. rewrite T, Ht.
    rewrite last_opt_app2 by discriminate. unfold last_or.
    destruct (last_opt (x :: r2)) eqn:E; [reflexivity|apply last_opt_none in E; discriminate].
Qed.

Lemma step_E_s2_none g it c nx0 pv z p' :
  GS g (E_s2 it c nx0 pv None z) -> plain p' = true ->
  GS (with_tail g pv) p' /\ mono g (with_tail g pv).
Proof.
  intros G Hp'. pose proof (gs_back _ _ G) as Hb. cbn [back_ok] in Hb.
  destruct Hb as (Hic & Hdc & Hcl & l1 & l2 & El & Hpv & Hnx & B1 & B2 & Ht).
  destruct l2; [|discriminate]. rewrite app_nil_r in El.
  split; [|apply mono_sameN, sameN_tail].
  apply (GS_plain _ (E_ldz it nx0 z) p' eq_refl Hp').
  eapply GS_sameN; [apply sameN_tail|exact G|intros k E; discriminate|intros k E; discriminate| |exact I].
  cbn [back_ok]. change (lst (with_tail g pv)) with (lst g). rewrite El. split; [eapply bwdl_ext; [|exact B1]; reflexivity|exact Hpv].
Qed.

(* ---------- assembling the invariant after a step ---------- *)
Lemma hpc_other g g' ls t l l' :
  InvA g ls -> nth_error ls t = Some l -> holds (at_ l) = false -> wmtx g' = wmtx g ->
  hpc g' (upd ls t l') = hpc g ls.
Proof.
  intros I Hl Hh Hm. unfold hpc. rewrite Hm. destruct (wmtx g) as [a|] eqn:E; [|reflexivity].
  rewrite (pcof_upd _ _ _ _ _ Hl). destruct (Nat.eqb_spec a t) as [->|]; [|reflexivity].
  pose proof (a_held _ _ I t E) as H. rewrite (pcof_at _ _ _ Hl) in H. congruence.
Qed.
Lemma hpc_self g ls t l l' : nth_error ls t = Some l -> wmtx g = Some t -> hpc g (upd ls t l') = at_ l'.
Proof. intros Hl Hm. unfold hpc. rewrite Hm, (pcof_upd _ _ _ _ _ Hl), Nat.eqb_refl. reflexivity. Qed.
Lemma hpc_holder g ls t l : InvA g ls -> nth_error ls t = Some l -> holds (at_ l) = true -> hpc g ls = at_ l /\ wmtx g = Some t.
Proof.
  intros I Hl Hh. assert (wmtx g = Some t) as E by (apply (a_own _ _ I); rewrite (pcof_at _ _ _ Hl); exact Hh).
  split; [|exact E]. unfold hpc. rewrite E. apply pcof_at. exact Hl.
Qed.

Lemma InvA_nonholder g g' ls t l l' :
  InvA g ls -> nth_error ls t = Some l ->
  holds (at_ l) = false -> holds (at_ l') = false -> wmtx g' = wmtx g -> sameA g g' -> thr_ok g' l' ->
  InvA g' (upd ls t l').
Proof.
  intros I Hl Hh Hh' Hm S Ht. constructor.
  - intros u. rewrite (pcof_upd _ _ _ _ _ Hl), Hm. destruct (Nat.eqb u t); [congruence|apply (a_own _ _ I)].
  - intros a Ha. rewrite Hm in Ha. rewrite (pcof_upd _ _ _ _ _ Hl). pose proof (a_held _ _ I a Ha) as H.
    destruct (Nat.eqb_spec a t) as [->|]; [|exact H]. rewrite (pcof_at _ _ _ Hl) in H. congruence.
  - rewrite (hpc_other g g' ls t l l' I Hl Hh Hm). eapply GS_frame; [exact S|apply (a_gs _ _ I)].
  - intros u lu Hu. apply nth_upd in Hu. destruct Hu as [(_ & -> & _)|(_ & Hu)]; [exact Ht|].
    eapply thr_ok_sameA; [exact S|apply (a_thr _ _ I u); exact Hu].
Qed.

Lemma InvA_lock g ls t l l' :
  InvA g ls -> nth_error ls t = Some l ->
  holds (at_ l) = false -> holds (at_ l') = true -> plain (at_ l') = true -> wmtx g = None ->
  thr_ok g l' -> InvA (with_mtx g (Some t)) (upd ls t l').
Proof.
  intros I Hl Hh Hh' Hp Hm Ht.
  assert (S : sameA g (with_mtx g (Some t))) by (apply sameA_mtx, sameA_refl).
  constructor.
  - intros u. rewrite (pcof_upd _ _ _ _ _ Hl). destruct (Nat.eqb_spec u t) as [->|]; [reflexivity|].
    intros H. apply (a_own _ _ I) in H. congruence.
  - intros a Ha. cbn in Ha. inversion Ha; subst a. rewrite (pcof_upd _ _ _ _ _ Hl), Nat.eqb_refl. exact Hh'.
  - rewrite (hpc_self _ _ _ _ _ Hl) by reflexivity. eapply GS_frame; [exact S|].
    apply (GS_plain _ Idle); [reflexivity|exact Hp|]. pose proof (a_gs _ _ I) as G. unfold hpc in G. rewrite Hm in G. exact G.
  - intros u lu Hu. apply nth_upd in Hu. destruct Hu as [(_ & -> & _)|(_ & Hu)].
    + eapply thr_ok_sameA; [exact S|exact Ht].
    + eapply thr_ok_sameA; [exact S|apply (a_thr _ _ I u); exact Hu].
Qed.

Lemma InvA_holder g g' ls t l l' :
  InvA g ls -> nth_error ls t = Some l ->
  holds (at_ l) = true -> holds (at_ l') = true -> wmtx g' = wmtx g ->
  GS g' (at_ l') -> mono g g' -> thr_ok g' l' ->
  InvA g' (upd ls t l').
Proof.
  intros I Hl Hh Hh' Hm G M Ht. destruct (hpc_holder _ _ _ _ I Hl Hh) as [Ehp Emt].
  constructor.
  - intros u. rewrite (pcof_upd _ _ _ _ _ Hl), Hm. destruct (Nat.eqb_spec u t) as [->|]; [intros _; exact Emt|apply (a_own _ _ I)].
  - intros a Ha. rewrite Hm, Emt in Ha. inversion Ha; subst a. rewrite (pcof_upd _ _ _ _ _ Hl), Nat.eqb_refl. exact Hh'.
  - rewrite (hpc_self _ _ _ _ _ Hl) by congruence. exact G.
  - intros u lu Hu. apply nth_upd in Hu. destruct Hu as [(_ & -> & _)|(_ & Hu)]; [exact Ht|].
    eapply thr_ok_mono; [exact M|apply (a_thr _ _ I u); exact Hu].
Qed.

Lemma InvA_unlock g ls t l l' :
  InvA g ls -> nth_error ls t = Some l ->
  holds (at_ l) = true -> plain (at_ l) = true -> holds (at_ l') = false ->
  thr_ok g l' -> InvA (with_mtx g None) (upd ls t l').
Proof.
  intros I Hl Hh Hp Hh' Ht. destruct (hpc_holder _ _ _ _ I Hl Hh) as [Ehp Emt].
  assert (S : sameA g (with_mtx g None)) by (apply sameA_mtx, sameA_refl).
  constructor.
  - intros u. rewrite (pcof_upd _ _ _ _ _ Hl). destruct (Nat.eqb_spec u t) as [->|Hne]; [congruence|].
    intros H. apply (a_own _ _ I) in H. congruence.
  - intros a Ha. discriminate.
  - unfold hpc. cbn [wmtx with_mtx]. eapply GS_frame; [exact S|].
    apply (GS_plain _ (at_ l)); [exact Hp|reflexivity|]. rewrite <- Ehp. apply (a_gs _ _ I).
  - intros u lu Hu. apply nth_upd in Hu. destruct Hu as [(_ & -> & _)|(_ & Hu)].
    + eapply thr_ok_sameA; [exact S|exact Ht].
    + eapply thr_ok_sameA; [exact S|apply (a_thr _ _ I u); exact Hu].
Qed.

(* ---------- the write mutex field through the primitive updates ---------- *)
Lemma wmtx_modc g k f : wmtx (modc g k f) = wmtx g.
Proof. apply modc_fields. Qed.
Lemma wmtx_setn g k n : wmtx (setn g k n) = wmtx g.
Proof. apply wmtx_modc. Qed.
Lemma wmtx_setz g k r : wmtx (setz g k r) = wmtx g.
Proof. apply wmtx_modc. Qed.
Lemma wmtx_construct g k b : wmtx (fst (do_construct g k b)) = wmtx g.
Proof. apply construct_fields. Qed.
Lemma wmtx_destroy g k : wmtx (fst (do_destroy g k)) = wmtx g.
Proof. apply destroy_fields. Qed.
Lemma wmtx_dealloc g k : wmtx (fst (do_dealloc g k)) = wmtx g.
Proof. apply dealloc_fields. Qed.
Lemma wmtx_dealloc_raw g k : wmtx (fst (do_dealloc_raw g k)) = wmtx g.
Proof. apply dealloc_raw_fields. Qed.
Lemma wmtx_alloc g b : wmtx (fst (do_alloc g b)) = wmtx g.
Proof. reflexivity. Qed.
Lemma wmtx_fault g : wmtx (with_fault g) = wmtx g. Proof. reflexivity. Qed.
Lemma wmtx_misuse g : wmtx (with_misuse g) = wmtx g. Proof. reflexivity. Qed.
Lemma wmtx_zhead g x : wmtx (with_zhead g x) = wmtx g. Proof. reflexivity. Qed.
Lemma wmtx_zlog g x : wmtx (with_zlog g x) = wmtx g. Proof. reflexivity. Qed.
Lemma wmtx_head g x : wmtx (with_head g x) = wmtx g. Proof. reflexivity. Qed.
Lemma wmtx_tail g x : wmtx (with_tail g x) = wmtx g. Proof. reflexivity. Qed.
Lemma wmtx_pos g a b : wmtx (with_pos g a b) = wmtx g. Proof. reflexivity. Qed.
Lemma wmtx_commit g m : wmtx (commit g m) = wmtx g. Proof. reflexivity. Qed.
Lemma wmtx_null g k : wmtx (fst (null_call g k)) = wmtx g. Proof. reflexivity. Qed.
#[export] Hint Rewrite wmtx_setn wmtx_setz wmtx_construct wmtx_destroy wmtx_dealloc wmtx_dealloc_raw wmtx_alloc wmtx_fault wmtx_misuse
  wmtx_zhead wmtx_zlog wmtx_head wmtx_tail wmtx_pos wmtx_commit wmtx_null : wm.

Lemma InvA_nonholder' g g' ls t l l' :
  InvA g ls -> nth_error ls t = Some l ->
  holds (at_ l) = false -> holds (at_ l') = false -> wmtx g' = wmtx g -> sameA g g' -> thr_ok g l' ->
  InvA g' (upd ls t l').
Proof. intros. eapply InvA_nonholder; eauto. eapply thr_ok_sameA; eauto. Qed.

Lemma mono_trans a b c : mono a b -> mono b c -> mono a c.
Proof. intros [A1 A2] [B1 B2]. split; auto. Qed.
Lemma mono_fault g : mono g (with_fault g).
Proof. split; auto. Qed.
Lemma GS_fault g p : GS g p -> GS (with_fault g) p.
Proof. apply GS_frame. apply sameA_fault, sameA_refl. Qed.

Lemma thr_ok_intro g pr p' h' its' :
  (forall c, In c (its_refs its') -> pubn g c) -> (forall c, In c (pc_refs p') -> pubn g c) ->
  (forall z, priv_rec p' = Some z -> isrec g z = true) ->
  (forall w z, h' = Some (w, Some z) -> isrec g z = true) ->
  (in_unlock p' = true -> exists w z, h' = Some (w, Some z)) ->
  thr_ok g (Loc pr p' h' its').
Proof.
  intros A B C D E. constructor; cbn [at_ hnd its nrefs]; auto.
  intros c Hc. apply in_app_or in Hc. destruct Hc; auto.
Qed.
Lemma head_pubn g p k : GS g p -> head g = Some k -> pubn g k.
Proof.
  intros G H. destruct (gs_fwd _ _ G) as [A _]. rewrite H in A. symmetry in A. destruct (hd_opt_In _ _ A) as [r E].
  assert (In k (lst g)) by (rewrite E; left; reflexivity). split; [apply (gs_nodes _ _ G); auto|left; auto].
Qed.
Lemma pc_refs_reclaim g n : pc_refs (reclaim_at g n) = [].
Proof. unfold reclaim_at. destruct (znode (grec g n)); [reflexivity|]. destruct (unfixed g); reflexivity. Qed.
Lemma priv_rec_reclaim g n : priv_rec (reclaim_at g n) = None.
Proof. unfold reclaim_at. destruct (znode (grec g n)); [reflexivity|]. destruct (unfixed g); reflexivity. Qed.
Lemma in_unlock_reclaim g n : in_unlock (reclaim_at g n) = true.
Proof. unfold reclaim_at. destruct (znode (grec g n)); [reflexivity|]. destruct (unfixed g); reflexivity. Qed.
Lemma holds_reclaim g n : holds (reclaim_at g n) = false.
Proof. unfold reclaim_at. destruct (znode (grec g n)); [reflexivity|]. destruct (unfixed g); reflexivity. Qed.
Lemma pc_refs_body o : pc_refs (body_pc o) = [].
Proof. destruct o; reflexivity. Qed.
Lemma priv_rec_body o : priv_rec (body_pc o) = None.
Proof. destruct o; reflexivity. Qed.
Lemma in_unlock_body o : in_unlock (body_pc o) = false.
Proof. destruct o; reflexivity. Qed.
Lemma holds_body o : holds (body_pc o) = false.
Proof. destruct o; reflexivity. Qed.
Lemma nx_pubn g p k m : GS g p -> pubn g k -> nnext (gnode g k) = Some m -> pubn g m.
Proof. intros G Hk Hm. apply (gs_next _ _ G k m Hk Hm). Qed.

Lemma InvA_holder' g g' ls t l l' :
  InvA g ls -> nth_error ls t = Some l ->
  holds (at_ l) = true -> holds (at_ l') = true -> wmtx g' = wmtx g ->
  GS g' (at_ l') -> mono g g' -> thr_ok g l' ->
  InvA g' (upd ls t l').
Proof. intros. eapply InvA_holder; eauto. eapply thr_ok_mono; eauto. Qed.

Lemma GS_mono_fault g g' p : GS g' p /\ mono g g' -> GS (with_fault g') p /\ mono g (with_fault g').
Proof. intros [A B]. split; [apply GS_fault; exact A|eapply mono_trans; [exact B|apply mono_fault]]. Qed.
Lemma GS_mono_refl g p : GS g p -> GS g p /\ mono g g.
Proof. intros H. split; [exact H|split; auto]. Qed.
Lemma GS_mono_sameA g g' p p' : sameA g g' -> plain p = true -> plain p' = true -> GS g p -> GS g' p' /\ mono g g'.
Proof. intros S Hp Hp' G. split; [eapply GS_frame; [exact S|apply (GS_plain g p p' Hp Hp' G)]|apply mono_sameA; exact S]. Qed.

Lemma InvA_holder2 g g' ls t l l' :
  InvA g ls -> nth_error ls t = Some l ->
  holds (at_ l) = true -> holds (at_ l') = true -> wmtx g' = wmtx g ->
  GS g' (at_ l') /\ mono g g' -> thr_ok g l' ->
  InvA g' (upd ls t l').
Proof. intros ? ? ? ? ? [? ?] ?. eapply InvA_holder'; eauto. Qed.

Lemma step_E_s1_some g it c nx0 p nxt z :
  GS g (E_s1 it c nx0 (Some p) nxt z) ->
  let g' := commit (setn g p (n_next (gnode g p) nxt)) (MErase c) in
  GS g' (E_s2 it c nx0 (Some p) nxt z) /\ mono g g'.
Proof.
  intros G. pose proof (gs_hold _ _ G) as Hh. cbn [hold_ok] in Hh. destruct Hh as (Hd & l1 & l2 & El & Hpv & Hnx).
  assert (Hip : isnode g p = true).
  { apply (gs_nodes _ _ G). rewrite El. apply in_or_app. left. apply last_opt_In. auto. }
  destruct (set_next_views g p nxt Hip) as (EN & EB & ED & EP).
  destruct (nviews_setn g p (n_next (gnode g p) nxt) Hip) as [VI VR VC VH VT VL VM VLo VHi VX].
  apply step_E_s1_gen; auto.
  - intros j Hj. rewrite EN. destruct (Nat.eqb_spec j p) as [->|]; [congruence|reflexivity].
  - intros q Hq. inversion Hq; subst q. rewrite EN, Nat.eqb_refl. auto.
  - discriminate.
Qed.
Lemma step_E_s1_none g it c nx0 nxt z :
  GS g (E_s1 it c nx0 None nxt z) ->
  let g' := commit (with_head g nxt) (MErase c) in
  GS g' (E_s2 it c nx0 None nxt z) /\ mono g g'.
Proof.
  intros G. apply step_E_s1_gen; auto. discriminate.
Qed.

(* ---------- the step lemma ---------- *)
Ltac sameA_tac :=
  repeat first [apply sameA_fault | apply sameA_misuse | apply sameA_zhead | apply sameA_zlog];
  first [ apply sameA_refl | apply sameA_alloc_rec | apply sameA_alloc_raw | apply sameA_destroy | apply sameA_dealloc
        | apply sameA_dealloc_raw | apply sameA_null
        | (apply sameA_setz; eauto) | (apply sameA_construct_rec; eauto) ].
Lemma InvA_step : forall g ls t c l g' l' es,
  InvA g ls -> nth_error ls t = Some l -> tstep t c g l = Some (g', l', es) -> InvA g' (upd ls t l').
Proof.
  intros g ls t c l g' l' es I Hl Hs.
  pose proof (a_thr _ _ I t l Hl) as Tt.
  destruct l as [pr p h its0]. destruct p.
  all: try (destruct (t_unl _ _ Tt eq_refl) as (w0 & z0 & Eh0); cbn [hnd] in Eh0; subst h).
  all: step_cases2 Hs; fold_fst.
  all: cbn [own_rec own_w hnd] in *.
  all: destruct Tt as [T1 T2 T3 T4]; cbn [at_ hnd its nrefs pc_refs priv_rec in_unlock] in T1, T2, T3, T4.
  all: pose proof (a_gs _ _ I) as G0.
  (* R_alloc: the new cell is a record only in the new state *)
  all: try match goal with |- InvA (fst (do_alloc ?gg (BRec drec))) (upd _ _ {| prog := _; at_ := R_constr _ _; hnd := _; its := _ |}) =>
         eapply InvA_nonholder; [exact I|exact Hl|reflexivity|reflexivity|reflexivity|apply sameA_alloc_rec|];
         apply thr_ok_intro; cbn [pc_refs priv_rec in_unlock];
         [ intros c1 Hc1; apply (pubn_sameA _ _ _ (sameA_alloc_rec gg drec)); apply T1; apply in_or_app; left; exact Hc1
         | intros c1 []
         | intros z1 Hz1; inversion Hz1; subst z1; rewrite isrec_alloc, Nat.eqb_refl; reflexivity
         | intros w1 z1 Hw1; apply (sa_isrec _ _ (sameA_alloc_rec gg drec)); eapply T3; exact Hw1
         | discriminate ]
       end.
  (* steps of threads that do not hold the mutex and do not take it *)
  all: try (eapply InvA_nonholder'; [exact I|exact Hl|reflexivity|cbn [at_]; rewrite ?holds_body, ?holds_reclaim; reflexivity| | | ];
            [ autorewrite with wm; reflexivity
            | sameA_tac
            | ]).
  all: try (apply thr_ok_intro; rewrite ?pc_refs_reclaim, ?priv_rec_reclaim, ?pc_refs_body, ?priv_rec_body, ?in_unlock_body;
            cbn [its_refs flat_map pc_refs priv_rec in_unlock];
            [ intros c1 Hc1; first [contradiction | apply T1; apply in_or_app; left; exact Hc1 | idtac]
            | intros c1 Hc1; first [contradiction | idtac]
            | intros z1 Hz1; first [discriminate | apply T2; exact Hz1 | idtac]
            | intros w1 z1 Hw1; first [discriminate | eapply T3; exact Hw1 | idtac]
            | intros Hu1; first [discriminate | eauto] ]).
  (* an iterator value obtained from the iterator table *)
  all: try (destruct Hc1 as [<-|[]]; apply T1; apply in_or_app; left; eapply getit_In; eassumption).
  (* R_cas success *)
  all: try (inversion Hw1; subst; apply T2; reflexivity).
  (* new iterator values *)
  all: try (apply its_refs_setit in Hc1; destruct Hc1 as [Hc1|Hc1]; [|apply T1; apply in_or_app; left; exact Hc1]).
  all: try (eapply head_pubn; [exact G0|exact Hc1]).
  all: try (eapply nx_pubn; [exact G0| |exact Hc1]; apply T1; apply in_or_app; right; left; reflexivity).
  (* taking the write mutex *)
  all: try (eapply InvA_lock; [exact I|exact Hl|reflexivity|reflexivity|reflexivity|assumption|];
            apply thr_ok_intro; cbn [pc_refs priv_rec in_unlock];
            [ intros c1 Hc1; apply T1; apply in_or_app; left; exact Hc1
            | intros c1 Hc1; first [contradiction | apply T1; apply in_or_app; right; exact Hc1]
            | discriminate | exact T3 | discriminate ]).
  (* releasing it *)
  all: try (eapply InvA_unlock; [exact I|exact Hl|reflexivity|reflexivity|reflexivity|];
            apply thr_ok_intro; cbn [pc_refs priv_rec in_unlock];
            [ intros c1 Hc1; first [ apply T1; apply in_or_app; left; exact Hc1
                                   | apply its_refs_setit in Hc1; destruct Hc1 as [Hc1|Hc1];
                                     [subst; apply T1; apply in_or_app; right; left; reflexivity|apply T1; apply in_or_app; left; exact Hc1] ]
            | intros c1 []
            | discriminate | exact T3 | discriminate ]).
  (* steps of the mutex holder *)
  all: destruct (hpc_holder _ _ _ _ I Hl eq_refl) as [Ehp Emt]; rewrite Ehp in G0; cbn [at_] in G0.
  (* E_alloc: the new record cell *)
  all: try match goal with |- InvA (fst (do_alloc ?gg (BRec drec))) _ =>
         eapply InvA_holder; [exact I|exact Hl|reflexivity|reflexivity|reflexivity
                             |eapply GS_frame; [apply sameA_alloc_rec|(eapply GS_retag_hold; [exact G0|reflexivity|reflexivity|intros k0 E0; discriminate E0|intros x; exact x|exact (gs_hold _ _ G0)])]
                             |apply mono_sameA, sameA_alloc_rec|];
         apply thr_ok_intro; cbn [pc_refs priv_rec in_unlock];
         [ intros c1 Hc1; apply (pubn_sameA _ _ _ (sameA_alloc_rec gg drec)); apply T1; apply in_or_app; left; exact Hc1
         | intros c1 Hc1; apply (pubn_sameA _ _ _ (sameA_alloc_rec gg drec)); apply T1; apply in_or_app; right; exact Hc1
         | intros z1 Hz1; inversion Hz1; subst z1; rewrite isrec_alloc, Nat.eqb_refl; reflexivity
         | intros w1 z1 Hw1; apply (sa_isrec _ _ (sameA_alloc_rec gg drec)); eapply T3; exact Hw1
         | discriminate ]
       end.
  all: eapply InvA_holder2; [exact I|exact Hl|reflexivity|reflexivity|autorewrite with wm; reflexivity| | ].
  (* thread-local part: registers only shrink, except at E_ld0 *)
  all: try (apply thr_ok_intro; cbn [pc_refs priv_rec in_unlock];
            [ intros c1 Hc1; apply T1; apply in_or_app; left; exact Hc1
            | intros c1 Hc1; first [ contradiction | apply T1; apply in_or_app; right; first [exact Hc1 | right; exact Hc1] | idtac ]
            | intros z1 Hz1; first [discriminate | apply T2; exact Hz1]
            | exact T3 | discriminate ]).
  all: try (assert (pubn g c0) as Pc0 by (apply T1; apply in_or_app; right; left; reflexivity);
            cbn [In o2l] in Hc1; destruct Hc1 as [<-|Hc1]; [exact Pc0|];
            destruct (nnext (gnode g c0)) eqn:En; cbn [o2l In] in Hc1; [destruct Hc1 as [<-|[]]|contradiction];
            eapply nx_pubn; [exact G0|exact Pc0|exact En]).
  all: try (assert (pubn g' c0) as Pc0 by (apply T1; apply in_or_app; right; left; reflexivity);
            cbn [In o2l] in Hc1; destruct Hc1 as [<-|Hc1]; [exact Pc0|];
            destruct (nnext (gnode g' c0)) eqn:En; cbn [o2l In] in Hc1; [destruct Hc1 as [<-|[]]|contradiction];
            eapply nx_pubn; [exact G0|exact Pc0|exact En]).
  all: try (assert (pubn g c0) as Pc0 by (apply T1; apply in_or_app; right; left; reflexivity);
            destruct (nnext (gnode g c0)) eqn:En; cbn [o2l In] in Hc1; [destruct Hc1 as [<-|[]]|contradiction];
            eapply nx_pubn; [exact G0|exact Pc0|exact En]).
  all: repeat apply GS_mono_fault.
  all: cbn [at_].
  all: try (apply (step_P_alloc g o _ _ G0); tauto).
  all: try (apply (step_P_constr g o n (push_val o) G0)).
  all: try (pose proof (step_P_ld _ _ _ G0) as G1;
            repeat match goal with
                   | H : is_front _ = _ |- _ => rewrite H in G1
                   | H : head _ = _ |- _ => rewrite H in G1
                   | H : tail _ = _ |- _ => rewrite H in G1
                   end; apply GS_mono_refl; exact G1).
  all: try (pose proof (step_P_e1 _ _ _ G0) as G1; cbn zeta in G1; rewrite Heqb in G1; exact G1).
  all: try (apply (step_P_e2 _ _ G0)).
  all: try (apply (step_PF_next _ _ _ G0)).
  all: try (apply (step_PF_back _ _ _ G0)).
  all: try (apply (step_PF_head _ _ G0)).
  all: try (apply (step_PB_back _ _ _ G0)).
  all: try (apply (step_PB_next _ _ _ G0)).
  all: try (apply (step_PB_tail _ _ G0)).
  all: try (apply (step_E_ldb _ _ _ _ _ G0)).
  all: try (apply GS_mono_refl; apply (step_E_ldn _ _ _ _ _ _ G0)).
  all: try (match goal with |- GS (fst (do_construct ?gg ?zz (BRec ?rr))) (E_ldb _ _ _ _) /\ _ =>
              assert (SA : sameA gg (fst (do_construct gg zz (BRec rr)))) by (apply sameA_construct_rec; eauto);
              split; [eapply GS_frame; [exact SA|(eapply GS_retag_hold; [exact G0|reflexivity|reflexivity|intros k0 E0; discriminate E0|intros x; exact x|exact (gs_hold _ _ G0)])]|apply mono_sameA; exact SA] end).
  all: try (eapply step_E_s2_some; [exact G0|reflexivity]).
  all: try (eapply step_E_s2_none; [exact G0|reflexivity]).
  all: try (eapply GS_mono_sameA; [ | | |exact G0]; [sameA_tac|reflexivity|reflexivity]).
  all: try (assert (pubn g c0) as Pc0 by (apply T1; apply in_or_app; right; left; reflexivity)).
  all: try (assert (pubn g' c0) as Pc0 by (apply T1; apply in_or_app; right; left; reflexivity)).
  all: try match goal with H : ndel (gnode _ _) = true |- _ => destruct (step_E_ld0_noop _ _ _ G0 eq_refl Pc0 H) as [_ Hn]; apply Hn; reflexivity end.
  all: try match goal with H : ndel (gnode _ _) = false |- _ => apply GS_mono_refl; apply (step_E_ld0_go _ _ _ _ _ G0 eq_refl Pc0 H) end.
  all: try (apply (step_E_s1_some _ _ _ _ _ _ _ G0)).
  all: try (apply (step_E_s1_none _ _ _ _ _ _ G0)).
Qed.

(* ---------- reachable states ---------- *)
Definition R (unf : bool) (progs : list (list op)) (s : sysR) : Prop := reachable glob loc tstep (init unf progs) s.

Lemma locof_init unf progs u : at_ (locof (thr (init unf progs)) u) = Idle /\ its (locof (thr (init unf progs)) u) = [] /\ hnd (locof (thr (init unf progs)) u) = None.
Proof.
  unfold locof, init. cbn [thr]. rewrite nth_error_map. destruct (nth_error progs u); cbn; auto.
Qed.

Lemma InvA_init unf progs : InvA (gl (init unf progs)) (thr (init unf progs)).
Proof.
  assert (P : forall u, pcof (thr (init unf progs)) u = Idle) by (intros u; apply locof_init).
  constructor.
  - intros u. rewrite P. discriminate.
  - intros a H. discriminate.
  - unfold hpc. cbn [gl init init_glob wmtx]. constructor; cbn; try tauto.
    + constructor.
    + split; [reflexivity|exact I].
    + intros k H. unfold isnode, getc in H. cbn in H. destruct k; discriminate.
    + intros k m [H _]. unfold isnode, getc in H. cbn in H. destruct k; discriminate.
    + split; [lia|]. intros k H. unfold isnode, getc in H. cbn in H. destruct k; discriminate.
  - intros u l Hu. cbn [thr init] in Hu. rewrite nth_error_map in Hu. destruct (nth_error progs u); [|discriminate].
    cbn in Hu. inversion Hu; subst l. constructor; cbn; try discriminate; intros ? [].
Qed.

Lemma R_InvA unf progs s : R unf progs s -> InvA (gl s) (thr s).
Proof. intros H. eapply reachable_inv; [apply InvA_step|apply InvA_init|exact H]. Qed.

(* ---------- consequences ---------- *)
(* the chain followed from m_head is exactly the abstract list *)
Lemma chain_chn g l : forall fuel h, (length l < fuel)%nat -> h = hd_opt l -> chn g l None -> chain fuel g h = l.
Proof.
  induction l as [|a r IH]; intros fuel h Hf Hh Hc.
  - subst h. destruct fuel; reflexivity.
  - destruct fuel; [cbn in Hf; lia|]. subst h. cbn [hd_opt hd_or chain]. f_equal.
    cbn [chn] in Hc. destruct Hc as [Ha Hc]. apply IH; [cbn in Hf; lia| |exact Hc].
    exact Ha.
Qed.
Lemma NoDup_length_le (l : list nat) n : NoDup l -> (forall k, In k l -> (k < n)%nat) -> (length l <= n)%nat.
Proof.
  intros ND H. assert (incl l (seq 0 n)) as Hi by (intros k Hk; apply in_seq; specialize (H k Hk); lia).
  pose proof (NoDup_incl_length ND Hi) as L. rewrite seq_length in L. exact L.
Qed.
Lemma contents_lst g p : GS g p -> contents g = lst g.
Proof.
  intros G. unfold contents. destruct (gs_fwd _ _ G) as [A B]. apply chain_chn; auto.
  assert (length (lst g) <= nheap g)%nat.
  { apply NoDup_length_le; [apply (gs_nodup _ _ G)|]. intros k Hk. eapply lst_lt; eauto. }
  unfold nheap in *. lia.
Qed.

(* C12, writers serialised: the abstract list is the sequential replay of the mutators in the order
   in which they took effect, and it is what a traversal from m_head sees *)
Lemma writers_serial unf progs s : R unf progs s ->
  lst (gl s) = fold_left apply_m (mlog (gl s)) [] /\ contents (gl s) = lst (gl s) /\ NoDup (lst (gl s)).
Proof.
  intros HR. pose proof (a_gs _ _ (R_InvA _ _ _ HR)) as G.
  repeat split; [apply (gs_mlog _ _ G)|eapply contents_lst; eauto|apply (gs_nodup _ _ G)].
Qed.

(* every change of the mutator log is made by the thread that owns the write mutex *)
Lemma mlog_under_mutex t c g l g' l' es :
  tstep t c g l = Some (g', l', es) -> mlog g' <> mlog g -> holds (at_ l) = true.
Proof.
  intros Hs Hm. destruct l as [pr p h its0]. destruct p; try reflexivity; exfalso; apply Hm; clear Hm.
  all: unfold tstep in Hs; cbn [at_ prog hnd its] in Hs.
  all: repeat match type of Hs with
         | context [chk ?b _ _] => destruct b eqn:?; cbn [chk] in Hs
         | context [match ?x with _ => _ end] => destruct x eqn:?; cbn [at_ prog hnd its] in Hs
         | context [if ?x then _ else _] => destruct x eqn:?; cbn [at_ prog hnd its] in Hs
         end; try discriminate; inversion Hs; subst; clear Hs; try reflexivity.
  all: repeat match goal with
         | H : ?f = (?g1, ?es) |- _ => is_var g1;
           let E1 := fresh in assert (g1 = fst f) as E1 by (rewrite H; reflexivity); clear H; subst g1
         end.
  all: cbn [mlog with_fault with_zlog with_zhead].
  all: try apply modc_fields.
  all: try apply construct_fields.
  all: try apply destroy_fields.
  all: try apply dealloc_fields.
  all: try (etransitivity; [apply modc_fields|]; reflexivity).
  all: reflexivity.
Qed.
Lemma mutator_holds_mutex unf progs s t c l g' l' es :
  R unf progs s -> nth_error (thr s) t = Some l -> tstep t c (gl s) l = Some (g', l', es) ->
  mlog g' <> mlog (gl s) -> wmtx (gl s) = Some t.
Proof.
  intros HR Hl Hs Hm. apply (a_own _ _ (R_InvA _ _ _ HR)). rewrite (pcof_at _ _ _ Hl).
  eapply mlog_under_mutex; eauto.
Qed.

(* C12, traversals: following next from a published node leads to a published node further down
   the global position order *)
Lemma next_forward unf progs s k m : R unf progs s ->
  pubn (gl s) k -> nx (gl s) k = Some m -> pubn (gl s) m /\ ps (gl s) k < ps (gl s) m.
Proof. intros HR. apply (gs_next _ _ (a_gs _ _ (R_InvA _ _ _ HR))). Qed.

(* every node reference a thread holds (iterator slots, registers) is a published node *)
Lemma refs_published unf progs s t l c : R unf progs s -> nth_error (thr s) t = Some l -> In c (nrefs l) -> pubn (gl s) c.
Proof. intros HR Hl. apply (t_refs _ _ (a_thr _ _ (R_InvA _ _ _ HR) t l Hl)). Qed.

(* the node cell a step of the mutex holder writes to (or constructs) is a node cell *)
Definition wtarget (p : pc) : option nat :=
  match p with
  | P_constr _ n | PF_next n _ | PB_back n _ => Some n
  | PF_back _ old | PB_next _ old => Some old
  | E_ldb _ c _ _ => Some c
  | E_s1 _ _ _ (Some p) _ _ => Some p
  | E_s2 _ _ _ _ (Some x) _ => Some x
  | _ => None
  end.
Lemma wtarget_isnode g ls t l k : InvA g ls -> nth_error ls t = Some l -> wtarget (at_ l) = Some k -> isnode g k = true.
Proof.
  intros IA Hl Hk.
  assert (holds (at_ l) = true) as Hh by (destruct (at_ l); try discriminate; reflexivity).
  destruct (hpc_holder _ _ _ _ IA Hl Hh) as [Ehp _]. pose proof (a_gs _ _ IA) as G. rewrite Ehp in G.
  pose proof (gs_hold _ _ G) as H. pose proof (gs_back _ _ G) as B. pose proof (gs_nodes _ _ G) as N.
  destruct (at_ l) eqn:E; try discriminate; cbn in Hk; cbn [hold_ok back_ok] in H, B.
  - inversion Hk; subst. tauto.
  - inversion Hk; subst. destruct H as [F _]. apply F.
  - inversion Hk; subst. destruct H as (_ & _ & _ & _ & _ & _ & _ & Hd). destruct (hd_opt_In _ _ Hd) as [r Er]. apply N. rewrite Er. left. reflexivity.
  - inversion Hk; subst. destruct H as [F _]. apply F.
  - inversion Hk; subst. destruct H as (_ & _ & _ & _ & _ & _ & _ & Hd). apply N. apply last_opt_In. exact Hd.
  - inversion Hk; subst. apply (t_refs _ _ (a_thr _ _ IA t l Hl)). unfold nrefs. rewrite E. apply in_or_app. right. left. reflexivity.
  - destruct pv as [p|]; [|discriminate]. inversion Hk; subst. destruct H as (_ & l1 & l2 & El & Hp & _).
    apply N. rewrite El. apply in_or_app. left. apply last_opt_In. auto.
  - destruct nx1 as [x|]; [|discriminate]. inversion Hk; subst. destruct B as (_ & _ & _ & l1 & l2 & El & _ & Hx & _).
    symmetry in Hx. destruct (hd_opt_In _ _ Hx) as [r Er]. apply N. rewrite El, Er. apply in_or_app. right. left. reflexivity.
Qed.
