(* Layer A of the rcu_list proof: the doubly linked list under the write mutex.
   Inductive invariant InvA: the abstract list [lst] is exactly the forward chain from m_head,
   back pointers / m_tail agree with it except at the named pcs of the (unique) mutex holder,
   every node reference held by any thread is a *published* node (in the list, or erased), the
   next pointer of a published node is a published node further down the global position
   order.  Nothing here depends on the reclamation protocol: destroy / deallocate never change
   the contents of a cell.  Used by C12 (traversals, writers serialised) and by Layer B. *)
From Coq Require Import List Arith ZArith Lia Bool.
Import ListNotations.
From GV Require Import Sched Events RcuModel RcuBase.
Local Open Scope Z_scope.

(* ---------- thread list access ---------- *)
Definition dloc : loc := Loc [] Idle None [].
Definition locof (ls : list loc) (u : nat) : loc := match nth_error ls u with Some l => l | None => dloc end.
Definition pcof (ls : list loc) (u : nat) : pc := at_ (locof ls u).
Lemma locof_upd ls t l l' u : nth_error ls t = Some l ->
  locof (upd ls t l') u = if Nat.eqb u t then l' else locof ls u.
Proof.
  intros H. unfold locof. destruct (Nat.eqb_spec u t) as [->|Hne].
  - rewrite (nth_upd_eq _ _ _ _ H). reflexivity.
  - rewrite nth_upd_ne by auto. reflexivity.
Qed.
Lemma pcof_upd ls t l l' u : nth_error ls t = Some l ->
  pcof (upd ls t l') u = if Nat.eqb u t then at_ l' else pcof ls u.
Proof. intros H. unfold pcof. rewrite (locof_upd _ _ _ _ _ H). destruct (Nat.eqb u t); reflexivity. Qed.
Lemma locof_at ls t l : nth_error ls t = Some l -> locof ls t = l.
Proof. intros H. unfold locof. rewrite H. reflexivity. Qed.
Lemma pcof_at ls t l : nth_error ls t = Some l -> pcof ls t = at_ l.
Proof. intros H. unfold pcof. rewrite (locof_at _ _ _ H). reflexivity. Qed.
Arguments pcof : simpl never.
Arguments locof : simpl never.

(* ---------- pc classification ---------- *)
Definition holds (p : pc) : bool :=
  match p with
  | P_alloc _ | P_constr _ _ | P_ld _ _ | P_e1 _ _ | P_e2 _ | PF_next _ _ | PF_back _ _ | PF_head _
  | PB_back _ _ | PB_next _ _ | PB_tail _ | P_unlock
  | E_ld0 _ _ | E_ldb _ _ _ | E_ldn _ _ _ _ | E_s1 _ _ _ _ _ | E_s2 _ _ _ _ _ | E_alloc _ _ _
  | E_constr _ _ _ _ | E_ldz _ _ _ | E_stz _ _ _ _ | E_cas _ _ _ _ | E_unlock _ _ => true
  | _ => false
  end.
Definition priv_node (p : pc) : option nat :=
  match p with
  | P_constr _ n | P_ld _ n | P_e1 _ n | PF_next n _ | PF_back n _ | PF_head n | PB_back n _ | PB_next n _ => Some n
  | _ => None
  end.
Definition priv_rec (p : pc) : option nat :=
  match p with
  | R_constr _ z | R_ldh _ z | R_st _ z _ | R_cas _ z _
  | E_constr _ _ _ z | E_ldz _ _ z | E_stz _ _ z _ | E_cas _ _ z _ => Some z
  | _ => None
  end.
Definition erasing (p : pc) : option nat :=
  match p with E_ldb _ c _ | E_ldn _ c _ _ | E_s1 _ c _ _ _ => Some c | _ => None end.
Definition in_unlock (p : pc) : bool :=
  match p with
  | U_ld | U_own _ _ | U_nx _ _ | U_dd _ _ | U_df _ _ | U_ln _ | U_zd _ _ | U_zf _ _ | U_stn | U_sto => true
  | _ => false
  end.
Definition o2l (o : option nat) : list nat := match o with Some k => [k] | None => [] end.
Definition pc_refs (p : pc) : list nat :=
  match p with
  | N_ld _ c | D_rd _ c | E_lock _ c | E_ld0 _ c => [c]
  | E_ldb _ c nx0 | E_ldn _ c nx0 _ | E_s1 _ c nx0 _ _ | E_s2 _ c nx0 _ _ | E_alloc _ c nx0 | E_constr _ c nx0 _ => c :: o2l nx0
  | E_ldz _ nx0 _ | E_stz _ nx0 _ _ | E_cas _ nx0 _ _ | E_unlock _ nx0 => o2l nx0
  | _ => []
  end.
Definition its_refs (l : list (nat * option nat)) : list nat := flat_map (fun p => o2l (snd p)) l.
Definition nrefs (l : loc) : list nat := its_refs (its l) ++ pc_refs (at_ l).

(* ---------- list structure ---------- *)
Definition nx (g : glob) (k : nat) : option nat := nnext (gnode g k).
Definition bk (g : glob) (k : nat) : option nat := nback (gnode g k).
Definition dl (g : glob) (k : nat) : bool := ndel (gnode g k).
Definition ps (g : glob) (k : nat) : Z := npos (gnode g k).

Definition hd_or (l : list nat) (e : option nat) : option nat := match l with [] => e | a :: _ => Some a end.
Definition hd_opt (l : list nat) : option nat := hd_or l None.
Fixpoint last_opt (l : list nat) : option nat :=
  match l with [] => None | [a] => Some a | _ :: r => last_opt r end.
Definition last_or (l : list nat) (p : option nat) : option nat := match last_opt l with Some a => Some a | None => p end.

(* forward chain: every element's next is its successor, the last one's next is [e] *)
Fixpoint chn (g : glob) (l : list nat) (e : option nat) : Prop :=
  match l with
  | [] => True
  | a :: r => nx g a = hd_or r e /\ chn g r e
  end.
Definition fwd (g : glob) (h : option nat) (l : list nat) : Prop := h = hd_opt l /\ chn g l None.
(* backward chain: every element's back is its predecessor, the first one's back is [p] *)
Fixpoint bwdl (g : glob) (p : option nat) (l : list nat) : Prop :=
  match l with
  | [] => True
  | a :: r => bk g a = p /\ bwdl g (Some a) r
  end.

Lemma last_opt_app l a : last_opt (l ++ [a]) = Some a.
Proof. induction l as [|b r IH]; [reflexivity|]. cbn. destruct (r ++ [a]) eqn:E; [destruct r; discriminate|]. exact IH. Qed.
Lemma last_opt_cons a l : l <> [] -> last_opt (a :: l) = last_opt l.
Proof. destruct l; [congruence|reflexivity]. Qed.
Lemma last_opt_app2 l1 l2 : l2 <> [] -> last_opt (l1 ++ l2) = last_opt l2.
Proof.
  intros H. induction l1 as [|a r IH]; [reflexivity|]. cbn [app].
  rewrite last_opt_cons; [exact IH|]. destruct r; cbn; [exact H|discriminate].
Qed.
Lemma last_opt_In l a : last_opt l = Some a -> In a l.
Proof.
  induction l as [|b r IH]; [discriminate|]. destruct r as [|c r'].
  - cbn. intros E. inversion E. auto.
  - intros E. right. apply IH. exact E.
Qed.
Lemma last_opt_split l a : last_opt l = Some a -> exists l0, l = l0 ++ [a].
Proof.
  induction l as [|b r IH]; [discriminate|]. destruct r as [|c r'].
  - cbn. intros E. inversion E. exists []. reflexivity.
  - intros E. destruct (IH E) as [l0 E0]. exists (b :: l0). rewrite E0. reflexivity.
Qed.
Lemma last_opt_none l : last_opt l = None -> l = [].
Proof.
  induction l as [|b r IH]; [reflexivity|]. destruct r as [|c r'].
  - discriminate.
  - intros E. specialize (IH E). discriminate.
Qed.
Lemma last_or_app l1 l2 p : last_or (l1 ++ l2) p = last_or l2 (last_or l1 p).
Proof.
  unfold last_or. destruct l2 as [|b r].
  - rewrite app_nil_r. cbn. destruct (last_opt l1); reflexivity.
  - rewrite last_opt_app2 by discriminate. destruct (last_opt (b :: r)) eqn:E; [reflexivity|].
    apply last_opt_none in E. discriminate.
Qed.

Lemma chn_ext g g' l e : (forall a, In a l -> nx g' a = nx g a) -> chn g l e -> chn g' l e.
Proof.
  induction l as [|a r IH]; intros He H; cbn in *; [exact I|].
  destruct H as [H1 H2]. split; [rewrite He by auto; exact H1|]. apply IH; auto.
Qed.
Lemma bwdl_ext g g' p l : (forall a, In a l -> bk g' a = bk g a) -> bwdl g p l -> bwdl g' p l.
Proof.
  revert p. induction l as [|a r IH]; intros p He H; cbn in *; [exact I|].
  destruct H as [H1 H2]. split; [rewrite He by auto; exact H1|]. apply IH; auto.
Qed.
Lemma hd_or_app l1 l2 e : hd_or (l1 ++ l2) e = hd_or l1 (hd_or l2 e).
Proof. destruct l1; reflexivity. Qed.
Lemma chn_app g l1 l2 e : chn g (l1 ++ l2) e <-> chn g l1 (hd_or l2 e) /\ chn g l2 e.
Proof.
  induction l1 as [|a r IH]; cbn [app chn]; [tauto|].
  rewrite IH, hd_or_app. tauto.
Qed.
Lemma bwdl_app g p l1 l2 : bwdl g p (l1 ++ l2) <-> bwdl g p l1 /\ bwdl g (last_or l1 p) l2.
Proof.
  revert p. induction l1 as [|a r IH]; intros p.
  - cbn. tauto.
  - cbn [app bwdl]. rewrite IH. unfold last_or. destruct r as [|b r']; [cbn; tauto|].
    change (last_opt (a :: b :: r')) with (last_opt (b :: r')).
    destruct (last_opt (b :: r')) eqn:E; [tauto|]. apply last_opt_none in E. discriminate.
Qed.

(* ---------- the invariant ---------- *)
Definition pubn (g : glob) (k : nat) : Prop := isnode g k = true /\ (In k (lst g) \/ dl g k = true).

Definition strictF (g : glob) (n : nat) : Prop := forall k, isnode g k = true -> k <> n -> lo g < ps g k.
Definition strictB (g : glob) (n : nat) : Prop := forall k, isnode g k = true -> k <> n -> ps g k < hi g.
Definition strict (g : glob) (o : op) (n : nat) : Prop := if is_front o then strictF g n else strictB g n.
Definition fresh_node (g : glob) (o : op) (n : nat) : Prop :=
  isnode g n = true /\ ~ In n (lst g) /\ nx g n = None /\ bk g n = None /\ dl g n = false /\
  ps g n = (if is_front o then lo g else hi g) /\ strict g o n.

(* facts about the registers of the mutex holder *)
Definition hold_ok (g : glob) (p : pc) : Prop :=
  match p with
  | P_constr o n => cs_of g n = Some Alloc /\ gnode g n = dnode /\ isnode g n = true /\ ~ In n (lst g) /\ strict g o n
  | P_ld o n => fresh_node g o n
  | P_e1 o n => fresh_node g o n /\ lst g = []
  | PF_next n old => fresh_node g (PushFront 0) n /\ hd_opt (lst g) = Some old
  | PF_back n old => isnode g n = true /\ ~ In n (lst g) /\ nx g n = Some old /\ bk g n = None /\ dl g n = false /\
                     ps g n = lo g /\ strictF g n /\ hd_opt (lst g) = Some old
  | PF_head n => exists old, isnode g n = true /\ ~ In n (lst g) /\ nx g n = Some old /\ bk g n = None /\ dl g n = false /\
                     ps g n = lo g /\ strictF g n /\ hd_opt (lst g) = Some old
  | PB_back n old => fresh_node g (PushBack 0) n /\ last_opt (lst g) = Some old
  | PB_next n old => isnode g n = true /\ ~ In n (lst g) /\ nx g n = None /\ bk g n = Some old /\ dl g n = false /\
                     ps g n = hi g /\ strictB g n /\ last_opt (lst g) = Some old
  | E_ldb _ c _ => In c (lst g) /\ dl g c = true
  | E_ldn _ c _ pv => dl g c = true /\ exists l1 l2, lst g = l1 ++ c :: l2 /\ pv = last_opt l1
  | E_s1 _ c _ pv nxt => dl g c = true /\ exists l1 l2, lst g = l1 ++ c :: l2 /\ pv = last_opt l1 /\ nxt = hd_opt l2
  | _ => True
  end.
(* back pointers and m_tail, with the windows in which the holder has not yet repaired them *)
Definition back_ok (g : glob) (p : pc) : Prop :=
  match p with
  | PF_head n => bwdl g (Some n) (lst g) /\ tail g = last_opt (lst g)
  | P_e2 n => lst g = [n] /\ bk g n = None /\ tail g = None
  | PB_tail n => bwdl g None (lst g) /\ exists l0, lst g = l0 ++ [n] /\ tail g = last_opt l0
  | E_s2 _ c _ pv nxt => isnode g c = true /\ dl g c = true /\ ~ In c (lst g) /\
                         exists l1 l2, lst g = l1 ++ l2 /\ pv = last_opt l1 /\ nxt = hd_opt l2 /\
                                       bwdl g None l1 /\ bwdl g (Some c) l2 /\ tail g = last_or l2 (Some c)
  | _ => bwdl g None (lst g) /\ tail g = last_opt (lst g)
  end.

Record GS (g : glob) (p : pc) : Prop := {
  gs_nodup : NoDup (lst g);
  gs_nodes : forall k, In k (lst g) -> isnode g k = true;
  gs_fwd : fwd g (head g) (lst g);
  gs_class : forall k, isnode g k = true -> In k (lst g) \/ dl g k = true \/ priv_node p = Some k;
  gs_del : forall k, In k (lst g) -> dl g k = true -> erasing p = Some k;
  gs_next : forall k m, pubn g k -> nx g k = Some m -> pubn g m /\ ps g k < ps g m;
  gs_pos : lo g <= 0 <= hi g /\ forall k, isnode g k = true -> lo g <= ps g k <= hi g;
  gs_back : back_ok g p;
  gs_hold : hold_ok g p;
  gs_mlog : lst g = fold_left apply_m (mlog g) []
}.

Record thr_ok (g : glob) (l : loc) : Prop := {
  t_refs : forall c, In c (nrefs l) -> pubn g c;
  t_prec : forall z, priv_rec (at_ l) = Some z -> isrec g z = true;
  t_hrec : forall w z, hnd l = Some (w, Some z) -> isrec g z = true;
  t_unl : in_unlock (at_ l) = true -> exists w z, hnd l = Some (w, Some z)
}.

Definition hpc (g : glob) (ls : list loc) : pc := match wmtx g with Some a => pcof ls a | None => Idle end.

Record InvA (g : glob) (ls : list loc) : Prop := {
  a_own : forall u, holds (pcof ls u) = true -> wmtx g = Some u;
  a_held : forall a, wmtx g = Some a -> holds (pcof ls a) = true;
  a_gs : GS g (hpc g ls);
  a_thr : forall u l, nth_error ls u = Some l -> thr_ok g l
}.

(* ---------- plain pcs: the holder is outside every window ---------- *)
Definition plain (p : pc) : bool :=
  match p with
  | P_constr _ _ | P_ld _ _ | P_e1 _ _ | P_e2 _ | PF_next _ _ | PF_back _ _ | PF_head _
  | PB_back _ _ | PB_next _ _ | PB_tail _ | E_ldb _ _ _ | E_ldn _ _ _ _ | E_s1 _ _ _ _ _ | E_s2 _ _ _ _ _ => false
  | _ => true
  end.
Lemma GS_plain g p p' : plain p = true -> plain p' = true -> GS g p -> GS g p'.
Proof.
  intros Hp Hp' [H1 H2 H3 H4 H5 H6 H7 H8 H9 H10].
  assert (priv_node p = None /\ erasing p = None) as [Ep Ee] by (destruct p; try discriminate; split; reflexivity).
  assert (priv_node p' = None /\ erasing p' = None) as [Ep' Ee'] by (destruct p'; try discriminate; split; reflexivity).
  assert (back_ok g p') as Hb by (destruct p; try discriminate; destruct p'; try discriminate; exact H8).
  assert (hold_ok g p') as Hh by (destruct p'; try discriminate; exact I).
  constructor; auto.
  - intros k Hk. rewrite Ep'. rewrite Ep in H4. auto.
  - intros k Hk Hd. rewrite Ee'. rewrite Ee in H5. auto.
Qed.

(* ---------- states that look the same to Layer A ---------- *)
Record sameA (g g' : glob) : Prop := {
  sa_head : head g' = head g; sa_tail : tail g' = tail g; sa_lst : lst g' = lst g; sa_mlog : mlog g' = mlog g;
  sa_lo : lo g' = lo g; sa_hi : hi g' = hi g;
  sa_gnode : forall k, gnode g' k = gnode g k;
  sa_isnode : forall k, isnode g' k = isnode g k;
  sa_isrec : forall k, isrec g k = true -> isrec g' k = true;
  sa_alloc : forall k, isnode g k = true -> cs_of g k = Some Alloc -> cs_of g' k = Some Alloc
}.
Lemma sameA_refl g : sameA g g.
Proof. constructor; auto. Qed.
Lemma sameA_trans a b c : sameA a b -> sameA b c -> sameA a c.
Proof.
  intros [A1 A2 A3 A4 A5 A6 A7 A8 A9 A10] [B1 B2 B3 B4 B5 B6 B7 B8 B9 B10].
  constructor; [congruence|congruence|congruence|congruence|congruence|congruence| | | |].
  - intros k. rewrite B7. apply A7.
  - intros k. rewrite B8. apply A8.
  - auto.
  - intros k Hk Hc. apply B10; [rewrite A8; exact Hk|auto].
Qed.

Lemma sameA_views g g' : sameA g g' ->
  (forall k, nx g' k = nx g k) /\ (forall k, bk g' k = bk g k) /\ (forall k, dl g' k = dl g k) /\ (forall k, ps g' k = ps g k).
Proof. intros H. unfold nx, bk, dl, ps. repeat split; intros k; rewrite (sa_gnode _ _ H); reflexivity. Qed.

Lemma pubn_sameA g g' k : sameA g g' -> pubn g k -> pubn g' k.
Proof.
  intros H [H1 H2]. destruct (sameA_views _ _ H) as (_ & _ & Ed & _).
  split; [rewrite (sa_isnode _ _ H); exact H1|]. rewrite (sa_lst _ _ H), Ed. exact H2.
Qed.
Lemma pubn_sameA_rev g g' k : sameA g g' -> pubn g' k -> pubn g k.
Proof.
  intros H [H1 H2]. destruct (sameA_views _ _ H) as (_ & _ & Ed & _).
  split; [rewrite <- (sa_isnode _ _ H); exact H1|]. rewrite <- (sa_lst _ _ H), <- Ed. exact H2.
Qed.

Lemma GS_frame g g' p : sameA g g' -> GS g p -> GS g' p.
Proof.
  intros S [H1 H2 H3 H4 H5 H6 H7 H8 H9 H10].
  destruct (sameA_views _ _ S) as (En & Eb & Ed & Ep).
  pose proof (sa_lst _ _ S) as EL. pose proof (sa_isnode _ _ S) as EI.
  assert (forall l e, chn g l e -> chn g' l e) as Hchn by (intros; eapply chn_ext; eauto).
  assert (forall q l, bwdl g q l -> bwdl g' q l) as Hbw by (intros; eapply bwdl_ext; eauto).
  assert (forall o n, strict g o n -> strict g' o n) as Hstr.
  { intros o n. unfold strict, strictF, strictB. rewrite (sa_lo _ _ S), (sa_hi _ _ S).
    destruct (is_front o); intros Hs k; rewrite EI, Ep; auto. }
  assert (forall n, strictF g n -> strictF g' n) as HsF by (intros n; apply (Hstr (PushFront 0) n)).
  assert (forall n, strictB g n -> strictB g' n) as HsB by (intros n; apply (Hstr (PushBack 0) n)).
  assert (forall o n, fresh_node g o n -> fresh_node g' o n) as Hfr.
  { intros o n (F1 & F2 & F3 & F4 & F5 & F6 & F7). unfold fresh_node.
    rewrite EI, EL, En, Eb, Ed, Ep, (sa_lo _ _ S), (sa_hi _ _ S). repeat split; auto. }
  constructor.
  - rewrite EL. exact H1.
  - intros k. rewrite EL, EI. auto.
  - destruct H3 as [A B]. split; [rewrite (sa_head _ _ S), EL; exact A|rewrite EL; apply Hchn; exact B].
  - intros k. rewrite EI, EL, Ed. auto.
  - intros k. rewrite EL, Ed. auto.
  - intros k m Hk Hm. rewrite En in Hm. destruct (H6 k m (pubn_sameA_rev _ _ _ S Hk) Hm) as [A B].
    split; [eapply pubn_sameA; eauto|rewrite !Ep; exact B].
  - rewrite (sa_lo _ _ S), (sa_hi _ _ S). destruct H7 as [A B]. split; [exact A|]. intros k. rewrite EI, Ep. auto.
  - destruct p; cbn [back_ok] in *; rewrite ?EL, ?(sa_tail _ _ S), ?Eb, ?EI, ?Ed;
      try (destruct H8; split; auto; fail).
    all: try (destruct H8 as (A & B & C); auto; fail).
    all: try (destruct H8 as (A & l0 & B & C); split; [auto|exists l0; auto]; fail).
    destruct H8 as (A & B & C & l1 & l2 & D & E & F & G & H & J). repeat split; auto.
    exists l1, l2. repeat split; auto.
  - clear Hfr. destruct p; cbn [hold_ok] in *; auto; unfold fresh_node in *;
      rewrite ?EL, ?EI, ?En, ?Eb, ?Ed, ?Ep, ?(sa_lo _ _ S), ?(sa_hi _ _ S), ?(sa_gnode _ _ S).
    all: repeat match goal with H : _ /\ _ |- _ => destruct H | H : exists _, _ |- _ => destruct H end.
    all: repeat (first [split | eexists]); eauto.
    all: try (apply (sa_alloc _ _ S); auto).
  - rewrite EL, (sa_mlog _ _ S). exact H10.
Qed.

Lemma thr_ok_sameA g g' l : sameA g g' -> thr_ok g l -> thr_ok g' l.
Proof.
  intros S [T1 T2 T3 T4]. constructor; auto.
  - intros c Hc. eapply pubn_sameA; eauto.
  - intros z Hz. apply (sa_isrec _ _ S). auto.
  - intros w z Hz. apply (sa_isrec _ _ S). eauto.
Qed.

(* ---------- primitive updates that Layer A does not see ---------- *)
Lemma sameA_fault g x : sameA g x -> sameA g (with_fault x).
Proof. intros [A1 A2 A3 A4 A5 A6 A7 A8 A9 A10]. constructor; auto. Qed.
Lemma sameA_misuse g x : sameA g x -> sameA g (with_misuse x).
Proof. intros [A1 A2 A3 A4 A5 A6 A7 A8 A9 A10]. constructor; auto. Qed.
Lemma sameA_zhead g x z : sameA g x -> sameA g (with_zhead x z).
Proof. intros [A1 A2 A3 A4 A5 A6 A7 A8 A9 A10]. constructor; auto. Qed.
Lemma sameA_zlog g x z : sameA g x -> sameA g (with_zlog x z).
Proof. intros [A1 A2 A3 A4 A5 A6 A7 A8 A9 A10]. constructor; auto. Qed.
Lemma sameA_mtx g x z : sameA g x -> sameA g (with_mtx x z).
Proof. intros [A1 A2 A3 A4 A5 A6 A7 A8 A9 A10]. constructor; auto. Qed.
Lemma sameA_chk g x ok k : sameA g x -> sameA g (fst (chk ok k x)).
Proof. intros H. destruct ok; cbn; [exact H|apply sameA_fault; exact H]. Qed.

Lemma sameA_alloc_rec g r : sameA g (fst (do_alloc g (BRec r))).
Proof.
  constructor; try reflexivity.
  - intros k. apply gnode_alloc_rec.
  - intros k. rewrite isnode_alloc. destruct (Nat.eqb_spec k (nheap g)) as [->|]; [|reflexivity].
    unfold isnode. rewrite getc_ge by lia. reflexivity.
  - intros k H. rewrite isrec_alloc. destruct (Nat.eqb k (nheap g)); auto.
  - intros k Hk Hc. rewrite cs_of_alloc. destruct (Nat.eqb k (nheap g)); auto.
Qed.
Lemma sameA_setz g z r : isrec g z = true -> sameA g (setz g z r).
Proof.
  intros H. destruct (modc_fields g z (set_body (BRec r))) as (F1 & F2 & F3 & F4 & F5 & F6 & F7 & F8 & F9 & F10 & F11 & F12).
  constructor; auto.
  - intros k. apply gnode_setz. exact H.
  - intros k. apply isnode_setz. exact H.
  - intros k Hk. rewrite isrec_setz; auto.
  - intros k Hk Hc. rewrite cs_of_setz. exact Hc.
Qed.
Lemma sameA_construct_rec g z r : isrec g z = true -> sameA g (fst (do_construct g z (BRec r))).
Proof.
  intros H. destruct (construct_fields g z (BRec r)) as (F1 & F2 & F3 & F4 & F5 & F6 & F7 & F8 & F9 & F10 & F11 & F12).
  constructor; auto.
  - intros k. apply gnode_construct_rec. exact H.
  - intros k. apply isnode_construct_rec. exact H.
  - intros k Hk. rewrite isrec_construct_rec; auto.
  - intros k Hk Hc. rewrite cs_of_construct. destruct (Nat.eqb_spec k z) as [->|]; [|exact Hc].
    rewrite (isrec_isnode _ _ H) in Hk. discriminate.
Qed.
Lemma sameA_destroy g k : sameA g (fst (do_destroy g k)).
Proof.
  destruct (destroy_fields g k) as (F1 & F2 & F3 & F4 & F5 & F6 & F7 & F8 & F9 & F10 & F11 & F12).
  constructor; auto.
  - intros j. apply gnode_destroy.
  - intros j. apply isnode_destroy.
  - intros j Hj. rewrite isrec_destroy. exact Hj.
  - intros j Hj Hc. rewrite cs_of_destroy. destruct (Nat.eqb_spec j k) as [->|]; [rewrite Hc; reflexivity|exact Hc].
Qed.
Lemma sameA_dealloc g k : sameA g (fst (do_dealloc g k)).
Proof.
  destruct (dealloc_fields g k) as (F1 & F2 & F3 & F4 & F5 & F6 & F7 & F8 & F9 & F10 & F11 & F12).
  constructor; auto.
  - intros j. apply gnode_dealloc.
  - intros j. apply isnode_dealloc.
  - intros j Hj. rewrite isrec_dealloc. exact Hj.
  - intros j Hj Hc. rewrite cs_of_dealloc. destruct (Nat.eqb_spec j k) as [->|]; [rewrite Hc; reflexivity|exact Hc].
Qed.
Lemma sameA_null g kind : sameA g (fst (null_call g kind)).
Proof. cbn. apply sameA_fault, sameA_refl. Qed.

(* ---------- monotone facts other threads rely on ---------- *)
Definition mono (g g' : glob) : Prop :=
  (forall k, pubn g k -> pubn g' k) /\ (forall k, isrec g k = true -> isrec g' k = true).
Lemma thr_ok_mono g g' l : mono g g' -> thr_ok g l -> thr_ok g' l.
Proof. intros [M1 M2] [T1 T2 T3 T4]. constructor; eauto. Qed.
Lemma mono_sameA g g' : sameA g g' -> mono g g'.
Proof. intros S. split; [intros k; apply pubn_sameA; exact S|apply (sa_isrec _ _ S)]. Qed.

(* ---------- iterators ---------- *)
Lemma getit_In l i c : getit l i = Some (Some c) -> In c (its_refs l).
Proof.
  induction l as [|[j x] r IH]; cbn; [discriminate|].
  destruct (Nat.eqb i j).
  - intros E. inversion E; subst. cbn. auto.
  - intros E. apply in_or_app. right. apply IH. exact E.
Qed.
Lemma its_refs_filter f l c : In c (its_refs (filter f l)) -> In c (its_refs l).
Proof.
  induction l as [|[j x] r IH]; cbn; [auto|]. destruct (f (j, x)); cbn; intros H.
  - apply in_app_or in H. apply in_or_app. destruct H; [left; exact H|right; apply IH; exact H].
  - apply in_or_app. right. apply IH. exact H.
Qed.
Lemma its_refs_setit l i x c : In c (its_refs (setit l i x)) -> x = Some c \/ In c (its_refs l).
Proof.
  unfold setit. cbn. intros H. apply in_app_or in H. destruct H as [H|H].
  - left. destruct x; cbn in H; [destruct H as [->|[]]; reflexivity|contradiction].
  - right. eapply its_refs_filter. exact H.
Qed.

(* ---------- node field writes ---------- *)
Record nviews (g g' : glob) : Prop := {
  nv_isnode : forall j, isnode g' j = isnode g j;
  nv_isrec : forall j, isrec g' j = isrec g j;
  nv_cs : forall j, cs_of g' j = cs_of g j;
  nv_head : head g' = head g; nv_tail : tail g' = tail g; nv_lst : lst g' = lst g; nv_mlog : mlog g' = mlog g;
  nv_lo : lo g' = lo g; nv_hi : hi g' = hi g; nv_mtx : wmtx g' = wmtx g
}.
Lemma nviews_setn g k n : isnode g k = true -> nviews g (setn g k n).
Proof.
  intros H. destruct (modc_fields g k (set_body (BNode n))) as (F1 & F2 & F3 & F4 & F5 & F6 & F7 & F8 & F9 & F10 & F11 & F12).
  constructor; auto.
  - intros j. apply isnode_setn. exact H.
  - intros j. apply isrec_setn. exact H.
  - intros j. apply cs_of_setn.
Qed.
Lemma set_next_views g k x : isnode g k = true ->
  let g' := setn g k (n_next (gnode g k) x) in
  (forall j, nx g' j = if Nat.eqb j k then x else nx g j) /\ (forall j, bk g' j = bk g j) /\
  (forall j, dl g' j = dl g j) /\ (forall j, ps g' j = ps g j).
Proof.
  intros H g'. pose proof (isnode_lt _ _ H) as Hlt. unfold nx, bk, dl, ps, g'.
  repeat split; intros j; rewrite (gnode_setn _ _ _ _ Hlt); destruct (Nat.eqb_spec j k) as [->|]; reflexivity.
Qed.
Lemma set_back_views g k x : isnode g k = true ->
  let g' := setn g k (n_back (gnode g k) x) in
  (forall j, nx g' j = nx g j) /\ (forall j, bk g' j = if Nat.eqb j k then x else bk g j) /\
  (forall j, dl g' j = dl g j) /\ (forall j, ps g' j = ps g j).
Proof.
  intros H g'. pose proof (isnode_lt _ _ H) as Hlt. unfold nx, bk, dl, ps, g'.
  repeat split; intros j; rewrite (gnode_setn _ _ _ _ Hlt); destruct (Nat.eqb_spec j k) as [->|]; reflexivity.
Qed.
Lemma set_del_views g k : isnode g k = true ->
  let g' := setn g k (n_del (gnode g k)) in
  (forall j, nx g' j = nx g j) /\ (forall j, bk g' j = bk g j) /\
  (forall j, dl g' j = if Nat.eqb j k then true else dl g j) /\ (forall j, ps g' j = ps g j).
Proof.
  intros H g'. pose proof (isnode_lt _ _ H) as Hlt. unfold nx, bk, dl, ps, g'.
  repeat split; intros j; rewrite (gnode_setn _ _ _ _ Hlt); destruct (Nat.eqb_spec j k) as [->|]; reflexivity.
Qed.

Lemma fold_apply_app l m : fold_left apply_m (l ++ [m]) [] = apply_m (fold_left apply_m l []) m.
Proof. rewrite fold_left_app. reflexivity. Qed.

Lemma hd_opt_In l a : hd_opt l = Some a -> exists r, l = a :: r.
Proof. destruct l; cbn; intros E; [discriminate|]. inversion E. eauto. Qed.
Lemma last_opt_cons_or a l : last_opt (a :: l) = last_or l (Some a).
Proof. unfold last_or. destruct l; [reflexivity|]. change (last_opt (a :: n :: l)) with (last_opt (n :: l)).
  destruct (last_opt (n :: l)) eqn:E; [reflexivity|]. apply last_opt_none in E. discriminate. Qed.
Lemma NoDup_app_l {A} (a b : list A) : NoDup (a ++ b) -> NoDup a.
Proof. induction a; cbn; intros H; [constructor|]. inversion H; subst. constructor; [intros Hi; apply H2; apply in_or_app; auto|auto]. Qed.
Lemma NoDup_mid {A} (a : list A) x b : NoDup (a ++ x :: b) -> ~ In x a /\ ~ In x b /\ NoDup (a ++ b).
Proof.
  intros H. pose proof (NoDup_remove_1 _ _ _ H). pose proof (NoDup_remove_2 _ _ _ H) as H2.
  repeat split; auto; intros Hi; apply H2; apply in_or_app; auto.
Qed.
