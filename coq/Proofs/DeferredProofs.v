(* Invariants and lemmas for the deferred_guarded model (C06; deferred parts of C02, C07, C15, C20). *)
From Coq Require Import List Arith ZArith Lia Bool.
Import ListNotations.
From GV Require Import Sched Events DeferredModel.
Local Open Scope Z_scope.

Notation sysD := (sys glob loc).
Notation runD := (run glob loc tstep).
Notation stepD := (step glob loc tstep).
Notation enabledD := (enabled glob loc tstep).

(* ---------- thread table access ---------- *)
Definition dloc : loc := Loc [] Idle [] [].
Definition locof (ls : list loc) (u : nat) : loc := match nth_error ls u with Some l => l | None => dloc end.
Definition pcof (ls : list loc) (u : nat) : pc := at_ (locof ls u).

Lemma locof_upd ls t l l' u : nth_error ls t = Some l ->
  locof (upd ls t l') u = if Nat.eqb u t then l' else locof ls u.
Proof.
  intros H. unfold locof. destruct (Nat.eqb_spec u t) as [->|Hne].
  - rewrite (nth_upd_eq _ _ _ _ H). reflexivity.
  - rewrite nth_upd_ne by auto. reflexivity.
Qed.
Lemma locof_at ls t l : nth_error ls t = Some l -> locof ls t = l.
Proof. intros H. unfold locof. rewrite H. reflexivity. Qed.
Lemma pcof_upd ls t l l' u : nth_error ls t = Some l ->
  pcof (upd ls t l') u = if Nat.eqb u t then at_ l' else pcof ls u.
Proof. intros H. unfold pcof. rewrite (locof_upd _ _ _ _ _ H). destruct (Nat.eqb u t); reflexivity. Qed.
Lemma pcof_at ls t l : nth_error ls t = Some l -> pcof ls t = at_ l.
Proof. intros H. unfold pcof. rewrite (locof_at _ _ _ H). reflexivity. Qed.

Arguments locof : simpl never.
Arguments pcof : simpl never.

(* sums over the thread table *)
Lemma sum_term_le (f : loc -> nat) ls u : f dloc = O -> (f (locof ls u) <= list_sum (map f ls))%nat.
Proof.
  intros Hd. unfold locof. revert u. induction ls as [|h r IH]; intros u; destruct u; simpl; rewrite ?Hd; try lia.
  specialize (IH u). simpl in IH. lia.
Qed.
Lemma sum_zero (f : loc -> nat) ls : f dloc = O -> list_sum (map f ls) = O -> forall u, f (locof ls u) = O.
Proof. intros Hd Hs u. pose proof (sum_term_le f ls u Hd). lia. Qed.
Lemma sum_all_zero (f : loc -> nat) ls : (forall u, f (locof ls u) = O) -> list_sum (map f ls) = O.
Proof.
  induction ls as [|h r IH]; intros H; cbn; [reflexivity|].
  pose proof (H O) as H0. unfold locof in H0. cbn in H0. rewrite H0. cbn. apply IH. intros u. apply (H (S u)).
Qed.

(* ---------- pc classification ---------- *)
(* the thread owns the outer mutex exclusively through a library-internal unique_lock *)
Definition holdsX (p : pc) : bool :=
  match p with
  | DI_load _ | DI_clear _ | DI_lockl _ | DI_unlockl _ _ | T_lock _ _ _ | F_call _ | F_rdb _ | F_rde _ | F_wrb _ _ | F_wre _ _
  | T_unlock _ _ _ | M_unlock _ _ | P_unlock _ => true
  | _ => false
  end.
(* the thread is inside load(), holding the local shared handle *)
Definition holdsS (p : pc) : bool := match p with L_rdb | L_rde | L_unlock _ => true | _ => false end.
(* the thread owns the mutex of the pending list *)
Definition holdsL (p : pc) : bool := match p with Q_unlockl _ | DI_unlockl _ _ => true | _ => false end.
(* the mutex of a task runner owned at this pc *)
Definition bq_task (b : bctx) : option nat := match b with BQ _ k _ => Some k | BD _ => None end.
Definition tmof (p : pc) : option nat :=
  match p with
  | Q_unlockt k => Some k
  | F_call b | F_rdb b | F_rde b | F_wrb b _ | F_wre b _ => bq_task b
  | T_unlock _ k _ => Some k
  | _ => None
  end.
(* a functor body is running / a payload window is open *)
Definition inbody (p : pc) : bool :=
  match p with F_call _ | F_rdb _ | F_rde _ | F_wrb _ _ | F_wre _ _ => true | _ => false end.
Definition rdopen (p : pc) : bool := match p with F_rde _ | L_rde | H_rde => true | _ => false end.
Definition wropen (p : pc) : bool := match p with F_wre _ _ => true | _ => false end.
Definition rdh (p : pc) : bool := match p with H_rdb | H_rde => true | _ => false end.

Fixpoint nown (l : list (Z * bool)) : nat :=
  match l with [] => O | (_, b) :: r => ((if b then 1 else 0) + nown r)%nat end.
(* number of shared-handle locks of the outer mutex a thread holds: client handles + the handle inside load() *)
Definition shl (l : loc) : nat := (nown (hand l) + (if holdsS (at_ l) then 1 else 0))%nat.

Lemma nown_remove_true h l : hlookup h l = Some true -> (nown (hremove h l) + 1 = nown l)%nat.
Proof.
  induction l as [|[k b] r IH]; cbn; [discriminate|].
  destruct (k =? h); intros H.
  - inversion H; subst. lia.
  - cbn. specialize (IH H). lia.
Qed.
Lemma nown_remove_false h l : hlookup h l = Some false -> nown (hremove h l) = nown l.
Proof.
  induction l as [|[k b] r IH]; cbn; [discriminate|].
  destruct (k =? h); intros H.
  - inversion H; subst. lia.
  - cbn. rewrite (IH H). reflexivity.
Qed.
Lemma nown_lookup_true h l : hlookup h l = Some true -> (1 <= nown l)%nat.
Proof. intros H. pose proof (nown_remove_true h l H). lia. Qed.

(* ---------- step inversion ---------- *)
Ltac step_cases Hs :=
  unfold tstep, tstep0, start_op, acq_shared, rel_shared, rd_begin, rd_end, wr_begin, wr_end, new_task in Hs;
  cbn [at_ prog hand futs] in Hs;
  repeat match type of Hs with
         | context [match ?x with _ => _ end] =>
           lazymatch x with
           | context [match _ with _ => _ end] => fail
           | _ => destruct x eqn:?; cbn [at_ prog hand futs] in Hs; try discriminate
           end
         end;
  try discriminate; inversion Hs; subst; clear Hs.

Lemma free_x_true g : free_x g = true -> owner g = None /\ (shcap g = true -> nsh g = O).
Proof.
  unfold free_x. destruct (owner g); [discriminate|]. destruct (shcap g); intros H; split; auto; try discriminate.
  intros _. apply Nat.eqb_eq. exact H.
Qed.
Lemma free_x_false g : free_x g = false -> owner g <> None \/ (shcap g = true /\ nsh g <> O).
Proof.
  unfold free_x. destruct (owner g); [left; discriminate|]. destruct (shcap g); intros H; [|discriminate].
  right. split; auto. apply Nat.eqb_neq. exact H.
Qed.
Lemma free_s_true g : free_s g = true -> owner g = None.
Proof. unfold free_s. destruct (owner g); [discriminate|reflexivity]. Qed.
Lemma free_s_false g : free_s g = false -> owner g <> None.
Proof. unfold free_s. destruct (owner g); discriminate. Qed.

Ltac ptw Hl := rewrite ?(pcof_upd _ _ _ _ _ Hl), ?(locof_upd _ _ _ _ _ Hl).

(* ================================================================== *)
(* Layer 1a: the outer mutex                                            *)
(* ================================================================== *)
Record XInv (g : glob) (ls : list loc) : Prop := {
  X1 : forall u, holdsX (pcof ls u) = true -> owner g = Some u;
  X2 : forall a, owner g = Some a -> holdsX (pcof ls a) = true \/ (shcap g = false /\ shl (locof ls a) = 1%nat);
  X3 : shcap g = true -> nsh g = list_sum (map shl ls);
  X4 : shcap g = true -> owner g <> None -> nsh g = O;
  X5 : shcap g = false -> forall u, (1 <= shl (locof ls u))%nat ->
       owner g = Some u /\ holdsX (pcof ls u) = false /\ shl (locof ls u) = 1%nat
}.

(* the kinds of transitions of a thread with respect to the outer mutex *)
Section XKinds.
  Variables (g g' : glob) (ls : list loc) (t : nat) (l l' : loc).
  Hypothesis HI : XInv g ls.
  Hypothesis Hl : nth_error ls t = Some l.
  Hypothesis Hcap : shcap g' = shcap g.

  Let Hp := pcof_at _ _ _ Hl.
  Let Hlo := locof_at _ _ _ Hl.

  Lemma XK_same : owner g' = owner g -> nsh g' = nsh g -> holdsX (at_ l') = holdsX (at_ l) -> shl l' = shl l ->
    XInv g' (upd ls t l').
  Proof.
    intros Ho Hn Hx Hs.
    pose proof (X1 _ _ HI) as HX1; pose proof (X2 _ _ HI) as HX2; pose proof (X3 _ _ HI) as HX3;
    pose proof (X4 _ _ HI) as HX4; pose proof (X5 _ _ HI) as HX5.
    pose proof (sum_upd shl ls t l l' Hl) as Hsum.
    constructor; rewrite ?Hcap, ?Ho, ?Hn.
    - intros u; ptw Hl. destruct (Nat.eqb_spec u t) as [->|Hne]; [rewrite Hx, <- Hp|]; auto.
    - intros u; ptw Hl. destruct (Nat.eqb_spec u t) as [->|Hne]; [rewrite Hx, Hs, <- Hp, <- Hlo|]; auto.
    - intros Hc. rewrite (HX3 Hc). lia.
    - exact HX4.
    - intros Hc u; ptw Hl. destruct (Nat.eqb_spec u t) as [->|Hne]; [rewrite Hx, Hs, <- Hp, <- Hlo|]; auto.
  Qed.

  Ltac xprep :=
    pose proof (X1 _ _ HI) as HX1; pose proof (X2 _ _ HI) as HX2; pose proof (X3 _ _ HI) as HX3;
    pose proof (X4 _ _ HI) as HX4; pose proof (X5 _ _ HI) as HX5;
    pose proof (HX1 t) as HX1t; pose proof (HX2 t) as HX2t; pose proof (fun H => HX5 H t) as HX5t;
    pose proof (sum_upd shl ls t l l' Hl) as Hsum;
    pose proof (sum_term_le shl ls t eq_refl) as Hle;
    rewrite ?Hp, ?Hlo in *.
  Ltac xpt u := intros u; ptw Hl; destruct (Nat.eqb_spec u t) as [->|Hne].

  (* exclusive try-lock succeeded *)
  Lemma XK_acqX : free_x g = true -> owner g' = Some t -> nsh g' = nsh g ->
    holdsX (at_ l) = false -> holdsX (at_ l') = true -> shl l' = shl l -> XInv g' (upd ls t l').
  Proof.
    intros Hf Ho Hn Hx Hx' Hs. apply free_x_true in Hf as [Hf1 Hf2]. xprep.
    constructor; rewrite ?Hcap, ?Ho, ?Hn.
    - xpt u; [reflexivity|]. intros Hu. specialize (HX1 u Hu). congruence.
    - xpt u; [auto|]. intros E. congruence.
    - intros Hc. rewrite (HX3 Hc). lia.
    - intros Hc _. auto.
    - intros Hc. xpt u.
      + rewrite Hs. intros H1. destruct (HX5t Hc H1) as [E _]. congruence.
      + intros H1. destruct (HX5 Hc u H1) as [E _]. congruence.
  Qed.

  (* the exclusive lock is released *)
  Lemma XK_relX : holdsX (at_ l) = true -> holdsX (at_ l') = false -> owner g' = None -> nsh g' = nsh g ->
    shl l' = shl l -> XInv g' (upd ls t l').
  Proof.
    intros Hx Hx' Ho Hn Hs. xprep. specialize (HX1t Hx).
    constructor; rewrite ?Hcap, ?Ho, ?Hn.
    - xpt u; [congruence|]. intros Hu. specialize (HX1 u Hu). congruence.
    - discriminate.
    - intros Hc. rewrite (HX3 Hc). lia.
    - intros _ H. contradiction.
    - intros Hc. xpt u.
      + rewrite Hs. intros H1. destruct (HX5t Hc H1) as [_ [E _]]. congruence.
      + intros H1. destruct (HX5 Hc u H1) as [E _]. congruence.
  Qed.

  (* shared acquisition / release with a shared-capable mutex *)
  Lemma XK_acqS : shcap g = true -> owner g = None -> owner g' = None -> nsh g' = S (nsh g) ->
    holdsX (at_ l) = false -> holdsX (at_ l') = false -> shl l' = S (shl l) -> XInv g' (upd ls t l').
  Proof.
    intros Hc Hf Ho Hn Hx Hx' Hs. xprep.
    constructor; rewrite ?Hcap, ?Ho, ?Hn.
    - xpt u; [congruence|]. intros Hu. specialize (HX1 u Hu). congruence.
    - discriminate.
    - intros _. rewrite (HX3 Hc). lia.
    - intros _ H. contradiction.
    - congruence.
  Qed.
  Lemma XK_relS : shcap g = true -> owner g' = owner g -> nsh g' = pred (nsh g) ->
    holdsX (at_ l) = false -> holdsX (at_ l') = false -> shl l = S (shl l') -> XInv g' (upd ls t l').
  Proof.
    intros Hc Ho Hn Hx Hx' Hs. xprep.
    constructor; rewrite ?Hcap, ?Ho, ?Hn.
    - xpt u; [congruence|]. auto.
    - xpt u; [|auto]. intros E. destruct (HX2t E) as [H|[H _]]; congruence.
    - intros _. rewrite (HX3 Hc) in *. lia.
    - intros _ H. rewrite (HX4 Hc H). reflexivity.
    - congruence.
  Qed.

  (* shared acquisition / release with a plain mutex: an exclusive lock owned by the handle *)
  Lemma XK_acqP : shcap g = false -> free_x g = true -> owner g' = Some t -> nsh g' = nsh g ->
    holdsX (at_ l) = false -> holdsX (at_ l') = false -> shl l' = S (shl l) -> XInv g' (upd ls t l').
  Proof.
    intros Hc Hf Ho Hn Hx Hx' Hs. apply free_x_true in Hf as [Hf1 Hf2]. xprep.
    assert (shl l = O) as Hz.
    { destruct (shl l) eqn:E; [reflexivity|]. destruct (HX5t Hc) as [E1 _]; [lia|congruence]. }
    constructor; rewrite ?Hcap, ?Ho, ?Hn.
    - xpt u; [congruence|]. intros Hu. specialize (HX1 u Hu). congruence.
    - xpt u; [|congruence]. intros _. right. split; [exact Hc|lia].
    - congruence.
    - congruence.
    - intros _. xpt u.
      + intros _. repeat split; auto. lia.
      + intros H1. destruct (HX5 Hc u H1) as [E _]. congruence.
  Qed.
  Lemma XK_relP : shcap g = false -> owner g' = None -> nsh g' = nsh g ->
    holdsX (at_ l) = false -> holdsX (at_ l') = false -> shl l = S (shl l') -> XInv g' (upd ls t l').
  Proof.
    intros Hc Ho Hn Hx Hx' Hs. xprep.
    destruct (HX5t Hc) as [E1 [_ E2]]; [lia|].
    constructor; rewrite ?Hcap, ?Ho, ?Hn.
    - xpt u; [congruence|]. intros Hu. specialize (HX1 u Hu). congruence.
    - discriminate.
    - congruence.
    - congruence.
    - intros _. xpt u.
      + intros H1. lia.
      + intros H1. destruct (HX5 Hc u H1) as [E _]. congruence.
  Qed.
End XKinds.

(* ================================================================== *)
(* Layer 1b: the mutex of the pending list, the mutexes of the task runners, the client's handles *)
(* ================================================================== *)
Record LInv (g : glob) (ls : list loc) : Prop := {
  L1 : forall u, holdsL (pcof ls u) = true -> lmtx g = Some u;
  L2 : forall a, lmtx g = Some a -> holdsL (pcof ls a) = true
}.
Record TInv (g : glob) (ls : list loc) : Prop := {
  T1 : forall u k, tmof (pcof ls u) = Some k -> tmtx g k = Some u;
  T2 : forall k a, tmtx g k = Some a -> tmof (pcof ls a) = Some k
}.
(* thread-local facts about the handle table *)
Definition hand_ok (l : loc) : Prop :=
  (forall h, at_ l = H_rel h -> hlookup h (hand l) = Some true) /\
  (rdh (at_ l) = true -> (1 <= nown (hand l))%nat).
Definition HInv (ls : list loc) : Prop := forall u, hand_ok (locof ls u).

Section LTKinds.
  Variables (g g' : glob) (ls : list loc) (t : nat) (l l' : loc).
  Hypothesis Hl : nth_error ls t = Some l.
  Let Hp := pcof_at _ _ _ Hl.
  Ltac xpt u := intros u; ptw Hl; destruct (Nat.eqb_spec u t) as [->|Hne].

  Lemma LK_same : LInv g ls -> lmtx g' = lmtx g -> holdsL (at_ l') = holdsL (at_ l) -> LInv g' (upd ls t l').
  Proof.
    intros [H1 H2] Hm Hh. constructor; rewrite Hm.
    - xpt u; [rewrite Hh, <- Hp|]; auto.
    - xpt u; [rewrite Hh, <- Hp|]; auto.
  Qed.
  Lemma LK_acq : LInv g ls -> lmtx g = None -> lmtx g' = Some t -> holdsL (at_ l') = true -> LInv g' (upd ls t l').
  Proof.
    intros [H1 H2] Hf Hm Hh. constructor; rewrite Hm.
    - xpt u; [reflexivity|]. intros Hu. specialize (H1 u Hu). congruence.
    - xpt u; [auto|congruence].
  Qed.
  Lemma LK_rel : LInv g ls -> holdsL (at_ l) = true -> lmtx g' = None -> holdsL (at_ l') = false -> LInv g' (upd ls t l').
  Proof.
    intros [H1 H2] Hh Hm Hh'. pose proof (H1 t) as H1t. rewrite Hp in H1t. specialize (H1t Hh).
    constructor; rewrite Hm.
    - xpt u; [congruence|]. intros Hu. specialize (H1 u Hu). congruence.
    - discriminate.
  Qed.

  Lemma TK_same : TInv g ls -> tmtx g' = tmtx g -> tmof (at_ l') = tmof (at_ l) -> TInv g' (upd ls t l').
  Proof.
    intros [H1 H2] Hm Hh. constructor; rewrite Hm.
    - xpt u; [rewrite Hh, <- Hp|]; auto.
    - intros k. xpt u; [rewrite Hh, <- Hp|]; auto.
  Qed.
  Lemma TK_acq k : TInv g ls -> tmtx g k = None -> tmtx g' = fupd (tmtx g) k (Some t) ->
    tmof (at_ l) = None -> tmof (at_ l') = Some k -> TInv g' (upd ls t l').
  Proof.
    intros [H1 H2] Hf Hm Hh Hh'. constructor; rewrite Hm; unfold fupd.
    - xpt u; intros k0 E.
      + assert (k0 = k) by congruence. subst. rewrite Nat.eqb_refl. reflexivity.
      + destruct (Nat.eqb_spec k0 k) as [->|Hk]; [|auto]. specialize (H1 u k E). congruence.
    - intros k0. xpt u; destruct (Nat.eqb_spec k0 k) as [->|Hk]; intros E; auto; try congruence.
      specialize (H2 _ _ E). rewrite Hp in H2. congruence.
  Qed.
  Lemma TK_rel k : TInv g ls -> tmof (at_ l) = Some k -> tmtx g' = fupd (tmtx g) k None ->
    tmof (at_ l') = None -> TInv g' (upd ls t l').
  Proof.
    intros [H1 H2] Hh Hm Hh'. pose proof (H1 t k) as H1t. rewrite Hp in H1t. specialize (H1t Hh).
    constructor; rewrite Hm; unfold fupd.
    - xpt u; intros k0 E; [congruence|].
      destruct (Nat.eqb_spec k0 k) as [->|Hk]; [|auto]. specialize (H1 u k E). congruence.
    - intros k0. xpt u; destruct (Nat.eqb_spec k0 k) as [->|Hk]; intros E; auto; try discriminate.
      specialize (H2 _ _ E). rewrite Hp in H2. congruence.
  Qed.

  Lemma HK_step : HInv ls -> hand_ok l' -> HInv (upd ls t l').
  Proof. intros H Hn. xpt u; auto. Qed.
End LTKinds.

Record Inv1 (g : glob) (ls : list loc) : Prop := {
  I1X : XInv g ls; I1L : LInv g ls; I1T : TInv g ls; I1H : HInv ls
}.

Ltac gsimp :=
  unfold tick, ghost_of, shcap;
  cbn [mk throws owner nsh flag lmtx queue pay rdrs dirty faulted calls ntasks tfid tasync tmtx tfut gh
       set_owner set_nsh set_flag set_list set_pay set_calls set_tmtx set_tfut set_gh add_task at_ hand prog futs].
Ltac nown_facts :=
  repeat match goal with
  | H : hlookup ?h ?l = Some true |- _ =>
    lazymatch goal with
    | _ : (nown (hremove h l) + 1 = nown l)%nat |- _ => fail
    | _ => pose proof (nown_remove_true h l H)
    end
  | H : hlookup ?h ?l = Some false |- _ =>
    lazymatch goal with
    | _ : nown (hremove h l) = nown l |- _ => fail
    | _ => pose proof (nown_remove_false h l H)
    end
  end.
Ltac side :=
  gsimp; unfold after_drain, body_done; unfold cont;
  first [ reflexivity | eassumption
        | solve [unfold shl; cbn [hand at_ holdsS nown holdsX holdsL tmof bq_task]; nown_facts; lia]
        | solve [repeat match goal with |- context [match ?x with _ => _ end] => destruct x end; reflexivity]
        | solve [fold (shcap _); assumption] ].

Lemma Inv1_init m th progs : Inv1 (gl (init m th progs)) (thr (init m th progs)).
Proof.
  assert (P : forall u, locof (map (fun p => Loc p Idle [] []) progs) u = dloc \/
                        exists p, locof (map (fun p => Loc p Idle [] []) progs) u = Loc p Idle [] []).
  { intros u. unfold locof. rewrite nth_error_map. destruct (nth_error progs u); cbn; eauto. }
  assert (Q : forall u, pcof (map (fun p => Loc p Idle [] []) progs) u = Idle /\
                        hand (locof (map (fun p => Loc p Idle [] []) progs) u) = []).
  { intros u. unfold pcof. destruct (P u) as [E|[p E]]; rewrite E; auto. }
  assert (S0 : forall u, shl (locof (map (fun p => Loc p Idle [] []) progs) u) = O).
  { intros u. unfold shl. destruct (Q u) as [E1 E2]. unfold pcof in E1. rewrite E1, E2. reflexivity. }
  unfold init; cbn [gl thr]. constructor.
  - constructor; cbn.
    + intros u H. rewrite (proj1 (Q u)) in H. discriminate.
    + discriminate.
    + intros _. symmetry. apply sum_all_zero. exact S0.
    + reflexivity.
    + intros _ u H. rewrite S0 in H. lia.
  - constructor; cbn; [|discriminate]. intros u H. rewrite (proj1 (Q u)) in H. discriminate.
  - constructor; cbn; [|discriminate]. intros u k H. rewrite (proj1 (Q u)) in H. discriminate.
  - intros u. destruct (Q u) as [E1 E2]. unfold pcof in E1. split; intros; rewrite ?E1, ?E2 in *; discriminate.
Qed.

Ltac solveX HX Hl :=
  first
  [ solve [eapply (XK_same _ _ _ _ _ _ HX Hl); side]
  | solve [eapply (XK_acqX _ _ _ _ _ _ HX Hl); side]
  | solve [eapply (XK_relX _ _ _ _ _ _ HX Hl); side]
  | solve [eapply (XK_acqS _ _ _ _ _ _ HX Hl); side]
  | solve [eapply (XK_relS _ _ _ _ _ _ HX Hl); side]
  | solve [eapply (XK_acqP _ _ _ _ _ _ HX Hl); side]
  | solve [eapply (XK_relP _ _ _ _ _ _ HX Hl); side] ].
Ltac solveL HL Hl :=
  first
  [ solve [eapply (LK_same _ _ _ _ _ _ Hl HL); side]
  | solve [eapply (LK_acq _ _ _ _ _ _ Hl HL); side]
  | solve [eapply (LK_rel _ _ _ _ _ _ Hl HL); side] ].
Ltac solveT HT Hl :=
  first
  [ solve [eapply (TK_same _ _ _ _ _ _ Hl HT); side]
  | solve [eapply (TK_acq _ _ _ _ _ _ Hl _ HT); side]
  | solve [eapply (TK_rel _ _ _ _ _ _ Hl _ HT); side] ].
Ltac norm_free_s :=
  repeat match goal with
  | H : free_s _ = true |- _ => apply free_s_true in H
  | H : free_s _ = false |- _ => apply free_s_false in H
  end.

Lemma Inv1_step g ls t c l g' l' es :
  Inv1 g ls -> nth_error ls t = Some l -> tstep t c g l = Some (g', l', es) -> Inv1 g' (upd ls t l').
Proof.
  intros [HX HL HT HH] Hl Hs. destruct l as [pr p hd fu].
  pose proof (HH t) as [HH1 HH2]. rewrite (locof_at _ _ _ Hl) in HH1, HH2. cbn [at_ hand] in HH1, HH2.
  step_cases Hs.
  all: try (specialize (HH1 _ eq_refl)); try (specialize (HH2 eq_refl)).
  all: norm_free_s.
  all: constructor; [solveX HX Hl | solveL HL Hl | solveT HT Hl | ].
  all: apply (HK_step _ _ _ _ Hl HH); split; cbn [at_ hand rdh hlookup nown]; unfold after_drain, body_done; unfold cont; intros;
       repeat match goal with H : context [match ?x with _ => _ end] |- _ => destruct x end;
       try discriminate; nown_facts; try lia; try congruence.
Qed.

(* ================================================================== *)
(* Layer 2: the payload windows                                         *)
(* ================================================================== *)
Definition rdw (l : loc) : nat := if rdopen (at_ l) then 1%nat else O.

Lemma wropen_holdsX p : wropen p = true -> holdsX p = true.
Proof. destruct p; cbn; congruence. Qed.
Lemma inbody_holdsX p : inbody p = true -> holdsX p = true.
Proof. destruct p; cbn; congruence. Qed.

(* while a thread is inside an exclusive section nobody holds a shared lock and nobody else is in such a section *)
Lemma excl_facts g ls a : Inv1 g ls -> holdsX (pcof ls a) = true ->
  forall u, shl (locof ls u) = O /\ (holdsX (pcof ls u) = true -> u = a).
Proof.
  intros [HX _ _ _] Ha u. pose proof (X1 _ _ HX a Ha) as Ho. split.
  - destruct (shcap g) eqn:Hc.
    + assert (nsh g = O) as Hn by (apply (X4 _ _ HX Hc); congruence).
      rewrite (X3 _ _ HX Hc) in Hn. apply (sum_zero shl ls eq_refl Hn).
    + destruct (shl (locof ls u)) eqn:E; [reflexivity|].
      destruct (X5 _ _ HX Hc u) as [E1 [E2 _]]; [lia|]. assert (u = a) by congruence. subst. congruence.
  - intros Hu. pose proof (X1 _ _ HX u Hu). congruence.
Qed.

Lemma rd_holds ls u : HInv ls -> rdopen (pcof ls u) = true ->
  holdsX (pcof ls u) = true \/ (1 <= shl (locof ls u))%nat.
Proof.
  intros HH Hr. destruct (HH u) as [_ H2]. unfold shl, pcof in *.
  destruct (at_ (locof ls u)); try discriminate; cbn in *; auto; right; try lia.
Qed.

Record WInv (g : glob) (ls : list loc) : Prop := {
  W1 : rdrs g = list_sum (map rdw ls);
  W2 : forall u, wropen (pcof ls u) = true -> dirty g = true;
  W3 : dirty g = true -> exists a, wropen (pcof ls a) = true;
  W4 : faulted g = false
}.

Section WKinds.
  Variables (g g' : glob) (ls : list loc) (t : nat) (l l' : loc).
  Hypothesis H1 : Inv1 g ls.
  Hypothesis HW : WInv g ls.
  Hypothesis Hl : nth_error ls t = Some l.
  Let Hp := pcof_at _ _ _ Hl.
  Let Hlo := locof_at _ _ _ Hl.
  Ltac xpt u := intros u; ptw Hl; destruct (Nat.eqb_spec u t) as [->|Hne].

  Lemma WK_same : rdrs g' = rdrs g -> dirty g' = dirty g -> faulted g' = faulted g ->
    rdopen (at_ l') = rdopen (at_ l) -> wropen (at_ l') = wropen (at_ l) -> WInv g' (upd ls t l').
  Proof.
    intros Hr Hd Hf Ho Hw. destruct HW as [A1 A2 A3 A4]. constructor; rewrite ?Hr, ?Hd, ?Hf; auto.
    - pose proof (sum_upd rdw ls t l l' Hl) as Hs. unfold rdw in Hs at 2 4. rewrite Ho in Hs. lia.
    - xpt u; [rewrite Hw, <- Hp|]; apply A2.
    - intros D. destruct (A3 D) as [a Ha]. exists a. ptw Hl. destruct (Nat.eqb_spec a t) as [->|Hne]; [rewrite Hw, <- Hp|]; auto.
  Qed.

  (* a thread that holds the outer mutex in some mode sees a clean payload *)
  Lemma clean_for_holder : (holdsX (at_ l) = true /\ wropen (at_ l) = false) \/ (1 <= shl l)%nat -> dirty g = false.
  Proof.
    intros Hh. destruct (dirty g) eqn:D; [exfalso|reflexivity].
    destruct (W3 _ _ HW D) as [a Ha]. pose proof (wropen_holdsX _ Ha) as Hxa.
    destruct (excl_facts _ _ _ H1 Hxa t) as [E1 E2]. rewrite Hp in E2. rewrite Hlo in E1.
    destruct Hh as [[Hx Hw]|Hs]; [|lia]. specialize (E2 Hx). rewrite <- E2 in Ha. rewrite Hp in Ha. congruence.
  Qed.

  Lemma WK_rdb : (holdsX (at_ l) = true /\ wropen (at_ l) = false) \/ (1 <= shl l)%nat ->
    rdrs g' = S (rdrs g) -> dirty g' = dirty g -> faulted g' = faulted g || dirty g ->
    rdopen (at_ l) = false -> rdopen (at_ l') = true -> wropen (at_ l) = false -> wropen (at_ l') = false ->
    WInv g' (upd ls t l').
  Proof.
    intros Hh Hr Hd Hf Ho Ho' Hw Hw'. pose proof (clean_for_holder Hh) as Hc.
    destruct HW as [A1 A2 A3 A4]. constructor; rewrite ?Hr, ?Hd, ?Hf, ?Hc, ?A4; auto.
    - pose proof (sum_upd rdw ls t l l' Hl) as Hs. unfold rdw in Hs at 2 4. rewrite Ho, Ho' in Hs. lia.
    - xpt u; [congruence|]. intros Hu. specialize (A2 u Hu). congruence.
    - discriminate.
  Qed.
  Lemma WK_rde : (holdsX (at_ l) = true /\ wropen (at_ l) = false) \/ (1 <= shl l)%nat ->
    rdrs g' = pred (rdrs g) -> dirty g' = dirty g -> faulted g' = faulted g || dirty g ->
    rdopen (at_ l) = true -> rdopen (at_ l') = false -> wropen (at_ l) = false -> wropen (at_ l') = false ->
    WInv g' (upd ls t l').
  Proof.
    intros Hh Hr Hd Hf Ho Ho' Hw Hw'. pose proof (clean_for_holder Hh) as Hc.
    destruct HW as [A1 A2 A3 A4]. constructor; rewrite ?Hr, ?Hd, ?Hf, ?Hc, ?A4; auto.
    - pose proof (sum_upd rdw ls t l l' Hl) as Hs. unfold rdw in Hs at 2 4. rewrite Ho, Ho' in Hs. lia.
    - xpt u; [congruence|]. intros Hu. specialize (A2 u Hu). congruence.
    - discriminate.
  Qed.
  Lemma WK_wrb : holdsX (at_ l) = true -> wropen (at_ l) = false -> rdopen (at_ l) = false ->
    rdrs g' = rdrs g -> dirty g' = true -> faulted g' = faulted g || negb (Nat.eqb (rdrs g) 0) || dirty g ->
    rdopen (at_ l') = false -> wropen (at_ l') = true -> WInv g' (upd ls t l').
  Proof.
    intros Hx Hw Ho Hr Hd Hf Ho' Hw'. pose proof (clean_for_holder (or_introl (conj Hx Hw))) as Hc.
    destruct H1 as [HX HL HT HH]. destruct HW as [A1 A2 A3 A4].
    assert (rdrs g = O) as Hz.
    { rewrite A1. apply sum_all_zero. intros u. unfold rdw. destruct (rdopen (at_ (locof ls u))) eqn:E; [exfalso|reflexivity].
      rewrite <- Hp in Hx. destruct (excl_facts _ _ _ H1 Hx u) as [E1 E2].
      destruct (rd_holds ls u HH E) as [Hu|Hu]; [|lia]. specialize (E2 Hu). rewrite E2 in E. rewrite Hlo in E. congruence. }
    constructor; rewrite ?Hr, ?Hd, ?Hf, ?Hc, ?A4, ?Hz; auto.
    - pose proof (sum_upd rdw ls t l l' Hl) as Hs. unfold rdw in Hs at 2 4. rewrite Ho, Ho' in Hs. lia.
    - intros _. exists t. ptw Hl. rewrite Nat.eqb_refl. exact Hw'.
  Qed.
  Lemma WK_wre : wropen (at_ l) = true -> wropen (at_ l') = false -> rdopen (at_ l) = false -> rdopen (at_ l') = false ->
    rdrs g' = rdrs g -> dirty g' = false -> faulted g' = faulted g -> WInv g' (upd ls t l').
  Proof.
    intros Hw Hw' Ho Ho' Hr Hd Hf. destruct HW as [A1 A2 A3 A4]. constructor; rewrite ?Hr, ?Hd, ?Hf; auto.
    - pose proof (sum_upd rdw ls t l l' Hl) as Hs. unfold rdw in Hs at 2 4. rewrite Ho, Ho' in Hs. lia.
    - xpt u; [congruence|]. intros Hu. exfalso.
      pose proof (wropen_holdsX _ Hu) as Hxu. pose proof (wropen_holdsX _ Hw) as Hxt. rewrite <- Hp in Hxt.
      destruct (excl_facts _ _ _ H1 Hxt u) as [_ E]. auto.
    - discriminate.
  Qed.
End WKinds.

Lemma WInv_init m th progs : WInv (gl (init m th progs)) (thr (init m th progs)).
Proof.
  assert (Q : forall u, pcof (map (fun p => Loc p Idle [] []) progs) u = Idle).
  { intros u. unfold pcof, locof. rewrite nth_error_map. destruct (nth_error progs u); reflexivity. }
  unfold init; cbn [gl thr]. constructor; cbn; auto; try discriminate.
  - symmetry. apply sum_all_zero. intros u. unfold rdw. pose proof (Q u) as E. unfold pcof in E. rewrite E. reflexivity.
  - intros u H. rewrite Q in H. discriminate.
Qed.

Ltac wside :=
  gsimp; unfold after_drain, body_done; unfold cont;
  first [ reflexivity | eassumption
        | solve [left; split; reflexivity]
        | solve [right; unfold shl; cbn [hand at_ holdsS nown]; nown_facts; lia]
        | solve [repeat match goal with |- context [match ?x with _ => _ end] => destruct x end; reflexivity] ].
Ltac solveW H1 HW Hl :=
  first
  [ solve [eapply (WK_same _ _ _ _ _ _ HW Hl); wside]
  | solve [eapply (WK_rdb _ _ _ _ _ _ H1 HW Hl); wside]
  | solve [eapply (WK_rde _ _ _ _ _ _ H1 HW Hl); wside]
  | solve [eapply (WK_wrb _ _ _ _ _ _ H1 HW Hl); wside]
  | solve [eapply (WK_wre _ _ _ _ _ _ H1 HW Hl); wside] ].

Lemma WInv_step g ls t c l g' l' es :
  Inv1 g ls -> WInv g ls -> nth_error ls t = Some l -> tstep t c g l = Some (g', l', es) -> WInv g' (upd ls t l').
Proof.
  intros H1 HW Hl Hs. destruct l as [pr p hd fu].
  pose proof (I1H _ _ H1 t) as [HH1 HH2]. rewrite (locof_at _ _ _ Hl) in HH1, HH2. cbn [at_ hand] in HH1, HH2.
  step_cases Hs.
  all: try (specialize (HH2 eq_refl)).
  all: solveW H1 HW Hl.
Qed.

(* ================================================================== *)
(* Layer 3: tasks, stamps, the queue and the flag                       *)
(* ================================================================== *)
Definition cdir (c : ctx) : option nat := match c with CDir tk => Some tk | CPre _ => None end.
Definition bdir (b : bctx) : option nat := match b with BD tk => Some tk | BQ c _ _ => cdir c end.
(* the task of the submit call in progress *)
Definition ctask (p : pc) : option nat :=
  match p with
  | M_try tk | Q_lockt tk | Q_unlockt tk | Q_lockl tk | Q_unlockl tk | Q_store tk | M_unlock tk _ => Some tk
  | DI_load c | DI_clear c | DI_lockl c | DI_unlockl c _ | T_lock c _ _ | T_unlock c _ _ => cdir c
  | F_call b | F_rdb b | F_rde b | F_wrb b _ | F_wre b _ => bdir b
  | _ => None
  end.
Inductive phase := PhNew | PhPushed | PhExec.
Definition bexec (b : bctx) : phase := match b with BD _ => PhExec | BQ _ _ _ => PhNew end.
Definition cphase (p : pc) : phase :=
  match p with
  | Q_unlockl _ | Q_store _ => PhPushed
  | F_rdb b | F_rde b | F_wrb b _ | F_wre b _ => bexec b
  | M_unlock _ _ => PhExec
  | _ => PhNew
  end.
(* the tasks a drainer has taken out of the queue and not yet invoked *)
Definition bpend (b : bctx) : list nat := match b with BQ _ tk r => tk :: r | BD _ => [] end.
Definition brest (b : bctx) : list nat := match b with BQ _ _ r => r | BD _ => [] end.
Definition lpend (p : pc) : list nat :=
  match p with
  | DI_unlockl _ lp => lp
  | T_lock _ tk r => tk :: r
  | F_call b => bpend b
  | F_rdb b | F_rde b | F_wrb b _ | F_wre b _ => brest b
  | T_unlock _ _ r => r
  | _ => []
  end.
Definition clr (p : pc) : bool := match p with DI_lockl _ => true | _ => false end.
Definition prechk (p : pc) : bool := match p with DI_load _ | DI_clear _ | DI_lockl _ => true | _ => false end.
Definition postchk (p : pc) : bool := holdsX p && negb (prechk p).

Lemma lpend_holdsX p : lpend p <> [] -> holdsX p = true.
Proof. destruct p; cbn; congruence. Qed.
Lemma clr_holdsX p : clr p = true -> holdsX p = true.
Proof. destruct p; cbn; congruence. Qed.

Fixpoint ordered (f : nat -> nat) (l : list nat) : Prop :=
  match l with [] => True | a :: r => (forall b, In b r -> (f a < f b)%nat) /\ ordered f r end.
Lemma ordered_app f l1 l2 :
  ordered f (l1 ++ l2) <-> ordered f l1 /\ ordered f l2 /\ (forall a b, In a l1 -> In b l2 -> (f a < f b)%nat).
Proof.
  induction l1 as [|x r IH]; cbn.
  - intuition.
  - rewrite IH. split.
    + intros [H1 [H2 [H3 H4]]]. repeat split; auto.
      * intros b Hb. apply H1. apply in_or_app. auto.
      * intros a b [->|Ha] Hb; [apply H1; apply in_or_app; auto|auto].
    + intros [[H1 H2] [H3 H4]]. repeat split; auto.
      intros b Hb. apply in_app_or in Hb as [Hb|Hb]; auto.
Qed.
Lemma ordered_ext f f' l : (forall x, In x l -> f x = f' x) -> ordered f l -> ordered f' l.
Proof.
  induction l as [|a r IH]; cbn; auto. intros He [H1 H2]. split.
  - intros b Hb. rewrite <- (He a), <- (He b); auto.
  - apply IH; auto.
Qed.
Lemma ordered_head_notin f a r : ordered f (a :: r) -> ~ In a r.
Proof. cbn. intros [H _] Hin. specialize (H a Hin). lia. Qed.

Definition pst (h : ghost) (tk : nat) : nat := match tpush h tk with Some p => p | None => O end.

Record SInv (g : glob) (ls : list loc) : Prop := {
  (* fresh task ids carry no stamps *)
  S0 : forall tk, (ntasks g <= tk)%nat ->
       tpush (gh g) tk = None /\ tret (gh g) tk = None /\ texec (gh g) tk = None /\ tcount (gh g) tk = O;
  (* stamps are in the past and in program order *)
  S1i : forall tk, (tk < ntasks g)%nat -> (tinv (gh g) tk < clock (gh g))%nat;
  S1p : forall tk p, tpush (gh g) tk = Some p -> (tinv (gh g) tk < p < clock (gh g))%nat;
  S1r : forall tk r, tret (gh g) tk = Some r -> (r < clock (gh g))%nat /\
        (texec (gh g) tk <> None \/ exists p, tpush (gh g) tk = Some p /\ (p < r)%nat);
  S1e : forall tk e, texec (gh g) tk = Some e -> (e < clock (gh g))%nat;
  (* the submit call in progress of each thread *)
  S2 : forall u tk, ctask (pcof ls u) = Some tk ->
       (tk < ntasks g)%nat /\ tsub (gh g) tk = u /\ tret (gh g) tk = None /\
       match cphase (pcof ls u) with
       | PhNew => tpush (gh g) tk = None /\ texec (gh g) tk = None
       | PhPushed => tpush (gh g) tk <> None
       | PhExec => tpush (gh g) tk = None /\ texec (gh g) tk <> None
       end;
  S3 : forall tk, (tk < ntasks g)%nat -> tret (gh g) tk = None -> ctask (pcof ls (tsub (gh g) tk)) = Some tk;
  (* pushed and not yet invoked = in a drainer's local list or in the queue, in push order *)
  S4 : forall u tk, In tk (lpend (pcof ls u) ++ queue g) ->
       (tk < ntasks g)%nat /\ texec (gh g) tk = None /\ tpush (gh g) tk <> None;
  S5 : forall u, ordered (pst (gh g)) (lpend (pcof ls u) ++ queue g);
  S6 : forall tk, tpush (gh g) tk <> None -> texec (gh g) tk = None ->
       In tk (queue g) \/ exists u, In tk (lpend (pcof ls u));
  (* the flag: a queued task whose submit call has returned is announced *)
  S7 : forall tk, In tk (queue g) -> tret (gh g) tk = None \/ flag g = true \/ exists u, clr (pcof ls u) = true;
  (* after its own check / swap a direct-path thread has every earlier-returned task in hand *)
  S8 : forall u tk0, postchk (pcof ls u) = true -> ctask (pcof ls u) = Some tk0 ->
       forall f r, In f (queue g) -> tret (gh g) f = Some r -> (tinv (gh g) tk0 < r)%nat;
  (* exactly once *)
  S9 : forall tk, tcount (gh g) tk = match texec (gh g) tk with Some _ => 1%nat | None => O end;
  (* real-time order *)
  S10 : forall f k r e', tret (gh g) f = Some r -> (r < tinv (gh g) k)%nat -> (k < ntasks g)%nat ->
        texec (gh g) k = Some e' -> exists e, texec (gh g) f = Some e /\ (e < e')%nat
}.

(* only the owner of the outer mutex has a local list *)
Lemma lpend_only_owner g ls t u : Inv1 g ls -> holdsX (pcof ls t) = true -> u <> t -> lpend (pcof ls u) = [].
Proof.
  intros H1 Ht Hne. destruct (lpend (pcof ls u)) eqn:E; [reflexivity|exfalso].
  assert (holdsX (pcof ls u) = true) as Hu by (apply lpend_holdsX; congruence).
  destruct (excl_facts _ _ _ H1 Ht u) as [_ E2]. auto.
Qed.
