(* Invariants and lemmas for the deferred_guarded model (C06; deferred parts of C02, C07, C15, C20). *)
From Coq Require Import List Arith ZArith Lia Bool.
Import ListNotations.
From GV Require Import Sched Events DeferredModel.
Local Open Scope Z_scope.

Notation sysD := (sys glob loc).
Notation runD := (run glob loc tstep).
Notation stepD := (step glob loc tstep).
Notation enabledD := (enabled glob loc tstep).

(* ---------- thread table access ---------- *)
Definition dloc : loc := Loc [] Idle [] [].
Definition locof (ls : list loc) (u : nat) : loc := match nth_error ls u with Some l => l | None => dloc end.
Definition pcof (ls : list loc) (u : nat) : pc := at_ (locof ls u).

Lemma locof_upd ls t l l' u : nth_error ls t = Some l ->
  locof (upd ls t l') u = if Nat.eqb u t then l' else locof ls u.
Proof.
  intros H. unfold locof. destruct (Nat.eqb_spec u t) as [->|Hne].
  - rewrite (nth_upd_eq _ _ _ _ H). reflexivity.
  - rewrite nth_upd_ne by auto. reflexivity.
Qed.
Lemma locof_at ls t l : nth_error ls t = Some l -> locof ls t = l.
Proof. intros H. unfold locof. rewrite H. reflexivity. Qed.
Lemma pcof_upd ls t l l' u : nth_error ls t = Some l ->
  pcof (upd ls t l') u = if Nat.eqb u t then at_ l' else pcof ls u.
Proof. intros H. unfold pcof. rewrite (locof_upd _ _ _ _ _ H). destruct (Nat.eqb u t); reflexivity. Qed.
Lemma pcof_at ls t l : nth_error ls t = Some l -> pcof ls t = at_ l.
Proof. intros H. unfold pcof. rewrite (locof_at _ _ _ H). reflexivity. Qed.

Arguments locof : simpl never.
Arguments pcof : simpl never.

(* sums over the thread table *)
Lemma sum_term_le (f : loc -> nat) ls u : f dloc = O -> (f (locof ls u) <= list_sum (map f ls))%nat.
Proof.
  intros Hd. unfold locof. revert u. induction ls as [|h r IH]; intros u; destruct u; simpl; rewrite ?Hd; try lia.
  specialize (IH u). simpl in IH. lia.
Qed.
Lemma sum_zero (f : loc -> nat) ls : f dloc = O -> list_sum (map f ls) = O -> forall u, f (locof ls u) = O.
Proof. intros Hd Hs u. pose proof (sum_term_le f ls u Hd). lia. Qed.
Lemma sum_all_zero (f : loc -> nat) ls : (forall u, f (locof ls u) = O) -> list_sum (map f ls) = O.
Proof.
  induction ls as [|h r IH]; intros H; cbn; [reflexivity|].
  pose proof (H O) as H0. unfold locof in H0. cbn in H0. rewrite H0. cbn. apply IH. intros u. apply (H (S u)).
Qed.

(* ---------- pc classification ---------- *)
(* the thread owns the outer mutex exclusively through a library-internal unique_lock *)
Definition holdsX (p : pc) : bool :=
  match p with
  | DI_load _ | DI_clear _ | DI_lockl _ | DI_unlockl _ _ | T_lock _ _ _ | F_call _ | F_rdb _ | F_rde _ | F_wrb _ _ | F_wre _ _
  | T_unlock _ _ _ | M_unlock _ _ | P_unlock _ => true
  | _ => false
  end.
(* the thread is inside load(), holding the local shared handle *)
Definition holdsS (p : pc) : bool := match p with L_rdb | L_rde | L_unlock _ => true | _ => false end.
(* the thread owns the mutex of the pending list *)
Definition holdsL (p : pc) : bool := match p with Q_unlockl _ | DI_unlockl _ _ => true | _ => false end.
(* the mutex of a task runner owned at this pc *)
Definition bq_task (b : bctx) : option nat := match b with BQ _ k _ => Some k | BD _ => None end.
Definition tmof (p : pc) : option nat :=
  match p with
  | Q_unlockt k => Some k
  | F_call b | F_rdb b | F_rde b | F_wrb b _ | F_wre b _ => bq_task b
  | T_unlock _ k _ => Some k
  | _ => None
  end.
(* a functor body is running / a payload window is open *)
Definition inbody (p : pc) : bool :=
  match p with F_call _ | F_rdb _ | F_rde _ | F_wrb _ _ | F_wre _ _ => true | _ => false end.
Definition rdopen (p : pc) : bool := match p with F_rde _ | L_rde | H_rde => true | _ => false end.
Definition wropen (p : pc) : bool := match p with F_wre _ _ => true | _ => false end.
Definition rdh (p : pc) : bool := match p with H_rdb | H_rde => true | _ => false end.

Fixpoint nown (l : list (Z * bool)) : nat :=
  match l with [] => O | (_, b) :: r => ((if b then 1 else 0) + nown r)%nat end.
(* number of shared-handle locks of the outer mutex a thread holds: client handles + the handle inside load() *)
Definition shl (l : loc) : nat := (nown (hand l) + (if holdsS (at_ l) then 1 else 0))%nat.

Lemma nown_remove_true h l : hlookup h l = Some true -> (nown (hremove h l) + 1 = nown l)%nat.
Proof.
  induction l as [|[k b] r IH]; cbn; [discriminate|].
  destruct (k =? h); intros H.
  - inversion H; subst. lia.
  - cbn. specialize (IH H). lia.
Qed.
Lemma nown_remove_false h l : hlookup h l = Some false -> nown (hremove h l) = nown l.
Proof.
  induction l as [|[k b] r IH]; cbn; [discriminate|].
  destruct (k =? h); intros H.
  - inversion H; subst. lia.
  - cbn. rewrite (IH H). reflexivity.
Qed.
Lemma nown_lookup_true h l : hlookup h l = Some true -> (1 <= nown l)%nat.
Proof. intros H. pose proof (nown_remove_true h l H). lia. Qed.

(* ---------- step inversion ---------- *)
Ltac step_cases Hs :=
  unfold tstep, tstep0, start_op, acq_shared, rel_shared, rd_begin, rd_end, wr_begin, wr_end, new_task in Hs;
  cbn [at_ prog hand futs] in Hs;
  repeat match type of Hs with
         | context [match ?x with _ => _ end] =>
           lazymatch x with
           | context [match _ with _ => _ end] => fail
           | _ => destruct x eqn:?; cbn [at_ prog hand futs] in Hs; try discriminate
           end
         end;
  try discriminate; inversion Hs; subst; clear Hs.

Lemma free_x_true g : free_x g = true -> owner g = None /\ (shcap g = true -> nsh g = O).
Proof.
  unfold free_x. destruct (owner g); [discriminate|]. destruct (shcap g); intros H; split; auto; try discriminate.
  intros _. apply Nat.eqb_eq. exact H.
Qed.
Lemma free_x_false g : free_x g = false -> owner g <> None \/ (shcap g = true /\ nsh g <> O).
Proof.
  unfold free_x. destruct (owner g); [left; discriminate|]. destruct (shcap g); intros H; [|discriminate].
  right. split; auto. apply Nat.eqb_neq. exact H.
Qed.
Lemma free_s_true g : free_s g = true -> owner g = None.
Proof. unfold free_s. destruct (owner g); [discriminate|reflexivity]. Qed.
Lemma free_s_false g : free_s g = false -> owner g <> None.
Proof. unfold free_s. destruct (owner g); discriminate. Qed.

Ltac ptw Hl := rewrite ?(pcof_upd _ _ _ _ _ Hl), ?(locof_upd _ _ _ _ _ Hl).

(* ================================================================== *)
(* Layer 1a: the outer mutex                                            *)
(* ================================================================== *)
Record XInv (g : glob) (ls : list loc) : Prop := {
  X1 : forall u, holdsX (pcof ls u) = true -> owner g = Some u;
  X2 : forall a, owner g = Some a -> holdsX (pcof ls a) = true \/ (shcap g = false /\ shl (locof ls a) = 1%nat);
  X3 : shcap g = true -> nsh g = list_sum (map shl ls);
  X4 : shcap g = true -> owner g <> None -> nsh g = O;
  X5 : shcap g = false -> forall u, (1 <= shl (locof ls u))%nat ->
       owner g = Some u /\ holdsX (pcof ls u) = false /\ shl (locof ls u) = 1%nat
}.

(* the kinds of transitions of a thread with respect to the outer mutex *)
Section XKinds.
  Variables (g g' : glob) (ls : list loc) (t : nat) (l l' : loc).
  Hypothesis HI : XInv g ls.
  Hypothesis Hl : nth_error ls t = Some l.
  Hypothesis Hcap : shcap g' = shcap g.

  Let Hp := pcof_at _ _ _ Hl.
  Let Hlo := locof_at _ _ _ Hl.

  Lemma XK_same : owner g' = owner g -> nsh g' = nsh g -> holdsX (at_ l') = holdsX (at_ l) -> shl l' = shl l ->
    XInv g' (upd ls t l').
  Proof.
    intros Ho Hn Hx Hs.
    pose proof (X1 _ _ HI) as HX1; pose proof (X2 _ _ HI) as HX2; pose proof (X3 _ _ HI) as HX3;
    pose proof (X4 _ _ HI) as HX4; pose proof (X5 _ _ HI) as HX5.
    pose proof (sum_upd shl ls t l l' Hl) as Hsum.
    constructor; rewrite ?Hcap, ?Ho, ?Hn.
    - intros u; ptw Hl. destruct (Nat.eqb_spec u t) as [->|Hne]; [rewrite Hx, <- Hp|]; auto.
    - intros u; ptw Hl. destruct (Nat.eqb_spec u t) as [->|Hne]; [rewrite Hx, Hs, <- Hp, <- Hlo|]; auto.
    - intros Hc. rewrite (HX3 Hc). lia.
    - exact HX4.
    - intros Hc u; ptw Hl. destruct (Nat.eqb_spec u t) as [->|Hne]; [rewrite Hx, Hs, <- Hp, <- Hlo|]; auto.
  Qed.

  Ltac xprep :=
    pose proof (X1 _ _ HI) as HX1; pose proof (X2 _ _ HI) as HX2; pose proof (X3 _ _ HI) as HX3;
    pose proof (X4 _ _ HI) as HX4; pose proof (X5 _ _ HI) as HX5;
    pose proof (HX1 t) as HX1t; pose proof (HX2 t) as HX2t; pose proof (fun H => HX5 H t) as HX5t;
    pose proof (sum_upd shl ls t l l' Hl) as Hsum;
    pose proof (sum_term_le shl ls t eq_refl) as Hle;
    rewrite ?Hp, ?Hlo in *.
  Ltac xpt u := intros u; ptw Hl; destruct (Nat.eqb_spec u t) as [->|Hne].

  (* exclusive try-lock succeeded *)
  Lemma XK_acqX : free_x g = true -> owner g' = Some t -> nsh g' = nsh g ->
    holdsX (at_ l) = false -> holdsX (at_ l') = true -> shl l' = shl l -> XInv g' (upd ls t l').
  Proof.
    intros Hf Ho Hn Hx Hx' Hs. apply free_x_true in Hf as [Hf1 Hf2]. xprep.
    constructor; rewrite ?Hcap, ?Ho, ?Hn.
    - xpt u; [reflexivity|]. intros Hu. specialize (HX1 u Hu). congruence.
    - xpt u; [auto|]. intros E. congruence.
    - intros Hc. rewrite (HX3 Hc). lia.
    - intros Hc _. auto.
    - intros Hc. xpt u.
      + rewrite Hs. intros H1. destruct (HX5t Hc H1) as [E _]. congruence.
      + intros H1. destruct (HX5 Hc u H1) as [E _]. congruence.
  Qed.

  (* the exclusive lock is released *)
  Lemma XK_relX : holdsX (at_ l) = true -> holdsX (at_ l') = false -> owner g' = None -> nsh g' = nsh g ->
    shl l' = shl l -> XInv g' (upd ls t l').
  Proof.
    intros Hx Hx' Ho Hn Hs. xprep. specialize (HX1t Hx).
    constructor; rewrite ?Hcap, ?Ho, ?Hn.
    - xpt u; [congruence|]. intros Hu. specialize (HX1 u Hu). congruence.
    - discriminate.
    - intros Hc. rewrite (HX3 Hc). lia.
    - intros _ H. contradiction.
    - intros Hc. xpt u.
      + rewrite Hs. intros H1. destruct (HX5t Hc H1) as [_ [E _]]. congruence.
      + intros H1. destruct (HX5 Hc u H1) as [E _]. congruence.
  Qed.

  (* shared acquisition / release with a shared-capable mutex *)
  Lemma XK_acqS : shcap g = true -> owner g = None -> owner g' = None -> nsh g' = S (nsh g) ->
    holdsX (at_ l) = false -> holdsX (at_ l') = false -> shl l' = S (shl l) -> XInv g' (upd ls t l').
  Proof.
    intros Hc Hf Ho Hn Hx Hx' Hs. xprep.
    constructor; rewrite ?Hcap, ?Ho, ?Hn.
    - xpt u; [congruence|]. intros Hu. specialize (HX1 u Hu). congruence.
    - discriminate.
    - intros _. rewrite (HX3 Hc). lia.
    - intros _ H. contradiction.
    - congruence.
  Qed.
  Lemma XK_relS : shcap g = true -> owner g' = owner g -> nsh g' = pred (nsh g) ->
    holdsX (at_ l) = false -> holdsX (at_ l') = false -> shl l = S (shl l') -> XInv g' (upd ls t l').
  Proof.
    intros Hc Ho Hn Hx Hx' Hs. xprep.
    constructor; rewrite ?Hcap, ?Ho, ?Hn.
    - xpt u; [congruence|]. auto.
    - xpt u; [|auto]. intros E. destruct (HX2t E) as [H|[H _]]; congruence.
    - intros _. rewrite (HX3 Hc) in *. lia.
    - intros _ H. rewrite (HX4 Hc H). reflexivity.
    - congruence.
  Qed.

  (* shared acquisition / release with a plain mutex: an exclusive lock owned by the handle *)
  Lemma XK_acqP : shcap g = false -> free_x g = true -> owner g' = Some t -> nsh g' = nsh g ->
    holdsX (at_ l) = false -> holdsX (at_ l') = false -> shl l' = S (shl l) -> XInv g' (upd ls t l').
  Proof.
    intros Hc Hf Ho Hn Hx Hx' Hs. apply free_x_true in Hf as [Hf1 Hf2]. xprep.
    assert (shl l = O) as Hz.
    { destruct (shl l) eqn:E; [reflexivity|]. destruct (HX5t Hc) as [E1 _]; [lia|congruence]. }
    constructor; rewrite ?Hcap, ?Ho, ?Hn.
    - xpt u; [congruence|]. intros Hu. specialize (HX1 u Hu). congruence.
    - xpt u; [|congruence]. intros _. right. split; [exact Hc|lia].
    - congruence.
    - congruence.
    - intros _. xpt u.
      + intros _. repeat split; auto. lia.
      + intros H1. destruct (HX5 Hc u H1) as [E _]. congruence.
  Qed.
  Lemma XK_relP : shcap g = false -> owner g' = None -> nsh g' = nsh g ->
    holdsX (at_ l) = false -> holdsX (at_ l') = false -> shl l = S (shl l') -> XInv g' (upd ls t l').
  Proof.
    intros Hc Ho Hn Hx Hx' Hs. xprep.
    destruct (HX5t Hc) as [E1 [_ E2]]; [lia|].
    constructor; rewrite ?Hcap, ?Ho, ?Hn.
    - xpt u; [congruence|]. intros Hu. specialize (HX1 u Hu). congruence.
    - discriminate.
    - congruence.
    - congruence.
    - intros _. xpt u.
      + intros H1. lia.
      + intros H1. destruct (HX5 Hc u H1) as [E _]. congruence.
  Qed.
End XKinds.

(* ================================================================== *)
(* Layer 1b: the mutex of the pending list, the mutexes of the task runners, the client's handles *)
(* ================================================================== *)
Record LInv (g : glob) (ls : list loc) : Prop := {
  L1 : forall u, holdsL (pcof ls u) = true -> lmtx g = Some u;
  L2 : forall a, lmtx g = Some a -> holdsL (pcof ls a) = true
}.
Record TInv (g : glob) (ls : list loc) : Prop := {
  T1 : forall u k, tmof (pcof ls u) = Some k -> tmtx g k = Some u;
  T2 : forall k a, tmtx g k = Some a -> tmof (pcof ls a) = Some k
}.
(* thread-local facts about the handle table *)
Definition hand_ok (l : loc) : Prop :=
  (forall h, at_ l = H_rel h -> hlookup h (hand l) = Some true) /\
  (rdh (at_ l) = true -> (1 <= nown (hand l))%nat).
Definition HInv (ls : list loc) : Prop := forall u, hand_ok (locof ls u).

Section LTKinds.
  Variables (g g' : glob) (ls : list loc) (t : nat) (l l' : loc).
  Hypothesis Hl : nth_error ls t = Some l.
  Let Hp := pcof_at _ _ _ Hl.
  Ltac xpt u := intros u; ptw Hl; destruct (Nat.eqb_spec u t) as [->|Hne].

  Lemma LK_same : LInv g ls -> lmtx g' = lmtx g -> holdsL (at_ l') = holdsL (at_ l) -> LInv g' (upd ls t l').
  Proof.
    intros [H1 H2] Hm Hh. constructor; rewrite Hm.
    - xpt u; [rewrite Hh, <- Hp|]; auto.
    - xpt u; [rewrite Hh, <- Hp|]; auto.
  Qed.
  Lemma LK_acq : LInv g ls -> lmtx g = None -> lmtx g' = Some t -> holdsL (at_ l') = true -> LInv g' (upd ls t l').
  Proof.
    intros [H1 H2] Hf Hm Hh. constructor; rewrite Hm.
    - xpt u; [reflexivity|]. intros Hu. specialize (H1 u Hu). congruence.
    - xpt u; [auto|congruence].
  Qed.
  Lemma LK_rel : LInv g ls -> holdsL (at_ l) = true -> lmtx g' = None -> holdsL (at_ l') = false -> LInv g' (upd ls t l').
  Proof.
    intros [H1 H2] Hh Hm Hh'. pose proof (H1 t) as H1t. rewrite Hp in H1t. specialize (H1t Hh).
    constructor; rewrite Hm.
    - xpt u; [congruence|]. intros Hu. specialize (H1 u Hu). congruence.
    - discriminate.
  Qed.

  Lemma TK_same : TInv g ls -> tmtx g' = tmtx g -> tmof (at_ l') = tmof (at_ l) -> TInv g' (upd ls t l').
  Proof.
    intros [H1 H2] Hm Hh. constructor; rewrite Hm.
    - xpt u; [rewrite Hh, <- Hp|]; auto.
    - intros k. xpt u; [rewrite Hh, <- Hp|]; auto.
  Qed.
  Lemma TK_acq k : TInv g ls -> tmtx g k = None -> tmtx g' = fupd (tmtx g) k (Some t) ->
    tmof (at_ l) = None -> tmof (at_ l') = Some k -> TInv g' (upd ls t l').
  Proof.
    intros [H1 H2] Hf Hm Hh Hh'. constructor; rewrite Hm; unfold fupd.
    - xpt u; intros k0 E.
      + assert (k0 = k) by congruence. subst. rewrite Nat.eqb_refl. reflexivity.
      + destruct (Nat.eqb_spec k0 k) as [->|Hk]; [|auto]. specialize (H1 u k E). congruence.
    - intros k0. xpt u; destruct (Nat.eqb_spec k0 k) as [->|Hk]; intros E; auto; try congruence.
      specialize (H2 _ _ E). rewrite Hp in H2. congruence.
  Qed.
  Lemma TK_rel k : TInv g ls -> tmof (at_ l) = Some k -> tmtx g' = fupd (tmtx g) k None ->
    tmof (at_ l') = None -> TInv g' (upd ls t l').
  Proof.
    intros [H1 H2] Hh Hm Hh'. pose proof (H1 t k) as H1t. rewrite Hp in H1t. specialize (H1t Hh).
    constructor; rewrite Hm; unfold fupd.
    - xpt u; intros k0 E; [congruence|].
      destruct (Nat.eqb_spec k0 k) as [->|Hk]; [|auto]. specialize (H1 u k E). congruence.
    - intros k0. xpt u; destruct (Nat.eqb_spec k0 k) as [->|Hk]; intros E; auto; try discriminate.
      specialize (H2 _ _ E). rewrite Hp in H2. congruence.
  Qed.

  Lemma HK_step : HInv ls -> hand_ok l' -> HInv (upd ls t l').
  Proof. intros H Hn. xpt u; auto. Qed.
End LTKinds.

Record Inv1 (g : glob) (ls : list loc) : Prop := {
  I1X : XInv g ls; I1L : LInv g ls; I1T : TInv g ls; I1H : HInv ls
}.

Ltac gsimp :=
  unfold tick, ghost_of, shcap;
  cbn [mk throws owner nsh flag lmtx queue pay rdrs dirty faulted calls ntasks tfid tasync tmtx tfut gh
       set_owner set_nsh set_flag set_list set_pay set_calls set_tmtx set_tfut set_gh add_task at_ hand prog futs].
Ltac nown_facts :=
  repeat match goal with
  | H : hlookup ?h ?l = Some true |- _ =>
    lazymatch goal with
    | _ : (nown (hremove h l) + 1 = nown l)%nat |- _ => fail
    | _ => pose proof (nown_remove_true h l H)
    end
  | H : hlookup ?h ?l = Some false |- _ =>
    lazymatch goal with
    | _ : nown (hremove h l) = nown l |- _ => fail
    | _ => pose proof (nown_remove_false h l H)
    end
  end.
Ltac side :=
  gsimp; unfold after_drain, body_done; unfold cont;
  first [ reflexivity | eassumption
        | solve [unfold shl; cbn [hand at_ holdsS nown holdsX holdsL tmof bq_task]; nown_facts; lia]
        | solve [repeat match goal with |- context [match ?x with _ => _ end] => destruct x end; reflexivity]
        | solve [fold (shcap _); assumption] ].

Lemma Inv1_init m th progs : Inv1 (gl (init m th progs)) (thr (init m th progs)).
Proof.
  assert (P : forall u, locof (map (fun p => Loc p Idle [] []) progs) u = dloc \/
                        exists p, locof (map (fun p => Loc p Idle [] []) progs) u = Loc p Idle [] []).
  { intros u. unfold locof. rewrite nth_error_map. destruct (nth_error progs u); cbn; eauto. }
  assert (Q : forall u, pcof (map (fun p => Loc p Idle [] []) progs) u = Idle /\
                        hand (locof (map (fun p => Loc p Idle [] []) progs) u) = []).
  { intros u. unfold pcof. destruct (P u) as [E|[p E]]; rewrite E; auto. }
  assert (S0 : forall u, shl (locof (map (fun p => Loc p Idle [] []) progs) u) = O).
  { intros u. unfold shl. destruct (Q u) as [E1 E2]. unfold pcof in E1. rewrite E1, E2. reflexivity. }
  unfold init; cbn [gl thr]. constructor.
  - constructor; cbn.
    + intros u H. rewrite (proj1 (Q u)) in H. discriminate.
    + discriminate.
    + intros _. symmetry. apply sum_all_zero. exact S0.
    + reflexivity.
    + intros _ u H. rewrite S0 in H. lia.
  - constructor; cbn; [|discriminate]. intros u H. rewrite (proj1 (Q u)) in H. discriminate.
  - constructor; cbn; [|discriminate]. intros u k H. rewrite (proj1 (Q u)) in H. discriminate.
  - intros u. destruct (Q u) as [E1 E2]. unfold pcof in E1. split; intros; rewrite ?E1, ?E2 in *; discriminate.
Qed.

Ltac solveX HX Hl :=
  first
  [ solve [eapply (XK_same _ _ _ _ _ _ HX Hl); side]
  | solve [eapply (XK_acqX _ _ _ _ _ _ HX Hl); side]
  | solve [eapply (XK_relX _ _ _ _ _ _ HX Hl); side]
  | solve [eapply (XK_acqS _ _ _ _ _ _ HX Hl); side]
  | solve [eapply (XK_relS _ _ _ _ _ _ HX Hl); side]
  | solve [eapply (XK_acqP _ _ _ _ _ _ HX Hl); side]
  | solve [eapply (XK_relP _ _ _ _ _ _ HX Hl); side] ].
Ltac solveL HL Hl :=
  first
  [ solve [eapply (LK_same _ _ _ _ _ _ Hl HL); side]
  | solve [eapply (LK_acq _ _ _ _ _ _ Hl HL); side]
  | solve [eapply (LK_rel _ _ _ _ _ _ Hl HL); side] ].
Ltac solveT HT Hl :=
  first
  [ solve [eapply (TK_same _ _ _ _ _ _ Hl HT); side]
  | solve [eapply (TK_acq _ _ _ _ _ _ Hl _ HT); side]
  | solve [eapply (TK_rel _ _ _ _ _ _ Hl _ HT); side] ].
Ltac norm_free_s :=
  repeat match goal with
  | H : free_s _ = true |- _ => apply free_s_true in H
  | H : free_s _ = false |- _ => apply free_s_false in H
  end.

Lemma Inv1_step g ls t c l g' l' es :
  Inv1 g ls -> nth_error ls t = Some l -> tstep t c g l = Some (g', l', es) -> Inv1 g' (upd ls t l').
Proof.
  intros [HX HL HT HH] Hl Hs. destruct l as [pr p hd fu].
  pose proof (HH t) as [HH1 HH2]. rewrite (locof_at _ _ _ Hl) in HH1, HH2. cbn [at_ hand] in HH1, HH2.
  step_cases Hs.
  all: try (specialize (HH1 _ eq_refl)); try (specialize (HH2 eq_refl)).
  all: norm_free_s.
  all: constructor; [solveX HX Hl | solveL HL Hl | solveT HT Hl | ].
  all: apply (HK_step _ _ _ _ Hl HH); split; cbn [at_ hand rdh hlookup nown]; unfold after_drain, body_done; unfold cont; intros;
       repeat match goal with H : context [match ?x with _ => _ end] |- _ => destruct x end;
       try discriminate; nown_facts; try lia; try congruence.
Qed.

(* ================================================================== *)
(* Layer 2: the payload windows                                         *)
(* ================================================================== *)
Definition rdw (l : loc) : nat := if rdopen (at_ l) then 1%nat else O.

Lemma wropen_holdsX p : wropen p = true -> holdsX p = true.
Proof. destruct p; cbn; congruence. Qed.
Lemma inbody_holdsX p : inbody p = true -> holdsX p = true.
Proof. destruct p; cbn; congruence. Qed.

(* while a thread is inside an exclusive section nobody holds a shared lock and nobody else is in such a section *)
Lemma excl_facts g ls a : Inv1 g ls -> holdsX (pcof ls a) = true ->
  forall u, shl (locof ls u) = O /\ (holdsX (pcof ls u) = true -> u = a).
Proof.
  intros [HX _ _ _] Ha u. pose proof (X1 _ _ HX a Ha) as Ho. split.
  - destruct (shcap g) eqn:Hc.
    + assert (nsh g = O) as Hn by (apply (X4 _ _ HX Hc); congruence).
      rewrite (X3 _ _ HX Hc) in Hn. apply (sum_zero shl ls eq_refl Hn).
    + destruct (shl (locof ls u)) eqn:E; [reflexivity|].
      destruct (X5 _ _ HX Hc u) as [E1 [E2 _]]; [lia|]. assert (u = a) by congruence. subst. congruence.
  - intros Hu. pose proof (X1 _ _ HX u Hu). congruence.
Qed.

Lemma rd_holds ls u : HInv ls -> rdopen (pcof ls u) = true ->
  holdsX (pcof ls u) = true \/ (1 <= shl (locof ls u))%nat.
Proof.
  intros HH Hr. destruct (HH u) as [_ H2]. unfold shl, pcof in *.
  destruct (at_ (locof ls u)); try discriminate; cbn in *; auto; right; try lia.
Qed.

Record WInv (g : glob) (ls : list loc) : Prop := {
  W1 : rdrs g = list_sum (map rdw ls);
  W2 : forall u, wropen (pcof ls u) = true -> dirty g = true;
  W3 : dirty g = true -> exists a, wropen (pcof ls a) = true;
  W4 : faulted g = false
}.

Section WKinds.
  Variables (g g' : glob) (ls : list loc) (t : nat) (l l' : loc).
  Hypothesis H1 : Inv1 g ls.
  Hypothesis HW : WInv g ls.
  Hypothesis Hl : nth_error ls t = Some l.
  Let Hp := pcof_at _ _ _ Hl.
  Let Hlo := locof_at _ _ _ Hl.
  Ltac xpt u := intros u; ptw Hl; destruct (Nat.eqb_spec u t) as [->|Hne].

  Lemma WK_same : rdrs g' = rdrs g -> dirty g' = dirty g -> faulted g' = faulted g ->
    rdopen (at_ l') = rdopen (at_ l) -> wropen (at_ l') = wropen (at_ l) -> WInv g' (upd ls t l').
  Proof.
    intros Hr Hd Hf Ho Hw. destruct HW as [A1 A2 A3 A4]. constructor; rewrite ?Hr, ?Hd, ?Hf; auto.
    - pose proof (sum_upd rdw ls t l l' Hl) as Hs. unfold rdw in Hs at 2 4. rewrite Ho in Hs. lia.
    - xpt u; [rewrite Hw, <- Hp|]; apply A2.
    - intros D. destruct (A3 D) as [a Ha]. exists a. ptw Hl. destruct (Nat.eqb_spec a t) as [->|Hne]; [rewrite Hw, <- Hp|]; auto.
  Qed.

  (* a thread that holds the outer mutex in some mode sees a clean payload *)
  Lemma clean_for_holder : (holdsX (at_ l) = true /\ wropen (at_ l) = false) \/ (1 <= shl l)%nat -> dirty g = false.
  Proof.
    intros Hh. destruct (dirty g) eqn:D; [exfalso|reflexivity].
    destruct (W3 _ _ HW D) as [a Ha]. pose proof (wropen_holdsX _ Ha) as Hxa.
    destruct (excl_facts _ _ _ H1 Hxa t) as [E1 E2]. rewrite Hp in E2. rewrite Hlo in E1.
    destruct Hh as [[Hx Hw]|Hs]; [|lia]. specialize (E2 Hx). rewrite <- E2 in Ha. rewrite Hp in Ha. congruence.
  Qed.

  Lemma WK_rdb : (holdsX (at_ l) = true /\ wropen (at_ l) = false) \/ (1 <= shl l)%nat ->
    rdrs g' = S (rdrs g) -> dirty g' = dirty g -> faulted g' = faulted g || dirty g ->
    rdopen (at_ l) = false -> rdopen (at_ l') = true -> wropen (at_ l) = false -> wropen (at_ l') = false ->
    WInv g' (upd ls t l').
  Proof.
    intros Hh Hr Hd Hf Ho Ho' Hw Hw'. pose proof (clean_for_holder Hh) as Hc.
    destruct HW as [A1 A2 A3 A4]. constructor; rewrite ?Hr, ?Hd, ?Hf, ?Hc, ?A4; auto.
    - pose proof (sum_upd rdw ls t l l' Hl) as Hs. unfold rdw in Hs at 2 4. rewrite Ho, Ho' in Hs. lia.
    - xpt u; [congruence|]. intros Hu. specialize (A2 u Hu). congruence.
    - discriminate.
  Qed.
  Lemma WK_rde : (holdsX (at_ l) = true /\ wropen (at_ l) = false) \/ (1 <= shl l)%nat ->
    rdrs g' = pred (rdrs g) -> dirty g' = dirty g -> faulted g' = faulted g || dirty g ->
    rdopen (at_ l) = true -> rdopen (at_ l') = false -> wropen (at_ l) = false -> wropen (at_ l') = false ->
    WInv g' (upd ls t l').
  Proof.
    intros Hh Hr Hd Hf Ho Ho' Hw Hw'. pose proof (clean_for_holder Hh) as Hc.
    destruct HW as [A1 A2 A3 A4]. constructor; rewrite ?Hr, ?Hd, ?Hf, ?Hc, ?A4; auto.
    - pose proof (sum_upd rdw ls t l l' Hl) as Hs. unfold rdw in Hs at 2 4. rewrite Ho, Ho' in Hs. lia.
    - xpt u; [congruence|]. intros Hu. specialize (A2 u Hu). congruence.
    - discriminate.
  Qed.
  Lemma WK_wrb : holdsX (at_ l) = true -> wropen (at_ l) = false -> rdopen (at_ l) = false ->
    rdrs g' = rdrs g -> dirty g' = true -> faulted g' = faulted g || negb (Nat.eqb (rdrs g) 0) || dirty g ->
    rdopen (at_ l') = false -> wropen (at_ l') = true -> WInv g' (upd ls t l').
  Proof.
    intros Hx Hw Ho Hr Hd Hf Ho' Hw'. pose proof (clean_for_holder (or_introl (conj Hx Hw))) as Hc.
    destruct H1 as [HX HL HT HH]. destruct HW as [A1 A2 A3 A4].
    assert (rdrs g = O) as Hz.
    { rewrite A1. apply sum_all_zero. intros u. unfold rdw. destruct (rdopen (at_ (locof ls u))) eqn:E; [exfalso|reflexivity].
      rewrite <- Hp in Hx. destruct (excl_facts _ _ _ H1 Hx u) as [E1 E2].
      destruct (rd_holds ls u HH E) as [Hu|Hu]; [|lia]. specialize (E2 Hu). rewrite E2 in E. rewrite Hlo in E. congruence. }
    constructor; rewrite ?Hr, ?Hd, ?Hf, ?Hc, ?A4, ?Hz; auto.
    - pose proof (sum_upd rdw ls t l l' Hl) as Hs. unfold rdw in Hs at 2 4. rewrite Ho, Ho' in Hs. lia.
    - intros _. exists t. ptw Hl. rewrite Nat.eqb_refl. exact Hw'.
  Qed.
  Lemma WK_wre : wropen (at_ l) = true -> wropen (at_ l') = false -> rdopen (at_ l) = false -> rdopen (at_ l') = false ->
    rdrs g' = rdrs g -> dirty g' = false -> faulted g' = faulted g -> WInv g' (upd ls t l').
  Proof.
    intros Hw Hw' Ho Ho' Hr Hd Hf. destruct HW as [A1 A2 A3 A4]. constructor; rewrite ?Hr, ?Hd, ?Hf; auto.
    - pose proof (sum_upd rdw ls t l l' Hl) as Hs. unfold rdw in Hs at 2 4. rewrite Ho, Ho' in Hs. lia.
    - xpt u; [congruence|]. intros Hu. exfalso.
      pose proof (wropen_holdsX _ Hu) as Hxu. pose proof (wropen_holdsX _ Hw) as Hxt. rewrite <- Hp in Hxt.
      destruct (excl_facts _ _ _ H1 Hxt u) as [_ E]. auto.
    - discriminate.
  Qed.
End WKinds.

Lemma WInv_init m th progs : WInv (gl (init m th progs)) (thr (init m th progs)).
Proof.
  assert (Q : forall u, pcof (map (fun p => Loc p Idle [] []) progs) u = Idle).
  { intros u. unfold pcof, locof. rewrite nth_error_map. destruct (nth_error progs u); reflexivity. }
  unfold init; cbn [gl thr]. constructor; cbn; auto; try discriminate.
  - symmetry. apply sum_all_zero. intros u. unfold rdw. pose proof (Q u) as E. unfold pcof in E. rewrite E. reflexivity.
  - intros u H. rewrite Q in H. discriminate.
Qed.

Ltac wside :=
  gsimp; unfold after_drain, body_done; unfold cont;
  first [ reflexivity | eassumption
        | solve [left; split; reflexivity]
        | solve [right; unfold shl; cbn [hand at_ holdsS nown]; nown_facts; lia]
        | solve [repeat match goal with |- context [match ?x with _ => _ end] => destruct x end; reflexivity] ].
Ltac solveW H1 HW Hl :=
  first
  [ solve [eapply (WK_same _ _ _ _ _ _ HW Hl); wside]
  | solve [eapply (WK_rdb _ _ _ _ _ _ H1 HW Hl); wside]
  | solve [eapply (WK_rde _ _ _ _ _ _ H1 HW Hl); wside]
  | solve [eapply (WK_wrb _ _ _ _ _ _ H1 HW Hl); wside]
  | solve [eapply (WK_wre _ _ _ _ _ _ H1 HW Hl); wside] ].

Lemma WInv_step g ls t c l g' l' es :
  Inv1 g ls -> WInv g ls -> nth_error ls t = Some l -> tstep t c g l = Some (g', l', es) -> WInv g' (upd ls t l').
Proof.
  intros H1 HW Hl Hs. destruct l as [pr p hd fu].
  pose proof (I1H _ _ H1 t) as [HH1 HH2]. rewrite (locof_at _ _ _ Hl) in HH1, HH2. cbn [at_ hand] in HH1, HH2.
  step_cases Hs.
  all: try (specialize (HH2 eq_refl)).
  all: solveW H1 HW Hl.
Qed.

(* ================================================================== *)
(* Layer 3: tasks, stamps, the queue and the flag                       *)
(* ================================================================== *)
Definition cdir (c : ctx) : option nat := match c with CDir tk => Some tk | CPre _ => None end.
Definition bdir (b : bctx) : option nat := match b with BD tk => Some tk | BQ c _ _ => cdir c end.
(* the task of the submit call in progress *)
Definition ctask (p : pc) : option nat :=
  match p with
  | M_try tk | Q_lockt tk | Q_unlockt tk | Q_lockl tk | Q_unlockl tk | Q_store tk | M_unlock tk _ => Some tk
  | DI_load c | DI_clear c | DI_lockl c | DI_unlockl c _ | T_lock c _ _ | T_unlock c _ _ => cdir c
  | F_call b | F_rdb b | F_rde b | F_wrb b _ | F_wre b _ => bdir b
  | _ => None
  end.
Inductive phase := PhNew | PhPushed | PhExec.
Definition bexec (b : bctx) : phase := match b with BD _ => PhExec | BQ _ _ _ => PhNew end.
Definition cphase (p : pc) : phase :=
  match p with
  | Q_unlockl _ | Q_store _ => PhPushed
  | F_rdb b | F_rde b | F_wrb b _ | F_wre b _ => bexec b
  | M_unlock _ _ => PhExec
  | _ => PhNew
  end.
(* the tasks a drainer has taken out of the queue and not yet invoked *)
Definition bpend (b : bctx) : list nat := match b with BQ _ tk r => tk :: r | BD _ => [] end.
Definition brest (b : bctx) : list nat := match b with BQ _ _ r => r | BD _ => [] end.
Definition lpend (p : pc) : list nat :=
  match p with
  | DI_unlockl _ lp => lp
  | T_lock _ tk r => tk :: r
  | F_call b => bpend b
  | F_rdb b | F_rde b | F_wrb b _ | F_wre b _ => brest b
  | T_unlock _ _ r => r
  | _ => []
  end.
Definition clr (p : pc) : bool := match p with DI_lockl _ => true | _ => false end.
Definition prechk (p : pc) : bool := match p with DI_load _ | DI_clear _ | DI_lockl _ => true | _ => false end.
Definition postchk (p : pc) : bool := holdsX p && negb (prechk p).

Lemma lpend_holdsX p : lpend p <> [] -> holdsX p = true.
Proof. destruct p; cbn; congruence. Qed.
Lemma clr_holdsX p : clr p = true -> holdsX p = true.
Proof. destruct p; cbn; congruence. Qed.

Fixpoint ordered (f : nat -> nat) (l : list nat) : Prop :=
  match l with [] => True | a :: r => (forall b, In b r -> (f a < f b)%nat) /\ ordered f r end.
Lemma ordered_app f l1 l2 :
  ordered f (l1 ++ l2) <-> ordered f l1 /\ ordered f l2 /\ (forall a b, In a l1 -> In b l2 -> (f a < f b)%nat).
Proof.
  induction l1 as [|x r IH]; cbn.
  - intuition.
  - rewrite IH. split.
    + intros [H1 [H2 [H3 H4]]]. repeat split; auto.
      * intros b Hb. apply H1. apply in_or_app. auto.
      * intros a b [->|Ha] Hb; [apply H1; apply in_or_app; auto|auto].
    + intros [[H1 H2] [H3 H4]]. repeat split; auto.
      intros b Hb. apply in_app_or in Hb as [Hb|Hb]; auto.
Qed.
Lemma ordered_ext f f' l : (forall x, In x l -> f x = f' x) -> ordered f l -> ordered f' l.
Proof.
  induction l as [|a r IH]; cbn; auto. intros He [H1 H2]. split.
  - intros b Hb. rewrite <- (He a), <- (He b); auto.
  - apply IH; auto.
Qed.
Lemma ordered_head_notin f a r : ordered f (a :: r) -> ~ In a r.
Proof. cbn. intros [H _] Hin. specialize (H a Hin). lia. Qed.

Definition pst (h : ghost) (tk : nat) : nat := match tpush h tk with Some p => p | None => O end.

Record SInv (g : glob) (ls : list loc) : Prop := {
  (* fresh task ids carry no stamps *)
  S0 : forall tk, (ntasks g <= tk)%nat ->
       tpush (gh g) tk = None /\ tret (gh g) tk = None /\ texec (gh g) tk = None /\ tcount (gh g) tk = O;
  (* stamps are in the past and in program order *)
  S1i : forall tk, (tk < ntasks g)%nat -> (tinv (gh g) tk < clock (gh g))%nat;
  S1p : forall tk p, tpush (gh g) tk = Some p -> (tinv (gh g) tk < p < clock (gh g))%nat;
  S1r : forall tk r, tret (gh g) tk = Some r -> (r < clock (gh g))%nat /\
        (texec (gh g) tk <> None \/ exists p, tpush (gh g) tk = Some p /\ (p < r)%nat);
  S1e : forall tk e, texec (gh g) tk = Some e -> (e < clock (gh g))%nat;
  (* the submit call in progress of each thread *)
  S2 : forall u tk, ctask (pcof ls u) = Some tk ->
       (tk < ntasks g)%nat /\ tsub (gh g) tk = u /\ tret (gh g) tk = None /\
       match cphase (pcof ls u) with
       | PhNew => tpush (gh g) tk = None /\ texec (gh g) tk = None
       | PhPushed => tpush (gh g) tk <> None
       | PhExec => tpush (gh g) tk = None /\ texec (gh g) tk <> None
       end;
  S3 : forall tk, (tk < ntasks g)%nat -> tret (gh g) tk = None -> ctask (pcof ls (tsub (gh g) tk)) = Some tk;
  (* pushed and not yet invoked = in a drainer's local list or in the queue, in push order *)
  S4 : forall u tk, In tk (lpend (pcof ls u) ++ queue g) ->
       (tk < ntasks g)%nat /\ texec (gh g) tk = None /\ tpush (gh g) tk <> None;
  S5 : forall u, ordered (pst (gh g)) (lpend (pcof ls u) ++ queue g);
  S6 : forall tk, tpush (gh g) tk <> None -> texec (gh g) tk = None ->
       In tk (queue g) \/ exists u, In tk (lpend (pcof ls u));
  (* the flag: a queued task whose submit call has returned is announced *)
  S7 : forall tk, In tk (queue g) -> tret (gh g) tk = None \/ flag g = true \/ exists u, clr (pcof ls u) = true;
  (* after its own check / swap a direct-path thread has every earlier-returned task in hand *)
  S8 : forall u tk0, postchk (pcof ls u) = true -> ctask (pcof ls u) = Some tk0 ->
       forall f r, In f (queue g) -> tret (gh g) f = Some r -> (tinv (gh g) tk0 < r)%nat;
  (* exactly once *)
  S9 : forall tk, tcount (gh g) tk = match texec (gh g) tk with Some _ => 1%nat | None => O end;
  (* real-time order *)
  S10 : forall f k r e', tret (gh g) f = Some r -> (r < tinv (gh g) k)%nat -> (k < ntasks g)%nat ->
        texec (gh g) k = Some e' -> exists e, texec (gh g) f = Some e /\ (e < e')%nat
}.

(* only the owner of the outer mutex has a local list *)
Lemma lpend_only_owner g ls t u : Inv1 g ls -> holdsX (pcof ls t) = true -> u <> t -> lpend (pcof ls u) = [].
Proof.
  intros H1 Ht Hne. destruct (lpend (pcof ls u)) eqn:E; [reflexivity|exfalso].
  assert (holdsX (pcof ls u) = true) as Hu by (apply lpend_holdsX; congruence).
  destruct (excl_facts _ _ _ H1 Ht u) as [_ E2]. auto.
Qed.

Definition st_same (h h' : ghost) : Prop :=
  clock h' = S (clock h) /\ tsub h' = tsub h /\ tinv h' = tinv h /\ tpush h' = tpush h /\ tret h' = tret h /\
  texec h' = texec h /\ tcount h' = tcount h.

Lemma fupd_eq {A} (f : nat -> A) k v : fupd f k v k = v.
Proof. unfold fupd. rewrite Nat.eqb_refl. reflexivity. Qed.
Lemma fupd_ne {A} (f : nat -> A) k v x : x <> k -> fupd f k v x = f x.
Proof. unfold fupd. intros H. destruct (Nat.eqb_spec x k); congruence. Qed.

Section SKinds.
  Variables (g g' : glob) (ls : list loc) (t : nat) (l l' : loc).
  Hypothesis H1 : Inv1 g ls.
  Hypothesis HS : SInv g ls.
  Hypothesis Hl : nth_error ls t = Some l.
  Let Hp := pcof_at _ _ _ Hl.
  Ltac xpt u := intros u; ptw Hl; destruct (Nat.eqb_spec u t) as [->|Hne].
  Ltac sprep :=
    pose proof (S0 _ _ HS) as A0; pose proof (S1i _ _ HS) as A1i; pose proof (S1p _ _ HS) as A1p;
    pose proof (S1r _ _ HS) as A1r; pose proof (S1e _ _ HS) as A1e; pose proof (S2 _ _ HS) as A2;
    pose proof (S3 _ _ HS) as A3; pose proof (S4 _ _ HS) as A4; pose proof (S5 _ _ HS) as A5;
    pose proof (S6 _ _ HS) as A6; pose proof (S7 _ _ HS) as A7; pose proof (S8 _ _ HS) as A8;
    pose proof (S9 _ _ HS) as A9; pose proof (S10 _ _ HS) as A10;
    pose proof (A2 t) as A2t; pose proof (A4 t) as A4t; pose proof (A5 t) as A5t; pose proof (A8 t) as A8t;
    rewrite Hp in A2t, A4t, A5t, A8t.

  (* a thread whose pc is exclusive is the only one with a local list / between clear and swap *)
  Lemma others_no_list u : holdsX (at_ l) = true -> u <> t -> lpend (pcof ls u) = [] /\ clr (pcof ls u) = false.
  Proof.
    intros Hx Hne. rewrite <- Hp in Hx. split; [eapply lpend_only_owner; eauto|].
    destruct (clr (pcof ls u)) eqn:E; [exfalso|reflexivity].
    destruct (excl_facts _ _ _ H1 Hx u) as [_ E2]. apply clr_holdsX in E. auto.
  Qed.

  Lemma SK_none : st_same (gh g) (gh g') -> ntasks g' = ntasks g -> queue g' = queue g ->
    (flag g' = flag g \/ clr (at_ l') = true) ->
    ctask (at_ l') = ctask (at_ l) -> cphase (at_ l') = cphase (at_ l) -> lpend (at_ l') = lpend (at_ l) ->
    (clr (at_ l) = true -> clr (at_ l') = true) ->
    (postchk (at_ l') = true -> postchk (at_ l) = true \/ (flag g = false /\ clr (at_ l) = false /\ holdsX (at_ l) = true)) ->
    SInv g' (upd ls t l').
  Proof.
    intros (Ec & Es & Ei & Epu & Er & Ee & En) Hn Hq Hf Hct Hph Hlp Hcl Hpc. sprep.
    constructor; rewrite ?Ec, ?Es, ?Ei, ?Epu, ?Er, ?Ee, ?En, ?Hn, ?Hq; unfold pst; rewrite ?Epu; fold (pst (gh g)); auto.
    - intros tk Hk. specialize (A1i tk Hk). lia.
    - intros tk p Hk. specialize (A1p tk p Hk). lia.
    - intros tk r Hk. destruct (A1r tk r Hk) as [B1 B2]. split; [lia|auto].
    - intros tk e Hk. specialize (A1e tk e Hk). lia.
    - xpt u; [rewrite Hct, Hph; exact A2t|apply A2].
    - intros tk Hk Hr. specialize (A3 tk Hk Hr). ptw Hl.
      destruct (Nat.eqb_spec (tsub (gh g) tk) t) as [E|Hne]; [rewrite Hct, <- Hp, <- E|]; auto.
    - xpt u; [rewrite Hlp; exact A4t|apply A4].
    - xpt u; [rewrite Hlp; exact A5t|apply A5].
    - intros tk Hk He. destruct (A6 tk Hk He) as [B|[u B]]; [auto|right]. exists u. ptw Hl.
      destruct (Nat.eqb_spec u t) as [->|Hne]; [rewrite Hlp, <- Hp|]; auto.
    - intros tk Hk. destruct (A7 tk Hk) as [B|[B|[u B]]]; auto.
      + destruct Hf as [Hf|Hf]; [rewrite Hf; auto|]. right; right. exists t. ptw Hl. rewrite Nat.eqb_refl. exact Hf.
      + right; right. exists u. ptw Hl.
        destruct (Nat.eqb_spec u t) as [->|Hne]; [rewrite Hp in B; auto|exact B].
    - xpt u; [|apply A8]. rewrite Hct. intros tk0 Hpo Hc0 f r Hin Hr.
      destruct (Hpc Hpo) as [B|(B1 & B2 & B3)]; [eapply A8t; eauto|].
      destruct (A7 f Hin) as [C|[C|[u C]]]; try congruence.
      destruct (Nat.eq_dec u t) as [->|Hne]; [rewrite Hp in C; congruence|].
      destruct (others_no_list u B3 Hne). congruence.
  Qed.

  (* a new submit call *)
  Lemma SK_new : let n := ntasks g in
    clock (gh g') = S (clock (gh g)) -> tsub (gh g') = fupd (tsub (gh g)) n t ->
    tinv (gh g') = fupd (tinv (gh g)) n (clock (gh g)) -> tpush (gh g') = fupd (tpush (gh g)) n None ->
    tret (gh g') = fupd (tret (gh g)) n None -> texec (gh g') = fupd (texec (gh g)) n None ->
    tcount (gh g') = fupd (tcount (gh g)) n O ->
    ntasks g' = S n -> queue g' = queue g -> flag g' = flag g -> at_ l = Idle -> at_ l' = M_try n ->
    SInv g' (upd ls t l').
  Proof.
    intros n Ec Es Ei Epu Er Ee En Hn Hq Hf Hpc Hpc'. sprep. rewrite Hpc in *. cbn [ctask lpend postchk holdsX andb app] in A2t, A4t, A5t, A8t.
    destruct (A0 n (le_n _)) as (Z1 & Z2 & Z3 & Z4).
    assert (Qp : forall x, tpush (gh g') x = tpush (gh g) x).
    { intros x. rewrite Epu. unfold fupd. destruct (Nat.eqb_spec x n); congruence. }
    assert (Qr : forall x, tret (gh g') x = tret (gh g) x).
    { intros x. rewrite Er. unfold fupd. destruct (Nat.eqb_spec x n); congruence. }
    assert (Qe : forall x, texec (gh g') x = texec (gh g) x).
    { intros x. rewrite Ee. unfold fupd. destruct (Nat.eqb_spec x n); congruence. }
    assert (Qn : forall x, tcount (gh g') x = tcount (gh g) x).
    { intros x. rewrite En. unfold fupd. destruct (Nat.eqb_spec x n); congruence. }
    assert (Qs : forall x, x <> n -> tsub (gh g') x = tsub (gh g) x) by (intros x Hx; rewrite Es; apply fupd_ne; auto).
    assert (Qi : forall x, x <> n -> tinv (gh g') x = tinv (gh g) x) by (intros x Hx; rewrite Ei; apply fupd_ne; auto).
    assert (Qpst : forall x, pst (gh g') x = pst (gh g) x) by (intros x; unfold pst; rewrite Qp; reflexivity).
    constructor; rewrite ?Ec, ?Hn, ?Hq, ?Hf.
    - intros tk Hk. rewrite Qp, Qr, Qe, Qn. apply A0. lia.
    - intros tk Hk. destruct (Nat.eq_dec tk n) as [->|Hne]; [rewrite Ei, fupd_eq; lia|].
      rewrite (Qi _ Hne). assert (tk < n)%nat as Hlt by lia. specialize (A1i tk Hlt). lia.
    - intros tk p. rewrite Qp. intros Hk. assert (tk <> n) as Hne by congruence. rewrite (Qi _ Hne).
      specialize (A1p tk p Hk). lia.
    - intros tk r. rewrite Qr, Qe, Qp. intros Hk. destruct (A1r tk r Hk) as [B1 B2]. split; [lia|exact B2].
    - intros tk e. rewrite Qe. intros Hk. specialize (A1e tk e Hk). lia.
    - xpt u.
      + rewrite Hpc'. cbn [ctask cphase]. intros tk E. inversion E; subst tk. rewrite Qp, Qr, Qe, Es, fupd_eq.
        repeat split; auto.
      + intros tk E. destruct (A2 u tk E) as (B1 & B2 & B3 & B4). assert (tk <> n) as Hk by (fold n in B1; lia).
        rewrite Qp, Qr, Qe, (Qs _ Hk). repeat split; auto.
    - intros tk Hk. rewrite Qr. intros Hr. ptw Hl. destruct (Nat.eq_dec tk n) as [->|Hk'].
      + rewrite Es, fupd_eq, Nat.eqb_refl, Hpc'. reflexivity.
      + rewrite (Qs _ Hk'). assert (tk < n)%nat as Hlt by lia. specialize (A3 tk Hlt Hr).
        destruct (Nat.eqb_spec (tsub (gh g) tk) t) as [E|_]; [|exact A3].
        rewrite E, Hp in A3. rewrite ?Hpc in A3. discriminate.
    - xpt u; intros tk; rewrite Qp, Qe; [rewrite Hpc'; cbn [lpend app]|]; intros Hin.
      + destruct (A4t tk Hin) as (B1 & B2 & B3). fold n in B1. repeat split; auto.
      + destruct (A4 u tk Hin) as (B1 & B2 & B3). fold n in B1. repeat split; auto.
    - xpt u; [rewrite Hpc'; cbn [lpend app]|].
      + eapply ordered_ext; [|exact A5t]. intros; symmetry; apply Qpst.
      + eapply ordered_ext; [|exact (A5 u)]. intros; symmetry; apply Qpst.
    - intros tk. rewrite Qp, Qe. intros Hk He. destruct (A6 tk Hk He) as [B|[u B]]; [auto|right]. exists u. ptw Hl.
      destruct (Nat.eqb_spec u t) as [->|Hne]; [rewrite Hp in B; rewrite ?Hpc in B; destruct B|exact B].
    - intros tk Hk. rewrite Qr. destruct (A7 tk Hk) as [B|[B|[u B]]]; auto. right; right. exists u. ptw Hl.
      destruct (Nat.eqb_spec u t) as [->|Hne]; [rewrite Hp in B; rewrite ?Hpc in B; discriminate|exact B].
    - xpt u; [rewrite Hpc'; cbn; discriminate|]. intros tk0 Hpo Hc0 f r Hin. rewrite Qr. intros Hr.
      destruct (A2 u tk0 Hc0) as (B1 & _). assert (tk0 <> n) as Hk by (fold n in B1; lia). rewrite (Qi _ Hk).
      eapply A8; eauto.
    - intros tk. rewrite Qn, Qe. apply A9.
    - intros f k r e'. rewrite Qr, !Qe. intros Hr Hlt Hk He.
      assert (k <> n) as Hk' by congruence. rewrite (Qi _ Hk') in Hlt. eapply A10; eauto. lia.
  Qed.

  (* push_back under the list mutex *)
  Lemma SK_push tk :
    clock (gh g') = S (clock (gh g)) -> tsub (gh g') = tsub (gh g) -> tinv (gh g') = tinv (gh g) ->
    tpush (gh g') = fupd (tpush (gh g)) tk (Some (clock (gh g))) ->
    tret (gh g') = tret (gh g) -> texec (gh g') = texec (gh g) -> tcount (gh g') = tcount (gh g) ->
    ntasks g' = ntasks g -> queue g' = queue g ++ [tk] -> flag g' = flag g ->
    at_ l = Q_lockl tk -> at_ l' = Q_unlockl tk -> SInv g' (upd ls t l').
  Proof.
    intros Ec Es Ei Epu Er Ee En Hn Hq Hf Hpc Hpc'. sprep. rewrite Hpc in *.
    cbn [ctask cphase lpend postchk holdsX andb app] in A2t, A4t, A5t, A8t.
    destruct (A2t tk eq_refl) as (Z1 & Z2 & Z3 & Z4 & Z5).
    assert (Qp : forall x, x <> tk -> tpush (gh g') x = tpush (gh g) x) by (intros x Hx; rewrite Epu; apply fupd_ne; auto).
    assert (Qp' : tpush (gh g') tk = Some (clock (gh g))) by (rewrite Epu; apply fupd_eq).
    assert (Qpst : forall x, x <> tk -> pst (gh g') x = pst (gh g) x) by (intros x Hx; unfold pst; rewrite (Qp _ Hx); reflexivity).
    assert (Nin : forall u x, In x (lpend (pcof ls u) ++ queue g) -> x <> tk).
    { intros u x Hin. destruct (A4 u x Hin) as (_ & _ & B). congruence. }
    assert (Lt : forall u, lpend (pcof (upd ls t l') u) = lpend (pcof ls u)).
    { intros u. ptw Hl. destruct (Nat.eqb_spec u t) as [->|Hne]; [rewrite Hpc', Hp; reflexivity|reflexivity]. }
    constructor; rewrite ?Ec, ?Es, ?Ei, ?Er, ?Ee, ?En, ?Hn, ?Hq, ?Hf.
    - intros x Hk. assert (x <> tk) as Hx by lia. rewrite (Qp _ Hx). apply A0. exact Hk.
    - intros x Hk. specialize (A1i x Hk). lia.
    - intros x p Hk. destruct (Nat.eq_dec x tk) as [->|Hx].
      + rewrite Qp' in Hk. inversion Hk; subst p. specialize (A1i tk Z1). lia.
      + rewrite (Qp _ Hx) in Hk. specialize (A1p x p Hk). lia.
    - intros x r Hk. assert (x <> tk) as Hx by congruence. rewrite (Qp _ Hx).
      destruct (A1r x r Hk) as [B1 B2]. split; [lia|exact B2].
    - intros x e Hk. specialize (A1e x e Hk). lia.
    - xpt u.
      + rewrite Hpc'. cbn [ctask cphase]. intros x E. inversion E; subst x. rewrite Qp'. repeat split; auto. discriminate.
      + intros x E. destruct (A2 u x E) as (B1 & B2 & B3 & B4). assert (x <> tk) as Hx by congruence.
        rewrite (Qp _ Hx). repeat split; auto.
    - intros x Hk Hr. specialize (A3 x Hk Hr). ptw Hl.
      destruct (Nat.eqb_spec (tsub (gh g) x) t) as [E|_]; [|exact A3].
      rewrite E, Hp in A3. rewrite Hpc'. exact A3.
    - intros u x. rewrite Lt, app_assoc. intros Hin. apply in_app_or in Hin as [Hin|[<-|[]]].
      + rewrite (Qp _ (Nin u x Hin)). apply (A4 u x Hin).
      + rewrite Qp'. repeat split; auto. discriminate.
    - intros u. rewrite Lt, app_assoc. apply ordered_app. split; [|split].
      + eapply ordered_ext; [|exact (A5 u)]. intros x Hin. symmetry. apply Qpst. eapply Nin; eauto.
      + cbn. split; [intros b []|exact I].
      + intros a b Ha [<-|[]]. rewrite (Qpst _ (Nin u a Ha)). unfold pst at 2. rewrite Qp'.
        destruct (A4 u a Ha) as (_ & _ & B). unfold pst. destruct (tpush (gh g) a) as [p|] eqn:E; [|congruence].
        specialize (A1p a p E). lia.
    - intros x Hk He. destruct (Nat.eq_dec x tk) as [->|Hx]; [left; apply in_or_app; right; left; reflexivity|].
      rewrite (Qp _ Hx) in Hk. destruct (A6 x Hk He) as [B|[u B]]; [left; apply in_or_app; auto|right].
      exists u. rewrite Lt. exact B.
    - intros x Hin. apply in_app_or in Hin as [Hin|[<-|[]]]; [|auto].
      destruct (A7 x Hin) as [B|[B|[u B]]]; auto. right; right. exists u. ptw Hl.
      destruct (Nat.eqb_spec u t) as [->|Hne]; [rewrite Hp in B; discriminate|exact B].
    - xpt u; [rewrite Hpc'; cbn; discriminate|]. intros tk0 Hpo Hc0 f r Hin Hr.
      apply in_app_or in Hin as [Hin|[<-|[]]]; [eapply A8; eauto|congruence].
    - exact A9.
    - exact A10.
  Qed.

  (* the submit call returns (queued path: after the flag store; direct path: after the unlock) *)
  Lemma SK_ret tk :
    clock (gh g') = S (clock (gh g)) -> tsub (gh g') = tsub (gh g) -> tinv (gh g') = tinv (gh g) ->
    tpush (gh g') = tpush (gh g) -> tret (gh g') = fupd (tret (gh g)) tk (Some (clock (gh g))) ->
    texec (gh g') = texec (gh g) -> tcount (gh g') = tcount (gh g) ->
    ntasks g' = ntasks g -> queue g' = queue g ->
    (flag g' = true \/ (flag g' = flag g /\ cphase (at_ l) = PhExec)) ->
    ctask (at_ l) = Some tk -> cphase (at_ l) <> PhNew -> lpend (at_ l) = [] -> clr (at_ l) = false ->
    at_ l' = Idle -> SInv g' (upd ls t l').
  Proof.
    intros Ec Es Ei Epu Er Ee En Hn Hq Hf Hct Hph Hlp Hcl Hpc'. sprep.
    destruct (A2t tk Hct) as (Z1 & Z2 & Z3 & Z4).
    assert (Qr : forall x, x <> tk -> tret (gh g') x = tret (gh g) x) by (intros x Hx; rewrite Er; apply fupd_ne; auto).
    assert (Qr' : tret (gh g') tk = Some (clock (gh g))) by (rewrite Er; apply fupd_eq).
    assert (Lt : forall u, lpend (pcof (upd ls t l') u) = lpend (pcof ls u)).
    { intros u. ptw Hl. destruct (Nat.eqb_spec u t) as [->|Hne]; [rewrite Hpc', Hp, Hlp; reflexivity|reflexivity]. }
    constructor; rewrite ?Ec, ?Es, ?Ei, ?Epu, ?Ee, ?En, ?Hn, ?Hq; unfold pst; rewrite ?Epu; fold (pst (gh g)).
    - intros x Hk. assert (x <> tk) as Hx by lia. rewrite (Qr _ Hx). apply A0. exact Hk.
    - intros x Hk. specialize (A1i x Hk). lia.
    - intros x p Hk. specialize (A1p x p Hk). lia.
    - intros x r Hk. destruct (Nat.eq_dec x tk) as [->|Hx].
      + rewrite Qr' in Hk. inversion Hk; subst r. split; [lia|].
        destruct (cphase (at_ l)); [congruence| |left; tauto].
        right. destruct (tpush (gh g) tk) as [p|] eqn:E; [|congruence]. exists p. split; auto. specialize (A1p tk p E). lia.
      + rewrite (Qr _ Hx) in Hk. destruct (A1r x r Hk) as [B1 B2]. split; [lia|exact B2].
    - intros x e Hk. specialize (A1e x e Hk). lia.
    - xpt u; [rewrite Hpc'; cbn; discriminate|].
      intros x E. destruct (A2 u x E) as (B1 & B2 & B3 & B4). assert (x <> tk) as Hx by congruence.
      rewrite (Qr _ Hx). repeat split; auto.
    - intros x Hk Hr. assert (x <> tk) as Hx by congruence. rewrite (Qr _ Hx) in Hr. specialize (A3 x Hk Hr). ptw Hl.
      destruct (Nat.eqb_spec (tsub (gh g) x) t) as [E|_]; [|exact A3]. rewrite E, Hp in A3. congruence.
    - intros u x. rewrite Lt. apply A4.
    - intros u. rewrite Lt. apply A5.
    - intros x Hk He. destruct (A6 x Hk He) as [B|[u B]]; [auto|right]. exists u. rewrite Lt. exact B.
    - intros x Hin. destruct Hf as [Hf|[Hf Hex]]; [rewrite Hf; auto|]. rewrite Hf.
      assert (x <> tk) as Hx.
      { rewrite Hex in Z4. rewrite Hlp in A4t. destruct (A4t x Hin) as (_ & _ & B). destruct Z4. congruence. }
      rewrite (Qr _ Hx). destruct (A7 x Hin) as [B|[B|[u B]]]; auto. right; right. exists u. ptw Hl.
      destruct (Nat.eqb_spec u t) as [->|Hne]; [rewrite Hp in B; congruence|exact B].
    - xpt u; [rewrite Hpc'; cbn; discriminate|]. intros tk0 Hpo Hc0 f r Hin Hr.
      destruct (Nat.eq_dec f tk) as [->|Hx].
      + rewrite Qr' in Hr. inversion Hr; subst r. destruct (A2 u tk0 Hc0) as (B1 & _). apply A1i. exact B1.
      + rewrite (Qr _ Hx) in Hr. eapply A8; eauto.
    - exact A9.
    - intros f k r e' Hr Hlt Hk He. destruct (Nat.eq_dec f tk) as [->|Hx].
      + rewrite Qr' in Hr. inversion Hr; subst r. specialize (A1i k Hk). lia.
      + rewrite (Qr _ Hx) in Hr. eapply A10; eauto.
  Qed.

  (* swap(localPending, pending list) under the list mutex *)
  Lemma SK_swap c : st_same (gh g) (gh g') -> ntasks g' = ntasks g -> queue g' = [] -> flag g' = flag g ->
    at_ l = DI_lockl c -> at_ l' = DI_unlockl c (queue g) -> SInv g' (upd ls t l').
  Proof.
    intros (Ec & Es & Ei & Epu & Er & Ee & En) Hn Hq Hf Hpc Hpc'. sprep.
    assert (holdsX (at_ l) = true) as Hx by (rewrite Hpc; reflexivity).
    pose proof (fun u => others_no_list u Hx) as Hoth.
    rewrite Hpc in *. cbn [ctask cphase lpend postchk holdsX andb app] in A2t, A4t, A5t, A8t.
    constructor; rewrite ?Ec, ?Es, ?Ei, ?Epu, ?Er, ?Ee, ?En, ?Hn, ?Hq, ?Hf; unfold pst; rewrite ?Epu; fold (pst (gh g)).
    - exact A0.
    - intros tk Hk. specialize (A1i tk Hk). lia.
    - intros tk p Hk. specialize (A1p tk p Hk). lia.
    - intros tk r Hk. destruct (A1r tk r Hk) as [B1 B2]. split; [lia|auto].
    - intros tk e Hk. specialize (A1e tk e Hk). lia.
    - xpt u; [rewrite Hpc'; exact A2t|apply A2].
    - intros tk Hk Hr. specialize (A3 tk Hk Hr). ptw Hl.
      destruct (Nat.eqb_spec (tsub (gh g) tk) t) as [E|Hne]; [|exact A3]. rewrite E, Hp in A3. rewrite Hpc'. exact A3.
    - xpt u; [rewrite Hpc'; cbn [lpend]; rewrite app_nil_r; exact A4t|].
      destruct (Hoth u Hne) as [E _]. rewrite E. intros tk [].
    - xpt u; [rewrite Hpc'; cbn [lpend]; rewrite app_nil_r; exact A5t|].
      destruct (Hoth u Hne) as [E _]. rewrite E. exact I.
    - intros tk Hk He. right. destruct (A6 tk Hk He) as [B|[u B]].
      + exists t. ptw Hl. rewrite Nat.eqb_refl, Hpc'. exact B.
      + exfalso. destruct (Nat.eq_dec u t) as [->|Hne]; [rewrite Hp in B; exact B|].
        destruct (Hoth u Hne) as [E _]. rewrite E in B. exact B.
    - intros tk [].
    - intros u tk0 _ _ f r [].
    - exact A9.
    - exact A10.
  Qed.

  (* a drainer invokes the queued task at the head of its local list *)
  Lemma SK_callq c tk r :
    clock (gh g') = S (clock (gh g)) -> tsub (gh g') = tsub (gh g) -> tinv (gh g') = tinv (gh g) ->
    tpush (gh g') = tpush (gh g) -> tret (gh g') = tret (gh g) ->
    texec (gh g') = fupd (texec (gh g)) tk (Some (clock (gh g))) ->
    tcount (gh g') = fupd (tcount (gh g)) tk (S (tcount (gh g) tk)) ->
    ntasks g' = ntasks g -> queue g' = queue g -> flag g' = flag g ->
    at_ l = F_call (BQ c tk r) -> ctask (at_ l') = cdir c -> cphase (at_ l') = PhNew -> lpend (at_ l') = r ->
    clr (at_ l') = false -> postchk (at_ l') = true -> SInv g' (upd ls t l').
  Proof.
    intros Ec Es Ei Epu Er Ee En Hn Hq Hf Hpc Hct Hph Hlp Hcl Hpo. sprep.
    assert (holdsX (at_ l) = true) as Hx by (rewrite Hpc; reflexivity).
    pose proof (fun u => others_no_list u Hx) as Hoth.
    rewrite Hpc in *. cbn [ctask cphase lpend bpend bdir postchk holdsX prechk negb andb] in A2t, A4t, A5t, A8t.
    rewrite <- app_comm_cons in A4t, A5t.
    destruct (A4t tk (or_introl eq_refl)) as (Z1 & Z2 & Z3).
    pose proof (ordered_head_notin _ _ _ A5t) as Nin. destruct A5t as [Ohd Otl].
    assert (Qe : forall x, x <> tk -> texec (gh g') x = texec (gh g) x) by (intros x Hx'; rewrite Ee; apply fupd_ne; auto).
    assert (Qe' : texec (gh g') tk = Some (clock (gh g))) by (rewrite Ee; apply fupd_eq).
    destruct (tpush (gh g) tk) as [ptk|] eqn:Eptk; [clear Z3|congruence].
    pose proof (A1p tk ptk Eptk) as Bptk.
    constructor; rewrite ?Ec, ?Es, ?Ei, ?Epu, ?Er, ?Hn, ?Hq, ?Hf; unfold pst; rewrite ?Epu; fold (pst (gh g)).
    - intros x Hk. assert (x <> tk) as Hx' by lia. rewrite (Qe _ Hx'), En, fupd_ne by exact Hx'. apply A0. exact Hk.
    - intros x Hk. specialize (A1i x Hk). lia.
    - intros x p Hk. specialize (A1p x p Hk). lia.
    - intros x r0 Hk. destruct (A1r x r0 Hk) as [B1 B2]. split; [lia|].
      destruct (Nat.eq_dec x tk) as [->|Hx']; [left; congruence|]. rewrite (Qe _ Hx'). exact B2.
    - intros x e Hk. destruct (Nat.eq_dec x tk) as [->|Hx']; [rewrite Qe' in Hk; inversion Hk; lia|].
      rewrite (Qe _ Hx') in Hk. specialize (A1e x e Hk). lia.
    - xpt u.
      + rewrite Hct, Hph. intros x E. destruct (A2t x E) as (B1 & B2 & B3 & B4 & B5).
        assert (x <> tk) as Hx' by congruence. rewrite (Qe _ Hx'). repeat split; auto.
      + intros x E. destruct (A2 u x E) as (B1 & B2 & B3 & B4). repeat split; auto.
        destruct (cphase (pcof ls u)); auto.
        * destruct B4 as [B4 B5]. assert (x <> tk) as Hx' by congruence. rewrite (Qe _ Hx'). auto.
        * destruct B4 as [B4 B5]. assert (x <> tk) as Hx' by congruence. rewrite (Qe _ Hx'). auto.
    - intros x Hk Hr. specialize (A3 x Hk Hr). ptw Hl.
      destruct (Nat.eqb_spec (tsub (gh g) x) t) as [E|_]; [|exact A3]. rewrite E, Hp in A3. rewrite Hct. exact A3.
    - xpt u.
      + rewrite Hlp. intros x Hin. assert (x <> tk) as Hx' by congruence. rewrite (Qe _ Hx'). apply A4t. right. exact Hin.
      + destruct (Hoth u Hne) as [E _]. rewrite E. cbn [app]. intros x Hin.
        assert (In x (r ++ queue g)) as Hin' by (apply in_or_app; auto).
        assert (x <> tk) as Hx' by congruence. rewrite (Qe _ Hx'). apply A4t. right. exact Hin'.
    - xpt u; [rewrite Hlp; exact Otl|apply A5].
    - intros x Hk He. assert (x <> tk) as Hx' by congruence. rewrite (Qe _ Hx') in He.
      destruct (A6 x Hk He) as [B|[u B]]; [auto|right]. exists t. ptw Hl. rewrite Nat.eqb_refl, Hlp.
      destruct (Nat.eq_dec u t) as [->|Hne].
      * rewrite Hp in B. destruct B as [B|B]; [congruence|exact B].
      * destruct (Hoth u Hne) as [E _]. rewrite E in B. destruct B.
    - intros x Hin. destruct (A7 x Hin) as [B|[B|[u B]]]; auto. right; right. exists u. ptw Hl.
      destruct (Nat.eqb_spec u t) as [->|Hne]; [rewrite Hp in B; discriminate|exact B].
    - xpt u; [rewrite Hct; intros tk0 _; apply A8t; reflexivity|apply A8].
    - intros x. rewrite En. destruct (Nat.eq_dec x tk) as [->|Hx'].
      + rewrite fupd_eq, Qe', (A9 tk), Z2. reflexivity.
      + rewrite fupd_ne, (Qe _ Hx') by exact Hx'. apply A9.
    - intros f k r0 e' Hr Hlt Hk He.
      assert (Hf' : exists e, texec (gh g) f = Some e /\ (k = tk \/ (e < e')%nat)).
      { destruct (Nat.eq_dec k tk) as [->|Hk'].
        - destruct (texec (gh g) f) as [e|] eqn:Ef; [exists e; auto|exfalso].
          destruct (A1r f r0 Hr) as [_ [B|[p [B1 B2]]]]; [congruence|].
          assert (In f ((tk :: r) ++ queue g)) as Hin.
          { destruct (A6 f) as [B|[u B]]; [congruence|exact Ef|apply in_or_app; auto|].
            destruct (Nat.eq_dec u t) as [->|Hne]; [rewrite Hp in B; apply in_or_app; auto|].
            destruct (Hoth u Hne) as [E _]. rewrite E in B. destruct B. }
          rewrite <- app_comm_cons in Hin. destruct Hin as [<-|Hin].
          + rewrite Eptk in B1. inversion B1; subst p. lia.
          + specialize (Ohd f Hin). unfold pst in Ohd. rewrite Eptk, B1 in Ohd. lia.
        - rewrite (Qe _ Hk') in He. destruct (A10 f k r0 e' Hr Hlt Hk He) as [e [B1 B2]]. exists e; auto. }
      destruct Hf' as [e [B1 B2]]. assert (f <> tk) as Hx' by congruence. rewrite (Qe _ Hx'). exists e. split; [exact B1|].
      destruct B2 as [->|B2]; [|exact B2]. rewrite Qe' in He. inversion He; subst e'. apply (A1e f e B1).
  Qed.

  (* the direct path invokes its own functor, after the drain *)
  Lemma SK_calld tk :
    clock (gh g') = S (clock (gh g)) -> tsub (gh g') = tsub (gh g) -> tinv (gh g') = tinv (gh g) ->
    tpush (gh g') = tpush (gh g) -> tret (gh g') = tret (gh g) ->
    texec (gh g') = fupd (texec (gh g)) tk (Some (clock (gh g))) ->
    tcount (gh g') = fupd (tcount (gh g)) tk (S (tcount (gh g) tk)) ->
    ntasks g' = ntasks g -> queue g' = queue g -> flag g' = flag g ->
    at_ l = F_call (BD tk) -> ctask (at_ l') = Some tk -> cphase (at_ l') = PhExec -> lpend (at_ l') = [] ->
    clr (at_ l') = false -> SInv g' (upd ls t l').
  Proof.
    intros Ec Es Ei Epu Er Ee En Hn Hq Hf Hpc Hct Hph Hlp Hcl. sprep.
    assert (holdsX (at_ l) = true) as Hx by (rewrite Hpc; reflexivity).
    pose proof (fun u => others_no_list u Hx) as Hoth.
    rewrite Hpc in *. cbn [ctask cphase lpend bpend bdir postchk holdsX prechk negb andb app] in A2t, A4t, A5t, A8t.
    destruct (A2t tk eq_refl) as (Z1 & Z2 & Z3 & Z4 & Z5).
    assert (Qe : forall x, x <> tk -> texec (gh g') x = texec (gh g) x) by (intros x Hx'; rewrite Ee; apply fupd_ne; auto).
    assert (Qe' : texec (gh g') tk = Some (clock (gh g))) by (rewrite Ee; apply fupd_eq).
    assert (Lt : forall u, lpend (pcof (upd ls t l') u) = lpend (pcof ls u)).
    { intros u. ptw Hl. destruct (Nat.eqb_spec u t) as [->|Hne]; [rewrite Hlp, Hp; reflexivity|reflexivity]. }
    assert (Nin : forall u x, In x (lpend (pcof ls u) ++ queue g) -> x <> tk).
    { intros u x Hin. destruct (A4 u x Hin) as (_ & _ & B). congruence. }
    constructor; rewrite ?Ec, ?Es, ?Ei, ?Epu, ?Er, ?Hn, ?Hq, ?Hf; unfold pst; rewrite ?Epu; fold (pst (gh g)).
    - intros x Hk. assert (x <> tk) as Hx' by lia. rewrite (Qe _ Hx'), En, fupd_ne by exact Hx'. apply A0. exact Hk.
    - intros x Hk. specialize (A1i x Hk). lia.
    - intros x p Hk. specialize (A1p x p Hk). lia.
    - intros x r0 Hk. destruct (A1r x r0 Hk) as [B1 B2]. split; [lia|].
      destruct (Nat.eq_dec x tk) as [->|Hx']; [left; congruence|]. rewrite (Qe _ Hx'). exact B2.
    - intros x e Hk. destruct (Nat.eq_dec x tk) as [->|Hx']; [rewrite Qe' in Hk; inversion Hk; lia|].
      rewrite (Qe _ Hx') in Hk. specialize (A1e x e Hk). lia.
    - xpt u.
      + rewrite Hct, Hph. intros x E. inversion E; subst x. rewrite Qe'. repeat split; auto. discriminate.
      + intros x E. destruct (A2 u x E) as (B1 & B2 & B3 & B4). assert (x <> tk) as Hx' by congruence.
        rewrite (Qe _ Hx'). repeat split; auto.
    - intros x Hk Hr. specialize (A3 x Hk Hr). ptw Hl.
      destruct (Nat.eqb_spec (tsub (gh g) x) t) as [E|_]; [|exact A3]. rewrite E, Hp in A3. rewrite Hct. exact A3.
    - intros u x. rewrite Lt. intros Hin. rewrite (Qe _ (Nin u x Hin)). apply (A4 u x Hin).
    - intros u. rewrite Lt. apply A5.
    - intros x Hk He. assert (x <> tk) as Hx' by congruence. rewrite (Qe _ Hx') in He.
      destruct (A6 x Hk He) as [B|[u B]]; [auto|right]. exists u. rewrite Lt. exact B.
    - intros x Hin. destruct (A7 x Hin) as [B|[B|[u B]]]; auto. right; right. exists u. ptw Hl.
      destruct (Nat.eqb_spec u t) as [->|Hne]; [rewrite Hp in B; discriminate|exact B].
    - xpt u; [rewrite Hct; intros tk0 _; apply A8t; reflexivity|apply A8].
    - intros x. rewrite En. destruct (Nat.eq_dec x tk) as [->|Hx'].
      + rewrite fupd_eq, Qe', (A9 tk), Z5. reflexivity.
      + rewrite fupd_ne, (Qe _ Hx') by exact Hx'. apply A9.
    - intros f k r0 e' Hr Hlt Hk He. assert (f <> tk) as Hx' by congruence. rewrite (Qe _ Hx').
      destruct (Nat.eq_dec k tk) as [->|Hk'].
      + rewrite Qe' in He. inversion He; subst e'.
        destruct (texec (gh g) f) as [e|] eqn:Ef; [exists e; split; [reflexivity|apply (A1e f e Ef)]|exfalso].
        destruct (A1r f r0 Hr) as [_ [B|[p [B1 B2]]]]; [congruence|].
        assert (In f (queue g)) as Hin.
        { destruct (A6 f) as [B|[u B]]; [congruence|exact Ef|exact B|].
          destruct (Nat.eq_dec u t) as [->|Hne]; [rewrite Hp in B; destruct B|].
          destruct (Hoth u Hne) as [E _]. rewrite E in B. destruct B. }
        specialize (A8t tk eq_refl eq_refl f r0 Hin Hr). lia.
      + rewrite (Qe _ Hk') in He. apply (A10 f k r0 e' Hr Hlt Hk He).
  Qed.
End SKinds.

Ltac hsimp :=
  gsimp; cbn [clock donelog tsub tinv tpush tret texec tcount trunner tfsets tpre
              h_tick h_done h_new h_push h_ret h_exec h_fset].
Ltac destruct_goal_matches :=
  repeat match goal with |- context [match ?x with _ => _ end] => destruct x end.
Ltac sside :=
  hsimp; unfold after_drain, body_done; unfold cont;
  first [ reflexivity | eassumption
        | solve [unfold st_same; repeat split; reflexivity]
        | solve [left; reflexivity] | solve [right; reflexivity] | solve [right; split; reflexivity]
        | solve [cbn; discriminate]
        | solve [destruct_goal_matches; cbn;
                 first [ reflexivity | discriminate
                       | intros; first [ discriminate | left; reflexivity
                                       | right; split; [eassumption | split; reflexivity] ] ] ] ].

Lemma SInv_init m th progs : SInv (gl (init m th progs)) (thr (init m th progs)).
Proof.
  assert (Q : forall u, pcof (map (fun p => Loc p Idle [] []) progs) u = Idle).
  { intros u. unfold pcof, locof. rewrite nth_error_map. destruct (nth_error progs u); reflexivity. }
  unfold init; cbn [gl thr]. constructor; cbn; intros; rewrite ?Q in *; cbn in *; try discriminate; try lia; try tauto; auto.
Qed.

Lemma SInv_step g ls t c l g' l' es :
  Inv1 g ls -> SInv g ls -> nth_error ls t = Some l -> tstep t c g l = Some (g', l', es) -> SInv g' (upd ls t l').
Proof.
  intros H1 HS Hl Hs. destruct l as [pr p hd fu].
  step_cases Hs.
  all: try solve [eapply (SK_none _ _ _ _ _ _ H1 HS Hl); sside].
  all: try solve [eapply (SK_new _ _ _ _ _ _ HS Hl); sside].
  all: try solve [eapply (SK_push _ _ _ _ _ _ HS Hl); sside].
  all: try solve [eapply (SK_ret _ _ _ _ _ _ HS Hl); sside].
  all: try (destruct b).
  all: try solve [eapply (SK_swap _ _ _ _ _ _ H1 HS Hl); sside].
  all: try solve [eapply (SK_callq _ _ _ _ _ _ H1 HS Hl); sside].
  all: try solve [eapply (SK_calld _ _ _ _ _ _ H1 HS Hl); sside].
Qed.

(* ================================================================== *)
(* Layer 4: futures, the payload as the log of applied functors         *)
(* ================================================================== *)
Definition rtask (p : pc) : option nat :=
  match p with F_rdb b | F_rde b | F_wrb b _ | F_wre b _ => Some (btask b) | _ => None end.
Definition wval (p : pc) : option Z := match p with F_wrb _ v | F_wre _ v => Some v | _ => None end.
Definition enc (fid : nat -> Z) (log : list nat) : Z := fold_left (fun v tk => apply_f (fid tk) v) log 0.

Lemma rtask_holdsX p tk : rtask p = Some tk -> holdsX p = true.
Proof. destruct p; cbn; congruence. Qed.
Lemma wval_holdsX p v : wval p = Some v -> holdsX p = true.
Proof. destruct p; cbn; congruence. Qed.

Lemma call_unexec g ls t b : SInv g ls -> pcof ls t = F_call b ->
  texec (gh g) (btask b) = None /\ (btask b < ntasks g)%nat.
Proof.
  intros HS Hp. destruct b as [tk|c tk r]; cbn [btask].
  - destruct (S2 _ _ HS t tk) as (B1 & _ & _ & B4); [rewrite Hp; reflexivity|]. rewrite Hp in B4. cbn in B4. tauto.
  - destruct (S4 _ _ HS t tk) as (B1 & B2 & _); [rewrite Hp; cbn; auto|]. auto.
Qed.

Record FInv (g : glob) (ls : list loc) : Prop := {
  F1 : forall tk, texec (gh g) tk = None -> tfut g tk = FPending /\ tfsets (gh g) tk = O;
  F2 : forall u tk, rtask (pcof ls u) = Some tk ->
       texec (gh g) tk <> None /\ tfsets (gh g) tk = O /\ tfut g tk = FPending /\
       trunner (gh g) tk = Some u /\ tpre (gh g) tk = pay g;
  F3 : forall tk, texec (gh g) tk <> None ->
       (tfsets (gh g) tk = 1%nat /\ (tfut g tk = FExn \/ tfut g tk = FVal (apply_f (tfid g tk) (tpre (gh g) tk)))) \/
       (exists u, rtask (pcof ls u) = Some tk);
  F4 : forall u v, wval (pcof ls u) = Some v -> v = pay g;
  F5 : pay g = enc (tfid g) (donelog (gh g));
  F6 : forall x, In x (donelog (gh g)) -> (x < ntasks g)%nat
}.

Lemma enc_ext f f' log : (forall x, In x log -> f x = f' x) -> enc f log = enc f' log.
Proof.
  unfold enc. generalize 0. induction log as [|a r IH]; intros z H; cbn; [reflexivity|].
  rewrite (H a (or_introl eq_refl)). apply IH. intros x Hx. apply H. right. exact Hx.
Qed.
Lemma enc_snoc f log tk : enc f (log ++ [tk]) = apply_f (f tk) (enc f log).
Proof. unfold enc. rewrite fold_left_app. reflexivity. Qed.

Section FKinds.
  Variables (g g' : glob) (ls : list loc) (t : nat) (l l' : loc).
  Hypothesis H1 : Inv1 g ls.
  Hypothesis HS : SInv g ls.
  Hypothesis HF : FInv g ls.
  Hypothesis Hl : nth_error ls t = Some l.
  Let Hp := pcof_at _ _ _ Hl.
  Ltac xpt u := intros u; ptw Hl; destruct (Nat.eqb_spec u t) as [->|Hne].
  Ltac fprep :=
    pose proof (F1 _ _ HF) as B1; pose proof (F2 _ _ HF) as B2; pose proof (F3 _ _ HF) as B3;
    pose proof (F4 _ _ HF) as B4; pose proof (F5 _ _ HF) as B5; pose proof (F6 _ _ HF) as B6;
    pose proof (B2 t) as B2t; pose proof (B4 t) as B4t; rewrite Hp in B2t, B4t.

  (* when this thread is in an exclusive section, no other thread is inside a functor body *)
  Lemma others_not_running u : holdsX (at_ l) = true -> u <> t ->
    (forall x, rtask (pcof ls u) <> Some x) /\ (forall v, wval (pcof ls u) <> Some v).
  Proof.
    intros Hx Hne. rewrite <- Hp in Hx. destruct (excl_facts _ _ _ H1 Hx u) as [_ E].
    split; intros x Hr; [apply rtask_holdsX in Hr|apply wval_holdsX in Hr]; auto.
  Qed.

  Lemma FK_none :
    tfut g' = tfut g -> tfsets (gh g') = tfsets (gh g) -> texec (gh g') = texec (gh g) ->
    trunner (gh g') = trunner (gh g) -> tpre (gh g') = tpre (gh g) -> pay g' = pay g ->
    donelog (gh g') = donelog (gh g) -> ntasks g' = ntasks g -> tfid g' = tfid g ->
    rtask (at_ l') = rtask (at_ l) ->
    (forall v, wval (at_ l') = Some v -> wval (at_ l) = Some v \/ v = pay g) -> FInv g' (upd ls t l').
  Proof.
    intros E1 E2 E3 E4 E5 E6 E7 E8 E9 Hr Hw. fprep.
    constructor; rewrite ?E1, ?E2, ?E3, ?E4, ?E5, ?E6, ?E7, ?E8, ?E9; auto.
    - xpt u; [rewrite Hr; exact B2t|apply B2].
    - intros tk He. destruct (B3 tk He) as [C|[u C]]; [auto|right]. exists u. ptw Hl.
      destruct (Nat.eqb_spec u t) as [->|Hne]; [rewrite Hr, <- Hp|]; exact C.
    - xpt u; [|apply B4]. intros v Hv. destruct (Hw v Hv) as [C|C]; auto.
  Qed.

  Lemma FK_new fid :
    let n := ntasks g in
    tfut g' = tfut g -> tfsets (gh g') = fupd (tfsets (gh g)) n O -> texec (gh g') = fupd (texec (gh g)) n None ->
    trunner (gh g') = fupd (trunner (gh g)) n None -> tpre (gh g') = tpre (gh g) -> pay g' = pay g ->
    donelog (gh g') = donelog (gh g) -> ntasks g' = S n -> tfid g' = fupd (tfid g) n fid ->
    at_ l = Idle -> at_ l' = M_try n -> FInv g' (upd ls t l').
  Proof.
    intros n E1 E2 E3 E4 E5 E6 E7 E8 E9 Hpc Hpc'. fprep.
    destruct (S0 _ _ HS n (le_n _)) as (_ & _ & Z3 & _). destruct (B1 n Z3) as [Z5 Z6].
    assert (Qe : forall x, texec (gh g') x = texec (gh g) x).
    { intros x. rewrite E3. unfold fupd. destruct (Nat.eqb_spec x n); congruence. }
    assert (Qs : forall x, tfsets (gh g') x = tfsets (gh g) x).
    { intros x. rewrite E2. unfold fupd. destruct (Nat.eqb_spec x n); congruence. }
    assert (Rt : forall u, rtask (pcof (upd ls t l') u) = rtask (pcof ls u)).
    { intros u. ptw Hl. destruct (Nat.eqb_spec u t) as [->|Hne]; [rewrite Hpc', Hp, Hpc; reflexivity|reflexivity]. }
    assert (Wt : forall u, wval (pcof (upd ls t l') u) = wval (pcof ls u)).
    { intros u. ptw Hl. destruct (Nat.eqb_spec u t) as [->|Hne]; [rewrite Hpc', Hp, Hpc; reflexivity|reflexivity]. }
    constructor; rewrite ?E1, ?E5, ?E6, ?E7, ?E8.
    - intros tk. rewrite Qe, Qs. apply B1.
    - intros u tk. rewrite Rt, Qe, Qs. intros Hr. destruct (B2 u tk Hr) as (C1 & C2 & C3 & C4 & C5).
      repeat split; auto. rewrite E4, fupd_ne; [exact C4|]. intros ->. congruence.
    - intros tk. rewrite Qe, Qs. intros He. assert (tk <> n) as Hk by (intros ->; congruence).
      rewrite E9, fupd_ne by exact Hk. destruct (B3 tk He) as [C|[u C]]; [auto|right]. exists u. rewrite Rt. exact C.
    - intros u v. rewrite Wt. apply B4.
    - rewrite B5. apply enc_ext. intros x Hx. rewrite E9, fupd_ne; [reflexivity|]. specialize (B6 x Hx). fold n in B6. lia.
    - intros x Hx. specialize (B6 x Hx). fold n in B6. lia.
  Qed.

  (* the functor is invoked and does not throw *)
  Lemma FK_call b :
    let tk := btask b in
    tfut g' = tfut g -> tfsets (gh g') = tfsets (gh g) -> texec (gh g') = fupd (texec (gh g)) tk (Some (clock (gh g))) ->
    trunner (gh g') = fupd (trunner (gh g)) tk (Some t) -> tpre (gh g') = fupd (tpre (gh g)) tk (pay g) -> pay g' = pay g ->
    donelog (gh g') = donelog (gh g) -> ntasks g' = ntasks g -> tfid g' = tfid g ->
    at_ l = F_call b -> at_ l' = F_rdb b -> FInv g' (upd ls t l').
  Proof.
    intros tk E1 E2 E3 E4 E5 E6 E7 E8 E9 Hpc Hpc'. fprep.
    assert (holdsX (at_ l) = true) as Hx by (rewrite Hpc; reflexivity).
    pose proof (fun u => others_not_running u Hx) as Hoth.
    destruct (call_unexec g ls t b HS) as [Z1 Z2]; [rewrite Hp; exact Hpc|]. fold tk in Z1, Z2.
    destruct (B1 tk Z1) as [Z3 Z4].
    assert (Qe : forall x, x <> tk -> texec (gh g') x = texec (gh g) x) by (intros x Hx'; rewrite E3; apply fupd_ne; auto).
    assert (Qe' : texec (gh g') tk = Some (clock (gh g))) by (rewrite E3; apply fupd_eq).
    constructor; rewrite ?E1, ?E2, ?E6, ?E7, ?E8, ?E9; auto.
    - intros x He. assert (x <> tk) as Hx' by congruence. rewrite (Qe _ Hx') in He. apply B1. exact He.
    - xpt u.
      + rewrite Hpc'. cbn [rtask]. intros x E. inversion E; subst x. fold tk. rewrite Qe', E4, E5, !fupd_eq.
        repeat split; auto. discriminate.
      + intros x Hr. exfalso. destruct (Hoth u Hne) as [C _]. apply (C x Hr).
    - intros x He. destruct (Nat.eq_dec x tk) as [->|Hx'].
      + right. exists t. ptw Hl. rewrite Nat.eqb_refl, Hpc'. reflexivity.
      + rewrite (Qe _ Hx') in He. rewrite E5, fupd_ne by exact Hx'. destruct (B3 x He) as [C|[u C]]; [auto|exfalso].
        destruct (Nat.eq_dec u t) as [->|Hne]; [rewrite Hp, Hpc in C; discriminate|].
        destruct (Hoth u Hne) as [D _]. apply (D x C).
    - xpt u; [rewrite Hpc'; discriminate|apply B4].
  Qed.

  (* the functor is invoked and throws: the exception is stored in the future cell *)
  Lemma FK_throw b :
    let tk := btask b in
    tfut g' = fupd (tfut g) tk FExn -> tfsets (gh g') = fupd (tfsets (gh g)) tk (S (tfsets (gh g) tk)) ->
    texec (gh g') = fupd (texec (gh g)) tk (Some (clock (gh g))) ->
    trunner (gh g') = fupd (trunner (gh g)) tk (Some t) -> tpre (gh g') = fupd (tpre (gh g)) tk (pay g) -> pay g' = pay g ->
    donelog (gh g') = donelog (gh g) -> ntasks g' = ntasks g -> tfid g' = tfid g ->
    at_ l = F_call b -> rtask (at_ l') = None -> wval (at_ l') = None -> FInv g' (upd ls t l').
  Proof.
    intros tk E1 E2 E3 E4 E5 E6 E7 E8 E9 Hpc Hr' Hw'. fprep.
    assert (holdsX (at_ l) = true) as Hx by (rewrite Hpc; reflexivity).
    pose proof (fun u => others_not_running u Hx) as Hoth.
    destruct (call_unexec g ls t b HS) as [Z1 Z2]; [rewrite Hp; exact Hpc|]. fold tk in Z1, Z2.
    destruct (B1 tk Z1) as [Z3 Z4].
    assert (Qe : forall x, x <> tk -> texec (gh g') x = texec (gh g) x) by (intros x Hx'; rewrite E3; apply fupd_ne; auto).
    constructor; rewrite ?E6, ?E7, ?E8, ?E9; auto.
    - intros x He. assert (x <> tk) as Hx'. { intros ->. rewrite E3, fupd_eq in He. discriminate. }
      rewrite (Qe _ Hx') in He. rewrite E1, E2, !fupd_ne by exact Hx'. apply B1. exact He.
    - xpt u; [rewrite Hr'; discriminate|]. intros x Hr. exfalso. destruct (Hoth u Hne) as [C _]. apply (C x Hr).
    - intros x He. destruct (Nat.eq_dec x tk) as [->|Hx'].
      + left. rewrite E1, E2, !fupd_eq, Z4. auto.
      + rewrite (Qe _ Hx') in He. rewrite E1, E2, E5, !fupd_ne by exact Hx'. destruct (B3 x He) as [C|[u C]]; [auto|exfalso].
        destruct (Nat.eq_dec u t) as [->|Hne]; [rewrite Hp, Hpc in C; discriminate|].
        destruct (Hoth u Hne) as [D _]. apply (D x C).
    - xpt u; [rewrite Hw'; discriminate|apply B4].
  Qed.

  (* the write window closes: the payload changes, the result is stored in the future cell *)
  Lemma FK_wre b v :
    let tk := btask b in
    let nv := apply_f (tfid g tk) v in
    tfut g' = fupd (tfut g) tk (FVal nv) -> tfsets (gh g') = fupd (tfsets (gh g)) tk (S (tfsets (gh g) tk)) ->
    texec (gh g') = texec (gh g) -> trunner (gh g') = trunner (gh g) -> tpre (gh g') = tpre (gh g) -> pay g' = nv ->
    donelog (gh g') = donelog (gh g) ++ [tk] -> ntasks g' = ntasks g -> tfid g' = tfid g ->
    at_ l = F_wre b v -> rtask (at_ l') = None -> wval (at_ l') = None -> FInv g' (upd ls t l').
  Proof.
    intros tk nv E1 E2 E3 E4 E5 E6 E7 E8 E9 Hpc Hr' Hw'. fprep.
    assert (holdsX (at_ l) = true) as Hx by (rewrite Hpc; reflexivity).
    pose proof (fun u => others_not_running u Hx) as Hoth.
    rewrite Hpc in B2t, B4t. cbn [rtask wval] in B2t, B4t. fold tk in B2t.
    destruct (B2t tk eq_refl) as (Z1 & Z2 & Z3 & Z4 & Z5). pose proof (B4t v eq_refl) as Zv.
    constructor; rewrite ?E3, ?E4, ?E5, ?E6, ?E7, ?E8, ?E9; auto.
    - intros x He. assert (x <> tk) as Hx' by congruence. rewrite E1, E2, !fupd_ne by exact Hx'. apply B1. exact He.
    - xpt u; [rewrite Hr'; discriminate|]. intros x Hr. exfalso. destruct (Hoth u Hne) as [C _]. apply (C x Hr).
    - intros x He. destruct (Nat.eq_dec x tk) as [->|Hx'].
      + left. rewrite E1, E2, !fupd_eq, Z2. split; [reflexivity|right]. unfold nv. rewrite Z5, Zv. reflexivity.
      + rewrite E1, E2, !fupd_ne by exact Hx'. destruct (B3 x He) as [C|[u C]]; [auto|exfalso].
        destruct (Nat.eq_dec u t) as [->|Hne]; [rewrite Hp, Hpc in C; cbn in C; fold tk in C; congruence|].
        destruct (Hoth u Hne) as [D _]. apply (D x C).
    - xpt u; [rewrite Hw'; discriminate|]. intros w Hw. exfalso. destruct (Hoth u Hne) as [_ D]. apply (D w Hw).
    - rewrite enc_snoc, <- B5. unfold nv. rewrite Zv. reflexivity.
    - intros x Hx'. apply in_app_or in Hx' as [Hx'|[<-|[]]]; [auto|].
      destruct (Nat.lt_ge_cases tk (ntasks g)) as [Hlt|Hge]; [exact Hlt|].
      destruct (S0 _ _ HS tk Hge) as (_ & _ & C & _). congruence.
  Qed.
End FKinds.

Lemma FInv_init m th progs : FInv (gl (init m th progs)) (thr (init m th progs)).
Proof.
  assert (Q : forall u, pcof (map (fun p => Loc p Idle [] []) progs) u = Idle).
  { intros u. unfold pcof, locof. rewrite nth_error_map. destruct (nth_error progs u); reflexivity. }
  unfold init; cbn [gl thr]. constructor; cbn; intros; rewrite ?Q in *; cbn in *; try discriminate; try lia; try tauto; auto.
Qed.

Ltac fside :=
  hsimp; unfold after_drain, body_done; unfold cont;
  first [ reflexivity | eassumption
        | solve [destruct_goal_matches; cbn;
                 first [ reflexivity | intros; first [discriminate | left; assumption | right; congruence] ] ] ].

Lemma FInv_step g ls t c l g' l' es :
  Inv1 g ls -> SInv g ls -> FInv g ls -> nth_error ls t = Some l -> tstep t c g l = Some (g', l', es) ->
  FInv g' (upd ls t l').
Proof.
  intros H1 HS HF Hl Hs. destruct l as [pr p hd fu].
  step_cases Hs.
  all: try solve [eapply (FK_none _ _ _ _ _ _ HF Hl); fside].
  all: try solve [eapply (FK_new _ _ _ _ _ _ HS HF Hl); fside].
  all: try solve [eapply (FK_call _ _ _ _ _ _ H1 HS HF Hl); fside].
  all: try solve [eapply (FK_throw _ _ _ _ _ _ H1 HS HF Hl); fside].
  all: try solve [eapply (FK_wre _ _ _ _ _ _ H1 HS HF Hl); fside].
Qed.

(* ================================================================== *)
(* Layer 3b: the submit calls of one thread are sequential              *)
(* ================================================================== *)
Definition PInv (g : glob) : Prop :=
  forall f k, (f < k)%nat -> (k < ntasks g)%nat -> tsub (gh g) f = tsub (gh g) k ->
  exists r, tret (gh g) f = Some r /\ (r < tinv (gh g) k)%nat.

Lemma PK_none g g' : PInv g -> ntasks g' = ntasks g -> tsub (gh g') = tsub (gh g) -> tinv (gh g') = tinv (gh g) ->
  tret (gh g') = tret (gh g) -> PInv g'.
Proof. intros H E1 E2 E3 E4. unfold PInv. rewrite E1, E2, E3, E4. exact H. Qed.

Lemma PK_ret g g' tk : PInv g -> ntasks g' = ntasks g -> tsub (gh g') = tsub (gh g) -> tinv (gh g') = tinv (gh g) ->
  tret (gh g) tk = None -> tret (gh g') = fupd (tret (gh g)) tk (Some (clock (gh g))) -> PInv g'.
Proof.
  intros H E1 E2 E3 Hn E4. unfold PInv. rewrite E1, E2, E3, E4. intros f k Hfk Hk Hs.
  destruct (H f k Hfk Hk Hs) as [r [B1 B2]]. exists r. split; [|exact B2].
  rewrite fupd_ne; [exact B1|]. intros ->. congruence.
Qed.

Lemma PK_new g g' ls t l : SInv g ls -> PInv g -> nth_error ls t = Some l -> at_ l = Idle ->
  ntasks g' = S (ntasks g) -> tsub (gh g') = fupd (tsub (gh g)) (ntasks g) t ->
  tinv (gh g') = fupd (tinv (gh g)) (ntasks g) (clock (gh g)) -> tret (gh g') = fupd (tret (gh g)) (ntasks g) None -> PInv g'.
Proof.
  intros HS H Hl Hpc E1 E2 E3 E4. unfold PInv. rewrite E1, E2, E3, E4. intros f k Hfk Hk.
  destruct (Nat.eq_dec k (ntasks g)) as [->|Hne].
  - rewrite fupd_eq, fupd_ne by lia. intros Hs. rewrite fupd_eq, fupd_ne by lia.
    destruct (tret (gh g) f) as [r|] eqn:Er.
    + exists r. split; [reflexivity|]. apply (S1r _ _ HS f r Er).
    + exfalso. pose proof (S3 _ _ HS f Hfk Er) as C. rewrite Hs, (pcof_at _ _ _ Hl), Hpc in C. discriminate.
  - rewrite !fupd_ne by lia. intros Hs. apply H; auto. lia.
Qed.

Lemma PInv_step g ls t c l g' l' es :
  SInv g ls -> PInv g -> nth_error ls t = Some l -> tstep t c g l = Some (g', l', es) -> PInv g'.
Proof.
  intros HS HP Hl Hs. destruct l as [pr p hd fu].
  pose proof (S2 _ _ HS t) as A2. rewrite (pcof_at _ _ _ Hl) in A2. cbn [at_] in A2.
  step_cases Hs.
  all: try solve [eapply (PK_none _ _ HP); hsimp; reflexivity].
  all: try solve [eapply (PK_new _ _ _ _ _ HS HP Hl); hsimp; reflexivity].
  all: try solve [eapply (PK_ret _ _ _ HP); hsimp; try reflexivity; apply (A2 _ eq_refl)].
Qed.

(* ================================================================== *)
(* The invariant of reachable states                                    *)
(* ================================================================== *)
Record Inv (g : glob) (ls : list loc) : Prop := {
  I_1 : Inv1 g ls; I_W : WInv g ls; I_S : SInv g ls; I_P : PInv (g); I_F : FInv g ls
}.

Lemma Inv_init m th progs : Inv (gl (init m th progs)) (thr (init m th progs)).
Proof.
  constructor; [apply Inv1_init|apply WInv_init|apply SInv_init| |apply FInv_init].
  intros f k _ Hk. cbn in Hk. lia.
Qed.

Lemma Inv_step g ls t c l g' l' es :
  Inv g ls -> nth_error ls t = Some l -> tstep t c g l = Some (g', l', es) -> Inv g' (upd ls t l').
Proof.
  intros [H1 HW HS HP HF] Hl Hs. constructor.
  - eapply Inv1_step; eauto.
  - eapply WInv_step; eauto.
  - eapply SInv_step; eauto.
  - eapply PInv_step; eauto.
  - eapply FInv_step; eauto.
Qed.

Definition R (m : Z) (th : list Z) (progs : list (list op)) (s : sysD) : Prop :=
  reachable glob loc tstep (init m th progs) s.

Lemma R_inv m th progs s : R m th progs s -> Inv (gl s) (thr s).
Proof. intros H. eapply reachable_inv; [apply Inv_step|apply Inv_init|exact H]. Qed.

(* ================================================================== *)
(* C06: exactly once, exclusively, in order, not stranded, futures      *)
(* ================================================================== *)
Section Theorems.
  Variables (m : Z) (th : list Z) (progs : list (list op)).
  Notation RR := (R m th progs).

  (* a submitted functor is invoked at most once *)
  Lemma exactly_once_le s tk : RR s -> (tcount (gh (gl s)) tk <= 1)%nat.
  Proof. intros HR. rewrite (S9 _ _ (I_S _ _ (R_inv _ _ _ _ HR))). destruct (texec (gh (gl s)) tk); lia. Qed.

  (* ... and exactly once as soon as no submit call is in progress, the queue is empty and no drain is under way *)
  Lemma exactly_once_drained s : RR s ->
    (forall u, ctask (pcof (thr s) u) = None) -> (forall u, lpend (pcof (thr s) u) = []) -> queue (gl s) = [] ->
    forall tk, (tk < ntasks (gl s))%nat -> tcount (gh (gl s)) tk = 1%nat /\ texec (gh (gl s)) tk <> None.
  Proof.
    intros HR Hc Hlp Hq tk Hk. pose proof (I_S _ _ (R_inv _ _ _ _ HR)) as HS.
    assert (texec (gh (gl s)) tk <> None) as He.
    { destruct (tret (gh (gl s)) tk) as [r|] eqn:Er.
      - destruct (S1r _ _ HS tk r Er) as [_ [B|[p [B1 B2]]]]; [exact B|].
        intros He. destruct (S6 _ _ HS tk) as [B|[u B]]; [congruence|exact He| |].
        + rewrite Hq in B. destruct B.
        + rewrite Hlp in B. destruct B.
      - pose proof (S3 _ _ HS tk Hk Er) as C. rewrite Hc in C. discriminate. }
    split; [|exact He]. rewrite (S9 _ _ HS). destruct (texec (gh (gl s)) tk); congruence.
  Qed.
  Lemma exactly_once_finished s : RR s -> (forall u, pcof (thr s) u = Idle) -> queue (gl s) = [] ->
    forall tk, (tk < ntasks (gl s))%nat -> tcount (gh (gl s)) tk = 1%nat.
  Proof.
    intros HR Hi Hq tk Hk. apply (exactly_once_drained s HR); auto; intros u; rewrite Hi; reflexivity.
  Qed.

  (* a running functor - on the direct path or out of the queue - owns the outer mutex exclusively:
     no shared lock is held by anybody, nobody else runs a functor, no other payload window is open *)
  Lemma running_exclusive s t : RR s -> inbody (pcof (thr s) t) = true ->
    owner (gl s) = Some t /\
    (forall u, shl (locof (thr s) u) = O) /\
    (forall u, inbody (pcof (thr s) u) = true -> u = t) /\
    (forall u, u <> t -> rdopen (pcof (thr s) u) = false /\ wropen (pcof (thr s) u) = false).
  Proof.
    intros HR Hb. pose proof (R_inv _ _ _ _ HR) as [H1 HW HS HP HF].
    pose proof (inbody_holdsX _ Hb) as Hx. pose proof (excl_facts _ _ _ H1 Hx) as E.
    split; [apply (X1 _ _ (I1X _ _ H1) t Hx)|]. split; [intros u; apply E|]. split.
    - intros u Hu. apply E. apply inbody_holdsX. exact Hu.
    - intros u Hne. destruct (E u) as [E1 E2]. split.
      + destruct (rdopen (pcof (thr s) u)) eqn:Er; [exfalso|reflexivity].
        destruct (rd_holds _ u (I1H _ _ H1) Er) as [C|C]; [auto|lia].
      + destruct (wropen (pcof (thr s) u)) eqn:Ew; [exfalso|reflexivity]. apply wropen_holdsX in Ew. auto.
  Qed.

  (* real-time order: if f's submit call returned before k's began, f is invoked before k *)
  Lemma order_real_time s f k r e' : RR s ->
    tret (gh (gl s)) f = Some r -> (r < tinv (gh (gl s)) k)%nat -> (k < ntasks (gl s))%nat ->
    texec (gh (gl s)) k = Some e' -> exists e, texec (gh (gl s)) f = Some e /\ (e < e')%nat.
  Proof. intros HR. apply (S10 _ _ (I_S _ _ (R_inv _ _ _ _ HR))). Qed.
  (* per-submitter order: two submissions of one thread are invoked in submission order *)
  Lemma order_same_thread s f k e' : RR s ->
    (f < k)%nat -> (k < ntasks (gl s))%nat -> tsub (gh (gl s)) f = tsub (gh (gl s)) k ->
    texec (gh (gl s)) k = Some e' -> exists e, texec (gh (gl s)) f = Some e /\ (e < e')%nat.
  Proof.
    intros HR Hfk Hk Hs He. pose proof (R_inv _ _ _ _ HR) as [H1 HW HS HP HF].
    destruct (HP f k Hfk Hk Hs) as [r [B1 B2]]. eapply (S10 _ _ HS); eauto.
  Qed.

  (* the flag / queue protocol: a queued task is announced by the flag unless its submitter is still between
     its push and its flag store, or a drainer is between clearing the flag and swapping the queue out *)
  Lemma not_stranded s : RR s ->
    (forall u, cphase (pcof (thr s) u) <> PhPushed) -> (forall u, clr (pcof (thr s) u) = false) ->
    queue (gl s) <> [] -> flag (gl s) = true.
  Proof.
    intros HR Hph Hcl Hq. pose proof (I_S _ _ (R_inv _ _ _ _ HR)) as HS.
    destruct (queue (gl s)) as [|x q] eqn:Eq; [congruence|].
    assert (In x (queue (gl s))) as Hin by (rewrite Eq; left; reflexivity).
    destruct (S7 _ _ HS x Hin) as [B|[B|[u B]]]; [exfalso|exact B|rewrite Hcl in B; discriminate].
    destruct (S4 _ _ HS (tsub (gh (gl s)) x) x) as (C1 & C2 & C3); [apply in_or_app; right; exact Hin|].
    pose proof (S3 _ _ HS x C1 B) as D. destruct (S2 _ _ HS _ _ D) as (_ & _ & _ & D4).
    specialize (Hph (tsub (gh (gl s)) x)). destruct (cphase (pcof (thr s) (tsub (gh (gl s)) x))); tauto.
  Qed.

  (* futures: the cell of a task is set at most once; once the functor is over it holds the result or the exception *)
  Lemma future_set_once s tk : RR s -> (tfsets (gh (gl s)) tk <= 1)%nat /\
    (tfsets (gh (gl s)) tk = O <-> tfut (gl s) tk = FPending).
  Proof.
    intros HR. pose proof (R_inv _ _ _ _ HR) as [H1 HW HS HP HF].
    destruct (texec (gh (gl s)) tk) as [e|] eqn:Ee.
    - destruct (F3 _ _ HF tk) as [[B1 B2]|[u B]]; [congruence| |].
      + split; [lia|]. split; [lia|]. destruct B2 as [B2|B2]; rewrite B2; discriminate.
      + destruct (F2 _ _ HF u tk B) as (_ & C2 & C3 & _). split; [lia|]. tauto.
    - destruct (F1 _ _ HF tk Ee) as [B1 B2]. split; [lia|tauto].
  Qed.
  Lemma future_result s tk : RR s -> texec (gh (gl s)) tk <> None -> (forall u, rtask (pcof (thr s) u) <> Some tk) ->
    tfsets (gh (gl s)) tk = 1%nat /\
    (tfut (gl s) tk = FExn \/ tfut (gl s) tk = FVal (apply_f (tfid (gl s) tk) (tpre (gh (gl s)) tk))).
  Proof.
    intros HR He Hr. pose proof (R_inv _ _ _ _ HR) as [H1 HW HS HP HF].
    destruct (F3 _ _ HF tk He) as [B|[u B]]; [exact B|]. exfalso. apply (Hr u B).
  Qed.
  Lemma future_pending_unexecuted s tk : RR s -> texec (gh (gl s)) tk = None -> tfut (gl s) tk = FPending.
  Proof. intros HR He. apply (F1 _ _ (I_F _ _ (R_inv _ _ _ _ HR)) tk He). Qed.
  (* the payload is the log of the functors that completed, in order of completion *)
  Lemma payload_is_log s : RR s -> pay (gl s) = enc (tfid (gl s)) (donelog (gh (gl s))).
  Proof. intros HR. apply (F5 _ _ (I_F _ _ (R_inv _ _ _ _ HR))). Qed.

  (* ---------- C07 / C15: windows ---------- *)
  Lemma windows_disjoint s u v : RR s -> u <> v -> wropen (pcof (thr s) u) = true ->
    rdopen (pcof (thr s) v) = false /\ wropen (pcof (thr s) v) = false.
  Proof.
    intros HR Hne Hw. assert (inbody (pcof (thr s) u) = true) as Hb by (destruct (pcof (thr s) u); try discriminate; reflexivity).
    destruct (running_exclusive s u HR Hb) as (_ & _ & _ & E). apply E. auto.
  Qed.
  Lemma no_fault s : RR s -> faulted (gl s) = false.
  Proof. intros HR. apply (W4 _ _ (I_W _ _ (R_inv _ _ _ _ HR))). Qed.
  Lemma reader_sees_clean s t : RR s -> rdopen (pcof (thr s) t) = true -> dirty (gl s) = false /\
    forall u, wropen (pcof (thr s) u) = false.
  Proof.
    intros HR Hr. pose proof (R_inv _ _ _ _ HR) as [H1 HW HS HP HF].
    assert (forall u, wropen (pcof (thr s) u) = false) as Hn.
    { intros u. destruct (wropen (pcof (thr s) u)) eqn:Ew; [exfalso|reflexivity].
      destruct (Nat.eq_dec u t) as [->|Hne]; [destruct (pcof (thr s) t); discriminate|].
      destruct (windows_disjoint s u t HR Hne Ew). congruence. }
    split; [|exact Hn]. destruct (dirty (gl s)) eqn:D; [|reflexivity].
    destruct (W3 _ _ HW D) as [a Ha]. rewrite Hn in Ha. discriminate.
  Qed.

  (* ---------- C02: readers / writers ---------- *)
  (* while a shared handle (a client's, or the one inside load) is alive, nobody is inside an exclusive section *)
  Lemma rw_exclusion s t : RR s -> (1 <= shl (locof (thr s) t))%nat -> forall u, holdsX (pcof (thr s) u) = false.
  Proof.
    intros HR Hs u. pose proof (R_inv _ _ _ _ HR) as [H1 HW HS HP HF].
    destruct (holdsX (pcof (thr s) u)) eqn:Hx; [exfalso|reflexivity].
    destruct (excl_facts _ _ _ H1 Hx t) as [E _]. lia.
  Qed.
End Theorems.

Section StepTheorems.
  Variables (m : Z) (th : list Z) (progs : list (list op)).
  Notation RR := (R m th progs).

  (* ---------- C02 ---------- *)
  (* ... and no step of any thread enters an exclusive section: no modification can start *)
  Lemma no_exclusive_starts s t u c l g' l' es : RR s -> (1 <= shl (locof (thr s) t))%nat ->
    nth_error (thr s) u = Some l -> tstep u c (gl s) l = Some (g', l', es) -> holdsX (at_ l') = false.
  Proof.
    intros HR Hs Hl Hst. pose proof (rw_exclusion m th progs s t HR Hs u) as Hxu. rewrite (pcof_at _ _ _ Hl) in Hxu.
    pose proof (R_inv _ _ _ _ HR) as [H1 HW HS HP HF]. pose proof (I1X _ _ H1) as HX.
    assert (free_x (gl s) = false) as Hfx.
    { destruct (free_x (gl s)) eqn:E; [exfalso|reflexivity]. apply free_x_true in E as [E1 E2].
      destruct (shcap (gl s)) eqn:Hc.
      - specialize (E2 eq_refl). rewrite (X3 _ _ HX Hc) in E2. pose proof (sum_term_le shl (thr s) t eq_refl). lia.
      - destruct (X5 _ _ HX Hc t Hs) as [C _]. congruence. }
    destruct l as [pr p hd fu]. cbn [at_] in Hxu.
    step_cases Hst; cbn [at_]; try reflexivity; try discriminate; try congruence.
  Qed.

  (* with a shared-capable mutex a shared acquisition is enabled whenever there is no exclusive owner,
     however many other sharers there are *)
  Lemma readers_share (g : glob) t c l a : shcap g = true -> owner g = None -> at_ l = S_acq a ->
    exists r, tstep t c g l = Some r.
  Proof.
    intros Hc Ho Hp. unfold tstep, tstep0. rewrite Hp. unfold acq_shared, free_s. rewrite Hc, Ho.
    destruct a; cbn; eexists; reflexivity.
  Qed.

  (* ---------- C15: load ---------- *)
  Lemma load_in_shared_section (l : loc) : holdsS (at_ l) = true -> (1 <= shl l)%nat.
  Proof. unfold shl. intros ->. lia. Qed.
  Lemma load_atomic s t l : RR s -> nth_error (thr s) t = Some l -> at_ l = L_rde ->
    (1 <= shl l)%nat /\ dirty (gl s) = false /\ (forall u, wropen (pcof (thr s) u) = false) /\
    (forall u, holdsX (pcof (thr s) u) = false) /\
    pay (gl s) = enc (tfid (gl s)) (donelog (gh (gl s))) /\
    forall c, exists g' l', tstep t c (gl s) l = Some (g', l', [E K_RD_END O_PAY (pay (gl s))]) /\ at_ l' = L_unlock (pay (gl s)).
  Proof.
    intros HR Hl Hp. assert (1 <= shl l)%nat as Hs by (apply load_in_shared_section; rewrite Hp; reflexivity).
    assert (rdopen (pcof (thr s) t) = true) as Hr by (rewrite (pcof_at _ _ _ Hl), Hp; reflexivity).
    destruct (reader_sees_clean m th progs s t HR Hr) as [D W].
    split; [exact Hs|]. split; [exact D|]. split; [exact W|]. split.
    - apply (rw_exclusion m th progs s t HR). rewrite (locof_at _ _ _ Hl). exact Hs.
    - split; [apply (payload_is_log m th progs s HR)|]. intros c. unfold tstep, tstep0, rd_end, fault_if. rewrite Hp, D. cbn.
      eexists; eexists; split; reflexivity.
  Qed.
  Lemma load_returns_read_value (g : glob) t c l v : at_ l = L_unlock v ->
    exists g' l' e0, tstep t c g l = Some (g', l', [e0; ret v]) /\ at_ l' = Idle.
  Proof.
    intros Hp. unfold tstep, tstep0, rel_shared. rewrite Hp.
    destruct (shcap g); cbn; (eexists; eexists; eexists; split; reflexivity).
  Qed.

  (* ---------- C20: exceptions ---------- *)
  (* direct path of modify_detach: the exception leaves the functor, the unique_lock is released during
     unwinding and the exception reaches the caller *)
  Lemma exn_direct_propagates (g : glob) t c l tk : at_ l = F_call (BD tk) -> tasync g tk = false ->
    existsb (Z.eqb (calls g)) (throws g) = true ->
    exists g' l', tstep t c g l = Some (g', l', [E K_CALL 0 (tfid g tk); E K_THROW 0 (calls g)]) /\
                  at_ l' = M_unlock tk true /\ tfut g' tk = FExn.
  Proof.
    intros Hp Ha Ht. unfold tstep, tstep0. rewrite Hp. cbn [btask]. rewrite Ht. unfold body_done. rewrite Ha. cbn.
    eexists; eexists; split; [reflexivity|]. split; [reflexivity|]. apply fupd_eq.
  Qed.
  Lemma exn_direct_unlocks (g : glob) t c l tk : at_ l = M_unlock tk true ->
    exists g' l', tstep t c g l = Some (g', l', [E K_UNLOCK O_MTX 0; E K_CATCH 0 0]) /\ at_ l' = Idle /\ owner g' = None.
  Proof. intros Hp. unfold tstep, tstep0. rewrite Hp. cbn. eexists; eexists; split; [reflexivity|]. split; reflexivity. Qed.
  (* modify_async on the direct path, and every queued task: the exception is stored in the future, the call /
     the drain goes on (next: release the task's mutex, then the next task of the local list) *)
  Lemma exn_captured (g : glob) t c l b : at_ l = F_call b ->
    (match b with BD tk => tasync g tk = true | BQ _ _ _ => True end) ->
    existsb (Z.eqb (calls g)) (throws g) = true ->
    exists g' l', tstep t c g l = Some (g', l', [E K_CALL 0 (tfid g (btask b)); E K_THROW 0 (calls g)]) /\
                  tfut g' (btask b) = FExn /\
                  at_ l' = match b with BD tk => M_unlock tk false | BQ c0 tk r => T_unlock c0 tk r end.
  Proof.
    intros Hp Ha Ht. unfold tstep, tstep0. rewrite Hp, Ht. unfold body_done.
    destruct b as [tk|c0 tk r]; cbn [btask]; [rewrite Ha|]; cbn;
      (eexists; eexists; split; [reflexivity|]; split; [apply fupd_eq|reflexivity]).
  Qed.
  Lemma drain_continues (g : glob) t c l c0 tk r : at_ l = T_unlock c0 tk r ->
    exists g' l', tstep t c g l = Some (g', l', [E K_UNLOCK (O_TASK tk) 0]) /\ at_ l' = after_drain c0 r /\ tmtx g' tk = None.
  Proof.
    intros Hp. unfold tstep, tstep0. rewrite Hp. cbn. eexists; eexists; split; [reflexivity|]. split; [reflexivity|apply fupd_eq].
  Qed.
  (* a thread at top level owns no mutex of the library, except through a client handle on a plain mutex *)
  Lemma idle_holds_nothing s t : RR s -> pcof (thr s) t = Idle ->
    lmtx (gl s) <> Some t /\ (forall k, tmtx (gl s) k <> Some t) /\
    (owner (gl s) = Some t -> shcap (gl s) = false /\ nown (hand (locof (thr s) t)) = 1%nat).
  Proof.
    intros HR Hp. pose proof (R_inv _ _ _ _ HR) as [[HX HL HT HH] HW HS HP HF]. split; [|split].
    - intros E. pose proof (L2 _ _ HL t E) as C. rewrite Hp in C. discriminate.
    - intros k E. pose proof (T2 _ _ HT k t E) as C. rewrite Hp in C. discriminate.
    - intros E. destruct (X2 _ _ HX t E) as [C|[C1 C2]]; [rewrite Hp in C; discriminate|].
      split; [exact C1|]. unfold shl in C2. unfold pcof in Hp. rewrite Hp in C2. cbn in C2. lia.
  Qed.

  (* ---------- C07: every atomic operation of the model is seq_cst (and only atomics carry an order) ---------- *)
  Definition is_atomic_kind (k : Z) : bool := (2 <=? k) && (k <=? 7).
  Lemma all_atomics_seq_cst t c (g : glob) l g' l' es : tstep t c g l = Some (g', l', es) ->
    forall e, In e es -> emo e = (if is_atomic_kind (ek e) then MO_SEQ_CST else MO_NA) /\
                         (is_atomic_kind (ek e) = true -> eo e = O_FLAG).
  Proof.
    intros Hs e Hin. destruct l as [pr p hd fu].
    step_cases Hs; unfold fault_if in Hin;
      repeat match type of Hin with context [if ?b then _ else _] => destruct b end;
      repeat (cbn in Hin; try rewrite in_app_iff in Hin;
              match type of Hin with
              | _ \/ _ => destruct Hin as [Hin|Hin]
              | False => destruct Hin
              | _ = e => subst e; cbn; split; [reflexivity|intros; try reflexivity; try discriminate]
              end).
  Qed.
End StepTheorems.

(* ================================================================== *)
(* Progress: try-locks never block, lock holders can move, quiescent states *)
(* ================================================================== *)
Notation quiescentD := (quiescent glob loc tstep).

Definition always_on (p : pc) : bool :=
  match p with Idle | Q_lockt _ | Q_lockl _ | DI_lockl _ | T_lock _ _ _ | S_acq _ => false | _ => true end.

Lemma always_on_step t c g l : always_on (at_ l) = true -> exists r, tstep t c g l = Some r.
Proof.
  destruct l as [pr p hd fu]. cbn [at_]. intros H.
  destruct p; try discriminate; unfold tstep, tstep0, rd_begin, rd_end, wr_begin, wr_end, rel_shared; cbn [at_ prog hand futs];
    repeat match goal with |- context [if ?b then _ else _] => destruct b end; eexists; reflexivity.
Qed.

(* every try-lock of the library returns at once: these steps are never disabled *)
Lemma trylock_never_blocks t c g l :
  (match at_ l with M_try _ | P_try _ | S_acq (AcTry _) => True | _ => False end) -> exists r, tstep t c g l = Some r.
Proof.
  destruct l as [pr p hd fu]. cbn [at_]. destruct p; try contradiction; [intros _; apply always_on_step; reflexivity..|].
  destruct a; try contradiction. intros _. unfold tstep, tstep0, acq_shared. cbn [at_].
  destruct (shcap g); eexists; reflexivity.
Qed.
(* a timed shared try-lock returns at the latest when its time is up (choice 2) *)
Lemma timed_gives_up t g l h : at_ l = S_acq (AcFor h) -> exists r, tstep t 2 g l = Some r.
Proof.
  intros Hp. unfold tstep, tstep0, acq_shared. rewrite Hp. cbn [Nat.eqb]. rewrite !orb_true_r. destruct (shcap g); eexists; reflexivity.
Qed.

Lemma pc_has_loc ls u : pcof ls u <> Idle -> exists l, nth_error ls u = Some l /\ at_ l = pcof ls u.
Proof.
  unfold pcof, locof. destruct (nth_error ls u) as [l|]; [eexists; split; eauto|]. cbn. congruence.
Qed.
Lemma always_on_enabled (s : sysD) u c : always_on (pcof (thr s) u) = true -> enabledD s u c.
Proof.
  intros H. destruct (pc_has_loc (thr s) u) as [l [Hl Hp]]; [intros E; rewrite E in H; discriminate|].
  rewrite <- Hp in H. destruct (always_on_step u c (gl s) l H) as [r Hr]. exists l, r. auto.
Qed.

Section Progress.
  Variables (m : Z) (th : list Z) (progs : list (list op)).
  Notation RR := (R m th progs).

  Lemma list_holder_moves s a c : RR s -> lmtx (gl s) = Some a -> enabledD s a c.
  Proof.
    intros HR E. pose proof (L2 _ _ (I1L _ _ (I_1 _ _ (R_inv _ _ _ _ HR))) a E) as H.
    apply always_on_enabled. destruct (pcof (thr s) a); try discriminate; reflexivity.
  Qed.
  Lemma task_holder_moves s k a c : RR s -> tmtx (gl s) k = Some a -> enabledD s a c.
  Proof.
    intros HR E. pose proof (T2 _ _ (I1T _ _ (I_1 _ _ (R_inv _ _ _ _ HR))) k a E) as H.
    apply always_on_enabled. destruct (pcof (thr s) a); try discriminate; reflexivity.
  Qed.
  (* a thread inside an exclusive section moves, or waits for an inner mutex whose holder moves *)
  Lemma exclusive_section_progress s u : RR s -> holdsX (pcof (thr s) u) = true -> exists b, enabledD s b 0.
  Proof.
    intros HR Hx. destruct (always_on (pcof (thr s) u)) eqn:Ea; [exists u; apply always_on_enabled; exact Ea|].
    destruct (pc_has_loc (thr s) u) as [l [Hl Hp]]; [intros E; rewrite E in Hx; discriminate|].
    destruct (pcof (thr s) u) eqn:Epc; try discriminate.
    - destruct (lmtx (gl s)) as [b|] eqn:Em; [exists b; eapply list_holder_moves; eauto|].
      exists u, l. unfold tstep, tstep0. rewrite Hp, Em. eexists; split; [exact Hl|reflexivity].
    - destruct (tmtx (gl s) tk) as [b|] eqn:Em; [exists b; eapply task_holder_moves; eauto|].
      exists u, l. unfold tstep, tstep0. rewrite Hp, Em. eexists; split; [exact Hl|reflexivity].
  Qed.

  (* when nothing can move (spurious wake-ups do not exist in this component): every thread has finished, or
     waits - with a plain mutex - for the blocking shared acquisition behind a client handle that is still alive *)
  Lemma quiescent_shape s t l : RR s -> quiescentD s -> nth_error (thr s) t = Some l ->
    fin l = true \/
    (exists a, at_ l = S_acq a /\ shcap (gl s) = false /\
               exists u, owner (gl s) = Some u /\ holdsX (pcof (thr s) u) = false /\ nown (hand (locof (thr s) u)) = 1%nat).
  Proof.
    intros HR HQ Hl. pose proof (R_inv _ _ _ _ HR) as [[HX HL HT HH] HW HS HP HF].
    assert (Hno : forall b, ~ enabledD s b 0) by (intros b; apply HQ; lia).
    assert (D0 : tstep t 0 (gl s) l = None).
    { destruct (tstep t 0 (gl s) l) as [r|] eqn:E; [|reflexivity]. exfalso. apply (Hno t). exists l, r. auto. }
    assert (D2 : tstep t 2 (gl s) l = None).
    { destruct (tstep t 2 (gl s) l) as [r|] eqn:E; [|reflexivity]. exfalso. apply (HQ t 2%nat); [lia|]. exists l, r. auto. }
    destruct (always_on (at_ l)) eqn:Ea.
    { destruct (always_on_step t 0 (gl s) l Ea) as [r Hr]. congruence. }
    destruct l as [pr p hd fu]. cbn [at_] in *. destruct p; try discriminate.
    - (* Idle *) destruct pr; [left; reflexivity|]. unfold tstep, tstep0 in D0. cbn in D0.
      destruct (start_op t (gl s) _ o) as [[? ?] ?]. discriminate.
    - (* Q_lockt *) exfalso. unfold tstep, tstep0 in D0. cbn in D0. destruct (tmtx (gl s) tk) as [b|] eqn:E; [|discriminate].
      apply (Hno b). eapply task_holder_moves; eauto.
    - (* Q_lockl *) exfalso. unfold tstep, tstep0 in D0. cbn in D0. destruct (lmtx (gl s)) as [b|] eqn:E; [|discriminate].
      apply (Hno b). eapply list_holder_moves; eauto.
    - (* DI_lockl *) exfalso. unfold tstep, tstep0 in D0. cbn in D0. destruct (lmtx (gl s)) as [b|] eqn:E; [|discriminate].
      apply (Hno b). eapply list_holder_moves; eauto.
    - (* T_lock *) exfalso. unfold tstep, tstep0 in D0. cbn in D0. destruct (tmtx (gl s) tk) as [b|] eqn:E; [|discriminate].
      apply (Hno b). eapply task_holder_moves; eauto.
    - (* S_acq *)
      assert (Hown : exists u, owner (gl s) = Some u).
      { unfold tstep, tstep0, acq_shared, free_x, free_s in D0. cbn [at_] in D0.
        destruct (owner (gl s)) as [u|]; [eauto|exfalso].
        destruct (shcap (gl s)); destruct a; cbn in D0; discriminate. }
      destruct Hown as [u Hu].
      destruct (X2 _ _ HX u Hu) as [C|[C1 C2]].
      + exfalso. destruct (exclusive_section_progress s u HR C) as [b Hb]. apply (Hno b Hb).
      + right. exists a. split; [reflexivity|]. split; [exact C1|]. exists u. split; [exact Hu|].
        destruct (X5 _ _ HX C1 u) as (_ & C3 & _); [lia|]. split; [exact C3|].
        unfold shl in C2. destruct (holdsS (at_ (locof (thr s) u))) eqn:Ehs; [exfalso|lia].
        apply (Hno u). apply always_on_enabled. unfold pcof. destruct (at_ (locof (thr s) u)); try discriminate; reflexivity.
  Qed.

  (* hence: with a shared-capable mutex a quiescent state is a finished one, whatever the clients do with their handles ... *)
  Lemma no_deadlock_shared s : RR s -> quiescentD s -> shcap (gl s) = true -> all_fin glob loc fin s = true.
  Proof.
    intros HR HQ Hc. unfold all_fin. apply forallb_forall. intros l Hin. apply In_nth_error in Hin as [t Hl].
    destruct (quiescent_shape s t l HR HQ Hl) as [H|[a [_ [C _]]]]; [exact H|congruence].
  Qed.
  (* ... and with any mutex, programs whose handles have all been released have finished *)
  Lemma no_deadlock_released s : RR s -> quiescentD s -> (forall u, nown (hand (locof (thr s) u)) = O) ->
    all_fin glob loc fin s = true.
  Proof.
    intros HR HQ Hn. unfold all_fin. apply forallb_forall. intros l Hin. apply In_nth_error in Hin as [t Hl].
    destruct (quiescent_shape s t l HR HQ Hl) as [H|[a [_ [_ [u [_ [_ C]]]]]]]; [exact H|]. rewrite Hn in C. discriminate.
  Qed.
End Progress.

(* ================================================================== *)
(* C06: the next access made while nothing else is going on drains the queue *)
(* ================================================================== *)
(* no call in progress and no handle alive *)
Definition quiet (s : sysD) : Prop := forall u, pcof (thr s) u = Idle /\ nown (hand (locof (thr s) u)) = O.
Definition solo (t : nat) (cs : list nat) : list (nat * nat) := map (fun c => (t, c)) cs.
(* the pcs of a lock_shared / try_lock_shared* / load / modify_* call after its check of the flag and its swap *)
Definition postq (p : pc) : bool :=
  match p with
  | S_acq _ | P_unlock _ | DI_unlockl _ _ | T_lock _ _ _ | F_call _ | F_rdb _ | F_rde _ | F_wrb _ _ | F_wre _ _
  | T_unlock _ _ _ | M_unlock _ _ => true
  | _ => false
  end.
(* access is granted by the next step: the shared acquisition, or the caller's own functor on the direct path *)
Definition granted (p : pc) : bool := match p with S_acq _ | F_call (BD _) => true | _ => false end.

Definition KS (t : nat) (s : sysD) : Prop :=
  (forall u, u <> t -> pcof (thr s) u = Idle /\ nown (hand (locof (thr s) u)) = O) /\
  (nown (hand (locof (thr s) t)) = O -> postq (pcof (thr s) t) = true -> queue (gl s) = []).

Section Solo.
  Variables (g : glob) (ls : list loc) (t : nat) (l : loc).
  Hypothesis HI : Inv g ls.
  Hypothesis Hoth : forall u, u <> t -> pcof ls u = Idle /\ nown (hand (locof ls u)) = O.
  Hypothesis Hl : nth_error ls t = Some l.

  Lemma solo_free : nown (hand l) = O -> holdsX (at_ l) = false -> holdsS (at_ l) = false -> free_x g = true.
  Proof.
    intros Hn Hx Hs. destruct HI as [[HX _ _ _] _ _ _ _].
    assert (Z : forall u, shl (locof ls u) = O /\ holdsX (pcof ls u) = false).
    { intros u. destruct (Nat.eq_dec u t) as [->|Hne].
      - rewrite (locof_at _ _ _ Hl), (pcof_at _ _ _ Hl). unfold shl. rewrite Hn, Hs, Hx. auto.
      - destruct (Hoth u Hne) as [E1 E2]. unfold shl. rewrite E2. unfold pcof in E1. rewrite E1. cbn. unfold pcof. rewrite E1. auto. }
    unfold free_x. destruct (owner g) as [a|] eqn:Eo.
    - exfalso. destruct (Z a) as [Z1 Z2]. destruct (X2 _ _ HX a Eo) as [C|[_ C]]; [congruence|lia].
    - destruct (shcap g) eqn:Hc; [|reflexivity]. rewrite (X3 _ _ HX Hc). apply Nat.eqb_eq. apply sum_all_zero. intros u. apply Z.
  Qed.

  Lemma solo_flag : clr (at_ l) = false -> cphase (at_ l) <> PhPushed -> flag g = false -> queue g = [].
  Proof.
    intros Hc Hph Hf. destruct HI as [_ _ HS _ _]. destruct (queue g) as [|x q] eqn:Eq; [reflexivity|exfalso].
    assert (In x (queue g)) as Hin by (rewrite Eq; left; reflexivity).
    assert (Pc : forall u, clr (pcof ls u) = false /\ (forall y, ctask (pcof ls u) = Some y -> u = t)).
    { intros u. destruct (Nat.eq_dec u t) as [->|Hne]; [rewrite (pcof_at _ _ _ Hl); auto|].
      destruct (Hoth u Hne) as [E _]. rewrite E. split; [reflexivity|discriminate]. }
    destruct (S7 _ _ HS x Hin) as [B|[B|[u B]]]; [|congruence|rewrite (proj1 (Pc u)) in B; discriminate].
    destruct (S4 _ _ HS t x) as (C1 & C2 & C3); [apply in_or_app; right; exact Hin|].
    pose proof (S3 _ _ HS x C1 B) as D. pose proof (proj2 (Pc _) _ D) as E. rewrite E in D.
    destruct (S2 _ _ HS t x D) as (_ & _ & _ & D4). rewrite (pcof_at _ _ _ Hl) in D4.
    destruct (cphase (at_ l)); tauto.
  Qed.
End Solo.

Lemma KS_step t s c : Inv (gl s) (thr s) -> KS t s -> KS t (stepD s (t, c)).
Proof.
  intros HI [K1 K2]. unfold step, sys_step.
  destruct (nth_error (thr s) t) as [l|] eqn:Hl; [|split; assumption].
  destruct (tstep t c (gl s) l) as [[[g' l'] es]|] eqn:Hs; [|split; assumption].
  unfold KS. cbn [fst gl thr]. split.
  - intros u Hne. rewrite (pcof_upd _ _ _ _ _ Hl), (locof_upd _ _ _ _ _ Hl).
    destruct (Nat.eqb_spec u t); [congruence|]. apply K1. exact Hne.
  - rewrite (pcof_upd _ _ _ _ _ Hl), (locof_upd _ _ _ _ _ Hl), Nat.eqb_refl.
    rewrite (pcof_at _ _ _ Hl), (locof_at _ _ _ Hl) in K2.
    pose proof (solo_free _ _ _ _ HI K1 Hl) as Hfree. pose proof (solo_flag _ _ _ _ HI K1 Hl) as Hflag.
    destruct l as [pr p hd fu]. cbn [at_ hand] in *.
    step_cases Hs; gsimp; cbn [hand at_ nown postq]; intros Hn Hpq; try discriminate Hpq; try reflexivity;
      try (apply K2; [exact Hn|reflexivity]);
      try (apply Hflag; [reflexivity|cbn; discriminate|first [assumption|reflexivity]]);
      try (exfalso; assert (false = true) as Habs by (apply Hfree; [exact Hn|reflexivity|reflexivity]); discriminate Habs).
    all: unfold after_drain, body_done in *; unfold cont in *.
    all: repeat match goal with H : context [match ?x with _ => _ end] |- _ => destruct x end; try discriminate Hpq.
    all: try (apply K2; [exact Hn|reflexivity]).
    all: try (apply Hflag; [reflexivity|cbn; discriminate|first [assumption|reflexivity]]).
Qed.

Section NextAccess.
  Variables (m : Z) (th : list Z) (progs : list (list op)).
  Notation RR := (R m th progs).

  Lemma KS_run t cs : forall s, RR s -> KS t s -> RR (runD s (solo t cs)) /\ KS t (runD s (solo t cs)).
  Proof.
    induction cs as [|c cs IH]; intros s HR HK; cbn [solo map run fold_left]; [auto|].
    apply IH; [apply reachable_step; exact HR|]. apply KS_step; [apply (R_inv _ _ _ _ HR)|exact HK].
  Qed.

  (* from a state with no call in progress and no handle held, a call of thread t run alone reaches its access
     point (the shared acquisition, or its own functor) only with an empty queue and every other submitted
     functor already invoked *)
  Lemma next_access_drains s0 t cs : RR s0 -> quiet s0 ->
    let s := runD s0 (solo t cs) in
    nown (hand (locof (thr s) t)) = O -> postq (pcof (thr s) t) = true ->
    queue (gl s) = [] /\
    (granted (pcof (thr s) t) = true ->
     forall x, (x < ntasks (gl s))%nat -> ctask (pcof (thr s) t) <> Some x -> texec (gh (gl s)) x <> None).
  Proof.
    intros HR HQ s Hn Hpq.
    assert (KS t s0) as HK0. { split; [intros u _; apply HQ|]. intros _ H. rewrite (proj1 (HQ t)) in H. discriminate. }
    destruct (KS_run t cs s0 HR HK0) as [HRs [K1 K2]]. fold s in HRs, K1, K2.
    pose proof (K2 Hn Hpq) as Hq. split; [exact Hq|]. intros Hg x Hx Hown He.
    pose proof (I_S _ _ (R_inv _ _ _ _ HRs)) as HS.
    assert (Lp : forall u, lpend (pcof (thr s) u) = []).
    { intros u. destruct (Nat.eq_dec u t) as [->|Hne].
      - destruct (pcof (thr s) t); try discriminate; try reflexivity. destruct b; [reflexivity|discriminate].
      - rewrite (proj1 (K1 u Hne)). reflexivity. }
    destruct (tret (gh (gl s)) x) as [r|] eqn:Er.
    - destruct (S1r _ _ HS x r Er) as [_ [B|[p [B1 B2]]]]; [congruence|].
      destruct (S6 _ _ HS x) as [B|[u B]]; [congruence|exact He| |].
      + rewrite Hq in B. destruct B.
      + rewrite Lp in B. destruct B.
    - pose proof (S3 _ _ HS x Hx Er) as C. destruct (Nat.eq_dec (tsub (gh (gl s)) x) t) as [E|Hne].
      + rewrite E in C. congruence.
      + rewrite (proj1 (K1 _ Hne)) in C. discriminate.
  Qed.

  (* ... and on that way both try-locks of the outer mutex succeed: the call takes the drain / direct path *)
  Lemma solo_trylock_succeeds s0 t cs l : RR s0 -> quiet s0 ->
    let s := runD s0 (solo t cs) in
    nth_error (thr s) t = Some l -> nown (hand l) = O ->
    (match at_ l with M_try _ | P_try _ => True | _ => False end) -> free_x (gl s) = true.
  Proof.
    intros HR HQ s Hl Hn Hp.
    assert (KS t s0) as HK0. { split; [intros u _; apply HQ|]. intros _ H. rewrite (proj1 (HQ t)) in H. discriminate. }
    destruct (KS_run t cs s0 HR HK0) as [HRs [K1 K2]]. fold s in HRs, K1, K2.
    apply (solo_free _ _ _ _ (R_inv _ _ _ _ HRs) K1 Hl Hn); destruct (at_ l); try contradiction; reflexivity.
  Qed.
End NextAccess.

(* ================================================================== *)
(* Bounded work: every step decreases a measure (there is no retry loop in this component) *)
(* ================================================================== *)
Definition wS (a : acq) : nat := match a with AcLoad => 4%nat | _ => 1%nat end.
Definition wcont (c : ctx) : nat := match c with CDir _ => 6%nat | CPre a => S (wS a) end.
Definition wbody (b : bctx) : nat := match b with BD _ => O | BQ c _ r => (1 + 8 * length r + wcont c)%nat end.
Definition wpc (p : pc) : nat :=
  (match p with
   | Idle => 0
   | M_try _ => 14 | Q_lockt _ => 13 | Q_unlockt _ => 12 | Q_lockl _ => 11 | Q_unlockl _ => 2 | Q_store _ => 1
   | P_load a => 7 + wS a | P_try a => 6 + wS a
   | DI_load c => 4 + wcont c | DI_clear c => 3 + wcont c | DI_lockl c => 2 + wcont c
   | DI_unlockl c lp => 1 + 8 * length lp + wcont c
   | T_lock c _ r => 8 + 8 * length r + wcont c
   | F_call b => 6 + wbody b | F_rdb b => 5 + wbody b | F_rde b => 4 + wbody b
   | F_wrb b _ => 3 + wbody b | F_wre b _ => 2 + wbody b
   | T_unlock c _ r => 1 + 8 * length r + wcont c
   | M_unlock _ _ => 1
   | P_unlock a => 1 + wS a
   | S_acq a => wS a
   | L_rdb => 3 | L_rde => 2 | L_unlock _ => 1
   | H_rdb => 2 | H_rde => 1 | H_rel _ => 1
   end)%nat.
Definition wloc (l : loc) : nat := (15 * length (prog l) + wpc (at_ l))%nat.
Definition mu (s : sysD) : nat := (8 * length (queue (gl s)) + list_sum (map wloc (thr s)))%nat.

Lemma mu_dec s t c : enabledD s t c -> (mu (stepD s (t, c)) < mu s)%nat.
Proof.
  intros [l [r [Hl Hs]]]. destruct r as [[g' l'] es].
  unfold step, sys_step. rewrite Hl, Hs. cbn [fst]. unfold mu. cbn [gl thr].
  pose proof (sum_upd wloc (thr s) t l l' Hl) as Hsum.
  assert (8 * length (queue g') + wloc l' < 8 * length (queue (gl s)) + wloc l)%nat; [|lia].
  clear Hsum Hl. destruct l as [pr p hd fu]. unfold wloc.
  step_cases Hs; gsimp; cbn [length wpc wS wcont wbody]; rewrite ?app_length; cbn [length]; try lia.
  all: unfold after_drain, body_done; unfold cont; destruct_goal_matches; cbn [length wpc wS wcont wbody]; try lia.
Qed.

Lemma bounded_work m th progs s sc : R m th progs s -> (moves glob loc tstep s sc <= mu s)%nat.
Proof.
  intros HR.
  apply (moves_le_mu glob loc tstep mu (fun _ _ => True) (fun _ _ _ _ _ _ _ _ _ _ _ => I) (fun _ => true)); auto.
  - intros s0 t c _ _. apply mu_dec.
  - unfold sched_ok. apply forallb_forall. auto.
Qed.

(* ================================================================== *)
(* Lemmas exported for the multi-component properties (C02, C07, C15, C20) *)
(* ================================================================== *)
(* C02 *)
Lemma def_rw_exclusion m th progs s t : R m th progs s -> (1 <= shl (locof (thr s) t))%nat ->
  (forall u, holdsX (pcof (thr s) u) = false) /\
  (forall u c l g' l' es, nth_error (thr s) u = Some l -> tstep u c (gl s) l = Some (g', l', es) -> holdsX (at_ l') = false).
Proof.
  intros HR Hs. split; [apply (rw_exclusion m th progs s t HR Hs)|].
  intros u c l g' l' es. apply (no_exclusive_starts m th progs s t u c l g' l' es HR Hs).
Qed.
Lemma def_readers_share (g : glob) t c l a : shcap g = true -> owner g = None -> at_ l = S_acq a ->
  exists r, tstep t c g l = Some r.
Proof. apply readers_share. Qed.
(* C15 *)
Lemma def_load_atomic m th progs s t l : R m th progs s -> nth_error (thr s) t = Some l -> at_ l = L_rde ->
  (1 <= shl l)%nat /\ dirty (gl s) = false /\ (forall u, wropen (pcof (thr s) u) = false) /\
  (forall u, holdsX (pcof (thr s) u) = false) /\
  pay (gl s) = enc (tfid (gl s)) (donelog (gh (gl s))) /\
  forall c, exists g' l', tstep t c (gl s) l = Some (g', l', [E K_RD_END O_PAY (pay (gl s))]) /\ at_ l' = L_unlock (pay (gl s)).
Proof. apply load_atomic. Qed.
Lemma def_load_returns (g : glob) t c l v : at_ l = L_unlock v ->
  exists g' l' e0, tstep t c g l = Some (g', l', [e0; ret v]) /\ at_ l' = Idle.
Proof. apply load_returns_read_value. Qed.
(* C20 *)
Lemma def_exn_direct (g : glob) t c l tk : at_ l = F_call (BD tk) -> tasync g tk = false ->
  existsb (Z.eqb (calls g)) (throws g) = true ->
  exists g' l', tstep t c g l = Some (g', l', [E K_CALL 0 (tfid g tk); E K_THROW 0 (calls g)]) /\
                at_ l' = M_unlock tk true /\ tfut g' tk = FExn /\
  forall t2 c2 g2 l2, at_ l2 = M_unlock tk true ->
    exists g3 l3, tstep t2 c2 g2 l2 = Some (g3, l3, [E K_UNLOCK O_MTX 0; E K_CATCH 0 0]) /\ at_ l3 = Idle /\ owner g3 = None.
Proof.
  intros Hp Ha Ht. destruct (exn_direct_propagates g t c l tk Hp Ha Ht) as [g' [l' [B1 [B2 B3]]]].
  exists g', l'. repeat split; auto. intros t2 c2 g2 l2. apply exn_direct_unlocks.
Qed.
Lemma def_exn_captured (g : glob) t c l b : at_ l = F_call b ->
  (match b with BD tk => tasync g tk = true | BQ _ _ _ => True end) ->
  existsb (Z.eqb (calls g)) (throws g) = true ->
  exists g' l', tstep t c g l = Some (g', l', [E K_CALL 0 (tfid g (btask b)); E K_THROW 0 (calls g)]) /\
                tfut g' (btask b) = FExn /\
                at_ l' = match b with BD tk => M_unlock tk false | BQ c0 tk r => T_unlock c0 tk r end.
Proof. apply exn_captured. Qed.
Lemma def_drain_continues (g : glob) t c l c0 tk r : at_ l = T_unlock c0 tk r ->
  exists g' l', tstep t c g l = Some (g', l', [E K_UNLOCK (O_TASK tk) 0]) /\ at_ l' = after_drain c0 r /\ tmtx g' tk = None.
Proof. apply drain_continues. Qed.
Lemma def_idle_holds_nothing m th progs s t : R m th progs s -> pcof (thr s) t = Idle ->
  lmtx (gl s) <> Some t /\ (forall k, tmtx (gl s) k <> Some t) /\
  (owner (gl s) = Some t -> shcap (gl s) = false /\ nown (hand (locof (thr s) t)) = 1%nat).
Proof. apply idle_holds_nothing. Qed.
(* C07 *)
Lemma def_windows_disjoint m th progs s u v : R m th progs s -> u <> v -> wropen (pcof (thr s) u) = true ->
  rdopen (pcof (thr s) v) = false /\ wropen (pcof (thr s) v) = false.
Proof. apply windows_disjoint. Qed.
Lemma def_no_fault m th progs s : R m th progs s -> faulted (gl s) = false.
Proof. apply no_fault. Qed.
Lemma def_all_atomics_seq_cst t c (g : glob) l g' l' es : tstep t c g l = Some (g', l', es) ->
  forall e, In e es -> emo e = (if is_atomic_kind (ek e) then MO_SEQ_CST else MO_NA) /\
                       (is_atomic_kind (ek e) = true -> eo e = O_FLAG).
Proof. apply all_atomics_seq_cst. Qed.

(* ================================================================== *)
(* The ghost state is never read by the control flow                    *)
(* ================================================================== *)
Definition erase (g : glob) : glob := set_gh g init_ghost.
Definition erase_res (r : option (glob * loc * list ev)) : option (glob * loc * list ev) :=
  match r with Some (g', l', es) => Some (erase g', l', es) | None => None end.
(* replacing the ghost component by anything changes neither enabledness, nor the events, nor the next pc,
   nor the non-ghost part of the next global state *)
Lemma ghost_irrelevant t c g l h : erase_res (tstep t c (set_gh g h) l) = erase_res (tstep t c g l).
Proof.
  destruct l as [pr p hd fu].
  unfold tstep, tstep0, start_op, acq_shared, rel_shared, rd_begin, rd_end, wr_begin, wr_end, new_task, free_x, free_s, shcap, timed.
  cbn [at_ prog hand futs mk throws owner nsh flag lmtx queue pay rdrs dirty faulted calls ntasks tfid tasync tmtx tfut gh set_gh].
  destruct p; cbn [at_ prog hand futs mk throws owner nsh flag lmtx queue pay rdrs dirty faulted calls ntasks tfid tasync tmtx tfut gh set_gh];
  repeat match goal with |- context [match ?x with _ => _ end] =>
           lazymatch x with context [match _ with _ => _ end] => fail | _ => destruct x end end; try reflexivity.
Qed.
