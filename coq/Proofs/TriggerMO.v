(* C07 for TriggerVariable: the memory order of every atomic site.  Every atomic operation is seq_cst, except
   the load of `triggered` in reset()'s retry loop, which is acquire (TriggerVariable.hpp: `triggered.load(
   std::memory_order_acquire)`).  That load only guards a retry loop followed by a seq_cst store of `activated`
   made under activeLock; no datum is published through it (TriggerVariable has no non-atomic shared field
   outside its two mutexes), so acquire is sufficient - and the correspondence check pins both facts on every run. *)
From Coq Require Import List Arith ZArith Lia Bool.
Import ListNotations.
From GV Require Import Sched Events TriggerModel TriggerProofs.
Local Open Scope Z_scope.

Definition is_atomic_kind (k : Z) : bool :=
  (k =? K_LOAD) || (k =? K_STORE) || (k =? K_RMW) || (k =? K_CAS_OK) || (k =? K_CAS_FAIL) || (k =? K_XCHG).

Lemma trigger_mo_table t c g l g' l' es e :
  tstep t c g l = Some (g', l', es) -> In e es ->
  (is_atomic_kind (ek e) = false /\ emo e = MO_NA) \/
  (is_atomic_kind (ek e) = true /\ emo e = MO_SEQ_CST) \/
  (ek e = K_LOAD /\ eo e = O_TRIG /\ emo e = MO_ACQUIRE /\ at_ l = R_loop).
Proof.
  intros Hs Hin. destruct l as [pr p a b c0 d].
  step_cases Hs; cbn in Hin;
    repeat (destruct Hin as [Hin|Hin]; [subst e; cbn; auto 6|]); try contradiction.
Qed.

(* ---------- every notify_all is issued inside the critical section of its mutex (C07, lifetime argument) ----------
   trigger() and activate() call notify_all while they still own the mutex paired with the condition variable.  A
   waiter can observe the flag only under that mutex (or, for wait()'s fast path, after reset() stored
   activated=false, which follows the trigger's unlock), so when a wait returns the trigger()/activate() that
   released it has made its last access but the unlock.  Notifying after the unlock ("to spare the woken
   threads a futile wake-up") lets a waiter return - and destroy the variable - while notify_all is still to
   come. *)
Local Open Scope nat_scope.
Lemma notify_under_lock a0 progs s t c l g' l' es e :
  R a0 progs s -> nth_error (thr s) t = Some l -> tstep t c (gl s) l = Some (g', l', es) -> In e es ->
  ek e = K_NOTIFY_ALL ->
  (eo e = O_CVT /\ mT (gl s) = Some t /\ mT g' = Some t) \/ (eo e = O_CVA /\ mA (gl s) = Some t /\ mA g' = Some t).
Proof.
  intros HR Hl Hs Hin Hk. destruct (R_inv _ _ _ HR) as [H1 _].
  pose proof (I_ownT _ _ H1 t) as HT. pose proof (I_ownA _ _ H1 t) as HA.
  rewrite (pcof_at _ _ _ Hl) in HT, HA.
  destruct l as [pr p s1 s2 s3 s4]. cbn [at_] in *.
  step_cases Hs; cbn in Hin;
    repeat (destruct Hin as [Hin|Hin]; [subst e; cbn in Hk; try discriminate|]); try contradiction.
  - right. cbn. specialize (HA eq_refl). auto.
  - left. cbn. specialize (HT eq_refl). auto.
Qed.

(* the critical sections of triggerLock are exclusive: while a thread is inside trigger()'s section (store, notify,
   unlock) no wait() / wait_for() is between its lock and its unlock, hence none can be returning *)
Lemma trigger_section_exclusive a0 progs s u v :
  R a0 progs s -> holdsT (pcof (thr s) u) = true -> holdsT (pcof (thr s) v) = true -> u = v.
Proof.
  intros HR Hu Hv. destruct (R_inv _ _ _ HR) as [H1 _].
  pose proof (I_ownT _ _ H1 u Hu). pose proof (I_ownT _ _ H1 v Hv). congruence.
Qed.

(* ---------- the unlocked fast path of wait() / wait_for() in the Views semantics (Common/Views.v) ----------
   `if (!activated.load()) return true;` takes no mutex.  A consumer whose wait() returns through it after the
   producer's  <write result>; trigger(); reset()  is ordered after the producer only by reading the
   activated=false store of reset().  That store (seq_cst in the source) must release and the load must acquire.
   Thread 0 is the producer (PWrite*, then one PReset), threads 1..N-1 are consumers (CLoad = the fast-path load
   with its coherence choice, CRead = reading the result after a load that returned false). *)
From GV Require Import Views.

Inductive fact := PWrite | PReset | CLoad (w ch : nat) | CRead (w : nat).
Record fstate := FS {
  fclk : nat -> vc; fhist : hist; fseen : nat -> nat; fdat : ft; frace : bool;
  fopen : nat -> bool;           (* the thread's last fast-path load read activated = false *)
  fdone : bool; fpclk : vc       (* ghost: reset() has stored; the producer's clock at that store *)
}.

Section TriggerFastPath.
  Variable N : nat.
  Variables store_mo load_mo : mo.

  Definition finit : fstate := FS clk0 [] (fun _ => 0) ft0 false (fun _ => false) false vzero.

  Definition fstep (s : fstate) (a : fact) : fstate :=
    match a with
    | PWrite =>
      let (f, ok) := ft_write N 0 (fclk s 0) (fdat s) in
      FS (fupd (fclk s) 0 (vinc (fclk s 0) 0)) (fhist s) (fseen s) f (frace s || negb ok) (fopen s) (fdone s) (fpclk s)
    | PReset =>
      let c := fclk s 0 in
      FS (fupd (fclk s) 0 (vinc c 0)) (store_msg store_mo 0 c 0%Z :: fhist s) (fupd (fseen s) 0 (S (length (fhist s))))
         (fdat s) (frace s) (fopen s) true c
    | CLoad w ch =>
      let i := pick true (fhist s) (fclk s w) (fseen s w) ch in
      let v := read_val 1%Z (fhist s) i in
      FS (fupd (fclk s) w (read_clock load_mo (fhist s) i (fclk s w))) (fhist s)
         (fupd (fseen s) w (read_stamp (fhist s) i)) (fdat s) (frace s) (fupd (fopen s) w (v =? 0)%Z) (fdone s) (fpclk s)
    | CRead w =>
      let (f, ok) := ft_read w (fclk s w) (fdat s) in
      FS (fclk s) (fhist s) (fseen s) f (frace s || negb ok) (fopen s) (fdone s) (fpclk s)
    end.

  (* client discipline: the producer writes its result before reset(); a consumer reads it only after its
     fast-path load returned false *)
  Definition fok (s : fstate) (a : fact) : Prop :=
    match a with
    | PWrite => fdone s = false
    | PReset => fdone s = false
    | CLoad w _ => 0 < w < N
    | CRead w => 0 < w < N /\ fopen s w = true
    end.
  Fixpoint ftrace_ok (s : fstate) (tr : list fact) : Prop :=
    match tr with [] => True | a :: r => fok s a /\ ftrace_ok (fstep s a) r end.
  Definition frun (s : fstate) (tr : list fact) : fstate := fold_left fstep tr s.

  Hypothesis Hrel : is_rel store_mo = true.
  Hypothesis Hacq : is_acq load_mo = true.

  Record FInv (s : fstate) : Prop := {
    J_seen : forall t, fseen s t <= length (fhist s);
    J_hist : (fdone s = false -> fhist s = []) /\
             (fdone s = true -> exists m, fhist s = [m] /\ mval m = 0%Z /\ mrel m = Some (fpclk s));
    J_dat : fwho (fdat s) = 0 /\
            (fdone s = false -> fwhen (fdat s) <= fclk s 0 0 /\ forall x, fR (fdat s) x = 0) /\
            (fdone s = true -> fwhen (fdat s) <= fpclk s 0);
    J_open : forall w, fopen s w = true -> fdone s = true /\ vle (fpclk s) (fclk s w);
    J_race : frace s = false
  }.

  Lemma FInv_init : FInv finit.
  Proof. constructor; cbn; intros; try lia; try discriminate; repeat split; intros; try discriminate; auto; lia. Qed.

  Lemma fstep_inv s a : FInv s -> fok s a -> FInv (fstep s a).
  Proof.
    intros [Hseen [Hh0 Hh1] (Hw & Hd0 & Hd1) Hop Hrace] Hok.
    destruct a as [| |w ch|w]; cbn [fstep fok] in *.
    - (* PWrite *)
      destruct (Hd0 Hok) as [Hle HR].
      assert (Hwok : snd (ft_write N 0 (fclk s 0) (fdat s)) = true).
      { apply ft_write_ok; [rewrite Hw; exact Hle|intros x _; rewrite HR; lia]. }
      destruct (ft_write N 0 (fclk s 0) (fdat s)) as [f okb] eqn:Ew. cbn in Hwok. subst okb.
      assert (Ef : f = Ft 0 (fclk s 0 0) vzero) by (unfold ft_write in Ew; inversion Ew; reflexivity).
      constructor; cbn.
      + exact Hseen.
      + split; assumption.
      + subst f. cbn. split; [reflexivity|]. split; [|intros E; congruence].
        intros _. split; [lia|reflexivity].
      + intros w Ho. destruct (Hop w Ho) as [E _]. congruence.
      + rewrite Hrace. reflexivity.
    - (* PReset *)
      destruct (Hd0 Hok) as [Hle HR]. specialize (Hh0 Hok).
      constructor; cbn.
      + intros t. rewrite Hh0. cbn. unfold fupd. destruct (Nat.eqb t 0); [lia|].
        specialize (Hseen t). rewrite Hh0 in Hseen. cbn in Hseen. lia.
      + split; [intros; discriminate|]. intros _. rewrite Hh0. eexists. split; [reflexivity|].
        unfold store_msg. cbn. rewrite Hrel. auto.
      + split; [exact Hw|]. split; [intros; discriminate|]. intros _. exact Hle.
      + intros w Ho. destruct (Hop w Ho) as [E _]. congruence.
      + exact Hrace.
    - (* CLoad *)
      destruct Hok as [Hw0 HwN].
      pose proof (pick_bounds true (fhist s) (fclk s w) (fseen s w) ch (Hseen w)) as [Pb1 Pb2].
      set (i := pick true (fhist s) (fclk s w) (fseen s w) ch) in *.
      assert (Hne : Nat.eqb 0 w = false) by (apply Nat.eqb_neq; lia).
      constructor; cbn.
      + intros t. unfold fupd, read_stamp. destruct (Nat.eqb t w); [lia|apply Hseen].
      + split; assumption.
      + split; [exact Hw|]. split; [|exact Hd1].
        intros E. unfold fupd. rewrite Hne. apply Hd0. exact E.
      + intros x Ho. unfold fupd in Ho |- *. destruct (Nat.eqb x w) eqn:Ex.
        * apply Z.eqb_eq in Ho. destruct (fdone s) eqn:Ed.
          -- split; [reflexivity|]. destruct (Hh1 eq_refl) as [m [Em [Ev Er]]]. rewrite Em in *. cbn in Pb1.
             destruct i as [|[|i]]; [|unfold read_val in Ho; cbn in Ho; discriminate|lia].
             eapply read_clock_acq; eauto. reflexivity.
          -- rewrite (Hh0 eq_refl) in Ho. unfold read_val in Ho. destruct i; cbn in Ho; discriminate.
        * apply Hop. exact Ho.
      + exact Hrace.
    - (* CRead *)
      destruct Hok as [[Hw0 HwN] Ho]. destruct (Hop w Ho) as [Ed Hle].
      assert (Hrok : snd (ft_read w (fclk s w) (fdat s)) = true).
      { apply ft_read_ok. rewrite Hw. specialize (Hd1 Ed). specialize (Hle 0). lia. }
      destruct (ft_read w (fclk s w) (fdat s)) as [f okb] eqn:Er. cbn in Hrok. subst okb.
      assert (Ef : fwho f = fwho (fdat s) /\ fwhen f = fwhen (fdat s)) by (unfold ft_read in Er; inversion Er; cbn; auto).
      destruct Ef as [E1 E2].
      constructor; cbn.
      + exact Hseen.
      + split; assumption.
      + rewrite E1, E2. split; [exact Hw|]. split; [intros E; congruence|exact Hd1].
      + exact Hop.
      + rewrite Hrace. reflexivity.
  Qed.

  Lemma frun_inv tr : forall s, FInv s -> ftrace_ok s tr -> FInv (frun s tr).
  Proof.
    induction tr as [|a r IH]; intros s HI Hok; cbn in *; [exact HI|].
    destruct Hok as [Ha Hr]. apply IH; [apply fstep_inv; assumption|exact Hr].
  Qed.

  (* with a releasing store in reset() and an acquiring fast-path load, no disciplined client races, and a
     consumer whose load read false happens-after the producer's reset() (hence after its trigger()) *)
  Theorem fast_path_publishes tr : ftrace_ok finit tr -> frace (frun finit tr) = false.
  Proof. intros H. apply (J_race _ (frun_inv tr finit FInv_init H)). Qed.
  Theorem fast_path_ordered tr w : ftrace_ok finit tr -> fopen (frun finit tr) w = true ->
    vle (fpclk (frun finit tr)) (fclk (frun finit tr) w).
  Proof. intros H Ho. apply (J_open _ (frun_inv tr finit FInv_init H) w Ho). Qed.
End TriggerFastPath.

(* reset() storing activated=false with memory_order_relaxed (or the fast-path load being relaxed): the same
   disciplined client races *)
Definition fast_path_witness : list fact := [PWrite; PReset; CLoad 1 0; CRead 1].
Lemma reset_store_relaxed_refuted :
  ftrace_ok 2 Relaxed SeqCst (finit) fast_path_witness /\
  frace (frun 2 Relaxed SeqCst finit fast_path_witness) = true /\
  frace (frun 2 SeqCst SeqCst finit fast_path_witness) = false /\
  frace (frun 2 Release Acquire finit fast_path_witness) = false.
Proof. split; [cbn; repeat split; auto|]. repeat split; vm_compute; reflexivity. Qed.
Lemma fast_path_load_relaxed_refuted :
  ftrace_ok 2 SeqCst Relaxed finit fast_path_witness /\
  frace (frun 2 SeqCst Relaxed finit fast_path_witness) = true.
Proof. split; [cbn; repeat split; auto|vm_compute; reflexivity]. Qed.
