(* C07 for TriggerVariable: the memory order of every atomic site.  Every atomic operation is seq_cst, except
   the load of `triggered` in reset()'s retry loop, which is acquire (TriggerVariable.hpp: `triggered.load(
   std::memory_order_acquire)`).  That load only guards a retry loop followed by a seq_cst store of `activated`
   made under activeLock; no datum is published through it (TriggerVariable has no non-atomic shared field
   outside its two mutexes), so acquire is sufficient - and the correspondence check pins both facts on every run. *)
From Coq Require Import List Arith ZArith Lia Bool.
Import ListNotations.
From GV Require Import Sched Events TriggerModel TriggerProofs.
Local Open Scope Z_scope.

Definition is_atomic_kind (k : Z) : bool :=
  (k =? K_LOAD) || (k =? K_STORE) || (k =? K_RMW) || (k =? K_CAS_OK) || (k =? K_CAS_FAIL) || (k =? K_XCHG).

Lemma trigger_mo_table t c g l g' l' es e :
  tstep t c g l = Some (g', l', es) -> In e es ->
  (is_atomic_kind (ek e) = false /\ emo e = MO_NA) \/
  (is_atomic_kind (ek e) = true /\ emo e = MO_SEQ_CST) \/
  (ek e = K_LOAD /\ eo e = O_TRIG /\ emo e = MO_ACQUIRE /\ at_ l = R_loop).
Proof.
  intros Hs Hin. destruct l as [pr p a b c0 d].
  step_cases Hs; cbn in Hin;
    repeat (destruct Hin as [Hin|Hin]; [subst e; cbn; auto 6|]); try contradiction.
Qed.
