(* rcu_list: the pre-repair source (DESIGN section 6) is refuted inside the development. *)
From Coq Require Import List Arith ZArith Lia Bool.
Import ListNotations.
From GV Require Import Sched Events RcuModel RcuBase.
Local Open Scope Z_scope.

(* one handle session after another on one thread: the second release finds the first session's
   registration record (unowned, zombie_node = null) and the pre-repair reclaim loop calls
   destroy / deallocate on that null pointer *)
Definition unfixed_progs : list (list op) := [[LockRead; Begin 0; Release; LockRead; Begin 0; Release]].
Definition unfixed_sched : list (nat * nat) := repeat (0%nat, 0%nat) 30.
Lemma unfixed_refuted : fault (gl (runR (init true unfixed_progs) unfixed_sched)) = true.
Proof. vm_compute. reflexivity. Qed.
(* the same program and schedule on the repaired model: no fault, and ~rcu_list leaves nothing behind *)
Lemma fixed_same_run_ok :
  fault (gl (runR (init false unfixed_progs) unfixed_sched)) = false /\
  final (runR (init false unfixed_progs) unfixed_sched) = [[-2; -3]; [-2; 52; 1]; [-2; 53; 1]; [-2; -1; 2; 0; 0]].
Proof. vm_compute. split; reflexivity. Qed.
