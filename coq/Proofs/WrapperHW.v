(* C15: from linearization points to linearizability (Common/Lin.v, Herlihy & Wing) for the register
   operations of the Wrapper model: the annotated history of a run (hist_of), its well-formedness (per thread:
   invocation, exactly one logging step, return) and the legality of the linearization scan computes. *)
From Coq Require Import List Arith ZArith Lia Bool.
Import ListNotations.
From GV Require Import Sched Events WrapperModel WrapperProofs WrapperLin.
From GV Require Lin.
Local Open Scope Z_scope.

Notation hev := (Lin.hev regop ret).
Notation HInv := (Lin.Inv regop ret).
Notation HLin := (Lin.Lin regop ret).
Notation HRes := (Lin.Res regop ret).
Notation oprec := (Lin.oprec regop ret).

(* the result an operation reports, from its K_RET value (inverse of ret_code on the results of reg_apply) *)
Definition decode (o : regop) (rv : Z) : ret :=
  match o with
  | RLoad | RXchg _ => RVal rv
  | RStore _ => ROk
  | RCas _ _ => RCasRes (Z.odd rv) (Z.div2 rv)
  end.
Lemma decode_correct x o x' r : reg_apply x o = (x', r) -> decode o (ret_code r) = r.
Proof.
  destruct o; cbn; intros H; try (inversion H; reflexivity).
  destruct (x =? e); inversion H; subst; cbn [ret_code decode]; f_equal.
  - replace (2 * e + 1) with (1 + 2 * e) by lia. rewrite Z.odd_add_mul_2. reflexivity.
  - rewrite Z.div2_div. symmetry. apply (Z.div_unique _ _ _ 1); lia.
  - replace (2 * x' + 0) with (0 + 2 * x') by lia. rewrite Z.odd_add_mul_2. reflexivity.
  - rewrite Z.div2_div. symmetry. apply (Z.div_unique _ _ _ 0); lia.
Qed.

(* the history events of one step of thread t from l (state G) to l':
   Inv  - the K_INVOKE step of load / store / operator= / exchange / compare_exchange / operator T (it leaves the
          thread at the acquisition of the operation's guard),
   Lin  - the logging step of ltstep inside such an operation,
   Res  - the step that emits the operation's K_RET (the destructor of its guard, no exception pending).
   Handle operations, modify / read with functors, refused operations emit nothing. *)
Definition hev_of (t : nat) (G : lglob) (l l' : loc) : list hev :=
  match at_ l with
  | Idle => match at_ l' with
            | GAcq o => match regop_of o with Some ro => [HInv t ro] | None => [] end
            | _ => []
            end
  | Run (FGuard o _) _ _ _ _ =>
    match regop_of o, lin_of t (fst G) l with Some _, Some _ => [HLin t] | _, _ => [] end
  | GRel o _ rv false => match regop_of o with Some ro => [HRes t (decode ro rv)] | None => [] end
  | _ => []
  end.

Fixpoint hist_from (cf : config) (s : sys lglob loc) (sched : list (nat * nat)) : list hev :=
  match sched with
  | [] => []
  | (t, c) :: r =>
    match nth_error (thr s) t with
    | Some l =>
      match ltstep cf t c (gl s) l with
      | Some (G', l', es) => hev_of t (gl s) l l' ++ hist_from cf (Sys G' (upd (thr s) t l')) r
      | None => hist_from cf s r
      end
    | None => hist_from cf s r
    end
  end.
Definition hist_of (cf : config) (progs : list (list op)) (sched : list (nat * nat)) : list hev :=
  hist_from cf (linit cf progs) sched.

(* ---------- clients that modify the wrapped object only through the register operations ---------- *)
Definition okop (o : op) : bool :=
  match o with Use _ (AWrite _) _ | Use _ AIncr _ | Modify _ => false | _ => true end.
Definition reg_clients (progs : list (list op)) : Prop := forall p, In p progs -> forallb okop p = true.

(* thread-local: the remaining program is fine, no write through a handle / modify in progress, no exception pending *)
Definition tidy (l : loc) : Prop :=
  forallb okop (prog l) = true /\
  match at_ l with
  | Run (FUse a) code _ _ _ => a = ARead /\ code = [MRead]
  | GAcq o | Run (FGuard o _) _ _ _ _ => okop o = true
  | GRel o _ _ exn => okop o = true /\ exn = false
  | _ => True
  end.
Lemma exec_mi_nothrow cf t i ph r ok g : throws cf = [] -> m_thrown (exec_mi cf t i ph r ok g) = false.
Proof.
  intros Ht. unfold exec_mi, rd_begin, rd_end, wr_begin, wr_end. rewrite Ht.
  destruct i as [fid snap| |[|b] s| |e d];
    [| destruct ph | destruct ph | destruct ph | destruct ph as [|[|[|ph]]] | destruct ph]; reflexivity.
Qed.
Lemma tidy_step cf t c g l g' l' es : throws cf = [] -> tidy l -> tstep0 cf t c g l = Some (g', l', es) -> tidy l'.
Proof.
  intros Ht [Hp Hpc] Hs. destruct l as [pr p sl]. unfold tidy in *. cbn [prog at_] in *.
  destruct p.
  - (* Idle *) destruct pr as [|o rest]; [discriminate|]. cbn [forallb] in Hp. apply andb_true_iff in Hp as [Ho Hr].
    step_cases Hs; cbn [prog at_]; try (split; [exact Hr|]; first [exact I | exact Ho | discriminate]).
    all: split; [exact Hr|]; destruct a; [split; reflexivity|discriminate|discriminate].
  - step_cases Hs; cbn [prog at_]; auto.
  - step_cases Hs; cbn [prog at_]; auto.
  - step_cases Hs; cbn [prog at_]; auto.
  - step_cases Hs; cbn [prog at_]; auto.
  - destruct code as [|i rest]; [discriminate|]. unfold tstep0 in Hs. cbn [at_ slots prog] in Hs.
    rewrite (exec_mi_nothrow cf t i ph r ok g Ht) in Hs.
    destruct fr as [o gid|a].
    + destruct (negb (m_done _)); [inversion Hs; subst; cbn [prog at_]; auto|].
      destruct (match m_rest _ with Some c' => c' | None => rest end); inversion Hs; subst; cbn [prog at_]; auto.
    + destruct Hpc as [-> Hc]. inversion Hc; subst. unfold exec_mi, rd_begin, rd_end in Hs.
      destruct ph; cbn in Hs; inversion Hs; subst; cbn [prog at_]; auto.
  - step_cases Hs; cbn [prog at_]; auto.
Qed.

(* ---------- where a thread stands w.r.t. the register operation it is executing ---------- *)
Inductive phase := NoOp | Pre (ro : regop) | Post (ro : regop).
Definition opphase (l : loc) : phase :=
  match at_ l with
  | GAcq o => match regop_of o with Some ro => Pre ro | None => NoOp end
  | Run (FGuard o _) code _ _ _ =>
    match regop_of o with
    | Some ro => match o, code with Cas _ _, [MWrite (Priv _) _] => Post ro | _, _ => Pre ro end
    | None => NoOp
    end
  | GRel o _ _ _ => match regop_of o with Some ro => Post ro | None => NoOp end
  | _ => NoOp
  end.

(* the four kinds of steps: nothing for the history; invocation; THE logging step; return *)
Definition step_kind (t : nat) (G : lglob) (l l' : loc) : Prop :=
  (hev_of t G l l' = [] /\ opphase l' = opphase l /\ lin_of t (fst G) l = None) \/
  (exists ro, hev_of t G l l' = [HInv t ro] /\ opphase l = NoOp /\ opphase l' = Pre ro /\ lin_of t (fst G) l = None) \/
  (exists ro e, hev_of t G l l' = [HLin t] /\ opphase l = Pre ro /\ opphase l' = Post ro /\
                lin_of t (fst G) l = Some e /\ le_op e = ro) \/
  (exists ro o gid rv, hev_of t G l l' = [HRes t (decode ro rv)] /\ opphase l = Post ro /\ opphase l' = NoOp /\
                       lin_of t (fst G) l = None /\ at_ l = GRel o gid rv false /\ regop_of o = Some ro).

Lemma wop_some_whole cf o : wop_code cf o <> None ->
  match o with Load | Cast | Store _ | Assign _ | Modify _ | ReadF _ | Exchange _ | Cas _ _ => True | _ => False end.
Proof. unfold wop_code. destruct o; auto; intros H; apply H; reflexivity. Qed.

Lemma phase_step cf t c g lg l g' l' es :
  plain cf = false -> throws cf = [] -> locok cf l -> shape g t lg l -> tidy l ->
  tstep0 cf t c g l = Some (g', l', es) -> step_kind t (g, lg) l l'.
Proof.
  intros Hpl Hth [Hlen Hpc] Hsh [Hprog Htd] Hs. destruct l as [pr p sl].
  unfold step_kind, hev_of, opphase, lin_of, shape in *. cbn [at_ slots prog fst] in *.
  destruct p.
  - (* Idle *) step_cases Hs; cbn [at_ regop_of];
      first [left; repeat split; reflexivity | right; left; eexists; repeat split; reflexivity].
  - step_cases Hs; cbn [at_]; left; repeat split; reflexivity.
  - step_cases Hs; cbn [at_]; left; repeat split; reflexivity.
  - step_cases Hs; cbn [at_]; left; repeat split; reflexivity.
  - (* GAcq *) step_cases Hs. cbn [at_]. left. split; [reflexivity|]. split; [|reflexivity].
    pose proof (wop_code_regop _ _ _ _ Hpl Heqo0) as Hc.
    destruct o; try reflexivity; cbn [regop_of]; try (rewrite Hc; reflexivity).
    destruct Hc as [-> _]. reflexivity.
  - (* Run *) destruct code as [|i rest]; [destruct Hpc; congruence|].
    destruct fr as [o gid|a].
    2: { destruct Htd as [-> Hc]. inversion Hc; subst.
         pose proof (tstep0_run_glob _ _ _ _ _ _ _ _ _ _ _ _ _ _ _ Hs) as Hg.
         unfold tstep0 in Hs. cbn [at_ slots prog] in Hs. unfold exec_mi, rd_begin, rd_end in Hs.
         destruct ph; cbn in Hs; inversion Hs; subst; cbn [at_]; left; repeat split; reflexivity. }
    destruct Hpc as [_ Hw]. pose proof (wop_some_whole cf o Hw) as Hwh.
    destruct o; try contradiction; try discriminate.
    all: cbv beta iota in Hsh; unfold X0, X1, X2, X3, CS1, CS2, CF1, CF2, CF3 in *.
    all: pose proof (run_next _ _ _ _ _ _ _ _ _ _ _ _ _ _ _ _ Hs) as Hp; clear Hs;
         destruct l' as [pr' p' sl']; cbn [at_] in Hp |- *; subst p'.
    all: repeat match goal with
         | H : _ \/ _ |- _ => destruct H
         | H : _ /\ _ |- _ => destruct H
         end.
    all: repeat match goal with H : _ :: _ = _ :: _ |- _ => inversion H; clear H; subst end.
    all: unfold exec_mi, rd_begin, rd_end, wr_begin, wr_end, cas_branch; rewrite ?Hpl, ?Hth.
    all: try (destruct ph as [|[|[|ph]]]).
    all: cbn -[Z.mul Z.add].
    all: try match goal with |- context [?a =? ?b] => destruct (Z.eqb_spec a b) end; cbn -[Z.mul Z.add].
    all: first [ left; repeat split; reflexivity
               | right; right; left; eexists _, _; repeat split; reflexivity ].
  - (* GRel *) destruct Htd as [_ ->]. step_cases Hs. cbn [at_].
    destruct (regop_of o) as [ro|] eqn:Er.
    + right; right; right. exists ro, o, gid, rv. repeat split; try reflexivity; exact Er.
    + left. repeat split; reflexivity.
Qed.

(* ---------- the scanner's records and the linearization log ---------- *)
Notation status := (Lin.status regop).
Notation SIdle := (Lin.Idle regop).
Notation SPending := (Lin.Pending regop).
Notation SLinned := (Lin.Linned regop).
Notation othr := (Lin.o_thr regop ret).
Notation oop := (Lin.o_op regop ret).
Notation olin := (Lin.o_lin regop ret).
Notation oinv := (Lin.o_inv regop ret).
Notation ores := (Lin.o_res regop ret).
Notation ORec := (Lin.OpRec regop ret).
Notation answer := (Lin.answer regop ret).
Notation hlegal := (Lin.legal regop ret Z reg_apply).

(* a record and the log entry of the same operation *)
Definition Rm (a : oprec) (e : lentry) : Prop :=
  othr a = le_t e /\ oop a = le_op e /\ forall p r, ores a = Some (p, r) -> r = le_ret e.
Fixpoint hd_rec (t : nat) (acc : list oprec) : option oprec :=
  match acc with [] => None | a :: r => if Nat.eqb (othr a) t then Some a else hd_rec t r end.
Definition answered (a : oprec) (p : nat) (r : ret) : oprec := ORec (othr a) (oop a) (oinv a) (olin a) (Some (p, r)).

Lemma match_split t acc lg a : Forall2 Rm acc lg -> hd_rec t acc = Some a ->
  exists pre post pre' e post', acc = pre ++ a :: post /\ lg = pre' ++ e :: post' /\
    Forall2 Rm pre pre' /\ Rm a e /\ Forall2 Rm post post' /\
    (forall b, In b pre -> othr b <> t) /\ othr a = t /\ head_of t lg = Some e.
Proof.
  induction 1 as [|x y acc lg Hxy HF IH]; cbn [hd_rec head_of]; [discriminate|].
  destruct (Nat.eqb_spec (othr x) t) as [Et|Hne].
  - intros E. inversion E; subst a. exists [], acc, [], y, lg. cbn [app].
    split; [reflexivity|]. split; [reflexivity|]. split; [constructor|]. split; [exact Hxy|]. split; [exact HF|].
    split; [intros b []|]. split; [exact Et|].
    destruct Hxy as [Ht _]. rewrite <- Ht, Et, Nat.eqb_refl. reflexivity.
  - intros E. destruct (IH E) as (pre & post & pre' & e & post' & -> & -> & F1 & Ra & F2 & Hp & Ha & Hh).
    exists (x :: pre), post, (y :: pre'), e, post'. cbn [app].
    split; [reflexivity|]. split; [reflexivity|]. split; [constructor; assumption|]. split; [exact Ra|]. split; [exact F2|].
    split; [intros b [<-|Hb]; auto|]. split; [exact Ha|].
    destruct Hxy as [Ht _]. rewrite <- Ht. destruct (Nat.eqb_spec (othr x) t); [contradiction|exact Hh].
Qed.
Lemma answer_split t p r pre a post : (forall b, In b pre -> othr b <> t) -> othr a = t -> ores a = None ->
  answer t p r (pre ++ a :: post) = pre ++ answered a p r :: post.
Proof.
  intros Hp Ha Hr. induction pre as [|x pre IH]; cbn [app Lin.answer].
  - rewrite Ha, Nat.eqb_refl, Hr. cbn [andb]. unfold answered. rewrite Ha. reflexivity.
  - destruct (Nat.eqb_spec (othr x) t) as [E|E]; [exfalso; apply (Hp x); [left; reflexivity|exact E]|].
    cbn [andb]. rewrite IH; [reflexivity|]. intros b Hb. apply Hp. right. exact Hb.
Qed.
Lemma hd_rec_app t pre rest : (forall b, In b pre -> othr b <> t) -> hd_rec t (pre ++ rest) = hd_rec t rest.
Proof.
  intros Hp. induction pre as [|x pre IH]; [reflexivity|]. cbn [app hd_rec].
  destruct (Nat.eqb_spec (othr x) t) as [E|E]; [exfalso; apply (Hp x); [left; reflexivity|exact E]|].
  apply IH. intros b Hb. apply Hp. right. exact Hb.
Qed.
Lemma hd_rec_in t acc a : hd_rec t acc = Some a -> In a acc /\ othr a = t.
Proof.
  induction acc as [|x acc IH]; cbn [hd_rec]; [discriminate|].
  destruct (Nat.eqb_spec (othr x) t) as [Heq|Hne].
  - intros H. injection H as <-. split; [left; reflexivity|exact Heq].
  - intros H. destruct (IH H). split; [right; assumption|assumption].
Qed.
(* replacing a record by one of the same thread does not change who is first of another thread *)
Lemma hd_rec_replace u pre a a' post : othr a' = othr a -> othr a <> u ->
  hd_rec u (pre ++ a' :: post) = hd_rec u (pre ++ a :: post).
Proof.
  intros E Hne. induction pre as [|x pre IH]; cbn [app hd_rec].
  - rewrite E. destruct (Nat.eqb_spec (othr a) u); [contradiction|reflexivity].
  - destruct (Nat.eqb (othr x) u); [reflexivity|exact IH].
Qed.

(* legality of the scanner's list from the legality of the log *)
Fixpoint lfinal (s : Z) (L : list oprec) : Z :=
  match L with [] => s | a :: rest => lfinal (fst (reg_apply s (oop a))) rest end.
Lemma hlegal_app s L1 L2 : hlegal s (L1 ++ L2) <-> hlegal s L1 /\ hlegal (lfinal s L1) L2.
Proof.
  revert s. induction L1 as [|a L1 IH]; intros s; cbn [app Lin.legal lfinal]; [tauto|].
  destruct (reg_apply s (oop a)) as [s' r]. cbn [fst]. rewrite IH. tauto.
Qed.
Lemma lfinal_app s L1 L2 : lfinal s (L1 ++ L2) = lfinal (lfinal s L1) L2.
Proof. revert s. induction L1 as [|a L1 IH]; intros s; cbn [app lfinal]; [reflexivity|apply IH]. Qed.
Lemma legal_transfer x0 acc lg : Forall2 Rm acc lg -> forall x, legal x0 lg x ->
  hlegal x0 (rev acc) /\ lfinal x0 (rev acc) = x.
Proof.
  induction 1 as [|a e acc lg Hae HF IH]; intros x HL.
  - inversion HL; subst. cbn. auto.
  - inversion HL as [|e0 lg0 y x' Hy Hr]; subst. destruct (IH y Hy) as [A B].
    cbn [rev]. rewrite hlegal_app, lfinal_app, B. cbn [Lin.legal lfinal].
    destruct Hae as [_ [Eo Hres]]. rewrite Eo, Hr. cbn [fst]. repeat split; auto.
    destruct (ores a) as [[p r]|] eqn:Er; [apply (Hres p r eq_refl)|exact I].
Qed.
Lemma legal_entry x0 lg x e : legal x0 lg x -> In e lg -> exists y y', reg_apply y (le_op e) = (y', le_ret e).
Proof.
  induction 1 as [|e0 lg y x' Hy IH Hr]; intros Hin; [destruct Hin|].
  destruct Hin as [<-|Hin]; [eauto|auto].
Qed.
Lemma head_of_in t lg e : head_of t lg = Some e -> In e lg.
Proof.
  induction lg as [|x lg IH]; cbn [head_of]; [discriminate|].
  destruct (Nat.eqb (le_t x) t); [intros H; inversion H; left; reflexivity|intros H; right; auto].
Qed.

(* ---------- the invariant between the scanner's state and the model's state ---------- *)
Definition stat_ok (x : status) (p : phase) : Prop :=
  match x, p with
  | Lin.Idle _, NoOp => True
  | Lin.Pending _ o _, Pre ro => o = ro
  | Lin.Linned _ o _ _, Post ro => o = ro
  | _, _ => False
  end.
Fixpoint desc (l : list nat) : Prop :=
  match l with [] => True | x :: r => (forall y, In y r -> (y < x)%nat) /\ desc r end.

Record Rel (ls : list loc) (lg : list lentry) (n : nat) (st : nat -> status) (acc : list oprec) : Prop := {
  R_stat : forall t, stat_ok (st t) (opphase (locof ls t));
  R_match : Forall2 Rm acc lg;
  R_open : forall a, In a acc -> ores a = None ->
           hd_rec (othr a) acc = Some a /\ exists ro, opphase (locof ls (othr a)) = Post ro;
  R_post : forall t ro, opphase (locof ls t) = Post ro -> exists a, hd_rec t acc = Some a /\ ores a = None;
  R_bound : forall a, In a acc -> (olin a < n)%nat;
  R_desc : desc (map olin acc)
}.

Lemma phase_upd ls t l l' u : nth_error ls t = Some l ->
  opphase (locof (upd ls t l') u) = if Nat.eqb u t then opphase l' else opphase (locof ls u).
Proof. intros Hl. rewrite (locof_upd _ _ _ _ _ Hl). destruct (Nat.eqb u t); reflexivity. Qed.

Lemma rel_step ls lg n st acc t g l l' :
  Rel ls lg n st acc -> nth_error ls t = Some l -> step_kind t (g, lg) l l' ->
  (forall ro o gid rv, at_ l = GRel o gid rv false -> regop_of o = Some ro ->
     exists e, head_of t lg = Some e /\ decode ro rv = le_ret e) ->
  exists n' st' acc',
    (forall H, Lin.scan_from regop ret n (hev_of t (g, lg) l l' ++ H) st acc = Lin.scan_from regop ret n' H st' acc') /\
    Rel (upd ls t l') (newlog t g l lg) n' st' acc'.
Proof.
  intros [Rs Rmt Ro Rp Rb Rd] Hl Hk Hret. unfold step_kind in Hk. cbn [fst] in Hk.
  pose proof (Rs t) as Rst. rewrite (locof_at _ _ _ Hl) in Rst.
  destruct Hk as [[He [Hph Hlin]]|[[ro [He [Hp0 [Hp1 Hlin]]]]|[[ro [e [He [Hp0 [Hp1 [Hlin Hop]]]]]]|[ro [o [gid [rv [He [Hp0 [Hp1 [Hlin [Hat Hro]]]]]]]]]]]];
    rewrite He; unfold newlog; rewrite Hlin; cbn [app].
  - (* nothing for the history *)
    exists n, st, acc. split; [reflexivity|]. constructor; auto.
    + intros u. rewrite (phase_upd _ _ _ _ _ Hl). destruct (Nat.eqb_spec u t) as [->|Hne]; [rewrite Hph; exact Rst|apply Rs].
    + intros a Ha Hr. destruct (Ro a Ha Hr) as [A [ro B]]. split; [exact A|]. exists ro.
      rewrite (phase_upd _ _ _ _ _ Hl). destruct (Nat.eqb_spec (othr a) t) as [Et|Hne]; [|exact B].
      rewrite Hph. rewrite Et, (locof_at _ _ _ Hl) in B. exact B.
    + intros u ro. rewrite (phase_upd _ _ _ _ _ Hl). destruct (Nat.eqb_spec u t) as [->|Hne]; [|apply Rp].
      rewrite Hph. intros B. apply (Rp t ro). rewrite (locof_at _ _ _ Hl). exact B.
  - (* invocation *)
    rewrite Hp0 in Rst. destruct (st t) eqn:Est; cbn in Rst; try contradiction.
    exists (S n), (Lin.supd regop st t (SPending ro n)), acc. split; [intros H; cbn [Lin.scan_from]; rewrite Est; reflexivity|].
    constructor; auto.
    + intros u. rewrite (phase_upd _ _ _ _ _ Hl). unfold Lin.supd. destruct (Nat.eqb_spec u t) as [->|Hne]; [rewrite Hp1; reflexivity|apply Rs].
    + intros a Ha Hr. destruct (Ro a Ha Hr) as [A [ro' B]]. split; [exact A|]. exists ro'.
      rewrite (phase_upd _ _ _ _ _ Hl). destruct (Nat.eqb_spec (othr a) t) as [Et|Hne]; [|exact B].
      rewrite Et, (locof_at _ _ _ Hl), Hp0 in B. discriminate.
    + intros u ro'. rewrite (phase_upd _ _ _ _ _ Hl). destruct (Nat.eqb_spec u t) as [->|Hne]; [rewrite Hp1; discriminate|apply Rp].
    + intros a Ha. specialize (Rb a Ha). lia.
  - (* the logging step *)
    rewrite Hp0 in Rst. destruct (st t) as [|o i|] eqn:Est; cbn in Rst; try contradiction. subst o.
    exists (S n), (Lin.supd regop st t (SLinned ro i n)), (ORec t ro i n None :: acc).
    split; [intros H; cbn [Lin.scan_from]; rewrite Est; reflexivity|].
    assert (Hold : forall a, In a acc -> ores a = None -> othr a <> t).
    { intros a Ha Hr Et. destruct (Ro a Ha Hr) as [_ [ro' B]]. rewrite Et, (locof_at _ _ _ Hl), Hp0 in B. discriminate. }
    constructor.
    + intros u. rewrite (phase_upd _ _ _ _ _ Hl). unfold Lin.supd. destruct (Nat.eqb_spec u t) as [->|Hne]; [rewrite Hp1; reflexivity|apply Rs].
    + constructor; [|exact Rmt]. split; [cbn; symmetry; eapply lin_of_tid; eauto|]. split; [cbn; congruence|]. cbn. discriminate.
    + intros a [<-|Ha] Hr.
      * cbn [Lin.o_thr hd_rec]. rewrite Nat.eqb_refl. split; [reflexivity|]. exists ro.
        rewrite (phase_upd _ _ _ _ _ Hl), Nat.eqb_refl. exact Hp1.
      * pose proof (Hold a Ha Hr) as Hne. destruct (Ro a Ha Hr) as [A [ro' B]]. split.
        -- cbn [hd_rec Lin.o_thr]. destruct (Nat.eqb_spec t (othr a)); [congruence|exact A].
        -- exists ro'. rewrite (phase_upd _ _ _ _ _ Hl). destruct (Nat.eqb_spec (othr a) t); [contradiction|exact B].
    + intros u ro'. rewrite (phase_upd _ _ _ _ _ Hl). destruct (Nat.eqb_spec u t) as [->|Hne].
      * intros _. eexists. cbn [hd_rec Lin.o_thr]. rewrite Nat.eqb_refl. split; reflexivity.
      * intros B. destruct (Rp u ro' B) as [a [A1 A2]]. exists a. split; [|exact A2].
        cbn [hd_rec Lin.o_thr]. destruct (Nat.eqb_spec t u); [congruence|exact A1].
    + intros a [<-|Ha]; [cbn; lia|specialize (Rb a Ha); lia].
    + cbn [map desc Lin.o_lin]. split; [|exact Rd]. intros y Hy. apply in_map_iff in Hy. destruct Hy as [b [<- Hb]]. apply Rb. exact Hb.
  - (* return *)
    rewrite Hp0 in Rst. destruct (st t) as [| |o0 i k] eqn:Est; cbn in Rst; try contradiction. subst o0.
    destruct (Rp t ro) as [a [Hhd Hun]]; [rewrite (locof_at _ _ _ Hl); exact Hp0|].
    destruct (match_split t acc lg a Rmt Hhd) as (pre & post & pre' & e & post' & Eacc & Elg & F1 & Ra & F2 & Hpre & Hat' & Hhead).
    destruct (Hret ro o gid rv Hat Hro) as [e' [Hh' Hdec]]. assert (e' = e) by congruence. subst e'.
    exists (S n), (Lin.supd regop st t SIdle), (pre ++ answered a n (decode ro rv) :: post).
    split; [intros H; cbn [Lin.scan_from]; rewrite Est, Eacc, (answer_split t n _ pre a post Hpre Hat' Hun); reflexivity|].
    assert (Hdup : forall b, In b post -> b <> a).
    { intros b Hb ->. rewrite Eacc, map_app in Rd. cbn [map] in Rd. clear -Rd Hb.
      induction pre as [|x pre IH]; cbn in Rd; [|apply IH; tauto].
      destruct Rd as [Hlt _]. specialize (Hlt (olin a) (in_map olin _ _ Hb)). lia. }
    assert (Hother : forall b, In b (pre ++ answered a n (decode ro rv) :: post) -> ores b = None ->
              In b acc /\ othr b <> t).
    { intros b Hb Hr. apply in_app_or in Hb. destruct Hb as [Hb|[<-|Hb]]; [| discriminate |].
      - split; [rewrite Eacc; apply in_or_app; left; exact Hb|apply Hpre; exact Hb].
      - assert (In b acc) as Hin by (rewrite Eacc; apply in_or_app; right; right; exact Hb).
        split; [exact Hin|]. intros Et. destruct (Ro b Hin Hr) as [A _]. rewrite Et, Hhd in A. inversion A; subst.
        apply (Hdup b Hb); reflexivity. }
    constructor.
    + intros u. rewrite (phase_upd _ _ _ _ _ Hl). unfold Lin.supd. destruct (Nat.eqb_spec u t) as [->|Hne]; [rewrite Hp1; exact I|apply Rs].
    + rewrite Elg. apply Forall2_app; [exact F1|]. constructor; [|exact F2].
      destruct Ra as [R1 [R2 _]]. split; [exact R1|]. split; [exact R2|]. cbn. intros p r E0. inversion E0; subst. exact Hdec.
    + intros b Hb Hr. destruct (Hother b Hb Hr) as [Hin Hne]. destruct (Ro b Hin Hr) as [A [ro' B]]. split.
      * rewrite hd_rec_replace with (a := a); [rewrite <- Eacc; exact A|reflexivity|congruence].
      * exists ro'. rewrite (phase_upd _ _ _ _ _ Hl). destruct (Nat.eqb_spec (othr b) t); [contradiction|exact B].
    + intros u ro'. rewrite (phase_upd _ _ _ _ _ Hl). destruct (Nat.eqb_spec u t) as [->|Hne]; [rewrite Hp1; discriminate|].
      intros B. destruct (Rp u ro' B) as [b [B1 B2]]. exists b. split; [|exact B2].
      rewrite hd_rec_replace with (a := a); [rewrite <- Eacc; exact B1|reflexivity|congruence].
    + intros b Hb. assert (olin b < n)%nat; [|lia]. apply in_app_or in Hb. destruct Hb as [Hb|[<-|Hb]].
      * apply Rb. rewrite Eacc. apply in_or_app. left. exact Hb.
      * cbn. apply Rb. rewrite Eacc. apply in_or_app. right. left. reflexivity.
      * apply Rb. rewrite Eacc. apply in_or_app. right. right. exact Hb.
    + rewrite Eacc in Rd. rewrite map_app in *. cbn [map] in *. exact Rd.
Qed.

(* ---------- along a logged run ---------- *)
Lemma lstep_inv cf t c (G : lglob) l G' l' es : plain cf = false -> ltstep cf t c G l = Some (G', l', es) ->
  tstep0 cf t c (fst G) l = Some (fst G', l', es) /\ snd G' = newlog t (fst G) l (snd G).
Proof.
  intros Hpl Hs. unfold ltstep in Hs. rewrite (tstep_instr _ _ _ _ _ Hpl) in Hs.
  destruct (tstep0 cf t c (fst G) l) as [[[g1 l1] es1]|]; [|discriminate]. inversion Hs; subst. cbn [fst snd]. auto.
Qed.

Lemma RL_tidy cf progs s : plain cf = false -> throws cf = [] -> reg_clients progs -> RL cf progs s ->
  forall u l, nth_error (thr s) u = Some l -> tidy l.
Proof.
  intros Hpl Hth Hrc HR.
  refine (reachable_inv lglob loc (ltstep cf) (fun _ ls => forall u l, nth_error ls u = Some l -> tidy l) _ _ _ _ HR).
  - intros G ls t c l G' l' es Hall Hl Hs u lu Hu.
    destruct (nth_upd _ _ _ _ _ Hu) as [[-> [-> _]]|[_ Hu']]; [|eauto].
    destruct (lstep_inv _ _ _ _ _ _ _ _ Hpl Hs) as [Hs0 _]. eapply tidy_step; eauto.
  - intros u l Hu. unfold linit, init in Hu. cbn [thr] in Hu. rewrite nth_error_map in Hu.
    destruct (nth_error progs u) as [p|] eqn:Ep; cbn in Hu; [|discriminate]. injection Hu as <-.
    split; cbn [prog at_]; [apply Hrc; eapply nth_error_In; eauto|exact I].
Qed.

Lemma lstep_mono cf t c (G : lglob) l G' l' es : plain cf = false -> ltstep cf t c G l = Some (G', l', es) ->
  (misuse (fst G) <= misuse (fst G'))%nat /\ (incrs (fst G) <= incrs (fst G'))%nat.
Proof. intros Hpl Hs. destruct (lstep_inv _ _ _ _ _ _ _ _ Hpl Hs) as [Hs0 _]. eapply tstep_mono; eauto. Qed.
Lemma lrun_mono cf sched : plain cf = false -> forall s : sys lglob loc,
  (misuse (fst (gl s)) <= misuse (fst (gl (run lglob loc (ltstep cf) s sched))))%nat /\
  (incrs (fst (gl s)) <= incrs (fst (gl (run lglob loc (ltstep cf) s sched))))%nat.
Proof.
  intros Hpl. induction sched as [|[t c] r IH]; intros s; cbn [run fold_left]; [lia|].
  specialize (IH (step lglob loc (ltstep cf) s (t, c))). unfold run in IH.
  assert ((misuse (fst (gl s)) <= misuse (fst (gl (step lglob loc (ltstep cf) s (t, c)))))%nat /\
          (incrs (fst (gl s)) <= incrs (fst (gl (step lglob loc (ltstep cf) s (t, c)))))%nat) as [A B]; [|lia].
  unfold step, sys_step. destruct (nth_error (thr s) t) as [l|]; [|cbn; lia].
  destruct (ltstep cf t c (gl s) l) as [[[G' l'] es]|] eqn:E; [|cbn; lia]. cbn [fst gl].
  eapply lstep_mono; eauto.
Qed.

Lemma scan_run cf progs : plain cf = false -> throws cf = [] -> reg_clients progs ->
  forall sched (s : sys lglob loc) n st acc,
  RL cf progs s ->
  safe cf (fst (gl (run lglob loc (ltstep cf) s sched))) ->
  incrs (fst (gl (run lglob loc (ltstep cf) s sched))) = 0%nat ->
  Rel (thr s) (llog s) n st acc ->
  exists L, Lin.scan_from regop ret n (hist_from cf s sched) st acc = Some L /\ hlegal (init_val cf) L.
Proof.
  intros Hpl Hth Hrc. induction sched as [|[t c] r IH]; intros s n st acc HR Hsafe Hinc HRel.
  - cbn [hist_from Lin.scan_from run fold_left] in *. exists (rev acc). split; [reflexivity|].
    destruct (RL_inv _ _ _ Hpl HR) as [_ _ HLg].
    apply (legal_transfer _ _ _ (R_match _ _ _ _ _ HRel) _ (HLg Hsafe Hinc)).
  - destruct (lrun_mono cf ((t, c) :: r) Hpl s) as [Hm Hi].
    assert (Hsafe0 : safe cf (fst (gl s))) by (destruct Hsafe as [A B]; split; [exact A|lia]).
    assert (Hinc0 : incrs (fst (gl s)) = 0%nat) by lia.
    cbn [run fold_left] in Hsafe, Hinc.
    fold (run lglob loc (ltstep cf) (step lglob loc (ltstep cf) s (t, c)) r) in Hsafe, Hinc.
    pose proof (reachable_step lglob loc (ltstep cf) _ _ (t, c) HR) as HR'.
    unfold step, sys_step in Hsafe, Hinc, HR'. cbn [hist_from].
    destruct (nth_error (thr s) t) as [l|] eqn:El; [|cbn [fst] in *; eapply IH; eauto].
    destruct (ltstep cf t c (gl s) l) as [[[G' l'] es]|] eqn:Es; [|cbn [fst] in *; eapply IH; eauto].
    cbn [fst] in Hsafe, Hinc, HR'.
    destruct (lstep_inv _ _ _ _ _ _ _ _ Hpl Es) as [Hs0 Hlog].
    destruct (RL_inv _ _ _ Hpl HR) as [[H1 H2] Hsh HLg].
    assert (Hk : step_kind t (fst (gl s), snd (gl s)) l l').
    { apply (phase_step cf t c (fst (gl s)) (snd (gl s)) l (fst G') l' es Hpl Hth).
      - eapply I_ok; eauto.
      - apply (Hsh Hsafe0 t l El).
      - apply (RL_tidy cf progs s Hpl Hth Hrc HR t l El).
      - exact Hs0. }
    assert (Hret : forall ro o gid rv, at_ l = GRel o gid rv false -> regop_of o = Some ro ->
              exists e, head_of t (snd (gl s)) = Some e /\ decode ro rv = le_ret e).
    { intros ro o gid rv Hat Hro. pose proof (Hsh Hsafe0 t l El) as S0. unfold shape in S0. rewrite Hat, Hro in S0.
      destruct S0 as [e [Hh [_ [Hop Hrc']]]]. exists e. split; [exact Hh|].
      destruct (legal_entry _ _ _ e (HLg Hsafe0 Hinc0) (head_of_in _ _ _ Hh)) as [y [y' Hy]].
      rewrite Hop in Hy. rewrite <- Hrc'. eapply decode_correct; eauto. }
    destruct (rel_step _ _ _ _ _ t (fst (gl s)) l l' HRel El Hk Hret) as [n' [st' [acc' [Hscan HRel']]]].
    replace (gl s) with (fst (gl s), snd (gl s)) at 1 by (destruct (gl s); reflexivity).
    rewrite Hscan.
    apply (IH (Sys G' (upd (thr s) t l')) n' st' acc'); auto.
    cbn [thr]. unfold llog. cbn [gl]. rewrite Hlog. exact HRel'.
Qed.

Lemma Rel_init cf progs : Rel (thr (linit cf progs)) (llog (linit cf progs)) 0 (fun _ => SIdle) [].
Proof.
  assert (P : forall u, opphase (locof (thr (linit cf progs)) u) = NoOp).
  { intros u. unfold locof, linit, init. cbn [thr]. rewrite nth_error_map. destruct (nth_error progs u); reflexivity. }
  constructor; cbn.
  - intros t. rewrite P. exact I.
  - constructor.
  - intros a [].
  - intros t ro. rewrite P. discriminate.
  - intros a [].
  - exact I.
Qed.

(* the history of every run of register clients is well formed - per thread: invocation, exactly one logging step,
   return - and the linearization scan computes from it is a legal sequential run of reg_apply from the initial
   value in which every completed operation has the result it returned.
   Hypotheses: instrumented payload kind; empty throw plan (an operation that throws before its logging step
   would leave an Inv without Lin / Res; with the empty plan no operation ends in K_CATCH); the clients modify the
   wrapped object only through the register operations (no write / incr through a handle, no modify - reads
   through handles and read functors are allowed and emit nothing), so no read-increment-write completes
   (incrs = 0); locking enabled, no use of moved-from handles. *)
Theorem reg_hist_wf cf progs sched :
  plain cf = false -> throws cf = [] -> reg_clients progs ->
  safe cf (gl (run glob loc (tstep cf) (init cf progs) sched)) ->
  incrs (gl (run glob loc (tstep cf) (init cf progs) sched)) = 0%nat ->
  exists L, Lin.scan regop ret (hist_of cf progs sched) = Some L /\ hlegal (init_val cf) L.
Proof.
  intros Hpl Hth Hrc Hsafe Hinc.
  pose proof (proj_run cf sched (linit cf progs)) as Hp.
  assert (Hg : fst (gl (run lglob loc (ltstep cf) (linit cf progs) sched)) = gl (run glob loc (tstep cf) (init cf progs) sched)).
  { change (init cf progs) with (proj (linit cf progs)). rewrite <- Hp. reflexivity. }
  unfold Lin.scan, hist_of. apply (scan_run cf progs Hpl Hth Hrc sched (linit cf progs)).
  - apply reachable_refl.
  - rewrite Hg. exact Hsafe.
  - rewrite Hg. exact Hinc.
  - apply Rel_init.
Qed.

(* Herlihy & Wing: every history of register clients is linearizable w.r.t. reg_apply *)
Corollary reg_linearizable_hw cf progs sched :
  plain cf = false -> throws cf = [] -> reg_clients progs ->
  safe cf (gl (run glob loc (tstep cf) (init cf progs) sched)) ->
  incrs (gl (run glob loc (tstep cf) (init cf progs) sched)) = 0%nat ->
  Lin.linearizable regop ret Z reg_apply (init_val cf) (hist_of cf progs sched).
Proof.
  intros Hpl Hth Hrc Hs Hi. destruct (reg_hist_wf cf progs sched Hpl Hth Hrc Hs Hi) as [L [H1 H2]].
  eapply Lin.lin_points_linearizable; eauto.
Qed.

