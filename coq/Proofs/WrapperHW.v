(* C15: from linearization points to linearizability (Common/Lin.v, Herlihy & Wing) for the register
   operations of the Wrapper model: the annotated history of a run (hist_of), its well-formedness (per thread:
   invocation, exactly one logging step, return) and the legality of the linearization scan computes. *)
From Coq Require Import List Arith ZArith Lia Bool.
Import ListNotations.
From GV Require Import Sched Events WrapperModel WrapperProofs WrapperLin.
From GV Require Lin.
Local Open Scope Z_scope.

Notation hev := (Lin.hev regop ret).
Notation HInv := (Lin.Inv regop ret).
Notation HLin := (Lin.Lin regop ret).
Notation HRes := (Lin.Res regop ret).
Notation oprec := (Lin.oprec regop ret).

(* the result an operation reports, from its K_RET value (inverse of ret_code on the results of reg_apply) *)
Definition decode (o : regop) (rv : Z) : ret :=
  match o with
  | RLoad | RXchg _ => RVal rv
  | RStore _ => ROk
  | RCas _ _ => RCasRes (Z.odd rv) (Z.div2 rv)
  end.
Lemma decode_correct x o x' r : reg_apply x o = (x', r) -> decode o (ret_code r) = r.
Proof.
  destruct o; cbn; intros H; try (inversion H; reflexivity).
  destruct (x =? e); inversion H; subst; cbn [ret_code decode]; f_equal.
  - replace (2 * e + 1) with (1 + 2 * e) by lia. rewrite Z.odd_add_mul_2. reflexivity.
  - rewrite Z.div2_div. symmetry. apply (Z.div_unique _ _ _ 1); lia.
  - replace (2 * x' + 0) with (0 + 2 * x') by lia. rewrite Z.odd_add_mul_2. reflexivity.
  - rewrite Z.div2_div. symmetry. apply (Z.div_unique _ _ _ 0); lia.
Qed.

(* the history events of one step of thread t from l (state G) to l':
   Inv  - the K_INVOKE step of load / store / operator= / exchange / compare_exchange / operator T (it leaves the
          thread at the acquisition of the operation's guard),
   Lin  - the logging step of ltstep inside such an operation,
   Res  - the step that emits the operation's K_RET (the destructor of its guard, no exception pending).
   Handle operations, modify / read with functors, refused operations emit nothing. *)
Definition hev_of (t : nat) (G : lglob) (l l' : loc) : list hev :=
  match at_ l with
  | Idle => match at_ l' with
            | GAcq o => match regop_of o with Some ro => [HInv t ro] | None => [] end
            | _ => []
            end
  | Run (FGuard o _) _ _ _ _ =>
    match regop_of o, lin_of t (fst G) l with Some _, Some _ => [HLin t] | _, _ => [] end
  | GRel o _ rv false => match regop_of o with Some ro => [HRes t (decode ro rv)] | None => [] end
  | _ => []
  end.

Fixpoint hist_from (cf : config) (s : sys lglob loc) (sched : list (nat * nat)) : list hev :=
  match sched with
  | [] => []
  | (t, c) :: r =>
    match nth_error (thr s) t with
    | Some l =>
      match ltstep cf t c (gl s) l with
      | Some (G', l', es) => hev_of t (gl s) l l' ++ hist_from cf (Sys G' (upd (thr s) t l')) r
      | None => hist_from cf s r
      end
    | None => hist_from cf s r
    end
  end.
Definition hist_of (cf : config) (progs : list (list op)) (sched : list (nat * nat)) : list hev :=
  hist_from cf (linit cf progs) sched.

(* ---------- clients that modify the wrapped object only through the register operations ---------- *)
Definition okop (o : op) : bool :=
  match o with Use _ (AWrite _) _ | Use _ AIncr _ | Modify _ => false | _ => true end.
Definition reg_clients (progs : list (list op)) : Prop := forall p, In p progs -> forallb okop p = true.

(* thread-local: the remaining program is fine, no write through a handle / modify in progress, no exception pending *)
Definition tidy (l : loc) : Prop :=
  forallb okop (prog l) = true /\
  match at_ l with
  | Run (FUse a) code _ _ _ => a = ARead /\ code = [MRead]
  | GAcq o | Run (FGuard o _) _ _ _ _ => okop o = true
  | GRel o _ _ exn => okop o = true /\ exn = false
  | _ => True
  end.
Lemma exec_mi_nothrow cf t i ph r ok g : throws cf = [] -> m_thrown (exec_mi cf t i ph r ok g) = false.
Proof.
  intros Ht. unfold exec_mi, rd_begin, rd_end, wr_begin, wr_end. rewrite Ht.
  destruct i as [fid snap| |[|b] s| |e d];
    [| destruct ph | destruct ph | destruct ph | destruct ph as [|[|[|ph]]] | destruct ph]; reflexivity.
Qed.
Lemma tidy_step cf t c g l g' l' es : throws cf = [] -> tidy l -> tstep0 cf t c g l = Some (g', l', es) -> tidy l'.
Proof.
  intros Ht [Hp Hpc] Hs. destruct l as [pr p sl]. unfold tidy in *. cbn [prog at_] in *.
  destruct p.
  - (* Idle *) destruct pr as [|o rest]; [discriminate|]. cbn [forallb] in Hp. apply andb_true_iff in Hp as [Ho Hr].
    step_cases Hs; cbn [prog at_]; try (split; [exact Hr|]; first [exact I | exact Ho | discriminate]).
    all: split; [exact Hr|]; destruct a; [split; reflexivity|discriminate|discriminate].
  - step_cases Hs; cbn [prog at_]; auto.
  - step_cases Hs; cbn [prog at_]; auto.
  - step_cases Hs; cbn [prog at_]; auto.
  - step_cases Hs; cbn [prog at_]; auto.
  - destruct code as [|i rest]; [discriminate|]. unfold tstep0 in Hs. cbn [at_ slots prog] in Hs.
    rewrite (exec_mi_nothrow cf t i ph r ok g Ht) in Hs.
    destruct fr as [o gid|a].
    + destruct (negb (m_done _)); [inversion Hs; subst; cbn [prog at_]; auto|].
      destruct (match m_rest _ with Some c' => c' | None => rest end); inversion Hs; subst; cbn [prog at_]; auto.
    + destruct Hpc as [-> Hc]. inversion Hc; subst. unfold exec_mi, rd_begin, rd_end in Hs.
      destruct ph; cbn in Hs; inversion Hs; subst; cbn [prog at_]; auto.
  - step_cases Hs; cbn [prog at_]; auto.
Qed.

(* ---------- where a thread stands w.r.t. the register operation it is executing ---------- *)
Inductive phase := NoOp | Pre (ro : regop) | Post (ro : regop).
Definition opphase (l : loc) : phase :=
  match at_ l with
  | GAcq o => match regop_of o with Some ro => Pre ro | None => NoOp end
  | Run (FGuard o _) code _ _ _ =>
    match regop_of o with
    | Some ro => match o, code with Cas _ _, [MWrite (Priv _) _] => Post ro | _, _ => Pre ro end
    | None => NoOp
    end
  | GRel o _ _ _ => match regop_of o with Some ro => Post ro | None => NoOp end
  | _ => NoOp
  end.

(* the four kinds of steps: nothing for the history; invocation; THE logging step; return *)
Definition step_kind (t : nat) (G : lglob) (l l' : loc) : Prop :=
  (hev_of t G l l' = [] /\ opphase l' = opphase l /\ lin_of t (fst G) l = None) \/
  (exists ro, hev_of t G l l' = [HInv t ro] /\ opphase l = NoOp /\ opphase l' = Pre ro /\ lin_of t (fst G) l = None) \/
  (exists ro e, hev_of t G l l' = [HLin t] /\ opphase l = Pre ro /\ opphase l' = Post ro /\
                lin_of t (fst G) l = Some e /\ le_op e = ro) \/
  (exists ro o gid rv, hev_of t G l l' = [HRes t (decode ro rv)] /\ opphase l = Post ro /\ opphase l' = NoOp /\
                       lin_of t (fst G) l = None /\ at_ l = GRel o gid rv false /\ regop_of o = Some ro).

Lemma wop_some_whole cf o : wop_code cf o <> None ->
  match o with Load | Cast | Store _ | Assign _ | Modify _ | ReadF _ | Exchange _ | Cas _ _ => True | _ => False end.
Proof. unfold wop_code. destruct o; auto; intros H; apply H; reflexivity. Qed.

Lemma phase_step cf t c g lg l g' l' es :
  plain cf = false -> throws cf = [] -> locok cf l -> shape g t lg l -> tidy l ->
  tstep0 cf t c g l = Some (g', l', es) -> step_kind t (g, lg) l l'.
Proof.
  intros Hpl Hth [Hlen Hpc] Hsh [Hprog Htd] Hs. destruct l as [pr p sl].
  unfold step_kind, hev_of, opphase, lin_of, shape in *. cbn [at_ slots prog fst] in *.
  destruct p.
  - (* Idle *) step_cases Hs; cbn [at_ regop_of];
      first [left; repeat split; reflexivity | right; left; eexists; repeat split; reflexivity].
  - step_cases Hs; cbn [at_]; left; repeat split; reflexivity.
  - step_cases Hs; cbn [at_]; left; repeat split; reflexivity.
  - step_cases Hs; cbn [at_]; left; repeat split; reflexivity.
  - (* GAcq *) step_cases Hs. cbn [at_]. left. split; [reflexivity|]. split; [|reflexivity].
    pose proof (wop_code_regop _ _ _ _ Hpl Heqo0) as Hc.
    destruct o; try reflexivity; cbn [regop_of]; try (rewrite Hc; reflexivity).
    destruct Hc as [-> _]. reflexivity.
  - (* Run *) destruct code as [|i rest]; [destruct Hpc; congruence|].
    destruct fr as [o gid|a].
    2: { destruct Htd as [-> Hc]. inversion Hc; subst.
         pose proof (tstep0_run_glob _ _ _ _ _ _ _ _ _ _ _ _ _ _ _ Hs) as Hg.
         unfold tstep0 in Hs. cbn [at_ slots prog] in Hs. unfold exec_mi, rd_begin, rd_end in Hs.
         destruct ph; cbn in Hs; inversion Hs; subst; cbn [at_]; left; repeat split; reflexivity. }
    destruct Hpc as [_ Hw]. pose proof (wop_some_whole cf o Hw) as Hwh.
    destruct o; try contradiction; try discriminate.
    all: cbv beta iota in Hsh; unfold X0, X1, X2, X3, CS1, CS2, CF1, CF2, CF3 in *.
    all: pose proof (run_next _ _ _ _ _ _ _ _ _ _ _ _ _ _ _ _ Hs) as Hp; clear Hs;
         destruct l' as [pr' p' sl']; cbn [at_] in Hp |- *; subst p'.
    all: repeat match goal with
         | H : _ \/ _ |- _ => destruct H
         | H : _ /\ _ |- _ => destruct H
         end.
    all: repeat match goal with H : _ :: _ = _ :: _ |- _ => inversion H; clear H; subst end.
    all: unfold exec_mi, rd_begin, rd_end, wr_begin, wr_end, cas_branch; rewrite ?Hpl, ?Hth.
    all: try (destruct ph as [|[|[|ph]]]).
    all: cbn -[Z.mul Z.add].
    all: try match goal with |- context [?a =? ?b] => destruct (Z.eqb_spec a b) end; cbn -[Z.mul Z.add].
    all: first [ left; repeat split; reflexivity
               | right; right; left; eexists _, _; repeat split; reflexivity ].
  - (* GRel *) destruct Htd as [_ ->]. step_cases Hs. cbn [at_].
    destruct (regop_of o) as [ro|] eqn:Er.
    + right; right; right. exists ro, o, gid, rv. repeat split; try reflexivity; exact Er.
    + left. repeat split; reflexivity.
Qed.
