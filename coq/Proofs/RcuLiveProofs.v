(* RcuList, C14: existence-form termination.  From every reachable state some schedule of at most mu(s)
   steps finishes every thread: first the thread that holds the write mutex (if any) runs alone to the end
   of its program, then every other thread in turn.  A thread that runs alone never waits (the mutex is
   free or its own), its CAS on m_zombie_head fails at most once per attempt (a stale guess; the retry,
   being alone, succeeds: choice 0 is never a spurious failure), and the scan / reclaim loops of release
   walk down the log, whose stamps strictly decrease along next.
   No hypothesis on the programs is needed: a thread never waits for the write mutex while holding it
   (lock pcs are not holder pcs, InvA), and handles that are never released leak log records but block
   nobody. *)
From Coq Require Import List Arith ZArith Lia Bool.
Import ListNotations.
From GV Require Import Sched Events RcuModel RcuBase RcuListProofs RcuReadProofs RcuLogProofs.
Local Open Scope nat_scope.

(* the guess [old] is still the head of the log *)
Definition fr (zh old : option nat) : bool :=
  match zh, old with Some a, Some b => Nat.eqb a b | None, None => true | _, _ => false end.

(* weight of a pc: an upper bound on the number of solo steps to the end of the current operation
   (zh = m_zombie_head, zl = the log) *)
Definition wpc (zh : option nat) (zl : list nat) (p : pc) : nat :=
  let L := length zl in
  match p with
  | Idle => 0
  | R_alloc _ => 36 | R_constr _ _ => 35 | R_ldh _ _ => 34
  | R_st _ _ old => if fr zh old then 31 else 33
  | R_cas _ _ old => if fr zh old then 30 else 32
  | B_ld _ | N_ld _ _ | D_rd _ _ => 1
  | P_lock _ => 29 | P_alloc _ => 28 | P_constr _ _ => 27 | P_ld _ _ => 26
  | P_e1 _ _ => 25 | P_e2 _ => 24
  | PF_next _ _ => 25 | PF_back _ _ => 24 | PF_head _ => 23
  | PB_back _ _ => 25 | PB_next _ _ => 24 | PB_tail _ => 23
  | P_unlock => 2
  | PX_alloc => 6 | PX_constr _ => 5 | PX_free _ => 4 | PX_unl => 2
  | PA_fail => 3 | EF_lock _ _ => 29 | EF_ld0 _ _ => 28 | EF_alloc => 3
  | E_lock _ _ => 29 | E_ld0 _ _ => 28 | E_alloc _ _ _ => 27 | E_constr _ _ _ _ => 26
  | E_ldb _ _ _ _ => 25 | E_ldn _ _ _ _ _ => 24 | E_s1 _ _ _ _ _ _ => 23 | E_s2 _ _ _ _ _ _ => 22
  | E_ldz _ _ _ => 21
  | E_stz _ _ _ old => if fr zh old then 18 else 20
  | E_cas _ _ _ old => if fr zh old then 17 else 19
  | E_unlock _ _ => 1
  | U_ld => 16 * L + 20
  | U_own n _ => 8 * L + 8 * stamp zl n + 12
  | U_nx n _ => 8 * L + 8 * stamp zl n + 11
  | U_dd n _ => 8 * stamp zl n + 7 | U_df n _ => 8 * stamp zl n + 6 | U_ln n => 8 * stamp zl n + 5
  | U_zd n _ => 8 * stamp zl n + 4 | U_zf n _ => 8 * stamp zl n + 3
  | U_stn => 2 | U_sto => 1
  end.
(* successful CASes the current operation may still perform *)
Definition cl (p : pc) : nat :=
  match p with
  | R_alloc _ | R_constr _ _ | R_ldh _ _ | R_st _ _ _ | R_cas _ _ _
  | E_lock _ _ | E_ld0 _ _ | E_alloc _ _ _ | E_constr _ _ _ _ | E_ldb _ _ _ _ | E_ldn _ _ _ _ _
  | E_s1 _ _ _ _ _ _ | E_s2 _ _ _ _ _ _ | E_ldz _ _ _ | E_stz _ _ _ _ | E_cas _ _ _ _ => 1
  | _ => 0
  end.
(* the log can still grow to at most q g l entries while thread l runs alone *)
Definition qt (l : loc) : nat := cl (at_ l) + length (prog l).
Definition mt (K : nat) (g : glob) (l : loc) : nat := length (prog l) * K + wpc (zhead g) (zlog g) (at_ l).

(* zhead and the log change only by a successful CAS *)
Lemma step_log t c g l g' l' es : tstep t c g l = Some (g', l', es) ->
  (zhead g' = zhead g /\ zlog g' = zlog g) \/
  (exists z, zhead g' = Some z /\ zlog g' = z :: zlog g /\ cl (at_ l) = 1 /\ cl (at_ l') = 0 /\ prog l' = prog l).
Proof.
  intros Hs. destruct l as [pr p h its0]. destruct p; step_cases2 Hs; fold_fst.
  all: try (right; eexists; cbn [zhead zlog with_zlog with_zhead at_ prog cl]; repeat split; try reflexivity;
            match goal with |- cl (body_pc ?o) = 0 => destruct o; reflexivity end).
  all: left.
  all: try (split; reflexivity).
  all: cbn [zhead zlog with_fault with_misuse with_mtx with_head with_tail with_pos commit].
  all: try (split; reflexivity).
  all: try (split; apply modc_fields).
  all: try (split; apply construct_fields).
  all: try (split; apply destroy_fields).
  all: try (split; apply dealloc_fields).
  all: try (split; apply dealloc_raw_fields).
  all: try (split; (etransitivity; [apply modc_fields|]; reflexivity)).
  all: match goal with |- ?G => idtac "GOAL" G end.
Qed.

Lemma fr_refl zh : fr zh zh = true.
Proof. destruct zh; cbn; [apply Nat.eqb_refl|reflexivity]. Qed.
Lemma wpc_reclaim zh zl g m : wpc zh zl (reclaim_at g m) <= 8 * stamp zl m + 7.
Proof. unfold reclaim_at. destruct (znode (grec g m)); [cbn; lia|]. destruct (unfixed g); cbn; lia. Qed.
Lemma wpc_body zh zl o : wpc zh zl (body_pc o) <= 29.
Proof. destruct o; cbn; lia. Qed.

Lemma cl_reclaim g m : cl (reclaim_at g m) = 0.
Proof. unfold reclaim_at. destruct (znode (grec g m)); [reflexivity|]. destruct (unfixed g); reflexivity. Qed.
Lemma cl_body o : cl (body_pc o) = 0.
Proof. destruct o; reflexivity. Qed.

(* one step of a thread: the weight goes down (arithmetic only; the two facts about the log order are hypotheses) *)
Lemma wstep K t g l g' l' es : tstep t 0 g l = Some (g', l', es) ->
  16 * (length (zlog g) + qt l) + 40 <= K ->
  (forall n c m, at_ l = U_nx n c -> znext (grec g n) = Some m -> stamp (zlog g) m < stamp (zlog g) n) ->
  (forall n m, at_ l = U_zf n (Some m) -> stamp (zlog g) m < stamp (zlog g) n) ->
  mt K g' l' < mt K g l /\ length (zlog g') + qt l' <= length (zlog g) + qt l.
Proof.
  intros Hs HK HN HZ.
  pose proof (step_log _ _ _ _ _ _ _ Hs) as SL.
  unfold mt, qt in *.
  destruct l as [pr p h its0]. destruct p.
  all: cbn [at_ prog cl] in HK, SL, HN, HZ.
  all: step_cases2 Hs; fold_fst.
  all: cbn [at_ prog cl].
  all: destruct SL as [[Ez El]|(z1 & Ez & El & C1 & C2 & Ep)]; try discriminate; try rewrite Ez; try rewrite El.
  all: cbn [wpc length Nat.mul]; rewrite ?fr_refl.
  all: try (split; lia).
  all: rewrite ?cl_reclaim, ?cl_body.
  all: try (match goal with H : znext (grec _ _) = Some _ |- _ => pose proof (HN _ _ _ eq_refl H) end).
  all: try (pose proof (HZ _ _ eq_refl)).
  all: try (match goal with H : (_ && negb (0 =? 3)) = false |- _ => cbn [Nat.eqb negb] in H; rewrite andb_true_r in H; unfold fr; rewrite H end).
  all: repeat match goal with
       | |- context [wpc ?a ?b (body_pc ?o)] => pose proof (wpc_body a b o); generalize dependent (wpc a b (body_pc o)); intros
       | |- context [wpc ?a ?b (reclaim_at ?gg ?m)] => pose proof (wpc_reclaim a b gg m); pose proof (stamp_le b m); generalize dependent (wpc a b (reclaim_at gg m)); intros
       end.
  all: repeat match goal with |- context [stamp ?zl ?n] => pose proof (stamp_le zl n); generalize dependent (stamp zl n); intros end.
  all: try (destruct (fr _ _); split; lia).
  all: try (split; lia).
Qed.

Lemma link_down g ls n m : InvA g ls -> InvB g ls -> inlog g n -> zown g n = None -> znx g n = Some m ->
  stamp (zlog g) m < stamp (zlog g) n.
Proof.
  intros IA IB Hi Ho Hn. pose proof (b_link _ _ IB n Hi (unowned_not_stale g ls IB n Hi Ho)) as L.
  unfold link_ok in L. rewrite Hn in L. destruct L as (_ & L & _). exact L.
Qed.

(* a thread that is not waiting for somebody else's mutex can take a step, and its weight goes down *)
Lemma solo_step K g ls t l : InvA g ls -> InvB g ls -> nth_error ls t = Some l -> fin l = false ->
  (wmtx g = None \/ wmtx g = Some t) -> 16 * (length (zlog g) + qt l) + 40 <= K ->
  exists g' l' es, tstep t 0 g l = Some (g', l', es) /\ mt K g' l' < mt K g l /\
                   length (zlog g') + qt l' <= length (zlog g) + qt l.
Proof.
  intros IA IB Hl Hf Hm HK.
  destruct (tstep t 0 g l) as [[[g' l'] es]|] eqn:Hs.
  2:{ exfalso.
      assert (Hn : holds (at_ l) = false -> wmtx g = None).
      { intros Hh. destruct Hm as [Hm|Hm]; [exact Hm|]. pose proof (a_held _ _ IA t Hm) as H. rewrite (pcof_at _ _ _ Hl), Hh in H. discriminate. }
      destruct (blocked_only_at_write_mutex _ _ _ _ Hs) as [[A B]|[[o A]|[(it & cu & A)|(it & cu & A)]]].
      - unfold fin in Hf. rewrite A, B in Hf. discriminate.
      - rewrite A in Hn. specialize (Hn eq_refl). destruct l as [pr p h its0]. cbn in A. subst p. unfold tstep in Hs. cbn [at_] in Hs. rewrite Hn in Hs. discriminate.
      - rewrite A in Hn. specialize (Hn eq_refl). destruct l as [pr p h its0]. cbn in A. subst p. unfold tstep in Hs. cbn [at_] in Hs. rewrite Hn in Hs. discriminate.
      - rewrite A in Hn. specialize (Hn eq_refl). destruct l as [pr p h its0]. cbn in A. subst p. unfold tstep in Hs. cbn [at_] in Hs. rewrite Hn in Hs. discriminate. }
  exists g', l', es. split; [reflexivity|].
  pose proof (b_thr _ _ IB t l Hl) as Tt.
  apply (wstep K t g l g' l' es Hs HK).
  - intros n c m Ha Hn. unfold thrB in Tt. rewrite Ha in Tt. destruct Tt as ((Hi & _) & Ho & _).
    apply (link_down g ls n m IA IB Hi Ho). exact Hn.
  - intros n m Ha. unfold thrB in Tt. rewrite Ha in Tt. destruct Tt as ((Hi & Hlt & _ & Hall) & _ & Hnx).
    apply (link_down g ls n m IA IB Hi (Hall n Hi Hlt)). symmetry. exact Hnx.
Qed.

(* ---------- running one thread alone to the end of its program ---------- *)
Notation runR := (run glob loc tstep).
Notation stepR := (step glob loc tstep).
Definition Qtot (s : sysR) : nat := length (zlog (gl s)) + list_sum (map qt (thr s)).

Lemma sum_ge {A} (f : A -> nat) (l : list A) t x : nth_error l t = Some x -> f x <= list_sum (map f l).
Proof.
  revert t; induction l as [|h r IH]; destruct t; simpl; intros H; try discriminate.
  - inversion H; subst. lia.
  - specialize (IH _ H). lia.
Qed.
Lemma step_at' (s : sysR) t l g' l' es : nth_error (thr s) t = Some l -> tstep t 0 (gl s) l = Some (g', l', es) ->
  stepR s (t, 0) = Sys g' (upd (thr s) t l').
Proof. intros Hl Hs. unfold step, sys_step. rewrite Hl, Hs. reflexivity. Qed.

Lemma solo_run unf progs K : forall n s t l, R unf progs s -> nth_error (thr s) t = Some l -> mt K (gl s) l <= n ->
  (wmtx (gl s) = None \/ wmtx (gl s) = Some t) -> 16 * Qtot s + 40 <= K ->
  exists k, k <= n /\
    let s' := runR s (repeat (t, 0) k) in
    R unf progs s' /\ (exists l', nth_error (thr s') t = Some l' /\ fin l' = true) /\
    (forall u, u <> t -> nth_error (thr s') u = nth_error (thr s) u) /\
    wmtx (gl s') = None /\ Qtot s' <= Qtot s.
Proof.
  induction n as [|n IH]; intros s t l HR Hl Hn Hm HK.
  all: destruct (R_Inv2 _ _ _ HR) as [IA IB].
  all: destruct (fin l) eqn:Hf.
  all: try (exists 0; split; [lia|]; cbn [repeat run fold_left]; split; [exact HR|]; split; [exists l; auto|]; split; [auto|]; split; [|lia];
            destruct Hm as [Hm|Hm]; [exact Hm|]; pose proof (a_held _ _ IA t Hm) as H; rewrite (pcof_at _ _ _ Hl) in H;
            unfold fin in Hf; destruct (at_ l); try discriminate).
  all: assert (HK' : 16 * (length (zlog (gl s)) + qt l) + 40 <= K) by (pose proof (sum_ge qt (thr s) t l Hl); unfold Qtot in HK; lia).
  all: destruct (solo_step K (gl s) (thr s) t l IA IB Hl Hf Hm HK') as (g' & l' & es & Hs & Hd & Hq).
  - lia.
  - pose proof (step_at' s t l g' l' es Hl Hs) as Est.
    assert (HR' : R unf progs (stepR s (t, 0))) by (apply reachable_step; exact HR).
    set (s1 := stepR s (t, 0)) in *.
    assert (Hl1 : nth_error (thr s1) t = Some l') by (rewrite Est; cbn [thr]; apply (nth_upd_eq _ _ _ _ Hl)).
    assert (Hq1 : Qtot s1 <= Qtot s).
    { unfold Qtot. rewrite Est. cbn [gl thr]. pose proof (sum_upd qt (thr s) t l l' Hl). lia. }
    assert (Hm1 : wmtx (gl s1) = None \/ wmtx (gl s1) = Some t).
    { destruct (wmtx (gl s1)) as [a|] eqn:Ea; [|left; reflexivity]. right. f_equal.
      destruct (Nat.eq_dec a t) as [E|E]; [exact E|exfalso].
      destruct (R_Inv2 _ _ _ HR') as [IA1 _]. pose proof (a_held _ _ IA1 a Ea) as H.
      assert (pcof (thr s1) a = pcof (thr s) a) as Ep.
      { unfold pcof, locof. rewrite Est. cbn [thr]. rewrite nth_upd_ne by (intros E'; apply E; symmetry; exact E'). reflexivity. }
      rewrite Ep in H. pose proof (a_own _ _ IA a H) as Ho. destruct Hm as [Hm|Hm]; congruence. }
    destruct (IH s1 t l' HR' Hl1) as (k & Hk & HRk & Hfk & Hok & Hmk & Hqk); [rewrite Est; cbn [gl]; lia|exact Hm1|lia|].
    exists (S k). split; [lia|]. cbn [repeat run fold_left]. fold s1. change (fold_left stepR (repeat (t, 0) k) s1) with (runR s1 (repeat (t, 0) k)).
    split; [exact HRk|]. split; [exact Hfk|]. split; [|split; [exact Hmk|lia]].
    intros u Hu. rewrite (Hok u Hu). rewrite Est. cbn [thr]. apply nth_upd_ne. intros E'. apply Hu. symmetry. exact E'.
Qed.

Lemma R_len unf progs s : R unf progs s -> length (thr s) = length progs.
Proof.
  intros H. apply (reachable_inv glob loc tstep (fun _ ls => length ls = length progs)) with (s0 := init unf progs); [| |exact H].
  - intros g ls t c l g' l' es E _ _. rewrite upd_length. exact E.
  - cbn. apply map_length.
Qed.
Lemma wpc_le zh zl p : wpc zh zl p <= 16 * length zl + 36.
Proof.
  destruct p; cbn [wpc]; try lia; try (destruct (fr _ _); lia).
  all: match goal with |- context [stamp ?l ?n] => pose proof (stamp_le l n) end; lia.
Qed.
Definition B (K : nat) (l : loc) : nat := (length (prog l) + 1) * K.
Lemma mt_le_B K g l : 16 * length (zlog g) + 40 <= K -> mt K g l <= B K l.
Proof. intros H. unfold mt, B. pose proof (wpc_le (zhead g) (zlog g) (at_ l)). nia. Qed.
Lemma locof_nth ls t : t < length ls -> nth_error ls t = Some (locof ls t).
Proof. intros H. unfold locof. destruct (nth_error ls t) eqn:E; [reflexivity|]. apply nth_error_None in E. lia. Qed.

(* the threads of ts run one after the other, each alone to the end of its program; the first one may be the
   holder of the write mutex *)
Lemma run_list unf progs K : forall ts s, R unf progs s -> (forall t, In t ts -> t < length progs) ->
  16 * Qtot s + 40 <= K ->
  (wmtx (gl s) = None \/ exists a r, ts = a :: r /\ wmtx (gl s) = Some a) ->
  exists sc, length sc <= list_sum (map (fun t => B K (locof (thr s) t)) ts) /\
    let s' := runR s sc in
    R unf progs s' /\ (forall t, In t ts -> fin (locof (thr s') t) = true) /\
    (forall u, ~ In u ts -> nth_error (thr s') u = nth_error (thr s) u) /\ Qtot s' <= Qtot s /\
    (ts <> [] -> wmtx (gl s') = None).
Proof.
  induction ts as [|t r IH]; intros s HR Hts HK Hm.
  - exists []. cbn. repeat split; auto. congruence.
  - assert (Ht : t < length (thr s)) by (rewrite (R_len _ _ _ HR); apply Hts; left; reflexivity).
    pose proof (locof_nth _ _ Ht) as Hl. set (l := locof (thr s) t) in *.
    assert (Hm' : wmtx (gl s) = None \/ wmtx (gl s) = Some t).
    { destruct Hm as [Hm|(a & r0 & E & Hm)]; [left; exact Hm|right]. inversion E; subst. exact Hm. }
    assert (HKz : 16 * length (zlog (gl s)) + 40 <= K) by (unfold Qtot in HK; lia).
    destruct (solo_run unf progs K (B K l) s t l HR Hl (mt_le_B K (gl s) l HKz) Hm' HK) as (k & Hk & HR1 & (l1 & Hl1 & Hf1) & Ho1 & Hm1 & Hq1).
    set (s1 := runR s (repeat (t, 0) k)) in *.
    destruct (IH s1 HR1) as (sc & Hlen & HR2 & Hf2 & Ho2 & Hq2 & Hm2); [intros u Hu; apply Hts; right; exact Hu|lia|left; exact Hm1|].
    exists (repeat (t, 0) k ++ sc). split.
    + rewrite app_length, repeat_length. cbn [map]. fold l.
      assert (list_sum (map (fun u => B K (locof (thr s1) u)) r) <= list_sum (map (fun u => B K (locof (thr s) u)) r)).
      { apply sum_mono. intros u _. destruct (Nat.eq_dec u t) as [->|Hne].
        - unfold locof at 1. rewrite Hl1. fold l. unfold fin in Hf1. unfold B. destruct (at_ l1); try discriminate. destruct (prog l1); [cbn; nia|discriminate].
        - unfold locof. rewrite (Ho1 u Hne). lia. }
      change (list_sum (B K l :: ?x)) with (B K l + list_sum x). lia.
    + rewrite run_app. fold s1. cbn zeta. split; [exact HR2|]. split; [|split; [|split; [lia|intros _]]].
      * intros u [<-|Hu]; [|apply Hf2; exact Hu].
        destruct (in_dec Nat.eq_dec t r) as [Hi|Hi]; [apply Hf2; exact Hi|]. unfold locof. rewrite (Ho2 t Hi), Hl1. exact Hf1.
      * intros u Hu. rewrite Ho2 by (intros H; apply Hu; right; exact H). apply Ho1. intros ->. apply Hu. left. reflexivity.
      * destruct r as [|t' r']; [assert (sc = []) by (destruct sc; [reflexivity|cbn in Hlen; lia]); subst sc; exact Hm1|apply Hm2; discriminate].
Qed.

Lemma seq_locof_gen (ls pre : list loc) : map (locof (pre ++ ls)) (seq (length pre) (length ls)) = ls.
Proof.
  revert pre. induction ls as [|a r IH]; intros pre; [reflexivity|]. cbn [length seq map]. f_equal.
  - unfold locof. rewrite nth_error_app2 by lia. rewrite Nat.sub_diag. reflexivity.
  - specialize (IH (pre ++ [a])). rewrite <- app_assoc in IH. cbn [app] in IH. rewrite app_length in IH. cbn [length] in IH.
    rewrite Nat.add_1_r in IH. exact IH.
Qed.
Lemma seq_locof (ls : list loc) : map (locof ls) (seq 0 (length ls)) = ls.
Proof. apply (seq_locof_gen ls []). Qed.

(* the explicit bound: K = 16 (|log| + operations and pushes still to come) + 40 steps per operation, once for every
   thread and once more for the thread that holds the write mutex *)
Definition Kof (s : sysR) : nat := 16 * Qtot s + 40.
Definition mu (s : sysR) : nat :=
  match wmtx (gl s) with Some a => B (Kof s) (locof (thr s) a) | None => 0 end + list_sum (map (B (Kof s)) (thr s)).

(* C14 / C05: from EVERY reachable state, whatever the programs, some schedule of at most mu(s) steps finishes every
   thread: readers, writers and reclaimers cannot deadlock or livelock each other *)
Theorem eventually_finishes unf progs s : R unf progs s ->
  exists sc, length sc <= mu s /\ all_fin glob loc fin (runR s sc) = true.
Proof.
  intros HR. destruct (R_Inv2 _ _ _ HR) as [IA IB]. pose proof (R_len _ _ _ HR) as HN.
  set (ts := match wmtx (gl s) with Some a => [a] | None => [] end ++ seq 0 (length progs)).
  destruct (run_list unf progs (Kof s) ts s HR) as (sc & Hlen & HR' & Hfin & _ & _ & _).
  - intros t Ht. unfold ts in Ht. apply in_app_or in Ht. destruct Ht as [Ht|Ht]; [|apply in_seq in Ht; lia].
    destruct (wmtx (gl s)) as [a|] eqn:Ea; [|destruct Ht]. destruct Ht as [<-|[]].
    pose proof (a_held _ _ IA a Ea) as H. unfold pcof, locof in H. destruct (nth_error (thr s) a) eqn:E; [|discriminate].
    rewrite <- HN. apply nth_error_Some. congruence.
  - unfold Kof. lia.
  - unfold ts. destruct (wmtx (gl s)) as [a|]; [right; exists a, (seq 0 (length progs)); auto|left; reflexivity].
  - exists sc. split.
    + eapply Nat.le_trans; [exact Hlen|]. unfold ts, mu. rewrite map_app, list_sum_app.
      rewrite <- HN. replace (map (fun t => B (Kof s) (locof (thr s) t)) (seq 0 (length (thr s)))) with (map (B (Kof s)) (thr s)).
      * destruct (wmtx (gl s)); cbn; lia.
      * rewrite <- (seq_locof (thr s)) at 1. rewrite map_map. reflexivity.
    + unfold all_fin. apply forallb_forall. intros x Hx. apply In_nth_error in Hx. destruct Hx as [t Ht].
      assert (t < length progs) as Hlt by (rewrite <- (R_len _ _ _ HR'); apply nth_error_Some; congruence).
      specialize (Hfin t). unfold locof in Hfin. rewrite Ht in Hfin. apply Hfin. unfold ts. apply in_or_app. right. apply in_seq. lia.
Qed.

(* in every reachable unfinished state some step that is not a retry is enabled (choice 0 never fails spuriously) *)
Corollary progress_step unf progs s : R unf progs s -> all_fin glob loc fin s = false ->
  exists t, enabled glob loc tstep s t 0.
Proof.
  intros HR Hnf. destruct (R_Inv2 _ _ _ HR) as [IA IB].
  assert (Hpick : exists t l, nth_error (thr s) t = Some l /\ fin l = false /\ (wmtx (gl s) = None \/ wmtx (gl s) = Some t)).
  { destruct (wmtx (gl s)) as [a|] eqn:Ea.
    - pose proof (a_held _ _ IA a Ea) as H. unfold pcof, locof in H. destruct (nth_error (thr s) a) as [l|] eqn:E; [|discriminate].
      exists a, l. split; [exact E|]. split; [|right; reflexivity]. unfold fin. destruct (at_ l); try discriminate; reflexivity.
    - unfold all_fin in Hnf. destruct (forallb fin (thr s)) eqn:E; [discriminate|].
      assert (exists x, In x (thr s) /\ fin x = false) as (x & Hx & Hf).
      { clear -E. induction (thr s) as [|a r IH]; [discriminate|]. cbn in E. destruct (fin a) eqn:Fa; [destruct (IH E) as (x & A & B0); exists x; split; [right|]; auto|exists a; split; [left|]; auto]. }
      apply In_nth_error in Hx. destruct Hx as [t Ht]. exists t, x. auto. }
  destruct Hpick as (t & l & Hl & Hf & Hm).
  destruct (solo_step (16 * (length (zlog (gl s)) + qt l) + 40) (gl s) (thr s) t l IA IB Hl Hf Hm (Nat.le_refl _)) as (g' & l' & es & Hs & _).
  exists t, l, (g', l', es). auto.
Qed.
