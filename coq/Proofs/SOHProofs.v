(* Invariants, refinement and progress facts for the SearchableObjectHolder model (property C17). *)
From Coq Require Import List Arith ZArith Lia Bool.
Import ListNotations.
From GV Require Import Sched Events SOHModel.
Local Open Scope Z_scope.

Notation sysS := (sys glob loc).

(* ====================================================================== *)
(* A. strictly sorted association lists                                    *)
(* ====================================================================== *)
Definition keys {A} (m : list (Z * A)) : list Z := map fst m.
Fixpoint sorted {A} (m : list (Z * A)) : Prop :=
  match m with
  | [] => True
  | (k, _) :: r => (forall k', In k' (keys r) -> k < k') /\ sorted r
  end.

Lemma lookup_none {A} k (m : list (Z * A)) : lookup k m = None <-> ~ In k (keys m).
Proof.
  induction m as [|[k' v] r IH]; cbn; [tauto|].
  destruct (Z.eqb_spec k' k) as [->|Hne]; split; intros H; try discriminate.
  - exfalso. apply H. auto.
  - intros [E|E]; [congruence|]. apply IH in H. auto.
  - apply IH. intros E. apply H. auto.
Qed.
Lemma lookup_some_in {A} k v (m : list (Z * A)) : lookup k m = Some v -> In (k, v) m.
Proof.
  induction m as [|[k' v'] r IH]; cbn; [discriminate|].
  destruct (Z.eqb_spec k' k) as [->|Hne]; intros H; [inversion H; auto|auto].
Qed.
Lemma lookup_some_key {A} k v (m : list (Z * A)) : lookup k m = Some v -> In k (keys m).
Proof. intros H. apply lookup_some_in in H. apply (in_map fst) in H. exact H. Qed.
Lemma in_lookup {A} k v (m : list (Z * A)) : sorted m -> In (k, v) m -> lookup k m = Some v.
Proof.
  induction m as [|[k' v'] r IH]; cbn; [tauto|]. intros [Hlt Hs] [E|Hin].
  - inversion E; subst. rewrite Z.eqb_refl. reflexivity.
  - destruct (Z.eqb_spec k' k) as [->|Hne]; [|auto].
    exfalso. specialize (Hlt k (in_map fst _ _ Hin)). lia.
Qed.

Lemma keys_ins {A} k (v : A) m k' : In k' (keys (ins k v m)) <-> k' = k \/ In k' (keys m).
Proof.
  induction m as [|[k0 v0] r IH]; cbn; [intuition|].
  destruct (Z.ltb_spec k k0); cbn; [intuition|].
  destruct (Z.eqb_spec k k0) as [->|Hne]; cbn; [intuition|]. rewrite IH. intuition.
Qed.
Lemma sorted_ins {A} k (v : A) m : sorted m -> sorted (ins k v m).
Proof.
  induction m as [|[k0 v0] r IH]; cbn; [intuition|]. intros [Hlt Hs].
  destruct (Z.ltb_spec k k0); cbn.
  - repeat split; auto. intros k' [E|Hin]; [lia|]. specialize (Hlt _ Hin). lia.
  - destruct (Z.eqb_spec k k0) as [->|Hne]; cbn; [auto|]. split; [|auto].
    intros k' Hin. apply keys_ins in Hin. destruct Hin as [->|Hin]; [lia|auto].
Qed.
Lemma keys_put {A} k (v : A) m k' : In k' (keys (put k v m)) <-> k' = k \/ In k' (keys m).
Proof.
  induction m as [|[k0 v0] r IH]; cbn; [intuition|].
  destruct (Z.ltb_spec k k0); cbn; [intuition|].
  destruct (Z.eqb_spec k k0) as [->|Hne]; cbn; [intuition|]. rewrite IH. intuition.
Qed.
Lemma sorted_put {A} k (v : A) m : sorted m -> sorted (put k v m).
Proof.
  induction m as [|[k0 v0] r IH]; cbn; [intuition|]. intros [Hlt Hs].
  destruct (Z.ltb_spec k k0); cbn.
  - repeat split; auto. intros k' [E|Hin]; [lia|]. specialize (Hlt _ Hin). lia.
  - destruct (Z.eqb_spec k k0) as [->|Hne]; cbn; [auto|]. split; [|auto].
    intros k' Hin. apply keys_put in Hin. destruct Hin as [->|Hin]; [lia|auto].
Qed.
Lemma keys_del_sub {A} k (m : list (Z * A)) k' : In k' (keys (del k m)) -> In k' (keys m).
Proof.
  induction m as [|[k0 v0] r IH]; cbn; [tauto|].
  destruct (Z.eqb_spec k0 k); cbn; intuition.
Qed.
Lemma sorted_del {A} k (m : list (Z * A)) : sorted m -> sorted (del k m).
Proof.
  induction m as [|[k0 v0] r IH]; cbn; [tauto|]. intros [Hlt Hs].
  destruct (Z.eqb_spec k0 k); cbn; [auto|]. split; [|auto].
  intros k' Hin. apply keys_del_sub in Hin. auto.
Qed.

Lemma lookup_ins {A} k (v : A) m k' : sorted m ->
  lookup k' (ins k v m) = if k' =? k then (match lookup k m with Some x => Some x | None => Some v end) else lookup k' m.
Proof.
  induction m as [|[k0 v0] r IH]; cbn.
  - intros _. rewrite (Z.eqb_sym k k'). destruct (k' =? k); reflexivity.
  - intros [Hlt Hs]. destruct (Z.ltb_spec k k0); cbn.
    + rewrite (Z.eqb_sym k k'). destruct (Z.eqb_spec k' k) as [E|Hne].
      * destruct (Z.eqb_spec k0 k); [lia|].
        assert (lookup k r = None) as ->; [|reflexivity].
        apply lookup_none. intros Hin. specialize (Hlt _ Hin). lia.
      * reflexivity.
    + destruct (Z.eqb_spec k k0) as [->|Hne]; cbn.
      * destruct (Z.eqb_spec k' k0) as [E|Hne']; [rewrite E, Z.eqb_refl|]; [reflexivity|].
        destruct (Z.eqb_spec k0 k'); [lia|reflexivity].
      * rewrite (IH Hs). destruct (Z.eqb_spec k0 k'), (Z.eqb_spec k' k), (Z.eqb_spec k0 k); try lia; reflexivity.
Qed.
Lemma lookup_put {A} k (v : A) m k' : sorted m ->
  lookup k' (put k v m) = if k' =? k then Some v else lookup k' m.
Proof.
  induction m as [|[k0 v0] r IH]; cbn.
  - intros _. rewrite (Z.eqb_sym k k'). reflexivity.
  - intros [Hlt Hs]. destruct (Z.ltb_spec k k0); cbn.
    + rewrite (Z.eqb_sym k k'). reflexivity.
    + destruct (Z.eqb_spec k k0) as [->|Hne]; cbn.
      * rewrite (Z.eqb_sym k0 k'). destruct (k' =? k0); reflexivity.
      * rewrite (IH Hs). destruct (Z.eqb_spec k0 k'), (Z.eqb_spec k' k); try lia; reflexivity.
Qed.
Lemma lookup_del {A} k (m : list (Z * A)) k' : sorted m ->
  lookup k' (del k m) = if k' =? k then None else lookup k' m.
Proof.
  induction m as [|[k0 v0] r IH]; cbn.
  - intros _. destruct (k' =? k); reflexivity.
  - intros [Hlt Hs]. destruct (Z.eqb_spec k0 k) as [->|Hne]; cbn.
    + destruct (Z.eqb_spec k' k) as [E|Hne'].
      * rewrite E. apply lookup_none. intros Hin. specialize (Hlt _ Hin). lia.
      * destruct (Z.eqb_spec k k'); [lia|reflexivity].
    + rewrite (IH Hs). destruct (Z.eqb_spec k0 k'), (Z.eqb_spec k' k); try lia; reflexivity.
Qed.

Lemma ins_len {A} k (v : A) m : (length (ins k v m) <= S (length m))%nat.
Proof.
  induction m as [|[k0 v0] r IH]; cbn; [lia|].
  destruct (k <? k0); cbn; [lia|]. destruct (k =? k0); cbn; lia.
Qed.
Lemma del_len {A} k (m : list (Z * A)) : (length (del k m) <= length m)%nat.
Proof. induction m as [|[k0 v0] r IH]; cbn; [lia|]. destruct (k0 =? k); cbn; lia. Qed.
(* position of an iterator: the map splits around the node with key k *)
Lemma sorted_app_inv {A} (pre : list (Z * A)) k p suf : sorted (pre ++ (k, p) :: suf) ->
  ~ In k (keys pre) /\ sorted ((k, p) :: suf).
Proof.
  induction pre as [|[k0 v0] r IH]; cbn; [tauto|]. intros [Hlt Hs].
  destruct (IH Hs) as [Hn Hs']. split; [|exact Hs'].
  intros [E|Hin]; [|auto]. subst.
  specialize (Hlt k). unfold keys in Hlt. rewrite map_app in Hlt. cbn in Hlt.
  assert (k < k) by (apply Hlt; apply in_or_app; right; left; reflexivity). lia.
Qed.
Lemma lookup_split {A} (pre : list (Z * A)) k p suf : sorted (pre ++ (k, p) :: suf) ->
  lookup k (pre ++ (k, p) :: suf) = Some p.
Proof. intros H. apply in_lookup; [exact H|]. apply in_or_app. right. left. reflexivity. Qed.
Lemma next_key_split {A} (pre : list (Z * A)) k p suf : sorted (pre ++ (k, p) :: suf) ->
  next_key k (pre ++ (k, p) :: suf) = first_key suf.
Proof.
  induction pre as [|[k0 v0] r IH]; cbn.
  - intros _. rewrite Z.eqb_refl. reflexivity.
  - intros [Hlt Hs]. destruct (Z.eqb_spec k0 k) as [->|Hne]; [|auto].
    exfalso. specialize (Hlt k). unfold keys in Hlt. rewrite map_app in Hlt. cbn in Hlt.
    assert (k < k) by (apply Hlt; apply in_or_app; right; left; reflexivity). lia.
Qed.

(* ====================================================================== *)
(* B. reference counting                                                   *)
(* ====================================================================== *)
Definition cnt_opt (id : nat) (p : option ptr) : nat :=
  match p with Some q => if Nat.eqb (pid q) id then 1 else 0 | None => 0 end.
Fixpoint cnt_o (id : nat) (m : omapT) : nat :=
  match m with [] => 0 | (_, p) :: r => cnt_opt id (Some p) + cnt_o id r end.
Definition cnt_loc (id : nat) (l : loc) : nat :=
  (cnt_opt id (fst (slots l)) + cnt_opt id (snd (slots l)) + cnt_opt id (held l))%nat.

Lemma cnt_ins id k p m : lookup k m = None -> cnt_o id (ins k p m) = (cnt_o id m + cnt_opt id (Some p))%nat.
Proof.
  induction m as [|[k0 p0] r IH]; cbn [lookup ins cnt_o]; intros H; [lia|].
  destruct (Z.eqb_spec k0 k) as [->|Hne]; [discriminate|].
  destruct (Z.ltb_spec k k0); cbn [cnt_o]; [lia|].
  destruct (Z.eqb_spec k k0); [lia|]. cbn [cnt_o]. rewrite (IH H). lia.
Qed.
Lemma cnt_del id k p m : lookup k m = Some p -> (cnt_o id (del k m) + cnt_opt id (Some p))%nat = cnt_o id m.
Proof.
  induction m as [|[k0 p0] r IH]; cbn [lookup del cnt_o]; intros H; [discriminate|].
  destruct (Z.eqb_spec k0 k) as [->|Hne]; [inversion H; subst; lia|].
  cbn [cnt_o]. specialize (IH H). lia.
Qed.
Lemma cnt_lookup k p m : lookup k m = Some p -> (1 <= cnt_o (pid p) m)%nat.
Proof.
  intros H. rewrite <- (cnt_del (pid p) k p m H). cbn. rewrite Nat.eqb_refl. lia.
Qed.

Lemma rc_of_app h id : rc_of (h ++ [1%nat]) id = if Nat.eqb id (S (length h)) then 1%nat else rc_of h id.
Proof.
  destruct id as [|i]; cbn; [reflexivity|].
  destruct (Nat.eqb_spec i (length h)) as [->|Hne].
  - rewrite app_nth2 by lia. rewrite Nat.sub_diag. reflexivity.
  - destruct (Nat.lt_ge_cases i (length h)).
    + rewrite app_nth1 by lia. reflexivity.
    + rewrite !nth_overflow; [reflexivity|lia|rewrite app_length; cbn; lia].
Qed.
Lemma rc_of_fresh h : rc_of h (S (length h)) = 0%nat.
Proof. cbn. apply nth_overflow. lia. Qed.

Lemma nth_upd_nat (h : list nat) i j x : nth j (upd h i x) 0%nat = if Nat.eqb j i then (if Nat.ltb i (length h) then x else 0%nat) else nth j h 0%nat.
Proof.
  revert i j; induction h as [|a r IH]; intros [|i] [|j]; cbn; try reflexivity.
  - destruct (Nat.eqb j i); reflexivity.
  - rewrite IH. cbn. reflexivity.
Qed.

Lemma rc_inc_ok h id h' : rc_inc h id = (h', true) ->
  forall id', rc_of h' id' = if Nat.eqb id' id then S (rc_of h id) else rc_of h id'.
Proof.
  unfold rc_inc. destruct id as [|i]; [discriminate|].
  destruct (nth_error h i) as [[|n]|] eqn:E; try discriminate. intros H; inversion H; subst; clear H.
  intros [|j]; cbn [rc_of]; [reflexivity|]. rewrite nth_upd_nat. cbn [Nat.eqb].
  destruct (Nat.eqb_spec j i) as [->|Hne]; [|reflexivity].
  assert (i < length h)%nat as Hlt by (apply nth_error_Some; congruence).
  apply Nat.ltb_lt in Hlt. rewrite Hlt. rewrite (nth_error_nth _ _ _ E). reflexivity.
Qed.
Lemma rc_inc_alive h id : (0 < rc_of h id)%nat -> exists h', rc_inc h id = (h', true).
Proof.
  unfold rc_inc, rc_of. destruct id as [|i]; [lia|]. intros H.
  destruct (nth_error h i) as [[|n]|] eqn:E.
  - rewrite (nth_error_nth _ _ _ E) in H. lia.
  - eexists; reflexivity.
  - apply nth_error_None in E. rewrite nth_overflow in H by lia. lia.
Qed.
Lemma rc_dec_ok h id h' : rc_dec h id = (h', true) ->
  forall id', rc_of h id' = if Nat.eqb id' id then S (rc_of h' id') else rc_of h' id'.
Proof.
  unfold rc_dec. destruct id as [|i]; [discriminate|].
  destruct (nth_error h i) as [[|n]|] eqn:E; try discriminate. intros H; inversion H; subst; clear H.
  intros [|j]; cbn [rc_of]; [reflexivity|]. rewrite nth_upd_nat. cbn [Nat.eqb].
  destruct (Nat.eqb_spec j i) as [->|Hne]; [|reflexivity].
  assert (i < length h)%nat as Hlt by (apply nth_error_Some; congruence).
  apply Nat.ltb_lt in Hlt. rewrite Hlt. rewrite (nth_error_nth _ _ _ E). reflexivity.
Qed.
Lemma rc_dec_alive h id : (0 < rc_of h id)%nat -> exists h', rc_dec h id = (h', true).
Proof.
  unfold rc_dec, rc_of. destruct id as [|i]; [lia|]. intros H.
  destruct (nth_error h i) as [[|n]|] eqn:E.
  - rewrite (nth_error_nth _ _ _ E) in H. lia.
  - eexists; reflexivity.
  - apply nth_error_None in E. rewrite nth_overflow in H by lia. lia.
Qed.

(* sums over the thread list *)
Lemma sum_ge {A} (f : A -> nat) (l : list A) t x : nth_error l t = Some x -> (f x <= list_sum (map f l))%nat.
Proof.
  revert t; induction l as [|h r IH]; destruct t; simpl; intros H; try discriminate.
  - inversion H; subst. lia.
  - specialize (IH _ H). lia.
Qed.

(* ====================================================================== *)
(* C. the invariant                                                        *)
(* ====================================================================== *)
Definition dummy : loc := Loc [] Idle (None, None) None.
Definition lof (ls : list loc) (u : nat) : loc := nth u ls dummy.
Definition pcof (ls : list loc) (u : nat) : pc := at_ (lof ls u).
Lemma lof_upd ls t l l' u : nth_error ls t = Some l ->
  lof (upd ls t l') u = if Nat.eqb u t then l' else lof ls u.
Proof.
  intros H. unfold lof. destruct (Nat.eqb_spec u t) as [->|Hne].
  - apply nth_error_nth. apply (nth_upd_eq _ _ _ _ H).
  - pose proof (nth_upd_ne ls t u l' (not_eq_sym Hne)) as E.
    destruct (nth_error ls u) as [x|] eqn:Eu.
    + rewrite (nth_error_nth _ _ _ Eu). apply nth_error_nth. congruence.
    + rewrite !nth_overflow; auto.
      * apply nth_error_None. exact Eu.
      * apply nth_error_None. congruence.
Qed.
Lemma lof_at ls t l : nth_error ls t = Some l -> lof ls t = l.
Proof. intros H. unfold lof. apply nth_error_nth. exact H. Qed.
Lemma pcof_upd ls t l l' u : nth_error ls t = Some l ->
  pcof (upd ls t l') u = if Nat.eqb u t then at_ l' else pcof ls u.
Proof. intros H. unfold pcof. rewrite (lof_upd _ _ _ _ _ H). destruct (Nat.eqb u t); reflexivity. Qed.
Lemma pcof_at ls t l : nth_error ls t = Some l -> pcof ls t = at_ l.
Proof. intros H. unfold pcof. rewrite (lof_at _ _ _ H). reflexivity. Qed.
Arguments pcof : simpl never.
Arguments lof : simpl never.

(* pcs inside the critical section *)
Definition holds (p : pc) : bool := match p with Call _ _ | Unlock _ _ _ | Win _ _ _ _ _ | XUnlock _ => true | _ => false end.
Definition is_some {A} (x : option A) : bool := match x with Some _ => true | None => false end.
(* where the in-flight pointer of a thread may be non-null *)
Definition held_ok (p : pc) (h : option ptr) : bool :=
  match p with
  | SLock o => match new_arg o with Some _ => is_some h | None => negb (is_some h) end
  | Unlock o _ _ => match dst_slot o with Some _ => true | None => negb (is_some h) end
  | Win o _ _ _ _ => match dst_slot o with Some _ => true | None => negb (is_some h) end
  | _ => negb (is_some h)
  end.

(* the sequential history recorded by the ghost log *)
Definition st0 : mstate := MS [] [] 0.
Fixpoint replay (thr : list Z) (s : mstate) (lg : list entry) : mstate :=
  match lg with
  | [] => s
  | e :: r => replay thr (fst (apply_op thr (e_op e) (e_arg e) s)) r
  end.
Fixpoint legal (thr : list Z) (s : mstate) (lg : list entry) : Prop :=
  match lg with
  | [] => True
  | e :: r => snd (apply_op thr (e_op e) (e_arg e) s) = e_ret e /\ legal thr (fst (apply_op thr (e_op e) (e_arg e) s)) r
  end.
Lemma replay_app thr s a b : replay thr s (a ++ b) = replay thr (replay thr s a) b.
Proof. revert s; induction a as [|e r IH]; intros s; cbn; auto. Qed.
Lemma legal_app thr s a b : legal thr s (a ++ b) <-> legal thr s a /\ legal thr (replay thr s a) b.
Proof. revert s; induction a as [|e r IH]; intros s; cbn; [tauto|]. rewrite IH. tauto. Qed.

Definition cur (g : glob) : mstate := MS (omap g) (tmap g) (calls g).
Definition hist (g : glob) : mstate := replay (throws g) st0 (log g).
(* what the owner of the mutex has done so far, in terms of the method run alone on the state
   the log describes *)
Definition lin_pc (g : glob) (p : pc) : Prop :=
  match p with
  | Unlock o a r => apply_op (throws g) o a (hist g) = (cur g, Some r)
  | Win o a r _ _ => apply_op (throws g) o a (hist g) = (cur g, Some r)
  | XUnlock o => apply_op (throws g) (OP o) null_ptr (hist g) = (cur g, None)
  | Call o k =>
    m_o (hist g) = omap g /\ m_t (hist g) = tmap g /\
    exists pre p suf, omap g = pre ++ (k, p) :: suf /\
      pscan (throws g) o (omap g) (tmap g) ((k, p) :: suf) (calls g) =
      pscan (throws g) o (omap g) (tmap g) (omap g) (m_calls (hist g))
  | _ => True
  end.

Record Inv (g : glob) (ls : list loc) : Prop := {
  I_owner : forall u, holds (pcof ls u) = true -> mtx g = Some u;
  I_held  : forall a, mtx g = Some a -> holds (pcof ls a) = true;
  I_hs    : forall u, held_ok (pcof ls u) (held (lof ls u)) = true;
  I_so    : sorted (omap g);
  I_st    : sorted (tmap g);
  I_rc    : forall id, rc_of (heap g) id = (cnt_o id (omap g) + list_sum (map (cnt_loc id) ls))%nat;
  I_nf    : faulted g = false;
  I_free  : mtx g = None -> cur g = hist g;
  I_lin   : forall u, lin_pc g (pcof ls u);
  I_legal : legal (throws g) st0 (log g)
}.

Arguments rc_inc : simpl never.
Arguments rc_dec : simpl never.
Arguments inc_opt : simpl never.
Arguments dec_opt : simpl never.
Arguments apply_sop : simpl never.
Arguments sop_rc : simpl never.
Arguments lookup : simpl never.
Arguments del : simpl never.
Arguments ins : simpl never.
Arguments put : simpl never.
Arguments ptest : simpl never.
Arguments pscan : simpl never.
Arguments memZ : simpl never.
Arguments alive : simpl never.
Arguments next_key : simpl never.
Arguments first_key : simpl never.
Arguments new_arg : simpl never.
Arguments dst_slot : simpl never.
Arguments is_rem : simpl never.
Arguments fault_evs : simpl never.
Arguments getslot : simpl never.
Arguments setslot : simpl never.
Arguments replay : simpl never.
Arguments after_body : simpl never.
Arguments sop_wins : simpl never.
Arguments win_ev : simpl never.
Arguments inst_of : simpl never.
Arguments legal : simpl never.

Ltac step_cases Hs :=
  unfold tstep, tstep_gen, set_hf, slot in Hs; cbn [at_ prog slots held] in Hs;
  repeat match type of Hs with
         | context [match ?x with _ => _ end] => destruct x eqn:?; cbn [at_ prog slots held] in Hs
         | context [if ?x then _ else _] => destruct x eqn:?; cbn [at_ prog slots held] in Hs
         end;
  try discriminate; inversion Hs; subst; clear Hs;
  unfold after_body;
  try match goal with |- context [match ?td with [] => Unlock _ _ _ | _ :: _ => _ end] => destruct td end.

Lemma Inv_init th progs : Inv (gl (init th progs)) (thr (init th progs)).
Proof.
  assert (P : forall u, lof (map (fun p => Loc p Idle (None, None) None) progs) u = dummy \/
                        exists p, lof (map (fun p => Loc p Idle (None, None) None) progs) u = Loc p Idle (None, None) None).
  { intros u. unfold lof. destruct (nth_error progs u) as [p|] eqn:E.
    - right. exists p. apply nth_error_nth. rewrite nth_error_map, E. reflexivity.
    - left. apply nth_overflow. rewrite map_length. apply nth_error_None. exact E. }
  assert (Q : forall u, pcof (map (fun p => Loc p Idle (None, None) None) progs) u = Idle /\
                        held (lof (map (fun p => Loc p Idle (None, None) None) progs) u) = None).
  { intros u. unfold pcof. destruct (P u) as [->|[p ->]]; auto. }
  unfold init; cbn [gl thr]. constructor; cbn [omap tmap mtx heap calls throws faulted log]; intros;
    try (destruct (Q u) as [Q1 Q2]; rewrite ?Q1, ?Q2 in * ); cbn in *; try discriminate; auto.
  - assert (rc_of [] id = 0%nat) as -> by (destruct id as [|[|i]]; reflexivity).
    clear. induction progs as [|p r IH]; simpl; auto.
  - exact I.
Qed.

Lemma apply_sop_sorted o a om tm om' tm' r tch : sorted om -> sorted tm ->
  apply_sop o a om tm = (om', tm', r, tch) -> sorted om' /\ sorted tm'.
Proof.
  intros Ho Ht H. unfold apply_sop in H.
  destruct o; repeat match type of H with context [match ?x with _ => _ end] => destruct x end;
    inversion H; subst; split; auto using sorted_ins, sorted_del, sorted_put.
Qed.

Lemma sop_rc_keep o a r tch h h' ok keep : sop_rc o a r tch h = (h', ok, keep) -> dst_slot (OS o) = None -> keep = None.
Proof.
  unfold sop_rc, dst_slot. intros H D.
  destruct o; try discriminate;
    repeat match type of H with context [match ?x with _ => _ end] => destruct x end; inversion H; reflexivity.
Qed.
Lemma not_rem_dst o : is_rem o = false -> dst_slot (OP o) <> None.
Proof. destruct o; cbn; intros H; discriminate. Qed.

(* ---------- mutual exclusion, shape of the in-flight pointer, sortedness ---------- *)
Lemma step_basic g ls t c l g' l' es :
  Inv g ls -> nth_error ls t = Some l -> tstep t c g l = Some (g', l', es) ->
  (forall u, holds (pcof (upd ls t l') u) = true -> mtx g' = Some u) /\
  (forall a, mtx g' = Some a -> holds (pcof (upd ls t l') a) = true) /\
  (forall u, held_ok (pcof (upd ls t l') u) (held (lof (upd ls t l') u)) = true) /\
  sorted (omap g') /\ sorted (tmap g') /\ throws g' = throws g.
Proof.
  intros HI Hl Hs.
  pose proof (I_owner _ _ HI) as HO. pose proof (I_held _ _ HI) as HH. pose proof (I_hs _ _ HI) as HS.
  pose proof (I_so _ _ HI) as Hso. pose proof (I_st _ _ HI) as Hst.
  pose proof (pcof_at _ _ _ Hl) as Hp. pose proof (lof_at _ _ _ Hl) as Hlf.
  destruct l as [pr p sl hd]. cbn [at_] in Hp.
  step_cases Hs; cbn [omap tmap mtx throws at_ held].
  all: try match goal with H : apply_sop _ _ _ _ = _ |- _ => destruct (apply_sop_sorted _ _ _ _ _ _ _ _ Hso Hst H) end.
  all: refine (conj _ (conj _ (conj _ (conj _ (conj _ eq_refl))))); auto using sorted_del.
  all: try (intros u; rewrite ?(pcof_upd _ _ _ _ _ Hl), ?(lof_upd _ _ _ _ _ Hl); cbn [at_ held];
            pose proof (HO t) as HOt; pose proof (HH t) as HHt; pose proof (HS t) as HSt;
            pose proof (HO u) as HOu; pose proof (HH u) as HHu; pose proof (HS u) as HSu;
            rewrite ?Hlf in *; cbn [held] in *;
            destruct (Nat.eqb_spec u t) as [->|Hne]; rewrite ?Hp in *; cbn in *;
            repeat match goal with H : ?x = _ |- context [?x] => rewrite H end;
            intros; intuition (discriminate || congruence || eauto); fail).
  all: intros u; rewrite (pcof_upd _ _ _ _ _ Hl), (lof_upd _ _ _ _ _ Hl); destruct (Nat.eqb_spec u t) as [->|Hne]; [|apply HS];
       cbn [at_ held held_ok]; pose proof (HS t) as HSt; rewrite Hp, Hlf in HSt; cbn [held held_ok] in HSt.
  all: try match goal with |- context [dst_slot ?x] => destruct (dst_slot x) eqn:D; [reflexivity|] end.
  all: try exact HSt.
  all: first
    [ match goal with H : sop_rc _ _ _ _ _ = _ |- _ => rewrite (sop_rc_keep _ _ _ _ _ _ _ _ H D) end; reflexivity
    | exfalso; eapply not_rem_dst; eauto; fail
    | match goal with H : dst_slot _ = None |- _ => rewrite H in HSt end; exact HSt
    | rewrite D in HSt; exact HSt ].
Qed.

(* ---------- reference counts: local accounting of one step ---------- *)
Lemma rc_dec_spec h id h' ok : (0 < rc_of h id)%nat -> rc_dec h id = (h', ok) ->
  ok = true /\ forall id', rc_of h id' = (rc_of h' id' + (if Nat.eqb id' id then 1 else 0))%nat.
Proof.
  intros Hp H. destruct (rc_dec_alive _ _ Hp) as [h'' E]. rewrite E in H. inversion H; subst. split; [reflexivity|].
  intros id'. rewrite (rc_dec_ok _ _ _ E id'). destruct (Nat.eqb id' id); lia.
Qed.
Lemma rc_inc_spec h id h' ok : (0 < rc_of h id)%nat -> rc_inc h id = (h', ok) ->
  ok = true /\ forall id', rc_of h' id' = (rc_of h id' + (if Nat.eqb id' id then 1 else 0))%nat.
Proof.
  intros Hp H. destruct (rc_inc_alive _ _ Hp) as [h'' E]. rewrite E in H. inversion H; subst. split; [reflexivity|].
  intros id'. rewrite (rc_inc_ok _ _ _ E id'). destruct (Nat.eqb_spec id' id) as [->|]; lia.
Qed.
Lemma cnt_opt_some id q : cnt_opt id (Some q) = if Nat.eqb id (pid q) then 1%nat else 0%nat.
Proof. cbn. rewrite Nat.eqb_sym. reflexivity. Qed.
Lemma dec_opt_spec h p h' ok : (forall q, p = Some q -> (0 < rc_of h (pid q))%nat) -> dec_opt h p = (h', ok) ->
  ok = true /\ forall id, rc_of h id = (rc_of h' id + cnt_opt id p)%nat.
Proof.
  unfold dec_opt. destruct p as [q|]; intros Hp H.
  - destruct (rc_dec_spec _ _ _ _ (Hp q eq_refl) H) as [-> E]. split; [reflexivity|].
    intros id. rewrite cnt_opt_some. apply E.
  - inversion H; subst. split; [reflexivity|]. intros; cbn; lia.
Qed.
Lemma inc_opt_spec h p h' ok : (forall q, p = Some q -> (0 < rc_of h (pid q))%nat) -> inc_opt h p = (h', ok) ->
  ok = true /\ forall id, rc_of h' id = (rc_of h id + cnt_opt id p)%nat.
Proof.
  unfold inc_opt. destruct p as [q|]; intros Hp H.
  - destruct (rc_inc_spec _ _ _ _ (Hp q eq_refl) H) as [-> E]. split; [reflexivity|].
    intros id. rewrite cnt_opt_some. apply E.
  - inversion H; subst. split; [reflexivity|]. intros; cbn; lia.
Qed.
Lemma cnt_opt_self q : cnt_opt (pid q) (Some q) = 1%nat.
Proof. cbn. rewrite Nat.eqb_refl. reflexivity. Qed.

Lemma sop_local o hd om tm om' tm' r tch h h' ok keep :
  held_ok (SLock o) hd = true ->
  apply_sop o (match hd with Some p => p | None => null_ptr end) om tm = (om', tm', r, tch) ->
  sop_rc o (match hd with Some p => p | None => null_ptr end) r tch h = (h', ok, keep) ->
  (forall id, (cnt_o id om + cnt_opt id hd <= rc_of h id)%nat) ->
  ok = true /\
  forall id, (rc_of h' id + cnt_o id om + cnt_opt id hd = rc_of h id + cnt_o id om' + cnt_opt id keep)%nat.
Proof.
  intros Hh Ha Hr Hle.
  assert (Hin : forall k p, lookup k om = Some p -> (0 < rc_of h (pid p))%nat).
  { intros k p E. pose proof (cnt_lookup _ _ _ E). specialize (Hle (pid p)). lia. }
  unfold apply_sop in Ha. unfold sop_rc in Hr. unfold held_ok in Hh.
  destruct o; cbn [new_arg] in Hh; unfold new_arg in Hh; destruct hd as [q|]; try discriminate; clear Hh.
  - (* Add *)
    destruct (lookup n om) eqn:E; inversion Ha; subst; clear Ha; cbn [Z.eqb Pos.eqb] in Hr.
    + destruct (rc_dec h (pid q)) as [h1 ok1] eqn:D. inversion Hr; subst; clear Hr.
      assert (0 < rc_of h (pid q))%nat as Hp by (specialize (Hle (pid q)); rewrite cnt_opt_self in Hle; lia).
      destruct (rc_dec_spec _ _ _ _ Hp D) as [-> Hd]. split; [reflexivity|].
      intros id. rewrite (Hd id), cnt_opt_some. cbn [cnt_opt]. lia.
    + inversion Hr; subst; clear Hr. split; [reflexivity|]. intros id. rewrite (cnt_ins id _ q _ E). cbn [cnt_opt]. lia.
  - (* AddT *)
    destruct (lookup n om) eqn:E; inversion Ha; subst; clear Ha; cbn [Z.eqb Pos.eqb] in Hr.
    + destruct (rc_dec h (pid q)) as [h1 ok1] eqn:D. inversion Hr; subst; clear Hr.
      assert (0 < rc_of h (pid q))%nat as Hp by (specialize (Hle (pid q)); rewrite cnt_opt_self in Hle; lia).
      destruct (rc_dec_spec _ _ _ _ Hp D) as [-> Hd]. split; [reflexivity|].
      intros id. rewrite (Hd id), cnt_opt_some. cbn [cnt_opt]. lia.
    + inversion Hr; subst; clear Hr. split; [reflexivity|]. intros id. rewrite (cnt_ins id _ q _ E). cbn [cnt_opt]. lia.
  - (* AddType *) inversion Ha; subst. inversion Hr; subst. split; [reflexivity|]. intros; lia.
  - (* RemName *)
    destruct (lookup n om) as [p|] eqn:E; inversion Ha; subst; clear Ha.
    + destruct (dec_opt h (Some p)) as [h1 ok1] eqn:D. inversion Hr; subst; clear Hr.
      destruct (dec_opt_spec _ _ _ _ (fun q0 Eq => Hin n q0 (eq_trans E Eq)) D) as [-> Hd]. split; [reflexivity|].
      intros id. rewrite (Hd id). pose proof (cnt_del id _ _ _ E). cbn [cnt_opt] in *. lia.
    + cbn in Hr. inversion Hr; subst. split; [reflexivity|]. intros; lia.
  - (* Copy *)
    destruct (lookup a om) as [p|] eqn:E; [destruct (lookup b om) eqn:E2|]; inversion Ha; subst; clear Ha.
    + cbn in Hr. inversion Hr; subst. split; [reflexivity|]. intros; lia.
    + destruct (inc_opt h (Some p)) as [h1 ok1] eqn:D. inversion Hr; subst; clear Hr.
      destruct (inc_opt_spec _ _ _ _ (fun q0 Eq => Hin a q0 (eq_trans E Eq)) D) as [-> Hd]. split; [reflexivity|].
      intros id. rewrite (Hd id), (cnt_ins id _ p _ E2). cbn [cnt_opt]. lia.
    + cbn in Hr. inversion Hr; subst. split; [reflexivity|]. intros; lia.
  - (* FindName *)
    destruct (lookup n om) as [p|] eqn:E; inversion Ha; subst; clear Ha.
    + destruct (inc_opt h (Some p)) as [h1 ok1] eqn:D. inversion Hr; subst; clear Hr.
      destruct (inc_opt_spec _ _ _ _ (fun q0 Eq => Hin n q0 (eq_trans E Eq)) D) as [-> Hd]. split; [reflexivity|].
      intros id. rewrite (Hd id). cbn [cnt_opt]. lia.
    + cbn in Hr. inversion Hr; subst. split; [reflexivity|]. intros; cbn; lia.
  - inversion Ha; subst. inversion Hr; subst. split; [reflexivity|]. intros; lia.
  - inversion Ha; subst. inversion Hr; subst. split; [reflexivity|]. intros; lia.
  - inversion Ha; subst. inversion Hr; subst. split; [reflexivity|]. intros; lia.
Qed.

Lemma rc_frame (ls : list loc) t l l' h h' om om' :
  nth_error ls t = Some l ->
  (forall id, rc_of h id = (cnt_o id om + list_sum (map (cnt_loc id) ls))%nat) ->
  (forall id, (rc_of h' id + cnt_o id om + cnt_loc id l = rc_of h id + cnt_o id om' + cnt_loc id l')%nat) ->
  forall id, rc_of h' id = (cnt_o id om' + list_sum (map (cnt_loc id) (upd ls t l')))%nat.
Proof.
  intros Hl H1 H2 id. pose proof (sum_upd (cnt_loc id) ls t l l' Hl). specialize (H1 id). specialize (H2 id). lia.
Qed.
Lemma cnt_setslot id s x sl :
  (cnt_opt id (fst (setslot s x sl)) + cnt_opt id (snd (setslot s x sl)) + cnt_opt id (getslot s sl) =
   cnt_opt id (fst sl) + cnt_opt id (snd sl) + cnt_opt id x)%nat.
Proof. destruct s, sl; unfold setslot, getslot; cbn [fst snd]; lia. Qed.
Lemma cnt_getslot id s sl : (cnt_opt id (getslot s sl) <= cnt_opt id (fst sl) + cnt_opt id (snd sl))%nat.
Proof. destruct s, sl; unfold getslot; cbn [fst snd]; lia. Qed.
Lemma alive_pos h p : (0 < rc_of h (pid p))%nat -> alive h p = true.
Proof. unfold alive. intros H. destruct (Nat.eqb_spec (rc_of h (pid p)) 0); [lia|reflexivity]. Qed.

Lemma call_valid g ls u o k : Inv g ls -> pcof ls u = Call o k ->
  exists pre p suf, omap g = pre ++ (k, p) :: suf /\ lookup k (omap g) = Some p /\ next_key k (omap g) = first_key suf.
Proof.
  intros HI Hp. pose proof (I_lin _ _ HI u) as HL. rewrite Hp in HL. destruct HL as [_ [_ [pre [p [suf [E _]]]]]].
  exists pre, p, suf. pose proof (I_so _ _ HI) as Hs. rewrite E in Hs |- *.
  repeat split; [apply lookup_split|apply next_key_split]; exact Hs.
Qed.

Lemma step_rc g ls t c l g' l' es :
  Inv g ls -> nth_error ls t = Some l -> tstep t c g l = Some (g', l', es) ->
  faulted g' = false /\
  forall id, rc_of (heap g') id = (cnt_o id (omap g') + list_sum (map (cnt_loc id) (upd ls t l')))%nat.
Proof.
  intros HI Hl Hs.
  pose proof (I_rc _ _ HI) as HR. pose proof (I_nf _ _ HI) as HF.
  pose proof (I_hs _ _ HI t) as HSt. pose proof (pcof_at _ _ _ Hl) as Hp. rewrite Hp, (lof_at _ _ _ Hl) in HSt.
  assert (Hle : forall id, (cnt_o id (omap g) + cnt_loc id l <= rc_of (heap g) id)%nat).
  { intros id. rewrite (HR id). pose proof (sum_ge (cnt_loc id) ls t l Hl). lia. }
  assert (Hin : forall k p, lookup k (omap g) = Some p -> (0 < rc_of (heap g) (pid p))%nat).
  { intros k p E. pose proof (cnt_lookup _ _ _ E). specialize (Hle (pid p)). lia. }
  destruct l as [pr p sl hd]. cbn [at_ held] in *. unfold cnt_loc in Hle. cbn [slots held] in Hle.
  assert (Hsl : forall s q, getslot s sl = Some q -> (0 < rc_of (heap g) (pid q))%nat).
  { intros s q E. specialize (Hle (pid q)). pose proof (cnt_getslot (pid q) s sl) as G. rewrite E, cnt_opt_self in G. lia. }
  step_cases Hs; cbn [faulted heap omap]; rewrite ?HF; cbn [orb].
  all: try match goal with H : dec_opt _ (getslot ?s _) = (_, _) |- _ =>
             destruct (dec_opt_spec _ _ _ _ (Hsl s) H) as [-> Hd] end.
  all: try match goal with H : lookup ?k (omap _) = Some ?q |- _ => pose proof (Hin _ _ H) as Hq; pose proof (alive_pos _ _ Hq) as Hal; rewrite ?Hal end.
  all: try match goal with H : rc_dec (heap _) (pid ?q) = (_, _) |- _ => destruct (rc_dec_spec _ _ _ _ Hq H) as [-> Hd] end.
  all: try match goal with H : rc_inc (heap _) (pid ?q) = (_, _) |- _ => destruct (rc_inc_spec _ _ _ _ Hq H) as [-> Hd] end.
  all: cbn [andb negb orb].
  all: (split; [try reflexivity | eapply rc_frame; [exact Hl | exact HR | ]; intros id; unfold cnt_loc; cbn [slots held];
        try (specialize (Hd id)); try lia]).
  all: first
    [ (* make_shared *)
      solve [ rewrite rc_of_app; destruct hd; [discriminate|]; cbn [cnt_opt pid fst];
              rewrite (Nat.eqb_sym (S (length (heap g))) id);
              destruct (Nat.eqb_spec id (S (length (heap g)))) as [->|]; [rewrite rc_of_fresh|]; lia ]
    | (* Drop / the result goes into the slot *)
      solve [ match goal with |- context [setslot ?b ?x ?y] => pose proof (cnt_setslot id b x y) end; cbn [cnt_opt] in *; lia ]
    | (* ReadObj *)
      solve [ match goal with H : getslot _ _ = Some _ |- _ => rewrite (alive_pos _ _ (Hsl _ _ H)) end; reflexivity ]
    | (* simple method, no fault *)
      solve [ unfold harg in *; cbn [held] in *;
              match goal with H1 : apply_sop _ _ _ _ = _, H2 : sop_rc _ _ _ _ _ = _ |- _ =>
                destruct (sop_local _ _ _ _ _ _ _ _ _ _ _ _ HSt H1 H2) as [-> _] end; [|reflexivity];
              intros id; specialize (Hle id); lia ]
    | (* simple method, counts *)
      solve [ unfold harg in *; cbn [held] in *;
              match goal with H1 : apply_sop _ _ _ _ = _, H2 : sop_rc _ _ _ _ _ = _ |- _ =>
                destruct (sop_local _ _ _ _ _ _ _ _ _ _ _ _ HSt H1 H2) as [_ E] end;
              [intros id'; specialize (Hle id'); lia | specialize (E id); lia] ]
    | (* removal by predicate *)
      solve [ match goal with H : lookup _ (omap _) = Some _ |- _ => pose proof (cnt_del id _ _ _ H) as Hc end;
              rewrite cnt_opt_some in Hc; lia ]
    | (* find by predicate *)
      solve [ destruct hd; [discriminate|]; rewrite cnt_opt_some; cbn [cnt_opt]; lia ]
    | (* the iterator is valid *)
      solve [ exfalso; destruct (call_valid _ _ _ _ _ HI Hp) as [pre [q [suf [_ [E _]]]]]; congruence ]
    | (* the client passes a copy of a pointer it holds in a slot *)
      solve [ match goal with Hg : getslot _ _ = Some ?q, H : rc_inc (heap _) (pid ?q) = (_, _) |- _ =>
                destruct (rc_inc_spec _ _ _ _ (Hsl _ _ Hg) H) as [-> Hd'] end;
              first [ reflexivity
                    | destruct hd; [discriminate|]; specialize (Hd' id); rewrite cnt_opt_some; cbn [cnt_opt]; lia ] ]
    ].
Qed.

(* ---------- the ghost log is a sequential history of the map ---------- *)
Lemma pscan_cons thr o om tm k p r c :
  pscan thr o om tm ((k, p) :: r) c =
  if memZ c thr then (MS om tm (c + 1), None)
  else if ptest o tm k p then let '(om', tm', rv) := pfound o om tm k p in (MS om' tm' (c + 1), Some rv)
  else pscan thr o om tm r (c + 1).
Proof. reflexivity. Qed.
Lemma pscan_nil thr o om tm c : pscan thr o om tm [] c = (MS om tm c, Some 0).
Proof. reflexivity. Qed.

Lemma lin_pc_ext g g' p : omap g' = omap g -> tmap g' = tmap g -> calls g' = calls g -> throws g' = throws g ->
  log g' = log g -> lin_pc g p -> lin_pc g' p.
Proof.
  intros H1 H2 H3 H4 H5. unfold lin_pc, hist, cur. rewrite H1, H2, H3, H4, H5. tauto.
Qed.

Lemma step_other g t c l g' l' es : holds (at_ l) = false -> mtx g <> None ->
  tstep t c g l = Some (g', l', es) ->
  omap g' = omap g /\ tmap g' = tmap g /\ calls g' = calls g /\ throws g' = throws g /\ log g' = log g /\ mtx g' = mtx g.
Proof.
  intros Hh Hm Hs. destruct l as [pr p sl hd]. cbn [at_] in Hh.
  step_cases Hs; cbn in Hh; try discriminate; try congruence; cbn; auto 10.
Qed.

Lemma first_key_some {A} (m : list (Z * A)) k : first_key m = Some k -> exists p suf, m = (k, p) :: suf.
Proof. destruct m as [|[k' p] r]; cbn; intros H; inversion H; subst; eauto. Qed.
Lemma first_key_none {A} (m : list (Z * A)) : first_key m = None -> m = [].
Proof. destruct m as [|[k' p] r]; cbn; intros H; [reflexivity|discriminate]. Qed.
Lemma is_rem_true o : is_rem o = true -> exists k, o = RemPred k.
Proof. destruct o; cbn; intros H; try discriminate; eauto. Qed.
Lemma pfound_find o om tm k p : is_rem o = false -> pfound o om tm k p = (om, tm, Z.of_nat (pid p)).
Proof. destruct o; cbn; intros H; try discriminate; reflexivity. Qed.

Lemma replay_one thr s e : replay thr s [e] = fst (apply_op thr (e_op e) (e_arg e) s).
Proof. reflexivity. Qed.
Lemma legal_one thr s e : legal thr s [e] <-> snd (apply_op thr (e_op e) (e_arg e) s) = e_ret e.
Proof. change (legal thr s [e]) with (snd (apply_op thr (e_op e) (e_arg e) s) = e_ret e /\ True). tauto. Qed.
Lemma apply_op_OP thr o a s : apply_op thr (OP o) a s = pscan thr o (m_o s) (m_t s) (m_o s) (m_calls s).
Proof. reflexivity. Qed.

Lemma step_lin g ls t c l g' l' es :
  Inv g ls -> nth_error ls t = Some l -> tstep t c g l = Some (g', l', es) ->
  (mtx g' = None -> cur g' = hist g') /\ (forall u, lin_pc g' (pcof (upd ls t l') u)) /\ legal (throws g') st0 (log g').
Proof.
  intros HI Hl Hs.
  pose proof (pcof_at _ _ _ Hl) as Hp.
  assert (Hoth : forall u, u <> t -> lin_pc g' (pcof ls u)).
  { intros u Hne. destruct (holds (pcof ls u)) eqn:Hh.
    - pose proof (I_owner _ _ HI u Hh) as Hm.
      assert (holds (at_ l) = false) as Hnh.
      { destruct (holds (at_ l)) eqn:E; [|reflexivity]. rewrite <- Hp in E.
        pose proof (I_owner _ _ HI t E). congruence. }
      assert (mtx g <> None) as Hmn by congruence.
      destruct (step_other _ _ _ _ _ _ _ Hnh Hmn Hs) as [E1 [E2 [E3 [E4 [E5 _]]]]].
      apply (lin_pc_ext g g'); auto. apply (I_lin _ _ HI).
    - destruct (pcof ls u); try discriminate; exact I. }
  pose proof (I_free _ _ HI) as HFr. pose proof (I_legal _ _ HI) as HLg.
  pose proof (I_lin _ _ HI t) as HLt. rewrite Hp in HLt.
  pose proof (I_so _ _ HI) as Hso.
  assert (Hsplit : forall u, (lin_pc g' (at_ l')) -> lin_pc g' (pcof (upd ls t l') u)).
  { intros u H. rewrite (pcof_upd _ _ _ _ _ Hl). destruct (Nat.eqb_spec u t); [exact H|auto]. }
  pose proof (I_owner _ _ HI t) as HOt. rewrite Hp in HOt.
  destruct l as [pr p sl hd]. cbn [at_] in *.
  step_cases Hs; cbn [holds] in HOt; try (specialize (HOt eq_refl));
    (split; [|split; [intros u; apply Hsplit; clear Hsplit Hoth|]]);
    cbn [mtx at_ lin_pc throws log]; try exact I; try exact HLg; try discriminate.
  all: unfold after_body; cbn [lin_pc at_]; cbn [lin_pc] in HLt; unfold cur, hist, harg in *; cbn [omap tmap calls throws log mtx held] in *.
  all: try (intros Hm; first [exact (HFr Hm) | congruence]).
  all: try (pose proof (HFr eq_refl) as Hc).
  all: try (rewrite apply_op_OP).
  all: try (match type of HLt with _ /\ _ => idtac end; destruct HLt as [Ho [Ht [pre [q [suf [Eo EQ]]]]]];
            assert (lookup k (omap g) = Some q) as Hlk by (rewrite Eo; apply lookup_split; rewrite <- Eo; exact Hso);
            assert (next_key k (omap g) = first_key suf) as Hnk by (rewrite Eo; apply next_key_split; rewrite <- Eo; exact Hso);
            rewrite Ho, Ht, <- EQ, pscan_cons;
            try match goal with H : lookup _ (omap _) = Some ?p0 |- _ => assert (p0 = q) by congruence; subst p0 end).
  all: first
    [ (* windows: nothing changes *)
      solve [ exact HLt ]
    | (* simple method *)
      solve [ rewrite <- Hc; unfold apply_op; cbn [m_o m_t m_calls];
              match goal with H : apply_sop _ _ _ _ = _ |- _ => rewrite H end; reflexivity ]
    | (* begin(): iterator at the first node *)
      solve [ rewrite <- Hc; cbn [m_o m_t m_calls];
              match goal with H : first_key _ = Some _ |- _ => destruct (first_key_some _ _ H) as [q [suf E]] end;
              split; [reflexivity|split; [reflexivity|]]; exists [], q, suf; split; [exact E|]; rewrite E at 3; reflexivity ]
    | (* empty map *)
      solve [ rewrite <- Hc; cbn [m_o m_t m_calls];
              match goal with H : first_key _ = None |- _ => rewrite (first_key_none _ H) end; apply pscan_nil ]
    | (* the predicate throws *)
      solve [ match goal with H : memZ _ _ = true |- _ => rewrite H end; reflexivity ]
    | (* removal of the first match *)
      solve [ match goal with H : memZ _ _ = false |- _ => rewrite H end;
              match goal with H : ptest _ _ _ _ = true |- _ => rewrite H end;
              match goal with H : is_rem _ = true |- _ => destruct (is_rem_true _ H) as [kk ->] end; reflexivity ]
    | (* first match found *)
      solve [ match goal with H : memZ _ _ = false |- _ => rewrite H end;
              match goal with H : ptest _ _ _ _ = true |- _ => rewrite H end;
              match goal with H : is_rem _ = false |- _ => rewrite (pfound_find _ _ _ _ _ H) end; reflexivity ]
    | (* no match: ++it *)
      solve [ match goal with H : memZ _ _ = false |- _ => rewrite H end;
              match goal with H : ptest _ _ _ _ = false |- _ => rewrite H end;
              match goal with H : next_key _ _ = Some _ |- _ => rewrite Hnk in H; destruct (first_key_some _ _ H) as [p' [suf' ->]] end;
              split; [reflexivity|split; [reflexivity|]]; exists (pre ++ [(k, q)]), p', suf';
              split; [rewrite Eo, <- app_assoc; reflexivity|reflexivity] ]
    | (* no match: end() *)
      solve [ match goal with H : memZ _ _ = false |- _ => rewrite H end;
              match goal with H : ptest _ _ _ _ = false |- _ => rewrite H end;
              match goal with H : next_key _ _ = None |- _ => rewrite Hnk in H; rewrite (first_key_none _ H) end;
              apply pscan_nil ]
    | (* the iterator is valid *)
      solve [ congruence ]
    | solve [ rewrite replay_app, replay_one; cbn [e_op e_arg]; rewrite HLt; reflexivity ]
    | solve [ apply legal_app; split; [exact HLg|]; apply legal_one; cbn [e_op e_arg e_ret]; rewrite HLt; reflexivity ]
    ].
Qed.

Lemma Inv_step : forall g ls t c l g' l' es,
  Inv g ls -> nth_error ls t = Some l -> tstep t c g l = Some (g', l', es) -> Inv g' (upd ls t l').
Proof.
  intros g ls t c l g' l' es HI Hl Hs.
  destruct (step_basic _ _ _ _ _ _ _ _ HI Hl Hs) as [H1 [H2 [H3 [H4 [H5 _]]]]].
  destruct (step_rc _ _ _ _ _ _ _ _ HI Hl Hs) as [H6 H7].
  destruct (step_lin _ _ _ _ _ _ _ _ HI Hl Hs) as [H8 [H9 H10]].
  constructor; assumption.
Qed.

(* ====================================================================== *)
(* D. reachable states and the safety theorems                             *)
(* ====================================================================== *)
Definition R (th : list Z) (progs : list (list op)) (s : sysS) : Prop := reachable glob loc tstep (init th progs) s.

Lemma R_inv th progs s : R th progs s -> Inv (gl s) (thr s).
Proof. intros H. eapply reachable_inv; [apply Inv_step|apply Inv_init|exact H]. Qed.

Notation enabledS := (enabled glob loc tstep).
Notation quiescentS := (quiescent glob loc tstep).

(* ---------- memory safety ---------- *)
Lemma never_faulted th progs s : R th progs s -> faulted (gl s) = false.
Proof. intros H. apply (I_nf _ _ (R_inv _ _ _ H)). Qed.

Definition is_fault (e : ev) : bool := ek e =? K_FAULT.
Lemma fault_evs_flag code ok : existsb is_fault (fault_evs code ok) = negb ok.
Proof. destruct ok; reflexivity. Qed.

Lemma win_ev_nofault e w : is_fault (win_ev e w) = false.
Proof. destruct w as [[|] i], e; reflexivity. Qed.

(* a step that logs a Fault event sets the sticky flag (for both orders of removeObject(pred)) *)
Lemma fault_sets_flag unfixed t c g l g' l' es :
  tstep_gen unfixed t c g l = Some (g', l', es) -> existsb is_fault es = true -> faulted g' = true.
Proof.
  intros Hs He. destruct l as [pr p sl hd].
  unfold tstep_gen, set_hf, slot in Hs; cbn [at_ prog slots held] in Hs;
  repeat match type of Hs with
         | context [match ?x with _ => _ end] => destruct x eqn:?; cbn [at_ prog slots held] in Hs
         | context [if ?x then _ else _] => destruct x eqn:?; cbn [at_ prog slots held] in Hs
         end;
  try discriminate; inversion Hs; subst; clear Hs; cbn [faulted];
  try reflexivity;
  repeat (rewrite ?existsb_app, ?fault_evs_flag in He; cbn [existsb is_fault ek E app] in He);
  rewrite ?win_ev_nofault in He; cbn in He; try discriminate;
  repeat match goal with b : bool |- _ => destruct b end; cbn in *; try discriminate; try reflexivity;
  rewrite ?orb_true_r; try reflexivity.
  all: repeat match goal with |- context [alive ?h ?p] => destruct (alive h p) end; cbn in *; try discriminate;
       rewrite ?orb_true_r; reflexivity.
Qed.

Lemma no_fault_event th progs s t c l g' l' es :
  R th progs s -> nth_error (thr s) t = Some l -> tstep t c (gl s) l = Some (g', l', es) ->
  existsb is_fault es = false.
Proof.
  intros HR Hl Hs. destruct (existsb is_fault es) eqn:E; [|reflexivity].
  pose proof (fault_sets_flag _ _ _ _ _ _ _ _ Hs E) as Hf.
  pose proof (Inv_step _ _ _ _ _ _ _ _ (R_inv _ _ _ HR) Hl Hs) as HI. rewrite (I_nf _ _ HI) in Hf. discriminate.
Qed.

(* an object a client holds (in a slot, or on its way in or out of a call) has a positive use-count:
   it has not been destroyed, whatever the other threads removed meanwhile *)
Lemma returned_alive th progs s u l p :
  R th progs s -> nth_error (thr s) u = Some l ->
  (exists b, getslot b (slots l) = Some p) \/ held l = Some p ->
  (1 <= rc_of (heap (gl s)) (pid p))%nat /\ alive (heap (gl s)) p = true.
Proof.
  intros HR Hl Hh. pose proof (I_rc _ _ (R_inv _ _ _ HR) (pid p)) as E.
  pose proof (sum_ge (cnt_loc (pid p)) _ _ _ Hl) as G.
  assert (1 <= cnt_loc (pid p) l)%nat as Hc.
  { unfold cnt_loc. destruct Hh as [[b Hb]|Hb].
    - pose proof (cnt_getslot (pid p) b (slots l)) as Q. rewrite Hb, cnt_opt_self in Q. lia.
    - rewrite Hb, cnt_opt_self. lia. }
  split; [lia|apply alive_pos; lia].
Qed.
(* ... and so has every object stored in the map *)
Lemma stored_alive th progs s k p :
  R th progs s -> lookup k (omap (gl s)) = Some p -> (1 <= rc_of (heap (gl s)) (pid p))%nat.
Proof.
  intros HR Hk. pose proof (I_rc _ _ (R_inv _ _ _ HR) (pid p)) as E. pose proof (cnt_lookup _ _ _ Hk). lia.
Qed.
(* exact accounting: no leak, no lost reference *)
Lemma use_count_exact th progs s id :
  R th progs s -> rc_of (heap (gl s)) id = (cnt_o id (omap (gl s)) + list_sum (map (cnt_loc id) (thr s)))%nat.
Proof. intros HR. apply (I_rc _ _ (R_inv _ _ _ HR)). Qed.

(* ---------- every method is one critical section of mapLock ---------- *)
Lemma mutex_iff_inside th progs s u : R th progs s -> (mtx (gl s) = Some u <-> holds (pcof (thr s) u) = true).
Proof. intros HR. pose proof (R_inv _ _ _ HR) as HI. split; [apply (I_held _ _ HI)|apply (I_owner _ _ HI)]. Qed.

Lemma mutual_exclusion th progs s u v : R th progs s ->
  holds (pcof (thr s) u) = true -> holds (pcof (thr s) v) = true -> u = v.
Proof.
  intros HR Hu Hv. pose proof (R_inv _ _ _ HR) as HI.
  pose proof (I_owner _ _ HI u Hu). pose proof (I_owner _ _ HI v Hv). congruence.
Qed.

(* the maps, the call counter and the log change only in steps of the thread that owns the mutex
   after the step (the lock step itself, or a step inside the section) or that releases it *)
Lemma changes_inside_section th progs s t c l g' l' es :
  R th progs s -> nth_error (thr s) t = Some l -> tstep t c (gl s) l = Some (g', l', es) ->
  (omap g' = omap (gl s) /\ tmap g' = tmap (gl s) /\ calls g' = calls (gl s)) \/
  (mtx g' = Some t /\ (mtx (gl s) = None \/ mtx (gl s) = Some t)).
Proof.
  intros HR Hl Hs. pose proof (R_inv _ _ _ HR) as HI.
  pose proof (I_owner _ _ HI t) as HO. rewrite (pcof_at _ _ _ Hl) in HO.
  destruct l as [pr p sl hd]. cbn [at_] in HO.
  step_cases Hs; cbn [omap tmap calls mtx]; auto; cbn in HO; specialize (HO eq_refl); auto.
Qed.

(* the log grows exactly in the step that releases the mutex, and that step is the one that emits
   the operation's return (or the exception that leaves it), with the logged result *)
Lemma log_step t c g l g' l' es : tstep t c g l = Some (g', l', es) ->
  (log g' = log g /\ (forall o a r, at_ l <> Unlock o a r) /\ (forall o, at_ l <> XUnlock o)) \/
  (exists o a r, at_ l = Unlock o a r /\ log g' = log g ++ [Entry t o a (Some r)] /\ mtx g' = None /\
                 In (E K_UNLOCK O_MTX 0) es /\ In (E K_RET 0 r) es) \/
  (exists o, at_ l = XUnlock o /\ log g' = log g ++ [Entry t (OP o) null_ptr None] /\ mtx g' = None /\
             In (E K_UNLOCK O_MTX 0) es /\ In (E K_CATCH 0 0) es).
Proof.
  intros Hs. destruct l as [pr p sl hd].
  step_cases Hs; cbn [log at_ mtx].
  all: try (left; split; [reflexivity|split; intros; discriminate]; fail).
  - right; left. do 3 eexists. repeat split; try reflexivity; [left; reflexivity|].
    right. apply in_or_app; right. left; reflexivity.
  - right; left. do 3 eexists. repeat split; try reflexivity; cbn; auto.
  - right; right. eexists. repeat split; try reflexivity; cbn; auto.
Qed.

(* the log is a legal sequential history of the map and, whenever the mutex is free, the map is
   the state that history produces *)
Lemma log_is_history th progs s : R th progs s ->
  legal (throws (gl s)) st0 (log (gl s)) /\ (mtx (gl s) = None -> cur (gl s) = hist (gl s)).
Proof. intros HR. pose proof (R_inv _ _ _ HR) as HI. split; [apply (I_legal _ _ HI)|apply (I_free _ _ HI)]. Qed.

(* inside a section: the owner's progress, expressed with the method run alone *)
Lemma section_refines th progs s u : R th progs s -> lin_pc (gl s) (pcof (thr s) u).
Proof. intros HR. apply (I_lin _ _ (R_inv _ _ _ HR)). Qed.

Lemma throws_const th progs s : R th progs s -> throws (gl s) = th.
Proof.
  intros H. refine (reachable_inv glob loc tstep (fun g _ => throws g = th) _ (init th progs) s eq_refl H).
  intros g ls t c l g' l' es Hg Hl Hs. destruct l as [pr p sl hd]. step_cases Hs; cbn; auto.
Qed.

(* ---------- exception safety (C20): a throwing predicate ---------- *)
Lemma pscan_none thr o om tm rest c s' : pscan thr o om tm rest c = (s', None) -> m_o s' = om /\ m_t s' = tm.
Proof.
  revert c; induction rest as [|[k p] r IH]; intros c; [rewrite pscan_nil; discriminate|].
  rewrite pscan_cons. destruct (memZ c thr); [intros H; inversion H; auto|].
  destruct (ptest o tm k p); [|apply IH].
  destruct (pfound o om tm k p) as [[a b] rv]. discriminate.
Qed.
Lemma exn_unchanged thr o a s s' : apply_op thr o a s = (s', None) -> m_o s' = m_o s /\ m_t s' = m_t s.
Proof.
  destruct o as [so|po|lo]; cbn [apply_op].
  - destruct (apply_sop so a (m_o s) (m_t s)) as [[[x y] z] w]. discriminate.
  - apply pscan_none.
  - discriminate.
Qed.
(* the step in which the predicate throws changes neither map and leads to the unwinding pc;
   the next step of that thread releases the mutex and lets the exception leave *)
Definition is_throw (e : ev) : bool := ek e =? K_THROW.
Lemma fault_evs_nothrow code ok : existsb is_throw (fault_evs code ok) = false.
Proof. destruct ok; reflexivity. Qed.
Lemma win_ev_nothrow e w : is_throw (win_ev e w) = false.
Proof. destruct w as [[|] i], e; reflexivity. Qed.
Lemma throw_step t c g l g' l' es : tstep t c g l = Some (g', l', es) ->
  existsb is_throw es = true ->
  omap g' = omap g /\ tmap g' = tmap g /\ exists o, at_ l' = XUnlock o.
Proof.
  intros Hs He. destruct l as [pr p sl hd].
  step_cases Hs; cbn [omap tmap at_]; try (split; [reflexivity|split; [reflexivity|eauto]]; fail);
    exfalso; repeat (rewrite ?existsb_app, ?fault_evs_nothrow in He; cbn [existsb is_throw ek E app] in He);
    rewrite ?win_ev_nothrow in He; cbn in He; discriminate.
Qed.
Lemma top_level_owns_nothing th progs s u : R th progs s -> holds (pcof (thr s) u) = false -> mtx (gl s) <> Some u.
Proof. intros HR Hh Hm. rewrite (I_held _ _ (R_inv _ _ _ HR) u Hm) in Hh. discriminate. Qed.

(* ====================================================================== *)
(* E. progress                                                             *)
(* ====================================================================== *)
(* the owner of the mutex can always take its next step: nothing inside a section waits *)
Lemma holder_enabled th progs s a c : R th progs s -> mtx (gl s) = Some a -> enabledS s a c.
Proof.
  intros HR Hm. pose proof (R_inv _ _ _ HR) as HI.
  pose proof (I_held _ _ HI a Hm) as Hh. unfold pcof, lof in Hh.
  destruct (nth_error (thr s) a) as [l|] eqn:Hl.
  - rewrite (nth_error_nth _ _ _ Hl) in Hh.
    assert (exists r, tstep a c (gl s) l = Some r) as [r Hr]; [|exists l, r; auto].
    destruct l as [pr p sl hd]. cbn [at_] in Hh. unfold tstep, tstep_gen. cbn [at_ prog slots held].
    destruct p; try discriminate.
    + destruct (lookup k (omap (gl s))); [|eexists; reflexivity].
      destruct (memZ (calls (gl s)) (throws (gl s))); [eexists; reflexivity|].
      destruct (ptest o (tmap (gl s)) k p); [|eexists; reflexivity].
      destruct (is_rem o).
      * destruct (rc_dec (heap (gl s)) (pid p)). eexists; reflexivity.
      * destruct (rc_inc (heap (gl s)) (pid p)). eexists; reflexivity.
    + destruct (dst_slot o); [|eexists; reflexivity].
      destruct (dec_opt (heap (gl s)) (slot {| prog := pr; at_ := Unlock o a0 r; slots := sl; held := hd |} b)). eexists; reflexivity.
    + destruct todo; [|destruct half]; eexists; reflexivity.
    + eexists; reflexivity.
  - rewrite nth_overflow in Hh by (apply nth_error_None; exact Hl). discriminate.
Qed.

(* a thread is disabled only when it has finished, or when it waits for the mutex, which then has
   an owner other than itself, and that owner can move *)
Lemma blocks_only_on_mutex th progs s t c l :
  R th progs s -> nth_error (thr s) t = Some l -> tstep t c (gl s) l = None ->
  fin l = true \/
  ((exists o, at_ l = SLock o) \/ (exists o, at_ l = PLock o)) /\
  exists a, mtx (gl s) = Some a /\ a <> t /\ enabledS s a 0.
Proof.
  intros HR Hl Hs. pose proof (R_inv _ _ _ HR) as HI.
  assert (Hown : forall a, mtx (gl s) = Some a -> holds (at_ l) = false -> a <> t).
  { intros a Hm Hh ->. pose proof (I_held _ _ HI t Hm) as E. rewrite (pcof_at _ _ _ Hl) in E. congruence. }
  destruct l as [pr p sl hd]. unfold tstep, tstep_gen, set_hf in Hs. cbn [at_ prog slots held] in *.
  destruct p.
  - destruct pr as [|o r]; [left; reflexivity|exfalso].
    destruct o as [so|po|[b|b|n b ty]]; try discriminate.
    + destruct (new_arg so); discriminate.
    + destruct (dec_opt (heap (gl s)) (slot {| prog := OL (Drop b) :: r; at_ := Idle; slots := sl; held := hd |} b)); discriminate.
    + destruct (slot {| prog := OL (ReadObj b) :: r; at_ := Idle; slots := sl; held := hd |} b); discriminate.
    + destruct (slot {| prog := OL (AddFrom n b ty) :: r; at_ := Idle; slots := sl; held := hd |} b) as [q|]; [|discriminate].
      destruct (rc_inc (heap (gl s)) (pid q)). discriminate.
  - right. split; [left; eauto|]. destruct (mtx (gl s)) as [a|] eqn:Hm.
    + exists a. repeat split; auto. eapply holder_enabled; eauto.
    + exfalso. destruct (apply_sop o _ _ _) as [[[? ?] ?] ?]. destruct (sop_rc _ _ _ _ _) as [[? ?] ?]. destruct (sop_wins _ _ _ _ _). discriminate.
  - right. split; [right; eauto|]. destruct (mtx (gl s)) as [a|] eqn:Hm.
    + exists a. repeat split; auto. eapply holder_enabled; eauto.
    + discriminate.
  - exfalso. destruct (lookup k (omap (gl s))); [|discriminate].
    destruct (memZ (calls (gl s)) (throws (gl s))); [discriminate|].
    destruct (ptest o (tmap (gl s)) k p); [|discriminate].
    destruct (is_rem o).
    + destruct (rc_dec (heap (gl s)) (pid p)). discriminate.
    + destruct (rc_inc (heap (gl s)) (pid p)). discriminate.
  - exfalso. destruct (dst_slot o); [|discriminate].
    destruct (dec_opt _ _). discriminate.
  - exfalso. destruct todo; [|destruct half]; discriminate.
  - discriminate.
Qed.

(* no deadlock: a state in which nothing can move is one in which every program has finished *)
Lemma quiescent_all_finished th progs s : R th progs s -> quiescentS s -> all_fin glob loc fin s = true.
Proof.
  intros HR HQ. unfold all_fin. apply forallb_forall. intros l Hin.
  apply In_nth_error in Hin. destruct Hin as [t Hl].
  destruct (tstep t 0 (gl s) l) as [r|] eqn:Hs.
  - exfalso. apply (HQ t 0%nat); [lia|]. exists l, r. auto.
  - destruct (blocks_only_on_mutex _ _ _ _ _ _ HR Hl Hs) as [Hf|[_ [a [_ [_ Hen]]]]]; [exact Hf|].
    exfalso. apply (HQ a 0%nat); [lia|exact Hen].
Qed.

(* ====================================================================== *)
(* F. the pre-repair order of removeObject(predicate)                      *)
(* ====================================================================== *)
Definition witness_progs : list (list op) := [[OS (AddT 0 0 0); OP (RemPred 0)]].
Definition witness_sched : list (nat * nat) := repeat (0%nat, 0%nat) 6.
Lemma unfixed_faults :
  exists progs sched, faulted (gl (run glob loc (tstep_gen true) (init [] progs) sched)) = true.
Proof. exists witness_progs, witness_sched. vm_compute. reflexivity. Qed.

(* ====================================================================== *)
(* G. the sequential map is the specification: a pair of finite maps       *)
(* ====================================================================== *)
Definition amap (A : Type) := Z -> option A.
Definition aupd {A} (f : amap A) (k : Z) (v : option A) : amap A := fun k' => if k' =? k then v else f k'.
Definition abs {A} (m : list (Z * A)) : amap A := fun k => lookup k m.
Definition aeq {A} (f g : amap A) : Prop := forall k, f k = g k.

(* new contents of (objects, tags) after a method without predicate *)
Definition spec_sop (o : sop) (arg : ptr) (O : amap ptr) (T : amap (list Z)) : amap ptr * amap (list Z) :=
  match o with
  | Add n _ => match O n with Some _ => (O, T) | None => (aupd O n (Some arg), aupd T n None) end
  | AddT n _ ty => match O n with Some _ => (O, T) | None => (aupd O n (Some arg), aupd T n (Some [ty])) end
  | AddType n ty => (O, aupd T n (Some (match T n with Some ts => ts ++ [ty] | None => [ty] end)))
  | RemName n => match O n with Some _ => (aupd O n None, aupd T n None) | None => (O, T) end
  | Copy a b =>
    match O a, O b with
    | Some p, None => (aupd O b (Some p), aupd T b (T a))
    | _, _ => (O, T)
    end
  | _ => (O, T)
  end.
(* its result *)
Definition spec_ret (o : sop) (O : amap ptr) (T : amap (list Z)) (r : Z) : Prop :=
  match o with
  | Add n _ => r = b2z (negb (is_some (O n)))
  | AddT n _ _ => r = b2z (negb (is_some (O n)))
  | AddType _ _ => r = 0
  | RemName n => r = b2z (is_some (O n))
  | Copy a b => r = b2z (is_some (O a) && negb (is_some (O b)))
  | FindName n _ => r = match O n with Some p => Z.of_nat (pid p) | None => 0 end
  | CheckType n ty => r = b2z (match T n with Some ts => memZ ty ts | None => false end)
  | GetObjects => exists l, sorted l /\ (forall k p, In (k, p) l <-> O k = Some p) /\ r = enc_objs l
  | Empty => (r = 1 /\ forall k, O k = None) \/ (r = 0 /\ exists k p, O k = Some p)
  end.

Lemma aeq_refl {A} (f : amap A) : aeq f f.
Proof. intros k; reflexivity. Qed.
Lemma abs_ins {A} k (v : A) m : sorted m -> lookup k m = None -> aeq (abs (ins k v m)) (aupd (abs m) k (Some v)).
Proof. intros Hs Hn k'. unfold abs, aupd. rewrite (lookup_ins _ _ _ _ Hs), Hn. reflexivity. Qed.
Lemma abs_ins_keep {A} k (v x : A) m : sorted m -> lookup k m = Some x -> aeq (abs (ins k v m)) (abs m).
Proof.
  intros Hs Hn k'. unfold abs. rewrite (lookup_ins _ _ _ _ Hs), Hn.
  destruct (Z.eqb_spec k' k) as [->|]; [symmetry; exact Hn|reflexivity].
Qed.
Lemma abs_put {A} k (v : A) m : sorted m -> aeq (abs (put k v m)) (aupd (abs m) k (Some v)).
Proof. intros Hs k'. unfold abs, aupd. apply lookup_put. exact Hs. Qed.
Lemma abs_del {A} k (m : list (Z * A)) : sorted m -> aeq (abs (del k m)) (aupd (abs m) k None).
Proof. intros Hs k'. unfold abs, aupd. apply lookup_del. exact Hs. Qed.
Lemma abs_del_none {A} k (m : list (Z * A)) : sorted m -> lookup k m = None -> aeq (abs (del k m)) (abs m).
Proof.
  intros Hs Hn k'. unfold abs. rewrite (lookup_del _ _ _ Hs).
  destruct (Z.eqb_spec k' k) as [->|]; [symmetry; exact Hn|reflexivity].
Qed.

Lemma seq_refines_sop o arg om tm om' tm' r tch :
  sorted om -> sorted tm -> apply_sop o arg om tm = (om', tm', r, tch) ->
  aeq (abs om') (fst (spec_sop o arg (abs om) (abs tm))) /\
  aeq (abs tm') (snd (spec_sop o arg (abs om) (abs tm))) /\
  spec_ret o (abs om) (abs tm) r.
Proof.
  intros Ho Ht H. unfold apply_sop in H. unfold spec_sop, spec_ret.
  assert (abs_eq : forall A (m : list (Z * A)) k, abs m k = lookup k m) by reflexivity.
  destruct o; rewrite ?abs_eq.
  - destruct (lookup n om) eqn:E; inversion H; subst; cbn [fst snd is_some negb b2z];
      repeat split; auto using aeq_refl, abs_ins, abs_del.
  - destruct (lookup n om) eqn:E; inversion H; subst; cbn [fst snd is_some negb b2z];
      repeat split; auto using aeq_refl, abs_ins, abs_put.
  - inversion H; subst. cbn [fst snd]. repeat split; auto using aeq_refl. apply abs_put; auto.
  - destruct (lookup n om) eqn:E; inversion H; subst; cbn [fst snd is_some b2z];
      repeat split; auto using aeq_refl, abs_del.
  - destruct (lookup a om) eqn:E; [destruct (lookup b om) eqn:E2|]; inversion H; subst;
      cbn [fst snd is_some negb andb b2z]; repeat split; auto using aeq_refl, abs_ins.
    destruct (lookup a tm) eqn:E3; [apply abs_put; auto|apply abs_del; auto].
  - destruct (lookup n om) eqn:E; inversion H; subst; cbn [fst snd]; repeat split; auto using aeq_refl.
  - inversion H; subst. cbn [fst snd]. repeat split; auto using aeq_refl.
  - inversion H; subst. cbn [fst snd]. repeat split; auto using aeq_refl.
    exists om'. repeat split; auto.
    + intros Hin. apply in_lookup; auto.
    + apply lookup_some_in.
  - inversion H; subst. cbn [fst snd]. repeat split; auto using aeq_refl.
    destruct om' as [|[k p] rest].
    + left. split; [reflexivity|]. intros k. reflexivity.
    + right. split; [reflexivity|]. exists k, p. rewrite abs_eq. unfold lookup. rewrite Z.eqb_refl. reflexivity.
Qed.

(* a successful copyObject(a, b): b names the same object as a, and their tag lists are equal
   (both absent, or both present and equal) *)
Lemma copy_aliases_tags a b arg om tm om' tm' tch : sorted om -> sorted tm ->
  apply_sop (Copy a b) arg om tm = (om', tm', 1, tch) ->
  (exists p, lookup a om = Some p /\ lookup a om' = Some p /\ lookup b om' = Some p) /\
  lookup b tm' = lookup a tm' /\ lookup a tm' = lookup a tm.
Proof.
  intros Ho Ht H. unfold apply_sop in H.
  destruct (lookup a om) as [p|] eqn:E; [destruct (lookup b om) eqn:E2|]; inversion H; subst; clear H.
  assert (a <> b) as Hne by (intros ->; congruence).
  split.
  - exists p. rewrite !(lookup_ins _ _ _ _ Ho), E2, E, Z.eqb_refl.
    destruct (Z.eqb_spec a b); [contradiction|]. auto.
  - destruct (lookup a tm) as [ts|] eqn:E3.
    + rewrite !(lookup_put _ _ _ _ Ht), Z.eqb_refl. destruct (Z.eqb_spec a b); [contradiction|]. auto.
    + rewrite !(lookup_del _ _ _ Ht), Z.eqb_refl. destruct (Z.eqb_spec a b); [contradiction|]. auto.
Qed.
(* a successful addObject(n, obj[, type]): n names obj and its tags are exactly [type] (or absent) *)
Lemma add_tags_exact o arg om tm om' tm' tch : sorted om -> sorted tm ->
  apply_sop o arg om tm = (om', tm', 1, tch) ->
  match o with
  | Add n _ => lookup n om' = Some arg /\ lookup n tm' = None
  | AddT n _ ty => lookup n om' = Some arg /\ lookup n tm' = Some [ty]
  | _ => True
  end.
Proof.
  intros Ho Ht H. unfold apply_sop in H. destruct o; auto.
  - destruct (lookup n om) eqn:E; inversion H; subst.
    rewrite (lookup_ins _ _ _ _ Ho), (lookup_del _ _ _ Ht), E, Z.eqb_refl. auto.
  - destruct (lookup n om) eqn:E; inversion H; subst.
    rewrite (lookup_ins _ _ _ _ Ho), (lookup_put _ _ _ _ Ht), E, Z.eqb_refl. auto.
Qed.
(* before repair c9feeb7: addType on an absent name, then add and copy under that name *)
Definition orphan_seq : list (sop * ptr) := [(AddType 1 7, null_ptr); (AddT 0 3 1, (1%nat, 3)); (Copy 0 1, null_ptr)].
Lemma orphan_leak :
  let '(om, tm) := seq_run true orphan_seq [] [] in
  lookup 1 om = lookup 0 om /\ lookup 0 om <> None /\ lookup 1 tm <> lookup 0 tm.
Proof. vm_compute. repeat split; discriminate. Qed.

(* methods with a predicate: the first entry in key order that satisfies the test *)
Definition pscan_post (o : pop) (om : omapT) (tm : tmapT) (s' : mstate) (r : option Z) : Prop :=
  match r with
  | None => m_o s' = om /\ m_t s' = tm
  | Some rv =>
    (exists k p, lookup k om = Some p /\ ptest o tm k p = true /\
                 (forall k' p', lookup k' om = Some p' -> ptest o tm k' p' = true -> k <= k') /\
                 (m_o s', m_t s', rv) = pfound o om tm k p) \/
    ((forall k p, lookup k om = Some p -> ptest o tm k p = false) /\ m_o s' = om /\ m_t s' = tm /\ rv = 0)
  end.
Lemma pscan_spec_gen thr o om tm : sorted om -> forall rest pre c s' r, om = pre ++ rest ->
  (forall k p, In (k, p) pre -> ptest o tm k p = false) ->
  pscan thr o om tm rest c = (s', r) -> pscan_post o om tm s' r.
Proof.
  intros Hs. induction rest as [|[k p] rest IH]; intros pre c s' r Eo Hpre H.
  - rewrite pscan_nil in H. inversion H; subst. cbn. right. repeat split; auto.
    intros k p Hl. apply Hpre. apply lookup_some_in in Hl. rewrite app_nil_r in Hl. exact Hl.
  - rewrite pscan_cons in H. destruct (memZ c thr); [inversion H; subst; cbn; auto|].
    destruct (ptest o tm k p) eqn:Ht.
    + destruct (pfound o om tm k p) as [[a b] rv] eqn:Ef. inversion H; subst s' r. cbn. left.
      exists k, p. rewrite Eo in Hs. pose proof (lookup_split _ _ _ _ Hs) as Hl. rewrite <- Eo in *.
      repeat split; auto.
      intros k' p' Hl' Ht'. apply lookup_some_in in Hl'. rewrite Eo in Hl'. apply in_app_or in Hl'.
      destruct Hl' as [Hin|[Heq|Hin]].
      * rewrite (Hpre _ _ Hin) in Ht'. discriminate.
      * inversion Heq; subst. lia.
      * rewrite Eo in Hs. destruct (sorted_app_inv _ _ _ _ Hs) as [_ [Hlt _]].
        specialize (Hlt k' (in_map fst _ _ Hin)). lia.
    + apply (IH (pre ++ [(k, p)]) (c + 1)); [rewrite <- app_assoc; exact Eo| |exact H].
      intros k' p' Hin. apply in_app_or in Hin. destruct Hin as [Hin|[Heq|[]]]; [auto|inversion Heq; subst; exact Ht].
Qed.
Lemma seq_refines_pop thr o om tm c s' r : sorted om ->
  pscan thr o om tm om c = (s', r) -> pscan_post o om tm s' r.
Proof. intros Hs H. apply (pscan_spec_gen thr o om tm Hs om [] c s' r eq_refl); [intros k p []|exact H]. Qed.
(* what is done with the entry found *)
Lemma pfound_spec o om tm k p om' tm' rv : sorted om -> sorted tm -> pfound o om tm k p = (om', tm', rv) ->
  if is_rem o then aeq (abs om') (aupd (abs om) k None) /\ aeq (abs tm') (aupd (abs tm) k None) /\ rv = 1
  else om' = om /\ tm' = tm /\ rv = Z.of_nat (pid p).
Proof.
  intros Ho Ht H. destruct o; unfold is_rem; cbn in *; inversion H; subst; auto.
  repeat split; auto using abs_del.
Qed.

(* ====================================================================== *)
(* H. bounded work: every schedule makes a bounded number of moves         *)
(* ====================================================================== *)
Definition is_ins (o : op) : bool :=
  match o with OS (Add _ _) | OS (AddT _ _ _) | OS (Copy _ _) | OL (AddFrom _ _ _) => true | _ => false end.
(* insertions a thread may still perform *)
Definition pend (l : loc) : nat :=
  (length (filter is_ins (prog l)) + match at_ l with SLock o => if is_ins (OS o) then 1 else 0 | _ => 0 end)%nat.
Definition total_ins (progs : list (list op)) : nat := list_sum (map (fun p => length (filter is_ins p)) progs).
Definition Inv2 (N : nat) (g : glob) (ls : list loc) : Prop :=
  Inv g ls /\ (length (omap g) + list_sum (map pend ls) <= N)%nat.

Lemma apply_sop_len o a om tm om' tm' r tch : apply_sop o a om tm = (om', tm', r, tch) ->
  (length om' <= length om + (if is_ins (OS o) then 1 else 0))%nat.
Proof.
  unfold apply_sop. intros H.
  destruct o; repeat match type of H with context [match ?x with _ => _ end] => destruct x end;
    inversion H; subst; cbn [is_ins]; try lia.
  all: match goal with
       | |- context [length (ins ?k ?v ?m)] => pose proof (ins_len k v m); lia
       | |- context [length (del ?k ?m)] => pose proof (del_len k m); lia
       end.
Qed.

Lemma size_step N g ls t c l g' l' es :
  (length (omap g) + list_sum (map pend ls) <= N)%nat ->
  nth_error ls t = Some l -> tstep t c g l = Some (g', l', es) ->
  (length (omap g') + list_sum (map pend (upd ls t l')) <= N)%nat.
Proof.
  intros HN Hl Hs. pose proof (sum_upd pend ls t l l' Hl) as E.
  assert (length (omap g') + pend l' <= length (omap g) + pend l)%nat; [|lia].
  clear HN E Hl. destruct l as [pr p sl hd]. unfold pend.
  step_cases Hs; cbn [omap prog at_ filter is_ins]; try lia.
  all: try match goal with H : new_arg ?o = _ |- _ => destruct o; cbn in H; try discriminate; cbn [is_ins filter length]; lia end.
  all: try match goal with H : apply_sop _ _ _ _ = _ |- _ => pose proof (apply_sop_len _ _ _ _ _ _ _ _ H) as Q; cbn [is_ins] in Q; lia end.
  all: try match goal with |- context [del ?k ?m] => pose proof (del_len k m); lia end.
  all: try (destruct (is_ins _); cbn [length]; lia).
  all: cbn [length]; lia.
Qed.

Lemma Inv2_step N : forall g ls t c l g' l' es,
  Inv2 N g ls -> nth_error ls t = Some l -> tstep t c g l = Some (g', l', es) -> Inv2 N g' (upd ls t l').
Proof.
  intros g ls t c l g' l' es [HI HN] Hl Hs. split; [eapply Inv_step; eauto|eapply size_step; eauto].
Qed.
Lemma Inv2_init th progs : Inv2 (total_ins progs) (gl (init th progs)) (thr (init th progs)).
Proof.
  split; [apply Inv_init|]. unfold init, total_ins. cbn [gl thr omap length]. rewrite map_map.
  unfold pend. cbn [prog at_]. apply Nat.eq_le_incl. cbn [Nat.add]. f_equal. apply map_ext. intros; lia.
Qed.
Lemma R_inv2 th progs s : R th progs s -> Inv2 (total_ins progs) (gl s) (thr s).
Proof. intros H. eapply reachable_inv; [apply Inv2_step|apply Inv2_init|exact H]. Qed.

Definition cnt_ge (k : Z) (m : omapT) : nat := length (filter (fun kp => k <=? fst kp) m).
Definition wwin (half : bool) (todo : list wact) : nat :=
  match todo with [] => 2 | _ => 2 * length todo + (if half then 0 else 1) end%nat.
Definition wpc (N : nat) (g : glob) (p : pc) : nat :=
  match p with
  | Idle => 0
  | SLock _ => 2 * N + 6
  | PLock _ => N + 5
  | Call _ k => 4 + cnt_ge k (omap g)
  | Win _ _ _ half todo => wwin half todo
  | Unlock _ _ _ => 1
  | XUnlock _ => 1
  end%nat.
Definition wloc (N : nat) (g : glob) (l : loc) : nat := ((2 * N + 7) * length (prog l) + wpc N g (at_ l))%nat.
Lemma sop_wins_len o r om im f todo im' : sop_wins o r om im f = (todo, im') -> (length todo <= length om + 1)%nat.
Proof.
  unfold sop_wins. intros H.
  destruct o; repeat match type of H with context [match ?x with _ => _ end] => destruct x end;
    inversion H; subst; cbn [length]; try lia.
  rewrite map_length. lia.
Qed.
Definition mu (N : nat) (s : sysS) : nat := list_sum (map (wloc N (gl s)) (thr s)).

Lemma cnt_ge_le k m : (cnt_ge k m <= length m)%nat.
Proof. unfold cnt_ge. induction m as [|a r IH]; cbn; [lia|]. destruct (k <=? fst a); cbn; lia. Qed.
Lemma cnt_ge_mono k k' m : k <= k' -> (cnt_ge k' m <= cnt_ge k m)%nat.
Proof.
  intros H. unfold cnt_ge. induction m as [|[k0 p] r IH]; cbn; [lia|].
  destruct (Z.leb_spec k' k0), (Z.leb_spec k k0); cbn; lia.
Qed.
Lemma cnt_ge_lt k k' p m : k < k' -> In (k, p) m -> (cnt_ge k' m < cnt_ge k m)%nat.
Proof.
  intros H. unfold cnt_ge. induction m as [|[k0 p0] r IH]; cbn; [tauto|]. intros [E|Hin].
  - inversion E; subst. destruct (Z.leb_spec k' k), (Z.leb_spec k k); cbn; try lia.
    pose proof (cnt_ge_mono k k' r ltac:(lia)). unfold cnt_ge in *. lia.
  - specialize (IH Hin). destruct (Z.leb_spec k' k0), (Z.leb_spec k k0); cbn; lia.
Qed.

Lemma sum_step_dec_idx {A} (f f' : A -> nat) (l : list A) t x y : nth_error l t = Some x ->
  (forall u z, u <> t -> nth_error l u = Some z -> (f' z <= f z)%nat) -> (f' y < f x)%nat ->
  (list_sum (map f' (upd l t y)) < list_sum (map f l))%nat.
Proof.
  revert t; induction l as [|h r IH]; destruct t; simpl; intros Hn Hm Hd; try discriminate.
  - inversion Hn; subst.
    assert (list_sum (map f' r) <= list_sum (map f r))%nat.
    { clear -Hm. assert (forall u z, nth_error r u = Some z -> (f' z <= f z)%nat) as Hm'
        by (intros u z Hz; apply (Hm (S u) z); [lia|exact Hz]).
      clear Hm. induction r as [|a r IH]; simpl; [lia|].
      pose proof (Hm' 0%nat a eq_refl). assert (list_sum (map f' r) <= list_sum (map f r))%nat; [|lia].
      apply IH. intros u z Hz. apply (Hm' (S u) z Hz). }
    lia.
  - assert (list_sum (map f' (upd r t y)) < list_sum (map f r))%nat.
    { apply (IH t Hn); [|exact Hd]. intros u z Hne Hz. apply (Hm (S u) z); [lia|exact Hz]. }
    pose proof (Hm 0%nat h ltac:(lia) eq_refl). lia.
Qed.

Lemma mu_dec N s t c : Inv2 N (gl s) (thr s) -> enabledS s t c ->
  (mu N (step glob loc tstep s (t, c)) < mu N s)%nat.
Proof.
  intros [HI HN] [l [r [Hl Hs]]]. destruct r as [[g' l'] es].
  unfold step, sys_step. rewrite Hl, Hs. cbn [fst]. unfold mu. cbn [gl thr].
  apply (sum_step_dec_idx (wloc N (gl s)) (wloc N g') (thr s) t l l' Hl).
  - (* the other threads' weights do not grow: only the owner can be inside a scan *)
    intros u z Hne Hz. unfold wloc. apply Nat.add_le_mono_l.
    destruct (at_ z) eqn:Ez; cbn [wpc]; try lia.
    assert (mtx (gl s) = Some u) as Hm.
    { apply (I_owner _ _ HI). rewrite (pcof_at _ _ _ Hz), Ez. reflexivity. }
    assert (holds (at_ l) = false) as Hnh.
    { destruct (holds (at_ l)) eqn:E; [|reflexivity]. rewrite <- (pcof_at _ _ _ Hl) in E.
      pose proof (I_owner _ _ HI t E). congruence. }
    assert (mtx (gl s) <> None) as Hmn by congruence.
    destruct (step_other _ _ _ _ _ _ _ Hnh Hmn Hs) as [E1 _]. rewrite E1. lia.
  - pose proof (I_so _ _ HI) as Hso.
    assert (length (omap (gl s)) <= N)%nat as Hlen by lia.
    pose proof (pcof_at _ _ _ Hl) as Hp.
    destruct l as [pr p sl hd]. unfold wloc. cbn [at_] in Hp.
    step_cases Hs; cbn [prog at_ length wpc wwin omap]; try lia.
    all: first
      [ (* the windows of a simple method *)
        solve [ match goal with H : sop_wins _ _ _ _ _ = _ |- _ => pose proof (sop_wins_len _ _ _ _ _ _ _ H) as Q end;
                cbn [length] in Q; lia ]
      | (* begin() *)
        solve [ match goal with |- context [cnt_ge ?k ?m] => pose proof (cnt_ge_le k m) end; lia ]
      | (* window edges *)
        solve [ repeat match goal with |- context [match ?x with _ => _ end] => destruct x end; cbn [length]; lia ]
      | (* ++it *)
        solve [ destruct (call_valid _ _ _ _ _ HI Hp) as [pre [q [suf [Eo [Hlk Hnk]]]]];
                match goal with H : next_key _ _ = Some ?z |- _ => rewrite Hnk in H; destruct (first_key_some _ _ H) as [p' [suf' ->]] end;
                rewrite Eo in Hso; destruct (sorted_app_inv _ _ _ _ Hso) as [_ [Hlt _]];
                match type of Hlt with context [(?z, _) :: _] =>
                  assert (k < z) as Hkz by (apply Hlt; left; reflexivity) end;
                pose proof (lookup_some_in _ _ _ Hlk) as Hin;
                match type of Hkz with _ < ?z => pose proof (cnt_ge_lt k z q _ Hkz Hin) end;
                lia ] ].
Qed.

(* every schedule, from every reachable state, makes at most mu moves: no livelock, no retry loop *)
Lemma bounded_work th progs s sc : R th progs s ->
  (moves glob loc tstep s sc <= mu (total_ins progs) s)%nat.
Proof.
  intros HR.
  apply (moves_le_mu glob loc tstep (mu (total_ins progs)) (Inv2 (total_ins progs)) (Inv2_step _) (fun _ => true)).
  - intros s0 t c HI _ He. apply mu_dec; auto.
  - apply (R_inv2 _ _ _ HR).
  - unfold sched_ok. apply forallb_forall. reflexivity.
Qed.

Lemma maps_sorted th progs s : R th progs s -> sorted (omap (gl s)) /\ sorted (tmap (gl s)).
Proof. intros H. exact (conj (I_so _ _ (R_inv _ _ _ H)) (I_st _ _ (R_inv _ _ _ H))). Qed.

(* ====================================================================== *)
(* I. windows on the shared_ptr instances of the map nodes                 *)
(* ====================================================================== *)
(* the window a thread has open: between the two edges of a copy from / the destruction of a node pointer *)
Definition open_win (p : pc) : option wact := match p with Win _ _ _ true (w :: _) => Some w | _ => None end.
Lemma open_win_holds p w : open_win p = Some w -> holds p = true.
Proof. destruct p; cbn; try discriminate. reflexivity. Qed.
(* a window is open only while its thread owns mapLock; so at most one window is open at any time: no
   copy from a node's pointer overlaps its destruction (nor any other access to it) *)
Lemma open_window_owner th progs s u w : R th progs s -> open_win (pcof (thr s) u) = Some w -> mtx (gl s) = Some u.
Proof. intros HR H. apply (I_owner _ _ (R_inv _ _ _ HR)). eapply open_win_holds; eauto. Qed.
Lemma ptr_windows_disjoint th progs s u v w w' : R th progs s ->
  open_win (pcof (thr s) u) = Some w -> open_win (pcof (thr s) v) = Some w' -> u = v /\ w = w'.
Proof.
  intros HR Hu Hv.
  assert (u = v) as -> by (eapply mutual_exclusion; eauto using open_win_holds).
  split; [reflexivity|congruence].
Qed.
(* window edges are emitted only by the owner, inside its section *)
Definition is_win_ev (e : ev) : bool :=
  (ek e =? K_RD_BEGIN) || (ek e =? K_RD_END) || (ek e =? K_WR_BEGIN) || (ek e =? K_WR_END).
Lemma window_edge_inside t c g l g' l' es : tstep t c g l = Some (g', l', es) ->
  existsb is_win_ev es = true -> (exists o a r h td, at_ l = Win o a r h td) /\ g' = g.
Proof.
  intros Hs He. destruct l as [pr p sl hd].
  assert (Q : forall code ok, existsb is_win_ev (fault_evs code ok) = false) by (intros code [|]; reflexivity).
  step_cases Hs; cbn [at_]; try (split; [do 5 eexists; reflexivity|reflexivity]; fail);
    exfalso; repeat (rewrite ?existsb_app, ?Q in He; cbn [existsb is_win_ev ek E app] in He); cbn in He; discriminate.
Qed.

(* ====================================================================== *)
(* J. termination, existence form                                          *)
(* ====================================================================== *)
From GV Require Import Progress.

(* no step of this class depends on the scheduler's choice: every choice is a work-choice *)
Definition any_choice (c : nat) : bool := true.
Lemma tstep_choice t c g l : tstep t c g l = tstep t 0 g l.
Proof. reflexivity. Qed.
Lemma settled_quiescent s : settled glob loc tstep any_choice s -> quiescentS s.
Proof. intros H t c _. apply H. reflexivity. Qed.
Lemma pick_move s : (exists t c, any_choice c = true /\ enabledS s t c) \/ settled glob loc tstep any_choice s.
Proof.
  destruct (enabled_choice_dec glob loc tstep s 0) as [[t He]|Hn].
  - left. exists t, 0%nat. split; [reflexivity|exact He].
  - right. intros t c _ [l [r [Hl Hs]]]. apply (Hn t). exists l, r. split; [exact Hl|].
    rewrite <- Hs. symmetry. apply tstep_choice.
Qed.

(* from every reachable state some schedule of at most mu(s) steps finishes every thread *)
Lemma eventually_finishes th progs s : R th progs s ->
  exists sc, sched_ok any_choice sc /\ (length sc <= mu (total_ins progs) s)%nat /\
             all_fin glob loc fin (run glob loc tstep s sc) = true.
Proof.
  intros HR.
  destruct (settles glob loc tstep (mu (total_ins progs)) (Inv2 (total_ins progs)) (Inv2_step _) any_choice
              (fun s0 t c HI _ He => mu_dec _ s0 t c HI He) pick_move s (R_inv2 _ _ _ HR))
    as [sc [Hok [Hlen Hset]]].
  exists sc. repeat split; auto.
  apply (quiescent_all_finished th progs).
  - destruct HR as [sc0 ->]. exists (sc0 ++ sc). symmetry. apply run_app.
  - apply settled_quiescent. exact Hset.
Qed.
