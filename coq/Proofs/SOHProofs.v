(* Invariants, refinement and progress facts for the SearchableObjectHolder model (property C17). *)
From Coq Require Import List Arith ZArith Lia Bool.
Import ListNotations.
From GV Require Import Sched Events SOHModel.
Local Open Scope Z_scope.

Notation sysS := (sys glob loc).

(* ====================================================================== *)
(* A. strictly sorted association lists                                    *)
(* ====================================================================== *)
Definition keys {A} (m : list (Z * A)) : list Z := map fst m.
Fixpoint sorted {A} (m : list (Z * A)) : Prop :=
  match m with
  | [] => True
  | (k, _) :: r => (forall k', In k' (keys r) -> k < k') /\ sorted r
  end.

Lemma lookup_none {A} k (m : list (Z * A)) : lookup k m = None <-> ~ In k (keys m).
Proof.
  induction m as [|[k' v] r IH]; cbn; [tauto|].
  destruct (Z.eqb_spec k' k) as [->|Hne]; split; intros H; try discriminate.
  - exfalso. apply H. auto.
  - intros [E|E]; [congruence|]. apply IH in H. auto.
  - apply IH. intros E. apply H. auto.
Qed.
Lemma lookup_some_in {A} k v (m : list (Z * A)) : lookup k m = Some v -> In (k, v) m.
Proof.
  induction m as [|[k' v'] r IH]; cbn; [discriminate|].
  destruct (Z.eqb_spec k' k) as [->|Hne]; intros H; [inversion H; auto|auto].
Qed.
Lemma lookup_some_key {A} k v (m : list (Z * A)) : lookup k m = Some v -> In k (keys m).
Proof. intros H. apply lookup_some_in in H. apply (in_map fst) in H. exact H. Qed.
Lemma in_lookup {A} k v (m : list (Z * A)) : sorted m -> In (k, v) m -> lookup k m = Some v.
Proof.
  induction m as [|[k' v'] r IH]; cbn; [tauto|]. intros [Hlt Hs] [E|Hin].
  - inversion E; subst. rewrite Z.eqb_refl. reflexivity.
  - destruct (Z.eqb_spec k' k) as [->|Hne]; [|auto].
    exfalso. specialize (Hlt k (in_map fst _ _ Hin)). lia.
Qed.

Lemma keys_ins {A} k (v : A) m k' : In k' (keys (ins k v m)) <-> k' = k \/ In k' (keys m).
Proof.
  induction m as [|[k0 v0] r IH]; cbn; [intuition|].
  destruct (Z.ltb_spec k k0); cbn; [intuition|].
  destruct (Z.eqb_spec k k0) as [->|Hne]; cbn; [intuition|]. rewrite IH. intuition.
Qed.
Lemma sorted_ins {A} k (v : A) m : sorted m -> sorted (ins k v m).
Proof.
  induction m as [|[k0 v0] r IH]; cbn; [intuition|]. intros [Hlt Hs].
  destruct (Z.ltb_spec k k0); cbn.
  - repeat split; auto. intros k' [E|Hin]; [lia|]. specialize (Hlt _ Hin). lia.
  - destruct (Z.eqb_spec k k0) as [->|Hne]; cbn; [auto|]. split; [|auto].
    intros k' Hin. apply keys_ins in Hin. destruct Hin as [->|Hin]; [lia|auto].
Qed.
Lemma keys_put {A} k (v : A) m k' : In k' (keys (put k v m)) <-> k' = k \/ In k' (keys m).
Proof.
  induction m as [|[k0 v0] r IH]; cbn; [intuition|].
  destruct (Z.ltb_spec k k0); cbn; [intuition|].
  destruct (Z.eqb_spec k k0) as [->|Hne]; cbn; [intuition|]. rewrite IH. intuition.
Qed.
Lemma sorted_put {A} k (v : A) m : sorted m -> sorted (put k v m).
Proof.
  induction m as [|[k0 v0] r IH]; cbn; [intuition|]. intros [Hlt Hs].
  destruct (Z.ltb_spec k k0); cbn.
  - repeat split; auto. intros k' [E|Hin]; [lia|]. specialize (Hlt _ Hin). lia.
  - destruct (Z.eqb_spec k k0) as [->|Hne]; cbn; [auto|]. split; [|auto].
    intros k' Hin. apply keys_put in Hin. destruct Hin as [->|Hin]; [lia|auto].
Qed.
Lemma keys_del_sub {A} k (m : list (Z * A)) k' : In k' (keys (del k m)) -> In k' (keys m).
Proof.
  induction m as [|[k0 v0] r IH]; cbn; [tauto|].
  destruct (Z.eqb_spec k0 k); cbn; intuition.
Qed.
Lemma sorted_del {A} k (m : list (Z * A)) : sorted m -> sorted (del k m).
Proof.
  induction m as [|[k0 v0] r IH]; cbn; [tauto|]. intros [Hlt Hs].
  destruct (Z.eqb_spec k0 k); cbn; [auto|]. split; [|auto].
  intros k' Hin. apply keys_del_sub in Hin. auto.
Qed.

Lemma lookup_ins {A} k (v : A) m k' : sorted m ->
  lookup k' (ins k v m) = if k' =? k then (match lookup k m with Some x => Some x | None => Some v end) else lookup k' m.
Proof.
  induction m as [|[k0 v0] r IH]; cbn.
  - intros _. rewrite (Z.eqb_sym k k'). destruct (k' =? k); reflexivity.
  - intros [Hlt Hs]. destruct (Z.ltb_spec k k0); cbn.
    + rewrite (Z.eqb_sym k k'). destruct (Z.eqb_spec k' k) as [E|Hne].
      * destruct (Z.eqb_spec k0 k); [lia|].
        assert (lookup k r = None) as ->; [|reflexivity].
        apply lookup_none. intros Hin. specialize (Hlt _ Hin). lia.
      * reflexivity.
    + destruct (Z.eqb_spec k k0) as [->|Hne]; cbn.
      * destruct (Z.eqb_spec k' k0) as [E|Hne']; [rewrite E, Z.eqb_refl|]; [reflexivity|].
        destruct (Z.eqb_spec k0 k'); [lia|reflexivity].
      * rewrite (IH Hs). destruct (Z.eqb_spec k0 k'), (Z.eqb_spec k' k), (Z.eqb_spec k0 k); try lia; reflexivity.
Qed.
Lemma lookup_put {A} k (v : A) m k' : sorted m ->
  lookup k' (put k v m) = if k' =? k then Some v else lookup k' m.
Proof.
  induction m as [|[k0 v0] r IH]; cbn.
  - intros _. rewrite (Z.eqb_sym k k'). reflexivity.
  - intros [Hlt Hs]. destruct (Z.ltb_spec k k0); cbn.
    + rewrite (Z.eqb_sym k k'). reflexivity.
    + destruct (Z.eqb_spec k k0) as [->|Hne]; cbn.
      * rewrite (Z.eqb_sym k0 k'). destruct (k' =? k0); reflexivity.
      * rewrite (IH Hs). destruct (Z.eqb_spec k0 k'), (Z.eqb_spec k' k); try lia; reflexivity.
Qed.
Lemma lookup_del {A} k (m : list (Z * A)) k' : sorted m ->
  lookup k' (del k m) = if k' =? k then None else lookup k' m.
Proof.
  induction m as [|[k0 v0] r IH]; cbn.
  - intros _. destruct (k' =? k); reflexivity.
  - intros [Hlt Hs]. destruct (Z.eqb_spec k0 k) as [->|Hne]; cbn.
    + destruct (Z.eqb_spec k' k) as [E|Hne'].
      * rewrite E. apply lookup_none. intros Hin. specialize (Hlt _ Hin). lia.
      * destruct (Z.eqb_spec k k'); [lia|reflexivity].
    + rewrite (IH Hs). destruct (Z.eqb_spec k0 k'), (Z.eqb_spec k' k); try lia; reflexivity.
Qed.

(* position of an iterator: the map splits around the node with key k *)
Lemma sorted_app_inv {A} (pre : list (Z * A)) k p suf : sorted (pre ++ (k, p) :: suf) ->
  ~ In k (keys pre) /\ sorted ((k, p) :: suf).
Proof.
  induction pre as [|[k0 v0] r IH]; cbn; [tauto|]. intros [Hlt Hs].
  destruct (IH Hs) as [Hn Hs']. split; [|exact Hs'].
  intros [E|Hin]; [|auto]. subst.
  specialize (Hlt k). unfold keys in Hlt. rewrite map_app in Hlt. cbn in Hlt.
  assert (k < k) by (apply Hlt; apply in_or_app; right; left; reflexivity). lia.
Qed.
Lemma lookup_split {A} (pre : list (Z * A)) k p suf : sorted (pre ++ (k, p) :: suf) ->
  lookup k (pre ++ (k, p) :: suf) = Some p.
Proof. intros H. apply in_lookup; [exact H|]. apply in_or_app. right. left. reflexivity. Qed.
Lemma next_key_split {A} (pre : list (Z * A)) k p suf : sorted (pre ++ (k, p) :: suf) ->
  next_key k (pre ++ (k, p) :: suf) = first_key suf.
Proof.
  induction pre as [|[k0 v0] r IH]; cbn.
  - intros _. rewrite Z.eqb_refl. reflexivity.
  - intros [Hlt Hs]. destruct (Z.eqb_spec k0 k) as [->|Hne]; [|auto].
    exfalso. specialize (Hlt k). unfold keys in Hlt. rewrite map_app in Hlt. cbn in Hlt.
    assert (k < k) by (apply Hlt; apply in_or_app; right; left; reflexivity). lia.
Qed.

(* ====================================================================== *)
(* B. reference counting                                                   *)
(* ====================================================================== *)
Definition cnt_opt (id : nat) (p : option ptr) : nat :=
  match p with Some q => if Nat.eqb (pid q) id then 1 else 0 | None => 0 end.
Fixpoint cnt_o (id : nat) (m : omapT) : nat :=
  match m with [] => 0 | (_, p) :: r => cnt_opt id (Some p) + cnt_o id r end.
Definition cnt_loc (id : nat) (l : loc) : nat :=
  (cnt_opt id (fst (slots l)) + cnt_opt id (snd (slots l)) + cnt_opt id (held l))%nat.

Lemma cnt_ins id k p m : lookup k m = None -> cnt_o id (ins k p m) = (cnt_o id m + cnt_opt id (Some p))%nat.
Proof.
  induction m as [|[k0 p0] r IH]; cbn [lookup ins cnt_o]; intros H; [lia|].
  destruct (Z.eqb_spec k0 k) as [->|Hne]; [discriminate|].
  destruct (Z.ltb_spec k k0); cbn [cnt_o]; [lia|].
  destruct (Z.eqb_spec k k0); [lia|]. cbn [cnt_o]. rewrite (IH H). lia.
Qed.
Lemma cnt_del id k p m : lookup k m = Some p -> (cnt_o id (del k m) + cnt_opt id (Some p))%nat = cnt_o id m.
Proof.
  induction m as [|[k0 p0] r IH]; cbn [lookup del cnt_o]; intros H; [discriminate|].
  destruct (Z.eqb_spec k0 k) as [->|Hne]; [inversion H; subst; lia|].
  cbn [cnt_o]. specialize (IH H). lia.
Qed.
Lemma cnt_lookup k p m : lookup k m = Some p -> (1 <= cnt_o (pid p) m)%nat.
Proof.
  intros H. rewrite <- (cnt_del (pid p) k p m H). cbn. rewrite Nat.eqb_refl. lia.
Qed.

Lemma rc_of_app h id : rc_of (h ++ [1%nat]) id = if Nat.eqb id (S (length h)) then 1%nat else rc_of h id.
Proof.
  destruct id as [|i]; cbn; [reflexivity|].
  destruct (Nat.eqb_spec i (length h)) as [->|Hne].
  - rewrite app_nth2 by lia. rewrite Nat.sub_diag. reflexivity.
  - destruct (Nat.lt_ge_cases i (length h)).
    + rewrite app_nth1 by lia. reflexivity.
    + rewrite !nth_overflow; [reflexivity|lia|rewrite app_length; cbn; lia].
Qed.
Lemma rc_of_fresh h : rc_of h (S (length h)) = 0%nat.
Proof. cbn. apply nth_overflow. lia. Qed.

Lemma nth_upd_nat (h : list nat) i j x : nth j (upd h i x) 0%nat = if Nat.eqb j i then (if Nat.ltb i (length h) then x else 0%nat) else nth j h 0%nat.
Proof.
  revert i j; induction h as [|a r IH]; intros [|i] [|j]; cbn; try reflexivity.
  - destruct (Nat.eqb j i); reflexivity.
  - rewrite IH. cbn. reflexivity.
Qed.

Lemma rc_inc_ok h id h' : rc_inc h id = (h', true) ->
  forall id', rc_of h' id' = if Nat.eqb id' id then S (rc_of h id) else rc_of h id'.
Proof.
  unfold rc_inc. destruct id as [|i]; [discriminate|].
  destruct (nth_error h i) as [[|n]|] eqn:E; try discriminate. intros H; inversion H; subst; clear H.
  intros [|j]; cbn [rc_of]; [reflexivity|]. rewrite nth_upd_nat. cbn [Nat.eqb].
  destruct (Nat.eqb_spec j i) as [->|Hne]; [|reflexivity].
  assert (i < length h)%nat as Hlt by (apply nth_error_Some; congruence).
  apply Nat.ltb_lt in Hlt. rewrite Hlt. rewrite (nth_error_nth _ _ _ E). reflexivity.
Qed.
Lemma rc_inc_alive h id : (0 < rc_of h id)%nat -> exists h', rc_inc h id = (h', true).
Proof.
  unfold rc_inc, rc_of. destruct id as [|i]; [lia|]. intros H.
  destruct (nth_error h i) as [[|n]|] eqn:E.
  - rewrite (nth_error_nth _ _ _ E) in H. lia.
  - eexists; reflexivity.
  - apply nth_error_None in E. rewrite nth_overflow in H by lia. lia.
Qed.
Lemma rc_dec_ok h id h' : rc_dec h id = (h', true) ->
  forall id', rc_of h id' = if Nat.eqb id' id then S (rc_of h' id') else rc_of h' id'.
Proof.
  unfold rc_dec. destruct id as [|i]; [discriminate|].
  destruct (nth_error h i) as [[|n]|] eqn:E; try discriminate. intros H; inversion H; subst; clear H.
  intros [|j]; cbn [rc_of]; [reflexivity|]. rewrite nth_upd_nat. cbn [Nat.eqb].
  destruct (Nat.eqb_spec j i) as [->|Hne]; [|reflexivity].
  assert (i < length h)%nat as Hlt by (apply nth_error_Some; congruence).
  apply Nat.ltb_lt in Hlt. rewrite Hlt. rewrite (nth_error_nth _ _ _ E). reflexivity.
Qed.
Lemma rc_dec_alive h id : (0 < rc_of h id)%nat -> exists h', rc_dec h id = (h', true).
Proof.
  unfold rc_dec, rc_of. destruct id as [|i]; [lia|]. intros H.
  destruct (nth_error h i) as [[|n]|] eqn:E.
  - rewrite (nth_error_nth _ _ _ E) in H. lia.
  - eexists; reflexivity.
  - apply nth_error_None in E. rewrite nth_overflow in H by lia. lia.
Qed.

(* sums over the thread list *)
Lemma sum_ge {A} (f : A -> nat) (l : list A) t x : nth_error l t = Some x -> (f x <= list_sum (map f l))%nat.
Proof.
  revert t; induction l as [|h r IH]; destruct t; cbn; intros H; try discriminate.
  - inversion H; subst. Show. lia.
  - specialize (IH _ H). lia.
Qed.
