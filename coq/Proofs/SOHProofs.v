From GV Require Import Sched Events SOHModel.
