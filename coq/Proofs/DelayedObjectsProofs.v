(* Invariants and progress facts for the DelayedObjects model (property C18). *)
From Coq Require Import List Arith ZArith Lia Bool.
Import ListNotations.
From GV Require Import Sched Events DelayedObjectsModel.
Local Open Scope Z_scope.

Notation sysD := (sys glob loc).
Notation runD := (run glob loc tstep).
Notation stepD := (step glob loc tstep).
Notation enabledD := (enabled glob loc tstep).
Notation quiescentD := (quiescent glob loc tstep).

(* ====================================================================== *)
(* association lists                                                       *)
(* ====================================================================== *)
Definition keys (m : amap) : list Z := map fst m.

Lemma afind_In key m p : afind key m = Some p -> In (key, p) m.
Proof.
  induction m as [|[k q] r IH]; cbn; [discriminate|].
  destruct (Z.eqb_spec k key) as [->|Hne]; intros H.
  - inversion H; subst. left; reflexivity.
  - right. apply IH. exact H.
Qed.
Lemma afind_None key m : afind key m = None -> forall p, ~ In (key, p) m.
Proof.
  induction m as [|[k q] r IH]; cbn; intros H p; [tauto|].
  destruct (Z.eqb_spec k key) as [->|Hne]; [discriminate|].
  intros [E|E]; [inversion E; congruence|]. eapply IH; eauto.
Qed.
Lemma In_keys key p m : In (key, p) m -> In key (keys m).
Proof. intros H. apply (in_map fst) in H. exact H. Qed.
Lemma In_afind key m p : NoDup (keys m) -> In (key, p) m -> afind key m = Some p.
Proof.
  induction m as [|[k q] r IH]; cbn; intros Hnd Hin; [tauto|].
  inversion Hnd as [|? ? Hk Hr]; subst.
  destruct Hin as [E|Hin].
  - inversion E; subst. rewrite Z.eqb_refl. reflexivity.
  - destruct (Z.eqb_spec k key) as [->|Hne]; [|apply IH; auto].
    exfalso. apply Hk. eapply In_keys; eauto.
Qed.
Lemma In_adel k p key m : In (k, p) (adel key m) <-> In (k, p) m /\ k <> key.
Proof.
  unfold adel. rewrite filter_In. cbn. split; intros [H1 H2]; split; auto.
  - intros ->. rewrite Z.eqb_refl in H2. discriminate.
  - apply negb_true_iff. apply Z.eqb_neq. exact H2.
Qed.
Lemma keys_adel key m x : In x (keys (adel key m)) <-> In x (keys m) /\ x <> key.
Proof.
  unfold keys. rewrite !in_map_iff. split.
  - intros [[k p] [E H]]. cbn in E. subst. apply In_adel in H. destruct H. split; auto. exists (x, p); auto.
  - intros [[[k p] [E H]] Hne]. cbn in E. subst. exists (x, p). split; auto. apply In_adel. auto.
Qed.
Lemma adel_nodup key m : NoDup (keys m) -> NoDup (keys (adel key m)).
Proof.
  induction m as [|[k q] r IH]; cbn; intros H; [constructor|].
  inversion H as [|? ? Hk Hr]; subst.
  destruct (k =? key); cbn; [apply IH; exact Hr|].
  constructor; [|apply IH; exact Hr].
  intros Hin. apply keys_adel in Hin. tauto.
Qed.
Lemma In_ains e key p m : In e (ains key p m) <-> e = (key, p) \/ In e m.
Proof.
  induction m as [|[k q] r IH]; cbn; [intuition congruence|].
  destruct (key <? k); cbn; [intuition congruence|]. rewrite IH. tauto.
Qed.
Lemma keys_ains x key p m : In x (keys (ains key p m)) <-> x = key \/ In x (keys m).
Proof.
  induction m as [|[k q] r IH]; cbn; [intuition congruence|].
  destruct (key <? k); cbn; [intuition congruence|]. rewrite IH. tauto.
Qed.
Lemma ains_nodup key p m : ~ In key (keys m) -> NoDup (keys m) -> NoDup (keys (ains key p m)).
Proof.
  induction m as [|[k q] r IH]; cbn; intros Hn Hnd.
  - constructor; [tauto|constructor].
  - inversion Hnd as [|? ? Hk Hr]; subst. destruct (key <? k); cbn.
    + constructor; [cbn; tauto|exact Hnd].
    + constructor; [|apply IH; tauto]. intros Hin. apply keys_ains in Hin. destruct Hin as [->|Hin]; tauto.
Qed.
Lemma afind_ains key p m key' : ~ In key (keys m) ->
  afind key' (ains key p m) = if key' =? key then Some p else afind key' m.
Proof.
  induction m as [|[k q] r IH]; cbn; intros Hn.
  - rewrite (Z.eqb_sym key key'). reflexivity.
  - destruct (key <? k); cbn.
    + rewrite (Z.eqb_sym key key'). reflexivity.
    + rewrite IH by tauto. destruct (Z.eqb_spec k key') as [E|Hk]; [|reflexivity].
      destruct (Z.eqb_spec key' key) as [E2|]; [exfalso; apply Hn; left; congruence|reflexivity].
Qed.
Lemma ains_length key p m : length (ains key p m) = S (length m).
Proof. induction m as [|[k q] r IH]; cbn; [reflexivity|]. destruct (key <? k); cbn; [reflexivity|]. rewrite IH. reflexivity. Qed.
Lemma adel_length key m : (length (adel key m) <= length m)%nat.
Proof. unfold adel. induction m as [|e r IH]; cbn; [lia|]. destruct (negb (fst e =? key)); cbn; lia. Qed.
Lemma aput_length key p m : (length (aput key p m) <= S (length m))%nat.
Proof. unfold aput. rewrite ains_length. pose proof (adel_length key m). lia. Qed.

Lemma aput_nodup key p m : NoDup (keys m) -> NoDup (keys (aput key p m)).
Proof.
  intros H. unfold aput. apply ains_nodup; [|apply adel_nodup; exact H].
  intros Hin. apply keys_adel in Hin. tauto.
Qed.
Lemma In_aput k p key q m : In (k, p) (aput key q m) <-> (k = key /\ p = q) \/ (k <> key /\ In (k, p) m).
Proof.
  unfold aput. rewrite In_ains, In_adel. split.
  - intros [E|[H1 H2]]; [inversion E; auto|auto].
  - intros [[-> ->]|[H1 H2]]; auto.
Qed.

Lemma afind_adel_same key m : afind key (adel key m) = None.
Proof.
  unfold adel. induction m as [|[k q] r IH]; cbn; [reflexivity|].
  destruct (Z.eqb_spec k key) as [->|Hne]; cbn; [exact IH|].
  destruct (Z.eqb_spec k key); [contradiction|exact IH].
Qed.
Lemma afind_adel_other key key' m : key' <> key -> afind key' (adel key m) = afind key' m.
Proof.
  intros Hne. unfold adel. induction m as [|[k q] r IH]; cbn; [reflexivity|].
  destruct (Z.eqb_spec k key) as [->|Hk]; cbn.
  - destruct (Z.eqb_spec key key'); [congruence|exact IH].
  - rewrite IH. reflexivity.
Qed.
Lemma ahas_adel key key' m : ahas key' (adel key m) = negb (key' =? key) && ahas key' m.
Proof.
  unfold ahas. destruct (Z.eqb_spec key' key) as [->|Hne]; cbn.
  - rewrite afind_adel_same. reflexivity.
  - rewrite afind_adel_other by exact Hne. reflexivity.
Qed.
Lemma ahas_aput key q key' m : ahas key' (aput key q m) = (key' =? key) || ahas key' m.
Proof.
  unfold ahas, aput. rewrite afind_ains by (intros Hin; apply keys_adel in Hin; tauto).
  destruct (Z.eqb_spec key' key) as [->|Hne]; cbn; [reflexivity|].
  rewrite afind_adel_other by exact Hne. reflexivity.
Qed.
Lemma ahas_true key m : ahas key m = true <-> exists p, In (key, p) m.
Proof.
  unfold ahas. destruct (afind key m) as [p|] eqn:E; split; intros H; try discriminate; auto.
  - exists p. apply afind_In. exact E.
  - destruct H as [p Hp]. exfalso. eapply afind_None; eauto.
Qed.

(* ====================================================================== *)
(* the promise heap                                                        *)
(* ====================================================================== *)
Lemma set_value_spec q v h h' : set_value q v h = Some h' ->
  exists k key, nth_error h q = Some (Cell k key Unset) /\ nth_error h' q = Some (Cell k key (SetV v)) /\
    length h' = length h /\ (forall q', q' <> q -> nth_error h' q' = nth_error h q').
Proof.
  unfold set_value. destruct (nth_error h q) as [[k key st]|] eqn:E; [|discriminate].
  destruct st; try discriminate. intros H; inversion H; subst. exists k, key.
  split; [reflexivity|]. split; [eapply nth_upd_eq; eauto|]. split; [apply upd_length|].
  intros q' Hne. apply nth_upd_ne. auto.
Qed.
Lemma set_value_ok q v h k key : nth_error h q = Some (Cell k key Unset) -> exists h', set_value q v h = Some h'.
Proof. intros H. unfold set_value. rewrite H. eexists; reflexivity. Qed.

Lemma drop_spec q h :
  (exists k key, nth_error h q = Some (Cell k key Unset) /\ nth_error (drop q h) q = Some (Cell k key Broken) /\
     length (drop q h) = length h /\ (forall q', q' <> q -> nth_error (drop q h) q' = nth_error h q')) \/
  ((forall k key, nth_error h q <> Some (Cell k key Unset)) /\ drop q h = h).
Proof.
  unfold drop. destruct (nth_error h q) as [[k key st]|] eqn:E.
  - destruct st.
    + left. exists k, key. split; [reflexivity|]. split; [eapply nth_upd_eq; eauto|]. split; [apply upd_length|].
      intros q' Hne. apply nth_upd_ne. auto.
    + right. split; [intros; congruence|reflexivity].
    + right. split; [intros; congruence|reflexivity].
  - right. split; [intros; congruence|reflexivity].
Qed.
Lemma drop_id q h : (forall k key, nth_error h q <> Some (Cell k key Unset)) -> drop q h = h.
Proof. intros H. destruct (drop_spec q h) as [[k [key [E _]]]|[_ E]]; [exfalso; eapply H; eauto|exact E]. Qed.

(* how the heap evolves: cells are never removed, the (ghost) kind and key of a cell never
   change, and a state other than Unset is final *)
Definition hle (h h' : heap_t) : Prop :=
  forall q k key st, nth_error h q = Some (Cell k key st) ->
    exists st', nth_error h' q = Some (Cell k key st') /\ (st <> Unset -> st' = st).
Lemma hle_refl h : hle h h.
Proof. intros q k key st H. exists st. auto. Qed.
Lemma hle_trans a b c : hle a b -> hle b c -> hle a c.
Proof.
  intros H1 H2 q k key st H. destruct (H1 _ _ _ _ H) as [st1 [E1 F1]]. destruct (H2 _ _ _ _ E1) as [st2 [E2 F2]].
  exists st2. split; [exact E2|]. intros Hne. specialize (F1 Hne). subst st1. auto.
Qed.
Lemma hle_set_value q v h h' : set_value q v h = Some h' -> hle h h'.
Proof.
  intros H. destruct (set_value_spec _ _ _ _ H) as [k [key [E [E' [_ Ho]]]]].
  intros q' k' key' st Hq. destruct (Nat.eq_dec q' q) as [->|Hne].
  - rewrite E in Hq. inversion Hq; subst. exists (SetV v). split; [exact E'|congruence].
  - exists st. rewrite Ho by exact Hne. auto.
Qed.
Lemma hle_drop q h : hle h (drop q h).
Proof.
  destruct (drop_spec q h) as [[k [key [E [E' [_ Ho]]]]]|[_ E]]; [|rewrite E; apply hle_refl].
  intros q' k' key' st Hq. destruct (Nat.eq_dec q' q) as [->|Hne].
  - rewrite E in Hq. inversion Hq; subst. exists Broken. split; [exact E'|congruence].
  - exists st. rewrite Ho by exact Hne. auto.
Qed.
Lemma hle_drop_opt o h : hle h (drop_opt o h).
Proof. destruct o; cbn; [apply hle_drop|apply hle_refl]. Qed.
Lemma hle_app h x : hle h (h ++ x).
Proof.
  intros q k key st H. exists st. split; auto. rewrite nth_error_app1; auto. apply nth_error_Some. congruence.
Qed.
Lemma hle_length h h' : hle h h' -> (length h <= length h')%nat.
Proof.
  intros H. destruct (le_lt_dec (length h) (length h')) as [|Hlt]; [assumption|exfalso].
  destruct (nth_error h (length h')) as [[k key st]|] eqn:E; [|apply nth_error_None in E; lia].
  destruct (H _ _ _ _ E) as [st' [E' _]]. assert (length h' < length h')%nat; [|lia].
  apply nth_error_Some. congruence.
Qed.

(* ====================================================================== *)
(* the container invariant (sequential: one critical section = one apply)  *)
(* ====================================================================== *)
Lemma setf_eq f k m : setf f k m k = m.
Proof. unfold setf. rewrite Bool.eqb_reflx. reflexivity. Qed.
Lemma setf_ne f k m k' : k' <> k -> setf f k m k' = f k'.
Proof. intros H. unfold setf. destruct (Bool.eqb_spec k' k); [contradiction|reflexivity]. Qed.

Record CInv (c : cont) : Prop := {
  (* the pending maps hold exactly the unsatisfied promises, each under the key it was requested for *)
  C_pend : forall k key q, In (key, q) (pend c k) -> nth_error (heap c) q = Some (Cell k key Unset);
  C_unset : forall q k key, nth_error (heap c) q = Some (Cell k key Unset) -> In (key, q) (pend c k);
  (* the used maps hold only satisfied promises *)
  C_used : forall k key q, In (key, q) (used c k) -> exists v, nth_error (heap c) q = Some (Cell k key (SetV v));
  C_pnd : forall k, NoDup (keys (pend c k));
  C_und : forall k, NoDup (keys (used c k));
  (* a promise is broken only by a later request of the same key *)
  C_broken : forall q k key, nth_error (heap c) q = Some (Cell k key Broken) ->
             exists q' st, (q < q')%nat /\ nth_error (heap c) q' = Some (Cell k key st)
}.

Lemma CInv_init : CInv cont0.
Proof.
  constructor; cbn; intros; try contradiction; try constructor.
  all: destruct q; discriminate.
Qed.

(* dropping the promise a used map holds under some key does nothing: it is satisfied *)
Lemma drop_used_id c k key h : CInv c -> hle (heap c) h -> drop_opt (afind key (used c k)) h = h.
Proof.
  intros HI Hle. destruct (afind key (used c k)) as [q0|] eqn:Hf; cbn; [|reflexivity].
  destruct (C_used _ HI _ _ _ (afind_In _ _ _ Hf)) as [v Hv].
  destruct (Hle _ _ _ _ Hv) as [st' [E F]]. rewrite F in E by discriminate.
  apply drop_id. intros k0 key0. rewrite E. discriminate.
Qed.

(* ---------- getFuture ---------- *)
Lemma get_heap c k key : CInv c ->
  let h2 := drop_opt (afind key (pend c k)) (heap c ++ [Cell k key Unset]) in
  (forall q x, nth_error h2 q = Some x ->
     (q = length (heap c) /\ x = Cell k key Unset) \/
     (afind key (pend c k) = Some q /\ x = Cell k key Broken) \/
     (afind key (pend c k) <> Some q /\ nth_error (heap c) q = Some x)) /\
  nth_error h2 (length (heap c)) = Some (Cell k key Unset) /\
  (forall q x, nth_error (heap c) q = Some x -> afind key (pend c k) <> Some q -> nth_error h2 q = Some x) /\
  (forall q, afind key (pend c k) = Some q -> (q < length (heap c))%nat /\ nth_error h2 q = Some (Cell k key Broken)).
Proof.
  intros HI. set (p := length (heap c)). set (h1 := heap c ++ [Cell k key Unset]).
  assert (Hold : forall q x, nth_error (heap c) q = Some x -> nth_error h1 q = Some x).
  { intros q x H. unfold h1. rewrite nth_error_app1; auto. apply nth_error_Some. congruence. }
  assert (Hnew : nth_error h1 p = Some (Cell k key Unset)).
  { unfold h1, p. rewrite nth_error_app2 by lia. rewrite Nat.sub_diag. reflexivity. }
  assert (Hinv : forall q x, nth_error h1 q = Some x ->
             (q = p /\ x = Cell k key Unset) \/ ((q < p)%nat /\ nth_error (heap c) q = Some x)).
  { intros q x H. unfold h1 in H. destruct (lt_dec q p) as [Hlt|Hge].
    - right. rewrite nth_error_app1 in H by exact Hlt. auto.
    - left. rewrite nth_error_app2 in H by (unfold p in *; lia).
      destruct (q - length (heap c))%nat as [|n] eqn:E; cbn in H.
      + inversion H. split; auto. unfold p in *. lia.
      + destruct n; discriminate. }
  destruct (afind key (pend c k)) as [q0|] eqn:Hf; cbn [drop_opt].
  - pose proof (C_pend _ HI _ _ _ (afind_In _ _ _ Hf)) as Hq0.
    assert (Hq0p : (q0 < p)%nat) by (apply nth_error_Some; congruence).
    destruct (drop_spec q0 h1) as [[k0 [key0 [E [E' [_ Ho]]]]]|[Hno _]]; [|exfalso; eapply Hno; eauto].
    rewrite (Hold _ _ Hq0) in E. inversion E; subst k0 key0. clear E.
    refine (conj _ (conj _ (conj _ _))).
    + intros q x H. destruct (Nat.eq_dec q q0) as [->|Hne].
      * right; left. rewrite E' in H. inversion H. auto.
      * rewrite Ho in H by exact Hne. destruct (Hinv _ _ H) as [[-> ->]|[Hlt Hx]]; [left; auto|].
        right; right. split; [congruence|exact Hx].
    + rewrite Ho by lia. exact Hnew.
    + intros q x Hx Hne. rewrite Ho by congruence. apply Hold. exact Hx.
    + intros q Hq. inversion Hq; subst. auto.
  - refine (conj _ (conj _ (conj _ _))).
    + intros q x H. destruct (Hinv _ _ H) as [[-> ->]|[Hlt Hx]]; [left; auto|].
      right; right. split; [discriminate|exact Hx].
    + exact Hnew.
    + intros q x Hx _. apply Hold. exact Hx.
    + intros q Hq. discriminate.
Qed.

Lemma CInv_get c k key : CInv c ->
  CInv (Cont (setf (pend c) k (aput key (length (heap c)) (pend c k))) (used c)
             (drop_opt (afind key (pend c k)) (heap c ++ [Cell k key Unset]))).
Proof.
  intros HI. destruct (get_heap c k key HI) as [Hinv [Hnew [Hold Hbrk]]].
  destruct HI as [HP HUS HU HPN HUN HB].
  constructor; cbn [pend used heap].
  - (* C_pend *)
    intros k' key' q' Hin. destruct (Bool.eqb_spec k' k) as [->|Hk].
    + rewrite setf_eq in Hin. apply In_aput in Hin. destruct Hin as [[-> ->]|[Hne Hin]]; [exact Hnew|].
      apply Hold; [apply HP; exact Hin|]. intros Hf. apply afind_In in Hf.
      pose proof (HP _ _ _ Hf) as E1. pose proof (HP _ _ _ Hin) as E2. congruence.
    + rewrite setf_ne in Hin by exact Hk. apply Hold; [apply HP; exact Hin|].
      intros Hf. apply afind_In in Hf.
      pose proof (HP _ _ _ Hf) as E1. pose proof (HP _ _ _ Hin) as E2. congruence.
  - (* C_unset *)
    intros q' k' key' H. destruct (Hinv _ _ H) as [[-> E]|[[_ E]|[Hnf Hx]]]; try discriminate.
    + inversion E; subst. rewrite setf_eq. apply In_aput. left; auto.
    + pose proof (HUS _ _ _ Hx) as Hin. destruct (Bool.eqb_spec k' k) as [->|Hk].
      * rewrite setf_eq. apply In_aput. right. split; [|exact Hin].
        intros ->. apply Hnf. apply In_afind; auto.
      * rewrite setf_ne by exact Hk. exact Hin.
  - (* C_used *)
    intros k' key' q' Hin. destruct (HU _ _ _ Hin) as [v Hv]. exists v. apply Hold; [exact Hv|].
    intros Hf. apply afind_In in Hf. pose proof (HP _ _ _ Hf) as E1. congruence.
  - intros k'. destruct (Bool.eqb_spec k' k) as [->|Hk].
    + rewrite setf_eq. apply aput_nodup. apply HPN.
    + rewrite setf_ne by exact Hk. apply HPN.
  - exact HUN.
  - (* C_broken *)
    intros q' k' key' H. destruct (Hinv _ _ H) as [[-> E]|[[Hf E]|[Hnf Hx]]]; try discriminate.
    + inversion E; subst. destruct (Hbrk _ Hf) as [Hlt _]. exists (length (heap c)), Unset. split; [exact Hlt|exact Hnew].
    + destruct (HB _ _ _ Hx) as [q'' [st [Hlt Hq'']]].
      assert (Hdec : afind key (pend c k) = Some q'' \/ afind key (pend c k) <> Some q'').
      { destruct (afind key (pend c k)) as [z|]; [|right; discriminate].
        destruct (Nat.eq_dec z q'') as [->|]; [left; reflexivity|right; congruence]. }
      destruct Hdec as [Heq|Hneq].
      * pose proof (HP _ _ _ (afind_In _ _ _ Heq)) as E1. rewrite E1 in Hq''. inversion Hq''; subst.
        exists q'', Broken. split; [exact Hlt|]. apply (Hbrk _ Heq).
      * exists q'', st. split; [exact Hlt|]. apply Hold; [exact Hq''|congruence].
Qed.

(* ---------- setDelayedValue ---------- *)
Lemma set_no_fault c k key q v : CInv c -> afind key (pend c k) = Some q -> exists h1, set_value q v (heap c) = Some h1.
Proof. intros HI Hf. eapply set_value_ok. apply (C_pend _ HI). apply afind_In. exact Hf. Qed.

Lemma CInv_set c k key v q h1 : CInv c -> afind key (pend c k) = Some q -> set_value q v (heap c) = Some h1 ->
  CInv (Cont (setf (pend c) k (adel key (pend c k))) (setf (used c) k (aput key q (used c k)))
             (drop_opt (afind key (used c k)) h1)).
Proof.
  intros HI Hf Hs. rewrite (drop_used_id c k key h1 HI (hle_set_value _ _ _ _ Hs)).
  destruct (set_value_spec _ _ _ _ Hs) as [k0 [key0 [E [E' [_ Ho]]]]].
  pose proof (C_pend _ HI _ _ _ (afind_In _ _ _ Hf)) as Hq. rewrite Hq in E. inversion E; subst k0 key0. clear E.
  destruct HI as [HP HUS HU HPN HUN HB].
  constructor; cbn [pend used heap].
  - intros k' key' q' Hin. destruct (Bool.eqb_spec k' k) as [->|Hk].
    + rewrite setf_eq in Hin. apply In_adel in Hin. destruct Hin as [Hin Hne].
      pose proof (HP _ _ _ Hin) as E2. rewrite Ho; [exact E2|]. intros ->. congruence.
    + rewrite setf_ne in Hin by exact Hk. pose proof (HP _ _ _ Hin) as E2. rewrite Ho; [exact E2|]. intros ->. congruence.
  - intros q' k' key' H. assert (q' <> q) as Hne by (intros ->; congruence).
    rewrite Ho in H by exact Hne. pose proof (HUS _ _ _ H) as Hin.
    destruct (Bool.eqb_spec k' k) as [->|Hk].
    + rewrite setf_eq. apply In_adel. split; [exact Hin|]. intros ->. apply Hne.
      pose proof (In_afind _ _ _ (HPN k) Hin). congruence.
    + rewrite setf_ne by exact Hk. exact Hin.
  - intros k' key' q' Hin.
    assert (Hold : In (key', q') (used c k') -> exists v0, nth_error h1 q' = Some (Cell k' key' (SetV v0))).
    { intros Hin0. destruct (HU _ _ _ Hin0) as [v0 Hv0]. exists v0. rewrite Ho; [exact Hv0|]. intros ->. congruence. }
    destruct (Bool.eqb_spec k' k) as [->|Hk].
    + rewrite setf_eq in Hin. apply In_aput in Hin. destruct Hin as [[-> ->]|[_ Hin]]; [exists v; exact E'|auto].
    + rewrite setf_ne in Hin by exact Hk. auto.
  - intros k'. destruct (Bool.eqb_spec k' k) as [->|Hk].
    + rewrite setf_eq. apply adel_nodup. apply HPN.
    + rewrite setf_ne by exact Hk. apply HPN.
  - intros k'. destruct (Bool.eqb_spec k' k) as [->|Hk].
    + rewrite setf_eq. apply aput_nodup. apply HUN.
    + rewrite setf_ne by exact Hk. apply HUN.
  - intros q' k' key' H. assert (q' <> q) as Hne by (intros ->; congruence).
    rewrite Ho in H by exact Hne. destruct (HB _ _ _ H) as [q'' [st [Hlt Hq'']]].
    destruct (Nat.eq_dec q'' q) as [->|Hne2].
    + rewrite Hq in Hq''. inversion Hq''; subst. exists q, (SetV v). auto.
    + exists q'', st. rewrite Ho by exact Hne2. auto.
Qed.

(* ---------- finishedWithValue ---------- *)
Lemma CInv_finished c k key : CInv c ->
  CInv (Cont (pend c) (setf (used c) k (adel key (used c k))) (drop_opt (afind key (used c k)) (heap c))).
Proof.
  intros HI. rewrite (drop_used_id c k key (heap c) HI (hle_refl _)).
  destruct HI as [HP HUS HU HPN HUN HB].
  constructor; cbn [pend used heap]; auto.
  - intros k' key' q' Hin. destruct (Bool.eqb_spec k' k) as [->|Hk].
    + rewrite setf_eq in Hin. apply In_adel in Hin. apply HU. tauto.
    + rewrite setf_ne in Hin by exact Hk. auto.
  - intros k'. destruct (Bool.eqb_spec k' k) as [->|Hk].
    + rewrite setf_eq. apply adel_nodup. apply HUN.
    + rewrite setf_ne by exact Hk. apply HUN.
Qed.

(* ---------- fulfillAllPromises: the loop over one pending map ---------- *)
Lemma ahas_cons key q r key' : ahas key' ((key, q) :: r) = (key' =? key) || ahas key' r.
Proof. unfold ahas. cbn. rewrite (Z.eqb_sym key key'). destruct (key' =? key); reflexivity. Qed.

Lemma fulfill_spec k v : forall es u h,
  (forall key q, In (key, q) es -> nth_error h q = Some (Cell k key Unset)) ->
  NoDup (keys es) ->
  (forall key q, In (key, q) u -> exists v', nth_error h q = Some (Cell k key (SetV v'))) ->
  NoDup (keys u) ->
  exists u' h', fulfill es v u h = Some (u', h') /\
    length h' = length h /\
    (forall key q, In (key, q) es -> nth_error h' q = Some (Cell k key (SetV v))) /\
    (forall q, (forall key, ~ In (key, q) es) -> nth_error h' q = nth_error h q) /\
    (forall key q, In (key, q) u' -> exists v', nth_error h' q = Some (Cell k key (SetV v'))) /\
    NoDup (keys u') /\
    (forall key, ahas key u' = ahas key es || ahas key u).
Proof.
  induction es as [|[key q] r IH]; intros u h Hes Hnd Hu Hndu.
  - exists u, h. cbn. repeat split; auto; intros; contradiction.
  - inversion Hnd as [|? ? Hk Hr]; subst.
    pose proof (Hes key q (or_introl eq_refl)) as Hq.
    destruct (set_value_ok q v h k key Hq) as [h1 Hs]. cbn [fulfill]. rewrite Hs.
    destruct (set_value_spec _ _ _ _ Hs) as [k0 [key0 [E [E' [Hlen Ho]]]]].
    rewrite Hq in E. inversion E; subst k0 key0. clear E.
    assert (Hdrop : drop_opt (afind key u) h1 = h1).
    { destruct (afind key u) as [q0|] eqn:Hf; cbn; [|reflexivity].
      destruct (Hu _ _ (afind_In _ _ _ Hf)) as [v0 Hv0]. apply drop_id. intros k1 key1.
      rewrite Ho by (intros ->; congruence). rewrite Hv0. discriminate. }
    rewrite Hdrop.
    assert (Hnotin : forall key', ~ In (key', q) r).
    { intros key' Hin. pose proof (Hes key' q (or_intror Hin)) as E2. rewrite Hq in E2. inversion E2; subst.
      apply Hk. eapply In_keys; eauto. }
    destruct (IH (aput key q u) h1) as [u' [h' [Hf [Hlen' [Hset [Hoth [Hu' [Hndu' Hhas]]]]]]]].
    + intros key' q' Hin. rewrite Ho; [apply Hes; right; exact Hin|]. intros ->. eapply Hnotin; eauto.
    + exact Hr.
    + intros key' q' Hin. apply In_aput in Hin. destruct Hin as [[-> ->]|[_ Hin]]; [exists v; exact E'|].
      destruct (Hu _ _ Hin) as [v0 Hv0]. exists v0. rewrite Ho; [exact Hv0|]. intros ->. congruence.
    + apply aput_nodup. exact Hndu.
    + exists u', h'. split; [exact Hf|]. split; [lia|].
      split; [|split; [|split; [exact Hu'|split; [exact Hndu'|]]]].
      * intros key' q' [Hin|Hin]; [|apply Hset; exact Hin].
        inversion Hin; subst. rewrite Hoth by exact Hnotin. exact E'.
      * intros q' Hq'. rewrite Hoth; [apply Ho|].
        -- intros ->. apply (Hq' key). left; reflexivity.
        -- intros key' Hin. apply (Hq' key'). right; exact Hin.
      * intros key'. rewrite Hhas, ahas_aput, ahas_cons.
        destruct (key' =? key), (ahas key' r), (ahas key' u); reflexivity.
Qed.

(* the state of a cell after "satisfy everything that is still unsatisfied with v" *)
Definition settle (v : Z) (st : pst) : pst := match st with Unset => SetV v | _ => st end.

Lemma CInv_fulfill c v : CInv c ->
  exists u0 h0 u1 h1,
    fulfill (pend c false) v (used c false) (heap c) = Some (u0, h0) /\
    fulfill (pend c true) v (used c true) h0 = Some (u1, h1) /\
    CInv (Cont (fun _ => []) (fun k => if k then u1 else u0) h1) /\
    length h1 = length (heap c) /\
    (forall q k key st, nth_error (heap c) q = Some (Cell k key st) ->
       nth_error h1 q = Some (Cell k key (settle v st))) /\
    (forall key, ahas key u0 = ahas key (pend c false) || ahas key (used c false)) /\
    (forall key, ahas key u1 = ahas key (pend c true) || ahas key (used c true)).
Proof.
  intros HI. pose proof HI as [HP HUS HU HPN HUN HB].
  destruct (fulfill_spec false v (pend c false) (used c false) (heap c))
    as [u0 [h0 [Hf0 [Hl0 [Hs0 [Ho0 [Hu0 [Hn0 Hh0]]]]]]]]; auto.
  assert (Hkeep : forall key q, In (key, q) (pend c true) \/ In (key, q) (used c true) ->
            nth_error h0 q = nth_error (heap c) q).
  { intros key q Hin. apply Ho0. intros key' Hin'. pose proof (HP _ _ _ Hin') as E1.
    destruct Hin as [Hin|Hin]; [pose proof (HP _ _ _ Hin); congruence|destruct (HU _ _ _ Hin); congruence]. }
  destruct (fulfill_spec true v (pend c true) (used c true) h0)
    as [u1 [h1 [Hf1 [Hl1 [Hs1 [Ho1 [Hu1 [Hn1 Hh1]]]]]]]]; auto.
  { intros key q Hin. rewrite (Hkeep key q) by auto. auto. }
  { intros key q Hin. rewrite (Hkeep key q) by auto. auto. }
  assert (Hcell : forall q k key st, nth_error (heap c) q = Some (Cell k key st) ->
            nth_error h1 q = Some (Cell k key (settle v st))).
  { intros q k key st Hq. destruct st; cbn [settle].
    - pose proof (HUS _ _ _ Hq) as Hin. destruct k.
      + apply Hs1. exact Hin.
      + rewrite Ho1; [apply Hs0; exact Hin|]. intros key' Hin'.
        pose proof (Hs0 _ _ Hin). rewrite (Hkeep key' q) in H by auto. pose proof (HP _ _ _ Hin'). congruence.
    - rewrite Ho1, Ho0; [exact Hq| |].
      + intros key' Hin'. pose proof (HP _ _ _ Hin'). congruence.
      + intros key' Hin'. pose proof (HP _ _ _ Hin'). congruence.
    - rewrite Ho1, Ho0; [exact Hq| |].
      + intros key' Hin'. pose proof (HP _ _ _ Hin'). congruence.
      + intros key' Hin'. pose proof (HP _ _ _ Hin'). congruence. }
  assert (Hback : forall q k key st', nth_error h1 q = Some (Cell k key st') ->
            exists st, nth_error (heap c) q = Some (Cell k key st) /\ st' = settle v st).
  { intros q k key st' Hq. destruct (nth_error (heap c) q) as [[k0 key0 st0]|] eqn:E.
    - rewrite (Hcell _ _ _ _ E) in Hq. inversion Hq; subst. eauto.
    - apply nth_error_None in E. assert (q < length h1)%nat by (apply nth_error_Some; congruence). lia. }
  exists u0, h0, u1, h1. split; [exact Hf0|]. split; [exact Hf1|]. split; [|split; [lia|split; [exact Hcell|auto]]].
  constructor; cbn [pend used heap].
  - intros; contradiction.
  - intros q k key Hq. destruct (Hback _ _ _ _ Hq) as [st [_ E]]. destruct st; discriminate.
  - intros k key q Hin. destruct k; [apply Hu1; exact Hin|].
    destruct (Hu0 _ _ Hin) as [v0 Hv0]. exists v0. rewrite Ho1; [exact Hv0|].
    intros key' Hin'. pose proof (HP _ _ _ Hin'). rewrite (Hkeep key' q) in Hv0 by auto. congruence.
  - intros; constructor.
  - intros k; destruct k; assumption.
  - intros q k key Hq. destruct (Hback _ _ _ _ Hq) as [st [Hst E]]. destruct st; try discriminate.
    destruct (HB _ _ _ Hst) as [q' [st' [Hlt Hq']]]. exists q', (settle v st'). split; [exact Hlt|]. apply Hcell. exact Hq'.
Qed.

(* ---------- every critical section preserves the invariant and raises no exception ---------- *)
Lemma apply_CInv o c c' rv flt : CInv c -> apply o c = (c', rv, flt) -> CInv c' /\ flt = false.
Proof.
  intros HI Ha. destruct o; cbn [apply] in Ha.
  - inversion Ha; subst. split; [apply CInv_get; exact HI|reflexivity].
  - destruct (afind key (pend c k)) as [q|] eqn:Hf.
    + destruct (set_no_fault c k key q v HI Hf) as [h1 Hs]. rewrite Hs in Ha. inversion Ha; subst.
      split; [eapply CInv_set; eauto|reflexivity].
    + inversion Ha; subst. auto.
  - destruct (CInv_fulfill c v HI) as [u0 [h0 [u1 [h1 [Hf0 [Hf1 [HI' _]]]]]]].
    unfold finish in Ha. rewrite Hf0, Hf1 in Ha. inversion Ha; subst. auto.
  - inversion Ha; subst. auto.
  - inversion Ha; subst. auto.
  - inversion Ha; subst. split; [apply CInv_finished; exact HI|reflexivity].
  - inversion Ha; subst. auto.
  - inversion Ha; subst. auto.
Qed.

(* ... and only ever moves promise cells forward (Unset -> SetV v | Broken, then final) *)
Lemma fulfill_hle v : forall es u h u' h', fulfill es v u h = Some (u', h') -> hle h h'.
Proof.
  induction es as [|[key q] r IH]; intros u h u' h' H; cbn in H.
  - inversion H; subst. apply hle_refl.
  - destruct (set_value q v h) as [h1|] eqn:Hs; [|discriminate].
    eapply hle_trans; [eapply hle_set_value; eauto|].
    eapply hle_trans; [apply hle_drop_opt|]. eapply IH; eauto.
Qed.
Lemma apply_hle o c c' rv flt : apply o c = (c', rv, flt) -> hle (heap c) (heap c').
Proof.
  intros Ha. destruct o; cbn [apply] in Ha.
  - inversion Ha; subst. cbn [heap]. eapply hle_trans; [apply hle_app|apply hle_drop_opt].
  - destruct (afind key (pend c k)) as [q|]; [|inversion Ha; subst; apply hle_refl].
    destruct (set_value q v (heap c)) as [h1|] eqn:Hs; [|inversion Ha; subst; apply hle_refl].
    inversion Ha; subst. cbn [heap]. eapply hle_trans; [eapply hle_set_value; eauto|apply hle_drop_opt].
  - unfold finish in Ha.
    destruct (fulfill (pend c false) v (used c false) (heap c)) as [[u0 h0]|] eqn:H0; [|inversion Ha; subst; apply hle_refl].
    destruct (fulfill (pend c true) v (used c true) h0) as [[u1 h1]|] eqn:H1; [|inversion Ha; subst; apply hle_refl].
    inversion Ha; subst. cbn [heap]. eapply hle_trans; eapply fulfill_hle; eauto.
  - inversion Ha; subst. apply hle_refl.
  - inversion Ha; subst. apply hle_refl.
  - inversion Ha; subst. cbn [heap]. apply hle_drop_opt.
  - inversion Ha; subst. apply hle_refl.
  - inversion Ha; subst. apply hle_refl.
Qed.

(* ---------- what each method does to the promises (C18: which value a future gets) ---------- *)
(* setDelayedValue on a key that is pending satisfies exactly that key's promise with v *)
Lemma apply_set_pending c mv k key v q : CInv c -> afind key (pend c k) = Some q ->
  exists c', apply (SetValue mv k key v) c = (c', 0, false) /\
    nth_error (heap c) q = Some (Cell k key Unset) /\
    nth_error (heap c') q = Some (Cell k key (SetV v)) /\
    (forall q', q' <> q -> nth_error (heap c') q' = nth_error (heap c) q').
Proof.
  intros HI Hf. destruct (set_no_fault c k key q v HI Hf) as [h1 Hs].
  cbn [apply]. rewrite Hf, Hs. eexists. split; [reflexivity|]. cbn [heap].
  rewrite (drop_used_id c k key h1 HI (hle_set_value _ _ _ _ Hs)).
  destruct (set_value_spec _ _ _ _ Hs) as [k0 [key0 [E [E' [_ Ho]]]]].
  pose proof (C_pend _ HI _ _ _ (afind_In _ _ _ Hf)) as Hq. rewrite Hq in E. inversion E; subst. auto.
Qed.
(* ... and on a key that is unknown or already completed it changes nothing at all *)
Lemma apply_set_noop c mv k key v : afind key (pend c k) = None -> apply (SetValue mv k key v) c = (c, 0, false).
Proof. intros Hf. cbn [apply]. rewrite Hf. reflexivity. Qed.
(* fulfillAllPromises satisfies every unsatisfied promise with v and touches no other *)
Lemma apply_fulfill c v : CInv c ->
  exists c', apply (FulfillAll v) c = (c', 0, false) /\ length (heap c') = length (heap c) /\
    (forall k, pend c' k = []) /\
    (forall q k key st, nth_error (heap c) q = Some (Cell k key st) ->
       nth_error (heap c') q = Some (Cell k key (settle v st))).
Proof.
  intros HI. destruct (CInv_fulfill c v HI) as [u0 [h0 [u1 [h1 [Hf0 [Hf1 [_ [Hl [Hc _]]]]]]]]].
  cbn [apply]. unfold finish. rewrite Hf0, Hf1. eexists. split; [reflexivity|]. cbn [heap pend]. auto.
Qed.

(* no value out of thin air: a promise is satisfied only by a setDelayedValue for its own key,
   or by a fulfillAllPromises, and then with the value that call was given *)
Lemma apply_prov o c c' rv flt q k key v : CInv c -> apply o c = (c', rv, flt) ->
  nth_error (heap c') q = Some (Cell k key (SetV v)) ->
  nth_error (heap c) q = Some (Cell k key (SetV v)) \/
  (nth_error (heap c) q = Some (Cell k key Unset) /\ ((exists mv, o = SetValue mv k key v) \/ o = FulfillAll v)).
Proof.
  intros HI Ha Hq. destruct o.
  - cbn [apply] in Ha. inversion Ha; subst. cbn [heap] in Hq.
    destruct (get_heap c k0 key0 HI) as [Hinv _].
    destruct (Hinv _ _ Hq) as [[_ E]|[[_ E]|[_ E]]]; try discriminate. left; exact E.
  - destruct (afind key0 (pend c k0)) as [q0|] eqn:Hf.
    + destruct (apply_set_pending c mv k0 key0 v0 q0 HI Hf) as [c'' [Hap [H1 [H2 H3]]]].
      rewrite Hap in Ha. inversion Ha; subst. destruct (Nat.eq_dec q q0) as [->|Hne].
      * rewrite H2 in Hq. inversion Hq; subst. right. split; [exact H1|]. left. exists mv. reflexivity.
      * rewrite H3 in Hq by exact Hne. left; exact Hq.
    + rewrite (apply_set_noop c mv k0 key0 v0 Hf) in Ha. inversion Ha; subst. left; exact Hq.
  - destruct (apply_fulfill c v0 HI) as [c'' [Hap [Hlen [_ Hcell]]]].
    rewrite Hap in Ha. inversion Ha; subst.
    destruct (nth_error (heap c) q) as [[k1 key1 st1]|] eqn:E.
    + rewrite (Hcell _ _ _ _ E) in Hq. inversion Hq; subst. destruct st1; cbn [settle] in *; try discriminate.
      * match goal with H : SetV _ = SetV _ |- _ => inversion H; subst end. right. auto.
      * match goal with H : SetV _ = SetV _ |- _ => inversion H; subst end. left. reflexivity.
    + apply nth_error_None in E. assert (q < length (heap c'))%nat by (apply nth_error_Some; congruence). lia.
  - cbn [apply] in Ha. inversion Ha; subst. left; exact Hq.
  - cbn [apply] in Ha. inversion Ha; subst. left; exact Hq.
  - cbn [apply] in Ha. inversion Ha; subst. cbn [heap] in Hq.
    rewrite (drop_used_id c k0 key0 (heap c) HI (hle_refl _)) in Hq. left; exact Hq.
  - cbn [apply] in Ha. inversion Ha; subst. left; exact Hq.
  - cbn [apply] in Ha. inversion Ha; subst. left; exact Hq.
Qed.

(* ---------- destruction ---------- *)
Lemma set_all_spec k v : forall es h,
  (forall key q, In (key, q) es -> nth_error h q = Some (Cell k key Unset)) -> NoDup (keys es) ->
  exists h', set_all es v h = Some h' /\ length h' = length h /\
    (forall key q, In (key, q) es -> nth_error h' q = Some (Cell k key (SetV v))) /\
    (forall q, (forall key, ~ In (key, q) es) -> nth_error h' q = nth_error h q).
Proof.
  induction es as [|[key q] r IH]; intros h Hes Hnd.
  - exists h. cbn. repeat split; auto; intros; contradiction.
  - inversion Hnd as [|? ? Hk Hr]; subst.
    pose proof (Hes key q (or_introl eq_refl)) as Hq.
    destruct (set_value_ok q v h k key Hq) as [h1 Hs]. cbn [set_all]. rewrite Hs.
    destruct (set_value_spec _ _ _ _ Hs) as [k0 [key0 [E [E' [Hlen Ho]]]]].
    rewrite Hq in E. inversion E; subst k0 key0. clear E.
    assert (Hnotin : forall key', ~ In (key', q) r).
    { intros key' Hin. pose proof (Hes key' q (or_intror Hin)) as E2. rewrite Hq in E2. inversion E2; subst.
      apply Hk. eapply In_keys; eauto. }
    destruct (IH h1) as [h' [Hf [Hlen' [Hset Hoth]]]].
    + intros key' q' Hin. rewrite Ho; [apply Hes; right; exact Hin|]. intros ->. eapply Hnotin; eauto.
    + exact Hr.
    + exists h'. split; [exact Hf|]. split; [lia|]. split.
      * intros key' q' [Hin|Hin]; [|apply Hset; exact Hin].
        inversion Hin; subst. rewrite Hoth by exact Hnotin. exact E'.
      * intros q' Hq'. rewrite Hoth; [apply Ho|].
        -- intros ->. apply (Hq' key). left; reflexivity.
        -- intros key' Hin. apply (Hq' key'). right; exact Hin.
Qed.
Lemma drop_all_id qs : forall h, (forall q k key, nth_error h q <> Some (Cell k key Unset)) -> drop_all qs h = h.
Proof.
  induction qs as [|q r IH]; intros h H; cbn; [reflexivity|].
  rewrite drop_id by (intros; apply H). apply IH. exact H.
Qed.

(* ~DelayedObjects never throws; every promise that is still unsatisfied gets X{} = 0, nothing else changes *)
Lemma destroy_spec c : CInv c ->
  exists h', destroy c = Some h' /\ length h' = length (heap c) /\
    (forall q k key st, nth_error (heap c) q = Some (Cell k key st) ->
       nth_error h' q = Some (Cell k key (settle 0 st))).
Proof.
  intros HI. pose proof HI as [HP HUS HU HPN HUN HB].
  destruct (set_all_spec false 0 (pend c false) (heap c)) as [h1 [Hf1 [Hl1 [Hs1 Ho1]]]]; auto.
  destruct (set_all_spec true 0 (pend c true) h1) as [h2 [Hf2 [Hl2 [Hs2 Ho2]]]]; auto.
  { intros key q Hin. rewrite Ho1; [auto|]. intros key' Hin'. pose proof (HP _ _ _ Hin). pose proof (HP _ _ _ Hin'). congruence. }
  assert (Hcell : forall q k key st, nth_error (heap c) q = Some (Cell k key st) ->
            nth_error h2 q = Some (Cell k key (settle 0 st))).
  { intros q k key st Hq. destruct st; cbn [settle].
    - pose proof (HUS _ _ _ Hq) as Hin. destruct k.
      + apply Hs2. exact Hin.
      + rewrite Ho2; [apply Hs1; exact Hin|]. intros key' Hin'. pose proof (HP _ _ _ Hin'). congruence.
    - rewrite Ho2, Ho1; [exact Hq| |]; intros key' Hin'; pose proof (HP _ _ _ Hin'); congruence.
    - rewrite Ho2, Ho1; [exact Hq| |]; intros key' Hin'; pose proof (HP _ _ _ Hin'); congruence. }
  unfold destroy. rewrite Hf1, Hf2. eexists. split; [reflexivity|].
  rewrite drop_all_id.
  - split; [lia|exact Hcell].
  - intros q k key Hq. destruct (nth_error (heap c) q) as [[k0 key0 st0]|] eqn:E.
    + rewrite (Hcell _ _ _ _ E) in Hq. destruct st0; discriminate.
    + apply nth_error_None in E. assert (q < length h2)%nat by (apply nth_error_Some; congruence). lia.
Qed.

(* ---------- the abstract life cycle of a key (do_queries) ---------- *)
(* (in pending map, in used map): Unknown = (f,f), Pending = (t,f), Completed = (f,t);
   (t,t) arises only when a completed key is requested again before finishedWithValue *)
Definition abs (c : cont) (k : bool) (key : Z) : bool * bool := (ahas key (pend c k), ahas key (used c k)).
Definition same (k : bool) (key : Z) (k' : bool) (key' : Z) : bool := Bool.eqb k' k && (key' =? key).
(* the sequential specification on life-cycle states: what operation o does to key (k',key') *)
Definition abs_step (o : op) (k' : bool) (key' : Z) (a : bool * bool) : bool * bool :=
  match o with
  | GetFuture k key _ => if same k key k' key' then (true, snd a) else a
  | SetValue _ k key _ => if same k key k' key' then (if fst a then (false, true) else a) else a
  | FulfillAll _ => (false, fst a || snd a)
  | Finished k key => if same k key k' key' then (fst a, false) else a
  | _ => a
  end.
Definition abs_ret (o : op) (c : cont) : Z :=
  match o with
  | IsRecognized k key => b2z (fst (abs c k key) || snd (abs c k key))
  | IsCompleted k key => b2z (snd (abs c k key))
  | _ => 0
  end.

Lemma ahas_setf_pend f k m k' key' : ahas key' (setf f k m k') = if Bool.eqb k' k then ahas key' m else ahas key' (f k').
Proof. unfold setf. destruct (Bool.eqb k' k); reflexivity. Qed.

Lemma apply_abs o c c' rv flt k' key' : CInv c -> apply o c = (c', rv, flt) ->
  abs c' k' key' = abs_step o k' key' (abs c k' key') /\ rv = abs_ret o c.
Proof.
  intros HI Ha. unfold abs, abs_step, abs_ret, same. destruct o; cbn [apply] in Ha.
  - inversion Ha; subst. cbn [pend used fst snd]. split; [|reflexivity].
    rewrite ahas_setf_pend, ahas_aput. destruct (Bool.eqb_spec k' k) as [->|Hk]; cbn; [|reflexivity].
    destruct (key' =? key); reflexivity.
  - destruct (afind key (pend c k)) as [q|] eqn:Hf.
    + destruct (set_no_fault c k key q v HI Hf) as [h1 Hs]. rewrite Hs in Ha. inversion Ha; subst.
      cbn [pend used fst snd]. split; [|reflexivity].
      rewrite !ahas_setf_pend, ahas_adel, ahas_aput.
      destruct (Bool.eqb_spec k' k) as [->|Hk]; cbn; [|reflexivity].
      destruct (Z.eqb_spec key' key) as [->|Hne]; cbn; [|reflexivity].
      assert (ahas key (pend c k) = true) as Hh by (unfold ahas; rewrite Hf; reflexivity).
      rewrite Hh. reflexivity.
    + inversion Ha; subst. split; [|reflexivity].
      destruct (Bool.eqb_spec k' k) as [->|Hk]; cbn; [|reflexivity].
      destruct (Z.eqb_spec key' key) as [->|Hne]; cbn; [|reflexivity].
      assert (ahas key (pend c' k) = false) as Hh by (unfold ahas; rewrite Hf; reflexivity).
      rewrite Hh. reflexivity.
  - destruct (CInv_fulfill c v HI) as [u0 [h0 [u1 [h1 [Hf0 [Hf1 [_ [_ [_ [Hh0 Hh1]]]]]]]]]].
    unfold finish in Ha. rewrite Hf0, Hf1 in Ha. inversion Ha; subst. cbn [pend used fst snd]. split; [|reflexivity].
    destruct k'; [rewrite Hh1|rewrite Hh0]; reflexivity.
  - inversion Ha; subst. auto.
  - inversion Ha; subst. auto.
  - inversion Ha; subst. cbn [pend used fst snd]. split; [|reflexivity].
    rewrite ahas_setf_pend, ahas_adel. destruct (Bool.eqb_spec k' k) as [->|Hk]; cbn; [|reflexivity].
    destruct (key' =? key); reflexivity.
  - inversion Ha; subst. auto.
  - inversion Ha; subst. auto.
Qed.

(* the life cycle and the promise: Pending <-> the key's latest promise is unsatisfied; Completed -> satisfied *)
Lemma abs_pending c k key : CInv c ->
  (fst (abs c k key) = true <-> exists q, nth_error (heap c) q = Some (Cell k key Unset)).
Proof.
  intros HI. unfold abs; cbn [fst]. rewrite ahas_true. split; intros [q H]; exists q.
  - apply (C_pend _ HI). exact H.
  - apply (C_unset _ HI). exact H.
Qed.
Lemma abs_completed c k key : CInv c -> snd (abs c k key) = true ->
  exists q v, afind key (used c k) = Some q /\ nth_error (heap c) q = Some (Cell k key (SetV v)).
Proof.
  intros HI. unfold abs; cbn [snd]. unfold ahas. destruct (afind key (used c k)) as [q|] eqn:E; [|discriminate].
  intros _. destruct (C_used _ HI _ _ _ (afind_In _ _ _ E)) as [v Hv]. eauto.
Qed.
(* a promise id is in at most one map, under exactly one key *)
Lemma pid_one_map c : CInv c -> forall q k1 key1 k2 key2,
  (In (key1, q) (pend c k1) \/ In (key1, q) (used c k1)) -> (In (key2, q) (pend c k2) \/ In (key2, q) (used c k2)) ->
  k1 = k2 /\ key1 = key2 /\ ~ (In (key1, q) (pend c k1) /\ In (key2, q) (used c k2)).
Proof.
  intros HI q k1 key1 k2 key2 H1 H2.
  assert (E1 : exists st, nth_error (heap c) q = Some (Cell k1 key1 st)).
  { destruct H1 as [H|H]; [eexists; apply (C_pend _ HI _ _ _ H)|destruct (C_used _ HI _ _ _ H) as [v Hv]; eauto]. }
  assert (E2 : exists st, nth_error (heap c) q = Some (Cell k2 key2 st)).
  { destruct H2 as [H|H]; [eexists; apply (C_pend _ HI _ _ _ H)|destruct (C_used _ HI _ _ _ H) as [v Hv]; eauto]. }
  destruct E1 as [st1 E1], E2 as [st2 E2]. rewrite E1 in E2. inversion E2; subst.
  repeat split; auto. intros [Ha Hb]. pose proof (C_pend _ HI _ _ _ Ha). destruct (C_used _ HI _ _ _ Hb). congruence.
Qed.

(* ====================================================================== *)
(* fulfillAllPromises one copy at a time                                   *)
(* ====================================================================== *)
Lemma is_unset_true h q : is_unset h q = true <-> exists k key, nth_error h q = Some (Cell k key Unset).
Proof.
  unfold is_unset. destruct (nth_error h q) as [[k key st]|]; [destruct st|]; split; intros H; try discriminate; eauto.
  all: destruct H as [k0 [key0 H]]; discriminate.
Qed.
Lemma set_value_unset q v h h1 : set_value q v h = Some h1 -> is_unset h q = true.
Proof. intros H. destruct (set_value_spec _ _ _ _ H) as [k [key [E _]]]. apply is_unset_true. eauto. Qed.

Lemma adel_all_other key (m : amap) : ~ In key (keys m) -> adel key m = m.
Proof.
  unfold adel. induction m as [|[k q] r IH]; cbn; intros Hn; [reflexivity|].
  destruct (Z.eqb_spec k key) as [->|Hne]; [tauto|]. cbn. rewrite IH by tauto. reflexivity.
Qed.
Lemma adel_head key q r : NoDup (keys ((key, q) :: r)) -> adel key ((key, q) :: r) = r.
Proof.
  intros Hnd. inversion Hnd as [|? ? Hk Hr]; subst. unfold adel. cbn [filter fst]. rewrite Z.eqb_refl. cbn [negb].
  apply adel_all_other. exact Hk.
Qed.

(* one iteration of the repaired loop IS the body of setDelayedValue for the key at the iterator *)
Lemma iter_is_set c mv k key q r v h1 : pend c k = (key, q) :: r -> set_value q v (heap c) = Some h1 ->
  apply (SetValue mv k key v) c = (iter false c k key q h1, 0, false).
Proof.
  intros Hp Hs. cbn [apply]. rewrite Hp. cbn [afind]. rewrite Z.eqb_refl, Hs. unfold iter. rewrite Hp. reflexivity.
Qed.
Lemma iter_pend c k key q r h1 : CInv c -> pend c k = (key, q) :: r ->
  pend (iter false c k key q h1) k = r /\ (forall k', k' <> k -> pend (iter false c k key q h1) k' = pend c k').
Proof.
  intros HI Hp. unfold iter. cbn [pend]. split.
  - rewrite setf_eq, Hp. apply adel_head. rewrite <- Hp. apply (C_pnd _ HI).
  - intros k' Hne. apply setf_ne. exact Hne.
Qed.

(* where the iterator goes next (repaired loop): rest is what is left of map k *)
Lemma ful_goto_spec v c0 c k r c' p' flt : CInv c -> pend c k = r -> (k = true -> pend c false = []) ->
  ful_goto false v c0 c k r = (c', p', flt) ->
  flt = false /\ c' = c /\
  ((exists k' key q r', p' = P_ful v k' key q r' c0 /\ pend c k' = (key, q) :: r' /\ (k' = true -> pend c false = [])) \/
   (p' = P_unlock (ORet 0) /\ pend c false = [] /\ pend c true = [])).
Proof.
  intros HI Hp Hk Hg. unfold ful_goto in Hg.
  assert (Hun : forall k0 key q r', pend c k0 = (key, q) :: r' -> is_unset (heap c) q = true).
  { intros k0 key q r' E. apply is_unset_true. exists k0, key. apply (C_pend _ HI). rewrite E. left; reflexivity. }
  destruct r as [|[key q] r'].
  - destruct k.
    + inversion Hg; subst. repeat split; auto.
    + destruct (pend c true) as [|[key q] r'] eqn:Ht.
      * inversion Hg; subst. repeat split; auto.
      * rewrite (Hun true key q r' Ht) in Hg. inversion Hg; subst. repeat split; auto.
        left. exists true, key, q, r'. auto.
  - rewrite (Hun k key q r' Hp) in Hg. inversion Hg; subst. repeat split; auto.
    left. exists k, key, q, r'. auto.
Qed.

Lemma enter_atomic_spec o c c1 rv fl c' p' flt : CInv c -> apply o c = (c1, rv, fl) ->
  (c1, P_unlock (out_of rv fl), fl) = (c', p', flt) ->
  flt = false /\ exists rv0, p' = P_unlock (ORet rv0) /\ apply o c = (c', rv0, false).
Proof.
  intros HI Ha E. destruct (apply_CInv _ _ _ _ _ HI Ha) as [_ ->]. inversion E; subst.
  split; [reflexivity|]. exists rv. auto.
Qed.

(* the lock step of a method on a container satisfying the invariant *)
Lemma enter_spec o c c' p' flt : CInv c -> enter false o c = (c', p', flt) ->
  flt = false /\
  ((exists k key v q, o = SetValue false k key v /\ p' = P_call o /\ c' = c /\ afind key (pend c k) = Some q) \/
   (exists rv, (forall v, o <> FulfillAll v) /\ p' = P_unlock (ORet rv) /\ apply o c = (c', rv, false)) \/
   (exists v, o = FulfillAll v /\ c' = c /\
      ((exists k key q r, p' = P_ful v k key q r c /\ pend c k = (key, q) :: r /\ (k = true -> pend c false = [])) \/
       (p' = P_unlock (ORet 0) /\ pend c false = [] /\ pend c true = [])))).
Proof.
  intros HI He.
  destruct o; cbn [enter] in He;
    try (destruct (apply _ c) as [[c1 rv] fl] eqn:Ha in He; destruct (enter_atomic_spec _ _ _ _ _ _ _ _ HI Ha He) as [-> [rv0 [H1 H2]]];
         split; [reflexivity|right; left; exists rv0; repeat split; auto; discriminate]).
  - (* setDelayedValue *)
    destruct mv.
    + destruct (apply (SetValue true k key v) c) as [[c1 rv] fl] eqn:Ha in He.
      destruct (enter_atomic_spec _ _ _ _ _ _ _ _ HI Ha He) as [-> [rv0 [H1 H2]]].
      split; [reflexivity|right; left; exists rv0; repeat split; auto; discriminate].
    + destruct (afind key (pend c k)) as [q|] eqn:Hf.
      * assert (is_unset (heap c) q = true) as Hu.
        { apply is_unset_true. exists k, key. apply (C_pend _ HI). apply afind_In. exact Hf. }
        rewrite Hu in He. inversion He; subst. split; [reflexivity|]. left. exists k, key, v, q. auto.
      * inversion He; subst. split; [reflexivity|]. right; left. exists 0. repeat split; [discriminate|].
        apply apply_set_noop. exact Hf.
  - (* fulfillAllPromises *)
    assert (Hk0 : false = true -> pend c false = []) by discriminate.
    destruct (ful_goto_spec _ _ _ _ _ _ _ _ HI eq_refl Hk0 He) as [-> [-> Hc]].
    split; [reflexivity|]. right; right. exists v. repeat split; auto.
Qed.

(* one iteration satisfies exactly the promise at the iterator *)
Lemma iter_heap c k key q v h1 : CInv c \/ True -> set_value q v (heap c) = Some h1 ->
  forall i k0 key0 w, nth_error (heap (iter false c k key q h1)) i = Some (Cell k0 key0 (SetV w)) ->
    nth_error (heap c) i = Some (Cell k0 key0 (SetV w)) \/ (i = q /\ w = v).
Proof.
  intros _ Hs i k0 key0 w Hi. unfold iter in Hi. cbn [heap] in Hi.
  assert (Hh1 : nth_error h1 i = Some (Cell k0 key0 (SetV w))).
  { destruct (afind key (used c k)) as [q0|]; cbn [drop_opt] in Hi; [|exact Hi].
    destruct (drop_spec q0 h1) as [[k1 [key1 [E [E' [_ Ho]]]]]|[_ E]]; [|rewrite E in Hi; exact Hi].
    destruct (Nat.eq_dec i q0) as [->|Hne]; [rewrite E' in Hi; discriminate|rewrite Ho in Hi by exact Hne; exact Hi]. }
  destruct (set_value_spec _ _ _ _ Hs) as [k1 [key1 [E [E' [_ Ho]]]]].
  destruct (Nat.eq_dec i q) as [->|Hne].
  - rewrite E' in Hh1. inversion Hh1; subst. right; auto.
  - rewrite Ho in Hh1 by exact Hne. left; exact Hh1.
Qed.
Lemma iter_hle c k key q v h1 : set_value q v (heap c) = Some h1 -> hle (heap c) (heap (iter false c k key q h1)).
Proof. intros Hs. unfold iter; cbn [heap]. eapply hle_trans; [eapply hle_set_value; eauto|apply hle_drop_opt]. Qed.
Lemma ful_goto_heap v c0 c k r c' p' flt : ful_goto false v c0 c k r = (c', p', flt) -> heap c' = heap c.
Proof.
  unfold ful_goto. destruct r as [|[key q] r'].
  - destruct k; [intros H; inversion H; reflexivity|].
    destruct (pend c true) as [|[key q] r']; [intros H; inversion H; reflexivity|].
    destruct (is_unset (heap c) q); intros H; inversion H; reflexivity.
  - destruct (is_unset (heap c) q); intros H; inversion H; reflexivity.
Qed.
Lemma enter_hle o c c' p' flt : enter false o c = (c', p', flt) -> hle (heap c) (heap c').
Proof.
  intros He.
  destruct o; cbn [enter] in He;
    try solve [destruct (apply _ c) as [[c1 rv] fl] eqn:Ha; inversion He; subst; eapply apply_hle; exact Ha].
  - destruct mv; [destruct (apply (SetValue true k key v) c) as [[c1 rv] fl] eqn:Ha; inversion He; subst; eapply apply_hle; exact Ha|].
    destruct (afind key (pend c k)); [destruct (is_unset (heap c) n)|]; inversion He; subst; apply hle_refl.
  - rewrite (ful_goto_heap _ _ _ _ _ _ _ _ He). apply hle_refl.
Qed.

(* ====================================================================== *)
(* the concurrent system                                                   *)
(* ====================================================================== *)
Definition pcof (ls : list loc) (u : nat) : pc :=
  match nth_error ls u with Some l => at_ l | None => Idle end.
Lemma pcof_upd ls t l l' u : nth_error ls t = Some l ->
  pcof (upd ls t l') u = if Nat.eqb u t then at_ l' else pcof ls u.
Proof.
  intros H. unfold pcof. destruct (Nat.eqb_spec u t) as [->|Hne].
  - rewrite (nth_upd_eq _ _ _ _ H). reflexivity.
  - rewrite nth_upd_ne by auto. reflexivity.
Qed.
Lemma pcof_at ls t l : nth_error ls t = Some l -> pcof ls t = at_ l.
Proof. intros H. unfold pcof. rewrite H. reflexivity. Qed.
Arguments pcof : simpl never.

(* the pcs at which a thread owns promiseLock *)
Definition holds (p : pc) : bool :=
  match p with P_call _ | P_ful _ _ _ _ _ _ | P_unlock _ => true | _ => false end.
Definition is_ful (p : pc) : bool := match p with P_ful _ _ _ _ _ _ => true | _ => false end.
Definition is_lock (p : pc) : bool := match p with P_lock _ => true | _ => false end.

(* what a client-side observation (no library call) returns *)
Definition client_obs (o : op) (g : glob) (l : loc) : Z :=
  match o with
  | FutReady sl => fut_ready (heap (ct g)) (slot_of (slots l) sl)
  | FutGet sl => fut_get (heap (ct g)) (slot_of (slots l) sl)
  | _ => 0
  end.
Definition new_slots (o : op) (g : glob) (l : loc) : list (option nat) :=
  match o with
  | GetFuture _ _ sl => upd (slots l) sl (Some (length (heap (ct g))))
  | _ => slots l
  end.
Definition unlock_evs (out : outc) : list ev :=
  E K_UNLOCK O_MTX 0 ::
  match out with
  | ORet rv => [E K_RET 0 rv]
  | OFault => [E K_FAULT 0 1; E K_RET 0 RV_FAULT]
  | OExn => [E K_CATCH 0 0]
  end.

(* the nine kinds of step (of the repaired header: tstep = tstep_gen false) *)
Inductive stepk (t : nat) (g : glob) (l : loc) : glob -> loc -> list ev -> Prop :=
| S_invoke o r : at_ l = Idle -> prog l = o :: r -> locks o = true ->
    stepk t g l g (Loc r (P_lock o) (slots l)) [E K_INVOKE 0 (opcode o)]
| S_observe o r : at_ l = Idle -> prog l = o :: r -> locks o = false ->
    stepk t g l g (Loc r Idle (slots l)) [E K_INVOKE 0 (opcode o); E K_RET 0 (client_obs o g l)]
| S_lock o c' p' flt : at_ l = P_lock o -> mtx g = None -> enter false o (ct g) = (c', p', flt) ->
    stepk t g l (Glob c' (Some t) (faulted g || flt) (plan g) (calls g) (began g ++ [(t, o)])
                      (log_out t o p' (hist g)))
          (Loc (prog l) p' (new_slots o g l)) [E K_LOCK O_MTX 0]
| S_call_throw o : at_ l = P_call o -> throws g = true ->
    stepk t g l (Glob (ct g) (mtx g) (faulted g) (plan g) (calls g + 1) (began g) (hist g ++ [(t, o, OExn)]))
          (Loc (prog l) (P_unlock OExn) (slots l)) [E K_CALL 0 (val_of o); E K_THROW 0 (calls g)]
| S_call_ok o c' rv flt : at_ l = P_call o -> throws g = false -> apply o (ct g) = (c', rv, flt) ->
    stepk t g l (Glob c' (mtx g) (faulted g || flt) (plan g) (calls g + 1) (began g)
                      (log_out t o (P_unlock (out_of rv flt)) (hist g)))
          (Loc (prog l) (P_unlock (out_of rv flt)) (slots l)) [E K_CALL 0 (val_of o)]
| S_ful_throw v k key q r c0 : at_ l = P_ful v k key q r c0 -> throws g = true ->
    stepk t g l (Glob (ct g) (mtx g) (faulted g) (plan g) (calls g + 1) (began g)
                      (hist g ++ [(t, FulfillAll v, OExn)]))
          (Loc (prog l) (P_unlock OExn) (slots l)) [E K_CALL 0 v; E K_THROW 0 (calls g)]
| S_ful_bad v k key q r c0 : at_ l = P_ful v k key q r c0 -> throws g = false ->
    set_value q v (heap (ct g)) = None ->
    stepk t g l (Glob (ct g) (mtx g) true (plan g) (calls g + 1) (began g) (hist g))
          (Loc (prog l) (P_unlock OFault) (slots l)) [E K_CALL 0 v]
| S_ful_ok v k key q r c0 h1 c' p' flt : at_ l = P_ful v k key q r c0 -> throws g = false ->
    set_value q v (heap (ct g)) = Some h1 ->
    ful_goto false v c0 (iter false (ct g) k key q h1) k r = (c', p', flt) ->
    stepk t g l (Glob c' (mtx g) (faulted g || flt) (plan g) (calls g + 1) (began g)
                      (log_out t (FulfillAll v) p' (hist g ++ [(t, SetValue true k key v, ORet 0)])))
          (Loc (prog l) p' (slots l)) [E K_CALL 0 v]
| S_unlock out : at_ l = P_unlock out ->
    stepk t g l (Glob (ct g) None (faulted g) (plan g) (calls g) (began g) (hist g))
          (Loc (prog l) Idle (slots l)) (unlock_evs out).

Lemma tstep_stepk t c g l g' l' es : tstep t c g l = Some (g', l', es) -> stepk t g l g' l' es.
Proof.
  intros Hs. destruct l as [pr p sl]. unfold tstep, tstep_gen in Hs. cbn [at_ prog slots] in *. destruct p.
  - destruct pr as [|o r]; [discriminate|].
    destruct o; inversion Hs; subst;
      match goal with
      | |- stepk _ _ ?l0 _ _ _ =>
        match l0 with {| prog := ?o :: ?r0; at_ := _; slots := _ |} =>
          first [apply (S_invoke _ _ l0 o r0); reflexivity | apply (S_observe _ _ l0 o r0); reflexivity]
        end
      end.
  - destruct (mtx g) eqn:Hm; [discriminate|].
    destruct (enter false o (ct g)) as [[c' p'] flt] eqn:He. inversion Hs; subst.
    match goal with |- stepk _ _ ?l0 _ _ _ => apply (S_lock _ _ l0 o c' p' flt); auto end.
  - destruct (throws g) eqn:Ht.
    + inversion Hs; subst. match goal with |- stepk _ _ ?l0 _ _ _ => apply (S_call_throw _ _ l0 o); auto end.
    + destruct (apply o (ct g)) as [[c' rv] flt] eqn:Ha. inversion Hs; subst.
      match goal with |- stepk _ _ ?l0 _ _ _ => apply (S_call_ok _ _ l0 o c' rv flt); auto end.
  - destruct (throws g) eqn:Ht.
    + inversion Hs; subst. match goal with |- stepk _ _ ?l0 _ _ _ => apply (S_ful_throw _ _ l0 v k key q r c0); auto end.
    + destruct (set_value q v (heap (ct g))) as [h1|] eqn:Hv.
      * destruct (ful_goto false v c0 _ k r) as [[c' p'] flt] eqn:Hg. inversion Hs; subst.
        match goal with |- stepk _ _ ?l0 _ _ _ => apply (S_ful_ok _ _ l0 v k key q r c0 h1 c' p' flt); auto end.
      * inversion Hs; subst. match goal with |- stepk _ _ ?l0 _ _ _ => apply (S_ful_bad _ _ l0 v k key q r c0); auto end.
  - inversion Hs; subst. match goal with |- stepk _ _ ?l0 _ _ _ => apply (S_unlock _ _ l0 out); auto end.
Qed.

(* the history replayed through the sequential bodies `apply`: a section ended by a throwing copy has no
   effect of its own, a normal one has the effect and the return value of `apply`; the entry of a
   fulfillAllPromises call itself has no effect: what it did is logged, one setDelayedValue body per
   promise, just before it *)
Fixpoint replay (es : list (nat * op * outc)) (c : cont) : option cont :=
  match es with
  | [] => Some c
  | (_, FulfillAll _, _) :: r => replay r c
  | (_, o, ORet rv) :: r =>
    let '(c', rv', flt) := apply o c in
    if (rv =? rv') && negb flt then replay r c' else None
  | (_, _, OExn) :: r => replay r c
  | (_, _, OFault) :: _ => None
  end.
Lemma replay_app a : forall b c, replay (a ++ b) c = match replay a c with Some c' => replay b c' | None => None end.
Proof.
  induction a as [|[[t o] out] r IH]; intros b c; cbn; [reflexivity|].
  destruct o; try (apply IH); destruct out; try reflexivity; try (apply IH);
    match goal with |- context [apply ?o0 c] => destruct (apply o0 c) as [[c' rv'] flt] end;
    (destruct ((rv =? rv') && negb flt); [apply IH|reflexivity]).
Qed.
Lemma replay_ret hs c0 t o c' rv : replay hs cont0 = Some c0 -> (forall v, o <> FulfillAll v) ->
  apply o c0 = (c', rv, false) -> replay (hs ++ [(t, o, ORet rv)]) cont0 = Some c'.
Proof.
  intros H Hn Ha. rewrite replay_app, H. destruct o; cbn [replay]; try (rewrite Ha, Z.eqb_refl; reflexivity).
  exfalso. eapply Hn; reflexivity.
Qed.
Lemma replay_exn hs c0 t o : replay hs cont0 = Some c0 -> replay (hs ++ [(t, o, OExn)]) cont0 = Some c0.
Proof. intros H. rewrite replay_app, H. destruct o; reflexivity. Qed.
Lemma replay_ful hs c0 t v out : replay hs cont0 = Some c0 -> replay (hs ++ [(t, FulfillAll v, out)]) cont0 = Some c0.
Proof. intros H. rewrite replay_app, H. reflexivity. Qed.

(* ---------- the invariant ---------- *)
Record Base (g : glob) (ls : list loc) : Prop := {
  (* mutual exclusion: the threads inside a critical section are exactly the owner of promiseLock *)
  B_owner : forall u, holds (pcof ls u) = true -> mtx g = Some u;
  B_held : forall a, mtx g = Some a -> holds (pcof ls a) = true;
  (* every future a client holds refers to an existing promise *)
  B_slots : forall u l i p, nth_error ls u = Some l -> nth_error (slots l) i = Some (Some p) ->
            (p < length (heap (ct g)))%nat;
  (* the loop over the int map does not touch the string map *)
  B_fpend : forall u v key q r c0, pcof ls u = P_ful v false key q r c0 -> pend (ct g) true = pend c0 true
}.
Record Good (g : glob) (ls : list loc) : Prop := {
  G_nf : faulted g = false;
  G_flt : forall u, pcof ls u <> P_unlock OFault;
  (* the container invariant - also in the middle of fulfillAllPromises - and the container is the
     sequential composition of the elementary bodies executed so far *)
  G_cinv : CInv (ct g) /\ replay (hist g) cont0 = Some (ct g);
  (* inside fulfillAllPromises: what is left of the current pending map starts at the iterator; the int map
     is empty once the string loop runs; every promise that was unsatisfied when the lock was taken is
     still unsatisfied or holds v *)
  G_ful : forall u v k key q r c0, pcof ls u = P_ful v k key q r c0 ->
          pend (ct g) k = (key, q) :: r /\ (k = true -> pend (ct g) false = []) /\
          In (u, FulfillAll v) (began g) /\
          (forall i ki keyi, nth_error (heap c0) i = Some (Cell ki keyi Unset) ->
             nth_error (heap (ct g)) i = Some (Cell ki keyi Unset) \/
             nth_error (heap (ct g)) i = Some (Cell ki keyi (SetV v)));
  (* inside setDelayedValue(const X&), before the copy: the key is pending *)
  G_call : forall u o, pcof ls u = P_call o -> In (u, o) (began g) /\
           exists k key v q, o = SetValue false k key v /\ afind key (pend (ct g) k) = Some q;
  (* every value a promise holds was passed by a caller, for that key or to fulfillAllPromises *)
  G_prov : forall q k key v, nth_error (heap (ct g)) q = Some (Cell k key (SetV v)) ->
           exists t, (exists mv, In (t, SetValue mv k key v) (began g)) \/ In (t, FulfillAll v) (began g)
}.
Definition Inv (g : glob) (ls : list loc) : Prop := Base g ls /\ Good g ls.

Lemma Inv_init ns pl progs : Inv (gl (init ns pl progs)) (thr (init ns pl progs)).
Proof.
  assert (P : forall u, pcof (map (fun p => Loc p Idle (repeat None ns)) progs) u = Idle).
  { intros u. unfold pcof. rewrite nth_error_map. destruct (nth_error progs u); reflexivity. }
  unfold init; cbn. split; constructor; cbn; intros; rewrite ?P in *; try discriminate; auto.
  - exfalso. rewrite nth_error_map in H. destruct (nth_error progs u); [|discriminate]. inversion H; subst.
    cbn in H0. apply nth_error_In in H0. apply repeat_spec in H0. discriminate.
  - split; [apply CInv_init|reflexivity].
  - destruct q; discriminate.
Qed.
(* ---------- shape of the pcs produced by the lock step and by the loop ---------- *)
Lemma ful_goto_cases v c0 c k r c' p' flt : ful_goto false v c0 c k r = (c', p', flt) ->
  (exists k' key q r', p' = P_ful v k' key q r' c0 /\ c' = c /\ flt = false) \/
  (p' = P_unlock (ORet 0) /\ flt = false /\ c' = c) \/
  (p' = P_unlock OFault /\ c' = c /\ flt = true).
Proof.
  unfold ful_goto. destruct r as [|[key q] r'].
  - destruct k; [intros H; inversion H; subst; right; left; auto|].
    destruct (pend c true) as [|[key q] r']; [intros H; inversion H; subst; right; left; auto|].
    destruct (is_unset (heap c) q); intros H; inversion H; subst; [left; eexists _, _, _, _; auto|right; right; auto].
  - destruct (is_unset (heap c) q); intros H; inversion H; subst; [left; eexists _, _, _, _; auto|right; right; auto].
Qed.
Lemma enter_cases o c c' p' flt : enter false o c = (c', p', flt) ->
  (p' = P_call o /\ c' = c /\ flt = false) \/
  (exists v k key q r, o = FulfillAll v /\ p' = P_ful v k key q r c /\ c' = c /\ flt = false) \/
  (exists out, p' = P_unlock out).
Proof.
  intros He. destruct o; cbn [enter] in He;
    try (destruct (apply _ c) as [[c1 rv] fl]; inversion He; subst; right; right; eexists; reflexivity).
  - destruct mv; [destruct (apply (SetValue true k key v) c) as [[c1 rv] fl]; inversion He; subst; right; right; eexists; reflexivity|].
    destruct (afind key (pend c k)); [destruct (is_unset (heap c) n)|]; inversion He; subst;
      [left; auto|right; right; eexists; reflexivity|right; right; eexists; reflexivity].
  - destruct (ful_goto_cases _ _ _ _ _ _ _ _ He) as [[k' [key [q [r' [-> [-> ->]]]]]]|[[-> _]|[-> _]]].
    + right; left. exists v, k', key, q, r'. auto.
    + right; right. eexists; reflexivity.
    + right; right. eexists; reflexivity.
Qed.
Lemma enter_holds o c c' p' flt : enter false o c = (c', p', flt) -> holds p' = true.
Proof.
  intros He. destruct (enter_cases _ _ _ _ _ He) as [[-> _]|[[v [k [key [q [r [_ [-> _]]]]]]]|[out ->]]]; reflexivity.
Qed.
Lemma ful_goto_holds v c0 c k r c' p' flt : ful_goto false v c0 c k r = (c', p', flt) -> holds p' = true.
Proof.
  intros He. destruct (ful_goto_cases _ _ _ _ _ _ _ _ He) as [[k' [key [q [r' [-> _]]]]]|[[-> _]|[-> _]]]; reflexivity.
Qed.

(* ---------- ownership of the mutex ---------- *)
Definition Own (m : option nat) (ls : list loc) : Prop :=
  (forall u, holds (pcof ls u) = true -> m = Some u) /\ (forall a, m = Some a -> holds (pcof ls a) = true).
Lemma own_same m ls t l l' : Own m ls -> nth_error ls t = Some l -> holds (at_ l') = holds (at_ l) -> Own m (upd ls t l').
Proof.
  intros [HO HH] Hl Hh. pose proof (pcof_at _ _ _ Hl) as Hp. split.
  - intros u. rewrite (pcof_upd _ _ _ _ _ Hl). destruct (Nat.eqb_spec u t) as [->|]; [|apply HO].
    rewrite Hh, <- Hp. apply HO.
  - intros a Hm. rewrite (pcof_upd _ _ _ _ _ Hl). destruct (Nat.eqb_spec a t) as [->|]; [|apply HH; exact Hm].
    rewrite Hh, <- Hp. apply HH. exact Hm.
Qed.
Lemma own_lock ls t l l' : Own None ls -> nth_error ls t = Some l -> holds (at_ l') = true -> Own (Some t) (upd ls t l').
Proof.
  intros [HO HH] Hl Hh. split.
  - intros u. rewrite (pcof_upd _ _ _ _ _ Hl). destruct (Nat.eqb_spec u t) as [->|]; [reflexivity|].
    intros Hu. specialize (HO _ Hu). discriminate.
  - intros a Hm. inversion Hm; subst. rewrite (pcof_upd _ _ _ _ _ Hl), Nat.eqb_refl. exact Hh.
Qed.
Lemma own_unlock m ls t l l' : Own m ls -> nth_error ls t = Some l -> holds (at_ l) = true -> holds (at_ l') = false ->
  Own None (upd ls t l').
Proof.
  intros [HO HH] Hl Hh Hh'. pose proof (pcof_at _ _ _ Hl) as Hp. split.
  - intros u. rewrite (pcof_upd _ _ _ _ _ Hl). destruct (Nat.eqb_spec u t) as [->|Hne]; [congruence|].
    intros Hu. exfalso. apply Hne. pose proof (HO _ Hu) as E1. rewrite <- Hp in Hh. pose proof (HO _ Hh) as E2. congruence.
  - discriminate.
Qed.
(* somebody else inside a section excludes t from taking a step that needs or takes the lock *)
Lemma own_unique m ls t u : Own m ls -> holds (pcof ls t) = true -> holds (pcof ls u) = true -> u = t.
Proof. intros [HO _] H1 H2. pose proof (HO _ H1). pose proof (HO _ H2). congruence. Qed.

Lemma drop_length q h : length (drop q h) = length h.
Proof. destruct (drop_spec q h) as [[k [key [_ [_ [E _]]]]]|[_ E]]; [exact E|rewrite E; reflexivity]. Qed.
Lemma enter_get_length k key sl c c' p' flt : enter false (GetFuture k key sl) c = (c', p', flt) ->
  length (heap c') = S (length (heap c)).
Proof.
  cbn [enter apply]. intros H; inversion H; subst. cbn [heap].
  destruct (afind key (pend c k)); cbn [drop_opt]; rewrite ?drop_length, app_length; cbn; lia.
Qed.

(* which steps change the container: only those of a thread that takes or owns the lock *)
Lemma stepk_ct t g l g' l' es : stepk t g l g' l' es ->
  ct g' = ct g \/ (at_ l <> Idle /\ (mtx g = None \/ holds (at_ l) = true)).
Proof.
  intros H. destruct H; cbn [ct]; auto; right.
  all: match goal with Ha : at_ _ = _ |- _ => rewrite Ha end; split; try discriminate; auto.
Qed.
Lemma stepk_hle t g l g' l' es : stepk t g l g' l' es -> hle (heap (ct g)) (heap (ct g')).
Proof.
  intros H. destruct H; cbn [ct]; try apply hle_refl.
  - eapply enter_hle; eauto.
  - eapply apply_hle; eauto.
  - rewrite (ful_goto_heap _ _ _ _ _ _ _ _ H2). eapply iter_hle; eauto.
Qed.

Lemma Base_step t g ls l g' l' es : Base g ls -> nth_error ls t = Some l -> stepk t g l g' l' es -> Base g' (upd ls t l').
Proof.
  intros [HO HH HSL HFP] Hl Hs.
  pose proof (pcof_at _ _ _ Hl) as Hp.
  pose proof (hle_length _ _ (stepk_hle _ _ _ _ _ _ Hs)) as Hlen.
  assert (HOwn : Own (mtx g) ls) by (split; assumption).
  (* slots: nobody's futures move, except the one getFuture just delivered *)
  assert (Hslots : (forall i p, nth_error (slots l') i = Some (Some p) -> (p < length (heap (ct g')))%nat) ->
            forall u l0 i p, nth_error (upd ls t l') u = Some l0 -> nth_error (slots l0) i = Some (Some p) ->
              (p < length (heap (ct g')))%nat).
  { intros Hown u l0 i p Hu Hi. destruct (nth_upd _ _ _ _ _ Hu) as [[-> [-> _]]|[_ Hu']]; [eapply Hown; eauto|].
    specialize (HSL _ _ _ _ Hu' Hi). lia. }
  assert (Hsl_same : slots l' = slots l ->
            forall i p, nth_error (slots l') i = Some (Some p) -> (p < length (heap (ct g')))%nat).
  { intros E i p Hi. rewrite E in Hi. specialize (HSL _ _ _ _ Hl Hi). lia. }
  (* a loop of somebody else keeps its snapshot of the string map: t cannot touch the container *)
  assert (Hfp_other : forall u v key q r c0, u <> t -> pcof ls u = P_ful v false key q r c0 ->
            pend (ct g') true = pend c0 true).
  { intros u v key q r c0 Hne Hu. rewrite <- (HFP _ _ _ _ _ _ Hu).
    destruct (stepk_ct _ _ _ _ _ _ Hs) as [->|[_ [Hm|Hh]]]; [reflexivity| |].
    - assert (holds (pcof ls u) = true) as Hhu by (rewrite Hu; reflexivity). specialize (HO _ Hhu). congruence.
    - exfalso. apply Hne. eapply own_unique; eauto; [rewrite Hp; exact Hh|rewrite Hu; reflexivity]. }
  assert (Hfp : (forall v key q r c0, at_ l' = P_ful v false key q r c0 -> pend (ct g') true = pend c0 true) ->
            forall u v key q r c0, pcof (upd ls t l') u = P_ful v false key q r c0 -> pend (ct g') true = pend c0 true).
  { intros Hown u v key q r c0. rewrite (pcof_upd _ _ _ _ _ Hl). destruct (Nat.eqb_spec u t) as [->|Hne].
    - apply Hown.
    - apply Hfp_other. exact Hne. }
  destruct Hs.
  - destruct (own_same _ _ _ _ (Loc r (P_lock o) (slots l)) HOwn Hl) as [A B]; [rewrite H; reflexivity|].
    constructor; cbn [mtx ct]; auto; [apply Hslots; apply Hsl_same; reflexivity|apply Hfp; cbn; intros; discriminate].
  - destruct (own_same _ _ _ _ (Loc r Idle (slots l)) HOwn Hl) as [A B]; [rewrite H; reflexivity|].
    constructor; cbn [mtx ct]; auto; [apply Hslots; apply Hsl_same; reflexivity|apply Hfp; cbn; intros; discriminate].
  - rewrite H0 in HOwn.
    destruct (own_lock _ _ _ (Loc (prog l) p' (new_slots o g l)) HOwn Hl) as [A B]; [eapply enter_holds; eauto|].
    constructor; cbn [mtx ct]; auto.
    + apply Hslots. cbn [slots ct]. unfold new_slots. destruct o; try (apply Hsl_same; reflexivity).
      intros i p Hi. cbn [ct] in *. rewrite (enter_get_length _ _ _ _ _ _ _ H1).
      destruct (nth_upd _ _ _ _ _ Hi) as [[_ [E _]]|[_ Hi']]; [inversion E; lia|].
      specialize (HSL _ _ _ _ Hl Hi'). lia.
    + apply Hfp. cbn [at_ ct]. intros v key q r c0 E.
      destruct (enter_cases _ _ _ _ _ H1) as [[-> _]|[[v0 [k0 [key0 [q0 [r0 [_ [-> [-> _]]]]]]]]|[out ->]]]; try discriminate.
      inversion E; subst. reflexivity.
  - destruct (own_same _ _ _ _ (Loc (prog l) (P_unlock OExn) (slots l)) HOwn Hl) as [A B]; [rewrite H; reflexivity|].
    constructor; cbn [mtx ct]; auto; [apply Hslots; apply Hsl_same; reflexivity|apply Hfp; cbn; intros; discriminate].
  - destruct (own_same _ _ _ _ (Loc (prog l) (P_unlock (out_of rv flt)) (slots l)) HOwn Hl) as [A B]; [rewrite H; reflexivity|].
    constructor; cbn [mtx ct]; auto; [apply Hslots; apply Hsl_same; reflexivity|apply Hfp; cbn; intros; discriminate].
  - destruct (own_same _ _ _ _ (Loc (prog l) (P_unlock OExn) (slots l)) HOwn Hl) as [A B]; [rewrite H; reflexivity|].
    constructor; cbn [mtx ct]; auto; [apply Hslots; apply Hsl_same; reflexivity|apply Hfp; cbn; intros; discriminate].
  - destruct (own_same _ _ _ _ (Loc (prog l) (P_unlock OFault) (slots l)) HOwn Hl) as [A B]; [rewrite H; reflexivity|].
    constructor; cbn [mtx ct]; auto; [apply Hslots; apply Hsl_same; reflexivity|apply Hfp; cbn; intros; discriminate].
  - destruct (own_same _ _ _ _ (Loc (prog l) p' (slots l)) HOwn Hl) as [A B];
      [rewrite H; cbn; eapply ful_goto_holds; eauto|].
    constructor; cbn [mtx ct]; auto; [apply Hslots; apply Hsl_same; reflexivity|].
    apply Hfp. cbn [at_ ct]. intros v0 key0 q0 r0 c1 E.
    destruct (ful_goto_cases _ _ _ _ _ _ _ _ H2) as [[k' [key' [q' [r' [-> [-> _]]]]]]|[[-> _]|[-> _]]]; try discriminate.
    inversion E; subst. destruct k.
    + (* the string loop never goes back to the int loop *)
      exfalso. unfold ful_goto in H2. destruct r as [|[ka qa] ra]; [discriminate|].
      destruct (is_unset _ qa); inversion H2.
    + unfold iter; cbn [pend]. rewrite setf_ne by discriminate. eapply (HFP t). rewrite Hp. exact H.
  - destruct (own_unlock _ _ _ _ (Loc (prog l) Idle (slots l)) HOwn Hl) as [A B]; [rewrite H; reflexivity|reflexivity|].
    constructor; cbn [mtx ct]; auto; [apply Hslots; apply Hsl_same; reflexivity|apply Hfp; cbn; intros; discriminate].
Qed.

(* ---------- preservation of Good ---------- *)
Lemma others_idle g ls t l u : Base g ls -> nth_error ls t = Some l -> (mtx g = None \/ holds (at_ l) = true) ->
  u <> t -> holds (pcof ls u) = false.
Proof.
  intros HB Hl Hc Hne. destruct (holds (pcof ls u)) eqn:Hu; [exfalso|reflexivity].
  pose proof (B_owner _ _ HB _ Hu) as Hm. destruct Hc as [Hn|Hh]; [congruence|].
  apply Hne. eapply (own_unique (mtx g) ls t u); [split; [apply (B_owner _ _ HB)|apply (B_held _ _ HB)]| |exact Hu].
  rewrite (pcof_at _ _ _ Hl). exact Hh.
Qed.

(* a step of a thread that does not own the lock and does not touch the shared state *)
Lemma Good_passive g ls t l l' : Good g ls -> nth_error ls t = Some l ->
  holds (at_ l) = false -> holds (at_ l') = false -> Good g (upd ls t l').
Proof.
  intros [HNF HFL HCI HFU HCA HPV] Hl Hh Hh'. pose proof (pcof_at _ _ _ Hl) as Hp.
  constructor; auto.
  - intros u. rewrite (pcof_upd _ _ _ _ _ Hl). destruct (Nat.eqb_spec u t); [|apply HFL].
    intros E. rewrite E in Hh'. discriminate.
  - intros u v k key q r c0. rewrite (pcof_upd _ _ _ _ _ Hl). destruct (Nat.eqb_spec u t); [|apply HFU].
    intros E. rewrite E in Hh'. discriminate.
  - intros u o. rewrite (pcof_upd _ _ _ _ _ Hl). destruct (Nat.eqb_spec u t); [|apply HCA].
    intros E. rewrite E in Hh'. discriminate.
Qed.

(* a step of the thread that takes or owns the lock: only its own pc matters *)
Lemma Good_build g g' ls t l l' : Base g ls -> nth_error ls t = Some l -> (mtx g = None \/ holds (at_ l) = true) ->
  faulted g' = false -> at_ l' <> P_unlock OFault ->
  (CInv (ct g') /\ replay (hist g') cont0 = Some (ct g')) ->
  (forall v k key q r c0, at_ l' = P_ful v k key q r c0 ->
     pend (ct g') k = (key, q) :: r /\ (k = true -> pend (ct g') false = []) /\
     In (t, FulfillAll v) (began g') /\
     (forall i ki keyi, nth_error (heap c0) i = Some (Cell ki keyi Unset) ->
        nth_error (heap (ct g')) i = Some (Cell ki keyi Unset) \/
        nth_error (heap (ct g')) i = Some (Cell ki keyi (SetV v)))) ->
  (forall o, at_ l' = P_call o -> In (t, o) (began g') /\
     exists k key v q, o = SetValue false k key v /\ afind key (pend (ct g') k) = Some q) ->
  (forall q k key v, nth_error (heap (ct g')) q = Some (Cell k key (SetV v)) ->
     exists t0, (exists mv, In (t0, SetValue mv k key v) (began g')) \/ In (t0, FulfillAll v) (began g')) ->
  Good g' (upd ls t l').
Proof.
  intros HB Hl Hc Hnf Hfl Hci Hfu Hca Hpv.
  assert (Hoth : forall u, u <> t -> holds (pcof (upd ls t l') u) = false).
  { intros u Hne. rewrite (pcof_upd _ _ _ _ _ Hl). destruct (Nat.eqb_spec u t); [contradiction|].
    eapply others_idle; eauto. }
  constructor; auto.
  - intros u. destruct (Nat.eq_dec u t) as [->|Hne].
    + rewrite (pcof_upd _ _ _ _ _ Hl), Nat.eqb_refl. exact Hfl.
    + intros E. specialize (Hoth _ Hne). rewrite E in Hoth. discriminate.
  - intros u v k key q r c0. destruct (Nat.eq_dec u t) as [->|Hne].
    + rewrite (pcof_upd _ _ _ _ _ Hl), Nat.eqb_refl. apply Hfu.
    + intros E. specialize (Hoth _ Hne). rewrite E in Hoth. discriminate.
  - intros u o. destruct (Nat.eq_dec u t) as [->|Hne].
    + rewrite (pcof_upd _ _ _ _ _ Hl), Nat.eqb_refl. apply Hca.
    + intros E. specialize (Hoth _ Hne). rewrite E in Hoth. discriminate.
Qed.

Lemma prov_mono (b : list (nat * op)) x k key v :
  (exists t0, (exists mv, In (t0, SetValue mv k key v) b) \/ In (t0, FulfillAll v) b) ->
  exists t0, (exists mv, In (t0, SetValue mv k key v) (b ++ x)) \/ In (t0, FulfillAll v) (b ++ x).
Proof. intros [t0 [[mv H]|H]]; exists t0; [left; exists mv|right]; apply in_or_app; auto. Qed.

Lemma Good_step t g ls l g' l' es : Base g ls -> Good g ls -> nth_error ls t = Some l ->
  stepk t g l g' l' es -> Good g' (upd ls t l').
Proof.
  intros HB HG Hl Hs. pose proof (pcof_at _ _ _ Hl) as Hp.
  pose proof HG as [HNF HFL [HC HR] HFU HCA HPV].
  destruct Hs.
  - (* invoke *) apply Good_passive with (l := l); auto; rewrite ?H; reflexivity.
  - (* observe *) apply Good_passive with (l := l); auto; rewrite ?H; reflexivity.
  - (* lock *)
    destruct (enter_spec _ _ _ _ _ HC H1) as [-> Hcases].
    apply Good_build with (g := g) (l := l); auto; cbn [faulted ct hist began at_].
    + rewrite HNF. reflexivity.
    + destruct Hcases as [[k [key [v [q [_ [-> _]]]]]]|[[rv [_ [-> _]]]|[v [_ [_ [[k [key [q [r [-> _]]]]]|[-> _]]]]]]]; discriminate.
    + destruct Hcases as [[k [key [v [q [_ [-> [-> _]]]]]]]|[[rv [Hn [-> Ha]]]|[v [-> [-> [[k [key [q [r [-> _]]]]]|[-> _]]]]]]].
      * cbn [log_out]. auto.
      * cbn [log_out]. split; [apply (apply_CInv _ _ _ _ _ HC Ha)|eapply replay_ret; eauto].
      * cbn [log_out]. auto.
      * cbn [log_out]. split; [exact HC|eapply replay_ful; eauto].
    + intros v k key q r c0 E.
      destruct Hcases as [[k1 [key1 [v1 [q1 [_ [-> _]]]]]]|[[rv [_ [-> _]]]|[v1 [-> [-> [[k1 [key1 [q1 [r1 [-> [Hpe Hk]]]]]]|[-> _]]]]]]]; try discriminate.
      inversion E; subst. cbn [log_out]. refine (conj Hpe (conj Hk (conj _ _))).
      * apply in_or_app. right. left. reflexivity.
      * intros i ki keyi Hi. left. exact Hi.
    + intros o0 E.
      destruct Hcases as [[k1 [key1 [v1 [q1 [Ho [-> [-> Hf]]]]]]]|[[rv [_ [-> _]]]|[v1 [_ [_ [[k1 [key1 [q1 [r1 [-> _]]]]]|[-> _]]]]]]]; try discriminate.
      inversion E; subst o0. split; [apply in_or_app; right; left; reflexivity|]. exists k1, key1, v1, q1. auto.
    + intros q k key v Hq.
      destruct Hcases as [[k1 [key1 [v1 [q1 [_ [_ [-> _]]]]]]]|[[rv [_ [_ Ha]]]|[v1 [_ [-> _]]]]].
      * apply prov_mono. apply (HPV _ _ _ _ Hq).
      * destruct (apply_prov _ _ _ _ _ _ _ _ _ HC Ha Hq) as [Hold|[_ [[mv ->]| ->]]].
        -- apply prov_mono. apply (HPV _ _ _ _ Hold).
        -- exists t. left. exists mv. apply in_or_app. right. left. reflexivity.
        -- exists t. right. apply in_or_app. right. left. reflexivity.
      * apply prov_mono. apply (HPV _ _ _ _ Hq).
  - (* a copy in setDelayedValue throws: nothing changed *)
    assert (Hh : holds (at_ l) = true) by (rewrite H; reflexivity).
    apply Good_build with (g := g) (l := l); auto; cbn [faulted ct hist began at_]; try discriminate.
    split; [exact HC|eapply replay_exn; eauto].
  - (* the copy in setDelayedValue succeeds: the rest of the body *)
    assert (Hh : holds (at_ l) = true) by (rewrite H; reflexivity).
    destruct (apply_CInv _ _ _ _ _ HC H1) as [HC' ->].
    destruct (HCA t o (eq_trans Hp H)) as [Hb [k0 [key0 [v0 [q0 [Ho _]]]]]].
    apply Good_build with (g := g) (l := l); auto; cbn [faulted ct hist began at_ out_of log_out]; try discriminate.
    + rewrite HNF. reflexivity.
    + split; [exact HC'|eapply replay_ret; eauto]. subst o. discriminate.
    + intros q k key v Hq. destruct (apply_prov _ _ _ _ _ _ _ _ _ HC H1 Hq) as [Hold|[_ [[mv ->]| ->]]].
      * apply (HPV _ _ _ _ Hold).
      * exists t. left. exists mv. exact Hb.
      * exists t. right. exact Hb.
  - (* a copy in fulfillAllPromises throws: the keys served so far are completed, the others pending *)
    assert (Hh : holds (at_ l) = true) by (rewrite H; reflexivity).
    apply Good_build with (g := g) (l := l); auto; cbn [faulted ct hist began at_]; try discriminate.
    split; [exact HC|eapply replay_ful; eauto].
  - (* impossible: the promise at the iterator can be set *)
    exfalso. destruct (HFU t v k key q r c0 (eq_trans Hp H)) as [Hpe _].
    assert (In (key, q) (pend (ct g) k)) as Hin by (rewrite Hpe; left; reflexivity).
    destruct (set_value_ok q v _ _ _ (C_pend _ HC _ _ _ Hin)) as [h1 E]. congruence.
  - (* one more promise satisfied: the body of setDelayedValue for that key *)
    assert (Hh : holds (at_ l) = true) by (rewrite H; reflexivity).
    destruct (HFU t v k key q r c0 (eq_trans Hp H)) as [Hpe [Hk [Hb HJ]]].
    pose proof (iter_is_set _ true _ _ _ _ _ _ Hpe H1) as Hap.
    destruct (apply_CInv _ _ _ _ _ HC Hap) as [HC' _].
    destruct (iter_pend _ _ _ _ _ h1 HC Hpe) as [Hpe' Hpo].
    assert (Hk' : k = true -> pend (iter false (ct g) k key q h1) false = []).
    { intros ->. rewrite Hpo by discriminate. apply Hk. reflexivity. }
    pose proof (ful_goto_heap _ _ _ _ _ _ _ _ H2) as Hheap.
    destruct (ful_goto_spec _ _ _ _ _ _ _ _ HC' Hpe' Hk' H2) as [-> [-> Hcases]].
    assert (HR' : replay (hist g ++ [(t, SetValue true k key v, ORet 0)]) cont0 = Some (iter false (ct g) k key q h1)).
    { eapply replay_ret; eauto. discriminate. }
    assert (Hq : afind key (pend (ct g) k) = Some q) by (rewrite Hpe; cbn; rewrite Z.eqb_refl; reflexivity).
    destruct (apply_set_pending _ true _ _ v _ HC Hq) as [c1 [Hap1 [Hq0 [Hq1 Hqo]]]].
    rewrite Hap in Hap1. inversion Hap1; subst c1. clear Hap1.
    apply Good_build with (g := g) (l := l); auto; cbn [faulted ct hist began at_].
    + rewrite HNF. reflexivity.
    + destruct Hcases as [[k' [key' [q' [r' [-> _]]]]]|[-> _]]; discriminate.
    + destruct Hcases as [[k' [key' [q' [r' [-> _]]]]]|[-> _]]; cbn [log_out]; [auto|].
      split; [exact HC'|eapply replay_ful; eauto].
    + intros v0 k0 key0 q0 r0 c1 E.
      destruct Hcases as [[k' [key' [q' [r' [-> [Hpe2 Hk2]]]]]]|[-> _]]; [|discriminate].
      inversion E; subst. refine (conj Hpe2 (conj Hk2 (conj Hb _))).
      intros i ki keyi Hi. destruct (Nat.eq_dec i q) as [->|Hne].
      * right. destruct (HJ _ _ _ Hi) as [Hu|Hs]; rewrite Hq0 in *; [inversion Hu; subst; exact Hq1|discriminate].
      * rewrite (Hqo _ Hne). apply HJ. exact Hi.
    + intros o0 E. destruct Hcases as [[k' [key' [q' [r' [-> _]]]]]|[-> _]]; discriminate.
    + intros i k0 key0 w Hi.
      destruct (iter_heap _ _ _ _ _ _ (or_intror I) H1 _ _ _ _ Hi) as [Hold|[_ ->]]; [apply (HPV _ _ _ _ Hold)|].
      exists t. right. exact Hb.
  - (* unlock *)
    assert (Hh : holds (at_ l) = true) by (rewrite H; reflexivity).
    apply Good_build with (g := g) (l := l); auto; cbn [faulted ct hist began at_]; try discriminate.
Qed.

Lemma Inv_step : forall g ls t c l g' l' es,
  Inv g ls -> nth_error ls t = Some l -> tstep t c g l = Some (g', l', es) -> Inv g' (upd ls t l').
Proof.
  intros g ls t c l g' l' es [HB HG] Hl Hs. apply tstep_stepk in Hs. split.
  - eapply Base_step; eauto.
  - eapply Good_step; eauto.
Qed.

(* ====================================================================== *)
(* reachable states and the C18 lemmas                                     *)
(* ====================================================================== *)
(* ns future slots per client, pl = the throw plan (indices of the copies of X that throw) *)
Definition R (ns : nat) (pl : list Z) (progs : list (list op)) (s : sysD) : Prop :=
  reachable glob loc tstep (init ns pl progs) s.

Lemma R_inv ns pl progs s : R ns pl progs s -> Inv (gl s) (thr s).
Proof. intros H. eapply reachable_inv; [apply Inv_step|apply Inv_init|exact H]. Qed.
Lemma R_base ns pl progs s : R ns pl progs s -> Base (gl s) (thr s).
Proof. intros H. apply (R_inv _ _ _ _ H). Qed.
Lemma R_good ns pl progs s : R ns pl progs s -> Good (gl s) (thr s).
Proof. intros H. apply (R_inv _ _ _ _ H). Qed.
Lemma R_cinv ns pl progs s : R ns pl progs s -> CInv (ct (gl s)).
Proof. intros H. apply (G_cinv _ _ (R_good _ _ _ _ H)). Qed.
Lemma R_plan ns pl progs s : R ns pl progs s -> plan (gl s) = pl.
Proof.
  intros H. refine (reachable_inv glob loc tstep (fun g _ => plan g = pl) _ (init ns pl progs) s eq_refl H).
  intros g ls t c l g' l' es Hg Hl Hs. apply tstep_stepk in Hs. destruct Hs; cbn [plan]; exact Hg.
Qed.

(* ---------- do_never_twice ---------- *)
Lemma never_twice ns pl progs s : R ns pl progs s -> faulted (gl s) = false /\ CInv (ct (gl s)).
Proof. intros HR. split; [apply (G_nf _ _ (R_good _ _ _ _ HR))|eapply R_cinv; eauto]. Qed.

Definition fault_ev : ev := E K_FAULT 0 1.
Lemma no_fault_event ns pl progs s t c l g' l' es :
  R ns pl progs s -> nth_error (thr s) t = Some l ->
  tstep t c (gl s) l = Some (g', l', es) -> ~ In fault_ev es.
Proof.
  intros HR Hl Hs Hin. pose proof (G_flt _ _ (R_good _ _ _ _ HR) t) as Hf. rewrite (pcof_at _ _ _ Hl) in Hf.
  apply tstep_stepk in Hs. destruct Hs; cbn in Hin;
    repeat (destruct Hin as [Hin|Hin]; try discriminate); try contradiction.
  destruct out; cbn in Hin; repeat (destruct Hin as [Hin|Hin]; try discriminate); try contradiction.
Qed.

(* ---------- do_stable: a satisfied (or broken) promise never changes again ---------- *)
Lemma step_hle (s : sysD) tc : hle (heap (ct (gl s))) (heap (ct (gl (stepD s tc)))).
Proof.
  unfold step, sys_step. destruct tc as [t c].
  destruct (nth_error (thr s) t) as [l|] eqn:Hl; [|apply hle_refl].
  destruct (tstep t c (gl s) l) as [[[g' l'] es]|] eqn:Hs; [|apply hle_refl]. cbn [fst gl].
  eapply stepk_hle. eapply tstep_stepk. exact Hs.
Qed.
Lemma run_hle sched : forall s : sysD, hle (heap (ct (gl s))) (heap (ct (gl (runD s sched)))).
Proof.
  apply (run_rel glob loc tstep (fun a b => hle (heap (ct (gl a))) (heap (ct (gl b))))).
  - intros; apply hle_refl.
  - intros a b c0; apply hle_trans.
  - apply step_hle.
Qed.
Lemma stable (s s' : sysD) q k key st :
  reachable glob loc tstep s s' -> nth_error (heap (ct (gl s))) q = Some (Cell k key st) -> st <> Unset ->
  nth_error (heap (ct (gl s'))) q = Some (Cell k key st).
Proof.
  intros [sc ->] Hq Hne. destruct (run_hle sc s _ _ _ _ Hq) as [st' [E F]]. rewrite (F Hne) in E. exact E.
Qed.
Lemma stable_get (s s' : sysD) p : reachable glob loc tstep s s' ->
  fut_ready (heap (ct (gl s))) (Some p) = 1 ->
  fut_ready (heap (ct (gl s'))) (Some p) = 1 /\
  fut_get (heap (ct (gl s'))) (Some p) = fut_get (heap (ct (gl s))) (Some p).
Proof.
  intros Hr H1. cbn [fut_get fut_ready] in *.
  destruct (nth_error (heap (ct (gl s))) p) as [[k key st]|] eqn:E; [|discriminate].
  destruct st; [discriminate| |]; rewrite (stable s s' _ _ _ _ Hr E); try discriminate; auto.
Qed.

(* ---------- the value a future gets ---------- *)
(* setDelayedValue(key, X&&): the lock step does everything *)
Lemma set_wins_move ns pl progs s t c l g' l' es k key v q :
  R ns pl progs s -> nth_error (thr s) t = Some l -> at_ l = P_lock (SetValue true k key v) ->
  tstep t c (gl s) l = Some (g', l', es) -> afind key (pend (ct (gl s)) k) = Some q ->
  nth_error (heap (ct (gl s))) q = Some (Cell k key Unset) /\
  nth_error (heap (ct g')) q = Some (Cell k key (SetV v)) /\
  (forall q', q' <> q -> nth_error (heap (ct g')) q' = nth_error (heap (ct (gl s))) q') /\
  at_ l' = P_unlock (ORet 0).
Proof.
  intros HR Hl Ha Hs Hf. apply tstep_stepk in Hs. destruct Hs; try congruence.
  rewrite Ha in H. inversion H; subst o.
  destruct (apply_set_pending _ true _ _ v _ (R_cinv _ _ _ _ HR) Hf) as [c1 [Hap [H2 [H3 H4]]]].
  cbn [enter] in H1. rewrite Hap in H1. inversion H1; subst. cbn [ct at_ out_of]. auto.
Qed.
(* setDelayedValue(key, const X&): the step of the (non-throwing) copy does it *)
Lemma set_wins_copy ns pl progs s t c l g' l' es k key v q :
  R ns pl progs s -> nth_error (thr s) t = Some l -> at_ l = P_call (SetValue false k key v) ->
  throws (gl s) = false ->
  tstep t c (gl s) l = Some (g', l', es) -> afind key (pend (ct (gl s)) k) = Some q ->
  nth_error (heap (ct (gl s))) q = Some (Cell k key Unset) /\
  nth_error (heap (ct g')) q = Some (Cell k key (SetV v)) /\
  (forall q', q' <> q -> nth_error (heap (ct g')) q' = nth_error (heap (ct (gl s))) q') /\
  at_ l' = P_unlock (ORet 0).
Proof.
  intros HR Hl Ha Hth Hs Hf. apply tstep_stepk in Hs. destruct Hs; try congruence.
  rewrite Ha in H. inversion H; subst o.
  destruct (apply_set_pending _ false _ _ v _ (R_cinv _ _ _ _ HR) Hf) as [c1 [Hap [H2 [H3 H4]]]].
  rewrite Hap in H1. inversion H1; subst. cbn [ct at_ out_of]. auto.
Qed.
(* a key is pending whenever a thread waits at the copy inside setDelayedValue *)
Lemma at_copy_pending ns pl progs s t l o : R ns pl progs s ->
  nth_error (thr s) t = Some l -> at_ l = P_call o ->
  exists k key v q, o = SetValue false k key v /\ afind key (pend (ct (gl s)) k) = Some q /\
                    nth_error (heap (ct (gl s))) q = Some (Cell k key Unset) /\ mtx (gl s) = Some t.
Proof.
  intros HR Hl Ha.
  destruct (G_call _ _ (R_good _ _ _ _ HR) t o (eq_trans (pcof_at _ _ _ Hl) Ha)) as [_ [k [key [v [q [-> Hf]]]]]].
  exists k, key, v, q. repeat split; auto.
  - apply (C_pend _ (R_cinv _ _ _ _ HR)). apply afind_In. exact Hf.
  - apply (B_owner _ _ (R_base _ _ _ _ HR)). rewrite (pcof_at _ _ _ Hl), Ha. reflexivity.
Qed.
(* do_set_exn_keeps_pending: a throwing copy in setDelayedValue changes nothing: the key is still
   pending with its promise unsatisfied; the next step releases the mutex *)
Lemma set_exn_keeps_pending ns pl progs s t c l g' l' es o :
  R ns pl progs s -> nth_error (thr s) t = Some l -> at_ l = P_call o ->
  throws (gl s) = true -> tstep t c (gl s) l = Some (g', l', es) ->
  ct g' = ct (gl s) /\ at_ l' = P_unlock OExn /\ faulted g' = false /\
  exists k key v q, o = SetValue false k key v /\ afind key (pend (ct g') k) = Some q /\
                    nth_error (heap (ct g')) q = Some (Cell k key Unset).
Proof.
  intros HR Hl Ha Hth Hs.
  destruct (at_copy_pending _ _ _ _ _ _ _ HR Hl Ha) as [k [key [v [q [-> [Hf [Hq _]]]]]]].
  pose proof (G_nf _ _ (R_good _ _ _ _ HR)) as Hnf.
  apply tstep_stepk in Hs. destruct Hs; try congruence. cbn [ct at_ faulted].
  repeat split; auto. exists k, key, v, q. auto.
Qed.
Lemma unlock_step t c g l g' l' es out : tstep t c g l = Some (g', l', es) -> at_ l = P_unlock out ->
  es = unlock_evs out /\ at_ l' = Idle /\ ct g' = ct g /\ mtx g' = None /\ faulted g' = faulted g.
Proof.
  intros Hs Ha. apply tstep_stepk in Hs. destruct Hs; try congruence.
  rewrite Ha in H. inversion H; subst. cbn. repeat split; reflexivity.
Qed.

(* setDelayedValue for a key that is not pending: nothing changes, no copy is made *)
Lemma set_noop t c g l g' l' es mv k key v :
  at_ l = P_lock (SetValue mv k key v) -> tstep t c g l = Some (g', l', es) -> ahas key (pend (ct g) k) = false ->
  ct g' = ct g /\ at_ l' = P_unlock (ORet 0).
Proof.
  intros Ha Hs Hf.
  assert (Hn : afind key (pend (ct g) k) = None) by (unfold ahas in Hf; destruct (afind key (pend (ct g) k)); [discriminate|reflexivity]).
  apply tstep_stepk in Hs. destruct Hs; try congruence.
  rewrite Ha in H. inversion H; subst o. cbn [enter] in H1. destruct mv.
  - rewrite (apply_set_noop _ true _ _ v Hn) in H1. inversion H1; subst. cbn. auto.
  - rewrite Hn in H1. inversion H1; subst. cbn. auto.
Qed.

(* fulfillAllPromises, one (non-throwing) copy: exactly the body of setDelayedValue for the key at the
   iterator: that promise - and no other - gets v, the key moves from the pending to the used map *)
Lemma fulfill_step ns pl progs s t c l g' l' es v k key q r c0 :
  R ns pl progs s -> nth_error (thr s) t = Some l -> at_ l = P_ful v k key q r c0 ->
  throws (gl s) = false -> tstep t c (gl s) l = Some (g', l', es) ->
  apply (SetValue true k key v) (ct (gl s)) = (ct g', 0, false) /\
  nth_error (heap (ct (gl s))) q = Some (Cell k key Unset) /\
  nth_error (heap (ct g')) q = Some (Cell k key (SetV v)) /\
  (forall q', q' <> q -> nth_error (heap (ct g')) q' = nth_error (heap (ct (gl s))) q') /\
  (is_ful (at_ l') = true \/ (at_ l' = P_unlock (ORet 0) /\ pend (ct g') false = [] /\ pend (ct g') true = [])).
Proof.
  intros HR Hl Ha Hth Hs. pose proof (R_cinv _ _ _ _ HR) as HC.
  destruct (G_ful _ _ (R_good _ _ _ _ HR) t _ _ _ _ _ _ (eq_trans (pcof_at _ _ _ Hl) Ha)) as [Hpe [Hk _]].
  assert (Hq : afind key (pend (ct (gl s)) k) = Some q) by (rewrite Hpe; cbn; rewrite Z.eqb_refl; reflexivity).
  destruct (apply_set_pending _ true _ _ v _ HC Hq) as [c1 [Hap1 [Hq0 [Hq1 Hqo]]]].
  apply tstep_stepk in Hs. destruct Hs; try congruence.
  - exfalso. rewrite Ha in H. injection H as <- <- <- <- <- <-.
    match goal with Hn : set_value ?qq ?vv _ = None |- _ => destruct (set_value_ok qq vv _ _ _ Hq0) as [h1 E]; congruence end.
  - rewrite Ha in H. injection H as <- <- <- <- <- <-. cbn [ct at_].
    pose proof (iter_is_set _ true _ _ _ _ _ _ Hpe H1) as Hap. rewrite Hap in Hap1. inversion Hap1; subst c1.
    destruct (apply_CInv _ _ _ _ _ HC Hap) as [HC' _].
    destruct (iter_pend _ _ _ _ _ h1 HC Hpe) as [Hpe' Hpo].
    assert (Hk' : k = true -> pend (iter false (ct (gl s)) k key q h1) false = []).
    { intros ->. rewrite Hpo by discriminate. apply Hk. reflexivity. }
    destruct (ful_goto_spec _ _ _ _ _ _ _ _ HC' Hpe' Hk' H2) as [_ [-> Hcases]].
    repeat split; auto.
    destruct Hcases as [[k' [key' [q' [r' [-> _]]]]]|[-> [E1 E2]]]; [left; reflexivity|right; auto].
Qed.
(* when the method gets through both loops: both pending maps are empty, hence no promise at all is
   unsatisfied, and every promise that was unsatisfied when the lock was taken holds v *)
Lemma fulfill_completes ns pl progs s t c l g' l' es v k key q r c0 :
  R ns pl progs s -> nth_error (thr s) t = Some l -> at_ l = P_ful v k key q r c0 ->
  tstep t c (gl s) l = Some (g', l', es) -> at_ l' = P_unlock (ORet 0) ->
  pend (ct g') false = [] /\ pend (ct g') true = [] /\
  (forall i x, nth_error (heap (ct g')) i = Some x -> cst x <> Unset) /\
  (forall i ki keyi, nth_error (heap c0) i = Some (Cell ki keyi Unset) ->
     nth_error (heap (ct g')) i = Some (Cell ki keyi (SetV v))).
Proof.
  intros HR Hl Ha Hs Ha'.
  assert (HR' : R ns pl progs (Sys g' (upd (thr s) t l'))).
  { destruct HR as [sc ->]. exists (sc ++ [(t, c)]). rewrite run_app. cbn. unfold step, sys_step. rewrite Hl, Hs. reflexivity. }
  pose proof (R_cinv _ _ _ _ HR') as HC'. cbn [gl] in HC'.
  destruct (G_ful _ _ (R_good _ _ _ _ HR) t _ _ _ _ _ _ (eq_trans (pcof_at _ _ _ Hl) Ha)) as [Hpe [Hk [_ HJ]]].
  assert (Hth : throws (gl s) = false).
  { destruct (throws (gl s)) eqn:E; [|reflexivity]. apply tstep_stepk in Hs. destruct Hs; try congruence.
    rewrite Ha in H. inversion H; subst. cbn in Ha'. discriminate. }
  destruct (fulfill_step _ _ _ _ _ _ _ _ _ _ _ _ _ _ _ _ HR Hl Ha Hth Hs) as [_ [Hq0 [Hq1 [Hqo [Hf|[_ [E1 E2]]]]]]];
    [rewrite Ha' in Hf; discriminate|].
  assert (Hno : forall i x, nth_error (heap (ct g')) i = Some x -> cst x <> Unset).
  { intros i [ki keyi st] Hi. cbn. intros ->. pose proof (C_unset _ HC' _ _ _ Hi) as Hin.
    destruct ki; [rewrite E2 in Hin|rewrite E1 in Hin]; exact Hin. }
  repeat split; auto.
  intros i ki keyi Hi. destruct (Nat.eq_dec i q) as [->|Hne].
  - destruct (HJ _ _ _ Hi) as [Hu|Hs']; rewrite Hq0 in *; [inversion Hu; subst; exact Hq1|discriminate].
  - destruct (HJ _ _ _ Hi) as [Hu|Hs']; rewrite <- (Hqo _ Hne) in *; [|exact Hs'].
    exfalso. apply (Hno _ _ Hu). reflexivity.
Qed.

(* ---------- every completed critical section is the sequential body ---------- *)
Lemma section_lock ns pl progs s t c l g' l' es o rv :
  R ns pl progs s -> nth_error (thr s) t = Some l -> at_ l = P_lock o -> (forall v, o <> FulfillAll v) ->
  tstep t c (gl s) l = Some (g', l', es) -> at_ l' = P_unlock (ORet rv) ->
  apply o (ct (gl s)) = (ct g', rv, false) /\ hist g' = hist (gl s) ++ [(t, o, ORet rv)].
Proof.
  intros HR Hl Ha Hnf Hs Ha'. apply tstep_stepk in Hs. destruct Hs; try congruence.
  rewrite Ha in H. inversion H; subst o0.
  destruct (enter_spec _ _ _ _ _ (R_cinv _ _ _ _ HR) H1) as [_ [[k [key [v [q [_ [-> _]]]]]]|[[rv0 [_ [-> Hap]]]|[v [-> _]]]]];
    cbn [at_] in Ha'; try discriminate.
  - inversion Ha'; subst rv0. cbn [ct hist log_out]. auto.
  - exfalso. eapply Hnf; reflexivity.
Qed.
Lemma section_copy ns pl progs s t c l g' l' es o :
  R ns pl progs s -> nth_error (thr s) t = Some l -> at_ l = P_call o ->
  throws (gl s) = false -> tstep t c (gl s) l = Some (g', l', es) ->
  exists rv, at_ l' = P_unlock (ORet rv) /\ apply o (ct (gl s)) = (ct g', rv, false) /\
             hist g' = hist (gl s) ++ [(t, o, ORet rv)].
Proof.
  intros HR Hl Ha Hth Hs. apply tstep_stepk in Hs. destruct Hs; try congruence.
  rewrite Ha in H. inversion H; subst o0.
  destruct (apply_CInv _ _ _ _ _ (R_cinv _ _ _ _ HR) H1) as [_ ->]. exists rv. cbn. auto.
Qed.

(* ---------- destruction: do_never_hangs, do_fulfilled_once ---------- *)
Definition requested_once (h : heap_t) (q : nat) (k : bool) (key : Z) : Prop :=
  forall q' st', nth_error h q' = Some (Cell k key st') -> q' = q.

Lemma destroyed ns pl progs s : R ns pl progs s ->
  exists h', destroy (ct (gl s)) = Some h' /\ length h' = length (heap (ct (gl s))) /\
    (forall q k key st, nth_error (heap (ct (gl s))) q = Some (Cell k key st) ->
       nth_error h' q = Some (Cell k key (settle 0 st))).
Proof. intros HR. apply destroy_spec. eapply R_cinv; eauto. Qed.

Lemma never_hangs ns pl progs s h' : R ns pl progs s -> destroy (ct (gl s)) = Some h' ->
  (forall q x, nth_error h' q = Some x -> cst x <> Unset) /\
  (forall u l i p, nth_error (thr s) u = Some l -> nth_error (slots l) i = Some (Some p) ->
     fut_ready h' (Some p) = 1).
Proof.
  intros HR Hd. destruct (destroyed _ _ _ _ HR) as [h'' [Hd' [Hlen Hcell]]]. rewrite Hd in Hd'. inversion Hd'; subst h''.
  assert (Hno : forall q x, nth_error h' q = Some x -> cst x <> Unset).
  { intros q x Hq. destruct (nth_error (heap (ct (gl s))) q) as [[k key st]|] eqn:E.
    - rewrite (Hcell _ _ _ _ E) in Hq. inversion Hq; subst. cbn. destruct st; discriminate.
    - apply nth_error_None in E. assert (q < length h')%nat by (apply nth_error_Some; congruence). lia. }
  split; [exact Hno|]. intros u l i p Hu Hi.
  pose proof (B_slots _ _ (R_base _ _ _ _ HR) _ _ _ _ Hu Hi) as Hp.
  cbn [fut_ready]. destruct (nth_error h' p) as [[k key st]|] eqn:E.
  - specialize (Hno _ _ E). cbn in Hno. destruct st; congruence.
  - apply nth_error_None in E. lia.
Qed.
Lemma fulfilled_once ns pl progs s h' q k key st :
  R ns pl progs s -> destroy (ct (gl s)) = Some h' ->
  nth_error (heap (ct (gl s))) q = Some (Cell k key st) -> requested_once (heap (ct (gl s))) q k key ->
  st <> Broken /\ exists v, nth_error h' q = Some (Cell k key (SetV v)) /\ (st = SetV v \/ (st = Unset /\ v = 0)).
Proof.
  intros HR Hd Hq Honce. destruct (destroyed _ _ _ _ HR) as [h'' [Hd' [Hlen Hcell]]]. rewrite Hd in Hd'. inversion Hd'; subst h''.
  assert (Hnb : st <> Broken).
  { intros ->. destruct (C_broken _ (R_cinv _ _ _ _ HR) _ _ _ Hq) as [q' [st' [Hlt Hq']]].
    specialize (Honce _ _ Hq'). lia. }
  split; [exact Hnb|]. specialize (Hcell _ _ _ _ Hq). destruct st; cbn [settle] in Hcell.
  - exists 0. auto.
  - exists v. auto.
  - congruence.
Qed.
Lemma broken_only_by_rerequest ns pl progs s q k key :
  R ns pl progs s -> nth_error (heap (ct (gl s))) q = Some (Cell k key Broken) ->
  exists q' st, (q < q')%nat /\ nth_error (heap (ct (gl s))) q' = Some (Cell k key st).
Proof. intros HR. apply (C_broken _ (R_cinv _ _ _ _ HR)). Qed.
Lemma provenance ns pl progs s q k key v : R ns pl progs s ->
  nth_error (heap (ct (gl s))) q = Some (Cell k key (SetV v)) ->
  exists t, (exists mv, In (t, SetValue mv k key v) (began (gl s))) \/ In (t, FulfillAll v) (began (gl s)).
Proof. intros HR. apply (G_prov _ _ (R_good _ _ _ _ HR)). Qed.
Lemma slots_valid ns pl progs s u l i p : R ns pl progs s ->
  nth_error (thr s) u = Some l -> nth_error (slots l) i = Some (Some p) ->
  exists k key st, nth_error (heap (ct (gl s))) p = Some (Cell k key st).
Proof.
  intros HR Hu Hi. pose proof (B_slots _ _ (R_base _ _ _ _ HR) _ _ _ _ Hu Hi) as Hp.
  destruct (nth_error (heap (ct (gl s))) p) as [[k key st]|] eqn:E; [eauto|].
  apply nth_error_None in E. lia.
Qed.
Lemma both_only_rerequested c k key : CInv c -> abs c k key = (true, true) ->
  exists q q' st st', q <> q' /\ nth_error (heap c) q = Some (Cell k key st) /\
                      nth_error (heap c) q' = Some (Cell k key st').
Proof.
  intros HC Hab. unfold abs in Hab.
  assert (H1 : ahas key (pend c k) = true) by congruence.
  assert (H2 : ahas key (used c k) = true) by congruence.
  apply ahas_true in H1. apply ahas_true in H2. destruct H1 as [q H1], H2 as [q' H2].
  pose proof (C_pend _ HC _ _ _ H1) as E1. destruct (C_used _ HC _ _ _ H2) as [v E2].
  exists q, q', Unset, (SetV v). repeat split; auto. intros ->. congruence.
Qed.

(* ---------- do_linearizable / do_atomic_sections ---------- *)
Lemma linearizable ns pl progs s : R ns pl progs s -> replay (hist (gl s)) cont0 = Some (ct (gl s)).
Proof. intros HR. apply (G_cinv _ _ (R_good _ _ _ _ HR)). Qed.

(* the two ghost logs: `began` gets the call at its lock step; `hist` is extended only by steps of the
   owner of the lock (or of the thread acquiring it), i.e. between that call's invoke and return *)
Lemma lin_point t c g l g' l' es : tstep t c g l = Some (g', l', es) ->
  match at_ l with
  | P_lock o => began g' = began g ++ [(t, o)] /\ mtx g = None /\ mtx g' = Some t
  | _ => began g' = began g
  end /\
  (hist g' = hist g \/
   (exists x, hist g' = hist g ++ x /\ (forall e, In e x -> fst (fst e) = t) /\
              holds (at_ l') = true /\ (is_lock (at_ l) = true \/ holds (at_ l) = true))).
Proof.
  intros Hs. apply tstep_stepk in Hs. destruct Hs; cbn [began hist mtx at_];
    match goal with Ha : at_ _ = _ |- _ => rewrite Ha end; cbn [is_lock holds]; try (split; [auto|left; reflexivity]; fail).
  - split; [auto|]. pose proof (enter_holds _ _ _ _ _ H1) as Hh.
    destruct p' as [| | | |out]; cbn [log_out]; try (left; reflexivity).
    destruct out; [right; eexists [_]; repeat split; auto; intros e [<-|[]]; reflexivity|left; reflexivity|
                   right; eexists [_]; repeat split; auto; intros e [<-|[]]; reflexivity].
  - split; [reflexivity|]. right. eexists [_]. repeat split; auto. intros e [<-|[]]; reflexivity.
  - split; [reflexivity|]. destruct flt; cbn [out_of log_out]; [left; reflexivity|].
    right. eexists [_]. repeat split; auto. intros e [<-|[]]; reflexivity.
  - split; [reflexivity|]. right. eexists [_]. repeat split; auto. intros e [<-|[]]; reflexivity.
  - split; [reflexivity|]. pose proof (ful_goto_holds _ _ _ _ _ _ _ _ H2) as Hh. right.
    destruct p' as [| | | |out]; cbn [log_out].
    1-4: eexists [_]; repeat split; auto; intros e [<-|[]]; reflexivity.
    destruct out; [|eexists [_]; repeat split; auto; intros e [<-|[]]; reflexivity|].
    all: rewrite <- app_assoc; eexists [_; _]; repeat split; auto; intros e [<-|[<-|[]]]; reflexivity.
Qed.

(* the container changes only in steps of a thread that is taking or owns promiseLock *)
Lemma ct_changes_only_in_cs t c g l g' l' es :
  tstep t c g l = Some (g', l', es) -> is_lock (at_ l) = false -> holds (at_ l) = false -> ct g' = ct g.
Proof.
  intros Hs Hn Hh. apply tstep_stepk in Hs. destruct Hs; cbn [ct]; try reflexivity;
    match goal with Ha : at_ _ = _ |- _ => rewrite Ha in Hn, Hh end; discriminate.
Qed.
Lemma mutual_exclusion ns pl progs s u u' :
  R ns pl progs s -> holds (pcof (thr s) u) = true -> holds (pcof (thr s) u') = true -> u = u'.
Proof.
  intros HR H1 H2. pose proof (R_base _ _ _ _ HR) as HB.
  pose proof (B_owner _ _ HB _ H1). pose proof (B_owner _ _ HB _ H2). congruence.
Qed.
Lemma in_section_owns ns pl progs s u : R ns pl progs s ->
  (holds (pcof (thr s) u) = true <-> mtx (gl s) = Some u).
Proof.
  intros HR. pose proof (R_base _ _ _ _ HR) as HB. split; [apply (B_owner _ _ HB)|apply (B_held _ _ HB)].
Qed.

(* ---------- liveness ---------- *)
Lemma holder_enabled ns pl progs s a c : R ns pl progs s -> mtx (gl s) = Some a -> enabledD s a c.
Proof.
  intros HR Hm. pose proof (B_held _ _ (R_base _ _ _ _ HR) a Hm) as Hh. unfold pcof in Hh.
  destruct (nth_error (thr s) a) as [l|] eqn:Hl; [|discriminate].
  assert (exists r, tstep a c (gl s) l = Some r) as [r Hr]; [|exists l, r; auto].
  destruct l as [pr p sl]. cbn in Hh. unfold tstep, tstep_gen. cbn [at_ prog slots]. destruct p; try discriminate.
  - destruct (throws (gl s)); [eexists; reflexivity|].
    destruct (apply o (ct (gl s))) as [[c' rv] flt]. eexists; reflexivity.
  - destruct (throws (gl s)); [eexists; reflexivity|].
    destruct (set_value q v (heap (ct (gl s)))) as [h1|]; [|eexists; reflexivity].
    destruct (ful_goto false v c0 _ k r) as [[c' p'] flt]. eexists; reflexivity.
  - eexists; reflexivity.
Qed.

(* a method can be disabled only while it waits for promiseLock, and then the owner can move *)
Lemma blocks_only_on_mutex ns pl progs s t c l :
  R ns pl progs s -> nth_error (thr s) t = Some l -> fin l = false -> tstep t c (gl s) l = None ->
  exists o a, at_ l = P_lock o /\ mtx (gl s) = Some a /\ a <> t /\ enabledD s a 0.
Proof.
  intros HR Hl Hf Hs.
  destruct (at_ l) as [|o|o|v k key q r c0|out] eqn:Ha.
  - exfalso. destruct l as [pr p sl]. cbn in Ha. subst p. unfold tstep, tstep_gen in Hs. cbn [at_ prog slots] in *.
    destruct pr as [|o r]; [discriminate|]. destruct o; discriminate.
  - destruct (mtx (gl s)) as [a|] eqn:Hm.
    + exists o, a. repeat split; auto.
      * intros ->. pose proof (B_held _ _ (R_base _ _ _ _ HR) t Hm) as Hh. rewrite (pcof_at _ _ _ Hl), Ha in Hh. discriminate.
      * eapply holder_enabled; eauto.
    + exfalso. unfold tstep, tstep_gen in Hs. rewrite Ha, Hm in Hs. destruct (enter false o (ct (gl s))) as [[c' p'] flt]. discriminate.
  - exfalso. assert (mtx (gl s) = Some t) as Hm.
    { apply (B_owner _ _ (R_base _ _ _ _ HR)). rewrite (pcof_at _ _ _ Hl), Ha. reflexivity. }
    destruct (holder_enabled _ _ _ _ _ c HR Hm) as [l0 [r0 [Hl0 Hr0]]]. congruence.
  - exfalso. assert (mtx (gl s) = Some t) as Hm.
    { apply (B_owner _ _ (R_base _ _ _ _ HR)). rewrite (pcof_at _ _ _ Hl), Ha. reflexivity. }
    destruct (holder_enabled _ _ _ _ _ c HR Hm) as [l0 [r0 [Hl0 Hr0]]]. congruence.
  - exfalso. assert (mtx (gl s) = Some t) as Hm.
    { apply (B_owner _ _ (R_base _ _ _ _ HR)). rewrite (pcof_at _ _ _ Hl), Ha. reflexivity. }
    destruct (holder_enabled _ _ _ _ _ c HR Hm) as [l0 [r0 [Hl0 Hr0]]]. congruence.
Qed.

(* no deadlock, no hang: when nothing can move, every program has run to completion *)
Lemma quiescent_all_fin ns pl progs s : R ns pl progs s -> quiescentD s -> all_fin glob loc fin s = true.
Proof.
  intros HR HQ. unfold all_fin. apply forallb_forall. intros l Hin.
  apply In_nth_error in Hin. destruct Hin as [t Hl].
  destruct (fin l) eqn:Hf; [reflexivity|exfalso].
  destruct (tstep t 0 (gl s) l) as [r|] eqn:Hs.
  - apply (HQ t 0%nat); [lia|]. exists l, r. auto.
  - destruct (blocks_only_on_mutex _ _ _ _ _ _ _ HR Hl Hf Hs) as [o [a [_ [_ [_ He]]]]].
    apply (HQ a 0%nat); [lia|exact He].
Qed.

(* ---------- do_never_twice_unfixed_refuted: the header before repair b8719b7 ---------- *)
(* one thread: two int keys requested; fulfillAllPromises whose second copy throws; then setDelayedValue
   for the first key.  tstep_gen true = the loop that does not erase and clear()s at the end. *)
Definition bad_progs : list (list op) :=
  [[GetFuture false 1 0; GetFuture false 2 1; FulfillAll 5000; SetValue false false 1 77]].
Definition bad_sched : list (nat * nat) := repeat (0%nat, 0%nat) 14.
Definition bad_state_unfixed : sysD := run glob loc (tstep_gen true) (init 2 [1] bad_progs) bad_sched.
Lemma never_twice_unfixed_refuted :
  faulted (gl bad_state_unfixed) = true /\
  all_fin glob loc fin bad_state_unfixed = true /\ mtx (gl bad_state_unfixed) = None /\
  destroy (ct (gl bad_state_unfixed)) = None /\
  ahas 1 (pend (ct (gl bad_state_unfixed)) false) = true /\ ahas 1 (used (ct (gl bad_state_unfixed)) false) = true /\
  fut_get (heap (ct (gl bad_state_unfixed))) (Some 0%nat) = 5000 /\
  fut_get (heap (ct (gl bad_state_unfixed))) (Some 1%nat) = C_NOTREADY.
Proof. vm_compute. repeat split; reflexivity. Qed.

(* ---------- bounded work ---------- *)
(* the pending maps never hold more entries than getFuture calls were written in the programs:
   N bounds the length of every fulfillAllPromises loop *)
Definition getf_op (o : op) : nat := match o with GetFuture _ _ _ => 1 | _ => 0 end.
Definition getfs_prog (p : list op) : nat := list_sum (map getf_op p).
Definition getf_loc (l : loc) : nat :=
  (getfs_prog (prog l) + match at_ l with P_lock o | P_call o => getf_op o | _ => 0 end)%nat.
Definition Phi (c : cont) : nat := (length (pend c false) + length (pend c true))%nat.
Definition PInv (N : nat) (g : glob) (ls : list loc) : Prop := (Phi (ct g) + list_sum (map getf_loc ls) <= N)%nat.

Lemma apply_phi o c c' rv flt : apply o c = (c', rv, flt) -> (Phi c' <= Phi c + getf_op o)%nat.
Proof.
  intros Ha. unfold Phi. destruct o; cbn [apply getf_op] in *.
  - inversion Ha; subst. cbn [pend]. destruct k; unfold setf; cbn;
      [pose proof (aput_length key (length (heap c)) (pend c true))|pose proof (aput_length key (length (heap c)) (pend c false))]; lia.
  - destruct (afind key (pend c k)); [|inversion Ha; subst; lia].
    destruct (set_value n v (heap c)); inversion Ha; subst; [|lia]. cbn [pend].
    destruct k; unfold setf; cbn; [pose proof (adel_length key (pend c true))|pose proof (adel_length key (pend c false))]; lia.
  - destruct (finish v false (pend c false) c) as [cf|] eqn:Hf; inversion Ha; subst; [|lia].
    unfold finish in Hf. destruct (fulfill (pend c false) v (used c false) (heap c)) as [[u0 h0]|]; [|discriminate].
    destruct (fulfill (pend c true) v (used c true) h0) as [[u1 h1]|]; inversion Hf; subst. cbn. lia.
  - inversion Ha; subst; lia.
  - inversion Ha; subst; lia.
  - inversion Ha; subst. cbn [pend]. lia.
  - inversion Ha; subst; lia.
  - inversion Ha; subst; lia.
Qed.
Lemma ful_goto_phi v c0 c k r c' p' flt : ful_goto false v c0 c k r = (c', p', flt) -> (Phi c' <= Phi c)%nat.
Proof.
  intros H. destruct (ful_goto_cases _ _ _ _ _ _ _ _ H) as [[k' [key [q [r' [_ [-> _]]]]]]|[[_ [_ ->]]|[_ [-> _]]]]; lia.
Qed.
Lemma iter_phi c k key q h1 : (Phi (iter false c k key q h1) <= Phi c)%nat.
Proof.
  unfold Phi, iter. cbn [pend]. destruct k; unfold setf; cbn;
    [pose proof (adel_length key (pend c true))|pose proof (adel_length key (pend c false))]; lia.
Qed.
Lemma enter_phi o c c' p' flt : enter false o c = (c', p', flt) -> (Phi c' <= Phi c + getf_op o)%nat.
Proof.
  intros He. destruct o; cbn [enter] in He;
    try solve [destruct (apply _ c) as [[c1 rv] fl] eqn:Ha; inversion He; subst; eapply apply_phi; exact Ha].
  - destruct mv; [destruct (apply (SetValue true k key v) c) as [[c1 rv] fl] eqn:Ha; inversion He; subst; eapply apply_phi; exact Ha|].
    destruct (afind key (pend c k)); [destruct (is_unset (heap c) n)|]; inversion He; subst; lia.
  - pose proof (ful_goto_phi _ _ _ _ _ _ _ _ He). cbn. lia.
Qed.

Lemma PInv_step N t g ls l g' l' es : PInv N g ls -> nth_error ls t = Some l -> stepk t g l g' l' es ->
  PInv N g' (upd ls t l').
Proof.
  unfold PInv. intros HP Hl Hs. pose proof (sum_upd getf_loc ls t l l' Hl) as Hsum.
  assert (Hgoal : (Phi (ct g') + getf_loc l' <= Phi (ct g) + getf_loc l)%nat -> (Phi (ct g') + list_sum (map getf_loc (upd ls t l')) <= N)%nat) by lia.
  apply Hgoal. clear Hgoal Hsum HP. unfold getf_loc.
  destruct Hs; cbn [ct prog at_]; match goal with Ha : at_ _ = _ |- _ => rewrite Ha end; try lia.
  - rewrite H0. unfold getfs_prog. simpl. lia.
  - rewrite H0. unfold getfs_prog. simpl. destruct o; cbn in *; try lia; discriminate.
  - pose proof (enter_phi _ _ _ _ _ H1).
    destruct (enter_cases _ _ _ _ _ H1) as [[-> [-> _]]|[[v [k [key [q [r [_ [-> _]]]]]]]|[out ->]]]; lia.
  - pose proof (apply_phi _ _ _ _ _ H1). lia.
  - pose proof (ful_goto_phi _ _ _ _ _ _ _ _ H2) as Hphi. pose proof (iter_phi (ct g) k key q h1).
    destruct (ful_goto_cases _ _ _ _ _ _ _ _ H2) as [[k' [key' [q' [r' [-> _]]]]]|[[-> _]|[-> _]]]; lia.
Qed.

(* the measure: every call costs at most 2N+6 steps (N = number of getFuture calls in the programs) *)
Definition wpc (N : nat) (p : pc) : nat :=
  match p with
  | Idle => 0
  | P_lock _ => 2 * N + 5
  | P_call _ => 2
  | P_ful _ false _ _ r c0 => length r + length (pend c0 true) + 2
  | P_ful _ true _ _ r _ => length r + 2
  | P_unlock _ => 1
  end.
Definition wloc (N : nat) (l : loc) : nat := ((2 * N + 6) * length (prog l) + wpc N (at_ l))%nat.
Definition mu (N : nat) (s : sysD) : nat := list_sum (map (wloc N) (thr s)).
Definition any_choice (c : nat) : bool := true.
Definition Inv2 (N : nat) (g : glob) (ls : list loc) : Prop := Inv g ls /\ PInv N g ls.

Lemma Inv2_step N : forall g ls t c l g' l' es,
  Inv2 N g ls -> nth_error ls t = Some l -> tstep t c g l = Some (g', l', es) -> Inv2 N g' (upd ls t l').
Proof.
  intros g ls t c l g' l' es [HI HP] Hl Hs. split; [eapply Inv_step; eauto|].
  eapply PInv_step; eauto. eapply tstep_stepk; eauto.
Qed.

Lemma ful_goto_w N v c0 c k r c' p' flt : ful_goto false v c0 c k r = (c', p', flt) ->
  (k = false -> pend c true = pend c0 true) ->
  (wpc N p' <= length r + (if k then 0 else length (pend c0 true)) + 1)%nat.
Proof.
  unfold ful_goto. intros H E. destruct r as [|[key q] r'].
  - destruct k; [inversion H; subst; cbn; lia|]. rewrite (E eq_refl) in H.
    destruct (pend c0 true) as [|[key q] r']; [inversion H; subst; cbn; lia|].
    destruct (is_unset (heap c) q); inversion H; subst; cbn; lia.
  - destruct (is_unset (heap c) q); inversion H; subst; [destruct k|]; cbn; lia.
Qed.

Lemma mu_dec N s t c : Inv2 N (gl s) (thr s) -> any_choice c = true -> enabledD s t c ->
  (mu N (stepD s (t, c)) < mu N s)%nat.
Proof.
  intros [[HB _] HP] _ [l [r [Hl Hs]]]. destruct r as [[g' l'] es].
  unfold step, sys_step. rewrite Hl, Hs. cbn [fst]. unfold mu. cbn [gl thr].
  apply (sum_step_dec (wloc N) (wloc N) (thr s) t l l' Hl); [intros; lia|].
  assert (HPhi : (Phi (ct (gl s)) <= N)%nat) by (unfold PInv in HP; lia).
  pose proof (pcof_at _ _ _ Hl) as Hp.
  apply tstep_stepk in Hs. unfold wloc. destruct Hs; cbn [prog at_]; rewrite ?H, ?H0; cbn [length wpc]; try lia.
  - (* lock *)
    destruct (enter_cases _ _ _ _ _ H1) as [[-> _]|[[v [k [key [q [r [-> [E _]]]]]]]|[out ->]]]; cbn [wpc]; try lia.
    cbn [enter] in H1. pose proof (ful_goto_w N _ _ _ _ _ _ _ _ H1 (fun _ => eq_refl)) as Hw. unfold Phi in HPhi. cbn in Hw. lia.
  - destruct k; cbn [wpc]; lia.
  - destruct k; cbn [wpc]; lia.
  - (* one more iteration *)
    assert (Hpe : k = false -> pend (iter false (ct (gl s)) k key q h1) true = pend c0 true).
    { intros ->. unfold iter; cbn [pend]. rewrite setf_ne by discriminate. eapply (B_fpend _ _ HB t). rewrite Hp. exact H. }
    pose proof (ful_goto_w N _ _ _ _ _ _ _ _ H2 Hpe) as Hw. destruct k; cbn [wpc]; lia.
Qed.

Definition getfs (progs : list (list op)) : nat := list_sum (map getfs_prog progs).
Lemma PInv_init ns pl progs : PInv (getfs progs) (gl (init ns pl progs)) (thr (init ns pl progs)).
Proof.
  unfold PInv, init, getfs. cbn [gl thr ct]. rewrite map_map. unfold getf_loc. cbn [prog at_].
  assert (E : map (fun x : list op => (getfs_prog x + 0)%nat) progs = map getfs_prog progs).
  { apply map_ext. intros. lia. }
  rewrite E. cbn. lia.
Qed.
Lemma R_inv2 ns pl progs s : R ns pl progs s -> Inv2 (getfs progs) (gl s) (thr s).
Proof.
  intros H. eapply (reachable_inv glob loc tstep (Inv2 (getfs progs))); [apply Inv2_step| |exact H].
  split; [apply Inv_init|apply PInv_init].
Qed.
(* every schedule makes at most mu moves: no run goes on for ever *)
Lemma bounded_work ns pl progs s sc : R ns pl progs s -> (moves glob loc tstep s sc <= mu (getfs progs) s)%nat.
Proof.
  intros HR. eapply (moves_le_mu glob loc tstep (mu (getfs progs)) (Inv2 (getfs progs)) (Inv2_step _) any_choice).
  - intros s0 t c. apply mu_dec.
  - apply (R_inv2 _ _ _ _ HR).
  - unfold sched_ok. apply forallb_forall. reflexivity.
Qed.

(* ---------- every run ends, and ends with every program finished (existence form) ---------- *)
From GV Require Import Progress.

Lemma tstep_choice t c g l : tstep t c g l = tstep t 0 g l.
Proof. reflexivity. Qed.
Lemma settled_quiescent (s : sysD) : settled glob loc tstep any_choice s -> quiescentD s.
Proof. intros H t c _. apply H. reflexivity. Qed.
Lemma pick_move (s : sysD) : (exists t c, any_choice c = true /\ enabledD s t c) \/ settled glob loc tstep any_choice s.
Proof.
  destruct (enabled_choice_dec glob loc tstep s 0) as [[t He]|Hn].
  - left. exists t, 0%nat. split; [reflexivity|exact He].
  - right. intros t c _ [l [r [Hl Hs]]]. apply (Hn t). exists l, r. split; [exact Hl|].
    rewrite <- Hs. symmetry. apply tstep_choice.
Qed.
(* from every reachable state - whatever the throw plan, also from the middle of a copy loop or an exception
   path - there is a schedule of at most mu(s) steps after which every thread has finished its program *)
Lemma eventually_finishes ns pl progs s : R ns pl progs s ->
  exists sc, sched_ok any_choice sc /\ (length sc <= mu (getfs progs) s)%nat /\
             all_fin glob loc fin (runD s sc) = true.
Proof.
  intros HR.
  destruct (settles glob loc tstep (mu (getfs progs)) (Inv2 (getfs progs)) (Inv2_step _) any_choice
              (fun s0 t c => mu_dec (getfs progs) s0 t c) pick_move s (R_inv2 _ _ _ _ HR))
    as [sc [Hok [Hlen Hset]]].
  exists sc. repeat split; auto.
  apply (quiescent_all_fin ns pl progs).
  - destruct HR as [sc0 ->]. exists (sc0 ++ sc). symmetry. apply run_app.
  - apply settled_quiescent. exact Hset.
Qed.
