(* Invariants and progress facts for the DelayedObjects model (property C18). *)
From Coq Require Import List Arith ZArith Lia Bool.
Import ListNotations.
From GV Require Import Sched Events DelayedObjectsModel.
Local Open Scope Z_scope.

Notation sysD := (sys glob loc).
Notation runD := (run glob loc tstep).
Notation stepD := (step glob loc tstep).
Notation enabledD := (enabled glob loc tstep).
Notation quiescentD := (quiescent glob loc tstep).

(* ====================================================================== *)
(* association lists                                                       *)
(* ====================================================================== *)
Definition keys (m : amap) : list Z := map fst m.

Lemma afind_In key m p : afind key m = Some p -> In (key, p) m.
Proof.
  induction m as [|[k q] r IH]; cbn; [discriminate|].
  destruct (Z.eqb_spec k key) as [->|Hne]; intros H.
  - inversion H; subst. left; reflexivity.
  - right. apply IH. exact H.
Qed.
Lemma afind_None key m : afind key m = None -> forall p, ~ In (key, p) m.
Proof.
  induction m as [|[k q] r IH]; cbn; intros H p; [tauto|].
  destruct (Z.eqb_spec k key) as [->|Hne]; [discriminate|].
  intros [E|E]; [inversion E; congruence|]. eapply IH; eauto.
Qed.
Lemma In_keys key p m : In (key, p) m -> In key (keys m).
Proof. intros H. apply (in_map fst) in H. exact H. Qed.
Lemma In_afind key m p : NoDup (keys m) -> In (key, p) m -> afind key m = Some p.
Proof.
  induction m as [|[k q] r IH]; cbn; intros Hnd Hin; [tauto|].
  inversion Hnd as [|? ? Hk Hr]; subst.
  destruct Hin as [E|Hin].
  - inversion E; subst. rewrite Z.eqb_refl. reflexivity.
  - destruct (Z.eqb_spec k key) as [->|Hne]; [|apply IH; auto].
    exfalso. apply Hk. eapply In_keys; eauto.
Qed.
Lemma In_adel k p key m : In (k, p) (adel key m) <-> In (k, p) m /\ k <> key.
Proof.
  unfold adel. rewrite filter_In. cbn. split; intros [H1 H2]; split; auto.
  - intros ->. rewrite Z.eqb_refl in H2. discriminate.
  - apply negb_true_iff. apply Z.eqb_neq. exact H2.
Qed.
Lemma keys_adel key m x : In x (keys (adel key m)) <-> In x (keys m) /\ x <> key.
Proof.
  unfold keys. rewrite !in_map_iff. split.
  - intros [[k p] [E H]]. cbn in E. subst. apply In_adel in H. destruct H. split; auto. exists (x, p); auto.
  - intros [[[k p] [E H]] Hne]. cbn in E. subst. exists (x, p). split; auto. apply In_adel. auto.
Qed.
Lemma adel_nodup key m : NoDup (keys m) -> NoDup (keys (adel key m)).
Proof.
  induction m as [|[k q] r IH]; cbn; intros H; [constructor|].
  inversion H as [|? ? Hk Hr]; subst.
  destruct (k =? key); cbn; [apply IH; exact Hr|].
  constructor; [|apply IH; exact Hr].
  intros Hin. apply keys_adel in Hin. tauto.
Qed.
Lemma aput_nodup key p m : NoDup (keys m) -> NoDup (keys (aput key p m)).
Proof.
  intros H. unfold aput. cbn. constructor; [|apply adel_nodup; exact H].
  intros Hin. apply keys_adel in Hin. tauto.
Qed.
Lemma In_aput k p key q m : In (k, p) (aput key q m) <-> (k = key /\ p = q) \/ (k <> key /\ In (k, p) m).
Proof.
  unfold aput. cbn. rewrite In_adel. split.
  - intros [E|[H1 H2]]; [inversion E; auto|auto].
  - intros [[-> ->]|[H1 H2]]; auto.
Qed.

Lemma afind_adel_same key m : afind key (adel key m) = None.
Proof.
  unfold adel. induction m as [|[k q] r IH]; cbn; [reflexivity|].
  destruct (Z.eqb_spec k key) as [->|Hne]; cbn; [exact IH|].
  destruct (Z.eqb_spec k key); [contradiction|exact IH].
Qed.
Lemma afind_adel_other key key' m : key' <> key -> afind key' (adel key m) = afind key' m.
Proof.
  intros Hne. unfold adel. induction m as [|[k q] r IH]; cbn; [reflexivity|].
  destruct (Z.eqb_spec k key) as [->|Hk]; cbn.
  - destruct (Z.eqb_spec key key'); [congruence|exact IH].
  - rewrite IH. reflexivity.
Qed.
Lemma ahas_adel key key' m : ahas key' (adel key m) = negb (key' =? key) && ahas key' m.
Proof.
  unfold ahas. destruct (Z.eqb_spec key' key) as [->|Hne]; cbn.
  - rewrite afind_adel_same. reflexivity.
  - rewrite afind_adel_other by exact Hne. reflexivity.
Qed.
Lemma ahas_aput key q key' m : ahas key' (aput key q m) = (key' =? key) || ahas key' m.
Proof.
  unfold ahas, aput. cbn [afind]. rewrite (Z.eqb_sym key key').
  destruct (Z.eqb_spec key' key) as [->|Hne]; cbn; [reflexivity|].
  rewrite afind_adel_other by exact Hne. reflexivity.
Qed.
Lemma ahas_true key m : ahas key m = true <-> exists p, In (key, p) m.
Proof.
  unfold ahas. destruct (afind key m) as [p|] eqn:E; split; intros H; try discriminate; auto.
  - exists p. apply afind_In. exact E.
  - destruct H as [p Hp]. exfalso. eapply afind_None; eauto.
Qed.

(* ====================================================================== *)
(* the promise heap                                                        *)
(* ====================================================================== *)
Lemma set_value_spec q v h h' : set_value q v h = Some h' ->
  exists k key, nth_error h q = Some (Cell k key Unset) /\ nth_error h' q = Some (Cell k key (SetV v)) /\
    length h' = length h /\ (forall q', q' <> q -> nth_error h' q' = nth_error h q').
Proof.
  unfold set_value. destruct (nth_error h q) as [[k key st]|] eqn:E; [|discriminate].
  destruct st; try discriminate. intros H; inversion H; subst. exists k, key.
  split; [reflexivity|]. split; [eapply nth_upd_eq; eauto|]. split; [apply upd_length|].
  intros q' Hne. apply nth_upd_ne. auto.
Qed.
Lemma set_value_ok q v h k key : nth_error h q = Some (Cell k key Unset) -> exists h', set_value q v h = Some h'.
Proof. intros H. unfold set_value. rewrite H. eexists; reflexivity. Qed.

Lemma drop_spec q h :
  (exists k key, nth_error h q = Some (Cell k key Unset) /\ nth_error (drop q h) q = Some (Cell k key Broken) /\
     length (drop q h) = length h /\ (forall q', q' <> q -> nth_error (drop q h) q' = nth_error h q')) \/
  ((forall k key, nth_error h q <> Some (Cell k key Unset)) /\ drop q h = h).
Proof.
  unfold drop. destruct (nth_error h q) as [[k key st]|] eqn:E.
  - destruct st.
    + left. exists k, key. split; [reflexivity|]. split; [eapply nth_upd_eq; eauto|]. split; [apply upd_length|].
      intros q' Hne. apply nth_upd_ne. auto.
    + right. split; [intros; congruence|reflexivity].
    + right. split; [intros; congruence|reflexivity].
  - right. split; [intros; congruence|reflexivity].
Qed.
Lemma drop_id q h : (forall k key, nth_error h q <> Some (Cell k key Unset)) -> drop q h = h.
Proof. intros H. destruct (drop_spec q h) as [[k [key [E _]]]|[_ E]]; [exfalso; eapply H; eauto|exact E]. Qed.

(* how the heap evolves: cells are never removed, the (ghost) kind and key of a cell never
   change, and a state other than Unset is final *)
Definition hle (h h' : heap_t) : Prop :=
  forall q k key st, nth_error h q = Some (Cell k key st) ->
    exists st', nth_error h' q = Some (Cell k key st') /\ (st <> Unset -> st' = st).
Lemma hle_refl h : hle h h.
Proof. intros q k key st H. exists st. auto. Qed.
Lemma hle_trans a b c : hle a b -> hle b c -> hle a c.
Proof.
  intros H1 H2 q k key st H. destruct (H1 _ _ _ _ H) as [st1 [E1 F1]]. destruct (H2 _ _ _ _ E1) as [st2 [E2 F2]].
  exists st2. split; [exact E2|]. intros Hne. specialize (F1 Hne). subst st1. auto.
Qed.
Lemma hle_set_value q v h h' : set_value q v h = Some h' -> hle h h'.
Proof.
  intros H. destruct (set_value_spec _ _ _ _ H) as [k [key [E [E' [_ Ho]]]]].
  intros q' k' key' st Hq. destruct (Nat.eq_dec q' q) as [->|Hne].
  - rewrite E in Hq. inversion Hq; subst. exists (SetV v). split; [exact E'|congruence].
  - exists st. rewrite Ho by exact Hne. auto.
Qed.
Lemma hle_drop q h : hle h (drop q h).
Proof.
  destruct (drop_spec q h) as [[k [key [E [E' [_ Ho]]]]]|[_ E]]; [|rewrite E; apply hle_refl].
  intros q' k' key' st Hq. destruct (Nat.eq_dec q' q) as [->|Hne].
  - rewrite E in Hq. inversion Hq; subst. exists Broken. split; [exact E'|congruence].
  - exists st. rewrite Ho by exact Hne. auto.
Qed.
Lemma hle_drop_opt o h : hle h (drop_opt o h).
Proof. destruct o; cbn; [apply hle_drop|apply hle_refl]. Qed.
Lemma hle_app h x : hle h (h ++ x).
Proof.
  intros q k key st H. exists st. split; auto. rewrite nth_error_app1; auto. apply nth_error_Some. congruence.
Qed.
Lemma hle_length h h' : hle h h' -> (length h <= length h')%nat.
Proof.
  intros H. destruct (le_lt_dec (length h) (length h')) as [|Hlt]; [assumption|exfalso].
  destruct (nth_error h (length h')) as [[k key st]|] eqn:E; [|apply nth_error_None in E; lia].
  destruct (H _ _ _ _ E) as [st' [E' _]]. assert (length h' < length h')%nat; [|lia].
  apply nth_error_Some. congruence.
Qed.

(* ====================================================================== *)
(* the container invariant (sequential: one critical section = one apply)  *)
(* ====================================================================== *)
Lemma setf_eq f k m : setf f k m k = m.
Proof. unfold setf. rewrite Bool.eqb_reflx. reflexivity. Qed.
Lemma setf_ne f k m k' : k' <> k -> setf f k m k' = f k'.
Proof. intros H. unfold setf. destruct (Bool.eqb_spec k' k); [contradiction|reflexivity]. Qed.

Record CInv (c : cont) : Prop := {
  (* the pending maps hold exactly the unsatisfied promises, each under the key it was requested for *)
  C_pend : forall k key q, In (key, q) (pend c k) -> nth_error (heap c) q = Some (Cell k key Unset);
  C_unset : forall q k key, nth_error (heap c) q = Some (Cell k key Unset) -> In (key, q) (pend c k);
  (* the used maps hold only satisfied promises *)
  C_used : forall k key q, In (key, q) (used c k) -> exists v, nth_error (heap c) q = Some (Cell k key (SetV v));
  C_pnd : forall k, NoDup (keys (pend c k));
  C_und : forall k, NoDup (keys (used c k));
  (* a promise is broken only by a later request of the same key *)
  C_broken : forall q k key, nth_error (heap c) q = Some (Cell k key Broken) ->
             exists q' st, (q < q')%nat /\ nth_error (heap c) q' = Some (Cell k key st)
}.

Lemma CInv_init : CInv cont0.
Proof.
  constructor; cbn; intros; try contradiction; try constructor.
  all: destruct q; discriminate.
Qed.

(* dropping the promise a used map holds under some key does nothing: it is satisfied *)
Lemma drop_used_id c k key h : CInv c -> hle (heap c) h -> drop_opt (afind key (used c k)) h = h.
Proof.
  intros HI Hle. destruct (afind key (used c k)) as [q0|] eqn:Hf; cbn; [|reflexivity].
  destruct (C_used _ HI _ _ _ (afind_In _ _ _ Hf)) as [v Hv].
  destruct (Hle _ _ _ _ Hv) as [st' [E F]]. rewrite F in E by discriminate.
  apply drop_id. intros k0 key0. rewrite E. discriminate.
Qed.

(* ---------- getFuture ---------- *)
Lemma get_heap c k key : CInv c ->
  let h2 := drop_opt (afind key (pend c k)) (heap c ++ [Cell k key Unset]) in
  (forall q x, nth_error h2 q = Some x ->
     (q = length (heap c) /\ x = Cell k key Unset) \/
     (afind key (pend c k) = Some q /\ x = Cell k key Broken) \/
     (afind key (pend c k) <> Some q /\ nth_error (heap c) q = Some x)) /\
  nth_error h2 (length (heap c)) = Some (Cell k key Unset) /\
  (forall q x, nth_error (heap c) q = Some x -> afind key (pend c k) <> Some q -> nth_error h2 q = Some x) /\
  (forall q, afind key (pend c k) = Some q -> (q < length (heap c))%nat /\ nth_error h2 q = Some (Cell k key Broken)).
Proof.
  intros HI. set (p := length (heap c)). set (h1 := heap c ++ [Cell k key Unset]).
  assert (Hold : forall q x, nth_error (heap c) q = Some x -> nth_error h1 q = Some x).
  { intros q x H. unfold h1. rewrite nth_error_app1; auto. apply nth_error_Some. congruence. }
  assert (Hnew : nth_error h1 p = Some (Cell k key Unset)).
  { unfold h1, p. rewrite nth_error_app2 by lia. rewrite Nat.sub_diag. reflexivity. }
  assert (Hinv : forall q x, nth_error h1 q = Some x ->
             (q = p /\ x = Cell k key Unset) \/ ((q < p)%nat /\ nth_error (heap c) q = Some x)).
  { intros q x H. unfold h1 in H. destruct (lt_dec q p) as [Hlt|Hge].
    - right. rewrite nth_error_app1 in H by exact Hlt. auto.
    - left. rewrite nth_error_app2 in H by (unfold p in *; lia).
      destruct (q - length (heap c))%nat as [|n] eqn:E; cbn in H.
      + inversion H. split; auto. unfold p in *. lia.
      + destruct n; discriminate. }
  destruct (afind key (pend c k)) as [q0|] eqn:Hf; cbn [drop_opt].
  - pose proof (C_pend _ HI _ _ _ (afind_In _ _ _ Hf)) as Hq0.
    assert (Hq0p : (q0 < p)%nat) by (apply nth_error_Some; congruence).
    destruct (drop_spec q0 h1) as [[k0 [key0 [E [E' [_ Ho]]]]]|[Hno _]]; [|exfalso; eapply Hno; eauto].
    rewrite (Hold _ _ Hq0) in E. inversion E; subst k0 key0. clear E.
    refine (conj _ (conj _ (conj _ _))).
    + intros q x H. destruct (Nat.eq_dec q q0) as [->|Hne].
      * right; left. rewrite E' in H. inversion H. auto.
      * rewrite Ho in H by exact Hne. destruct (Hinv _ _ H) as [[-> ->]|[Hlt Hx]]; [left; auto|].
        right; right. split; [congruence|exact Hx].
    + rewrite Ho by lia. exact Hnew.
    + intros q x Hx Hne. rewrite Ho by congruence. apply Hold. exact Hx.
    + intros q Hq. inversion Hq; subst. auto.
  - refine (conj _ (conj _ (conj _ _))).
    + intros q x H. destruct (Hinv _ _ H) as [[-> ->]|[Hlt Hx]]; [left; auto|].
      right; right. split; [discriminate|exact Hx].
    + exact Hnew.
    + intros q x Hx _. apply Hold. exact Hx.
    + intros q Hq. discriminate.
Qed.

Lemma CInv_get c k key : CInv c ->
  CInv (Cont (setf (pend c) k (aput key (length (heap c)) (pend c k))) (used c)
             (drop_opt (afind key (pend c k)) (heap c ++ [Cell k key Unset]))).
Proof.
  intros HI. destruct (get_heap c k key HI) as [Hinv [Hnew [Hold Hbrk]]].
  destruct HI as [HP HUS HU HPN HUN HB].
  constructor; cbn [pend used heap].
  - (* C_pend *)
    intros k' key' q' Hin. destruct (Bool.eqb_spec k' k) as [->|Hk].
    + rewrite setf_eq in Hin. apply In_aput in Hin. destruct Hin as [[-> ->]|[Hne Hin]]; [exact Hnew|].
      apply Hold; [apply HP; exact Hin|]. intros Hf. apply afind_In in Hf.
      pose proof (HP _ _ _ Hf) as E1. pose proof (HP _ _ _ Hin) as E2. congruence.
    + rewrite setf_ne in Hin by exact Hk. apply Hold; [apply HP; exact Hin|].
      intros Hf. apply afind_In in Hf.
      pose proof (HP _ _ _ Hf) as E1. pose proof (HP _ _ _ Hin) as E2. congruence.
  - (* C_unset *)
    intros q' k' key' H. destruct (Hinv _ _ H) as [[-> E]|[[_ E]|[Hnf Hx]]]; try discriminate.
    + inversion E; subst. rewrite setf_eq. apply In_aput. left; auto.
    + pose proof (HUS _ _ _ Hx) as Hin. destruct (Bool.eqb_spec k' k) as [->|Hk].
      * rewrite setf_eq. apply In_aput. right. split; [|exact Hin].
        intros ->. apply Hnf. apply In_afind; auto.
      * rewrite setf_ne by exact Hk. exact Hin.
  - (* C_used *)
    intros k' key' q' Hin. destruct (HU _ _ _ Hin) as [v Hv]. exists v. apply Hold; [exact Hv|].
    intros Hf. apply afind_In in Hf. pose proof (HP _ _ _ Hf) as E1. congruence.
  - intros k'. destruct (Bool.eqb_spec k' k) as [->|Hk].
    + rewrite setf_eq. apply aput_nodup. apply HPN.
    + rewrite setf_ne by exact Hk. apply HPN.
  - exact HUN.
  - (* C_broken *)
    intros q' k' key' H. destruct (Hinv _ _ H) as [[-> E]|[[Hf E]|[Hnf Hx]]]; try discriminate.
    + inversion E; subst. destruct (Hbrk _ Hf) as [Hlt _]. exists (length (heap c)), Unset. split; [exact Hlt|exact Hnew].
    + destruct (HB _ _ _ Hx) as [q'' [st [Hlt Hq'']]].
      assert (Hdec : afind key (pend c k) = Some q'' \/ afind key (pend c k) <> Some q'').
      { destruct (afind key (pend c k)) as [z|]; [|right; discriminate].
        destruct (Nat.eq_dec z q'') as [->|]; [left; reflexivity|right; congruence]. }
      destruct Hdec as [Heq|Hneq].
      * pose proof (HP _ _ _ (afind_In _ _ _ Heq)) as E1. rewrite E1 in Hq''. inversion Hq''; subst.
        exists q'', Broken. split; [exact Hlt|]. apply (Hbrk _ Heq).
      * exists q'', st. split; [exact Hlt|]. apply Hold; [exact Hq''|congruence].
Qed.

(* ---------- setDelayedValue ---------- *)
Lemma set_no_fault c k key q v : CInv c -> afind key (pend c k) = Some q -> exists h1, set_value q v (heap c) = Some h1.
Proof. intros HI Hf. eapply set_value_ok. apply (C_pend _ HI). apply afind_In. exact Hf. Qed.

Lemma CInv_set c k key v q h1 : CInv c -> afind key (pend c k) = Some q -> set_value q v (heap c) = Some h1 ->
  CInv (Cont (setf (pend c) k (adel key (pend c k))) (setf (used c) k (aput key q (used c k)))
             (drop_opt (afind key (used c k)) h1)).
Proof.
  intros HI Hf Hs. rewrite (drop_used_id c k key h1 HI (hle_set_value _ _ _ _ Hs)).
  destruct (set_value_spec _ _ _ _ Hs) as [k0 [key0 [E [E' [_ Ho]]]]].
  pose proof (C_pend _ HI _ _ _ (afind_In _ _ _ Hf)) as Hq. rewrite Hq in E. inversion E; subst k0 key0. clear E.
  destruct HI as [HP HUS HU HPN HUN HB].
  constructor; cbn [pend used heap].
  - intros k' key' q' Hin. destruct (Bool.eqb_spec k' k) as [->|Hk].
    + rewrite setf_eq in Hin. apply In_adel in Hin. destruct Hin as [Hin Hne].
      pose proof (HP _ _ _ Hin) as E2. rewrite Ho; [exact E2|]. intros ->. congruence.
    + rewrite setf_ne in Hin by exact Hk. pose proof (HP _ _ _ Hin) as E2. rewrite Ho; [exact E2|]. intros ->. congruence.
  - intros q' k' key' H. assert (q' <> q) as Hne by (intros ->; congruence).
    rewrite Ho in H by exact Hne. pose proof (HUS _ _ _ H) as Hin.
    destruct (Bool.eqb_spec k' k) as [->|Hk].
    + rewrite setf_eq. apply In_adel. split; [exact Hin|]. intros ->. apply Hne.
      pose proof (In_afind _ _ _ (HPN k) Hin). congruence.
    + rewrite setf_ne by exact Hk. exact Hin.
  - intros k' key' q' Hin.
    assert (Hold : In (key', q') (used c k') -> exists v0, nth_error h1 q' = Some (Cell k' key' (SetV v0))).
    { intros Hin0. destruct (HU _ _ _ Hin0) as [v0 Hv0]. exists v0. rewrite Ho; [exact Hv0|]. intros ->. congruence. }
    destruct (Bool.eqb_spec k' k) as [->|Hk].
    + rewrite setf_eq in Hin. apply In_aput in Hin. destruct Hin as [[-> ->]|[_ Hin]]; [exists v; exact E'|auto].
    + rewrite setf_ne in Hin by exact Hk. auto.
  - intros k'. destruct (Bool.eqb_spec k' k) as [->|Hk].
    + rewrite setf_eq. apply adel_nodup. apply HPN.
    + rewrite setf_ne by exact Hk. apply HPN.
  - intros k'. destruct (Bool.eqb_spec k' k) as [->|Hk].
    + rewrite setf_eq. apply aput_nodup. apply HUN.
    + rewrite setf_ne by exact Hk. apply HUN.
  - intros q' k' key' H. assert (q' <> q) as Hne by (intros ->; congruence).
    rewrite Ho in H by exact Hne. destruct (HB _ _ _ H) as [q'' [st [Hlt Hq'']]].
    destruct (Nat.eq_dec q'' q) as [->|Hne2].
    + rewrite Hq in Hq''. inversion Hq''; subst. exists q, (SetV v). auto.
    + exists q'', st. rewrite Ho by exact Hne2. auto.
Qed.

(* ---------- finishedWithValue ---------- *)
Lemma CInv_finished c k key : CInv c ->
  CInv (Cont (pend c) (setf (used c) k (adel key (used c k))) (drop_opt (afind key (used c k)) (heap c))).
Proof.
  intros HI. rewrite (drop_used_id c k key (heap c) HI (hle_refl _)).
  destruct HI as [HP HUS HU HPN HUN HB].
  constructor; cbn [pend used heap]; auto.
  - intros k' key' q' Hin. destruct (Bool.eqb_spec k' k) as [->|Hk].
    + rewrite setf_eq in Hin. apply In_adel in Hin. apply HU. tauto.
    + rewrite setf_ne in Hin by exact Hk. auto.
  - intros k'. destruct (Bool.eqb_spec k' k) as [->|Hk].
    + rewrite setf_eq. apply adel_nodup. apply HUN.
    + rewrite setf_ne by exact Hk. apply HUN.
Qed.

(* ---------- fulfillAllPromises: the loop over one pending map ---------- *)
Lemma ahas_cons key q r key' : ahas key' ((key, q) :: r) = (key' =? key) || ahas key' r.
Proof. unfold ahas. cbn. rewrite (Z.eqb_sym key key'). destruct (key' =? key); reflexivity. Qed.

Lemma fulfill_spec k v : forall es u h,
  (forall key q, In (key, q) es -> nth_error h q = Some (Cell k key Unset)) ->
  NoDup (keys es) ->
  (forall key q, In (key, q) u -> exists v', nth_error h q = Some (Cell k key (SetV v'))) ->
  NoDup (keys u) ->
  exists u' h', fulfill es v u h = Some (u', h') /\
    length h' = length h /\
    (forall key q, In (key, q) es -> nth_error h' q = Some (Cell k key (SetV v))) /\
    (forall q, (forall key, ~ In (key, q) es) -> nth_error h' q = nth_error h q) /\
    (forall key q, In (key, q) u' -> exists v', nth_error h' q = Some (Cell k key (SetV v'))) /\
    NoDup (keys u') /\
    (forall key, ahas key u' = ahas key es || ahas key u).
Proof.
  induction es as [|[key q] r IH]; intros u h Hes Hnd Hu Hndu.
  - exists u, h. cbn. repeat split; auto; intros; contradiction.
  - inversion Hnd as [|? ? Hk Hr]; subst.
    pose proof (Hes key q (or_introl eq_refl)) as Hq.
    destruct (set_value_ok q v h k key Hq) as [h1 Hs]. cbn [fulfill]. rewrite Hs.
    destruct (set_value_spec _ _ _ _ Hs) as [k0 [key0 [E [E' [Hlen Ho]]]]].
    rewrite Hq in E. inversion E; subst k0 key0. clear E.
    assert (Hdrop : drop_opt (afind key u) h1 = h1).
    { destruct (afind key u) as [q0|] eqn:Hf; cbn; [|reflexivity].
      destruct (Hu _ _ (afind_In _ _ _ Hf)) as [v0 Hv0]. apply drop_id. intros k1 key1.
      rewrite Ho by (intros ->; congruence). rewrite Hv0. discriminate. }
    rewrite Hdrop.
    assert (Hnotin : forall key', ~ In (key', q) r).
    { intros key' Hin. pose proof (Hes key' q (or_intror Hin)) as E2. rewrite Hq in E2. inversion E2; subst.
      apply Hk. eapply In_keys; eauto. }
    destruct (IH (aput key q u) h1) as [u' [h' [Hf [Hlen' [Hset [Hoth [Hu' [Hndu' Hhas]]]]]]]].
    + intros key' q' Hin. rewrite Ho; [apply Hes; right; exact Hin|]. intros ->. eapply Hnotin; eauto.
    + exact Hr.
    + intros key' q' Hin. apply In_aput in Hin. destruct Hin as [[-> ->]|[_ Hin]]; [exists v; exact E'|].
      destruct (Hu _ _ Hin) as [v0 Hv0]. exists v0. rewrite Ho; [exact Hv0|]. intros ->. congruence.
    + apply aput_nodup. exact Hndu.
    + exists u', h'. split; [exact Hf|]. split; [lia|].
      split; [|split; [|split; [exact Hu'|split; [exact Hndu'|]]]].
      * intros key' q' [Hin|Hin]; [|apply Hset; exact Hin].
        inversion Hin; subst. rewrite Hoth by exact Hnotin. exact E'.
      * intros q' Hq'. rewrite Hoth; [apply Ho|].
        -- intros ->. apply (Hq' key). left; reflexivity.
        -- intros key' Hin. apply (Hq' key'). right; exact Hin.
      * intros key'. rewrite Hhas, ahas_aput, ahas_cons.
        destruct (key' =? key), (ahas key' r), (ahas key' u); reflexivity.
Qed.

(* the state of a cell after "satisfy everything that is still unsatisfied with v" *)
Definition settle (v : Z) (st : pst) : pst := match st with Unset => SetV v | _ => st end.

Lemma CInv_fulfill c v : CInv c ->
  exists u0 h0 u1 h1,
    fulfill (pend c false) v (used c false) (heap c) = Some (u0, h0) /\
    fulfill (pend c true) v (used c true) h0 = Some (u1, h1) /\
    CInv (Cont (fun _ => []) (fun k => if k then u1 else u0) h1) /\
    length h1 = length (heap c) /\
    (forall q k key st, nth_error (heap c) q = Some (Cell k key st) ->
       nth_error h1 q = Some (Cell k key (settle v st))) /\
    (forall key, ahas key u0 = ahas key (pend c false) || ahas key (used c false)) /\
    (forall key, ahas key u1 = ahas key (pend c true) || ahas key (used c true)).
Proof.
  intros HI. pose proof HI as [HP HUS HU HPN HUN HB].
  destruct (fulfill_spec false v (pend c false) (used c false) (heap c))
    as [u0 [h0 [Hf0 [Hl0 [Hs0 [Ho0 [Hu0 [Hn0 Hh0]]]]]]]]; auto.
  assert (Hkeep : forall key q, In (key, q) (pend c true) \/ In (key, q) (used c true) ->
            nth_error h0 q = nth_error (heap c) q).
  { intros key q Hin. apply Ho0. intros key' Hin'. pose proof (HP _ _ _ Hin') as E1.
    destruct Hin as [Hin|Hin]; [pose proof (HP _ _ _ Hin); congruence|destruct (HU _ _ _ Hin); congruence]. }
  destruct (fulfill_spec true v (pend c true) (used c true) h0)
    as [u1 [h1 [Hf1 [Hl1 [Hs1 [Ho1 [Hu1 [Hn1 Hh1]]]]]]]]; auto.
  { intros key q Hin. rewrite (Hkeep key q) by auto. auto. }
  { intros key q Hin. rewrite (Hkeep key q) by auto. auto. }
  assert (Hcell : forall q k key st, nth_error (heap c) q = Some (Cell k key st) ->
            nth_error h1 q = Some (Cell k key (settle v st))).
  { intros q k key st Hq. destruct st; cbn [settle].
    - pose proof (HUS _ _ _ Hq) as Hin. destruct k.
      + apply Hs1. exact Hin.
      + rewrite Ho1; [apply Hs0; exact Hin|]. intros key' Hin'.
        pose proof (Hs0 _ _ Hin). rewrite (Hkeep key' q) in H by auto. pose proof (HP _ _ _ Hin'). congruence.
    - rewrite Ho1, Ho0; [exact Hq| |].
      + intros key' Hin'. pose proof (HP _ _ _ Hin'). congruence.
      + intros key' Hin'. pose proof (HP _ _ _ Hin'). congruence.
    - rewrite Ho1, Ho0; [exact Hq| |].
      + intros key' Hin'. pose proof (HP _ _ _ Hin'). congruence.
      + intros key' Hin'. pose proof (HP _ _ _ Hin'). congruence. }
  assert (Hback : forall q k key st', nth_error h1 q = Some (Cell k key st') ->
            exists st, nth_error (heap c) q = Some (Cell k key st) /\ st' = settle v st).
  { intros q k key st' Hq. destruct (nth_error (heap c) q) as [[k0 key0 st0]|] eqn:E.
    - rewrite (Hcell _ _ _ _ E) in Hq. inversion Hq; subst. eauto.
    - apply nth_error_None in E. assert (q < length h1)%nat by (apply nth_error_Some; congruence). lia. }
  exists u0, h0, u1, h1. split; [exact Hf0|]. split; [exact Hf1|]. split; [|split; [lia|split; [exact Hcell|auto]]].
  constructor; cbn [pend used heap].
  - intros; contradiction.
  - intros q k key Hq. destruct (Hback _ _ _ _ Hq) as [st [_ E]]. destruct st; discriminate.
  - intros k key q Hin. destruct k; [apply Hu1; exact Hin|].
    destruct (Hu0 _ _ Hin) as [v0 Hv0]. exists v0. rewrite Ho1; [exact Hv0|].
    intros key' Hin'. pose proof (HP _ _ _ Hin'). rewrite (Hkeep key' q) in Hv0 by auto. congruence.
  - intros; constructor.
  - intros k; destruct k; assumption.
  - intros q k key Hq. destruct (Hback _ _ _ _ Hq) as [st [Hst E]]. destruct st; try discriminate.
    destruct (HB _ _ _ Hst) as [q' [st' [Hlt Hq']]]. exists q', (settle v st'). split; [exact Hlt|]. apply Hcell. exact Hq'.
Qed.
