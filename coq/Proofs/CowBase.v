(* Invariants and lemmas for the cow_guarded model (C04; cow parts of C14, C20). *)
From Coq Require Import List Arith ZArith Lia Bool.
Import ListNotations.
From GV Require Import Sched Events CowModel.
Local Open Scope Z_scope.

Ltac step_cases Hs :=
  unfold tstep in Hs; cbn [at_ prog] in Hs;
  repeat match type of Hs with
         | context [match ?x with _ => _ end] => destruct x eqn:?; cbn in Hs
         | context [if ?x then _ else _] => destruct x eqn:?; cbn in Hs
         end;
  try discriminate; inversion Hs; subst; clear Hs;
  repeat match goal with
         | H : _ = (_, _) |- _ =>
             unfold touch, rd_begin, rd_end, wr_begin, wr_end, srd_begin, swr_begin in H; cbv beta iota zeta in H; inversion H; subst; clear H
         end.
Ltac splits := repeat match goal with |- _ /\ _ => split end.
Ltac destr_and := repeat match goal with H : _ /\ _ |- _ => destruct H end.

(* ---------- field projections of the helpers that cbn leaves folded ---------- *)
Lemma decref_omtx g v : omtx (decref g v) = omtx g. Proof. unfold decref. destruct (refs (heap g v)) as [|[|n]]; reflexivity. Qed.
#[export] Hint Rewrite decref_omtx : cow.
Lemma decref_imtx g v : imtx (decref g v) = imtx g. Proof. unfold decref. destruct (refs (heap g v)) as [|[|n]]; reflexivity. Qed.
#[export] Hint Rewrite decref_imtx : cow.
Lemma decref_rl g v : rl (decref g v) = rl g. Proof. unfold decref. destruct (refs (heap g v)) as [|[|n]]; reflexivity. Qed.
#[export] Hint Rewrite decref_rl : cow.
Lemma decref_cl g v : cl (decref g v) = cl g. Proof. unfold decref. destruct (refs (heap g v)) as [|[|n]]; reflexivity. Qed.
#[export] Hint Rewrite decref_cl : cow.
Lemma decref_lc g v : lc (decref g v) = lc g. Proof. unfold decref. destruct (refs (heap g v)) as [|[|n]]; reflexivity. Qed.
#[export] Hint Rewrite decref_lc : cow.
Lemma decref_rc g v : rc (decref g v) = rc g. Proof. unfold decref. destruct (refs (heap g v)) as [|[|n]]; reflexivity. Qed.
#[export] Hint Rewrite decref_rc : cow.
Lemma decref_cleft g v : cleft (decref g v) = cleft g. Proof. unfold decref. destruct (refs (heap g v)) as [|[|n]]; reflexivity. Qed.
#[export] Hint Rewrite decref_cleft : cow.
Lemma decref_cright g v : cright (decref g v) = cright g. Proof. unfold decref. destruct (refs (heap g v)) as [|[|n]]; reflexivity. Qed.
#[export] Hint Rewrite decref_cright : cow.
Lemma decref_next g v : next (decref g v) = next g. Proof. unfold decref. destruct (refs (heap g v)) as [|[|n]]; reflexivity. Qed.
#[export] Hint Rewrite decref_next : cow.
Lemma decref_plan g v : plan (decref g v) = plan g. Proof. unfold decref. destruct (refs (heap g v)) as [|[|n]]; reflexivity. Qed.
#[export] Hint Rewrite decref_plan : cow.
Lemma decref_calls g v : calls (decref g v) = calls g. Proof. unfold decref. destruct (refs (heap g v)) as [|[|n]]; reflexivity. Qed.
#[export] Hint Rewrite decref_calls : cow.
Lemma decref_faults g v : faults (decref g v) = faults g. Proof. unfold decref. destruct (refs (heap g v)) as [|[|n]]; reflexivity. Qed.
#[export] Hint Rewrite decref_faults : cow.
Lemma decref_created g v : created (decref g v) = created g. Proof. unfold decref. destruct (refs (heap g v)) as [|[|n]]; reflexivity. Qed.
#[export] Hint Rewrite decref_created : cow.
Lemma decref_committed g v : committed (decref g v) = committed g. Proof. unfold decref. destruct (refs (heap g v)) as [|[|n]]; reflexivity. Qed.
#[export] Hint Rewrite decref_committed : cow.
Lemma decref_ncommit g v : ncommit (decref g v) = ncommit g. Proof. unfold decref. destruct (refs (heap g v)) as [|[|n]]; reflexivity. Qed.
#[export] Hint Rewrite decref_ncommit : cow.
Lemma decref_nret g v : nret (decref g v) = nret g. Proof. unfold decref. destruct (refs (heap g v)) as [|[|n]]; reflexivity. Qed.
#[export] Hint Rewrite decref_nret : cow.
Lemma decref_applied g v : applied (decref g v) = applied g. Proof. unfold decref. destruct (refs (heap g v)) as [|[|n]]; reflexivity. Qed.
#[export] Hint Rewrite decref_applied : cow.
Lemma decref_initv g v : initv (decref g v) = initv g. Proof. unfold decref. destruct (refs (heap g v)) as [|[|n]]; reflexivity. Qed.
#[export] Hint Rewrite decref_initv : cow.
Lemma decref_gph g v : gph (decref g v) = gph g. Proof. unfold decref. destruct (refs (heap g v)) as [|[|n]]; reflexivity. Qed.
#[export] Hint Rewrite decref_gph : cow.
Lemma decref_glcl g v : glcl (decref g v) = glcl g. Proof. unfold decref. destruct (refs (heap g v)) as [|[|n]]; reflexivity. Qed.
#[export] Hint Rewrite decref_glcl : cow.
Lemma incref_omtx g v : omtx (incref g v) = omtx g. Proof. reflexivity. Qed.
#[export] Hint Rewrite incref_omtx : cow.
Lemma incref_imtx g v : imtx (incref g v) = imtx g. Proof. reflexivity. Qed.
#[export] Hint Rewrite incref_imtx : cow.
Lemma incref_rl g v : rl (incref g v) = rl g. Proof. reflexivity. Qed.
#[export] Hint Rewrite incref_rl : cow.
Lemma incref_cl g v : cl (incref g v) = cl g. Proof. reflexivity. Qed.
#[export] Hint Rewrite incref_cl : cow.
Lemma incref_lc g v : lc (incref g v) = lc g. Proof. reflexivity. Qed.
#[export] Hint Rewrite incref_lc : cow.
Lemma incref_rc g v : rc (incref g v) = rc g. Proof. reflexivity. Qed.
#[export] Hint Rewrite incref_rc : cow.
Lemma incref_cleft g v : cleft (incref g v) = cleft g. Proof. reflexivity. Qed.
#[export] Hint Rewrite incref_cleft : cow.
Lemma incref_cright g v : cright (incref g v) = cright g. Proof. reflexivity. Qed.
#[export] Hint Rewrite incref_cright : cow.
Lemma incref_next g v : next (incref g v) = next g. Proof. reflexivity. Qed.
#[export] Hint Rewrite incref_next : cow.
Lemma incref_plan g v : plan (incref g v) = plan g. Proof. reflexivity. Qed.
#[export] Hint Rewrite incref_plan : cow.
Lemma incref_calls g v : calls (incref g v) = calls g. Proof. reflexivity. Qed.
#[export] Hint Rewrite incref_calls : cow.
Lemma incref_faults g v : faults (incref g v) = faults g. Proof. reflexivity. Qed.
#[export] Hint Rewrite incref_faults : cow.
Lemma incref_created g v : created (incref g v) = created g. Proof. reflexivity. Qed.
#[export] Hint Rewrite incref_created : cow.
Lemma incref_destroyed g v : destroyed (incref g v) = destroyed g. Proof. reflexivity. Qed.
#[export] Hint Rewrite incref_destroyed : cow.
Lemma incref_races g v : races (incref g v) = races g. Proof. reflexivity. Qed.
#[export] Hint Rewrite incref_races : cow.
Lemma incref_committed g v : committed (incref g v) = committed g. Proof. reflexivity. Qed.
#[export] Hint Rewrite incref_committed : cow.
Lemma incref_ncommit g v : ncommit (incref g v) = ncommit g. Proof. reflexivity. Qed.
#[export] Hint Rewrite incref_ncommit : cow.
Lemma incref_nret g v : nret (incref g v) = nret g. Proof. reflexivity. Qed.
#[export] Hint Rewrite incref_nret : cow.
Lemma incref_applied g v : applied (incref g v) = applied g. Proof. reflexivity. Qed.
#[export] Hint Rewrite incref_applied : cow.
Lemma incref_initv g v : initv (incref g v) = initv g. Proof. reflexivity. Qed.
#[export] Hint Rewrite incref_initv : cow.
Lemma incref_gph g v : gph (incref g v) = gph g. Proof. reflexivity. Qed.
#[export] Hint Rewrite incref_gph : cow.
Lemma incref_glcl g v : glcl (incref g v) = glcl g. Proof. reflexivity. Qed.
#[export] Hint Rewrite incref_glcl : cow.
Lemma destroy_omtx g v : omtx (destroy g v) = omtx g. Proof. reflexivity. Qed.
#[export] Hint Rewrite destroy_omtx : cow.
Lemma destroy_imtx g v : imtx (destroy g v) = imtx g. Proof. reflexivity. Qed.
#[export] Hint Rewrite destroy_imtx : cow.
Lemma destroy_rl g v : rl (destroy g v) = rl g. Proof. reflexivity. Qed.
#[export] Hint Rewrite destroy_rl : cow.
Lemma destroy_cl g v : cl (destroy g v) = cl g. Proof. reflexivity. Qed.
#[export] Hint Rewrite destroy_cl : cow.
Lemma destroy_lc g v : lc (destroy g v) = lc g. Proof. reflexivity. Qed.
#[export] Hint Rewrite destroy_lc : cow.
Lemma destroy_rc g v : rc (destroy g v) = rc g. Proof. reflexivity. Qed.
#[export] Hint Rewrite destroy_rc : cow.
Lemma destroy_cleft g v : cleft (destroy g v) = cleft g. Proof. reflexivity. Qed.
#[export] Hint Rewrite destroy_cleft : cow.
Lemma destroy_cright g v : cright (destroy g v) = cright g. Proof. reflexivity. Qed.
#[export] Hint Rewrite destroy_cright : cow.
Lemma destroy_next g v : next (destroy g v) = next g. Proof. reflexivity. Qed.
#[export] Hint Rewrite destroy_next : cow.
Lemma destroy_plan g v : plan (destroy g v) = plan g. Proof. reflexivity. Qed.
#[export] Hint Rewrite destroy_plan : cow.
Lemma destroy_calls g v : calls (destroy g v) = calls g. Proof. reflexivity. Qed.
#[export] Hint Rewrite destroy_calls : cow.
Lemma destroy_faults g v : faults (destroy g v) = faults g. Proof. reflexivity. Qed.
#[export] Hint Rewrite destroy_faults : cow.
Lemma destroy_created g v : created (destroy g v) = created g. Proof. reflexivity. Qed.
#[export] Hint Rewrite destroy_created : cow.
Lemma destroy_committed g v : committed (destroy g v) = committed g. Proof. reflexivity. Qed.
#[export] Hint Rewrite destroy_committed : cow.
Lemma destroy_ncommit g v : ncommit (destroy g v) = ncommit g. Proof. reflexivity. Qed.
#[export] Hint Rewrite destroy_ncommit : cow.
Lemma destroy_nret g v : nret (destroy g v) = nret g. Proof. reflexivity. Qed.
#[export] Hint Rewrite destroy_nret : cow.
Lemma destroy_applied g v : applied (destroy g v) = applied g. Proof. reflexivity. Qed.
#[export] Hint Rewrite destroy_applied : cow.
Lemma destroy_initv g v : initv (destroy g v) = initv g. Proof. reflexivity. Qed.
#[export] Hint Rewrite destroy_initv : cow.
Lemma destroy_gph g v : gph (destroy g v) = gph g. Proof. reflexivity. Qed.
#[export] Hint Rewrite destroy_gph : cow.
Lemma destroy_glcl g v : glcl (destroy g v) = glcl g. Proof. reflexivity. Qed.
#[export] Hint Rewrite destroy_glcl : cow.
Lemma sl_assign_omtx g x v : omtx (sl_assign g x v) = omtx g. Proof. unfold sl_assign. rewrite decref_omtx. destruct x; reflexivity. Qed.
#[export] Hint Rewrite sl_assign_omtx : cow.
Lemma sl_assign_imtx g x v : imtx (sl_assign g x v) = imtx g. Proof. unfold sl_assign. rewrite decref_imtx. destruct x; reflexivity. Qed.
#[export] Hint Rewrite sl_assign_imtx : cow.
Lemma sl_assign_rl g x v : rl (sl_assign g x v) = rl g. Proof. unfold sl_assign. rewrite decref_rl. destruct x; reflexivity. Qed.
#[export] Hint Rewrite sl_assign_rl : cow.
Lemma sl_assign_cl g x v : cl (sl_assign g x v) = cl g. Proof. unfold sl_assign. rewrite decref_cl. destruct x; reflexivity. Qed.
#[export] Hint Rewrite sl_assign_cl : cow.
Lemma sl_assign_lc g x v : lc (sl_assign g x v) = lc g. Proof. unfold sl_assign. rewrite decref_lc. destruct x; reflexivity. Qed.
#[export] Hint Rewrite sl_assign_lc : cow.
Lemma sl_assign_rc g x v : rc (sl_assign g x v) = rc g. Proof. unfold sl_assign. rewrite decref_rc. destruct x; reflexivity. Qed.
#[export] Hint Rewrite sl_assign_rc : cow.
Lemma sl_assign_next g x v : next (sl_assign g x v) = next g. Proof. unfold sl_assign. rewrite decref_next. destruct x; reflexivity. Qed.
#[export] Hint Rewrite sl_assign_next : cow.
Lemma sl_assign_plan g x v : plan (sl_assign g x v) = plan g. Proof. unfold sl_assign. rewrite decref_plan. destruct x; reflexivity. Qed.
#[export] Hint Rewrite sl_assign_plan : cow.
Lemma sl_assign_calls g x v : calls (sl_assign g x v) = calls g. Proof. unfold sl_assign. rewrite decref_calls. destruct x; reflexivity. Qed.
#[export] Hint Rewrite sl_assign_calls : cow.
Lemma sl_assign_faults g x v : faults (sl_assign g x v) = faults g. Proof. unfold sl_assign. rewrite decref_faults. destruct x; reflexivity. Qed.
#[export] Hint Rewrite sl_assign_faults : cow.
Lemma sl_assign_created g x v : created (sl_assign g x v) = created g. Proof. unfold sl_assign. rewrite decref_created. destruct x; reflexivity. Qed.
#[export] Hint Rewrite sl_assign_created : cow.
Lemma sl_assign_committed g x v : committed (sl_assign g x v) = committed g. Proof. unfold sl_assign. rewrite decref_committed. destruct x; reflexivity. Qed.
#[export] Hint Rewrite sl_assign_committed : cow.
Lemma sl_assign_ncommit g x v : ncommit (sl_assign g x v) = ncommit g. Proof. unfold sl_assign. rewrite decref_ncommit. destruct x; reflexivity. Qed.
#[export] Hint Rewrite sl_assign_ncommit : cow.
Lemma sl_assign_nret g x v : nret (sl_assign g x v) = nret g. Proof. unfold sl_assign. rewrite decref_nret. destruct x; reflexivity. Qed.
#[export] Hint Rewrite sl_assign_nret : cow.
Lemma sl_assign_applied g x v : applied (sl_assign g x v) = applied g. Proof. unfold sl_assign. rewrite decref_applied. destruct x; reflexivity. Qed.
#[export] Hint Rewrite sl_assign_applied : cow.
Lemma sl_assign_initv g x v : initv (sl_assign g x v) = initv g. Proof. unfold sl_assign. rewrite decref_initv. destruct x; reflexivity. Qed.
#[export] Hint Rewrite sl_assign_initv : cow.
Lemma sl_assign_gph g x v : gph (sl_assign g x v) = gph g. Proof. unfold sl_assign. rewrite decref_gph. destruct x; reflexivity. Qed.
#[export] Hint Rewrite sl_assign_gph : cow.
Lemma sl_assign_glcl g x v : glcl (sl_assign g x v) = glcl g. Proof. unfold sl_assign. rewrite decref_glcl. destruct x; reflexivity. Qed.
#[export] Hint Rewrite sl_assign_glcl : cow.

(* ---------- the version heap under the helpers ---------- *)
Lemma fupd_eq h v x : fupd h v x v = x.
Proof. unfold fupd. rewrite Nat.eqb_refl. reflexivity. Qed.
Lemma fupd_ne h v x w : w <> v -> fupd h v x w = h w.
Proof. intros H. unfold fupd. apply Nat.eqb_neq in H. rewrite H. reflexivity. Qed.

Lemma destroy_heap g v w : heap (destroy g v) w = if Nat.eqb w v then set_freed (heap g v) else heap g w.
Proof. reflexivity. Qed.
Lemma incref_heap g v w :
  heap (incref g v) w = if Nat.eqb w v then set_refs (heap g v) (S (refs (heap g v))) else heap g w.
Proof. reflexivity. Qed.
Lemma decref_heap g v w :
  heap (decref g v) w =
  if Nat.eqb w v
  then Ver (content (heap g v)) (published (heap g v)) (Nat.pred (refs (heap g v)))
           (freed (heap g v) || Nat.eqb (refs (heap g v)) 1) (vrd (heap g v)) (vdirty (heap g v)) (vseq (heap g v))
  else heap g w.
Proof.
  unfold decref. destruct (refs (heap g v)) as [|[|n]] eqn:E; cbn; unfold fupd; destruct (Nat.eqb w v) eqn:Ew; try reflexivity.
  - cbn. rewrite orb_false_r. destruct (heap g v); reflexivity.
  - rewrite Nat.eqb_refl. cbn. rewrite orb_true_r. reflexivity.
  - cbn. rewrite orb_false_r. destruct (heap g v); reflexivity.
Qed.
Lemma decref_destroyed g v :
  destroyed (decref g v) = destroyed g + (if Nat.eqb (refs (heap g v)) 1 then 1 else 0).
Proof. unfold decref. destruct (refs (heap g v)) as [|[|n]]; cbn; lia. Qed.
Lemma decref_races g v :
  races (decref g v) = ((if Nat.eqb (refs (heap g v)) 1 then (if freed (heap g v) then 1 else 0) else 0) + races g)%nat.
Proof.
  unfold decref. destruct (refs (heap g v)) as [|[|n]]; cbn; try lia.
  unfold fupd. rewrite Nat.eqb_refl. cbn. reflexivity.
Qed.

(* ---------- local facts: handle slots, ownership of the outer mutex ---------- *)
Definition isS {A} (o : option A) : nat := match o with Some _ => 1 | None => 0 end.
Definition nwhl (w : list (option nat)) : nat := list_sum (map isS w).
Definition hasw (w : list (option nat)) : bool := (0 <? nwhl w)%nat.
(* pcs at which the thread owns the outer mutex whatever its slots hold *)
Definition opc (p : pc) : bool :=
  match p with
  | L_ldc | L_inc | L_ldr | L_call | L_rb | L_re | L_dec | X_dec | X_unlock
  | W_lock | W_ldr | W_a1b | W_a1e | W_str | W_ldc | W_d1 | W_y1 | W_stc | W_d2 | W_y2 | W_a2b | W_a2e | W_unlock | W_ounlock
  | C_unlock => true
  | _ => false
  end.
(* ... and it owns it as long as it has a live write handle *)
Definition owns (l : loc) : bool := opc (at_ l) || hasw (wsl l).
(* pcs at which the thread owns the inner mutex *)
Definition ipc (p : pc) : bool :=
  match p with
  | W_ldr | W_a1b | W_a1e | W_str | W_ldc | W_d1 | W_y1 | W_stc | W_d2 | W_y2 | W_a2b | W_a2e | W_unlock => true
  | _ => false
  end.
Definition hpc (p : pc) : bool :=
  match p with HW_wb | HW_we | HI_rb | HI_re | HI_wb | HI_we | HR_rb | HR_re => true | _ => false end.

Definition lok (l : loc) : Prop :=
  (nwhl (wsl l) <= 1)%nat /\ (opc (at_ l) = true -> nwhl (wsl l) = O) /\
  match at_ l with
  | HW_wb | HW_we | HI_rb | HI_re | HI_wb | HI_we | HR_rb | HR_re =>
      nth_error (wsl l) (sl l) = Some (Some (cv l))
  | L_lock | L_ldc | L_inc | L_ldr | L_call | L_rb | L_re | L_dec => nth_error (wsl l) (sl l) = Some None
  | S_ldc | S_inc | S_ldr | S_rb | S_re => nth_error (ssl l) (sl l) = Some None
  | S_dec | SR_rb | SR_re => exists sn, nth_error (ssl l) (sl l) = Some (Some sn) /\ sv sn = cv l
  | _ => True
  end.

#[global] Arguments list_sum : simpl never.
#[global] Arguments nwhl : simpl never.
#[global] Arguments hasw : simpl never.

Lemma nwhl_upd w i (o o' : option nat) : nth_error w i = Some o ->
  (nwhl (upd w i o') + isS o = nwhl w + isS o')%nat.
Proof. apply (sum_upd isS). Qed.
Lemma hasw_true w : hasw w = true <-> (0 < nwhl w)%nat.
Proof. unfold hasw. apply Nat.ltb_lt. Qed.
Lemma hasw_false w : hasw w = false <-> nwhl w = O.
Proof. unfold hasw. rewrite Nat.ltb_ge. lia. Qed.

Ltac upd_facts :=
  repeat match goal with
  | H : nth_error ?w ?i = Some ?o |- context [upd ?w ?i ?o'] =>
      lazymatch goal with
      | _ : (nwhl (upd w i o') + isS o = _)%nat |- _ => fail
      | _ => pose proof (nwhl_upd w i o o' H)
      end
  end.
Ltac nat0 n Ho :=
  let E0 := fresh "E0" in let E1 := fresh "E1" in
  destruct (Nat.eq_dec n 0) as [E0|E0];
  [|assert (0 < n)%nat as E1 by lia; try (specialize (Ho E1); try discriminate)].

Lemma nth_upd_other {A} (w : list A) a b x y : a <> b -> nth_error w a = Some y -> nth_error (upd w b x) a = Some y.
Proof. intros H E. rewrite nth_upd_ne; auto. Qed.

Lemma local_step t c g l g' l' es :
  tstep t c g l = Some (g', l', es) -> lok l -> (owns l = true -> omtx g = Some t) ->
  lok l' /\
  (owns l' = true -> omtx g' = Some t) /\
  (owns l' = false -> owns l = true -> omtx g' = None) /\
  (owns l' = owns l -> omtx g' = omtx g) /\
  (owns l = false -> owns l' = true -> omtx g = None).
Proof.
  intros Hs (Hn1 & Hn0 & Hk) Ho. destruct l as [pr p ws ss xs s rcn rsd v lr lc tm ed ba nd].
  destruct p; step_cases Hs.
  all: unfold lok, owns in *.
  all: cbn in *.
  all: try (splits; solve [auto | discriminate | congruence | eauto ]).
  all: try match type of Hk with ex _ => destruct Hk as [h0 [Hk Hk2]]; rewrite Hk in *; cbn in * end.
  all: try match goal with
           | Ha : nth_error ?w ?a = Some (Some ?h), Hb : nth_error ?w ?b = Some None |- context [upd (upd ?w ?b ?x) ?a _] =>
               assert (a <> b) as Hab by (intros ->; congruence);
               pose proof (nth_upd_other w a b x _ Hab Ha)
           end.
  all: autorewrite with cow.
  all: upd_facts; rewrite ?hasw_true, ?hasw_false in *; cbn [isS] in *.
  all: try (nat0 (nwhl ws) Ho).
  all: try (assert (hasw ws = false) as Ehw by (apply hasw_false; lia); rewrite ?Ehw).
  all: try (rewrite (nth_upd_eq _ _ _ _ Hk)).
  all: try (splits; intros; solve [auto | discriminate | congruence | eauto | lia | exfalso; lia | apply Ho; lia ]).
Qed.

(* ---------- the inner left-right protocol (technique of LRProofs.v) ---------- *)
Definition oth (g : glob) : lrcopy := cp g (negb (rl g)).
Definition vis_ok (g : glob) : Prop :=
  cvid (cp g (rl g)) = committed g /\ wopen (cp g (rl g)) = false /\ xwr (cp g (rl g)) = false.
Definition idle_ok (g : glob) : Prop :=
  gph g = PA /\ cvid (oth g) = committed g /\ wopen (oth g) = false /\ xwr (oth g) = false.

(* what the holder of the inner mutex knows at each pc *)
Definition wok (g : glob) (l : loc) : Prop :=
  let com := committed g in let o := oth g in
  match at_ l with
  | W_ldr => gph g = PA /\ cvid o = com /\ wopen o = false /\ xwr o = false
  | W_a1b => lrl l = rl g /\ gph g = PA /\ cvid o = com /\ wopen o = true /\ xwr o = false
  | W_a1e => lrl l = rl g /\ gph g = PA /\ cvid o = com /\ wopen o = true /\ xwr o = true
  | W_str => lrl l = rl g /\ gph g = PA /\ cvid o = cv l /\ wopen o = true /\ xwr o = false
  | W_ldc => lrl l = negb (rl g) /\ gph g = PC1 /\ com = cv l /\ wopen o = false /\ xwr o = false
  | W_d1 | W_y1 => lrl l = negb (rl g) /\ gph g = PC1 /\ com = cv l /\ wopen o = false /\ cl g = lcl l /\ xwr o = false
  | W_stc =>
      lrl l = negb (rl g) /\ gph g = PC2 /\ com = cv l /\ wopen o = false /\ cl g = lcl l /\ glcl g = lcl l /\ xwr o = false
  | W_d2 | W_y2 =>
      lrl l = negb (rl g) /\ gph g = PC2 /\ com = cv l /\ wopen o = false /\ cl g = negb (lcl l) /\ glcl g = lcl l /\
      xwr o = false
  | W_a2b => lrl l = negb (rl g) /\ gph g = PA /\ com = cv l /\ wopen o = true /\ xwr o = false
  | W_a2e => lrl l = negb (rl g) /\ gph g = PA /\ com = cv l /\ wopen o = true /\ xwr o = true
  | W_unlock => lrl l = negb (rl g) /\ gph g = PA /\ com = cv l /\ cvid o = cv l /\ wopen o = true /\ xwr o = false
  | _ => True
  end.

(* pcs inside a reader window on copy [rside] (the inner shared handle is held) *)
Definition rwpc (p : pc) : bool :=
  match p with L_call | L_rb | L_re | L_dec | X_dec | S_rb | S_re | S_dec => true | _ => false end.
(* pcs at which the thread is registered in counter [rcnt] *)
Definition rgpc (p : pc) : bool :=
  match p with L_ldr | S_ldr => true | _ => rwpc p end.
Definition hok (g : glob) (l : loc) : Prop :=
  match gph g with PA => rside l = rl g | PC1 => True | PC2 => rside l = rl g \/ rcnt l = glcl g end.
Definition reg (k : bool) (l : loc) : nat := if rgpc (at_ l) && Bool.eqb (rcnt l) k then 1 else 0.
Definition rdo (x : bool) (l : loc) : nat := if rwpc (at_ l) && Bool.eqb (rside l) x then 1 else 0.

Ltac bools :=
  repeat (match goal with
          | H : context [if ?b then _ else _] |- _ => destruct b eqn:?
          | |- context [if ?b then _ else _] => destruct b eqn:?
          | H : context [negb ?b] |- _ => is_var b; destruct b
          | |- context [negb ?b] => is_var b; destruct b
          end; cbn in *; subst; try discriminate).
Ltac usephase :=
  repeat match goal with
         | E : gph ?g = _, H : context [match gph ?g with _ => _ end] |- _ => rewrite E in H
         | E : gph ?g = _ |- context [match gph ?g with _ => _ end] => rewrite E
         end; cbn in *.
Ltac close := solve [ exact I | congruence | left; congruence | right; congruence | exfalso; congruence | lia ].

Lemma sl_assign_cleft g x v :
  cleft (sl_assign g x v) = if x then LC v (wopen (cleft g)) (nrd (cleft g)) (xrd (cleft g)) false else cleft g.
Proof. unfold sl_assign. rewrite decref_cleft. destruct x; reflexivity. Qed.
Lemma sl_assign_cright g x v :
  cright (sl_assign g x v) = if x then cright g else LC v (wopen (cright g)) (nrd (cright g)) (xrd (cright g)) false.
Proof. unfold sl_assign. rewrite decref_cright. destruct x; reflexivity. Qed.
#[export] Hint Rewrite sl_assign_cleft sl_assign_cright : cow.

Ltac prep Hw :=
  unfold vis_ok, idle_ok, wok, hok, oth, cp, ctr, rd_open, rd_close, wr_open, wr_close, srd_end in *; cbn in *;
  autorewrite with cow in *; cbn in *;
  try (specialize (Hw eq_refl)); destr_and; subst.

Lemma vis_step t c g l g' l' es :
  tstep t c g l = Some (g', l', es) -> (ipc (at_ l) = true -> wok g l) -> vis_ok g -> vis_ok g'.
Proof.
  intros Hs Hw Hv. destruct l as [pr p ws ss xs s rcn rsd v lr lc tm ed ba nd].
  destruct p; step_cases Hs; try exact Hv; prep Hw.
  all: try (bools; splits; congruence).
Qed.

Lemma wok_step t c g l g' l' es :
  tstep t c g l = Some (g', l', es) -> (ipc (at_ l) = true -> wok g l) ->
  (imtx g = None -> idle_ok g) -> vis_ok g -> ipc (at_ l') = true -> wok g' l'.
Proof.
  intros Hs Hw Hi Hv Hh. destruct l as [pr p ws ss xs s rcn rsd v lr lc tm ed ba nd].
  destruct p; step_cases Hs; cbn in Hh; try discriminate; prep Hw.
  all: try (specialize (Hi eq_refl)); destr_and.
  all: try (bools; splits; close).
Qed.

Lemma idle_step t c g l g' l' es :
  tstep t c g l = Some (g', l', es) -> (ipc (at_ l) = true -> wok g l) ->
  (ipc (at_ l) = true -> imtx g = Some t) ->
  (imtx g = None -> idle_ok g) -> imtx g' = None -> idle_ok g'.
Proof.
  intros Hs Hw Hm Hi Hn. destruct l as [pr p ws ss xs s rcn rsd v lr lc tm ed ba nd].
  destruct p; step_cases Hs; cbn in Hn, Hm; autorewrite with cow in Hn; try discriminate;
    try (specialize (Hm eq_refl); congruence); prep Hw.
  all: try (specialize (Hi Hn)); destr_and.
  all: try (bools; splits; close).
Qed.

(* a thread inside a reader window keeps its guarantee under every step of every thread *)
Lemma hok_step t c g l g' l' es (r : loc) :
  tstep t c g l = Some (g', l', es) -> (ipc (at_ l) = true -> wok g l) -> vis_ok g ->
  hok g r -> (forall k, ctr g k = 0 -> rcnt r <> k) -> hok g' r.
Proof.
  intros Hs Hw Hv Hh Hz. destruct l as [pr p ws ss xs s rcn rsd v lr lc tm ed ba nd].
  destruct p; step_cases Hs; try exact Hh; prep Hw; usephase.
  all: try (bools; splits; close).
  all: match goal with H : (_ =? 0) = true |- _ => apply Z.eqb_eq in H; rename H into Hc end.
  all: pose proof (Hz _ Hc) as Hne; splits; try assumption.
  - right. destruct (rcnt r), (cl g); cbn in *; congruence.
  - destruct Hh as [Hh|Hh]; congruence.
Qed.

(* a thread that does not hold the inner mutex changes nothing the writer or a reader window depends on *)
Definition same_w (g g' : glob) : Prop :=
  rl g' = rl g /\ cl g' = cl g /\ gph g' = gph g /\ glcl g' = glcl g /\ committed g' = committed g /\
  forall x, cvid (cp g' x) = cvid (cp g x) /\ wopen (cp g' x) = wopen (cp g x) /\ xwr (cp g' x) = xwr (cp g x).

Lemma nonholder_same t c g l g' l' es :
  tstep t c g l = Some (g', l', es) -> ipc (at_ l) = false -> same_w g g'.
Proof.
  intros Hs Hh. destruct l as [pr p ws ss xs s rcn rsd v lr lc tm ed ba nd].
  destruct p; step_cases Hs; cbn in Hh; try discriminate; unfold same_w, cp, rd_open, rd_close, srd_end, cp; cbn;
    autorewrite with cow; splits; try reflexivity.
  all: intros x; destruct x; bools; auto.
Qed.

Lemma wok_same g g' l : same_w g g' -> wok g l -> wok g' l.
Proof.
  intros (E1 & E2 & E3 & E4 & E5 & E6). unfold wok, oth. rewrite E1, E2, E3, E4, E5.
  destruct (E6 (negb (rl g))) as (-> & -> & ->). auto.
Qed.
Lemma hok_same g g' r : same_w g g' -> hok g r -> hok g' r.
Proof. intros (E1 & E2 & E3 & E4 & E5 & E6). unfold hok. rewrite E1, E3, E4. auto. Qed.

Lemma imtx_step t c g l g' l' es :
  tstep t c g l = Some (g', l', es) -> (ipc (at_ l) = true -> imtx g = Some t) ->
  (ipc (at_ l') = true -> imtx g' = Some t) /\
  (ipc (at_ l') = false -> ipc (at_ l) = true -> imtx g' = None) /\
  (ipc (at_ l') = ipc (at_ l) -> imtx g' = imtx g) /\
  (ipc (at_ l) = false -> ipc (at_ l') = true -> imtx g = None).
Proof.
  intros Hs Hm. destruct l as [pr p ws ss xs s rcn rsd v lr lc tm ed ba nd].
  destruct p; step_cases Hs; cbn in *; autorewrite with cow; splits; intros; try discriminate; try reflexivity; auto.
Qed.

(* the inner mutex is only ever held inside the outer one *)
Lemma ipc_opc p : ipc p = true -> opc p = true.
Proof. destruct p; cbn; congruence. Qed.

(* a new reader window: opened on the copy readers are directed to *)
Lemma hok_new t c g l g' l' es :
  tstep t c g l = Some (g', l', es) -> rwpc (at_ l) = false -> rwpc (at_ l') = true -> hok g' l'.
Proof.
  intros Hs H0 H1. destruct l as [pr p ws ss xs s rcn rsd v lr lc tm ed ba nd].
  destruct p; step_cases Hs; cbn in *; try discriminate; unfold hok, rd_open, srd_end; cbn; autorewrite with cow; cbn.
  all: destruct (gph g); auto.
Qed.
(* inside a window the thread does not change the phase, its side or its counter *)
Lemma hok_own t c g l g' l' es :
  tstep t c g l = Some (g', l', es) -> rwpc (at_ l) = true -> rwpc (at_ l') = true ->
  same_w g g' /\ rside l' = rside l /\ rcnt l' = rcnt l.
Proof.
  intros Hs H0 H1. assert (Hi : ipc (at_ l) = false) by (destruct (at_ l); cbn in *; congruence).
  split; [eapply nonholder_same; eauto|].
  destruct l as [pr p ws ss xs s rcn rsd v lr lc tm ed ba nd].
  destruct p; step_cases Hs; cbn in *; try discriminate; auto.
Qed.

(* ---------- counting: registered readers, open reader windows ---------- *)
Lemma reg_step t c g l g' l' es k :
  tstep t c g l = Some (g', l', es) ->
  ctr g' k + Z.of_nat (reg k l) = ctr g k + Z.of_nat (reg k l').
Proof.
  intros Hs. destruct l as [pr p ws ss xs s rcn rsd v lr lc tm ed ba nd].
  destruct p; step_cases Hs; unfold reg, ctr, rd_open, rd_close, wr_open, srd_end, cp in *; cbn in *; autorewrite with cow; cbn; try lia.
  all: try (destruct rcn, k; cbn; lia).
  all: try (bools; lia).
Qed.

Lemma rdo_step t c g l g' l' es x :
  tstep t c g l = Some (g', l', es) ->
  nrd (cp g' x) + Z.of_nat (rdo x l) = nrd (cp g x) + Z.of_nat (rdo x l').
Proof.
  intros Hs. destruct l as [pr p ws ss xs s rcn rsd v lr lc tm ed ba nd].
  destruct p; step_cases Hs; unfold rdo, ctr, rd_open, rd_close, wr_open, wr_close, srd_end, cp in *; cbn in *; autorewrite with cow; cbn; try lia.
  all: try (destruct x; bools; lia).
Qed.
