(* Version heap of the cow_guarded model: reference counts, global clauses, owner knowledge (used by CowProofs.v). *)
From Coq Require Import List Arith ZArith Lia Bool.
Import ListNotations.
From GV Require Import Sched Events CowModel CowBase.
Local Open Scope Z_scope.

(* ---------- the version heap: reference counts ---------- *)
Definition cpc (g : glob) (v : nat) : nat :=
  ((if Nat.eqb (cvid (cleft g)) v then 1 else 0) + (if Nat.eqb (cvid (cright g)) v then 1 else 0))%nat.
Definition sw (v : nat) (o : option snap) : nat :=
  match o with Some sn => if Nat.eqb (sv sn) v then 1 else 0 | None => 0 end%nat.
Definition snc (v : nat) (l : loc) : nat := list_sum (map (sw v) (ssl l)).

Lemma sl_assign_heap g x v w : heap (sl_assign g x v) w = heap (decref (incref g v) (cvid (cp g x))) w.
Proof. unfold sl_assign, cp. rewrite !decref_heap. destruct x; reflexivity. Qed.

Ltac eqbs :=
  repeat match goal with
         | |- context [Nat.eqb ?a ?b] => destruct (Nat.eqb_spec a b); subst
         | H : context [Nat.eqb ?a ?b] |- _ => destruct (Nat.eqb_spec a b); subst
         end.
Ltac heapsimp :=
  rewrite ?sl_assign_heap, ?decref_heap, ?incref_heap, ?destroy_heap in *; unfold fupd in *; cbn in *.

Lemma sw_pos (w : list (option snap)) i sn : nth_error w i = Some (Some sn) -> (1 <= list_sum (map (sw (sv sn)) w))%nat.
Proof.
  revert i; induction w as [|a r IH]; destruct i; cbn; intros H; try discriminate.
  - inversion H; subst. unfold list_sum. cbn. rewrite Nat.eqb_refl. lia.
  - specialize (IH _ H). unfold list_sum in *. cbn. lia.
Qed.

(* global clauses about versions *)
Record hinv (g : glob) : Prop := {
  H_freed : forall v, freed (heap g v) = true -> refs (heap g v) = O;
  H_refs : forall v, (1 <= refs (heap g v))%nat -> published (heap g v) = true;
  H_pub : forall v, published (heap g v) = true -> vdirty (heap g v) = false /\ (v < next g)%nat;
  H_seq : forall v, (vseq (heap g v) <= ncommit g)%nat;
  H_com : vseq (heap g (committed g)) = ncommit g /\ (nret g <= ncommit g)%nat /\ (committed g < next g)%nat;
  H_cre : created g = Z.of_nat (next g)
}.

(* what the owner of the outer mutex knows about its private version [v]: the live write handle's
   version, or the version a release / cancel / lock() in progress works on *)
Definition is_we (p : pc) : bool := match p with HW_we | HI_we => true | _ => false end.
Definition is_re (p : pc) : Z := match p with HI_re | HR_re => 1 | _ => 0 end.
Definition pvok (g : glob) (l : loc) (v : nat) : Prop :=
  let x := heap g v in
  (v < next g)%nat /\ published x = false /\ freed x = false /\ refs x = O /\
  cbase l = committed g /\ content x = apply_edits (content (heap g (committed g))) (ced l).
Definition hvok (g : glob) (l : loc) (v : nat) : Prop :=
  let x := heap g v in
  pvok g l v /\ vdirty x = (if hpc (at_ l) then is_we (at_ l) else false) /\
  vrd x = (if hpc (at_ l) then is_re (at_ l) else 0) /\
  (hpc (at_ l) = true -> cv l = v) /\
  match at_ l with HI_wb | HI_we => tmp l = content x | _ => True end.

(* what the owner of the outer mutex knows *)
Definition after_flip (p : pc) : bool :=
  match p with W_ldc | W_d1 | W_y1 | W_stc | W_d2 | W_y2 | W_a2b | W_a2e | W_unlock | W_ounlock => true | _ => false end.
Definition ook (g : glob) (l : loc) : Prop :=
  ncommit g = (nret g + (if after_flip (at_ l) then 1 else 0))%nat /\
  (forall v, In (Some v) (wsl l) -> hvok g l v) /\
  match at_ l with
  | L_call | L_rb | L_re => cv l = committed g /\ cbase l = committed g /\ ced l = []
  | L_dec => pvok g l (cv l) /\ vdirty (heap g (cv l)) = false /\ vrd (heap g (cv l)) = 0 /\ ced l = []
  | W_lock | W_ldr | W_a1b | W_a1e =>
      let x := heap g (cv l) in
      (cv l < next g)%nat /\ published x = true /\ freed x = false /\ refs x = O /\ vdirty x = false /\
      content x = apply_edits (content (heap g (committed g))) (ced l)
  | W_str =>
      let x := heap g (cv l) in
      published x = true /\ content x = apply_edits (content (heap g (committed g))) (ced l)
  | C_unlock => let x := heap g (cv l) in (cv l < next g)%nat /\ published x = false /\ freed x = false /\ refs x = O
  | W_ounlock => committed g = cv l
  | _ => True
  end.

(* a snapshot: counted, content fixed, recent enough *)
Definition snok (g : glob) (sn : snap) : Prop :=
  content (heap g (sv sn)) = sval sn /\ (sneed sn <= vseq (heap g (sv sn)))%nat.
(* a lock_shared under way remembers how many releases had returned when it was invoked *)
Definition nok (g : glob) (l : loc) : Prop :=
  match at_ l with S_ldc | S_inc | S_ldr => (need l <= nret g)%nat | _ => True end.

Lemma In_upd {A} (l : list A) i x y : In y (upd l i x) -> y = x \/ In y l.
Proof.
  revert i; induction l as [|a r IH]; destruct i; cbn; intros H; auto.
  - destruct H; auto.
  - destruct H as [H|H]; auto. destruct (IH _ H); auto.
Qed.
Lemma nwhl_zero_noin w v : nwhl w = O -> ~ In (Some v) w.
Proof.
  unfold nwhl. induction w as [|a r IH]; cbn; intros H Hin; [contradiction|].
  unfold list_sum in *. cbn in H. destruct Hin as [->|Hin]; [cbn in H; lia|]. apply IH; auto. lia.
Qed.
Lemma nwhl_one_unique w i v v' : (nwhl w <= 1)%nat -> nth_error w i = Some (Some v) -> In (Some v') w -> v' = v.
Proof.
  unfold nwhl. revert i; induction w as [|a r IH]; destruct i; cbn; intros H E Hin; try discriminate; try contradiction.
  - inversion E; subst. unfold list_sum in H. cbn in H. destruct Hin as [Hin|Hin]; [congruence|].
    exfalso. apply (nwhl_zero_noin r v'); auto. unfold nwhl, list_sum. lia.
  - unfold list_sum in H. cbn in H. destruct Hin as [->|Hin].
    + exfalso. cbn in H. apply nth_error_In in E. apply (nwhl_zero_noin r v); auto. unfold nwhl, list_sum. lia.
    + apply (IH i); auto. unfold list_sum. lia.
Qed.
Lemma apply_edits_app x a b : apply_edits x (a ++ b) = apply_edits (apply_edits x a) b.
Proof. unfold apply_edits. apply fold_left_app. Qed.
(* reference counts are exact: copies of the inner lr_guarded + snapshot slots *)
Ltac ssl_facts v :=
  repeat match goal with
  | H : nth_error ?w ?i = Some ?o |- context [map (sw v) (upd ?w ?i ?o')] =>
      lazymatch goal with
      | _ : (list_sum (map (sw v) (upd w i o')) + sw v o = _)%nat |- _ => fail
      | _ => pose proof (sum_upd (sw v) w i o o' H)
      end
  end.
Lemma refs_step t c g l g' l' es v :
  tstep t c g l = Some (g', l', es) -> lok l ->
  (forall w, (cpc g w + snc w l <= refs (heap g w))%nat) -> refs (heap g (next g)) = O ->
  (refs (heap g' v) + cpc g v + snc v l = refs (heap g v) + cpc g' v + snc v l')%nat.
Proof.
  intros Hs (_ & _ & Hk) Hpos Hnx. destruct l as [pr p ws ss xs s rcn rsd cv0 lr lc tm ed ba nd].
  destruct p; step_cases Hs; unfold snc, cpc, rd_open, rd_close, wr_open, wr_close, srd_end, cp in *; cbn in *; autorewrite with cow; cbn.
  all: try lia.
  all: ssl_facts v; cbn [sw] in *.
  all: try match goal with H : nth_error _ _ = Some (Some ?sn) |- context [decref _ (sv ?sn)] =>
             pose proof (sw_pos _ _ _ H); pose proof (Hpos (sv sn)) end.
  all: try match goal with |- context [sl_assign ?g ?x _] =>
             pose proof (Hpos (cvid (if x then cleft g else cright g))) end.
  all: heapsimp; try (destruct (rl g)); try (destruct rsd); try (destruct lr); cbn in *; eqbs; cbn in *; try lia.
Qed.
Ltac show_pc := match goal with PC := ?x |- _ => idtac "GOAL at" x end.
Ltac old_at Hi v :=
  pose proof (H_freed _ Hi v); pose proof (H_refs _ Hi v); pose proof (H_pub _ Hi v); pose proof (H_seq _ Hi v).

Lemma hinv_same g g' :
  hinv g -> heap g' = heap g -> next g' = next g -> ncommit g' = ncommit g -> nret g' = nret g ->
  committed g' = committed g -> created g' = created g -> hinv g'.
Proof.
  intros [A B C D E F] E1 E2 E3 E4 E5 E6. constructor; rewrite ?E1, ?E2, ?E3, ?E4, ?E5, ?E6; auto.
Qed.

Lemma hinv_step t c g l g' l' es :
  tstep t c g l = Some (g', l', es) -> lok l -> hinv g ->
  (forall v, In (Some v) (wsl l) -> hvok g l v) ->
  (forall sn, In (Some sn) (ssl l) -> (1 <= refs (heap g (sv sn)))%nat) ->
  (forall x, (1 <= refs (heap g (cvid (cp g x))))%nat) ->
  ((at_ l = W_a1e \/ at_ l = W_a2e) -> freed (heap g (cv l)) = false /\ published (heap g (cv l)) = true) ->
  (at_ l = W_str -> (cv l < next g)%nat) ->
  (at_ l = C_unlock -> refs (heap g (cv l)) = O) ->
  (at_ l = W_ounlock -> (nret g < ncommit g)%nat) ->
  hinv g'.
Proof.
  intros Hs (Hn1 & Hn0 & Hk) Hi Hh Hsn Hcp Hcv Hst Hcu Hou.
  destruct l as [pr p ws ss xs s rcn rsd cv0 lr lc tm ed ba nd]. set (PC := p).
  destruct p; step_cases Hs; try exact Hi; try (apply (hinv_same g); [exact Hi|reflexivity..]); cbn in *.
  all: destruct (H_com _ Hi) as (Hc1 & Hc2 & Hc3); pose proof (H_cre _ Hi) as Hcr.
  all: constructor; unfold rd_open, rd_close, wr_open, wr_close, srd_end; cbn; autorewrite with cow; cbn;
    [intros vv Hf | intros vv Hr | intros vv Hp | intros vv | | ].
  all: try (old_at Hi vv).
  all: try (heapsimp; heapsimp; eqbs; cbn in *; solve [auto | lia | intuition (auto; lia) ]).
  all: unfold cp in *; pose proof (Hcp true); pose proof (Hcp false); cbn in *.
  all: try (destruct (Hcv (or_introl eq_refl))); try (destruct (Hcv (or_intror eq_refl))).
  all: repeat match goal with
              | H : nth_error _ _ = Some (Some ?n) |- _ =>
                  first [ pose proof (Hsn _ (nth_error_In _ _ H)) | destruct (Hh _ (nth_error_In _ _ H)) as [(? & ? & ? & ? & ? & ?) (? & ? & ? & ?)] ];
                  revert H
              end; intros.
  all: try (heapsimp; eqbs; cbn in *; try (destruct (rl g)); try (destruct lr); try (destruct rsd); cbn in *; rewrite ?orb_true_iff, ?orb_false_iff in *; solve [auto | lia | congruence | intuition (auto; try lia; try congruence) ]).
Qed.
(* a thread that does not own the outer mutex leaves alone everything its owner relies on *)
Definition frame (g g' : glob) : Prop :=
  next g' = next g /\ committed g' = committed g /\ ncommit g' = ncommit g /\ nret g' = nret g /\
  forall v, content (heap g' v) = content (heap g v) /\ published (heap g' v) = published (heap g v) /\
            (refs (heap g v) = O -> heap g' v = heap g v).

Lemma nonowner_frame t c g l g' l' es :
  tstep t c g l = Some (g', l', es) -> lok l -> owns l = false -> owns l' = false ->
  (forall sn, In (Some sn) (ssl l) -> (1 <= refs (heap g (sv sn)))%nat) ->
  (forall x, (1 <= refs (heap g (cvid (cp g x))))%nat) ->
  frame g g'.
Proof.
  intros Hs (Hn1 & Hn0 & Hk) Ho Ho' Hsn Hcp.
  destruct l as [pr p ws ss xs s rcn rsd cv0 lr lc tm ed ba nd]. set (PC := p).
  destruct p; step_cases Hs; unfold owns in *; cbn in Ho, Ho', Hk; try discriminate; unfold frame.
  all: try (splits; try reflexivity; intros vv; splits; reflexivity).
  all: try (exfalso; apply hasw_false in Ho;
            match goal with H : nth_error ?w _ = Some (Some _), H0 : nwhl ?w = O |- _ => apply nth_error_In in H; solve [eapply nwhl_zero_noin; eauto] end).
  all: cbn in *; unfold rd_open, rd_close, srd_end; cbn; autorewrite with cow; cbn.
  all: unfold cp in *; pose proof (Hcp true); pose proof (Hcp false); cbn in *.
  all: repeat match goal with
              | H : nth_error _ _ = Some (Some ?n) |- _ => pose proof (Hsn _ (nth_error_In _ _ H)); revert H
              end; intros.
  all: try match type of Hk with ex _ => destruct Hk as [sn0 [Hk Hk2]]; pose proof (Hsn _ (nth_error_In _ _ Hk)) end.
  all: try (splits; try reflexivity; intros vv; heapsimp; eqbs; cbn in *; try (destruct (rl g)); try (destruct rsd); cbn in *;
            splits; solve [auto | lia | congruence | intros; exfalso; lia]).
Qed.
Lemma hvok_frame g g' l v : frame g g' -> hinv g -> (forall x, (1 <= refs (heap g (cvid (cp g x))))%nat) -> vis_ok g ->
  hvok g l v -> hvok g' l v.
Proof.
  intros (E1 & E2 & E3 & E4 & E5) Hi Hcp Hv ((A1 & A2 & A3 & A4 & A5 & A6) & B).
  destruct (E5 v) as (_ & _ & Ev). specialize (Ev A4). destruct (E5 (committed g)) as (Ec & _).
  unfold hvok, pvok in *. rewrite E1, E2, Ev, Ec. intuition.
Qed.
Lemma ook_frame g g' l : frame g g' -> hinv g -> (forall x, (1 <= refs (heap g (cvid (cp g x))))%nat) -> vis_ok g ->
  ook g l -> ook g' l.
Proof.
  intros Hf Hi Hcp Hv (A & B & C). pose proof Hf as (E1 & E2 & E3 & E4 & E5).
  destruct (E5 (committed g)) as (Ec & _).
  unfold ook. rewrite E3, E4. splits; auto.
  - intros v Hin. eapply hvok_frame; eauto.
  - destruct (at_ l); auto; unfold pvok in *; destr_and;
      try match goal with H : refs (heap g (cv l)) = O |- _ =>
            let Ev := fresh "Ev" in destruct (E5 (cv l)) as (_ & _ & Ev); specialize (Ev H); rewrite ?Ev end;
      destruct (E5 (cv l)) as (Ev1 & Ev2 & _); rewrite ?Ev1, ?Ev2, ?E1, ?E2, ?Ec; intuition.
Qed.

Lemma In_hasw w v : In (Some v) w -> hasw w = true.
Proof.
  intros Hin. destruct (hasw w) eqn:E; [reflexivity|]. apply hasw_false in E. destruct (nwhl_zero_noin _ _ E Hin).
Qed.

(* commits and returned releases: equal, except between the flip and the return of a release *)
Definition aflip (p : pc) : nat := if after_flip p then 1%nat else O.
Lemma cnt_step t c g l g' l' es :
  tstep t c g l = Some (g', l', es) -> (owns l = true -> omtx g = Some t) ->
  (owns l = true -> ncommit g = (nret g + aflip (at_ l))%nat) -> (omtx g = None -> ncommit g = nret g) ->
  (owns l' = true -> ncommit g' = (nret g' + aflip (at_ l'))%nat) /\ (omtx g' = None -> ncommit g' = nret g').
Proof.
  intros Hs Ho Hc Hf. destruct l as [pr p ws ss xs s rcn rsd cv0 lr lc tm ed ba nd]. set (PC := p).
  destruct p; step_cases Hs; unfold owns, aflip in *; cbn in *; autorewrite with cow; cbn.
  all: try (destruct (hasw ws) eqn:Eh; cbn in * ).
  all: try match goal with H : nth_error ?w _ = Some (Some _), E : hasw ?w = false |- _ => apply nth_error_In, In_hasw in H; congruence end.
  all: try (specialize (Ho eq_refl)); try (specialize (Hc eq_refl)).
  all: try (split; intros; solve [auto | congruence | lia | rewrite Hf by congruence; lia | rewrite Hf in * by congruence; lia]).
Qed.

Lemma ook_hp_step t c g l g' l' es :
  tstep t c g l = Some (g', l', es) -> lok l -> lok l' -> hinv g -> vis_ok g ->
  (owns l = true -> ook g l) -> (ipc (at_ l) = true -> wok g l) ->
  (forall sn, In (Some sn) (ssl l) -> (1 <= refs (heap g (sv sn)))%nat) ->
  (forall x, (1 <= refs (heap g (cvid (cp g x))))%nat) ->
  owns l' = true ->
  (forall v, In (Some v) (wsl l') -> hvok g' l' v) /\
  match at_ l' with
  | L_call | L_rb | L_re => cv l' = committed g' /\ cbase l' = committed g' /\ ced l' = []
  | L_dec => pvok g' l' (cv l') /\ vdirty (heap g' (cv l')) = false /\ vrd (heap g' (cv l')) = 0 /\ ced l' = []
  | W_lock | W_ldr | W_a1b | W_a1e =>
      let x := heap g' (cv l') in
      (cv l' < next g')%nat /\ published x = true /\ freed x = false /\ refs x = O /\ vdirty x = false /\
      content x = apply_edits (content (heap g' (committed g'))) (ced l')
  | W_str =>
      let x := heap g' (cv l') in
      published x = true /\ content x = apply_edits (content (heap g' (committed g'))) (ced l')
  | C_unlock => let x := heap g' (cv l') in (cv l' < next g')%nat /\ published x = false /\ freed x = false /\ refs x = O
  | W_ounlock => committed g' = cv l'
  | _ => True
  end.
Proof.
  intros Hs (Hn1 & Hn0 & Hk) (Hn1' & Hn0' & Hk') Hi (Hv1 & Hv2) Hok Hw Hsn Hcp Ho'.
  assert (Hpc : published (heap g (committed g)) = true /\ (committed g < next g)%nat).
  { rewrite <- Hv1. split; [apply (H_refs _ Hi), Hcp|]. rewrite Hv1. apply (H_com _ Hi). }
  destruct Hpc as [Hpc Hlt]. pose proof (Hcp true) as Hcp1. pose proof (Hcp false) as Hcp0.
  destruct l as [pr p ws ss xs s rcn rsd cv0 lr lc tm ed ba nd]. set (PC := p).
  destruct p; step_cases Hs; unfold owns in *; cbn in Ho', Hk, Hk', Hn0, Hn0', Hok, Hw; try discriminate.
  all: try (specialize (Hn0 eq_refl)); try (specialize (Hn0' eq_refl)); try (specialize (Hw eq_refl)).
  all: try (specialize (Hok eq_refl)).
  all: split; [intros vv Hin; cbn in Hin; try (exfalso; eapply nwhl_zero_noin; [exact Hn0'|exact Hin]); try (exfalso; eapply nwhl_zero_noin; [exact Hn0|exact Hin]) | cbn; try exact I].
  (* the handles of the new local state *)
  all: try match type of Hin with
           | In _ (upd (upd _ _ (Some _)) _ None) =>
               apply In_upd in Hin; destruct Hin as [Hin|Hin]; [discriminate|];
               apply In_upd in Hin; destruct Hin as [Hin|Hin];
               [inversion Hin; subst; clear Hin;
                match goal with H : nth_error _ _ = Some (Some _) |- _ => pose proof (nth_error_In _ _ H) as Hin end|]
           | In _ (upd _ _ (Some _)) =>
               apply In_upd in Hin; destruct Hin as [Hin|Hin];
               [inversion Hin; subst; clear Hin|exfalso; eapply nwhl_zero_noin; [exact Hn0|exact Hin]]
           end.
  all: try match type of Hin with
           | In _ _ =>
               pose proof (In_hasw _ _ Hin) as Eh; try (rewrite Eh in Hok; specialize (Hok eq_refl));
               destruct Hok as (A & B & C); destruct (B _ Hin) as ((P1 & P2 & P3 & P4 & P5 & P6) & D1 & D2 & D3 & D4);
               cbn in D1, D2, D3, D4, P5, P6; try (specialize (D3 eq_refl); subst);
               try match goal with H : nth_error _ _ = Some (Some ?h) |- _ =>
                     assert (vv = h) by (eapply nwhl_one_unique; eauto); subst end
           end.
  all: try match goal with H : nth_error ?w _ = Some (Some ?h), Hok : hasw ?w = true -> _ |- _ =>
             specialize (Hok (In_hasw _ _ (nth_error_In _ _ H))); destruct Hok as (A & B & C);
             destruct (B _ (nth_error_In _ _ H)) as ((P1 & P2 & P3 & P4 & P5 & P6) & D1 & D2 & D3 & D4); cbn in D1, D2, D3, D4, P5, P6
           end.
  all: try (destruct Hok as (A & B & C); cbn in C; unfold pvok in C; destr_and).
  all: repeat match goal with
              | H : nth_error _ _ = Some (Some ?sn) |- _ => pose proof (Hsn _ (nth_error_In _ _ H)); revert H
              end; intros.
  all: try match type of Hk with ex _ => destruct Hk as [sn0 [Hk Hk2]]; pose proof (Hsn _ (nth_error_In _ _ Hk)) end.
  all: unfold hvok, pvok, rd_open, rd_close, wr_open, wr_close, srd_end, wok, oth, cp in *; cbn in *; autorewrite with cow; cbn.
  all: try (heapsimp; eqbs; cbn in *; try (destruct (rl g)); try (destruct lr); try (destruct rsd); cbn in *;
            rewrite ?fold_left_app; cbn [apply_edits fold_left apply_edit] in *;
            splits; solve [auto | lia | congruence | discriminate | exfalso; lia | intuition (auto; try lia; try congruence)]).
Qed.

Lemma ook_step t c g l g' l' es :
  tstep t c g l = Some (g', l', es) -> lok l -> lok l' -> hinv g -> vis_ok g ->
  (owns l = true -> omtx g = Some t) ->
  (owns l = true -> ook g l) -> (omtx g = None -> ncommit g = nret g) -> (ipc (at_ l) = true -> wok g l) ->
  (forall sn, In (Some sn) (ssl l) -> (1 <= refs (heap g (sv sn)))%nat) ->
  (forall x, (1 <= refs (heap g (cvid (cp g x))))%nat) ->
  (owns l' = true -> ook g' l') /\ (omtx g' = None -> ncommit g' = nret g').
Proof.
  intros Hs Hl Hl' Hi Hv Ho Hok Hf Hw Hsn Hcp.
  destruct (cnt_step _ _ _ _ _ _ _ Hs Ho) as [C1 C2]; auto.
  { intros E. apply (Hok E). }
  split; [|exact C2]. intros Ho'.
  destruct (ook_hp_step _ _ _ _ _ _ _ Hs Hl Hl' Hi Hv Hok Hw Hsn Hcp Ho') as [A B].
  unfold ook. split; [apply C1; exact Ho'|]. split; assumption.
Qed.
(* published versions are immutable; commit positions only grow *)
Lemma pub_stable t c g l g' l' es v :
  tstep t c g l = Some (g', l', es) -> hinv g ->
  (is_we (at_ l) = true -> published (heap g (cv l)) = false) ->
  published (heap g v) = true ->
  content (heap g' v) = content (heap g v) /\ (vseq (heap g v) <= vseq (heap g' v))%nat /\ published (heap g' v) = true.
Proof.
  intros Hs Hi Hwe Hp. destruct (H_pub _ Hi v Hp) as [_ Hlt]. pose proof (H_seq _ Hi v) as Hsq.
  destruct l as [pr p ws ss xs s rcn rsd cv0 lr lc tm ed ba nd]. set (PC := p).
  destruct p; step_cases Hs; cbn in Hwe; try (specialize (Hwe eq_refl)); auto.
  all: unfold rd_open, rd_close, wr_open, wr_close, srd_end; cbn; autorewrite with cow; cbn.
  all: try (heapsimp; eqbs; cbn in *; splits; solve [auto | lia | congruence]).
Qed.

Lemma nret_mono t c g l g' l' es : tstep t c g l = Some (g', l', es) -> (nret g <= nret g')%nat.
Proof.
  intros Hs. destruct l as [pr p ws ss xs s rcn rsd cv0 lr lc tm ed ba nd].
  destruct p; step_cases Hs; unfold rd_open, rd_close, wr_open, wr_close, srd_end; cbn; autorewrite with cow; cbn; lia.
Qed.

Lemma nok_step t c g l g' l' es : tstep t c g l = Some (g', l', es) -> nok g l -> nok g' l'.
Proof.
  intros Hs Hn. pose proof (nret_mono _ _ _ _ _ _ _ Hs) as Hm. revert Hm.
  destruct l as [pr p ws ss xs s rcn rsd cv0 lr lc tm ed ba nd].
  destruct p; step_cases Hs; unfold nok, rd_open, rd_close, wr_close in *; cbn in *; autorewrite with cow; cbn; intros; try lia; auto.
Qed.
