(* Linearizability of SearchableObjectHolder in the sense of Herlihy & Wing, by instantiating
   Common/Lin.v (linearization points imply linearizability) with the ghost log of the model. *)
From Coq Require Import List Arith ZArith Lia Bool.
Import ListNotations.
From GV Require Import Sched Events SOHModel SOHProofs.
From GV Require Lin.
Local Open Scope Z_scope.

(* operations of the history: a holder method with the pointer argument it was called with;
   results: Some r = returned r, None = the predicate's exception left the method *)
Definition hop := (op * ptr)%type.
Definition hret := option Z.
Notation hevT := (Lin.hev hop hret).
Notation HInv := (Lin.Inv hop hret).
Notation HLin := (Lin.Lin hop hret).
Notation HRes := (Lin.Res hop hret).
Notation oprecT := (Lin.oprec hop hret).

(* the method a thread is executing (None: in client code) *)
Definition pend_of (l : loc) : option hop :=
  match at_ l with
  | Idle => None
  | SLock so => Some (OS so, harg l)
  | PLock po => Some (OP po, null_ptr)
  | Call po _ => Some (OP po, null_ptr)
  | XUnlock po => Some (OP po, null_ptr)
  | Unlock o a _ => Some (o, a)
  | Win o a _ _ _ => Some (o, a)
  end.
(* history events of one step of thread t from l to l':
   the K_INVOKE step of a holder method is its invocation; the step that releases the mutex appends the
   entry to the ghost log (linearization point) and emits K_RET r / K_CATCH (response), in this order;
   Drop / ReadObj (and AddFrom on an empty slot) are client code and emit nothing; AddFrom n s ty on a
   non-empty slot is the invocation of addObject(n, that pointer[, ty]) *)
Definition hevs (t : nat) (l l' : loc) : list hevT :=
  match at_ l with
  | Idle => match pend_of l' with Some oa => [HInv t oa] | None => [] end
  | Unlock _ _ r => [HLin t; HRes t (Some r)]
  | XUnlock _ => [HLin t; HRes t None]
  | _ => []
  end.
Fixpoint hist_from (s : sysS) (sched : list (nat * nat)) : list hevT :=
  match sched with
  | [] => []
  | (t, c) :: rest =>
    match nth_error (thr s) t with
    | None => hist_from s rest
    | Some l =>
      match tstep t c (gl s) l with
      | None => hist_from s rest
      | Some (g', l', _) => hevs t l l' ++ hist_from (Sys g' (upd (thr s) t l')) rest
      end
    end
  end.
Definition hist_of (th : list Z) (progs : list (list op)) (sched : list (nat * nat)) : list hevT :=
  hist_from (init th progs) sched.
(* the sequential specification: the method run alone *)
Definition happly (th : list Z) (s : mstate) (oa : hop) : mstate * hret := apply_op th (fst oa) (snd oa) s.

Lemma pend_step t c g l g' l' es : tstep t c g l = Some (g', l', es) ->
  match at_ l with
  | Idle => log g' = log g
  | Unlock o a r => pend_of l' = None /\ log g' = log g ++ [Entry t o a (Some r)]
  | XUnlock o => pend_of l' = None /\ log g' = log g ++ [Entry t (OP o) null_ptr None]
  | _ => pend_of l' = pend_of l /\ log g' = log g
  end.
Proof.
  intros Hs. destruct l as [pr p sl hd].
  step_cases Hs; cbn [at_ log]; unfold pend_of; cbn [at_]; auto.
Qed.

(* ---------- the scanner of Lin.v follows the model ---------- *)
Definition rec_view (a : oprecT) : nat * hop * option hret :=
  (Lin.o_thr _ _ a, Lin.o_op _ _ a, option_map snd (Lin.o_res _ _ a)).
Definition ent_view (e : entry) : nat * hop * option hret := (e_tid e, (e_op e, e_arg e), Some (e_ret e)).

Record J (g : glob) (ls : list loc) (st : nat -> Lin.status hop) (acc : list oprecT) : Prop := {
  J_st : forall u, match pend_of (lof ls u) with
                   | None => st u = Lin.Idle hop
                   | Some oa => exists i, st u = Lin.Pending hop oa i
                   end;
  J_acc : map rec_view acc = rev (map ent_view (log g))
}.

Lemma legal_transfer th : forall (L : list oprecT) lg s,
  map rec_view L = map ent_view lg -> legal th s lg -> Lin.legal hop hret mstate (happly th) s L.
Proof.
  induction L as [|a L IH]; intros [|e lg] s E Hl; cbn in E; try discriminate; [exact I|].
  unfold rec_view at 1 in E. unfold ent_view at 1 in E. injection E as Et Eo Er E2.
  change (legal th s (e :: lg)) with
    (snd (apply_op th (e_op e) (e_arg e) s) = e_ret e /\ legal th (fst (apply_op th (e_op e) (e_arg e) s)) lg) in Hl.
  destruct Hl as [Hr Hl]. cbn [Lin.legal]. unfold happly at 1. rewrite Eo. cbn [fst snd].
  destruct (apply_op th (e_op e) (e_arg e) s) as [s' r] eqn:Ea. cbn [fst snd] in *.
  split; [|apply (IH lg s' E2 Hl)].
  destruct (Lin.o_res hop hret a) as [[p r']|]; cbn in Er; [|discriminate]. congruence.
Qed.

Lemma scan_follows th : forall sched (s : sysS) n st acc,
  Inv (gl s) (thr s) -> throws (gl s) = th -> J (gl s) (thr s) st acc ->
  exists L, Lin.scan_from hop hret n (hist_from s sched) st acc = Some L /\
            Lin.legal hop hret mstate (happly th) st0 L.
Proof.
  induction sched as [|[t c] rest IH]; intros s n st acc HI Hth HJ.
  - cbn. eexists; split; [reflexivity|].
    apply (legal_transfer th (rev acc) (log (gl s)) st0).
    + rewrite map_rev, (J_acc _ _ _ _ HJ), rev_involutive. reflexivity.
    + rewrite <- Hth. apply (I_legal _ _ HI).
  - cbn [hist_from]. destruct (nth_error (thr s) t) as [l|] eqn:Hl; [|apply IH; auto].
    destruct (tstep t c (gl s) l) as [[[g' l'] es]|] eqn:Hs; [|apply IH; auto].
    pose proof (Inv_step _ _ _ _ _ _ _ _ HI Hl Hs) as HI'.
    destruct (step_basic _ _ _ _ _ _ _ _ HI Hl Hs) as [_ [_ [_ [_ [_ Hthr]]]]].
    pose proof (pend_step _ _ _ _ _ _ _ Hs) as HP.
    pose proof (J_st _ _ _ _ HJ t) as Jt. rewrite (lof_at _ _ _ Hl) in Jt.
    assert (Hoth : forall (st' : nat -> Lin.status hop) u, u <> t ->
              match pend_of (lof (upd (thr s) t l') u) with
              | None => Lin.supd hop st t (st' t) u = Lin.Idle hop
              | Some oa => exists i, Lin.supd hop st t (st' t) u = Lin.Pending hop oa i
              end).
    { intros st' u Hne. rewrite (lof_upd _ _ _ _ _ Hl). unfold Lin.supd.
      destruct (Nat.eqb_spec u t); [contradiction|]. apply (J_st _ _ _ _ HJ u). }
    unfold hevs. unfold pend_of in Jt.
    destruct (at_ l) eqn:Eat.
    + (* invocation, or a client-side operation *)
      destruct (pend_of l') as [oa|] eqn:Epl.
      * cbn [app Lin.scan_from]. rewrite Jt.
        apply (IH (Sys g' (upd (thr s) t l')) (S n) (Lin.supd hop st t (Lin.Pending hop oa n)) acc); cbn [gl thr]; auto; [congruence|].
        constructor; [|cbn [gl]; rewrite HP; apply (J_acc _ _ _ _ HJ)].
        intros u. destruct (Nat.eq_dec u t) as [->|Hne].
        -- rewrite (lof_upd _ _ _ _ _ Hl), Nat.eqb_refl, Epl. unfold Lin.supd. rewrite Nat.eqb_refl. eauto.
        -- apply (Hoth (fun _ => Lin.Pending hop oa n) u Hne).
      * cbn [app].
        apply (IH (Sys g' (upd (thr s) t l')) n st acc); cbn [gl thr]; auto; [congruence|].
        constructor; [|cbn [gl]; rewrite HP; apply (J_acc _ _ _ _ HJ)].
        intros u. rewrite (lof_upd _ _ _ _ _ Hl). destruct (Nat.eqb_spec u t) as [->|Hne].
        -- rewrite Epl. exact Jt.
        -- apply (J_st _ _ _ _ HJ u).
    + (* SLock *) destruct HP as [HP1 HP2]. cbn [app].
      apply (IH (Sys g' (upd (thr s) t l')) n st acc); cbn [gl thr]; auto; [congruence|].
      constructor; [|cbn [gl]; rewrite HP2; apply (J_acc _ _ _ _ HJ)].
      intros u. rewrite (lof_upd _ _ _ _ _ Hl). destruct (Nat.eqb_spec u t) as [->|Hne]; [|apply (J_st _ _ _ _ HJ u)].
      rewrite HP1. unfold pend_of. rewrite Eat. exact Jt.
    + (* PLock *) destruct HP as [HP1 HP2]. cbn [app].
      apply (IH (Sys g' (upd (thr s) t l')) n st acc); cbn [gl thr]; auto; [congruence|].
      constructor; [|cbn [gl]; rewrite HP2; apply (J_acc _ _ _ _ HJ)].
      intros u. rewrite (lof_upd _ _ _ _ _ Hl). destruct (Nat.eqb_spec u t) as [->|Hne]; [|apply (J_st _ _ _ _ HJ u)].
      rewrite HP1. unfold pend_of. rewrite Eat. exact Jt.
    + (* Call *) destruct HP as [HP1 HP2]. cbn [app].
      apply (IH (Sys g' (upd (thr s) t l')) n st acc); cbn [gl thr]; auto; [congruence|].
      constructor; [|cbn [gl]; rewrite HP2; apply (J_acc _ _ _ _ HJ)].
      intros u. rewrite (lof_upd _ _ _ _ _ Hl). destruct (Nat.eqb_spec u t) as [->|Hne]; [|apply (J_st _ _ _ _ HJ u)].
      rewrite HP1. unfold pend_of. rewrite Eat. exact Jt.
    + (* Unlock: linearization point and response *)
      destruct HP as [HP1 HP2]. destruct Jt as [i Jt].
      cbn [app Lin.scan_from]. rewrite Jt. unfold Lin.supd at 1. rewrite Nat.eqb_refl.
      cbn [Lin.answer Lin.o_thr Lin.o_res]. rewrite Nat.eqb_refl. cbn [andb].
      apply IH; cbn [gl thr]; auto; [congruence|].
      constructor.
      * intros u. destruct (Nat.eq_dec u t) as [->|Hne].
        -- rewrite (lof_upd _ _ _ _ _ Hl), Nat.eqb_refl, HP1. unfold Lin.supd. rewrite !Nat.eqb_refl. reflexivity.
        -- rewrite (lof_upd _ _ _ _ _ Hl). unfold Lin.supd. destruct (Nat.eqb_spec u t); [contradiction|].
           apply (J_st _ _ _ _ HJ u).
      * cbn [gl]. rewrite HP2, map_app, rev_app_distr. cbn [map rev app]. rewrite <- (J_acc _ _ _ _ HJ). reflexivity.
    + (* Win *) destruct HP as [HP1 HP2]. cbn [app].
      apply (IH (Sys g' (upd (thr s) t l')) n st acc); cbn [gl thr]; auto; [congruence|].
      constructor; [|cbn [gl]; rewrite HP2; apply (J_acc _ _ _ _ HJ)].
      intros u. rewrite (lof_upd _ _ _ _ _ Hl). destruct (Nat.eqb_spec u t) as [->|Hne]; [|apply (J_st _ _ _ _ HJ u)].
      rewrite HP1. unfold pend_of. rewrite Eat. exact Jt.
    + (* XUnlock: linearization point and exceptional response *)
      destruct HP as [HP1 HP2]. destruct Jt as [i Jt].
      cbn [app Lin.scan_from]. rewrite Jt. unfold Lin.supd at 1. rewrite Nat.eqb_refl.
      cbn [Lin.answer Lin.o_thr Lin.o_res]. rewrite Nat.eqb_refl. cbn [andb].
      apply IH; cbn [gl thr]; auto; [congruence|].
      constructor.
      * intros u. destruct (Nat.eq_dec u t) as [->|Hne].
        -- rewrite (lof_upd _ _ _ _ _ Hl), Nat.eqb_refl, HP1. unfold Lin.supd. rewrite !Nat.eqb_refl. reflexivity.
        -- rewrite (lof_upd _ _ _ _ _ Hl). unfold Lin.supd. destruct (Nat.eqb_spec u t); [contradiction|].
           apply (J_st _ _ _ _ HJ u).
      * cbn [gl]. rewrite HP2, map_app, rev_app_distr. cbn [map rev app]. rewrite <- (J_acc _ _ _ _ HJ). reflexivity.
Qed.

Lemma J_init th progs : J (gl (init th progs)) (thr (init th progs)) (fun _ => Lin.Idle hop) [].
Proof.
  constructor; [|reflexivity]. intros u. unfold init; cbn [thr]. unfold lof.
  destruct (nth_error (map (fun p => Loc p Idle (None, None) None) progs) u) as [l|] eqn:E.
  - rewrite (nth_error_nth _ _ _ E). rewrite nth_error_map in E. destruct (nth_error progs u); inversion E; subst. reflexivity.
  - rewrite nth_overflow by (apply nth_error_None; exact E). reflexivity.
Qed.

(* every history of the holder is well formed (per thread: Inv, Lin, Res, Inv, ...) and the operations in
   the order of their linearization points are a legal run of the sequential map with the returned values *)
Lemma hist_wf th progs sched :
  exists L, Lin.scan hop hret (hist_of th progs sched) = Some L /\
            Lin.legal hop hret mstate (happly th) st0 L.
Proof.
  unfold Lin.scan, hist_of. apply (scan_follows th sched (init th progs) 0%nat (fun _ => Lin.Idle hop) []).
  - apply Inv_init.
  - reflexivity.
  - apply J_init.
Qed.

(* Herlihy-Wing linearizability of every concurrent history, for every throw plan, programs, schedule *)
Lemma linearizable_hw th progs sched :
  Lin.linearizable hop hret mstate (happly th) st0 (hist_of th progs sched).
Proof.
  destruct (hist_wf th progs sched) as [L [Hs Hl]].
  exact (Lin.lin_points_linearizable hop hret mstate (happly th) st0 _ L Hs Hl).
Qed.

(* the history events are the observable ones: an Inv is emitted exactly by a step that emits K_INVOKE of the
   operation at the head of the program (a holder method, or the client's addObject of a held pointer), Lin;Res exactly by the step that emits K_UNLOCK with K_RET r / K_CATCH and appends the log *)
Lemma hevs_observable t c g l g' l' es : tstep t c g l = Some (g', l', es) ->
  match hevs t l l' with
  | [] => log g' = log g
  | [Lin.Inv _ _ u oa] => u = t /\ log g' = log g /\ exists o0 r0, prog l = o0 :: r0 /\ In (E K_INVOKE 0 (opcode o0)) es
  | [Lin.Lin _ _ u; Lin.Res _ _ v r] =>
    u = t /\ v = t /\ In (E K_UNLOCK O_MTX 0) es /\
    match r with
    | Some z => In (E K_RET 0 z) es /\ exists o a, log g' = log g ++ [Entry t o a (Some z)]
    | None => In (E K_CATCH 0 0) es /\ exists o a, log g' = log g ++ [Entry t o a None]
    end
  | _ => False
  end.
Proof.
  intros Hs. destruct l as [pr p sl hd].
  step_cases Hs; unfold hevs, pend_of; cbn [at_ log fst prog]; auto 6.
  all: try (repeat split; auto; do 2 eexists; split; [reflexivity|left; reflexivity]; fail).
  all: try (repeat split; cbn; auto; eauto; fail).
  all: repeat split; auto; try (left; reflexivity); try (right; apply in_or_app; right; left; reflexivity); eauto.
Qed.
