(* C07 / C03 for lr_guarded in the Views semantics (Common/Views.v): happens-before race
   freedom of the left-right protocol from its atomics alone.

   The interleaving proof (Proofs/LRProofs.v) shows that no two conflicting payload
   accesses are ever simultaneously enabled; the C++11 reading of that fact rests on
   the cited SC-for-DRF theorem.  This file removes the citation for lr_guarded: the
   protocol is re-run with per-thread vector clocks, message histories for
   m_readingLeft, m_countingLeft, m_leftReadCount, m_rightReadCount, a lock clock for
   m_writeMutex and FastTrack epochs on the two copies, and it is proved that with the
   source's memory orders (all seq_cst; pinned by LRModel's events, lemma
   all_atomics_seq_cst, and compared with the code on every run) every payload access
   happens-after the conflicting earlier ones:
     - a reader's read of a copy happens-after the last write to it, through the
       m_readingLeft store it read from (and the mutex between writers);
     - a writer's write to a copy happens-after every earlier read of it, through the
       reader's counter decrement, whose release sequence the writer's drain load acquires.

   Model: any number of threads (N bounds the thread ids; no bound in the theorems), actions
   in any interleaving; per-thread control state makes only protocol-conforming action
   sequences [ok] (lock_shared = load countingLeft; counter++; load readingLeft - then any number
   of reads of the chosen copy - counter--;  modify = lock; load readingLeft; write first copy;
   store readingLeft; load countingLeft; drain loads; store countingLeft; drain loads; write
   second copy; unlock).  The memory order of every atomic SITE is a parameter ([orders]).

   MODELLING ASSUMPTION (reading of [atomics.order] p3-p7 used here).  release / acquire are
   as in Common/Views.v (a release-or-stronger store attaches the writer's clock, RMWs continue
   release sequences, an acquire-or-stronger load joins the clock of the message it reads).
   For memory_order_seq_cst we additionally need the store-load (Dekker) guarantee, which
   release/acquire does not give; it is modelled as:
       a SeqCst load reads the NEWEST message of its location when every store / RMW site
       of that location is SeqCst
   (the interleaving order is then the single total order S on the seq_cst operations of
   that location, and a seq_cst load reads the last seq_cst store preceding it in S), while a
   load weaker than SeqCst - or a SeqCst load of a location that has a weaker store - may read
   ANY coherence-allowed message ([pick true ...], the schedule's choice).  Clocks still flow
   only through reads-from and release sequences, never through S itself.  RMWs always read
   the newest message ([atomics.order] p10).  No load buffering, no consume, no fences
   (none occur in the source).

   Results (N = bound on the thread ids, arbitrary; tr = any list of actions):
     lr_hb_race_free          all-SeqCst: trace_ok N sc_orders init tr -> race (run N sc_orders init tr) = false;
     lr_hb_reads_after_write  ... the last write to a held handle's copy happens-before the holder;
     lr_hb_write_after_reads  ... in the writing phases the last write to either copy and every read of
                              the copy readers are not directed to happen-before the mutex owner;
     lr_hb_values             all-SeqCst: what a reader reads through its handle is the sequence that was
                              committed when it completed lock_shared (no stale, no torn copy);
     lr_hb_acquire_current    ... and that handle was completed on the copy holding the committed sequence;
     refutations by vm_compute (conforming traces that end with race = true):
       lr_relaxed_rl_load_refuted   reader's m_readingLeft load Relaxed
       lr_relaxed_dec_refuted       reader's counter-- Relaxed
       lr_relaxed_drain_refuted     writer's drain load Relaxed
       lr_relacq_flip_refuted       flip store Release + reader's load Acquire (Dekker failure:
                                    SeqCst is necessary, release/acquire is not enough).
   Proof: two invariants over conforming traces.  InvA is the protocol invariant of LRProofs.v restated
   for this machine (mutex ownership, per-pc writer knowledge, phase-indexed handle sides, counters =
   number of registered threads, copies vs. committed sequence).  InvB adds the clocks: B_w (mutex),
   B_v (the newest m_readingLeft message releases the last write of the copy it designates), B_h,
   B_c (the newest counter message carries, through the release sequence of the RMWs, the clock of every
   decrement), B_rd / B_pa / B_pc2 (every read of a copy is by a current holder, or known to the
   owner, or covered by a decrement of a counter the owner has yet to drain - both drains are used,
   in the order of the source).
   NOTE for importers: this file re-uses short names (st, step, init, run, pc, phase, PA, lrl, fid ...)
   that also exist in LRModel / LRProofs; `Require` it without `Import` and qualify (LRViews.x). *)
From Coq Require Import List Arith ZArith Lia Bool.
Import ListNotations.
From GV Require Import Sched Events Views.

(* ---------- control state ---------- *)
Inductive vpc :=
| PIdle | PInc | PLdr | PHeld                                  (* reader *)
| WLdr | WW1 | WStr | WLdc | WD1 | WStc | WD2 | WW2 | WUnl.    (* writer (owns the mutex) *)
Definition vpc_code (p : vpc) : nat :=
  match p with
  | PIdle => 0 | PInc => 1 | PLdr => 2 | PHeld => 3 | WLdr => 4 | WW1 => 5 | WStr => 6
  | WLdc => 7 | WD1 => 8 | WStc => 9 | WD2 => 10 | WW2 => 11 | WUnl => 12
  end.
Definition vpc_eqb (p q : vpc) : bool := Nat.eqb (vpc_code p) (vpc_code q).

(* snap: ghost, the committed sequence when the handle was completed *)
Record th := Th { pc : vpc; cnt : bool; side : bool; lrl : bool; lcl : bool; fid : Z; snap : list Z }.

(* the memory order of each atomic site of lr_guarded.hpp *)
Record orders := Ord {
  o_r_ldc : mo;    (* lock_shared: if (m_countingLeft) *)
  o_r_inc : mo;    (* lock_shared: m_xReadCount++ *)
  o_r_ldr : mo;    (* lock_shared: if (m_readingLeft) *)
  o_r_dec : mo;    (* shared_deleter: m_readingCount-- *)
  o_w_ldr : mo;    (* modify: m_readingLeft.load() *)
  o_w_str : mo;    (* modify: m_readingLeft.store() *)
  o_w_ldc : mo;    (* modify: m_countingLeft.load() *)
  o_w_drain : mo;  (* modify: m_xReadCount.load() in the two drain loops *)
  o_w_stc : mo     (* modify: m_countingLeft.store() *)
}.
Definition sc_orders : orders := Ord SeqCst SeqCst SeqCst SeqCst SeqCst SeqCst SeqCst SeqCst SeqCst.

Inductive act :=
| ARLdc (t ch : nat) | ARInc (t : nat) | ARLdr (t ch : nat) | ARead (t : nat) | ARDec (t : nat)
| AWLock (t : nat) (f : Z) | AWLdr (t ch : nat) | AWWrite1 (t : nat) | AWStr (t : nat)
| AWLdc (t ch : nat) | AWD1 (t ch : nat) | AWStc (t : nat) | AWD2 (t ch : nat) | AWWrite2 (t : nat)
| AWUnlock (t : nat).

Inductive phase := PA | PC1 | PC2.

(* atomic locations *)
Definition L_RL := 0. Definition L_CL := 1. Definition L_LC := 2. Definition L_RC := 3.
Definition cloc (k : bool) : nat := if k then L_LC else L_RC.
Definition initv (l : nat) : Z := if l <? 2 then 1%Z else 0%Z.

Definition bupd {A} (f : bool -> A) (x : bool) (v : A) : bool -> A := fun y => if Bool.eqb y x then v else f y.

Record st := St {
  ths : nat -> th;
  clk : nat -> vc;
  hs : nat -> hist;               (* location -> message history *)
  seen : nat -> nat -> nat;       (* thread -> location -> last stamp read *)
  mown : option nat; mclk : vc;   (* the write mutex and the clock its unlocks leave in it *)
  fts : bool -> ft;               (* FastTrack epochs of the copies (true = m_left) *)
  vals : bool -> list Z;          (* the copies: sequence of functors applied *)
  race : bool;
  lastv : nat -> list Z;          (* what thread t's last read through its handle returned *)
  (* ghost *)
  committed : list Z; gph : phase; glcl : bool;
  dclk : nat -> bool -> vc        (* thread t's clock at its last counter-- on counter k *)
}.

Definition is_sc (m : mo) : bool := match m with SeqCst => true | _ => false end.
Definition zb (v : Z) : bool := negb (v =? 0)%Z.
Definition b2z (b : bool) : Z := if b then 1%Z else 0%Z.

(* index read by a load with order m of a location whose store sites are all SeqCst iff ssc *)
Definition lidx (m : mo) (ssc : bool) (h : hist) (c : vc) (sn ch : nat) : nat :=
  if is_sc m && ssc then 0 else pick true h c sn ch.
Definition rmw_clock (m : mo) (prev : option msg) (c : vc) : vc :=
  match prev with
  | Some p => match mrel p with Some r => if is_acq m then vjoin c r else c | None => c end
  | None => c
  end.

Section LRViews.
  Variable N : nat.
  Variable o : orders.

  Definition ssc (l : nat) : bool :=
    if l =? L_RL then is_sc (o_w_str o) else if l =? L_CL then is_sc (o_w_stc o)
    else is_sc (o_r_inc o) && is_sc (o_r_dec o).

  Definition init : st :=
    St (fun _ => Th PIdle true true true true 0%Z []) clk0 (fun _ => []) (fun _ _ => 0) None vzero
       (fun _ => ft0) (fun _ => []) false (fun _ => []) [] PA true (fun _ _ => vzero).

  Definition set_th (s : st) (t : nat) (T : th) (c : vc) : st :=
    St (fupd (ths s) t T) (fupd (clk s) t c) (hs s) (seen s) (mown s) (mclk s) (fts s) (vals s) (race s)
       (lastv s) (committed s) (gph s) (glcl s) (dclk s).

  (* a load of location l by thread t: value, and the state with t's clock / seen stamp advanced *)
  Definition load (s : st) (m : mo) (l t ch : nat) : Z * vc * (nat -> nat -> nat) :=
    let h := hs s l in let c := clk s t in
    let i := lidx m (ssc l) h c (seen s t l) ch in
    (read_val (initv l) h i, read_clock m h i c, fupd (seen s) t (fupd (seen s t) l (read_stamp h i))).
  (* an RMW adding d; the clock advances after it *)
  Definition rmw (s : st) (m : mo) (l t : nat) (d : Z) : hist * vc * (nat -> nat -> nat) :=
    let h := hs s l in let c := clk s t in let prev := nth_error h 0 in
    (rmw_msg m t c prev (read_val (initv l) h 0 + d)%Z :: h, vinc (rmw_clock m prev c) t,
     fupd (seen s) t (fupd (seen s t) l (S (length h)))).
  Definition store (s : st) (m : mo) (l t : nat) (v : Z) : hist * vc * (nat -> nat -> nat) :=
    let h := hs s l in let c := clk s t in
    (store_msg m t c v :: h, vinc c t, fupd (seen s) t (fupd (seen s t) l (S (length h)))).

  Definition step (s : st) (a : act) : st :=
    match a with
    | ARLdc t ch =>
      let T := ths s t in
      let '(v, c, sn) := load s (o_r_ldc o) L_CL t ch in
      St (fupd (ths s) t (Th PInc (zb v) (side T) (lrl T) (lcl T) (fid T) (snap T))) (fupd (clk s) t c)
         (hs s) sn (mown s) (mclk s) (fts s) (vals s) (race s) (lastv s) (committed s) (gph s) (glcl s) (dclk s)
    | ARInc t =>
      let T := ths s t in
      let '(h, c, sn) := rmw s (o_r_inc o) (cloc (cnt T)) t 1 in
      St (fupd (ths s) t (Th PLdr (cnt T) (side T) (lrl T) (lcl T) (fid T) (snap T))) (fupd (clk s) t c)
         (fupd (hs s) (cloc (cnt T)) h) sn (mown s) (mclk s) (fts s) (vals s) (race s) (lastv s)
         (committed s) (gph s) (glcl s) (dclk s)
    | ARLdr t ch =>
      let T := ths s t in
      let '(v, c, sn) := load s (o_r_ldr o) L_RL t ch in
      St (fupd (ths s) t (Th PHeld (cnt T) (zb v) (lrl T) (lcl T) (fid T) (committed s))) (fupd (clk s) t c)
         (hs s) sn (mown s) (mclk s) (fts s) (vals s) (race s) (lastv s) (committed s) (gph s) (glcl s) (dclk s)
    | ARead t =>
      let T := ths s t in
      let (f, okr) := ft_read t (clk s t) (fts s (side T)) in
      St (ths s) (clk s) (hs s) (seen s) (mown s) (mclk s) (bupd (fts s) (side T) f) (vals s)
         (race s || negb okr) (fupd (lastv s) t (vals s (side T))) (committed s) (gph s) (glcl s) (dclk s)
    | ARDec t =>
      let T := ths s t in
      let '(h, c, sn) := rmw s (o_r_dec o) (cloc (cnt T)) t (-1) in
      St (fupd (ths s) t (Th PIdle (cnt T) (side T) (lrl T) (lcl T) (fid T) (snap T))) (fupd (clk s) t c)
         (fupd (hs s) (cloc (cnt T)) h) sn (mown s) (mclk s) (fts s) (vals s) (race s) (lastv s)
         (committed s) (gph s) (glcl s) (fupd (dclk s) t (bupd (dclk s t) (cnt T) (clk s t)))
    | AWLock t f =>
      let T := ths s t in
      St (fupd (ths s) t (Th WLdr (cnt T) (side T) (lrl T) (lcl T) f (snap T)))
         (fupd (clk s) t (vjoin (clk s t) (mclk s)))
         (hs s) (seen s) (Some t) (mclk s) (fts s) (vals s) (race s) (lastv s) (committed s) (gph s) (glcl s) (dclk s)
    | AWLdr t ch =>
      let T := ths s t in
      let '(v, c, sn) := load s (o_w_ldr o) L_RL t ch in
      St (fupd (ths s) t (Th WW1 (cnt T) (side T) (zb v) (lcl T) (fid T) (snap T))) (fupd (clk s) t c)
         (hs s) sn (mown s) (mclk s) (fts s) (vals s) (race s) (lastv s) (committed s) (gph s) (glcl s) (dclk s)
    | AWWrite1 t =>
      let T := ths s t in let x := negb (lrl T) in
      let (f, okw) := ft_write N t (clk s t) (fts s x) in
      St (fupd (ths s) t (Th WStr (cnt T) (side T) (lrl T) (lcl T) (fid T) (snap T)))
         (fupd (clk s) t (vinc (clk s t) t))
         (hs s) (seen s) (mown s) (mclk s) (bupd (fts s) x f) (bupd (vals s) x (vals s x ++ [fid T]))
         (race s || negb okw) (lastv s) (committed s) (gph s) (glcl s) (dclk s)
    | AWStr t =>
      let T := ths s t in
      let '(h, c, sn) := store s (o_w_str o) L_RL t (b2z (negb (lrl T))) in
      St (fupd (ths s) t (Th WLdc (cnt T) (side T) (lrl T) (lcl T) (fid T) (snap T))) (fupd (clk s) t c)
         (fupd (hs s) L_RL h) sn (mown s) (mclk s) (fts s) (vals s) (race s) (lastv s)
         (committed s ++ [fid T]) PC1 (glcl s) (dclk s)
    | AWLdc t ch =>
      let T := ths s t in
      let '(v, c, sn) := load s (o_w_ldc o) L_CL t ch in
      St (fupd (ths s) t (Th WD1 (cnt T) (side T) (lrl T) (zb v) (fid T) (snap T))) (fupd (clk s) t c)
         (hs s) sn (mown s) (mclk s) (fts s) (vals s) (race s) (lastv s) (committed s) (gph s) (glcl s) (dclk s)
    | AWD1 t ch =>
      let T := ths s t in
      let '(v, c, sn) := load s (o_w_drain o) (cloc (negb (lcl T))) t ch in
      let z := (v =? 0)%Z in
      St (fupd (ths s) t (Th (if z then WStc else WD1) (cnt T) (side T) (lrl T) (lcl T) (fid T) (snap T)))
         (fupd (clk s) t c)
         (hs s) sn (mown s) (mclk s) (fts s) (vals s) (race s) (lastv s) (committed s)
         (if z then PC2 else gph s) (if z then lcl T else glcl s) (dclk s)
    | AWStc t =>
      let T := ths s t in
      let '(h, c, sn) := store s (o_w_stc o) L_CL t (b2z (negb (lcl T))) in
      St (fupd (ths s) t (Th WD2 (cnt T) (side T) (lrl T) (lcl T) (fid T) (snap T))) (fupd (clk s) t c)
         (fupd (hs s) L_CL h) sn (mown s) (mclk s) (fts s) (vals s) (race s) (lastv s)
         (committed s) (gph s) (glcl s) (dclk s)
    | AWD2 t ch =>
      let T := ths s t in
      let '(v, c, sn) := load s (o_w_drain o) (cloc (lcl T)) t ch in
      let z := (v =? 0)%Z in
      St (fupd (ths s) t (Th (if z then WW2 else WD2) (cnt T) (side T) (lrl T) (lcl T) (fid T) (snap T)))
         (fupd (clk s) t c)
         (hs s) sn (mown s) (mclk s) (fts s) (vals s) (race s) (lastv s) (committed s)
         (if z then PA else gph s) (glcl s) (dclk s)
    | AWWrite2 t =>
      let T := ths s t in let x := lrl T in
      let (f, okw) := ft_write N t (clk s t) (fts s x) in
      St (fupd (ths s) t (Th WUnl (cnt T) (side T) (lrl T) (lcl T) (fid T) (snap T)))
         (fupd (clk s) t (vinc (clk s t) t))
         (hs s) (seen s) (mown s) (mclk s) (bupd (fts s) x f) (bupd (vals s) x (vals s x ++ [fid T]))
         (race s || negb okw) (lastv s) (committed s) (gph s) (glcl s) (dclk s)
    | AWUnlock t =>
      let T := ths s t in
      St (fupd (ths s) t (Th PIdle (cnt T) (side T) (lrl T) (lcl T) (fid T) (snap T)))
         (fupd (clk s) t (vinc (clk s t) t))
         (hs s) (seen s) None (vjoin (mclk s) (clk s t)) (fts s) (vals s) (race s) (lastv s)
         (committed s) (gph s) (glcl s) (dclk s)
    end.

  (* the thread of an action and the pc it must be at *)
  Definition expect (a : act) : nat * vpc :=
    match a with
    | ARLdc t _ => (t, PIdle) | ARInc t => (t, PInc) | ARLdr t _ => (t, PLdr) | ARead t => (t, PHeld)
    | ARDec t => (t, PHeld) | AWLock t _ => (t, PIdle) | AWLdr t _ => (t, WLdr) | AWWrite1 t => (t, WW1)
    | AWStr t => (t, WStr) | AWLdc t _ => (t, WLdc) | AWD1 t _ => (t, WD1) | AWStc t => (t, WStc)
    | AWD2 t _ => (t, WD2) | AWWrite2 t => (t, WW2) | AWUnlock t => (t, WUnl)
    end.
  (* protocol conformance: the thread exists, is at the right point of its operation, and
     lock() is taken only when the mutex is free *)
  Definition okb (s : st) (a : act) : bool :=
    (fst (expect a) <? N) && vpc_eqb (pc (ths s (fst (expect a)))) (snd (expect a)) &&
    match a with AWLock _ _ => match mown s with None => true | Some _ => false end | _ => true end.
  Definition ok (s : st) (a : act) : Prop := okb s a = true.

  Fixpoint trace_okb (s : st) (tr : list act) : bool :=
    match tr with [] => true | a :: r => okb s a && trace_okb (step s a) r end.
  Definition trace_ok (s : st) (tr : list act) : Prop := trace_okb s tr = true.
  Definition run (s : st) (tr : list act) : st := fold_left step tr s.
End LRViews.

(* ---------- refutations: weakened orders give conforming traces with a data race ---------- *)
(* thread 0 = writer, thread 1 = reader *)
Definition full_modify (w : nat) (f : Z) : list act :=
  [AWLock w f; AWLdr w 0; AWWrite1 w; AWStr w; AWLdc w 0; AWD1 w 0; AWStc w; AWD2 w 0; AWWrite2 w; AWUnlock w].

(* (a) lock_shared() reads m_readingLeft with memory_order_relaxed: the reader (already registered) is
   directed to the copy the writer has just written but does not acquire the writer's clock *)
Definition o_relaxed_rl_load : orders := Ord SeqCst SeqCst Relaxed SeqCst SeqCst SeqCst SeqCst SeqCst SeqCst.
Definition w_relaxed_rl_load : list act :=
  [ARLdc 1 0; ARInc 1] ++ [AWLock 0 5; AWLdr 0 0; AWWrite1 0; AWStr 0] ++ [ARLdr 1 0; ARead 1].
Lemma lr_relaxed_rl_load_refuted :
  trace_ok 2 o_relaxed_rl_load init w_relaxed_rl_load /\ trace_ok 2 sc_orders init w_relaxed_rl_load /\
  race (run 2 o_relaxed_rl_load init w_relaxed_rl_load) = true /\
  race (run 2 sc_orders init w_relaxed_rl_load) = false.
Proof. vm_compute. auto. Qed.

(* (b) the deleter's counter-- relaxed: the writer's drain load reads the decrement but obtains only
   the clock released by the increment, which does not cover the reader's read *)
Definition o_relaxed_dec : orders := Ord SeqCst SeqCst SeqCst Relaxed SeqCst SeqCst SeqCst SeqCst SeqCst.
Definition w_reader_then_modify : list act := [ARLdc 1 0; ARInc 1; ARLdr 1 0; ARead 1; ARDec 1] ++ full_modify 0 5.
Lemma lr_relaxed_dec_refuted :
  trace_ok 2 o_relaxed_dec init w_reader_then_modify /\ trace_ok 2 sc_orders init w_reader_then_modify /\
  race (run 2 o_relaxed_dec init w_reader_then_modify) = true /\
  race (run 2 sc_orders init w_reader_then_modify) = false.
Proof. vm_compute. auto. Qed.

(* (c) the drain loads relaxed: the writer sees the counter at zero without acquiring anything *)
Definition o_relaxed_drain : orders := Ord SeqCst SeqCst SeqCst SeqCst SeqCst SeqCst SeqCst Relaxed SeqCst.
Lemma lr_relaxed_drain_refuted :
  trace_ok 2 o_relaxed_drain init w_reader_then_modify /\
  race (run 2 o_relaxed_drain init w_reader_then_modify) = true.
Proof. vm_compute. auto. Qed.

(* (d) Dekker failure: flip store Release, reader's load Acquire.  The writer flips and passes both
   drains (counters at zero); the reader (which loaded m_countingLeft before the writer's store to it)
   then registers and reads the STALE m_readingLeft = true
   (coherence allows it: nothing orders the store before the load), so it reads m_left while the
   writer replays the functor on it.  Release/acquire is not enough; seq_cst is necessary. *)
Definition o_relacq_flip : orders := Ord SeqCst SeqCst Acquire SeqCst SeqCst Release SeqCst SeqCst SeqCst.
Definition w_dekker : list act :=
  [AWLock 0 5; AWLdr 0 0; AWWrite1 0; AWStr 0; AWLdc 0 0; AWD1 0 0] ++ [ARLdc 1 0] ++ [AWStc 0; AWD2 0 0] ++
  [ARInc 1; ARLdr 1 1; ARead 1] ++ [AWWrite2 0; AWUnlock 0].
Lemma lr_relacq_flip_refuted :
  trace_ok 2 o_relacq_flip init w_dekker /\ trace_ok 2 sc_orders init w_dekker /\
  race (run 2 o_relacq_flip init w_dekker) = true /\
  side (ths (run 2 o_relacq_flip init w_dekker) 1) = true /\
  race (run 2 sc_orders init w_dekker) = false.
Proof. vm_compute. auto. Qed.


(* ====================================================================================== *)
(* ---------- the source's orders (all seq_cst): happens-before race freedom ---------- *)

Definition prefix (a b : list Z) : Prop := exists c, b = a ++ c.
Lemma prefix_refl a : prefix a a.
Proof. exists []. symmetry. apply app_nil_r. Qed.
Lemma prefix_app a b c : prefix a b -> prefix a (b ++ c).
Proof. intros [x ->]. exists (x ++ c). symmetry. apply app_assoc. Qed.

(* sums over the threads 0..n-1 *)
Fixpoint sumf (f : nat -> nat) (n : nat) : nat := match n with O => O | S m => sumf f m + f m end.
Lemma sumf_ext f f' n : (forall u, f' u = f u) -> sumf f' n = sumf f n.
Proof. intros H. induction n as [|n IH]; cbn; [reflexivity|]. rewrite IH, H. reflexivity. Qed.
Lemma sumf_below f f' n : (forall u, u < n -> f' u = f u) -> sumf f' n = sumf f n.
Proof.
  induction n as [|n IH]; intros H; cbn; [reflexivity|]. rewrite IH, (H n) by (intros; auto with arith). reflexivity.
Qed.
Lemma sumf_change f f' n t : (forall u, u <> t -> f' u = f u) -> t < n -> sumf f' n + f t = sumf f n + f' t.
Proof.
  intros H. induction n as [|n IH]; intros Ht; [lia|]. cbn.
  destruct (Nat.eq_dec t n) as [E|Hne].
  - subst t. rewrite (sumf_below f f' n); [lia|]. intros u Hu. apply H. lia.
  - rewrite (H n) by lia. specialize (IH ltac:(lia)). lia.
Qed.
Lemma sumf_zero f n u : sumf f n = 0 -> u < n -> f u = 0.
Proof.
  induction n as [|n IH]; cbn; intros Hz Hu; [lia|].
  destruct (Nat.eq_dec u n) as [->|Hne]; [lia|]. apply IH; lia.
Qed.

Lemma vpc_eqb_eq p q : vpc_eqb p q = true -> p = q.
Proof. destruct p, q; cbn; intros H; try discriminate; reflexivity. Qed.

(* current values (newest message) and released clocks *)
Definition curv (s : st) (l : nat) : Z := read_val (initv l) (hs s l) 0.
Definition rlv (s : st) : bool := zb (curv s L_RL).
Definition relc (h : hist) : vc :=
  match h with m :: _ => match mrel m with Some r => r | None => vzero end | [] => vzero end.
Definition acq (h : hist) (c : vc) : vc := read_clock SeqCst h 0 c.
(* what the owner of the mutex - or, when it is free, the next owner - knows *)
Definition K (s : st) : vc := match mown s with Some w => clk s w | None => mclk s end.

Lemma vzero_le c : vle vzero c.
Proof. intros i. unfold vzero. lia. Qed.
Lemma acq_mono h c : vle c (acq h c).
Proof. apply read_clock_mono. Qed.
Lemma acq_relc h c : vle (relc h) (acq h c).
Proof.
  unfold acq, relc, read_clock. destruct h as [|m r]; cbn; [apply vzero_le|].
  destruct (mrel m); [apply vle_join_r|apply vzero_le].
Qed.
Lemma rmwc_mono prev c : vle c (rmw_clock SeqCst prev c).
Proof.
  unfold rmw_clock. destruct prev as [p|]; [|apply vle_refl]. destruct (mrel p); [apply vle_join_l|apply vle_refl].
Qed.
Lemma relc_rmw t c h v :
  vle c (relc (rmw_msg SeqCst t c (nth_error h 0) v :: h)) /\ vle (relc h) (relc (rmw_msg SeqCst t c (nth_error h 0) v :: h)).
Proof.
  unfold relc, rmw_msg. cbn. destruct h as [|m r]; cbn.
  - split; [apply vle_refl|apply vzero_le].
  - destruct (mrel m); split; try apply vle_refl; try apply vzero_le; [apply vle_join_l|apply vle_join_r].
Qed.
Lemma ssc_sc l : ssc sc_orders l = true.
Proof. unfold ssc. destruct (l =? L_RL); [reflexivity|]. destruct (l =? L_CL); reflexivity. Qed.
Lemma load_sc s l t ch :
  load sc_orders s SeqCst l t ch =
  (curv s l, acq (hs s l) (clk s t), fupd (seen s) t (fupd (seen s t) l (read_stamp (hs s l) 0))).
Proof. unfold load, lidx. rewrite ssc_sc. reflexivity. Qed.

Definition wpc (p : vpc) : bool :=
  match p with WLdr | WW1 | WStr | WLdc | WD1 | WStc | WD2 | WW2 | WUnl => true | _ => false end.
Definition registered (p : vpc) : bool := match p with PLdr | PHeld => true | _ => false end.
Definition reg (s : st) (k : bool) (u : nat) : nat :=
  if registered (pc (ths s u)) && Bool.eqb (cnt (ths s u)) k then 1 else 0.

(* what the mutex owner knows at each point of modify (protocol level) *)
Definition wk (s : st) (T : th) : Prop :=
  let com := committed s in let ot := vals s (negb (rlv s)) in
  match pc T with
  | WLdr => gph s = PA /\ ot = com
  | WW1 => lrl T = rlv s /\ gph s = PA /\ ot = com
  | WStr => lrl T = rlv s /\ gph s = PA /\ ot = com ++ [fid T]
  | WLdc | WD1 => lrl T = negb (rlv s) /\ gph s = PC1 /\ com = ot ++ [fid T]
  | WStc | WD2 => lrl T = negb (rlv s) /\ gph s = PC2 /\ glcl s = lcl T /\ com = ot ++ [fid T]
  | WW2 => lrl T = negb (rlv s) /\ gph s = PA /\ com = ot ++ [fid T]
  | WUnl => gph s = PA /\ ot = com
  | _ => True
  end.
(* what is known about a held handle *)
Definition hk (s : st) (T : th) : Prop :=
  pc T = PHeld ->
  match gph s with PA => side T = rlv s | PC1 => True | PC2 => side T = rlv s \/ cnt T = glcl s end /\
  vals s (side T) = snap T /\ prefix (snap T) (committed s).

Section Proofs.
  Variable N : nat.
  Notation stepS := (step N sc_orders).

  Record InvA (s : st) : Prop := {
    A_dom : forall u, N <= u -> pc (ths s u) = PIdle;
    A_owner : forall u, wpc (pc (ths s u)) = true -> mown s = Some u;
    A_held : forall a, mown s = Some a -> wpc (pc (ths s a)) = true;
    A_wk : forall u, wk s (ths s u);
    A_idle : mown s = None -> gph s = PA /\ vals s (negb (rlv s)) = committed s;
    A_vis : vals s (rlv s) = committed s;
    A_hk : forall u, hk s (ths s u);
    A_cnt : forall k, curv s (cloc k) = Z.of_nat (sumf (reg s k) N)
  }.

  Lemma ok_spec s a : ok N s a ->
    fst (expect a) < N /\ pc (ths s (fst (expect a))) = snd (expect a) /\
    match a with AWLock _ _ => mown s = None | _ => True end.
  Proof.
    unfold ok, okb. intros H. apply andb_true_iff in H as [H H3]. apply andb_true_iff in H as [H1 H2].
    apply Nat.ltb_lt in H1. apply vpc_eqb_eq in H2. repeat split; auto.
    destruct a; auto. destruct (mown s); [discriminate|reflexivity].
  Qed.

  Ltac eqd a b := let E := fresh "E" in destruct (Nat.eqb_spec a b) as [E|E]; [subst a|].

  Lemma other_not_writer s t u :
    InvA s -> (mown s = Some t \/ mown s = None) -> u <> t -> wpc (pc (ths s u)) = false.
  Proof.
    intros HI Hm Hne. destruct (wpc (pc (ths s u))) eqn:E; [|reflexivity].
    pose proof (A_owner _ HI u E) as Ho. destruct Hm; congruence.
  Qed.
  Lemma wk_nonwriter s T : wpc (pc T) = false -> wk s T.
  Proof. unfold wk. destruct (pc T); intros H; try discriminate; exact I. Qed.
  Lemma not_owner s t : InvA s -> wpc (pc (ths s t)) = false -> mown s <> Some t.
  Proof. intros HI H E. rewrite (A_held _ HI t E) in H. discriminate. Qed.

  (* the counters count: a counter at zero has no registered thread *)
  Lemma zero_no_reg s k u : InvA s -> curv s (cloc k) = 0%Z -> registered (pc (ths s u)) = true -> cnt (ths s u) <> k.
  Proof.
    intros HI Hz Hr Hc. destruct (le_lt_dec N u) as [Hge|Hlt].
    - rewrite (A_dom _ HI u Hge) in Hr. discriminate.
    - pose proof (A_cnt _ HI k) as E. rewrite Hz in E.
      assert (sumf (reg s k) N = 0) as E0 by lia.
      pose proof (sumf_zero _ _ _ E0 Hlt) as E1. unfold reg in E1. rewrite Hr, Hc, Bool.eqb_reflx in E1. discriminate.
  Qed.

  Ltac proj := cbn [ths clk hs seen mown mclk fts vals race lastv committed gph glcl dclk pc cnt side lrl lcl fid snap].
  Ltac proja := cbn [ths clk hs seen mown mclk fts vals race lastv committed gph glcl dclk pc cnt side lrl lcl fid snap] in *.
  Ltac nrl s := unfold rlv, curv; proj; fold (curv s L_RL); fold (rlv s).
  Ltac simp_orders := unfold rmw, store; cbn [o_r_ldc o_r_inc o_r_ldr o_r_dec o_w_ldr o_w_str o_w_ldc o_w_drain o_w_stc sc_orders].
  (* clauses dom / owner / held / wk for a step of a thread that does not own the mutex and stays a reader *)
  Ltac rb_dom HI t := intros u Hu; proj; unfold fupd; eqd u t; [lia|apply (A_dom _ HI u Hu)].
  Ltac rb_owner HI t := intros u; proj; unfold fupd; eqd u t; [try discriminate|apply (A_owner _ HI u)].
  Ltac rb_held HI Hp t := intros a0 Ha; proja; unfold fupd; eqd a0 t; [|apply (A_held _ HI a0 Ha)];
       pose proof (A_held _ HI t Ha) as Hx; rewrite Hp in Hx; discriminate.
  Ltac rb_wk HI t := intros u; proj; unfold fupd; eqd u t; [exact I|apply (A_wk _ HI u)].
  Ltac reader_basic HI Hp t := constructor; [rb_dom HI t | rb_owner HI t | rb_held HI Hp t | rb_wk HI t | idtac .. ].

  Lemma cnt_step s s' t : InvA s -> t < N ->
    (forall k u, u <> t -> reg s' k u = reg s k u) ->
    (forall k, (curv s' (cloc k) + Z.of_nat (reg s k t) = curv s (cloc k) + Z.of_nat (reg s' k t))%Z) ->
    forall k, curv s' (cloc k) = Z.of_nat (sumf (reg s' k) N).
  Proof.
    intros HI Ht Hu Hc k. pose proof (sumf_change (reg s k) (reg s' k) N t (Hu k) Ht) as E.
    pose proof (A_cnt _ HI k). specialize (Hc k). lia.
  Qed.
  Ltac cnt_frame t := intros k u Hu; unfold reg; proj; rewrite fupd_ne by exact Hu; reflexivity.

  Lemma stepA_reader s a : InvA s -> ok N s a ->
    match a with ARLdc _ _ | ARInc _ | ARLdr _ _ | ARead _ | ARDec _ => InvA (stepS s a) | _ => True end.
  Proof.
    intros HI Hok. destruct (ok_spec _ _ Hok) as (Ht & Hp & Hm).
    destruct a; try exact I; cbn [expect fst snd] in *; cbn [step]; rewrite ?load_sc; simp_orders.
    - (* ARLdc *)
      reader_basic HI Hp t.
      + apply (A_idle _ HI).
      + apply (A_vis _ HI).
      + intros u. proj. unfold fupd. eqd u t; [intros H; discriminate|apply (A_hk _ HI u)].
      + intros k. pose proof (A_cnt _ HI k) as Hc. unfold curv in *. proj. rewrite Hc. f_equal.
        apply sumf_ext. intros u. unfold reg. proj. unfold fupd.
        eqd u t; [rewrite Hp; reflexivity|reflexivity].
    - (* ARInc *)
      destruct (cnt (ths s t)) eqn:Ek; reader_basic HI Hp t.
      all: try apply (A_idle _ HI); try apply (A_vis _ HI).
      1,3: intros u; proj; unfold fupd; eqd u t; [intros H; discriminate|apply (A_hk _ HI u)].
      all: apply (cnt_step s _ t HI Ht); [cnt_frame t|].
      all: intros k; unfold reg, curv; proj; rewrite fupd_eq, Hp; proj; destruct k; cbn; lia.
    - (* ARLdr: the new handle points to the visible copy *)
      reader_basic HI Hp t.
      + apply (A_idle _ HI).
      + apply (A_vis _ HI).
      + intros u. proj. unfold fupd. eqd u t; [|apply (A_hk _ HI u)].
        intros _. proj. fold (rlv s). repeat split.
        * destruct (gph s); auto.
        * apply (A_vis _ HI).
        * apply prefix_refl.
      + apply (cnt_step s _ t HI Ht); [cnt_frame t|].
        intros k; unfold reg, curv; proj; rewrite fupd_eq, Hp; proj. reflexivity.
    - (* ARead *)
      destruct (ft_read t (clk s t) (fts s (side (ths s t)))) as [f okr].
      constructor; apply HI.
    - (* ARDec *)
      destruct (cnt (ths s t)) eqn:Ek; reader_basic HI Hp t.
      all: try apply (A_idle _ HI); try apply (A_vis _ HI).
      1,3: intros u; proj; unfold fupd; eqd u t; [intros H; discriminate|apply (A_hk _ HI u)].
      all: apply (cnt_step s _ t HI Ht); [cnt_frame t|].
      all: intros k; unfold reg, curv; proj; rewrite fupd_eq, Hp, Ek; proj; destruct k; cbn; lia.
  Qed.

  Lemma zb_b2z b : zb (b2z b) = b.
  Proof. destruct b; reflexivity. Qed.

  (* clauses dom / owner / held / wk(other threads) / cnt for a step of the mutex owner *)
  Ltac wb_dom HI t := intros u Hu; proj; unfold fupd; eqd u t; [lia|apply (A_dom _ HI u Hu)].
  Ltac wb_owner HI Hmm t :=
    intros u; proj; unfold fupd; eqd u t;
    [intros Hx; first [reflexivity | discriminate | assumption]
    |intros Hx; match goal with E : u <> t |- _ => rewrite (other_not_writer _ t u HI Hmm E) in Hx end; discriminate].
  Ltac wb_cnt HI Ht Hp t :=
    apply (cnt_step _ _ t HI Ht); [cnt_frame t|];
    intros k; unfold reg, curv; proj; rewrite fupd_eq, Hp; proj; try reflexivity.
  Ltac wb_wk_other HI Hmm t u :=
    match goal with E : u <> t |- _ => apply wk_nonwriter; apply (other_not_writer _ t u HI Hmm E) end.

  Ltac wpre s HI Hp t :=
    assert (Hw : wpc (pc (ths s t)) = true) by (rewrite Hp; reflexivity);
    pose proof (A_owner _ HI t Hw) as Hown;
    assert (Hmm : mown s = Some t \/ mown s = None) by (left; exact Hown);
    pose proof (A_wk _ HI t) as Hwk; unfold wk in Hwk; rewrite Hp in Hwk.
  Ltac wb_held Hown t :=
    intros a0 Ha; proja; assert (a0 = t) by congruence; subst a0; rewrite fupd_eq; reflexivity.

  Lemma stepA_writer s a : InvA s -> ok N s a ->
    match a with ARLdc _ _ | ARInc _ | ARLdr _ _ | ARead _ | ARDec _ => True | _ => InvA (stepS s a) end.
  Proof.
    intros HI Hok. destruct (ok_spec _ _ Hok) as (Ht & Hp & Hm).
    destruct a; try exact I; cbn [expect fst snd] in *; cbn [step]; rewrite ?load_sc; simp_orders.
    - (* AWLock *)
      assert (Hmm : mown s = Some t \/ mown s = None) by (right; exact Hm).
      destruct (A_idle _ HI Hm) as [Hpa Hot].
      constructor; [wb_dom HI t|wb_owner HI Hmm t| | | | | |wb_cnt HI Ht Hp t].
      + intros a0 Ha. proja. inversion Ha; subst a0. rewrite fupd_eq. reflexivity.
      + intros u. proj. unfold fupd. eqd u t; [|wb_wk_other HI Hmm t u]. split; assumption.
      + intros Hx. discriminate.
      + apply (A_vis _ HI).
      + intros u. proj. unfold fupd. eqd u t; [intros Hx; discriminate|apply (A_hk _ HI u)].
    - (* AWLdr *)
      wpre s HI Hp t.
      constructor; [wb_dom HI t|wb_owner HI Hmm t|wb_held Hown t| | | | |wb_cnt HI Ht Hp t].
      + intros u. proj. unfold fupd. eqd u t; [|wb_wk_other HI Hmm t u]. unfold wk. proj. fold (rlv s). tauto.
      + intros Hx. proja. congruence.
      + apply (A_vis _ HI).
      + intros u. proj. unfold fupd. eqd u t; [intros Hx; discriminate|apply (A_hk _ HI u)].
    - (* AWWrite1 *)
      wpre s HI Hp t. destruct Hwk as (Hl & Hpa & Hot). pose proof (A_vis _ HI) as Hv.
      destruct (ft_write N t (clk s t) (fts s (negb (lrl (ths s t))))) as [f okw].
      constructor; [wb_dom HI t|wb_owner HI Hmm t|wb_held Hown t| | | | |wb_cnt HI Ht Hp t].
      + intros u. proj. unfold fupd. eqd u t; [|wb_wk_other HI Hmm t u]. unfold wk. proj. nrl s.
        rewrite Hl. unfold bupd. rewrite Bool.eqb_reflx. repeat split; congruence.
      + intros Hx. proja. congruence.
      + proj. nrl s. unfold bupd. rewrite Hl. destruct (rlv s); cbn; exact Hv.
      + intros u. proj. unfold fupd. eqd u t; [intros Hx; discriminate|].
        pose proof (A_hk _ HI u) as Hh. unfold hk in *. proj. nrl s. intros Hx. specialize (Hh Hx).
        rewrite Hpa in *. destruct Hh as (Hs & Hv' & Hpre). repeat split; auto.
        unfold bupd. rewrite Hs, Hl. destruct (rlv s); cbn; congruence.
    - (* AWStr: the flip *)
      wpre s HI Hp t. destruct Hwk as (Hl & Hpa & Hot). pose proof (A_vis _ HI) as Hv.
      assert (Er : forall m h, zb (read_val (initv L_RL) (fupd (hs s) L_RL (store_msg SeqCst t (clk s t) (b2z m) :: h) L_RL) 0) = m)
        by (intros m h; rewrite fupd_eq; cbn; apply zb_b2z).
      constructor; [wb_dom HI t|wb_owner HI Hmm t|wb_held Hown t| | | | |].
      + intros u. proj. destruct (Nat.eq_dec u t) as [->|E]; [rewrite fupd_eq|rewrite fupd_ne by exact E; wb_wk_other HI Hmm t u].
        unfold wk. proj. unfold rlv at 1 2, curv. proj. rewrite Er. rewrite negb_involutive. repeat split; auto.
        rewrite Hl. rewrite Hv. reflexivity.
      + intros Hx. proja. congruence.
      + proj. unfold rlv, curv. proj. rewrite Er. rewrite Hl. exact Hot.
      + intros u. proj. destruct (Nat.eq_dec u t) as [->|E]; [rewrite fupd_eq; intros Hx; discriminate|rewrite fupd_ne by exact E].
        pose proof (A_hk _ HI u) as Hh. unfold hk in *. proj. intros Hx. specialize (Hh Hx).
        destruct Hh as (Hs & Hv' & Hpre). repeat split; auto. apply prefix_app. exact Hpre.
      + apply (cnt_step _ _ t HI Ht); [intros k u Hu; unfold reg; proj; rewrite fupd_ne by exact Hu; reflexivity|].
        intros k. unfold reg, curv. proj. rewrite fupd_eq, Hp. proj. destruct k; reflexivity.
    - (* AWLdc *)
      wpre s HI Hp t.
      constructor; [wb_dom HI t|wb_owner HI Hmm t|wb_held Hown t| | | | |wb_cnt HI Ht Hp t].
      + intros u. proj. unfold fupd. eqd u t; [|wb_wk_other HI Hmm t u]. unfold wk. proj. nrl s. tauto.
      + intros Hx. proja. congruence.
      + apply (A_vis _ HI).
      + intros u. proj. unfold fupd. eqd u t; [intros Hx; discriminate|apply (A_hk _ HI u)].
    - (* AWD1 *)
      wpre s HI Hp t. destruct Hwk as (Hl & Hph & Hcom).
      destruct ((curv s (cloc (negb (lcl (ths s t)))) =? 0)%Z) eqn:Ez.
      + apply Z.eqb_eq in Ez.
        constructor; [wb_dom HI t|wb_owner HI Hmm t|wb_held Hown t| | | | |wb_cnt HI Ht Hp t].
        * intros u. proj. unfold fupd. eqd u t; [|wb_wk_other HI Hmm t u]. unfold wk. proj. nrl s. tauto.
        * intros Hx. proja. congruence.
        * apply (A_vis _ HI).
        * intros u. proj. unfold fupd. eqd u t; [intros Hx; discriminate|].
          pose proof (A_hk _ HI u) as Hh. unfold hk in *. proj. nrl s. intros Hx. specialize (Hh Hx).
          destruct Hh as (_ & Hv' & Hpre). repeat split; auto. right.
          assert (Hr : registered (pc (ths s u)) = true) by (rewrite Hx; reflexivity).
          pose proof (zero_no_reg s _ u HI Ez Hr) as Hne.
          destruct (cnt (ths s u)), (lcl (ths s t)); cbn in *; congruence.
      + constructor; [wb_dom HI t|wb_owner HI Hmm t|wb_held Hown t| | | | |wb_cnt HI Ht Hp t].
        * intros u. proj. unfold fupd. eqd u t; [|wb_wk_other HI Hmm t u]. unfold wk. proj. nrl s. tauto.
        * intros Hx. proja. congruence.
        * apply (A_vis _ HI).
        * intros u. proj. unfold fupd. eqd u t; [intros Hx; discriminate|apply (A_hk _ HI u)].
    - (* AWStc *)
      wpre s HI Hp t.
      constructor; [wb_dom HI t|wb_owner HI Hmm t|wb_held Hown t| | | | |].
      + intros u. proj. unfold fupd. eqd u t; [|wb_wk_other HI Hmm t u]. exact Hwk.
      + intros Hx. proja. congruence.
      + apply (A_vis _ HI).
      + intros u. proj. unfold fupd. eqd u t; [intros Hx; discriminate|apply (A_hk _ HI u)].
      + apply (cnt_step _ _ t HI Ht); [intros k u Hu; unfold reg; proj; rewrite fupd_ne by exact Hu; reflexivity|].
        intros k. unfold reg, curv. proj. rewrite fupd_eq, Hp. proj. destruct k; reflexivity.
    - (* AWD2 *)
      wpre s HI Hp t. destruct Hwk as (Hl & Hph & Hg & Hcom).
      destruct ((curv s (cloc (lcl (ths s t))) =? 0)%Z) eqn:Ez.
      + apply Z.eqb_eq in Ez.
        constructor; [wb_dom HI t|wb_owner HI Hmm t|wb_held Hown t| | | | |wb_cnt HI Ht Hp t].
        * intros u. proj. unfold fupd. eqd u t; [|wb_wk_other HI Hmm t u]. unfold wk. proj. nrl s. tauto.
        * intros Hx. proja. congruence.
        * apply (A_vis _ HI).
        * intros u. proj. unfold fupd. eqd u t; [intros Hx; discriminate|].
          pose proof (A_hk _ HI u) as Hh. unfold hk in *. proj. nrl s. intros Hx. specialize (Hh Hx).
          rewrite Hph in Hh. destruct Hh as (Hs & Hv' & Hpre). repeat split; auto.
          assert (Hr : registered (pc (ths s u)) = true) by (rewrite Hx; reflexivity).
          pose proof (zero_no_reg s _ u HI Ez Hr) as Hne.
          destruct Hs as [Hs|Hs]; [exact Hs|congruence].
      + constructor; [wb_dom HI t|wb_owner HI Hmm t|wb_held Hown t| | | | |wb_cnt HI Ht Hp t].
        * intros u. proj. unfold fupd. eqd u t; [|wb_wk_other HI Hmm t u]. unfold wk. proj. nrl s. tauto.
        * intros Hx. proja. congruence.
        * apply (A_vis _ HI).
        * intros u. proj. unfold fupd. eqd u t; [intros Hx; discriminate|apply (A_hk _ HI u)].
    - (* AWWrite2 *)
      wpre s HI Hp t. destruct Hwk as (Hl & Hpa & Hcom). pose proof (A_vis _ HI) as Hv.
      destruct (ft_write N t (clk s t) (fts s (lrl (ths s t)))) as [f okw].
      constructor; [wb_dom HI t|wb_owner HI Hmm t|wb_held Hown t| | | | |wb_cnt HI Ht Hp t].
      + intros u. proj. unfold fupd. eqd u t; [|wb_wk_other HI Hmm t u]. unfold wk. proj. nrl s.
        rewrite Hl. unfold bupd. rewrite Bool.eqb_reflx. split; congruence.
      + intros Hx. proja. congruence.
      + proj. nrl s. unfold bupd. rewrite Hl. destruct (rlv s); cbn; exact Hv.
      + intros u. proj. unfold fupd. eqd u t; [intros Hx; discriminate|].
        pose proof (A_hk _ HI u) as Hh. unfold hk in *. proj. nrl s. intros Hx. specialize (Hh Hx).
        rewrite Hpa in *. destruct Hh as (Hs & Hv' & Hpre). repeat split; auto.
        unfold bupd. rewrite Hs, Hl. destruct (rlv s); cbn; congruence.
    - (* AWUnlock *)
      wpre s HI Hp t. destruct Hwk as (Hpa & Hot).
      constructor; [wb_dom HI t|wb_owner HI Hmm t| | | | | |wb_cnt HI Ht Hp t].
      + intros a0 Ha. discriminate.
      + intros u. proj. unfold fupd. eqd u t; [exact I|wb_wk_other HI Hmm t u].
      + intros _. split; assumption.
      + apply (A_vis _ HI).
      + intros u. proj. unfold fupd. eqd u t; [intros Hx; discriminate|apply (A_hk _ HI u)].
  Qed.

  Lemma stepA s a : InvA s -> ok N s a -> InvA (stepS s a).
  Proof.
    intros HI Hok. pose proof (stepA_reader s a HI Hok). pose proof (stepA_writer s a HI Hok).
    destruct a; assumption.
  Qed.

  (* ---------- clocks ---------- *)
  Record InvB (s : st) : Prop := {
    (* the last write to each copy is known to the mutex owner / left in the mutex *)
    B_w : forall x, fwhen (fts s x) <= K s (fwho (fts s x));
    (* the last write to the visible copy is released by the newest m_readingLeft message *)
    B_v : fwhen (fts s (rlv s)) <= relc (hs s L_RL) (fwho (fts s (rlv s)));
    (* a held handle's copy: its last write happens-before the holder *)
    B_h : forall u, pc (ths s u) = PHeld ->
          fwhen (fts s (side (ths s u))) <= clk s u (fwho (fts s (side (ths s u))));
    (* release sequences of the counters: the newest message carries every decrement's clock *)
    B_c : forall u k, vle (dclk s u k) (relc (hs s (cloc k)));
    B_r : forall x u, fR (fts s x) u <= clk s u u;
    B_d : forall u k, dclk s u k u <= clk s u u;
    (* every read of a copy is by a current holder, or known to the owner, or covered by a decrement *)
    B_rd : forall x u, (pc (ths s u) = PHeld /\ side (ths s u) = x) \/ fR (fts s x) u <= K s u \/
                       fR (fts s x) u <= dclk s u true u \/ fR (fts s x) u <= dclk s u false u;
    B_pa : gph s = PA -> forall u, fR (fts s (negb (rlv s))) u <= K s u;
    B_pc2 : gph s = PC2 -> forall u,
            (pc (ths s u) = PHeld /\ side (ths s u) = negb (rlv s)) \/ fR (fts s (negb (rlv s))) u <= K s u \/
            fR (fts s (negb (rlv s))) u <= dclk s u (glcl s) u;
    B_race : race s = false
  }.

  (* everything but the payload epochs, the holder set, m_readingLeft and the ghosts unchanged;
     clocks, owner knowledge and the counters' released clocks only grow *)
  Lemma B_frame_ph s s' : InvB s ->
    fts s' = fts s -> hs s' L_RL = hs s L_RL ->
    (forall k, vle (relc (hs s (cloc k))) (relc (hs s' (cloc k)))) ->
    dclk s' = dclk s -> race s' = race s ->
    (forall u, (pc (ths s' u) = PHeld <-> pc (ths s u) = PHeld) /\ side (ths s' u) = side (ths s u)) ->
    (forall u, vle (clk s u) (clk s' u)) -> vle (K s) (K s') ->
    (gph s' = PA -> forall u, fR (fts s (negb (rlv s))) u <= K s' u) ->
    (gph s' = PC2 -> forall u,
            (pc (ths s u) = PHeld /\ side (ths s u) = negb (rlv s)) \/ fR (fts s (negb (rlv s))) u <= K s' u \/
            fR (fts s (negb (rlv s))) u <= dclk s u (glcl s') u) ->
    InvB s'.
  Proof.
    intros HB Ef Erl Hrc Ed Era Hth Hck HK H7a H7b.
    assert (Er : rlv s' = rlv s) by (unfold rlv, curv; rewrite Erl; reflexivity).
    constructor; rewrite ?Ef, ?Erl, ?Er, ?Ed, ?Era.
    - intros x. pose proof (B_w _ HB x) as H. pose proof (HK (fwho (fts s x))). lia.
    - apply (B_v _ HB).
    - intros u Hu. destruct (Hth u) as [Hp Hs]. rewrite Hs. apply Hp in Hu.
      pose proof (B_h _ HB u Hu) as H. pose proof (Hck u (fwho (fts s (side (ths s u))))). lia.
    - intros u k. eapply vle_trans; [apply (B_c _ HB u k)|apply Hrc].
    - intros x u. pose proof (B_r _ HB x u). pose proof (Hck u u). lia.
    - intros u k. pose proof (B_d _ HB u k). pose proof (Hck u u). lia.
    - intros x u. destruct (Hth u) as [Hp Hs]. rewrite Hs.
      destruct (B_rd _ HB x u) as [[A B]|[A|A]]; [left; split; [apply Hp; exact A|exact B]| |right; right; exact A].
      right; left. pose proof (HK u). lia.
    - exact H7a.
    - intros Hph u. destruct (Hth u) as [Hp Hs]. rewrite Hs.
      destruct (H7b Hph u) as [[A B]|A]; [left; split; [apply Hp; exact A|exact B]|right; exact A].
    - apply (B_race _ HB).
  Qed.

  Lemma B_frame s s' : InvB s ->
    fts s' = fts s -> hs s' L_RL = hs s L_RL ->
    (forall k, vle (relc (hs s (cloc k))) (relc (hs s' (cloc k)))) ->
    dclk s' = dclk s -> race s' = race s -> gph s' = gph s -> glcl s' = glcl s ->
    (forall u, (pc (ths s' u) = PHeld <-> pc (ths s u) = PHeld) /\ side (ths s' u) = side (ths s u)) ->
    (forall u, vle (clk s u) (clk s' u)) -> vle (K s) (K s') -> InvB s'.
  Proof.
    intros HB Ef Erl Hrc Ed Era Eg Egl Hth Hck HK.
    apply (B_frame_ph s s'); auto.
    - rewrite Eg. intros Hph u. pose proof (B_pa _ HB Hph u). pose proof (HK u). lia.
    - rewrite Eg, Egl. intros Hph u. destruct (B_pc2 _ HB Hph u) as [A|[A|A]]; auto.
      right; left. pose proof (HK u). lia.
  Qed.

  Lemma Kraw_other (mo : option nat) (cl : nat -> vc) (mc : vc) t c : mo <> Some t ->
    match mo with Some w => fupd cl t c w | None => mc end = match mo with Some w => cl w | None => mc end.
  Proof. intros H. destruct mo as [w|]; [|reflexivity]. rewrite fupd_ne; [reflexivity|congruence]. Qed.
  Lemma vle_fupd (cl : nat -> vc) t c : vle (cl t) c -> forall u, vle (cl u) (fupd cl t c u).
  Proof. intros H u. unfold fupd. eqd u t; [exact H|apply vle_refl]. Qed.
  Lemma held_frame (f : nat -> th) t T : pc (f t) <> PHeld -> pc T <> PHeld -> side T = side (f t) ->
    forall u, (pc (fupd f t T u) = PHeld <-> pc (f u) = PHeld) /\ side (fupd f t T u) = side (f u).
  Proof. intros H1 H2 H3 u. unfold fupd. eqd u t; [|tauto]. split; [tauto|exact H3]. Qed.
  Lemma relc_frame (h : nat -> hist) : forall k, vle (relc (h (cloc k))) (relc (h (cloc k))).
  Proof. intros k. apply vle_refl. Qed.

  Lemma stepB_reader s a : InvA s -> InvB s -> ok N s a ->
    match a with ARLdc _ _ | ARInc _ | ARLdr _ _ | ARead _ | ARDec _ => InvB (stepS s a) | _ => True end.
  Proof.
    intros HI HB Hok. destruct (ok_spec _ _ Hok) as (Ht & Hp & Hm).
    destruct a; try exact I; cbn [expect fst snd] in *;
      (assert (Hno : mown s <> Some t) by (apply not_owner; [exact HI|rewrite Hp; reflexivity]));
      cbn [step]; rewrite ?load_sc; simp_orders.
    - (* ARLdc *)
      apply (B_frame s _ HB); proj; try reflexivity.
      + apply relc_frame.
      + apply held_frame; proj; congruence.
      + apply vle_fupd. apply acq_mono.
      + unfold K. proj. rewrite Kraw_other by exact Hno. apply vle_refl.
    - (* ARInc *)
      apply (B_frame s _ HB); proj; try reflexivity.
      + destruct (cnt (ths s t)); reflexivity.
      + intros k. unfold fupd. destruct (Nat.eqb_spec (cloc k) (cloc (cnt (ths s t)))) as [E|E]; [|apply vle_refl].
        rewrite E. apply relc_rmw.
      + apply held_frame; proj; congruence.
      + apply vle_fupd. eapply vle_trans; [apply rmwc_mono|apply vle_inc].
      + unfold K. proj. rewrite Kraw_other by exact Hno. apply vle_refl.
    - (* ARLdr: the handle's copy was released by the message read *)
      fold (rlv s).
      assert (EK : forall cl', K (St (fupd (ths s) t (Th PHeld (cnt (ths s t)) (rlv s) (lrl (ths s t)) (lcl (ths s t)) (fid (ths s t)) (committed s)))
                    (fupd (clk s) t cl') (hs s) (fupd (seen s) t (fupd (seen s t) L_RL (read_stamp (hs s L_RL) 0)))
                    (mown s) (mclk s) (fts s) (vals s) (race s) (lastv s) (committed s) (gph s) (glcl s) (dclk s)) = K s)
        by (intros cl'; unfold K; proj; apply Kraw_other; exact Hno).
      constructor; rewrite ?EK; proj; try (change (rlv (St _ _ (hs s) _ _ _ _ _ _ _ _ _ _ _)) with (rlv s)).
      + apply (B_w _ HB).
      + apply (B_v _ HB).
      + intros u. unfold fupd. eqd u t; proj; [intros _|apply (B_h _ HB u)].
        pose proof (B_v _ HB) as Hv. pose proof (acq_relc (hs s L_RL) (clk s t) (fwho (fts s (rlv s)))). lia.
      + apply (B_c _ HB).
      + intros x u. pose proof (B_r _ HB x u). unfold fupd. eqd u t; [|assumption].
        pose proof (acq_mono (hs s L_RL) (clk s t) t). lia.
      + intros u k. pose proof (B_d _ HB u k). unfold fupd. eqd u t; [|assumption].
        pose proof (acq_mono (hs s L_RL) (clk s t) t). lia.
      + intros x u. unfold fupd. eqd u t; proj; [|apply (B_rd _ HB x u)].
        destruct (B_rd _ HB x t) as [[A _]|A]; [congruence|right; exact A].
      + apply (B_pa _ HB).
      + intros Hph u. unfold fupd. eqd u t; proj; [|apply (B_pc2 _ HB Hph u)].
        destruct (B_pc2 _ HB Hph t) as [[A _]|A]; [congruence|right; exact A].
      + apply (B_race _ HB).
    - (* ARead: race-free by B_h *)
      unfold ft_read. set (d := side (ths s t)).
      assert (Hokr : (fwhen (fts s d) <=? clk s t (fwho (fts s d))) = true) by (apply Nat.leb_le; apply (B_h _ HB t Hp)).
      rewrite Hokr. cbn [negb]. rewrite orb_false_r.
      pose proof (A_hk _ HI t Hp) as (Hsd & _ & _). fold d in Hsd.
      assert (Ew : forall x, fwho (bupd (fts s) d (Ft (fwho (fts s d)) (fwhen (fts s d)) (fupd (fR (fts s d)) t (clk s t t))) x) = fwho (fts s x) /\
                             fwhen (bupd (fts s) d (Ft (fwho (fts s d)) (fwhen (fts s d)) (fupd (fR (fts s d)) t (clk s t t))) x) = fwhen (fts s x))
        by (intros x; unfold bupd; destruct (Bool.eqb x d) eqn:E; [apply eqb_prop in E; subst x; split; reflexivity|split; reflexivity]).
      assert (ER : forall x u, fR (bupd (fts s) d (Ft (fwho (fts s d)) (fwhen (fts s d)) (fupd (fR (fts s d)) t (clk s t t))) x) u =
                               if Bool.eqb x d && Nat.eqb u t then clk s t t else fR (fts s x) u).
      { intros x u. unfold bupd. destruct (Bool.eqb x d) eqn:E; cbn; [|reflexivity].
        apply eqb_prop in E; subst x. unfold fupd. destruct (u =? t); reflexivity. }
      constructor; proj; try (change (rlv (St _ _ (hs s) _ _ _ _ _ _ _ _ _ _ _)) with (rlv s));
        try (change (K (St _ (clk s) _ _ (mown s) (mclk s) _ _ _ _ _ _ _ _)) with (K s)).
      + intros x. destruct (Ew x) as [-> ->]. apply (B_w _ HB).
      + destruct (Ew (rlv s)) as [-> ->]. apply (B_v _ HB).
      + intros u Hu. destruct (Ew (side (ths s u))) as [-> ->]. apply (B_h _ HB u Hu).
      + apply (B_c _ HB).
      + intros x u. rewrite ER. destruct (Bool.eqb x d && (u =? t)) eqn:E; [|apply (B_r _ HB)].
        apply andb_true_iff in E as [_ E]. apply Nat.eqb_eq in E. subst u. lia.
      + apply (B_d _ HB).
      + intros x u. rewrite ER. destruct (Bool.eqb x d && (u =? t)) eqn:E; [|apply (B_rd _ HB)].
        apply andb_true_iff in E as [E1 E2]. apply Nat.eqb_eq in E2. apply eqb_prop in E1. subst. left. auto.
      + intros Hph u. rewrite ER. destruct (Bool.eqb (negb (rlv s)) d && (u =? t)) eqn:E; [|apply (B_pa _ HB Hph)].
        apply andb_true_iff in E as [E1 _]. apply eqb_prop in E1. rewrite Hph in Hsd. rewrite Hsd in E1.
        destruct (rlv s); discriminate.
      + intros Hph u. rewrite ER. destruct (Bool.eqb (negb (rlv s)) d && (u =? t)) eqn:E; [|apply (B_pc2 _ HB Hph)].
        apply andb_true_iff in E as [E1 E2]. apply Nat.eqb_eq in E2. apply eqb_prop in E1. subst u. left. auto.
      + apply (B_race _ HB).
    - (* ARDec: the decrement publishes the holder's reads *)
      set (kk := cnt (ths s t)) in *.
      set (c' := vinc (rmw_clock SeqCst (nth_error (hs s (cloc kk)) 0) (clk s t)) t).
      set (h' := rmw_msg SeqCst t (clk s t) (nth_error (hs s (cloc kk)) 0) (read_val (initv (cloc kk)) (hs s (cloc kk)) 0 + -1)%Z :: hs s (cloc kk)).
      assert (Hc' : vle (clk s t) c') by (eapply vle_trans; [apply rmwc_mono|apply vle_inc]).
      destruct (relc_rmw t (clk s t) (hs s (cloc kk)) (read_val (initv (cloc kk)) (hs s (cloc kk)) 0 + -1)%Z) as [Hrel1 Hrel2].
      fold h' in Hrel1, Hrel2.
      assert (Erl : fupd (hs s) (cloc kk) h' L_RL = hs s L_RL) by (apply fupd_ne; destruct kk; discriminate).
      assert (Hdm : forall k, dclk s t k t <= bupd (dclk s t) kk (clk s t) k t).
      { intros k. unfold bupd. destruct (Bool.eqb k kk) eqn:E; [|lia]. apply eqb_prop in E. subst k. apply (B_d _ HB t kk). }
      assert (Hdk : bupd (dclk s t) kk (clk s t) kk = clk s t) by (unfold bupd; rewrite Bool.eqb_reflx; reflexivity).
      pose proof (B_r _ HB) as HBr.
      assert (EK : forall th' sn' dk', K (St th' (fupd (clk s) t c') (fupd (hs s) (cloc kk) h') sn'
                    (mown s) (mclk s) (fts s) (vals s) (race s) (lastv s) (committed s) (gph s) (glcl s) dk') = K s)
        by (intros; unfold K; proj; apply Kraw_other; exact Hno).
      assert (ER : forall th' ck' sn' dk', rlv (St th' ck' (fupd (hs s) (cloc kk) h') sn'
                    (mown s) (mclk s) (fts s) (vals s) (race s) (lastv s) (committed s) (gph s) (glcl s) dk') = rlv s)
        by (intros; unfold rlv, curv; proj; rewrite Erl; reflexivity).
      constructor; rewrite ?EK, ?ER; proj; rewrite ?Erl.
      + apply (B_w _ HB).
      + apply (B_v _ HB).
      + intros u. destruct (Nat.eq_dec u t) as [->|E]; [rewrite !fupd_eq; proj; intros Hx; discriminate|rewrite !fupd_ne by exact E; apply (B_h _ HB u)].
      + intros u k. destruct (Bool.eqb k kk) eqn:E.
        * apply eqb_prop in E. subst k. rewrite fupd_eq. unfold fupd. eqd u t.
          -- rewrite Hdk. exact Hrel1.
          -- eapply vle_trans; [apply (B_c _ HB u kk)|exact Hrel2].
        * apply eqb_false_iff in E. rewrite (fupd_ne (hs s)) by (destruct k, kk; try discriminate; congruence).
          unfold fupd. eqd u t; [|apply (B_c _ HB)]. unfold bupd. rewrite (proj2 (eqb_false_iff k kk) E). apply (B_c _ HB).
      + intros x u. pose proof (HBr x u). unfold fupd. eqd u t; [|assumption]. pose proof (Hc' t). lia.
      + intros u k. unfold fupd. eqd u t; [|apply (B_d _ HB)].
        pose proof (Hc' t). unfold bupd. destruct (Bool.eqb k kk); [lia|]. pose proof (B_d _ HB t k). lia.
      + intros x u. unfold fupd. eqd u t; proj; [|apply (B_rd _ HB x u)]. right.
        pose proof (Hdm true). pose proof (Hdm false).
        destruct (B_rd _ HB x t) as [[A B]|[A|[A|A]]]; [|left; exact A|right; left; lia|right; right; lia].
        pose proof (HBr x t). right. destruct kk; [left|right]; rewrite Hdk; lia.
      + apply (B_pa _ HB).
      + intros Hph u. unfold fupd. eqd u t; proj; [|apply (B_pc2 _ HB Hph u)]. right.
        pose proof (Hdm (glcl s)).
        destruct (B_pc2 _ HB Hph t) as [[A B]|[A|A]]; [|left; exact A|right; lia].
        pose proof (A_hk _ HI t Hp) as (Hsd & _ & _). rewrite Hph in Hsd.
        destruct Hsd as [Hsd|Hsd]; [rewrite Hsd in B; destruct (rlv s); discriminate|].
        fold kk in Hsd. rewrite <- Hsd, Hdk. right. apply HBr.
      + apply (B_race _ HB).
  Qed.

  (* a write by the mutex owner, in phase PA, to the copy readers are not directed to is race-free:
     its last write is known to the owner (mutex), every read of it is known to the owner (drains) *)
  Lemma B_write s t T' vl' : InvA s -> InvB s -> mown s = Some t -> gph s = PA ->
    pc (ths s t) <> PHeld -> pc T' <> PHeld -> side T' = side (ths s t) ->
    InvB (let (f, okw) := ft_write N t (clk s t) (fts s (negb (rlv s))) in
          St (fupd (ths s) t T') (fupd (clk s) t (vinc (clk s t) t)) (hs s) (seen s) (mown s) (mclk s)
             (bupd (fts s) (negb (rlv s)) f) vl' (race s || negb okw) (lastv s) (committed s) (gph s) (glcl s) (dclk s)).
  Proof.
    intros HI HB Hown Hpa Hp1 Hp2 Hsd. set (x := negb (rlv s)).
    assert (HK : K s = clk s t) by (unfold K; rewrite Hown; reflexivity).
    assert (Hokw : snd (ft_write N t (clk s t) (fts s x)) = true).
    { apply ft_write_ok.
      - pose proof (B_w _ HB x) as H. rewrite HK in H. exact H.
      - intros u _. pose proof (B_pa _ HB Hpa u) as H. rewrite HK in H. exact H. }
    unfold ft_write in *. cbn [snd] in Hokw. rewrite Hokw. cbn [negb]. rewrite orb_false_r.
    set (f := Ft t (clk s t t) vzero).
    assert (Hth := held_frame (ths s) t T' Hp1 Hp2 Hsd).
    assert (HK' : forall th' sn' vv, K (St th' (fupd (clk s) t (vinc (clk s t) t)) (hs s) sn' (mown s) (mclk s)
                     (bupd (fts s) x f) vv (race s) (lastv s) (committed s) (gph s) (glcl s) (dclk s)) = vinc (clk s t) t)
      by (intros; unfold K; proj; rewrite Hown, fupd_eq; reflexivity).
    assert (Hx : forall y, y <> x -> bupd (fts s) x f y = fts s y)
      by (intros y Hy; unfold bupd; rewrite (proj2 (eqb_false_iff y x) Hy); reflexivity).
    assert (Hxx : bupd (fts s) x f x = f) by (unfold bupd; rewrite Bool.eqb_reflx; reflexivity).
    assert (Hrx : rlv s <> x) by (unfold x; destruct (rlv s); discriminate).
    assert (Hinc : forall i, clk s t i <= vinc (clk s t) t i) by apply vle_inc.
    constructor; rewrite ?HK'; proj; try (change (rlv (St _ _ (hs s) _ _ _ _ _ _ _ _ _ _ _)) with (rlv s)).
    - intros y. destruct (Bool.bool_dec y x) as [->|Hy].
      + rewrite Hxx. unfold f. cbn. rewrite vinc_self. lia.
      + rewrite (Hx y Hy). pose proof (B_w _ HB y) as H. rewrite HK in H. pose proof (Hinc (fwho (fts s y))). lia.
    - rewrite (Hx _ Hrx). apply (B_v _ HB).
    - intros u Hu. destruct (Hth u) as [Hq Hs]. rewrite Hs. apply Hq in Hu.
      pose proof (A_hk _ HI u Hu) as (Hsu & _ & _). rewrite Hpa in Hsu. rewrite Hsu, (Hx _ Hrx).
      pose proof (B_h _ HB u Hu) as H. rewrite Hsu in H.
      unfold fupd. eqd u t; [congruence|exact H].
    - apply (B_c _ HB).
    - intros y u. destruct (Bool.bool_dec y x) as [->|Hy]; [rewrite Hxx; unfold f, vzero; cbn; lia|].
      rewrite (Hx y Hy). pose proof (B_r _ HB y u). unfold fupd. eqd u t; [|assumption]. pose proof (Hinc t). lia.
    - intros u k. pose proof (B_d _ HB u k). unfold fupd. eqd u t; [|assumption]. pose proof (Hinc t). lia.
    - intros y u. destruct (Hth u) as [Hq Hs]. rewrite Hs.
      destruct (Bool.bool_dec y x) as [->|Hy]; [rewrite Hxx; right; left; unfold f, vzero; cbn; lia|].
      rewrite (Hx y Hy). destruct (B_rd _ HB y u) as [[A B]|[A|A]];
        [left; split; [apply Hq; exact A|exact B]| |right; right; exact A].
      right; left. rewrite HK in A. pose proof (Hinc u). lia.
    - intros _ u. fold x. rewrite Hxx. unfold f, vzero. cbn. lia.
    - intros Hph. congruence.
    - apply (B_race _ HB).
  Qed.

  Lemma stepB_writer s a : InvA s -> InvB s -> ok N s a ->
    match a with ARLdc _ _ | ARInc _ | ARLdr _ _ | ARead _ | ARDec _ => True | _ => InvB (stepS s a) end.
  Proof.
    intros HI HB Hok. destruct (ok_spec _ _ Hok) as (Ht & Hp & Hm).
    destruct a; try exact I; cbn [expect fst snd] in *; cbn [step]; rewrite ?load_sc; simp_orders.
    - (* AWLock: the new owner acquires what the unlocks left in the mutex *)
      apply (B_frame s _ HB); proj; try reflexivity.
      + apply relc_frame.
      + apply held_frame; proj; congruence.
      + apply vle_fupd. apply vle_join_l.
      + unfold K. proj. rewrite Hm, fupd_eq. apply vle_join_r.
    - (* AWLdr *)
      wpre s HI Hp t.
      apply (B_frame s _ HB); proj; try reflexivity.
      + apply relc_frame.
      + apply held_frame; proj; congruence.
      + apply vle_fupd. apply acq_mono.
      + unfold K. proj. rewrite Hown, fupd_eq. apply acq_mono.
    - (* AWWrite1 *)
      wpre s HI Hp t. destruct Hwk as (Hl & Hpa & _). rewrite Hl.
      apply (B_write s t _ _ HI HB Hown Hpa); proj; congruence.
    - (* AWStr: the flip releases the first write *)
      wpre s HI Hp t. destruct Hwk as (Hl & Hpa & _).
      assert (HK : K s = clk s t) by (unfold K; rewrite Hown; reflexivity).
      set (h' := store_msg SeqCst t (clk s t) (b2z (negb (lrl (ths s t)))) :: hs s L_RL).
      assert (Hth := held_frame (ths s) t (Th WLdc (cnt (ths s t)) (side (ths s t)) (lrl (ths s t)) (lcl (ths s t)) (fid (ths s t)) (snap (ths s t)))
                       ltac:(congruence) ltac:(discriminate) eq_refl).
      assert (HK' : forall th' sn' cm' ph', K (St th' (fupd (clk s) t (vinc (clk s t) t)) (fupd (hs s) L_RL h') sn' (mown s) (mclk s)
                     (fts s) (vals s) (race s) (lastv s) cm' ph' (glcl s) (dclk s)) = vinc (clk s t) t)
        by (intros; unfold K; proj; rewrite Hown, fupd_eq; reflexivity).
      assert (ER : forall th' ck' sn' cm' ph', rlv (St th' ck' (fupd (hs s) L_RL h') sn' (mown s) (mclk s)
                     (fts s) (vals s) (race s) (lastv s) cm' ph' (glcl s) (dclk s)) = negb (rlv s))
        by (intros; unfold rlv at 1, curv; proj; rewrite fupd_eq; cbn; rewrite zb_b2z, Hl; reflexivity).
      assert (Hinc : forall i, clk s t i <= vinc (clk s t) t i) by apply vle_inc.
      constructor; rewrite ?HK', ?ER; proj.
      + intros x. pose proof (B_w _ HB x) as H. rewrite HK in H. pose proof (Hinc (fwho (fts s x))). lia.
      + rewrite fupd_eq. unfold h', relc, store_msg. cbn. pose proof (B_w _ HB (negb (rlv s))) as H. rewrite HK in H. exact H.
      + intros u Hu. destruct (Hth u) as [Hq Hs]. rewrite Hs. apply Hq in Hu.
        pose proof (B_h _ HB u Hu) as H. unfold fupd. eqd u t; [congruence|exact H].
      + intros u k. rewrite fupd_ne by (destruct k; discriminate). apply (B_c _ HB).
      + intros x u. pose proof (B_r _ HB x u). unfold fupd. eqd u t; [|assumption]. pose proof (Hinc t). lia.
      + intros u k. pose proof (B_d _ HB u k). unfold fupd. eqd u t; [|assumption]. pose proof (Hinc t). lia.
      + intros x u. destruct (Hth u) as [Hq Hs]. rewrite Hs.
        destruct (B_rd _ HB x u) as [[A B]|[A|A]]; [left; split; [apply Hq; exact A|exact B]| |right; right; exact A].
        right; left. rewrite HK in A. pose proof (Hinc u). lia.
      + intros Hx. discriminate.
      + intros Hx. discriminate.
      + apply (B_race _ HB).
    - (* AWLdc *)
      wpre s HI Hp t.
      apply (B_frame s _ HB); proj; try reflexivity.
      + apply relc_frame.
      + apply held_frame; proj; congruence.
      + apply vle_fupd. apply acq_mono.
      + unfold K. proj. rewrite Hown, fupd_eq. apply acq_mono.
    - (* AWD1: a first drain that sees zero acquires every decrement of that counter *)
      wpre s HI Hp t. destruct Hwk as (Hl & Hph & _).
      assert (HK : K s = clk s t) by (unfold K; rewrite Hown; reflexivity).
      set (k1 := negb (lcl (ths s t))) in *.
      destruct ((curv s (cloc k1) =? 0)%Z) eqn:Ez.
      + apply (B_frame_ph s _ HB); proj; try reflexivity.
        * apply relc_frame.
        * apply held_frame; proj; congruence.
        * apply vle_fupd. apply acq_mono.
        * unfold K. proj. rewrite Hown, fupd_eq. apply acq_mono.
        * intros Hx. discriminate.
        * intros _ u. unfold K. proj. rewrite Hown, fupd_eq.
          pose proof (acq_mono (hs s (cloc k1)) (clk s t) u) as M1.
          pose proof (acq_relc (hs s (cloc k1)) (clk s t) u) as M2.
          pose proof (B_c _ HB u k1 u) as M3.
          destruct (B_rd _ HB (negb (rlv s)) u) as [A|[A|[A|A]]]; [left; exact A|right; left; rewrite HK in A; lia| |].
          -- unfold k1 in *. destruct (lcl (ths s t)); cbn in *; [right; right; exact A|right; left; lia].
          -- unfold k1 in *. destruct (lcl (ths s t)); cbn in *; [right; left; lia|right; right; exact A].
      + apply (B_frame s _ HB); proj; try reflexivity.
        * apply relc_frame.
        * apply held_frame; proj; congruence.
        * apply vle_fupd. apply acq_mono.
        * unfold K. proj. rewrite Hown, fupd_eq. apply acq_mono.
    - (* AWStc *)
      wpre s HI Hp t.
      apply (B_frame s _ HB); proj; try reflexivity.
      + intros k. destruct k; apply vle_refl.
      + apply held_frame; proj; congruence.
      + apply vle_fupd. apply vle_inc.
      + unfold K. proj. rewrite Hown, fupd_eq. apply vle_inc.
    - (* AWD2: a second drain that sees zero: no holder of the old copy is left, every decrement acquired *)
      wpre s HI Hp t. destruct Hwk as (Hl & Hph & Hg & _).
      assert (HK : K s = clk s t) by (unfold K; rewrite Hown; reflexivity).
      set (k2 := lcl (ths s t)) in *.
      destruct ((curv s (cloc k2) =? 0)%Z) eqn:Ez.
      + apply Z.eqb_eq in Ez.
        apply (B_frame_ph s _ HB); proj; try reflexivity.
        * apply relc_frame.
        * apply held_frame; proj; congruence.
        * apply vle_fupd. apply acq_mono.
        * unfold K. proj. rewrite Hown, fupd_eq. apply acq_mono.
        * intros _ u. unfold K. proj. rewrite Hown, fupd_eq.
          pose proof (acq_mono (hs s (cloc k2)) (clk s t) u) as M1.
          pose proof (acq_relc (hs s (cloc k2)) (clk s t) u) as M2.
          pose proof (B_c _ HB u k2 u) as M3.
          destruct (B_pc2 _ HB Hph u) as [[A B]|[A|A]]; [exfalso|rewrite HK in A; lia|rewrite Hg in A; lia].
          pose proof (A_hk _ HI u A) as (Hsd & _ & _). rewrite Hph in Hsd.
          destruct Hsd as [Hsd|Hsd]; [rewrite Hsd in B; destruct (rlv s); discriminate|].
          assert (Hr : registered (pc (ths s u)) = true) by (rewrite A; reflexivity).
          apply (zero_no_reg s k2 u HI Ez Hr). congruence.
        * intros Hx. discriminate.
      + apply (B_frame s _ HB); proj; try reflexivity.
        * apply relc_frame.
        * apply held_frame; proj; congruence.
        * apply vle_fupd. apply acq_mono.
        * unfold K. proj. rewrite Hown, fupd_eq. apply acq_mono.
    - (* AWWrite2 *)
      wpre s HI Hp t. destruct Hwk as (Hl & Hpa & _). rewrite Hl.
      apply (B_write s t _ _ HI HB Hown Hpa); proj; congruence.
    - (* AWUnlock: the owner's knowledge stays in the mutex *)
      wpre s HI Hp t.
      apply (B_frame s _ HB); proj; try reflexivity.
      + apply relc_frame.
      + apply held_frame; proj; congruence.
      + apply vle_fupd. apply vle_inc.
      + unfold K. proj. rewrite Hown. apply vle_join_r.
  Qed.

  Lemma stepB s a : InvA s -> InvB s -> ok N s a -> InvB (stepS s a).
  Proof.
    intros HI HB Hok. pose proof (stepB_reader s a HI HB Hok). pose proof (stepB_writer s a HI HB Hok).
    destruct a; assumption.
  Qed.

  Lemma InvA_init : InvA init.
  Proof.
    constructor; cbn; intros; try discriminate; auto.
    - assert (E : sumf (reg init k) N = 0) by (clear; induction N as [|n IH]; cbn; [reflexivity|rewrite IH; reflexivity]).
      rewrite E. destruct k; reflexivity.
  Qed.
  Lemma InvB_init : InvB init.
  Proof.
    constructor; cbn; intros; auto; try lia; try apply vzero_le.
  Qed.

  Notation runS := (run N sc_orders).
  Lemma run_inv tr : forall s, InvA s -> InvB s -> trace_ok N sc_orders s tr -> InvA (runS s tr) /\ InvB (runS s tr).
  Proof.
    induction tr as [|a r IH]; intros s HA HB Hok; cbn; [split; assumption|].
    unfold trace_ok in Hok. cbn in Hok. apply andb_true_iff in Hok as [Ha Hr].
    apply IH; [apply stepA|apply stepB|exact Hr]; assumption.
  Qed.
  Lemma trace_ok_app tr1 tr2 s : trace_ok N sc_orders s (tr1 ++ tr2) ->
    trace_ok N sc_orders s tr1 /\ trace_ok N sc_orders (runS s tr1) tr2.
  Proof.
    revert s. induction tr1 as [|a r IH]; intros s H; cbn in *; [split; [reflexivity|exact H]|].
    unfold trace_ok in *. cbn in H. apply andb_true_iff in H as [Ha Hr]. destruct (IH _ Hr) as [H1 H2].
    split; [cbn; rewrite Ha; exact H1|exact H2].
  Qed.
  Lemma run_app tr1 tr2 s : runS s (tr1 ++ tr2) = runS (runS s tr1) tr2.
  Proof. unfold run. apply fold_left_app. Qed.

  (* C07 / C03 for lr_guarded with the source's orders: whatever the interleaving of any number of
     readers and writers, no access to either copy is a data race *)
  Theorem lr_hb_race_free tr : trace_ok N sc_orders init tr -> race (runS init tr) = false.
  Proof. intros H. apply B_race. apply (run_inv tr init InvA_init InvB_init H). Qed.

  (* the happens-before facts behind it, in every state reached by a conforming trace:
     (1) the last write to the copy of a held handle happens-before its holder;
     (2) while the owner of the write mutex is in a phase in which it writes (PA), the last write to
         either copy and every read of the copy readers are not directed to happen-before it *)
  Theorem lr_hb_reads_after_write tr u : trace_ok N sc_orders init tr ->
    let s := runS init tr in pc (ths s u) = PHeld ->
    fwhen (fts s (side (ths s u))) <= clk s u (fwho (fts s (side (ths s u)))).
  Proof. intros H s Hu. apply B_h; [|exact Hu]. apply (run_inv tr init InvA_init InvB_init H). Qed.
  Theorem lr_hb_write_after_reads tr w : trace_ok N sc_orders init tr ->
    let s := runS init tr in mown s = Some w -> gph s = PA ->
    (forall x, fwhen (fts s x) <= clk s w (fwho (fts s x))) /\
    (forall u, fR (fts s (negb (rlv s))) u <= clk s w u).
  Proof.
    intros H s Hw Hpa. destruct (run_inv tr init InvA_init InvB_init H) as [_ HB]. fold s in HB.
    assert (HK : K s = clk s w) by (unfold K; rewrite Hw; reflexivity).
    split; [intros x; pose proof (B_w _ HB x) as E|intros u; pose proof (B_pa _ HB Hpa u) as E]; rewrite HK in E; exact E.
  Qed.

  (* no stale and no torn copy: a handle is completed on the visible copy, which holds exactly the
     committed sequence; what is read through it later is that sequence, a prefix of what is
     committed by then *)
  Theorem lr_hb_values tr u : trace_ok N sc_orders init (tr ++ [ARead u]) ->
    let s := runS init tr in
    lastv (runS init (tr ++ [ARead u])) u = snap (ths s u) /\ prefix (snap (ths s u)) (committed s).
  Proof.
    intros H s. destruct (trace_ok_app _ _ _ H) as [H1 H2]. fold s in H2.
    destruct (run_inv tr init InvA_init InvB_init H1) as [HA _]. fold s in HA.
    unfold trace_ok in H2. cbn in H2. rewrite andb_true_r in H2.
    destruct (ok_spec _ _ H2) as (_ & Hp & _). cbn in Hp.
    destruct (A_hk _ HA u Hp) as (_ & Hv & Hpre). split; [|exact Hpre].
    rewrite run_app. fold s. cbn. destruct (ft_read u (clk s u) (fts s (side (ths s u)))). cbn.
    rewrite fupd_eq. exact Hv.
  Qed.
  Theorem lr_hb_acquire_current tr u ch : trace_ok N sc_orders init (tr ++ [ARLdr u ch]) ->
    let s' := runS init (tr ++ [ARLdr u ch]) in
    pc (ths s' u) = PHeld /\ snap (ths s' u) = committed s' /\ vals s' (side (ths s' u)) = committed s'.
  Proof.
    intros H s'. destruct (run_inv _ init InvA_init InvB_init H) as [HA _]. fold s' in HA.
    assert (Hp : pc (ths s' u) = PHeld /\ snap (ths s' u) = committed s').
    { unfold s'. rewrite run_app. set (s0 := runS init tr). change (runS s0 [ARLdr u ch]) with (stepS s0 (ARLdr u ch)).
      cbn [step]. simp_orders. rewrite load_sc. proj. rewrite fupd_eq. split; reflexivity. }
    destruct Hp as [Hp Hs]. destruct (A_hk _ HA u Hp) as (_ & Hv & _). repeat split; congruence.
  Qed.
End Proofs.
