(* Invariants and lemmas for the TripWire model (property C19). *)
From Coq Require Import List Arith ZArith Lia Bool.
Import ListNotations.
From GV Require Import Sched Events Views TripWireModel.
Local Open Scope Z_scope.

Notation sysT := (sys glob loc).
Definition R (P : params) (progs : list (list op)) (s : sysT) : Prop :=
  reachable glob loc (tstep P) (init progs) s.

(* ---------- thread table access ---------- *)
Definition locof (ls : list loc) (u : nat) : loc :=
  match nth_error ls u with Some l => l | None => loc0 [] end.
Definition pcof (ls : list loc) (u : nat) : pc := at_ (locof ls u).
Lemma locof_upd ls t l l' u : nth_error ls t = Some l ->
  locof (upd ls t l') u = if Nat.eqb u t then l' else locof ls u.
Proof.
  intros H. unfold locof. destruct (Nat.eqb_spec u t) as [->|Hne].
  - rewrite (nth_upd_eq _ _ _ _ H). reflexivity.
  - rewrite nth_upd_ne by auto. reflexivity.
Qed.
Lemma locof_at ls t l : nth_error ls t = Some l -> locof ls t = l.
Proof. intros H. unfold locof. rewrite H. reflexivity. Qed.
Lemma locof_init progs u : locof (map loc0 progs) u = loc0 (nth u progs []).
Proof.
  unfold locof. rewrite nth_error_map. destruct (nth_error progs u) eqn:E; cbn.
  - rewrite (nth_error_nth _ _ _ E). reflexivity.
  - rewrite nth_overflow; [reflexivity|]. apply nth_error_None. exact E.
Qed.
Arguments locof : simpl never.
Arguments pcof : simpl never.

(* ---------- what the invoke step can do to the global state ---------- *)
Inductive disp_glob (P : params) (g : glob) : glob -> loc -> Prop :=
| dg_same lc' : (forall l, at_ lc' <> P_store l) -> disp_glob P g g lc'
| dg_null lc' : unfixed P = true -> at_ lc' = Idle -> disp_glob P g (set_null g) lc'
| dg_bump lc' l : at_ lc' = P_store l -> disp_glob P g (bump_destroyed g l) lc'.

Ltac disp_cases H :=
  unfold dispatch in H;
  repeat match type of H with
         | context [match ?x with _ => _ end] => destruct x eqn:?; cbn in H
         | context [if ?x then _ else _] => destruct x eqn:?; cbn in H
         end;
  inversion H; subst; clear H.

Lemma dispatch_glob P g lc o r g' lc' es :
  dispatch P g lc o r = (g', lc', es) -> disp_glob P g g' lc'.
Proof.
  intros H. disp_cases H;
    first [ apply dg_same; cbn; intros; discriminate
          | apply dg_null; [assumption|reflexivity]
          | apply dg_bump; reflexivity ].
Qed.

Lemma dispatch_prog P g lc o r g' lc' es :
  dispatch P g lc o r = (g', lc', es) -> prog lc' = r.
Proof. intros H. disp_cases H; reflexivity. Qed.

(* ---------- the basic invariant (every parameter choice, both semantics) ---------- *)
Record Inv0 (P : params) (g : glob) (ls : list loc) : Prop := {
  I_oneway : forall l m, In m (hs g l) -> mval m = 1;
  I_seen   : forall t l, (seen g t l <= length (hs g l))%nat;
  I_dh     : forall l, hs g l <> [] -> (0 < destroyed g l)%nat;
  I_dpc    : forall u l, pcof ls u = P_store l -> (0 < destroyed g l)%nat;
  I_null   : unfixed P = false -> gnull g = false
}.

Definition goto (lc : loc) (p : pc) : loc := Loc (prog lc) p (trg lc) (det lc).

Lemma Inv0_init P progs : Inv0 P (gl (init progs)) (thr (init progs)).
Proof.
  constructor; cbn; intros; try contradiction; try lia; try reflexivity; try congruence.
  unfold pcof in H. rewrite locof_init in H. discriminate.
Qed.

(* do_load never changes a history; do_store extends exactly one *)
Lemma hs_do_store P t l g l' :
  hs (do_store P t l g) l' = if Nat.eqb l' l then store_msg (st_mo P) t (clk g t) 1 :: hs g l else hs g l'.
Proof. unfold do_store; cbn. unfold fupd. destruct (Nat.eqb l' l) eqn:E; [apply Nat.eqb_eq in E; subst|]; reflexivity. Qed.
Lemma seen_do_store P t l g u l' :
  seen (do_store P t l g) u l' = if Nat.eqb u t && Nat.eqb l' l then Nat.max (seen g t l) (S (length (hs g l))) else seen g u l'.
Proof.
  unfold do_store; cbn. unfold fupd. destruct (Nat.eqb u t) eqn:E1; cbn; [|reflexivity].
  apply Nat.eqb_eq in E1; subst. reflexivity.
Qed.
Lemma seen_do_load P t ch l g u l' :
  seen (do_load P t ch l g) u l' =
  if Nat.eqb u t && Nat.eqb l' l then Nat.max (seen g t l) (read_stamp (hs g l) (load_idx P t ch l g)) else seen g u l'.
Proof.
  unfold do_load; cbn. unfold fupd. destruct (Nat.eqb u t) eqn:E1; cbn; [|reflexivity].
  apply Nat.eqb_eq in E1; subst. reflexivity.
Qed.

Lemma Inv0_step P : forall g ls t c l g' l' es,
  Inv0 P g ls -> nth_error ls t = Some l -> tstep P t c g l = Some (g', l', es) -> Inv0 P g' (upd ls t l').
Proof.
  intros g ls t c lc g' lc' es HI Hl Hs.
  destruct HI as [Hone Hseen Hdh Hdpc Hnull].
  assert (Hpt : pcof ls t = at_ lc) by (unfold pcof; rewrite (locof_at _ _ _ Hl); reflexivity).
  assert (Hpcu : forall u, pcof (upd ls t lc') u = if Nat.eqb u t then at_ lc' else pcof ls u).
  { intros u. unfold pcof. rewrite (locof_upd _ _ _ _ _ Hl). destruct (Nat.eqb u t); reflexivity. }
  unfold tstep in Hs. destruct (at_ lc) eqn:Hpc.
  - (* invoke *)
    destruct (prog lc) as [|o r] eqn:Hpr; [discriminate|]. inversion Hs as [Hd]; clear Hs.
    pose proof (dispatch_glob _ _ _ _ _ _ _ _ Hd) as HG.
    destruct HG as [lc' Hns|lc' Hu Hidle|lc' l0 Hst]; constructor; cbn; auto.
    + intros u l0. rewrite Hpcu. destruct (Nat.eqb u t); [intros E; exfalso; eapply Hns; eauto|apply Hdpc].
    + intros u l0. rewrite Hpcu. destruct (Nat.eqb u t); [rewrite Hidle; discriminate|apply Hdpc].
    + congruence.
    + intros l1 Hne. specialize (Hdh l1 Hne). unfold fupd. destruct (Nat.eqb l1 l0); lia.
    + intros u l1. rewrite Hpcu. unfold fupd. destruct (Nat.eqb u t).
      * rewrite Hst. intros E; inversion E; subst. rewrite Nat.eqb_refl. lia.
      * intros E. specialize (Hdpc u l1 E). destruct (Nat.eqb l1 l0); lia.
  - (* store *)
    inversion Hs; subst; clear Hs. constructor.
    + intros l0 m. rewrite hs_do_store. destruct (Nat.eqb l0 l); [|apply Hone].
      intros [<-|Hin]; [reflexivity|eapply Hone; eauto].
    + intros u l0. rewrite seen_do_store, hs_do_store.
      pose proof (Hseen u l0) as H1. pose proof (Hseen t l) as H2.
      destruct (Nat.eqb_spec u t) as [->|E1], (Nat.eqb_spec l0 l) as [->|E2]; cbn [andb length]; lia.
    + intros l0. rewrite hs_do_store. cbn. destruct (Nat.eqb_spec l0 l) as [->|Hne]; [|apply Hdh].
      intros _. apply (Hdpc t l). exact Hpt.
    + intros u l0. rewrite Hpcu. cbn. destruct (Nat.eqb u t); [discriminate|apply Hdpc].
    + exact Hnull.
  - (* load *)
    assert (Hg : g' = do_load P t c l g /\ (forall l0, at_ lc' <> P_store l0)).
    { destruct k as [d|]; [destruct (load_val P t c l g =? 0)|]; inversion Hs; subst; cbn; split; auto; discriminate. }
    destruct Hg as [-> Hns]. constructor; cbn; auto.
    + intros u l0. change (seen (do_load P t c l g) u l0 <= length (hs g l0))%nat. rewrite seen_do_load.
      destruct (Nat.eqb u t) eqn:E1, (Nat.eqb l0 l) eqn:E2; cbn [andb]; try apply Hseen.
      apply Nat.eqb_eq in E1, E2; subst. unfold read_stamp. specialize (Hseen t l). lia.
    + intros u l0. rewrite Hpcu. destruct (Nat.eqb u t); [intros E; exfalso; eapply Hns; eauto|apply Hdpc].
  - (* write begin *)
    unfold do_wbeg in Hs. cbn in Hs. inversion Hs; subst; clear Hs. constructor; cbn; auto.
    intros u l0. rewrite Hpcu. cbn. destruct (Nat.eqb u t); [discriminate|apply Hdpc].
  - inversion Hs; subst; clear Hs. constructor; cbn; auto.
    intros u l0. rewrite Hpcu. cbn. destruct (Nat.eqb u t); [discriminate|apply Hdpc].
  - unfold do_rbeg in Hs. cbn in Hs. inversion Hs; subst; clear Hs. constructor; cbn; auto.
    intros u l0. rewrite Hpcu. cbn. destruct (Nat.eqb u t); [discriminate|apply Hdpc].
  - unfold do_rend in Hs. cbn in Hs. inversion Hs; subst; clear Hs. constructor; cbn; auto.
    intros u l0. rewrite Hpcu. cbn. destruct (Nat.eqb u t); [discriminate|apply Hdpc].
Qed.

Lemma R_Inv0 P progs s : R P progs s -> Inv0 P (gl s) (thr s).
Proof.
  intros HR. eapply (reachable_inv glob loc (tstep P) (Inv0 P)); [apply Inv0_step| |exact HR].
  apply Inv0_init.
Qed.

(* ---------- which step emits which event ---------- *)
Lemma lobj_inj l l' : lobj l = lobj l' -> l = l'.
Proof. unfold lobj. lia. Qed.

Lemma dispatch_events P g lc o r g' lc' es e :
  dispatch P g lc o r = (g', lc', es) -> In e es ->
  ek e = K_INVOKE \/ ek e = K_RET \/ ek e = K_CATCH \/ ek e = K_FAULT.
Proof.
  intros H Hin. disp_cases H; cbn in Hin;
    repeat (destruct Hin as [<-|Hin]; [cbn; auto|]); contradiction.
Qed.

(* a load event is emitted exactly by the load step of isTripped, with the value the model read *)
Lemma load_event P t c g lc g' lc' es ob v m :
  tstep P t c g lc = Some (g', lc', es) -> In (Ev K_LOAD ob v m) es ->
  exists l k, at_ lc = P_load l k /\ ob = lobj l /\ v = load_val P t c l g /\ g' = do_load P t c l g.
Proof.
  intros Hs Hin. unfold tstep in Hs. destruct (at_ lc) eqn:Hpc.
  - destruct (prog lc); [discriminate|]. inversion Hs as [Hd]. 
    destruct (dispatch_events _ _ _ _ _ _ _ _ _ Hd Hin) as [E|[E|[E|E]]]; cbn in E; discriminate.
  - inversion Hs; subst. cbn in Hin. destruct Hin as [E|[E|[]]]; discriminate.
  - exists l, k. split; [reflexivity|].
    destruct k as [d|]; [destruct (load_val P t c l g =? 0)|]; inversion Hs; subst; cbn in Hin;
      repeat (destruct Hin as [E|Hin]; [inversion E; subst; auto; try discriminate|]); try contradiction.
  - unfold do_wbeg, wbeg_faults in Hs. cbn in Hs. inversion Hs; subst.
    apply in_app_or in Hin as [Hin|[E|[]]]; [|discriminate].
    apply in_app_or in Hin as [Hin|Hin];
      [destruct (0 <? crd (cells g d))%nat|destruct (cdirty (cells g d))]; cbn in Hin;
      try contradiction; destruct Hin as [E|[]]; discriminate.
  - inversion Hs; subst. cbn in Hin. destruct Hin as [E|[E|[]]]; discriminate.
  - unfold do_rbeg in Hs. cbn in Hs. inversion Hs; subst.
    apply in_app_or in Hin as [Hin|[E|[]]]; [|discriminate].
    destruct (cdirty (cells g d)); cbn in Hin; try contradiction; destruct Hin as [E|[]]; discriminate.
  - unfold do_rend in Hs. cbn in Hs. inversion Hs; subst.
    apply in_app_or in Hin as [Hin|[E|[]]]; [|discriminate].
    apply in_app_or in Hin as [Hin|[E|[]]]; [|discriminate].
    destruct (cdirty (cells g d)); cbn in Hin; try contradiction; destruct Hin as [E|[]]; discriminate.
Qed.

(* a store event is emitted exactly by the store step of ~TripWireTrigger, always with value true *)
Lemma store_event P t c g lc g' lc' es ob v m :
  tstep P t c g lc = Some (g', lc', es) -> In (Ev K_STORE ob v m) es ->
  exists l, at_ lc = P_store l /\ ob = lobj l /\ v = 1 /\ g' = do_store P t l g.
Proof.
  intros Hs Hin. unfold tstep in Hs. destruct (at_ lc) eqn:Hpc.
  - destruct (prog lc); [discriminate|]. inversion Hs as [Hd].
    destruct (dispatch_events _ _ _ _ _ _ _ _ _ Hd Hin) as [E|[E|[E|E]]]; cbn in E; discriminate.
  - inversion Hs; subst. cbn in Hin. destruct Hin as [E|[E|[]]]; [|discriminate].
    inversion E; subst. exists l. auto.
  - destruct k as [d|]; [destruct (load_val P t c l g =? 0)|]; inversion Hs; subst; cbn in Hin;
      repeat (destruct Hin as [E|Hin]; [discriminate|]); contradiction.
  - unfold do_wbeg, wbeg_faults in Hs. cbn in Hs. inversion Hs; subst.
    apply in_app_or in Hin as [Hin|[E|[]]]; [|discriminate].
    apply in_app_or in Hin as [Hin|Hin];
      [destruct (0 <? crd (cells g d))%nat|destruct (cdirty (cells g d))]; cbn in Hin;
      try contradiction; destruct Hin as [E|[]]; discriminate.
  - inversion Hs; subst. cbn in Hin. destruct Hin as [E|[E|[]]]; discriminate.
  - unfold do_rbeg in Hs. cbn in Hs. inversion Hs; subst.
    apply in_app_or in Hin as [Hin|[E|[]]]; [|discriminate].
    destruct (cdirty (cells g d)); cbn in Hin; try contradiction; destruct Hin as [E|[]]; discriminate.
  - unfold do_rend in Hs. cbn in Hs. inversion Hs; subst.
    apply in_app_or in Hin as [Hin|[E|[]]]; [|discriminate].
    apply in_app_or in Hin as [Hin|[E|[]]]; [|discriminate].
    destruct (cdirty (cells g d)); cbn in Hin; try contradiction; destruct Hin as [E|[]]; discriminate.
Qed.

(* the value a load returns: 1 iff it read a real message (given one-way), 0 for the initial value *)
Lemma load_val_cases P t c l g :
  (forall m, In m (hs g l) -> mval m = 1) ->
  (load_val P t c l g = 1 /\ (load_idx P t c l g < length (hs g l))%nat) \/
  (load_val P t c l g = 0 /\ (length (hs g l) <= load_idx P t c l g)%nat).
Proof.
  intros Hone. unfold load_val, read_val. destruct (nth_error (hs g l) (load_idx P t c l g)) as [m|] eqn:E.
  - left. split; [apply Hone; eapply nth_error_In; eauto|]. apply nth_error_Some. congruence.
  - right. split; [reflexivity|]. apply nth_error_None. exact E.
Qed.

(* ---------- C19, first sentence ---------- *)
Lemma false_until P progs s t c lc g' lc' es l m :
  R P progs s -> nth_error (thr s) t = Some lc -> tstep P t c (gl s) lc = Some (g', lc', es) ->
  In (Ev K_LOAD (lobj l) 1 m) es -> (0 < destroyed (gl s) l)%nat.
Proof.
  intros HR Hl Hs Hin. pose proof (R_Inv0 _ _ _ HR) as HI.
  destruct (load_event _ _ _ _ _ _ _ _ _ _ _ Hs Hin) as (l0 & k & Hpc & Hob & Hv & _).
  apply lobj_inj in Hob. subst l0.
  apply (I_dh _ _ _ HI). intros E.
  destruct (load_val_cases P t c l (gl s) (I_oneway _ _ _ HI l)) as [[_ Hlt]|[H0 _]].
  - rewrite E in Hlt. cbn in Hlt. lia.
  - rewrite H0 in Hv. discriminate.
Qed.

Lemma one_way P progs s l m : R P progs s -> In m (hs (gl s) l) -> mval m = 1.
Proof. intros HR. apply (I_oneway _ _ _ (R_Inv0 _ _ _ HR)). Qed.

Lemma store_only_true P t c g lc g' lc' es ob v m :
  tstep P t c g lc = Some (g', lc', es) -> In (Ev K_STORE ob v m) es -> v = 1.
Proof. intros Hs Hin. destruct (store_event _ _ _ _ _ _ _ _ _ _ _ Hs Hin) as (l & _ & _ & Hv & _). exact Hv. Qed.

Lemma no_null_deref P progs s : unfixed P = false -> R P progs s -> gnull (gl s) = false.
Proof. intros Hu HR. apply (I_null _ _ _ (R_Inv0 _ _ _ HR) Hu). Qed.
