(* Invariants and lemmas for the TripWire model (property C19). *)
From Coq Require Import List Arith ZArith Lia Bool.
Import ListNotations.
From GV Require Import Sched Events Views TripWireModel.
Local Open Scope Z_scope.

Notation sysT := (sys glob loc).
Definition R (P : params) (progs : list (list op)) (s : sysT) : Prop :=
  reachable glob loc (tstep P) (init progs) s.

(* ---------- thread table access ---------- *)
Definition locof (ls : list loc) (u : nat) : loc :=
  match nth_error ls u with Some l => l | None => loc0 [] end.
Definition pcof (ls : list loc) (u : nat) : pc := at_ (locof ls u).
Lemma locof_upd ls t l l' u : nth_error ls t = Some l ->
  locof (upd ls t l') u = if Nat.eqb u t then l' else locof ls u.
Proof.
  intros H. unfold locof. destruct (Nat.eqb_spec u t) as [->|Hne].
  - rewrite (nth_upd_eq _ _ _ _ H). reflexivity.
  - rewrite nth_upd_ne by auto. reflexivity.
Qed.
Lemma locof_at ls t l : nth_error ls t = Some l -> locof ls t = l.
Proof. intros H. unfold locof. rewrite H. reflexivity. Qed.
Lemma locof_init progs u : locof (map loc0 progs) u = loc0 (nth u progs []).
Proof.
  unfold locof. rewrite nth_error_map. destruct (nth_error progs u) eqn:E; cbn.
  - rewrite (nth_error_nth _ _ _ E). reflexivity.
  - rewrite nth_overflow; [reflexivity|]. apply nth_error_None. exact E.
Qed.
Arguments locof : simpl never.
Arguments pcof : simpl never.

(* ---------- what the invoke step can do to the global state ---------- *)
Inductive disp_glob (P : params) (g : glob) : glob -> loc -> Prop :=
| dg_same lc' : (forall l, at_ lc' <> P_store l) -> disp_glob P g g lc'
| dg_null lc' : unfixed P = true -> at_ lc' = Idle -> disp_glob P g (set_null g) lc'
| dg_bump lc' l : at_ lc' = P_store l -> disp_glob P g (bump_destroyed g l) lc'
| dg_rel lc' l : at_ lc' = Idle -> disp_glob P g (set_released g l) lc'
| dg_sdet lc' s l : at_ lc' = Idle -> disp_glob P g (set_sdet g s l) lc'.

Ltac disp_destruct H :=
  repeat match type of H with
         | context [match ?x with _ => _ end] => destruct x eqn:?; cbn in H
         | context [if ?x then _ else _] => destruct x eqn:?; cbn in H
         end;
  inversion H; subst; clear H.
Ltac disp_cases H :=
  unfold dispatch in H;
  repeat match type of H with
         | context [match ?x with _ => _ end] => destruct x eqn:?; cbn in H
         | context [if ?x then _ else _] => destruct x eqn:?; cbn in H
         end;
  inversion H; subst; clear H.

Lemma dispatch_glob P g lc o r g' lc' es :
  dispatch P g lc o r = (g', lc', es) -> disp_glob P g g' lc'.
Proof.
  intros H. disp_cases H;
    first [ apply dg_same; cbn; intros; discriminate
          | apply dg_null; [assumption|reflexivity]
          | apply dg_bump; reflexivity
          | apply dg_rel; reflexivity
          | apply dg_sdet; reflexivity ].
Qed.

Lemma dispatch_prog P g lc o r g' lc' es :
  dispatch P g lc o r = (g', lc', es) -> prog lc' = r.
Proof. intros H. disp_cases H; reflexivity. Qed.

(* ---------- the basic invariant (every parameter choice, both semantics) ---------- *)
Record Inv0 (P : params) (g : glob) (ls : list loc) : Prop := {
  I_oneway : forall l m, In m (hs g l) -> mval m = 1;
  I_seen   : forall t l, (seen g t l <= length (hs g l))%nat;
  I_dh     : forall l, hs g l <> [] -> (0 < destroyed g l)%nat;
  I_dpc    : forall u l, pcof ls u = P_store l -> (0 < destroyed g l)%nat;
  I_null   : unfixed P = false -> gnull g = false
}.

Definition goto (lc : loc) (p : pc) : loc := Loc (prog lc) p (trg lc) (det lc).

Lemma Inv0_init P progs : Inv0 P (gl (init progs)) (thr (init progs)).
Proof.
  constructor; cbn; intros; try contradiction; try lia; try reflexivity; try congruence.
  unfold pcof in H. rewrite locof_init in H. discriminate.
Qed.

(* do_load never changes a history; do_store extends exactly one *)
Lemma hs_do_store P t l g l' :
  hs (do_store P t l g) l' = if Nat.eqb l' l then store_msg (st_mo P) t (clk g t) 1 :: hs g l else hs g l'.
Proof. unfold do_store; cbn. unfold fupd. destruct (Nat.eqb l' l) eqn:E; [apply Nat.eqb_eq in E; subst|]; reflexivity. Qed.
Lemma seen_do_store P t l g u l' :
  seen (do_store P t l g) u l' = if Nat.eqb u t && Nat.eqb l' l then Nat.max (seen g t l) (S (length (hs g l))) else seen g u l'.
Proof.
  unfold do_store; cbn. unfold fupd. destruct (Nat.eqb u t) eqn:E1; cbn; [|reflexivity].
  apply Nat.eqb_eq in E1; subst. reflexivity.
Qed.
Lemma seen_do_load P t ch l g u l' :
  seen (do_load P t ch l g) u l' =
  if Nat.eqb u t && Nat.eqb l' l then Nat.max (seen g t l) (read_stamp (hs g l) (load_idx P t ch l g)) else seen g u l'.
Proof.
  unfold do_load; cbn. unfold fupd. destruct (Nat.eqb u t) eqn:E1; cbn; [|reflexivity].
  apply Nat.eqb_eq in E1; subst. reflexivity.
Qed.

Lemma Inv0_step P : forall g ls t c l g' l' es,
  Inv0 P g ls -> nth_error ls t = Some l -> tstep P t c g l = Some (g', l', es) -> Inv0 P g' (upd ls t l').
Proof.
  intros g ls t c lc g' lc' es HI Hl Hs.
  destruct HI as [Hone Hseen Hdh Hdpc Hnull].
  assert (Hpt : pcof ls t = at_ lc) by (unfold pcof; rewrite (locof_at _ _ _ Hl); reflexivity).
  assert (Hpcu : forall u, pcof (upd ls t lc') u = if Nat.eqb u t then at_ lc' else pcof ls u).
  { intros u. unfold pcof. rewrite (locof_upd _ _ _ _ _ Hl). destruct (Nat.eqb u t); reflexivity. }
  unfold tstep in Hs. destruct (at_ lc) eqn:Hpc.
  - (* invoke *)
    destruct (prog lc) as [|o r] eqn:Hpr; [discriminate|]. inversion Hs as [Hd]; clear Hs.
    pose proof (dispatch_glob _ _ _ _ _ _ _ _ Hd) as HG.
    destruct HG as [lc' Hns|lc' Hu Hidle|lc' l0 Hst|lc' l0 Hidle|lc' s0 l0 Hidle]; constructor; cbn; auto.
    6: { intros u l1. rewrite Hpcu. destruct (Nat.eqb u t); [rewrite Hidle; discriminate|apply Hdpc]. }
    6: { intros u l1. rewrite Hpcu. destruct (Nat.eqb u t); [rewrite Hidle; discriminate|apply Hdpc]. }
    + intros u l0. rewrite Hpcu. destruct (Nat.eqb u t); [intros E; exfalso; eapply Hns; eauto|apply Hdpc].
    + intros u l0. rewrite Hpcu. destruct (Nat.eqb u t); [rewrite Hidle; discriminate|apply Hdpc].
    + congruence.
    + intros l1 Hne. specialize (Hdh l1 Hne). unfold fupd. destruct (Nat.eqb l1 l0); lia.
    + intros u l1. rewrite Hpcu. unfold fupd. destruct (Nat.eqb u t).
      * rewrite Hst. intros E; inversion E; subst. rewrite Nat.eqb_refl. lia.
      * intros E. specialize (Hdpc u l1 E). destruct (Nat.eqb l1 l0); lia.
  - (* store *)
    inversion Hs; subst; clear Hs. constructor.
    + intros l0 m. rewrite hs_do_store. destruct (Nat.eqb l0 l); [|apply Hone].
      intros [<-|Hin]; [reflexivity|eapply Hone; eauto].
    + intros u l0. rewrite seen_do_store, hs_do_store.
      pose proof (Hseen u l0) as H1. pose proof (Hseen t l) as H2.
      destruct (Nat.eqb_spec u t) as [->|E1], (Nat.eqb_spec l0 l) as [->|E2]; cbn [andb length]; lia.
    + intros l0. rewrite hs_do_store. cbn. destruct (Nat.eqb_spec l0 l) as [->|Hne]; [|apply Hdh].
      intros _. apply (Hdpc t l). exact Hpt.
    + intros u l0. rewrite Hpcu. cbn. destruct (Nat.eqb u t); [discriminate|apply Hdpc].
    + exact Hnull.
  - (* load *)
    assert (Hg : g' = do_load P t c l g /\ (forall l0, at_ lc' <> P_store l0)).
    { destruct k as [d|]; [destruct (load_val P t c l g =? 0)|]; inversion Hs; subst; cbn; split; auto; discriminate. }
    destruct Hg as [-> Hns]. constructor; cbn; auto.
    + intros u l0. change (seen (do_load P t c l g) u l0 <= length (hs g l0))%nat. rewrite seen_do_load.
      destruct (Nat.eqb u t) eqn:E1, (Nat.eqb l0 l) eqn:E2; cbn [andb]; try apply Hseen.
      apply Nat.eqb_eq in E1, E2; subst. unfold read_stamp. specialize (Hseen t l). lia.
    + intros u l0. rewrite Hpcu. destruct (Nat.eqb u t); [intros E; exfalso; eapply Hns; eauto|apply Hdpc].
  - (* write begin *)
    unfold do_wbeg in Hs. cbn in Hs. inversion Hs; subst; clear Hs. constructor; cbn; auto.
    intros u l0. rewrite Hpcu. cbn. destruct (Nat.eqb u t); [discriminate|apply Hdpc].
  - inversion Hs; subst; clear Hs. constructor; cbn; auto.
    intros u l0. rewrite Hpcu. cbn. destruct (Nat.eqb u t); [discriminate|apply Hdpc].
  - unfold do_rbeg in Hs. cbn in Hs. inversion Hs; subst; clear Hs. constructor; cbn; auto.
    intros u l0. rewrite Hpcu. cbn. destruct (Nat.eqb u t); [discriminate|apply Hdpc].
  - unfold do_rend in Hs. cbn in Hs. inversion Hs; subst; clear Hs. constructor; cbn; auto.
    intros u l0. rewrite Hpcu. cbn. destruct (Nat.eqb u t); [discriminate|apply Hdpc].
Qed.

Lemma R_Inv0 P progs s : R P progs s -> Inv0 P (gl s) (thr s).
Proof.
  intros HR. eapply (reachable_inv glob loc (tstep P) (Inv0 P)); [apply Inv0_step| |exact HR].
  apply Inv0_init.
Qed.

(* ---------- which step emits which event ---------- *)
Lemma lobj_inj l l' : lobj l = lobj l' -> l = l'.
Proof. unfold lobj. lia. Qed.

Lemma dispatch_events P g lc o r g' lc' es e :
  dispatch P g lc o r = (g', lc', es) -> In e es ->
  ek e = K_INVOKE \/ ek e = K_RET \/ ek e = K_CATCH \/ ek e = K_FAULT.
Proof.
  intros H Hin. disp_cases H; cbn in Hin;
    repeat (destruct Hin as [<-|Hin]; [cbn; auto|]); contradiction.
Qed.

Lemma wbeg_faults_kind x d e : In e (wbeg_faults x d) -> ek e = K_FAULT.
Proof.
  unfold wbeg_faults. intros H. apply in_app_or in H as [H|H];
    [destruct (0 <? crd x)%nat|destruct (cdirty x)]; cbn in H; try contradiction;
    destruct H as [<-|[]]; reflexivity.
Qed.
Lemma do_wbeg_events P t d g e : In e (snd (do_wbeg P t d g)) -> ek e = K_FAULT \/ ek e = K_WR_BEGIN.
Proof.
  unfold do_wbeg, ft_write. cbn [snd]. intros H. apply in_app_or in H as [H|[<-|[]]]; [|right; reflexivity].
  left. eapply wbeg_faults_kind; eauto.
Qed.
Lemma do_rbeg_events t d g e : In e (snd (do_rbeg t d g)) -> ek e = K_FAULT \/ ek e = K_RD_BEGIN.
Proof.
  unfold do_rbeg, ft_read. cbn [snd]. intros H. apply in_app_or in H as [H|[<-|[]]]; [|right; reflexivity].
  left. destruct (cdirty (cells g d)); cbn in H; try contradiction. destruct H as [<-|[]]; reflexivity.
Qed.
Lemma do_rend_events d g e : In e (snd (do_rend d g)) -> ek e = K_FAULT \/ ek e = K_RD_END.
Proof.
  unfold do_rend. cbn [snd]. intros H. apply in_app_or in H as [H|[<-|[]]]; [|right; reflexivity].
  left. destruct (cdirty (cells g d)); cbn in H; try contradiction. destruct H as [<-|[]]; reflexivity.
Qed.

(* the shape of every step: new global state and the kinds of the emitted events, per pc *)
Definition step_shape (P : params) (t c : nat) (g : glob) (lc : loc) (g' : glob) (lc' : loc) (es : list ev) : Prop :=
  match at_ lc with
  | Idle => exists o r, prog lc = o :: r /\ dispatch P g lc o r = (g', lc', es)
  | P_store l => g' = do_store P t l g /\ lc' = goto lc Idle /\
                 es = [EA K_STORE (lobj l) 1 (mo_code (st_mo P)); ret 0]
  | P_load l k => g' = do_load P t c l g /\
                  (forall e, In e es -> e = EA K_LOAD (lobj l) (load_val P t c l g) (mo_code (ld_mo P)) \/ ek e = K_RET) /\
                  lc' = goto lc (match k with
                                 | None => Idle
                                 | Some d => if load_val P t c l g =? 0 then Idle else P_rbeg d
                                 end)
  | P_wbeg d v => g' = fst (do_wbeg P t d g) /\ lc' = goto lc (P_wend d v) /\
                  (forall e, In e es -> ek e = K_FAULT \/ ek e = K_WR_BEGIN)
  | P_wend d v => g' = do_wend d v g /\ lc' = goto lc Idle /\ es = [E K_WR_END (dobj d) v; ret 0]
  | P_rbeg d => g' = fst (do_rbeg t d g) /\ lc' = goto lc (P_rend d) /\
                (forall e, In e es -> ek e = K_FAULT \/ ek e = K_RD_BEGIN)
  | P_rend d => g' = fst (do_rend d g) /\ lc' = goto lc Idle /\
                (forall e, In e es -> ek e = K_FAULT \/ ek e = K_RD_END \/ ek e = K_RET)
  end.

Lemma tstep_shape P t c g lc g' lc' es :
  tstep P t c g lc = Some (g', lc', es) -> step_shape P t c g lc g' lc' es.
Proof.
  intros Hs. unfold tstep in Hs. unfold step_shape. destruct (at_ lc) eqn:Hpc.
  - destruct (prog lc) as [|o r]; [discriminate|]. inversion Hs. eauto.
  - inversion Hs; subst. auto.
  - cbv zeta in Hs. fold (goto lc Idle) in Hs.
    destruct k as [d|]; [destruct (load_val P t c l g =? 0)|]; inversion Hs; subst;
      (split; [reflexivity|split; [|reflexivity]]); intros e He; cbn in He;
      intuition (subst; auto).
  - destruct (do_wbeg P t d g) as [g1 es1] eqn:Ew. inversion Hs; subst.
    split; [reflexivity|split; [reflexivity|]]. intros e He. apply (do_wbeg_events P t d g). rewrite Ew. exact He.
  - inversion Hs; subst. auto.
  - destruct (do_rbeg t d g) as [g1 es1] eqn:Ew. inversion Hs; subst.
    split; [reflexivity|split; [reflexivity|]]. intros e He. apply (do_rbeg_events t d g). rewrite Ew. exact He.
  - destruct (do_rend d g) as [g1 es1] eqn:Ew. inversion Hs; subst.
    split; [reflexivity|split; [reflexivity|]]. intros e He. apply in_app_or in He as [He|[<-|[]]]; [|auto].
    destruct (do_rend_events d g e) as [E|E]; [rewrite Ew; exact He|auto|auto].
Qed.

(* a load event is emitted exactly by the load step of isTripped, with the value the model read *)
Lemma load_event P t c g lc g' lc' es ob v m :
  tstep P t c g lc = Some (g', lc', es) -> In (Ev K_LOAD ob v m) es ->
  exists l k, at_ lc = P_load l k /\ ob = lobj l /\ v = load_val P t c l g /\ g' = do_load P t c l g.
Proof.
  intros Hs Hin. pose proof (tstep_shape _ _ _ _ _ _ _ _ Hs) as Sh. unfold step_shape in Sh.
  destruct (at_ lc) eqn:Hpc.
  - destruct Sh as (o & r & _ & Hd).
    destruct (dispatch_events _ _ _ _ _ _ _ _ _ Hd Hin) as [E|[E|[E|E]]]; cbn in E; discriminate.
  - destruct Sh as (_ & _ & ->). cbn in Hin. destruct Hin as [E|[E|[]]]; discriminate.
  - destruct Sh as (-> & He & _). exists l, k. split; [reflexivity|].
    destruct (He _ Hin) as [E|E]; [|cbn in E; discriminate]. inversion E; subst. auto.
  - destruct Sh as (_ & _ & He). destruct (He _ Hin) as [E|E]; cbn in E; discriminate.
  - destruct Sh as (_ & _ & ->). cbn in Hin. destruct Hin as [E|[E|[]]]; discriminate.
  - destruct Sh as (_ & _ & He). destruct (He _ Hin) as [E|E]; cbn in E; discriminate.
  - destruct Sh as (_ & _ & He). destruct (He _ Hin) as [E|[E|E]]; cbn in E; discriminate.
Qed.

(* a store event is emitted exactly by the store step of ~TripWireTrigger, always with value true *)
Lemma store_event P t c g lc g' lc' es ob v m :
  tstep P t c g lc = Some (g', lc', es) -> In (Ev K_STORE ob v m) es ->
  exists l, at_ lc = P_store l /\ ob = lobj l /\ v = 1 /\ g' = do_store P t l g.
Proof.
  intros Hs Hin. pose proof (tstep_shape _ _ _ _ _ _ _ _ Hs) as Sh. unfold step_shape in Sh.
  destruct (at_ lc) eqn:Hpc.
  - destruct Sh as (o & r & _ & Hd).
    destruct (dispatch_events _ _ _ _ _ _ _ _ _ Hd Hin) as [E|[E|[E|E]]]; cbn in E; discriminate.
  - destruct Sh as (-> & _ & ->). cbn in Hin. destruct Hin as [E|[E|[]]]; [|discriminate].
    inversion E; subst. exists l. auto.
  - destruct Sh as (_ & He & _). destruct (He _ Hin) as [E|E]; [discriminate|cbn in E; discriminate].
  - destruct Sh as (_ & _ & He). destruct (He _ Hin) as [E|E]; cbn in E; discriminate.
  - destruct Sh as (_ & _ & ->). cbn in Hin. destruct Hin as [E|[E|[]]]; discriminate.
  - destruct Sh as (_ & _ & He). destruct (He _ Hin) as [E|E]; cbn in E; discriminate.
  - destruct Sh as (_ & _ & He). destruct (He _ Hin) as [E|[E|E]]; cbn in E; discriminate.
Qed.

(* the value a load returns: 1 iff it read a real message (given one-way), 0 for the initial value *)
Lemma load_val_cases P t c l g :
  (forall m, In m (hs g l) -> mval m = 1) ->
  (load_val P t c l g = 1 /\ (load_idx P t c l g < length (hs g l))%nat) \/
  (load_val P t c l g = 0 /\ (length (hs g l) <= load_idx P t c l g)%nat).
Proof.
  intros Hone. unfold load_val, read_val. destruct (nth_error (hs g l) (load_idx P t c l g)) as [m|] eqn:E.
  - left. split; [apply Hone; eapply nth_error_In; eauto|]. apply nth_error_Some. congruence.
  - right. split; [reflexivity|]. apply nth_error_None. exact E.
Qed.

(* ---------- C19, first sentence ---------- *)
Lemma false_until P progs s t c lc g' lc' es l m :
  R P progs s -> nth_error (thr s) t = Some lc -> tstep P t c (gl s) lc = Some (g', lc', es) ->
  In (Ev K_LOAD (lobj l) 1 m) es -> (0 < destroyed (gl s) l)%nat.
Proof.
  intros HR Hl Hs Hin. pose proof (R_Inv0 _ _ _ HR) as HI.
  destruct (load_event _ _ _ _ _ _ _ _ _ _ _ Hs Hin) as (l0 & k & Hpc & Hob & Hv & _).
  apply lobj_inj in Hob. subst l0.
  apply (I_dh _ _ _ HI). intros E.
  destruct (load_val_cases P t c l (gl s) (I_oneway _ _ _ HI l)) as [[_ Hlt]|[H0 _]].
  - rewrite E in Hlt. cbn in Hlt. lia.
  - rewrite H0 in Hv. discriminate.
Qed.

Lemma one_way P progs s l m : R P progs s -> In m (hs (gl s) l) -> mval m = 1.
Proof. intros HR. apply (I_oneway _ _ _ (R_Inv0 _ _ _ HR)). Qed.

Lemma store_only_true P t c g lc g' lc' es ob v m :
  tstep P t c g lc = Some (g', lc', es) -> In (Ev K_STORE ob v m) es -> v = 1.
Proof. intros Hs Hin. destruct (store_event _ _ _ _ _ _ _ _ _ _ _ Hs Hin) as (l & _ & _ & Hv & _). exact Hv. Qed.

Lemma no_null_deref P progs s : unfixed P = false -> R P progs s -> gnull (gl s) = false.
Proof. intros Hu HR. apply (I_null _ _ _ (R_Inv0 _ _ _ HR) Hu). Qed.

(* ---------- monotone parts of the state ---------- *)
Definition grows (g g' : glob) : Prop :=
  (forall u l, (seen g u l <= seen g' u l)%nat) /\
  (forall l, (length (hs g l) <= length (hs g' l))%nat) /\
  (forall u, vle (clk g u) (clk g' u)).

Lemma grows_refl g : grows g g.
Proof. repeat split; intros; try lia. apply vle_refl. Qed.
Lemma grows_trans a b c : grows a b -> grows b c -> grows a c.
Proof.
  intros (A1 & A2 & A3) (B1 & B2 & B3). repeat split; intros.
  - specialize (A1 u l). specialize (B1 u l). lia.
  - specialize (A2 l). specialize (B2 l). lia.
  - eapply vle_trans; eauto.
Qed.

Lemma clk_fupd_mono (k : nat -> vc) t v u : vle (k t) v -> vle (k u) (fupd k t v u).
Proof. intros H. unfold fupd. destruct (Nat.eqb_spec u t) as [->|]; [exact H|apply vle_refl]. Qed.

Lemma tstep_grows P t c g lc g' lc' es : tstep P t c g lc = Some (g', lc', es) -> grows g g'.
Proof.
  intros Hs. pose proof (tstep_shape _ _ _ _ _ _ _ _ Hs) as Sh. unfold step_shape in Sh.
  destruct (at_ lc) eqn:Hpc.
  - destruct Sh as (o & r & _ & Hd). destruct (dispatch_glob _ _ _ _ _ _ _ _ Hd); repeat split; cbn; intros; try lia; apply vle_refl.
  - destruct Sh as (-> & _ & _). repeat split; intros.
    + rewrite seen_do_store. destruct (Nat.eqb_spec u t) as [->|], (Nat.eqb_spec l0 l) as [->|]; cbn [andb]; lia.
    + rewrite hs_do_store. destruct (Nat.eqb_spec l0 l) as [->|]; cbn [length]; lia.
    + cbn. apply clk_fupd_mono. apply vle_inc.
  - destruct Sh as (-> & _ & _). repeat split; intros.
    + rewrite seen_do_load. destruct (Nat.eqb_spec u t) as [->|], (Nat.eqb_spec l0 l) as [->|]; cbn [andb]; lia.
    + cbn. lia.
    + cbn. apply clk_fupd_mono. apply read_clock_mono.
  - destruct Sh as (-> & _ & _). unfold do_wbeg, ft_write. repeat split; cbn; intros; try lia; apply vle_refl.
  - destruct Sh as (-> & _ & _). repeat split; cbn; intros; try lia; apply vle_refl.
  - destruct Sh as (-> & _ & _). unfold do_rbeg, ft_read. repeat split; cbn; intros; try lia; apply vle_refl.
  - destruct Sh as (-> & _ & _). repeat split; cbn; intros; try lia; apply vle_refl.
Qed.

Lemma step_sys P (s : sysT) tc :
  step glob loc (tstep P) s tc = s \/
  exists t c lc g' lc' es, tc = (t, c) /\ nth_error (thr s) t = Some lc /\
    tstep P t c (gl s) lc = Some (g', lc', es) /\ step glob loc (tstep P) s tc = Sys g' (upd (thr s) t lc').
Proof.
  unfold step, sys_step. destruct tc as [t c].
  destruct (nth_error (thr s) t) as [lc|] eqn:Hl; [|left; reflexivity].
  destruct (tstep P t c (gl s) lc) as [[[g' lc'] es]|] eqn:Hs; [|left; reflexivity].
  right. exists t, c, lc, g', lc', es. auto.
Qed.

Lemma reachable_grows P (s s' : sysT) : reachable glob loc (tstep P) s s' -> grows (gl s) (gl s').
Proof.
  intros [sc ->].
  apply (run_rel glob loc (tstep P) (fun a b => grows (gl a) (gl b))).
  - intros; apply grows_refl.
  - intros a b c; apply grows_trans.
  - intros a tc. destruct (step_sys P a tc) as [->|(t & c & lc & g' & lc' & es & _ & _ & Hs & ->)].
    + apply grows_refl.
    + cbn. eapply tstep_grows; eauto.
Qed.

(* ---------- monotone per thread (coherence) ---------- *)
Lemma load_seen P t c l g : load_val P t c l g = 1 -> (0 < seen (do_load P t c l g) t l)%nat.
Proof.
  intros Hv. rewrite seen_do_load, !Nat.eqb_refl. cbn [andb]. unfold read_stamp.
  unfold load_val, read_val in Hv. destruct (nth_error (hs g l) (load_idx P t c l g)) eqn:E; [|discriminate].
  assert (load_idx P t c l g < length (hs g l))%nat by (apply nth_error_Some; congruence). lia.
Qed.

Lemma seen_load_true P progs s t c l : R P progs s -> (0 < seen (gl s) t l)%nat -> load_val P t c l (gl s) = 1.
Proof.
  intros HR Hs. pose proof (R_Inv0 _ _ _ HR) as HI.
  destruct (pick_bounds (views P) (hs (gl s) l) (clk (gl s) t) (seen (gl s) t l) c (I_seen _ _ _ HI t l)) as [_ Hb].
  fold (load_idx P t c l (gl s)) in Hb.
  destruct (load_val_cases P t c l (gl s) (I_oneway _ _ _ HI l)) as [[H1 _]|[_ Hge]]; [exact H1|lia].
Qed.

Lemma monotone P progs s1 t c1 lc1 g1 lc1' es1 l m1 s2 c2 lc2 g2 lc2' es2 v m2 :
  R P progs s1 -> nth_error (thr s1) t = Some lc1 -> tstep P t c1 (gl s1) lc1 = Some (g1, lc1', es1) ->
  In (Ev K_LOAD (lobj l) 1 m1) es1 ->
  reachable glob loc (tstep P) (Sys g1 (upd (thr s1) t lc1')) s2 ->
  nth_error (thr s2) t = Some lc2 -> tstep P t c2 (gl s2) lc2 = Some (g2, lc2', es2) ->
  In (Ev K_LOAD (lobj l) v m2) es2 -> v = 1.
Proof.
  intros HR Hl1 Hs1 Hin1 Hreach Hl2 Hs2 Hin2.
  destruct (load_event _ _ _ _ _ _ _ _ _ _ _ Hs1 Hin1) as (l0 & k & _ & Hob & Hv & Hg).
  apply lobj_inj in Hob. subst l0.
  assert (0 < seen g1 t l)%nat as Hseen1 by (rewrite Hg; apply load_seen; auto).
  assert (R P progs (Sys g1 (upd (thr s1) t lc1'))) as HR1.
  { assert (Sys g1 (upd (thr s1) t lc1') = step glob loc (tstep P) s1 (t, c1)) as ->.
    { unfold step, sys_step. rewrite Hl1, Hs1. reflexivity. }
    apply reachable_step. exact HR. }
  assert (R P progs s2) as HR2 by (eapply reachable_trans; eauto).
  destruct (reachable_grows _ _ _ Hreach) as (Hmono & _ & _). cbn in Hmono.
  destruct (load_event _ _ _ _ _ _ _ _ _ _ _ Hs2 Hin2) as (l0 & k2 & _ & Hob & -> & _).
  apply lobj_inj in Hob. subst l0.
  apply (seen_load_true P progs s2 t c2 l HR2). specialize (Hmono t l). lia.
Qed.

(* a load that happens-after a trip store returns true *)
Lemma hb_true P progs s t c l m :
  R P progs s -> In m (hs (gl s) l) -> known (clk (gl s) t) m = true -> load_val P t c l (gl s) = 1.
Proof.
  intros HR Hin Hk. pose proof (R_Inv0 _ _ _ HR) as HI.
  destruct (In_nth_error _ _ Hin) as [j Hj].
  pose proof (pick_known (views P) _ _ _ c _ _ (I_seen _ _ _ HI t l) Hj Hk) as Hle.
  fold (load_idx P t c l (gl s)) in Hle.
  assert (j < length (hs (gl s) l))%nat by (apply nth_error_Some; congruence).
  destruct (load_val_cases P t c l (gl s) (I_oneway _ _ _ HI l)) as [[H1 _]|[_ Hge]]; [exact H1|lia].
Qed.

(* sequentially consistent instance: once stored to, every load by every thread returns true *)
Lemma sc_load_true P progs s t c l :
  views P = false -> R P progs s -> hs (gl s) l <> [] -> load_val P t c l (gl s) = 1.
Proof.
  intros Hv HR Hne. pose proof (R_Inv0 _ _ _ HR) as HI.
  unfold load_val, load_idx, pick. rewrite Hv. cbn [andb]. unfold read_val.
  destruct (hs (gl s) l) as [|m h] eqn:E; [congruence|]. cbn. apply (I_oneway _ _ _ HI l). rewrite E. left; reflexivity.
Qed.

Lemma sc_forever P progs s1 t1 c1 lc1 g1 lc1' es1 l v1 m1 s2 t2 c2 lc2 g2 lc2' es2 v m2 :
  views P = false ->
  R P progs s1 -> nth_error (thr s1) t1 = Some lc1 -> tstep P t1 c1 (gl s1) lc1 = Some (g1, lc1', es1) ->
  In (Ev K_STORE (lobj l) v1 m1) es1 ->
  reachable glob loc (tstep P) (Sys g1 (upd (thr s1) t1 lc1')) s2 ->
  nth_error (thr s2) t2 = Some lc2 -> tstep P t2 c2 (gl s2) lc2 = Some (g2, lc2', es2) ->
  In (Ev K_LOAD (lobj l) v m2) es2 -> v = 1.
Proof.
  intros Hv HR Hl1 Hs1 Hin1 Hreach Hl2 Hs2 Hin2.
  destruct (store_event _ _ _ _ _ _ _ _ _ _ _ Hs1 Hin1) as (l0 & _ & Hob & _ & Hg).
  apply lobj_inj in Hob. subst l0.
  assert (R P progs (Sys g1 (upd (thr s1) t1 lc1'))) as HR1.
  { assert (Sys g1 (upd (thr s1) t1 lc1') = step glob loc (tstep P) s1 (t1, c1)) as ->.
    { unfold step, sys_step. rewrite Hl1, Hs1. reflexivity. }
    apply reachable_step. exact HR. }
  assert (R P progs s2) as HR2 by (eapply reachable_trans; eauto).
  destruct (reachable_grows _ _ _ Hreach) as (_ & Hlen & _). cbn in Hlen. specialize (Hlen l).
  rewrite Hg, hs_do_store, Nat.eqb_refl in Hlen. cbn in Hlen.
  destruct (load_event _ _ _ _ _ _ _ _ _ _ _ Hs2 Hin2) as (l0 & k2 & _ & Hob & -> & _).
  apply lobj_inj in Hob. subst l0.
  apply (sc_load_true P progs s2 t2 c2 l Hv HR2). intros E. rewrite E in Hlen. cbn in Hlen. lia.
Qed.

(* ---------- lines are independent ---------- *)
Lemma lines_independent P t c g lc g' lc' es l' :
  tstep P t c g lc = Some (g', lc', es) ->
  (forall v m, ~ In (Ev K_STORE (lobj l') v m) es) -> hs g' l' = hs g l'.
Proof.
  intros Hs Hno. pose proof (tstep_shape _ _ _ _ _ _ _ _ Hs) as Sh. unfold step_shape in Sh.
  destruct (at_ lc) eqn:Hpc.
  - destruct Sh as (o & r & _ & Hd). destruct (dispatch_glob _ _ _ _ _ _ _ _ Hd); reflexivity.
  - destruct Sh as (-> & _ & ->). rewrite hs_do_store. destruct (Nat.eqb_spec l' l) as [->|]; [|reflexivity].
    exfalso. eapply Hno. left. reflexivity.
  - destruct Sh as (-> & _ & _). reflexivity.
  - destruct Sh as (-> & _ & _). unfold do_wbeg, ft_write. reflexivity.
  - destruct Sh as (-> & _ & _). reflexivity.
  - destruct Sh as (-> & _ & _). unfold do_rbeg, ft_read. reflexivity.
  - destruct Sh as (-> & _ & _). reflexivity.
Qed.

(* what a detector on l reads depends on l's history only (and on the reader's own view) *)
Lemma load_depends_on_own_line P t c l g g2 :
  hs g2 l = hs g l -> clk g2 t = clk g t -> seen g2 t l = seen g t l -> load_val P t c l g2 = load_val P t c l g.
Proof. intros H1 H2 H3. unfold load_val, load_idx. rewrite H1, H2, H3. reflexivity. Qed.

(* ---------- indexed lines: out-of-range index ---------- *)
Lemma index_range_trigger P t c g lc s i r :
  at_ lc = Idle -> prog lc = MkTrigI s i :: r -> trg lc s = None -> (nidx P <= i)%nat ->
  tstep P t c g lc = Some (g, Loc r Idle (trg lc) (det lc), [inv_ev (MkTrigI s i); E K_CATCH 0 0]).
Proof.
  intros Hpc Hpr Hs Hi. unfold tstep. rewrite Hpc, Hpr. unfold dispatch. rewrite Hs.
  assert ((i <? nidx P)%nat = false) as -> by (apply Nat.ltb_ge; exact Hi). reflexivity.
Qed.
Lemma index_range_detector P t c g lc s i r :
  at_ lc = Idle -> prog lc = MkDetI s i :: r -> det lc s = None -> (nidx P <= i)%nat ->
  tstep P t c g lc = Some (g, Loc r Idle (trg lc) (det lc), [inv_ev (MkDetI s i); E K_CATCH 0 0]).
Proof.
  intros Hpc Hpr Hs Hi. unfold tstep. rewrite Hpc, Hpr. unfold dispatch. rewrite Hs.
  assert ((i <? nidx P)%nat = false) as -> by (apply Nat.ltb_ge; exact Hi). reflexivity.
Qed.
Lemma index_in_range_trigger P t c g lc s i r :
  at_ lc = Idle -> prog lc = MkTrigI s i :: r -> trg lc s = None -> (i < nidx P)%nat ->
  tstep P t c g lc = Some (g, Loc r Idle (fupd (trg lc) s (Some (Some (line_idx i)))) (det lc), [inv_ev (MkTrigI s i); ret 0]).
Proof.
  intros Hpc Hpr Hs Hi. unfold tstep. rewrite Hpc, Hpr. unfold dispatch. rewrite Hs.
  assert ((i <? nidx P)%nat = true) as -> by (apply Nat.ltb_lt; exact Hi). reflexivity.
Qed.

(* ---------- moves ---------- *)
Definition moved (T T' : nat -> option (option nat)) (s d : nat) (x : option nat) : Prop :=
  T' s = Some None /\ T' d = Some x /\ forall k, k <> s -> k <> d -> T' k = T k.

Lemma moved_fupd T s d x : s <> d -> moved T (fupd (fupd T d (Some x)) s (Some None)) s d x.
Proof.
  intros Hne. repeat split.
  - apply fupd_eq.
  - rewrite fupd_ne by auto. apply fupd_eq.
  - intros k H1 H2. rewrite !fupd_ne by auto. reflexivity.
Qed.

Lemma move_ctor P t c g lc s d r x :
  at_ lc = Idle -> prog lc = MoveCtor s d :: r -> trg lc s = Some x -> trg lc d = None -> s <> d ->
  exists T', tstep P t c g lc = Some (g, Loc r Idle T' (det lc), [inv_ev (MoveCtor s d); ret 0]) /\
             moved (trg lc) T' s d x.
Proof.
  intros Hpc Hpr Hs Hd Hne. unfold tstep. rewrite Hpc, Hpr. unfold dispatch. rewrite Hs, Hd.
  assert ((s =? d)%nat = false) as -> by (apply Nat.eqb_neq; exact Hne).
  eexists. split; [reflexivity|]. apply moved_fupd. exact Hne.
Qed.

(* the old line y of the target is dropped: no store, no duty left anywhere for it *)
Lemma move_assign P t c g lc s d r x y :
  at_ lc = Idle -> prog lc = MoveAssign s d :: r -> trg lc s = Some x -> trg lc d = Some y -> s <> d ->
  exists T', tstep P t c g lc = Some (g, Loc r Idle T' (det lc), [inv_ev (MoveAssign s d); ret 0]) /\
             moved (trg lc) T' s d x.
Proof.
  intros Hpc Hpr Hs Hd Hne. unfold tstep. rewrite Hpc, Hpr. unfold dispatch. rewrite Hs, Hd.
  assert ((s =? d)%nat = false) as -> by (apply Nat.eqb_neq; exact Hne).
  eexists. split; [reflexivity|]. apply moved_fupd. exact Hne.
Qed.

(* destroying a moved-from trigger: nothing happens, in particular no fault (repaired code) *)
Lemma moved_from_destroy P t c g lc s r :
  unfixed P = false -> at_ lc = Idle -> prog lc = Destroy s :: r -> trg lc s = Some None ->
  tstep P t c g lc = Some (g, Loc r Idle (fupd (trg lc) s None) (det lc), [inv_ev (Destroy s); ret 0]).
Proof.
  intros Hu Hpc Hpr Hs. unfold tstep. rewrite Hpc, Hpr. unfold dispatch. rewrite Hs, Hu. reflexivity.
Qed.
(* ... and the pre-repair destructor faults there *)
Lemma moved_from_destroy_unfixed P t c g lc s r :
  unfixed P = true -> at_ lc = Idle -> prog lc = Destroy s :: r -> trg lc s = Some None ->
  exists lc' es, tstep P t c g lc = Some (set_null g, lc', es) /\ In (fault_ev 0 1) es.
Proof.
  intros Hu Hpc Hpr Hs. unfold tstep. rewrite Hpc, Hpr. unfold dispatch. rewrite Hs, Hu.
  eexists _, _. split; [reflexivity|]. cbn. auto.
Qed.

(* destroying the target trips the moved line: the invoke step leads to the store step, whose
   only behaviour is to append a true message to that line *)
Lemma attached_destroy P t c g lc s r l :
  at_ lc = Idle -> prog lc = Destroy s :: r -> trg lc s = Some (Some l) ->
  tstep P t c g lc = Some (bump_destroyed g l, Loc r (P_store l) (fupd (trg lc) s None) (det lc), [inv_ev (Destroy s)]).
Proof. intros Hpc Hpr Hs. unfold tstep. rewrite Hpc, Hpr. unfold dispatch. rewrite Hs. reflexivity. Qed.
Lemma store_step P t c g lc l :
  at_ lc = P_store l ->
  tstep P t c g lc = Some (do_store P t l g, goto lc Idle, [EA K_STORE (lobj l) 1 (mo_code (st_mo P)); ret 0]) /\
  hs (do_store P t l g) l <> [].
Proof.
  intros Hpc. unfold tstep. rewrite Hpc. split; [reflexivity|]. rewrite hs_do_store, Nat.eqb_refl. discriminate.
Qed.

(* ====================================================================== *)
(* Publication (Views semantics, any release store / acquire load)          *)
(* ====================================================================== *)

(* the line an operation attaches a new trigger to (syntactic; an out-of-range index or
   line number attaches nothing, which only makes the discipline below stricter) *)
Definition trig_line (P : params) (o : op) : option nat :=
  match o with
  | MkTrigE _ l => Some (line_exp P l) | MkTrigD _ => Some line_decl | MkTrigI _ i => Some (line_idx i)
  | _ => None
  end.
(* the detector table after an operation: exactly what [dispatch] does to it *)
Definition det_after (P : params) (Dt : nat -> option nat) (o : op) : nat -> option nat :=
  match o with
  | MkDetE s l => match Dt s with None => if (l <? nexp P)%nat then fupd Dt s (Some (line_exp P l)) else Dt | Some _ => Dt end
  | MkDetD s => match Dt s with None => fupd Dt s (Some line_decl) | Some _ => Dt end
  | MkDetI s i => match Dt s with None => if (i <? nidx P)%nat then fupd Dt s (Some (line_idx i)) else Dt | Some _ => Dt end
  | _ => Dt
  end.

Lemma dispatch_det P g lc o r g' lc' es : (forall l, released g l = false) ->
  dispatch P g lc o r = (g', lc', es) -> det lc' = det_after P (det lc) o.
Proof.
  intros Hrel H. unfold det_after. unfold dispatch in H. destruct o; unfold exp_ok in H; rewrite ?Hrel in H;
    cbn [negb] in H; rewrite ?andb_true_r in H; cbv beta iota zeta in H;
    repeat match type of H with
           | context [match ?x with _ => _ end] => destruct x eqn:?; cbv beta iota zeta in H
           | context [if ?x then _ else _] => destruct x eqn:?; cbv beta iota zeta in H
           end;
    inversion H; subst; clear H; cbn [det];
    repeat match goal with E : _ = _ |- _ => rewrite E end; reflexivity.
Qed.

(* what the invoke step does to the harness-side tables *)
Definition sdet_line (P : params) (o : op) : option nat :=
  match o with
  | MkSDetE _ l => Some (line_exp P l) | MkSDetD _ => Some line_decl | MkSDetI _ i => Some (line_idx i)
  | _ => None
  end.
Lemma dispatch_tables P g lc o r g' lc' es :
  dispatch P g lc o r = (g', lc', es) ->
  (released g' = released g \/ exists l, o = ReleaseLine l) /\
  (forall s l, sdet g' s = Some l -> sdet g s = Some l \/ sdet_line P o = Some l).
Proof.
  intros H. disp_cases H; (split; [eauto|]); cbn; intros s0 l0 E; auto;
    unfold fupd in E; destruct (Nat.eqb s0 _); auto; inversion E; subst; auto.
Qed.

Lemma dispatch_trg P g lc o r g' lc' es s l :
  dispatch P g lc o r = (g', lc', es) -> trg lc' s = Some (Some l) ->
  (exists s0, trg lc s0 = Some (Some l)) \/ trig_line P o = Some l.
Proof.
  intros H Ht. disp_cases H; cbn in Ht; eauto;
    unfold fupd in Ht;
    repeat match type of Ht with
           | context [Nat.eqb ?a ?b] => destruct (Nat.eqb_spec a b); subst
           end;
    try discriminate; eauto;
    try (inversion Ht; subst; eauto; fail).
Qed.

Definition pc_origin (g : glob) (lc : loc) (o : op) (p' : pc) : Prop :=
  match p' with
  | Idle => True
  | P_store l => exists s, o = Destroy s /\ trg lc s = Some (Some l)
  | P_load l None => exists s, (o = IsTripped s /\ det lc s = Some l) \/ (o = SIsTripped s /\ sdet g s = Some l)
  | P_load l (Some d) => exists s, (o = PollRead s d /\ det lc s = Some l) \/ (o = SPollRead s d /\ sdet g s = Some l)
  | P_wbeg d v => o = WriteData d v
  | P_rbeg d => o = ReadData d
  | P_wend _ _ | P_rend _ => False
  end.
Lemma dispatch_pc P g lc o r g' lc' es :
  dispatch P g lc o r = (g', lc', es) -> pc_origin g lc o (at_ lc').
Proof. intros H. disp_cases H; cbn; eauto. Qed.

Section Pub.
  Variable P : params.
  Variables (p L D : nat).   (* publishing thread, published line, published datum *)
  Hypothesis Hrel : is_rel (st_mo P) = true.
  Hypothesis Hacq : is_acq (ld_mo P) = true.

  Definition attaches (o : op) : bool :=
    match trig_line P o with Some l => Nat.eqb l L | None => false end.
  Definition writesD (o : op) : bool := match o with WriteData d _ => Nat.eqb d D | _ => false end.

  (* the publisher: never writes the datum after its first trigger destruction *)
  Definition nowr (pr : list op) : bool := forallb (fun o => negb (writesD o)) pr.
  Fixpoint pub_ok (pr : list op) : bool :=
    match pr with
    | [] => true
    | Destroy _ :: r => nowr r
    | _ :: r => pub_ok r
    end.
  (* every other thread: attaches no trigger to L, and touches D only by "read if tripped"
     through a detector of L ([Dt] = its detector table, followed through the program) *)
  (* every thread: the harness keeps its line references (no ReleaseLine), and shared detectors
     are attached to the published line only *)
  Definition plain_ok (o : op) : bool :=
    match o with
    | ReleaseLine _ => false
    | _ => match sdet_line P o with Some l => Nat.eqb l L | None => true end
    end.
  Definition all_plain (pr : list op) : bool := forallb plain_ok pr.
  Definition op_ok (Dt : nat -> option nat) (o : op) : bool :=
    plain_ok o && negb (attaches o) &&
    match o with
    | WriteData d _ => negb (Nat.eqb d D)
    | ReadData d => negb (Nat.eqb d D)
    | PollRead s d => negb (Nat.eqb d D) || match Dt s with Some l => Nat.eqb l L | None => true end
    | _ => true
    end.
  Fixpoint reader_ok (Dt : nat -> option nat) (pr : list op) : bool :=
    match pr with
    | [] => true
    | o :: r => op_ok Dt o && reader_ok (det_after P Dt o) r
    end.
  Definition wf_pub (progs : list (list op)) : bool :=
    pub_ok (nth p progs []) && all_plain (nth p progs []) &&
    forallb (fun t => Nat.eqb t p || reader_ok (fun _ => None) (nth t progs [])) (seq 0 (length progs)).

  Lemma nowr_pub_ok pr : nowr pr = true -> pub_ok pr = true.
  Proof.
    induction pr as [|o r IH]; [reflexivity|]. cbn. intros H. apply andb_true_iff in H as [_ H].
    destruct o; auto.
  Qed.
  Lemma pub_ok_tail o r : pub_ok (o :: r) = true -> pub_ok r = true.
  Proof. destruct o; cbn; auto using nowr_pub_ok. Qed.

  Definition is_wr (q : pc) : bool :=
    match q with P_wbeg d _ | P_wend d _ => Nat.eqb d D | _ => false end.
  Definition maywrite (lc : loc) : Prop := nowr (prog lc) = false \/ is_wr (at_ lc) = true.
  Definition pc_ok (q : pc) : Prop :=
    match q with
    | P_store l => l <> L
    | P_load l (Some d) => d = D -> l = L
    | P_wbeg d _ | P_wend d _ => d <> D
    | _ => True
    end.

  Definition fD (g : glob) : ft := cft (cells g D).

  Record PInv (g : glob) (ls : list loc) : Prop := {
    Q_race  : grace g D = false;
    Q_who   : fwhen (fD g) = 0%nat \/ fwho (fD g) = p;
    Q_when  : (fwhen (fD g) <= clk g p p)%nat;
    Q_msgs  : forall m, In m (hs g L) -> exists v, mrel m = Some v /\ (fwhen (fD g) <= v p)%nat;
    Q_rdrs  : hs g L = [] -> forall u, u <> p -> fR (fD g) u = 0%nat;
    Q_rdp   : (fR (fD g) p <= clk g p p)%nat;
    Q_obs   : forall t, t <> p -> pcof ls t = P_rbeg D -> hs g L <> [] /\ (fwhen (fD g) <= clk g t p)%nat;
    Q_pre   : maywrite (locof ls p) -> hs g L = [] /\ pcof ls p <> P_store L;
    Q_pub   : pub_ok (prog (locof ls p)) = true;
    Q_rd    : forall t, t <> p -> reader_ok (det (locof ls t)) (prog (locof ls t)) = true /\
                               (forall s, trg (locof ls t) s <> Some (Some L)) /\ pc_ok (pcof ls t);
    Q_dirty : cdirty (cells g D) = true -> exists v, pcof ls p = P_wend D v;
    Q_norel : forall l, released g l = false;
    Q_sdet  : forall s l, sdet g s = Some l -> l = L;
    Q_plain : all_plain (prog (locof ls p)) = true
  }.

  Lemma wf_pub_spec progs : wf_pub progs = true ->
    (pub_ok (nth p progs []) = true /\ all_plain (nth p progs []) = true) /\
    forall t, t <> p -> reader_ok (fun _ => None) (nth t progs []) = true.
  Proof.
    unfold wf_pub. intros H. apply andb_true_iff in H as [H1 H2]. apply andb_true_iff in H1.
    split; [exact H1|].
    intros t Ht. destruct (lt_dec t (length progs)) as [Hlt|Hge].
    - rewrite forallb_forall in H2. specialize (H2 t). rewrite in_seq in H2.
      assert ((t =? p)%nat = false) as E by (apply Nat.eqb_neq; exact Ht). rewrite E in H2. apply H2. lia.
    - rewrite nth_overflow by lia. reflexivity.
  Qed.

  Lemma PInv_init progs : wf_pub progs = true -> PInv (gl (init progs)) (thr (init progs)).
  Proof.
    intros Hwf. destruct (wf_pub_spec _ Hwf) as [[Hp Hpl] Hr].
    constructor; cbn; unfold fD; cbn; auto; try lia; try contradiction; try discriminate.
    - unfold vzero. lia.
    - intros t _ E. unfold pcof in E. rewrite locof_init in E. discriminate.
    - intros _. split; [reflexivity|]. unfold pcof. rewrite locof_init. discriminate.
    - rewrite locof_init. exact Hp.
    - intros t Ht. unfold pcof. rewrite locof_init. cbn. repeat split; auto. discriminate.
    - rewrite locof_init. exact Hpl.
  Qed.

  Lemma disp_same g g' lc' : disp_glob P g g' lc' ->
    hs g' = hs g /\ clk g' = clk g /\ cells g' = cells g /\ grace g' = grace g.
  Proof. intros H. destruct H; repeat split; reflexivity. Qed.

  Lemma nowr_cons_false o r : nowr r = false -> nowr (o :: r) = false.
  Proof. unfold nowr. intros H. cbn [forallb]. rewrite H. apply andb_false_r. Qed.

  Ltac thread_split u t Hlu Hpu :=
    rewrite ?Hlu, ?Hpu; destruct (Nat.eqb_spec u t) as [->|?].

  Lemma plain_sdet o l : plain_ok o = true -> sdet_line P o = Some l -> l = L.
  Proof. unfold plain_ok. intros H E. destruct o; try discriminate; rewrite E in H; apply Nat.eqb_eq; exact H. Qed.

  Lemma PInv_step_invoke g ls t lc o r g' lc' es :
    PInv g ls -> nth_error ls t = Some lc -> at_ lc = Idle -> prog lc = o :: r ->
    dispatch P g lc o r = (g', lc', es) -> PInv g' (upd ls t lc').
  Proof.
    intros HI Hl Hpc Hpr Hd.
    assert (Hlu : forall u, locof (upd ls t lc') u = if Nat.eqb u t then lc' else locof ls u)
      by (intros; apply (locof_upd _ _ _ _ _ Hl)).
    assert (Hpu : forall u, pcof (upd ls t lc') u = if Nat.eqb u t then at_ lc' else pcof ls u)
      by (intros u; unfold pcof; rewrite Hlu; destruct (Nat.eqb u t); reflexivity).
    assert (Hlt : locof ls t = lc) by (apply locof_at; exact Hl).
    assert (Hpt : pcof ls t = Idle) by (unfold pcof; rewrite Hlt; exact Hpc).
    destruct HI as [Qrace Qwho Qwhen Qmsgs Qrdrs Qrdp Qobs Qpre Qpub Qrd Qdirty Qnorel Qsdet Qplain].
    destruct (disp_same _ _ _ (dispatch_glob _ _ _ _ _ _ _ _ Hd)) as (E1 & E2 & E3 & E4).
    pose proof (dispatch_prog _ _ _ _ _ _ _ _ Hd) as Hprog.
    pose proof (dispatch_det _ _ _ _ _ _ _ _ Qnorel Hd) as Hdet.
    pose proof (dispatch_pc _ _ _ _ _ _ _ _ Hd) as Hpco.
    destruct (dispatch_tables _ _ _ _ _ _ _ _ Hd) as [Hrl Hsd].
    assert (Hpo : plain_ok o = true).
    { destruct (Nat.eq_dec t p) as [->|Hne].
      - rewrite Hlt, Hpr in Qplain. cbn in Qplain. apply andb_true_iff in Qplain as [A _]. exact A.
      - destruct (Qrd t Hne) as (Hro & _ & _). rewrite Hlt, Hpr in Hro. cbn [reader_ok] in Hro.
        apply andb_true_iff in Hro as [Hop _]. unfold op_ok in Hop.
        apply andb_true_iff in Hop as [Hop _]. apply andb_true_iff in Hop as [A _]. exact A. }
    constructor; unfold fD in *; rewrite ?E1, ?E2, ?E3, ?E4; auto.
    - (* Q_obs *)
      intros u Hu. rewrite Hpu. destruct (Nat.eqb_spec u t) as [->|Hne]; [|apply Qobs; exact Hu].
      intros E. rewrite E in Hpco. cbn in Hpco. subst o.
      destruct (Qrd t Hu) as (Hro & _ & _). rewrite Hlt, Hpr in Hro. cbn in Hro.
      rewrite Nat.eqb_refl in Hro. cbn in Hro. discriminate.
    - (* Q_pre *)
      rewrite Hlu, Hpu. destruct (Nat.eqb_spec p t) as [->|Hne]; [|exact Qpre].
      rewrite Hlt in Qpre, Qpub. rewrite Hpr in Qpub.
      intros [Hm|Hm].
      + rewrite Hprog in Hm. split.
        * apply Qpre. left. rewrite Hpr. apply nowr_cons_false. exact Hm.
        * intros E. rewrite E in Hpco. cbn in Hpco. destruct Hpco as (s & -> & _). cbn in Qpub. congruence.
      + destruct (at_ lc') eqn:Ea; cbn in Hm; try discriminate; cbn in Hpco; [|contradiction].
        subst o. split; [|discriminate].
        apply Qpre. left. rewrite Hpr. cbn. rewrite Hm. reflexivity.
    - (* Q_pub *)
      rewrite Hlu. destruct (Nat.eqb_spec p t) as [->|Hne]; [|exact Qpub].
      rewrite Hprog. rewrite Hlt, Hpr in Qpub. eapply pub_ok_tail; eauto.
    - (* Q_rd *)
      intros u Hu. rewrite Hlu, Hpu. destruct (Nat.eqb_spec u t) as [->|Hne]; [|apply Qrd; exact Hu].
      destruct (Qrd t Hu) as (Hro & Htr & _). rewrite Hlt in Hro, Htr. rewrite Hpr in Hro. cbn [reader_ok] in Hro.
      apply andb_true_iff in Hro as [Hop Hro]. unfold op_ok in Hop. apply andb_true_iff in Hop as [Hna Hop].
      apply andb_true_iff in Hna as [_ Hna].
      split; [rewrite Hdet, Hprog; exact Hro|]. split.
      + intros s E. destruct (dispatch_trg _ _ _ _ _ _ _ _ _ _ Hd E) as [[s0 E0]|E0]; [eapply Htr; eauto|].
        unfold attaches in Hna. rewrite E0, Nat.eqb_refl in Hna. discriminate.
      + destruct (at_ lc') as [|l|l [d|]|d v|d v|d|d] eqn:Ea; cbn in Hpco |- *; auto.
        * destruct Hpco as (s & -> & E). intros ->. eapply Htr; eauto.
        * destruct Hpco as (s & [[-> E]|[-> E]]); intros ->.
          -- rewrite Nat.eqb_refl, E in Hop. cbn in Hop. apply Nat.eqb_eq. exact Hop.
          -- eapply Qsdet; eauto.
        * subst o. intros ->. rewrite Nat.eqb_refl in Hop. discriminate.
    - (* Q_dirty *)
      intros Hd'. destruct (Qdirty Hd') as [v Hv]. rewrite Hpu.
      destruct (Nat.eqb_spec p t) as [->|Hne]; [rewrite Hpt in Hv; discriminate|eauto].
    - (* Q_norel *)
      destruct Hrl as [->|[l ->]]; [exact Qnorel|discriminate].
    - (* Q_sdet *)
      intros s l E. destruct (Hsd s l E) as [E0|E0]; [eapply Qsdet; eauto|eapply plain_sdet; eauto].
    - (* Q_plain *)
      rewrite Hlu. destruct (Nat.eqb_spec p t) as [->|Hne]; [|exact Qplain].
      rewrite Hprog. rewrite Hlt, Hpr in Qplain. cbn in Qplain. apply andb_true_iff in Qplain as [_ A]. exact A.
  Qed.

  (* steps inside an operation keep program and slot tables: lc' = goto lc q *)
  Lemma goto_pub ls t lc q : nth_error ls t = Some lc ->
    pub_ok (prog (locof ls p)) = true -> pub_ok (prog (locof (upd ls t (goto lc q)) p)) = true.
  Proof.
    intros Hl H. rewrite (locof_upd _ _ _ _ _ Hl). destruct (Nat.eqb_spec p t) as [->|]; [|exact H].
    rewrite (locof_at _ _ _ Hl) in H. exact H.
  Qed.
  Lemma goto_plain ls t lc q : nth_error ls t = Some lc ->
    all_plain (prog (locof ls p)) = true -> all_plain (prog (locof (upd ls t (goto lc q)) p)) = true.
  Proof.
    intros Hl H. rewrite (locof_upd _ _ _ _ _ Hl). destruct (Nat.eqb_spec p t) as [->|]; [|exact H].
    rewrite (locof_at _ _ _ Hl) in H. exact H.
  Qed.
  Lemma goto_rd ls t lc q : nth_error ls t = Some lc -> (t <> p -> pc_ok q) ->
    (forall u, u <> p -> reader_ok (det (locof ls u)) (prog (locof ls u)) = true /\
                         (forall s, trg (locof ls u) s <> Some (Some L)) /\ pc_ok (pcof ls u)) ->
    forall u, u <> p -> reader_ok (det (locof (upd ls t (goto lc q)) u)) (prog (locof (upd ls t (goto lc q)) u)) = true /\
                        (forall s, trg (locof (upd ls t (goto lc q)) u) s <> Some (Some L)) /\
                        pc_ok (pcof (upd ls t (goto lc q)) u).
  Proof.
    intros Hl Hq H u Hu. unfold pcof. rewrite (locof_upd _ _ _ _ _ Hl).
    destruct (Nat.eqb_spec u t) as [->|]; [|apply H; exact Hu].
    destruct (H t Hu) as (A & B & _). rewrite (locof_at _ _ _ Hl) in A, B. cbn. auto.
  Qed.
  Lemma goto_dirty ls t lc q (c : Prop) : nth_error ls t = Some lc ->
    (t = p -> c -> exists v, q = P_wend D v) ->
    (c -> t <> p -> exists v, pcof ls p = P_wend D v) ->
    c -> exists v, pcof (upd ls t (goto lc q)) p = P_wend D v.
  Proof.
    intros Hl H1 H2 Hc. unfold pcof. rewrite (locof_upd _ _ _ _ _ Hl).
    destruct (Nat.eqb_spec p t) as [->|Hne]; [cbn; apply H1; auto|apply H2; auto].
  Qed.

  Lemma PInv_step_store g ls t lc l :
    PInv g ls -> nth_error ls t = Some lc -> at_ lc = P_store l ->
    PInv (do_store P t l g) (upd ls t (goto lc Idle)).
  Proof.
    intros HI Hl Hpc.
    assert (Hlu : forall u, locof (upd ls t (goto lc Idle)) u = if Nat.eqb u t then goto lc Idle else locof ls u)
      by (intros; apply (locof_upd _ _ _ _ _ Hl)).
    assert (Hpu : forall u, pcof (upd ls t (goto lc Idle)) u = if Nat.eqb u t then Idle else pcof ls u)
      by (intros u; unfold pcof; rewrite Hlu; destruct (Nat.eqb u t); reflexivity).
    assert (Hlt : locof ls t = lc) by (apply locof_at; exact Hl).
    assert (Hpt : pcof ls t = P_store l) by (unfold pcof; rewrite Hlt; exact Hpc).
    destruct HI as [Qrace Qwho Qwhen Qmsgs Qrdrs Qrdp Qobs Qpre Qpub Qrd Qdirty Qnorel Qsdet Qplain].
    assert (HlL : t <> p -> l <> L).
    { intros Hne. destruct (Qrd t Hne) as (_ & _ & Hk). rewrite Hpt in Hk. exact Hk. }
    assert (Hck : forall u, vle (clk g u) (clk (do_store P t l g) u)).
    { intros u. cbn. apply clk_fupd_mono. apply vle_inc. }
    constructor; unfold fD in *; cbn [do_store cells grace]; auto.
    - specialize (Hck p p). lia.
    - intros m Hin. rewrite hs_do_store in Hin. destruct (Nat.eqb_spec L l) as [<-|Hne]; [|apply Qmsgs; exact Hin].
      destruct Hin as [<-|Hin]; [|apply Qmsgs; exact Hin].
      destruct (Nat.eq_dec t p) as [->|Hne]; [|exfalso; apply (HlL Hne); reflexivity].
      unfold store_msg. cbn. rewrite Hrel. eexists. split; [reflexivity|exact Qwhen].
    - intros Hnil. rewrite hs_do_store in Hnil. destruct (Nat.eqb_spec L l); [discriminate|apply Qrdrs; exact Hnil].
    - specialize (Hck p p). lia.
    - intros u Hu. rewrite Hpu. destruct (Nat.eqb_spec u t) as [->|Hne]; [discriminate|].
      intros E. destruct (Qobs u Hu E) as [Hn Hle]. split.
      + rewrite hs_do_store. destruct (Nat.eqb L l); [discriminate|exact Hn].
      + specialize (Hck u p). lia.
    - rewrite Hlu, Hpu. destruct (Nat.eqb_spec p t) as [->|Hne].
      + rewrite Hlt, Hpt in Qpre. intros [Hm|Hm]; [|discriminate]. cbn in Hm.
        destruct (Qpre (or_introl Hm)) as [Hnil Hns]. split; [|discriminate].
        rewrite hs_do_store. destruct (Nat.eqb_spec L l) as [<-|]; [congruence|exact Hnil].
      + intros Hm. destruct (Qpre Hm) as [Hnil Hns]. split; [|exact Hns].
        rewrite hs_do_store. destruct (Nat.eqb_spec L l) as [<-|]; [|exact Hnil].
        exfalso. apply (HlL (not_eq_sym Hne)). reflexivity.
    - apply goto_pub; auto.
    - apply goto_rd; cbn; auto.
    - intros Hd. apply (goto_dirty ls t lc Idle (cdirty (cells g D) = true) Hl); auto.
      intros -> Hd'. destruct (Qdirty Hd') as [v Hv]. rewrite Hpt in Hv. discriminate.
    - apply goto_plain; auto.
  Qed.

  Definition after_load (k : option nat) (v : Z) : pc :=
    match k with None => Idle | Some d => if v =? 0 then Idle else P_rbeg d end.

  Lemma PInv_step_load g ls t c lc l k :
    Inv0 P g ls -> PInv g ls -> nth_error ls t = Some lc -> at_ lc = P_load l k ->
    PInv (do_load P t c l g) (upd ls t (goto lc (after_load k (load_val P t c l g)))).
  Proof.
    intros H0 HI Hl Hpc. set (q := after_load k (load_val P t c l g)).
    assert (Hlu : forall u, locof (upd ls t (goto lc q)) u = if Nat.eqb u t then goto lc q else locof ls u)
      by (intros; apply (locof_upd _ _ _ _ _ Hl)).
    assert (Hpu : forall u, pcof (upd ls t (goto lc q)) u = if Nat.eqb u t then q else pcof ls u)
      by (intros u; unfold pcof; rewrite Hlu; destruct (Nat.eqb u t); reflexivity).
    assert (Hlt : locof ls t = lc) by (apply locof_at; exact Hl).
    assert (Hpt : pcof ls t = P_load l k) by (unfold pcof; rewrite Hlt; exact Hpc).
    destruct HI as [Qrace Qwho Qwhen Qmsgs Qrdrs Qrdp Qobs Qpre Qpub Qrd Qdirty Qnorel Qsdet Qplain].
    assert (Hck : forall u, vle (clk g u) (clk (do_load P t c l g) u)).
    { intros u. cbn. apply clk_fupd_mono. apply read_clock_mono. }
    assert (Hq : (q = Idle \/ exists d, q = P_rbeg d)).
    { unfold q, after_load. destruct k; [destruct (_ =? 0)|]; eauto. }
    constructor; unfold fD in *; cbn [do_load cells grace hs]; auto.
    - specialize (Hck p p). lia.
    - specialize (Hck p p). lia.
    - intros u Hu. rewrite Hpu. destruct (Nat.eqb_spec u t) as [->|Hne].
      + intros E. unfold q, after_load in E. destruct k as [d|]; [|discriminate].
        destruct (load_val P t c l g =? 0) eqn:Ev; [discriminate|]. inversion E; subst d.
        destruct (Qrd t Hu) as (_ & _ & Hk). rewrite Hpt in Hk. cbn in Hk. specialize (Hk eq_refl). subst l.
        destruct (load_val_cases P t c L g (I_oneway _ _ _ H0 L)) as [[_ Hlt']|[Hz _]];
          [|rewrite Hz in Ev; discriminate].
        destruct (nth_error (hs g L) (load_idx P t c L g)) as [m|] eqn:En;
          [|apply nth_error_None in En; lia].
        destruct (Qmsgs m (nth_error_In _ _ En)) as (v & Hv & Hle).
        pose proof (read_clock_acq (ld_mo P) _ _ (clk g t) _ _ Hacq En Hv) as Hj.
        split.
        * intros E0. rewrite E0 in Hlt'. cbn in Hlt'. lia.
        * cbn. rewrite fupd_eq. specialize (Hj p). lia.
      + intros E. destruct (Qobs u Hu E) as [Hn Hle]. split; [exact Hn|]. specialize (Hck u p). lia.
    - rewrite Hlu, Hpu. destruct (Nat.eqb_spec p t) as [->|Hne]; [|exact Qpre].
      rewrite Hlt in Qpre. intros Hm.
      assert (nowr (prog lc) = false) as Hn.
      { destruct Hm as [Hm|Hm]; [exact Hm|]. cbn in Hm. destruct Hq as [->|[d ->]]; discriminate. }
      destruct (Qpre (or_introl Hn)) as [Hnil _]. split; [exact Hnil|].
      destruct Hq as [->|[d ->]]; discriminate.
    - apply goto_pub; auto.
    - apply goto_rd; auto. intros _. destruct Hq as [->|[d ->]]; exact I.
    - intros Hd. apply (goto_dirty ls t lc q (cdirty (cells g D) = true) Hl); auto.
      intros -> Hd'. destruct (Qdirty Hd') as [v Hv]. rewrite Hpt in Hv. discriminate.
    - apply goto_plain; auto.
  Qed.

  (* ---- the four window steps, as functions on the cell table ---- *)
  Lemma wbeg_cells t d g d' : cells (fst (do_wbeg P t d g)) d' =
    if Nat.eqb d' d then Cell (cval (cells g d)) (crd (cells g d)) true (Ft t (clk g t t) vzero) else cells g d'.
  Proof. unfold do_wbeg, ft_write. cbn. unfold fupd. destruct (Nat.eqb d' d); reflexivity. Qed.
  Lemma wbeg_grace t d g d' : grace (fst (do_wbeg P t d g)) d' =
    if Nat.eqb d' d then grace g d || negb (snd (ft_write (nthr P) t (clk g t) (cft (cells g d)))) else grace g d'.
  Proof. unfold do_wbeg, ft_write. cbn. unfold fupd. destruct (Nat.eqb d' d); reflexivity. Qed.
  Lemma wbeg_rest t d g : hs (fst (do_wbeg P t d g)) = hs g /\ clk (fst (do_wbeg P t d g)) = clk g.
  Proof. unfold do_wbeg, ft_write. cbn. auto. Qed.

  Lemma wbeg_tabs t d g : released (fst (do_wbeg P t d g)) = released g /\ sdet (fst (do_wbeg P t d g)) = sdet g.
  Proof. unfold do_wbeg, ft_write. cbn. auto. Qed.
  Lemma rbeg_tabs t d g : released (fst (do_rbeg t d g)) = released g /\ sdet (fst (do_rbeg t d g)) = sdet g.
  Proof. unfold do_rbeg, ft_read. cbn. auto. Qed.
  Lemma wend_cells d v g d' : cells (do_wend d v g) d' =
    if Nat.eqb d' d then Cell v (crd (cells g d)) false (cft (cells g d)) else cells g d'.
  Proof. unfold do_wend. cbn. unfold fupd. destruct (Nat.eqb d' d); reflexivity. Qed.
  Lemma wend_grace d v g d' : grace (do_wend d v g) d' = grace g d'.
  Proof.
    unfold do_wend. cbn. unfold fupd. destruct (Nat.eqb_spec d' d) as [->|]; [apply orb_false_r|reflexivity].
  Qed.

  Lemma rbeg_cells t d g d' : cells (fst (do_rbeg t d g)) d' =
    if Nat.eqb d' d
    then Cell (cval (cells g d)) (S (crd (cells g d))) (cdirty (cells g d))
              (Ft (fwho (cft (cells g d))) (fwhen (cft (cells g d))) (fupd (fR (cft (cells g d))) t (clk g t t)))
    else cells g d'.
  Proof. unfold do_rbeg, ft_read. cbn. unfold fupd at 1. destruct (Nat.eqb d' d); reflexivity. Qed.
  Lemma rbeg_grace t d g d' : grace (fst (do_rbeg t d g)) d' =
    if Nat.eqb d' d then grace g d || negb (snd (ft_read t (clk g t) (cft (cells g d)))) else grace g d'.
  Proof. unfold do_rbeg, ft_read. cbn. unfold fupd at 1. destruct (Nat.eqb d' d); reflexivity. Qed.
  Lemma rbeg_rest t d g : hs (fst (do_rbeg t d g)) = hs g /\ clk (fst (do_rbeg t d g)) = clk g.
  Proof. unfold do_rbeg, ft_read. cbn. auto. Qed.

  Lemma rend_cells d g d' : cells (fst (do_rend d g)) d' =
    if Nat.eqb d' d then Cell (cval (cells g d)) (pred (crd (cells g d))) (cdirty (cells g d)) (cft (cells g d)) else cells g d'.
  Proof. unfold do_rend. cbn. unfold fupd. destruct (Nat.eqb d' d); reflexivity. Qed.
  Lemma rend_grace d g d' : grace (fst (do_rend d g)) d' = grace g d'.
  Proof.
    unfold do_rend. cbn. unfold fupd. destruct (Nat.eqb_spec d' d) as [->|]; [apply orb_false_r|reflexivity].
  Qed.

  (* a step that leaves the epochs of datum D alone *)
  Lemma PInv_step_cell g g' ls t lc q :
    PInv g ls -> nth_error ls t = Some lc ->
    hs g' = hs g -> clk g' = clk g -> cft (cells g' D) = cft (cells g D) -> grace g' D = grace g D ->
    released g' = released g -> sdet g' = sdet g ->
    (cdirty (cells g' D) = true -> cdirty (cells g D) = true) ->
    (forall v0, at_ lc = P_wend D v0 -> cdirty (cells g' D) = true -> exists v, q = P_wend D v) ->
    q <> P_rbeg D -> q <> P_store L -> (t <> p -> pc_ok q) -> (is_wr q = true -> is_wr (at_ lc) = true) ->
    PInv g' (upd ls t (goto lc q)).
  Proof.
    intros HI Hl E1 E2 E3 E4 E5 E6 Hd1 Hd2 Hq1 Hq2 Hq3 Hq4.
    assert (Hlu : forall u, locof (upd ls t (goto lc q)) u = if Nat.eqb u t then goto lc q else locof ls u)
      by (intros; apply (locof_upd _ _ _ _ _ Hl)).
    assert (Hpu : forall u, pcof (upd ls t (goto lc q)) u = if Nat.eqb u t then q else pcof ls u)
      by (intros u; unfold pcof; rewrite Hlu; destruct (Nat.eqb u t); reflexivity).
    assert (Hlt : locof ls t = lc) by (apply locof_at; exact Hl).
    assert (Hpt : pcof ls t = at_ lc) by (unfold pcof; rewrite Hlt; reflexivity).
    destruct HI as [Qrace Qwho Qwhen Qmsgs Qrdrs Qrdp Qobs Qpre Qpub Qrd Qdirty Qnorel Qsdet Qplain].
    constructor; unfold fD in *; rewrite ?E1, ?E2, ?E3, ?E4, ?E5, ?E6; auto.
    - intros u Hu. rewrite Hpu. destruct (Nat.eqb_spec u t) as [->|Hne]; [intros E; contradiction|apply Qobs; exact Hu].
    - rewrite Hlu, Hpu. destruct (Nat.eqb_spec p t) as [->|Hne]; [|exact Qpre].
      rewrite Hlt, Hpt in Qpre. intros Hm. split; [|exact Hq2]. apply Qpre.
      destruct Hm as [Hm|Hm]; [left; exact Hm|right; apply Hq4; exact Hm].
    - apply goto_pub; auto.
    - apply goto_rd; auto.
    - intros Hd. apply (goto_dirty ls t lc q (cdirty (cells g' D) = true) Hl); auto.
      intros -> Hd'. destruct (Qdirty (Hd1 Hd')) as [v Hv]. rewrite Hpt in Hv. eapply Hd2; eauto.
    - apply goto_plain; auto.
  Qed.

  Lemma eqb_D_false d : d <> D -> Nat.eqb D d = false.
  Proof. intros H. apply Nat.eqb_neq. auto. Qed.

  Lemma PInv_step_wend g ls t lc d v :
    PInv g ls -> nth_error ls t = Some lc -> at_ lc = P_wend d v -> PInv (do_wend d v g) (upd ls t (goto lc Idle)).
  Proof.
    intros HI Hl Hpc. apply (PInv_step_cell g); auto; try discriminate.
    - rewrite wend_cells. destruct (Nat.eqb_spec D d) as [->|]; reflexivity.
    - apply wend_grace.
    - rewrite wend_cells. destruct (Nat.eqb_spec D d) as [->|]; [discriminate|auto].
    - intros v0 E. rewrite Hpc in E. inversion E; subst. rewrite wend_cells, Nat.eqb_refl. discriminate.
    - intros _. exact I.
  Qed.

  Lemma PInv_step_rend g ls t lc d :
    PInv g ls -> nth_error ls t = Some lc -> at_ lc = P_rend d -> PInv (fst (do_rend d g)) (upd ls t (goto lc Idle)).
  Proof.
    intros HI Hl Hpc. apply (PInv_step_cell g); auto; try discriminate.
    - rewrite rend_cells. destruct (Nat.eqb_spec D d) as [->|]; reflexivity.
    - apply rend_grace.
    - rewrite rend_cells. destruct (Nat.eqb_spec D d) as [->|]; auto.
    - intros v0 E. rewrite Hpc in E. discriminate.
    - intros _. exact I.
  Qed.

  Lemma PInv_step_wbeg g ls t lc d v :
    PInv g ls -> nth_error ls t = Some lc -> at_ lc = P_wbeg d v ->
    PInv (fst (do_wbeg P t d g)) (upd ls t (goto lc (P_wend d v))).
  Proof.
    intros HI Hl Hpc. destruct (wbeg_rest t d g) as [E1 E2].
    assert (Hlt : locof ls t = lc) by (apply locof_at; exact Hl).
    assert (Hpt : pcof ls t = P_wbeg d v) by (unfold pcof; rewrite Hlt; exact Hpc).
    destruct (Nat.eq_dec d D) as [->|HdD].
    - (* the publisher opens a write window on D *)
      assert (Hlu : forall u, locof (upd ls t (goto lc (P_wend D v))) u = if Nat.eqb u t then goto lc (P_wend D v) else locof ls u)
        by (intros; apply (locof_upd _ _ _ _ _ Hl)).
      assert (Hpu : forall u, pcof (upd ls t (goto lc (P_wend D v))) u = if Nat.eqb u t then P_wend D v else pcof ls u)
        by (intros u; unfold pcof; rewrite Hlu; destruct (Nat.eqb u t); reflexivity).
      destruct HI as [Qrace Qwho Qwhen Qmsgs Qrdrs Qrdp Qobs Qpre Qpub Qrd Qdirty Qnorel Qsdet Qplain].
      assert (t = p) as ->.
      { destruct (Nat.eq_dec t p) as [E|Hne]; [exact E|exfalso].
        destruct (Qrd t Hne) as (_ & _ & Hk). rewrite Hpt in Hk. apply Hk. reflexivity. }
      rewrite Hlt, Hpt in Qpre.
      destruct Qpre as [Hnil _]; [right; rewrite Hpc; cbn; apply Nat.eqb_refl|].
      constructor; unfold fD in *; rewrite ?E1, ?E2, ?wbeg_cells, ?wbeg_grace, ?Nat.eqb_refl; cbn [cft fwho fwhen fR cdirty].
      + rewrite Qrace. cbn [orb]. apply negb_false_iff. apply ft_write_ok.
        * destruct Qwho as [E|E]; [rewrite E; lia|rewrite E; exact Qwhen].
        * intros u _. destruct (Nat.eq_dec u p) as [->|Hne]; [exact Qrdp|rewrite (Qrdrs Hnil u Hne); lia].
      + right. reflexivity.
      + lia.
      + rewrite Hnil. intros m [].
      + intros _ u _. reflexivity.
      + unfold vzero. lia.
      + intros u Hu. rewrite Hpu. destruct (Nat.eqb_spec u p) as [->|Hne]; [contradiction|].
        intros E. destruct (Qobs u Hu E) as [Hn _]. contradiction.
      + intros _. split; [exact Hnil|]. rewrite Hpu, Nat.eqb_refl. discriminate.
      + apply goto_pub; auto.
      + apply goto_rd; auto. intros Hne. contradiction.
      + intros _. exists v. rewrite Hpu, Nat.eqb_refl. reflexivity.
      + destruct (wbeg_tabs p D g) as [-> _]. exact Qnorel.
      + destruct (wbeg_tabs p D g) as [_ ->]. exact Qsdet.
      + apply goto_plain; auto.
    - destruct (wbeg_tabs t d g) as [E5 E6]. apply (PInv_step_cell g); auto; try discriminate.
      + rewrite wbeg_cells, (eqb_D_false _ HdD). reflexivity.
      + rewrite wbeg_grace, (eqb_D_false _ HdD). reflexivity.
      + rewrite wbeg_cells, (eqb_D_false _ HdD). auto.
      + intros v0 E. rewrite Hpc in E. discriminate.
      + rewrite Hpc. cbn. auto.
  Qed.

  Lemma PInv_step_rbeg g ls t lc d :
    PInv g ls -> nth_error ls t = Some lc -> at_ lc = P_rbeg d ->
    PInv (fst (do_rbeg t d g)) (upd ls t (goto lc (P_rend d))).
  Proof.
    intros HI Hl Hpc. destruct (rbeg_rest t d g) as [E1 E2].
    assert (Hlt : locof ls t = lc) by (apply locof_at; exact Hl).
    assert (Hpt : pcof ls t = P_rbeg d) by (unfold pcof; rewrite Hlt; exact Hpc).
    destruct (Nat.eq_dec d D) as [->|HdD].
    - assert (Hlu : forall u, locof (upd ls t (goto lc (P_rend D))) u = if Nat.eqb u t then goto lc (P_rend D) else locof ls u)
        by (intros; apply (locof_upd _ _ _ _ _ Hl)).
      assert (Hpu : forall u, pcof (upd ls t (goto lc (P_rend D))) u = if Nat.eqb u t then P_rend D else pcof ls u)
        by (intros u; unfold pcof; rewrite Hlu; destruct (Nat.eqb u t); reflexivity).
      destruct HI as [Qrace Qwho Qwhen Qmsgs Qrdrs Qrdp Qobs Qpre Qpub Qrd Qdirty Qnorel Qsdet Qplain].
      constructor; unfold fD in *; rewrite ?E1, ?E2, ?rbeg_cells, ?rbeg_grace, ?Nat.eqb_refl; cbn [cft fwho fwhen fR cdirty]; auto.
      + rewrite Qrace. cbn [orb]. apply negb_false_iff. apply ft_read_ok.
        destruct Qwho as [E|E]; [rewrite E; lia|rewrite E].
        destruct (Nat.eq_dec t p) as [->|Hne]; [exact Qwhen|]. apply (Qobs t Hne Hpt).
      + intros Hnil u Hu. unfold fupd. destruct (Nat.eqb_spec u t) as [->|Hne]; [|apply Qrdrs; auto].
        destruct (Qobs t Hu Hpt) as [Hn _]. contradiction.
      + unfold fupd. destruct (Nat.eqb_spec p t) as [->|Hne]; [lia|exact Qrdp].
      + intros u Hu. rewrite Hpu. destruct (Nat.eqb_spec u t) as [->|Hne]; [discriminate|apply Qobs; exact Hu].
      + rewrite Hlu, Hpu. destruct (Nat.eqb_spec p t) as [->|Hne]; [|exact Qpre].
        rewrite Hlt, Hpt in Qpre. intros [Hm|Hm]; [|discriminate]. cbn in Hm.
        destruct (Qpre (or_introl Hm)) as [Hnil _]. split; [exact Hnil|discriminate].
      + apply goto_pub; auto.
      + apply goto_rd; auto. intros _. exact I.
      + intros Hd. apply (goto_dirty ls t lc (P_rend D) (cdirty (cells g D) = true) Hl); auto.
        intros -> Hd'. destruct (Qdirty Hd') as [v Hv]. rewrite Hpt in Hv. discriminate.
      + apply goto_plain; auto.
    - destruct (rbeg_tabs t d g) as [E5 E6]. apply (PInv_step_cell g); auto; try discriminate.
      + rewrite rbeg_cells, (eqb_D_false _ HdD). reflexivity.
      + rewrite rbeg_grace, (eqb_D_false _ HdD). reflexivity.
      + rewrite rbeg_cells, (eqb_D_false _ HdD). auto.
      + intros v0 E. rewrite Hpc in E. discriminate.
      + intros _. exact I.
  Qed.

  Lemma PInv_step g ls t c lc g' lc' es :
    Inv0 P g ls -> PInv g ls -> nth_error ls t = Some lc -> tstep P t c g lc = Some (g', lc', es) ->
    PInv g' (upd ls t lc').
  Proof.
    intros H0 HI Hl Hs. pose proof (tstep_shape _ _ _ _ _ _ _ _ Hs) as Sh. unfold step_shape in Sh.
    destruct (at_ lc) eqn:Hpc.
    - destruct Sh as (o & r & Hpr & Hd). eapply PInv_step_invoke; eauto.
    - destruct Sh as (-> & -> & _). apply PInv_step_store; auto.
    - destruct Sh as (-> & _ & ->). apply (PInv_step_load g ls t c lc l k); auto.
    - destruct Sh as (-> & -> & _). apply PInv_step_wbeg; auto.
    - destruct Sh as (-> & -> & _). apply PInv_step_wend; auto.
    - destruct Sh as (-> & -> & _). apply PInv_step_rbeg; auto.
    - destruct Sh as (-> & -> & _). apply PInv_step_rend; auto.
  Qed.

  Definition BInv (g : glob) (ls : list loc) : Prop := Inv0 P g ls /\ PInv g ls.

  Lemma R_BInv progs s : wf_pub progs = true -> R P progs s -> BInv (gl s) (thr s).
  Proof.
    intros Hwf HR. eapply (reachable_inv glob loc (tstep P) BInv); [| |exact HR].
    - intros g ls t c l g' l' es [A B] Hl Hs. split; [eapply Inv0_step; eauto|eapply PInv_step; eauto].
    - split; [apply Inv0_init|apply PInv_init; exact Hwf].
  Qed.

  (* no data race on the published datum *)
  Lemma publishes progs s : wf_pub progs = true -> R P progs s -> grace (gl s) D = false.
  Proof. intros Hwf HR. apply (Q_race _ _ (proj2 (R_BInv _ _ Hwf HR))). Qed.

  (* the happens-before fact behind it: a reader about to read D (it observed L tripped) has the
     publisher's last write of D in its clock *)
  Lemma publishes_hb progs s t : wf_pub progs = true -> R P progs s -> t <> p -> pcof (thr s) t = P_rbeg D ->
    hs (gl s) L <> [] /\ (fwhen (cft (cells (gl s) D)) <= clk (gl s) t p)%nat /\
    (fwhen (cft (cells (gl s) D)) = 0%nat \/ fwho (cft (cells (gl s) D)) = p).
  Proof.
    intros Hwf HR Ht Hpc. destruct (R_BInv _ _ Hwf HR) as [_ HI].
    destruct (Q_obs _ _ HI t Ht Hpc) as [A B]. split; [exact A|]. split; [exact B|]. apply (Q_who _ _ HI).
  Qed.

  (* once the line is tripped the datum is complete (no write window open) and never changes again:
     the value a reader gets is the value the publisher wrote last before tripping *)
  Lemma publishes_stable progs s : wf_pub progs = true -> R P progs s -> hs (gl s) L <> [] ->
    cdirty (cells (gl s) D) = false /\
    forall t c lc g' lc' es, nth_error (thr s) t = Some lc -> tstep P t c (gl s) lc = Some (g', lc', es) ->
      cval (cells g' D) = cval (cells (gl s) D).
  Proof.
    intros Hwf HR Hne. destruct (R_BInv _ _ Hwf HR) as [_ HI].
    assert (Hnw : forall v, pcof (thr s) p <> P_wend D v).
    { intros v E. destruct (Q_pre _ _ HI) as [Hnil _]; [|contradiction].
      right. unfold pcof in E. rewrite E. cbn. apply Nat.eqb_refl. }
    split.
    - destruct (cdirty (cells (gl s) D)) eqn:E; [|reflexivity].
      destruct (Q_dirty _ _ HI E) as [v Hv]. exfalso. eapply Hnw; eauto.
    - intros t c lc g' lc' es Hl Hs.
      pose proof (tstep_shape _ _ _ _ _ _ _ _ Hs) as Sh. unfold step_shape in Sh.
      assert (Hpt : pcof (thr s) t = at_ lc) by (unfold pcof; rewrite (locof_at _ _ _ Hl); reflexivity).
      destruct (at_ lc) eqn:Hpc.
      + destruct Sh as (o & r & _ & Hd).
        destruct (disp_same _ _ _ (dispatch_glob _ _ _ _ _ _ _ _ Hd)) as (_ & _ & -> & _). reflexivity.
      + destruct Sh as (-> & _ & _). reflexivity.
      + destruct Sh as (-> & _ & _). reflexivity.
      + destruct Sh as (-> & _ & _). rewrite wbeg_cells. destruct (Nat.eqb_spec D d) as [->|]; reflexivity.
      + destruct Sh as (-> & _ & _). rewrite wend_cells. destruct (Nat.eqb_spec D d) as [<-|]; [|reflexivity].
        exfalso. destruct (Nat.eq_dec t p) as [->|Hnp]; [eapply Hnw; eauto|].
        destruct (Q_rd _ _ HI t Hnp) as (_ & _ & Hk). rewrite Hpt in Hk. apply Hk. reflexivity.
      + destruct Sh as (-> & _ & _). rewrite rbeg_cells. destruct (Nat.eqb_spec D d) as [->|]; reflexivity.
      + destruct Sh as (-> & _ & _). rewrite rend_cells. destruct (Nat.eqb_spec D d) as [->|]; reflexivity.
  Qed.
End Pub.

(* ====================================================================== *)
(* Refutations by computation                                              *)
(* ====================================================================== *)
Definition runT (P : params) (progs : list (list op)) (sched : list (nat * nat)) : sysT :=
  run glob loc (tstep P) (init progs) sched.

(* the publication program: t0 attaches a trigger to explicit line 0, writes datum 0, destroys the
   trigger; t1 polls a detector of that line and reads the datum when it reports tripped *)
Definition pub_progs : list (list op) :=
  [[MkTrigE 0 0; WriteData 0 7; Destroy 0]; [MkDetE 0 0; PollRead 0 0]].
Definition pub_sched : list (nat * nat) :=
  [(0,0);(0,0);(0,0);(0,0);(0,0);(0,0); (1,0);(1,0);(1,0);(1,0);(1,0)]%nat.
Definition Pviews (st ld : mo) : params := mkP false true st ld 3 1 1 2.
Definition pub_line : nat := line_exp (Pviews Release Acquire) 0.

Lemma relaxed_refuted :
  (exists progs sched, wf_pub (Pviews Relaxed Acquire) 0 pub_line 0 progs = true /\
                       grace (gl (runT (Pviews Relaxed Acquire) progs sched)) 0 = true) /\
  (exists progs sched, wf_pub (Pviews Release Relaxed) 0 pub_line 0 progs = true /\
                       grace (gl (runT (Pviews Release Relaxed) progs sched)) 0 = true).
Proof. split; exists pub_progs, pub_sched; split; vm_compute; reflexivity. Qed.

(* the pre-repair destructor: make a trigger, move-construct another from it, destroy the moved-from one *)
Definition Punfixed : params := mkP true false tw_store_mo tw_load_mo 3 1 0 1.
Lemma unfixed_refuted : exists progs sched, gnull (gl (runT Punfixed progs sched)) = true.
Proof. exists [[MkTrigE 0 0; MoveCtor 0 1; Destroy 0]], [(0,0);(0,0);(0,0)]%nat. vm_compute. reflexivity. Qed.
