(* Invariants and lemmas for the TripWire model (property C19). *)
From Coq Require Import List Arith ZArith Lia Bool.
Import ListNotations.
From GV Require Import Sched Events Views TripWireModel.
Local Open Scope Z_scope.

Notation sysT := (sys glob loc).
Definition R (P : params) (progs : list (list op)) (s : sysT) : Prop :=
  reachable glob loc (tstep P) (init progs) s.

(* ---------- thread table access ---------- *)
Definition locof (ls : list loc) (u : nat) : loc :=
  match nth_error ls u with Some l => l | None => loc0 [] end.
Definition pcof (ls : list loc) (u : nat) : pc := at_ (locof ls u).
Lemma locof_upd ls t l l' u : nth_error ls t = Some l ->
  locof (upd ls t l') u = if Nat.eqb u t then l' else locof ls u.
Proof.
  intros H. unfold locof. destruct (Nat.eqb_spec u t) as [->|Hne].
  - rewrite (nth_upd_eq _ _ _ _ H). reflexivity.
  - rewrite nth_upd_ne by auto. reflexivity.
Qed.
Lemma locof_at ls t l : nth_error ls t = Some l -> locof ls t = l.
Proof. intros H. unfold locof. rewrite H. reflexivity. Qed.
Lemma locof_init progs u : locof (map loc0 progs) u = loc0 (nth u progs []).
Proof.
  unfold locof. rewrite nth_error_map. destruct (nth_error progs u) eqn:E; cbn.
  - rewrite (nth_error_nth _ _ _ E). reflexivity.
  - rewrite nth_overflow; [reflexivity|]. apply nth_error_None. exact E.
Qed.
Arguments locof : simpl never.
Arguments pcof : simpl never.

(* ---------- what the invoke step can do to the global state ---------- *)
Inductive disp_glob (P : params) (g : glob) : glob -> loc -> Prop :=
| dg_same lc' : (forall l, at_ lc' <> P_store l) -> disp_glob P g g lc'
| dg_null lc' : unfixed P = true -> at_ lc' = Idle -> disp_glob P g (set_null g) lc'
| dg_bump lc' l : at_ lc' = P_store l -> disp_glob P g (bump_destroyed g l) lc'.

Ltac disp_cases H :=
  unfold dispatch in H;
  repeat match type of H with
         | context [match ?x with _ => _ end] => destruct x eqn:?; cbn in H
         | context [if ?x then _ else _] => destruct x eqn:?; cbn in H
         end;
  inversion H; subst; clear H.

Lemma dispatch_glob P g lc o r g' lc' es :
  dispatch P g lc o r = (g', lc', es) -> disp_glob P g g' lc'.
Proof.
  intros H. disp_cases H;
    first [ apply dg_same; cbn; intros; discriminate
          | apply dg_null; [assumption|reflexivity]
          | apply dg_bump; reflexivity ].
Qed.

Lemma dispatch_prog P g lc o r g' lc' es :
  dispatch P g lc o r = (g', lc', es) -> prog lc' = r.
Proof. intros H. disp_cases H; reflexivity. Qed.

(* ---------- the basic invariant (every parameter choice, both semantics) ---------- *)
Record Inv0 (P : params) (g : glob) (ls : list loc) : Prop := {
  I_oneway : forall l m, In m (hs g l) -> mval m = 1;
  I_seen   : forall t l, (seen g t l <= length (hs g l))%nat;
  I_dh     : forall l, hs g l <> [] -> (0 < destroyed g l)%nat;
  I_dpc    : forall u l, pcof ls u = P_store l -> (0 < destroyed g l)%nat;
  I_null   : unfixed P = false -> gnull g = false
}.

Definition goto (lc : loc) (p : pc) : loc := Loc (prog lc) p (trg lc) (det lc).

Lemma Inv0_init P progs : Inv0 P (gl (init progs)) (thr (init progs)).
Proof.
  constructor; cbn; intros; try contradiction; try lia; try reflexivity; try congruence.
  unfold pcof in H. rewrite locof_init in H. discriminate.
Qed.

(* do_load never changes a history; do_store extends exactly one *)
Lemma hs_do_store P t l g l' :
  hs (do_store P t l g) l' = if Nat.eqb l' l then store_msg (st_mo P) t (clk g t) 1 :: hs g l else hs g l'.
Proof. unfold do_store; cbn. unfold fupd. destruct (Nat.eqb l' l) eqn:E; [apply Nat.eqb_eq in E; subst|]; reflexivity. Qed.
Lemma seen_do_store P t l g u l' :
  seen (do_store P t l g) u l' = if Nat.eqb u t && Nat.eqb l' l then Nat.max (seen g t l) (S (length (hs g l))) else seen g u l'.
Proof.
  unfold do_store; cbn. unfold fupd. destruct (Nat.eqb u t) eqn:E1; cbn; [|reflexivity].
  apply Nat.eqb_eq in E1; subst. reflexivity.
Qed.
Lemma seen_do_load P t ch l g u l' :
  seen (do_load P t ch l g) u l' =
  if Nat.eqb u t && Nat.eqb l' l then Nat.max (seen g t l) (read_stamp (hs g l) (load_idx P t ch l g)) else seen g u l'.
Proof.
  unfold do_load; cbn. unfold fupd. destruct (Nat.eqb u t) eqn:E1; cbn; [|reflexivity].
  apply Nat.eqb_eq in E1; subst. reflexivity.
Qed.

Lemma Inv0_step P : forall g ls t c l g' l' es,
  Inv0 P g ls -> nth_error ls t = Some l -> tstep P t c g l = Some (g', l', es) -> Inv0 P g' (upd ls t l').
Proof.
  intros g ls t c lc g' lc' es HI Hl Hs.
  destruct HI as [Hone Hseen Hdh Hdpc Hnull].
  assert (Hpt : pcof ls t = at_ lc) by (unfold pcof; rewrite (locof_at _ _ _ Hl); reflexivity).
  assert (Hpcu : forall u, pcof (upd ls t lc') u = if Nat.eqb u t then at_ lc' else pcof ls u).
  { intros u. unfold pcof. rewrite (locof_upd _ _ _ _ _ Hl). destruct (Nat.eqb u t); reflexivity. }
  unfold tstep in Hs. destruct (at_ lc) eqn:Hpc.
  - (* invoke *)
    destruct (prog lc) as [|o r] eqn:Hpr; [discriminate|]. inversion Hs as [Hd]; clear Hs.
    pose proof (dispatch_glob _ _ _ _ _ _ _ _ Hd) as HG.
    destruct HG as [lc' Hns|lc' Hu Hidle|lc' l0 Hst]; constructor; cbn; auto.
    + intros u l0. rewrite Hpcu. destruct (Nat.eqb u t); [intros E; exfalso; eapply Hns; eauto|apply Hdpc].
    + intros u l0. rewrite Hpcu. destruct (Nat.eqb u t); [rewrite Hidle; discriminate|apply Hdpc].
    + congruence.
    + intros l1 Hne. specialize (Hdh l1 Hne). unfold fupd. destruct (Nat.eqb l1 l0); lia.
    + intros u l1. rewrite Hpcu. unfold fupd. destruct (Nat.eqb u t).
      * rewrite Hst. intros E; inversion E; subst. rewrite Nat.eqb_refl. lia.
      * intros E. specialize (Hdpc u l1 E). destruct (Nat.eqb l1 l0); lia.
  - (* store *)
    inversion Hs; subst; clear Hs. constructor.
    + intros l0 m. rewrite hs_do_store. destruct (Nat.eqb l0 l); [|apply Hone].
      intros [<-|Hin]; [reflexivity|eapply Hone; eauto].
    + intros u l0. rewrite seen_do_store, hs_do_store.
      pose proof (Hseen u l0) as H1. pose proof (Hseen t l) as H2.
      destruct (Nat.eqb_spec u t) as [->|E1], (Nat.eqb_spec l0 l) as [->|E2]; cbn [andb length]; lia.
    + intros l0. rewrite hs_do_store. cbn. destruct (Nat.eqb_spec l0 l) as [->|Hne]; [|apply Hdh].
      intros _. apply (Hdpc t l). exact Hpt.
    + intros u l0. rewrite Hpcu. cbn. destruct (Nat.eqb u t); [discriminate|apply Hdpc].
    + exact Hnull.
  - (* load *)
    assert (Hg : g' = do_load P t c l g /\ (forall l0, at_ lc' <> P_store l0)).
    { destruct k as [d|]; [destruct (load_val P t c l g =? 0)|]; inversion Hs; subst; cbn; split; auto; discriminate. }
    destruct Hg as [-> Hns]. constructor; cbn; auto.
    + intros u l0. change (seen (do_load P t c l g) u l0 <= length (hs g l0))%nat. rewrite seen_do_load.
      destruct (Nat.eqb u t) eqn:E1, (Nat.eqb l0 l) eqn:E2; cbn [andb]; try apply Hseen.
      apply Nat.eqb_eq in E1, E2; subst. unfold read_stamp. specialize (Hseen t l). lia.
    + intros u l0. rewrite Hpcu. destruct (Nat.eqb u t); [intros E; exfalso; eapply Hns; eauto|apply Hdpc].
  - (* write begin *)
    unfold do_wbeg in Hs. cbn in Hs. inversion Hs; subst; clear Hs. constructor; cbn; auto.
    intros u l0. rewrite Hpcu. cbn. destruct (Nat.eqb u t); [discriminate|apply Hdpc].
  - inversion Hs; subst; clear Hs. constructor; cbn; auto.
    intros u l0. rewrite Hpcu. cbn. destruct (Nat.eqb u t); [discriminate|apply Hdpc].
  - unfold do_rbeg in Hs. cbn in Hs. inversion Hs; subst; clear Hs. constructor; cbn; auto.
    intros u l0. rewrite Hpcu. cbn. destruct (Nat.eqb u t); [discriminate|apply Hdpc].
  - unfold do_rend in Hs. cbn in Hs. inversion Hs; subst; clear Hs. constructor; cbn; auto.
    intros u l0. rewrite Hpcu. cbn. destruct (Nat.eqb u t); [discriminate|apply Hdpc].
Qed.

Lemma R_Inv0 P progs s : R P progs s -> Inv0 P (gl s) (thr s).
Proof.
  intros HR. eapply (reachable_inv glob loc (tstep P) (Inv0 P)); [apply Inv0_step| |exact HR].
  apply Inv0_init.
Qed.

(* ---------- which step emits which event ---------- *)
Lemma lobj_inj l l' : lobj l = lobj l' -> l = l'.
Proof. unfold lobj. lia. Qed.

Lemma dispatch_events P g lc o r g' lc' es e :
  dispatch P g lc o r = (g', lc', es) -> In e es ->
  ek e = K_INVOKE \/ ek e = K_RET \/ ek e = K_CATCH \/ ek e = K_FAULT.
Proof.
  intros H Hin. disp_cases H; cbn in Hin;
    repeat (destruct Hin as [<-|Hin]; [cbn; auto|]); contradiction.
Qed.

Lemma wbeg_faults_kind x d e : In e (wbeg_faults x d) -> ek e = K_FAULT.
Proof.
  unfold wbeg_faults. intros H. apply in_app_or in H as [H|H];
    [destruct (0 <? crd x)%nat|destruct (cdirty x)]; cbn in H; try contradiction;
    destruct H as [<-|[]]; reflexivity.
Qed.
Lemma do_wbeg_events P t d g e : In e (snd (do_wbeg P t d g)) -> ek e = K_FAULT \/ ek e = K_WR_BEGIN.
Proof.
  unfold do_wbeg, ft_write. cbn [snd]. intros H. apply in_app_or in H as [H|[<-|[]]]; [|right; reflexivity].
  left. eapply wbeg_faults_kind; eauto.
Qed.
Lemma do_rbeg_events t d g e : In e (snd (do_rbeg t d g)) -> ek e = K_FAULT \/ ek e = K_RD_BEGIN.
Proof.
  unfold do_rbeg, ft_read. cbn [snd]. intros H. apply in_app_or in H as [H|[<-|[]]]; [|right; reflexivity].
  left. destruct (cdirty (cells g d)); cbn in H; try contradiction. destruct H as [<-|[]]; reflexivity.
Qed.
Lemma do_rend_events d g e : In e (snd (do_rend d g)) -> ek e = K_FAULT \/ ek e = K_RD_END.
Proof.
  unfold do_rend. cbn [snd]. intros H. apply in_app_or in H as [H|[<-|[]]]; [|right; reflexivity].
  left. destruct (cdirty (cells g d)); cbn in H; try contradiction. destruct H as [<-|[]]; reflexivity.
Qed.

(* the shape of every step: new global state and the kinds of the emitted events, per pc *)
Definition step_shape (P : params) (t c : nat) (g : glob) (lc : loc) (g' : glob) (lc' : loc) (es : list ev) : Prop :=
  match at_ lc with
  | Idle => exists o r, prog lc = o :: r /\ dispatch P g lc o r = (g', lc', es)
  | P_store l => g' = do_store P t l g /\ lc' = goto lc Idle /\
                 es = [EA K_STORE (lobj l) 1 (mo_code (st_mo P)); ret 0]
  | P_load l k => g' = do_load P t c l g /\
                  (forall e, In e es -> e = EA K_LOAD (lobj l) (load_val P t c l g) (mo_code (ld_mo P)) \/ ek e = K_RET) /\
                  lc' = goto lc (match k with
                                 | None => Idle
                                 | Some d => if load_val P t c l g =? 0 then Idle else P_rbeg d
                                 end)
  | P_wbeg d v => g' = fst (do_wbeg P t d g) /\ lc' = goto lc (P_wend d v) /\
                  (forall e, In e es -> ek e = K_FAULT \/ ek e = K_WR_BEGIN)
  | P_wend d v => g' = do_wend d v g /\ lc' = goto lc Idle /\ es = [E K_WR_END (dobj d) v; ret 0]
  | P_rbeg d => g' = fst (do_rbeg t d g) /\ lc' = goto lc (P_rend d) /\
                (forall e, In e es -> ek e = K_FAULT \/ ek e = K_RD_BEGIN)
  | P_rend d => g' = fst (do_rend d g) /\ lc' = goto lc Idle /\
                (forall e, In e es -> ek e = K_FAULT \/ ek e = K_RD_END \/ ek e = K_RET)
  end.

Lemma tstep_shape P t c g lc g' lc' es :
  tstep P t c g lc = Some (g', lc', es) -> step_shape P t c g lc g' lc' es.
Proof.
  intros Hs. unfold tstep in Hs. unfold step_shape. destruct (at_ lc) eqn:Hpc.
  - destruct (prog lc) as [|o r]; [discriminate|]. inversion Hs. eauto.
  - inversion Hs; subst. auto.
  - cbv zeta in Hs. fold (goto lc Idle) in Hs.
    destruct k as [d|]; [destruct (load_val P t c l g =? 0)|]; inversion Hs; subst;
      (split; [reflexivity|split; [|reflexivity]]); intros e He; cbn in He;
      intuition (subst; auto).
  - destruct (do_wbeg P t d g) as [g1 es1] eqn:Ew. inversion Hs; subst.
    split; [reflexivity|split; [reflexivity|]]. intros e He. apply (do_wbeg_events P t d g). rewrite Ew. exact He.
  - inversion Hs; subst. auto.
  - destruct (do_rbeg t d g) as [g1 es1] eqn:Ew. inversion Hs; subst.
    split; [reflexivity|split; [reflexivity|]]. intros e He. apply (do_rbeg_events t d g). rewrite Ew. exact He.
  - destruct (do_rend d g) as [g1 es1] eqn:Ew. inversion Hs; subst.
    split; [reflexivity|split; [reflexivity|]]. intros e He. apply in_app_or in He as [He|[<-|[]]]; [|auto].
    destruct (do_rend_events d g e) as [E|E]; [rewrite Ew; exact He|auto|auto].
Qed.

(* a load event is emitted exactly by the load step of isTripped, with the value the model read *)
Lemma load_event P t c g lc g' lc' es ob v m :
  tstep P t c g lc = Some (g', lc', es) -> In (Ev K_LOAD ob v m) es ->
  exists l k, at_ lc = P_load l k /\ ob = lobj l /\ v = load_val P t c l g /\ g' = do_load P t c l g.
Proof.
  intros Hs Hin. pose proof (tstep_shape _ _ _ _ _ _ _ _ Hs) as Sh. unfold step_shape in Sh.
  destruct (at_ lc) eqn:Hpc.
  - destruct Sh as (o & r & _ & Hd).
    destruct (dispatch_events _ _ _ _ _ _ _ _ _ Hd Hin) as [E|[E|[E|E]]]; cbn in E; discriminate.
  - destruct Sh as (_ & _ & ->). cbn in Hin. destruct Hin as [E|[E|[]]]; discriminate.
  - destruct Sh as (-> & He & _). exists l, k. split; [reflexivity|].
    destruct (He _ Hin) as [E|E]; [|cbn in E; discriminate]. inversion E; subst. auto.
  - destruct Sh as (_ & _ & He). destruct (He _ Hin) as [E|E]; cbn in E; discriminate.
  - destruct Sh as (_ & _ & ->). cbn in Hin. destruct Hin as [E|[E|[]]]; discriminate.
  - destruct Sh as (_ & _ & He). destruct (He _ Hin) as [E|E]; cbn in E; discriminate.
  - destruct Sh as (_ & _ & He). destruct (He _ Hin) as [E|[E|E]]; cbn in E; discriminate.
Qed.

(* a store event is emitted exactly by the store step of ~TripWireTrigger, always with value true *)
Lemma store_event P t c g lc g' lc' es ob v m :
  tstep P t c g lc = Some (g', lc', es) -> In (Ev K_STORE ob v m) es ->
  exists l, at_ lc = P_store l /\ ob = lobj l /\ v = 1 /\ g' = do_store P t l g.
Proof.
  intros Hs Hin. pose proof (tstep_shape _ _ _ _ _ _ _ _ Hs) as Sh. unfold step_shape in Sh.
  destruct (at_ lc) eqn:Hpc.
  - destruct Sh as (o & r & _ & Hd).
    destruct (dispatch_events _ _ _ _ _ _ _ _ _ Hd Hin) as [E|[E|[E|E]]]; cbn in E; discriminate.
  - destruct Sh as (-> & _ & ->). cbn in Hin. destruct Hin as [E|[E|[]]]; [|discriminate].
    inversion E; subst. exists l. auto.
  - destruct Sh as (_ & He & _). destruct (He _ Hin) as [E|E]; [discriminate|cbn in E; discriminate].
  - destruct Sh as (_ & _ & He). destruct (He _ Hin) as [E|E]; cbn in E; discriminate.
  - destruct Sh as (_ & _ & ->). cbn in Hin. destruct Hin as [E|[E|[]]]; discriminate.
  - destruct Sh as (_ & _ & He). destruct (He _ Hin) as [E|E]; cbn in E; discriminate.
  - destruct Sh as (_ & _ & He). destruct (He _ Hin) as [E|[E|E]]; cbn in E; discriminate.
Qed.

(* the value a load returns: 1 iff it read a real message (given one-way), 0 for the initial value *)
Lemma load_val_cases P t c l g :
  (forall m, In m (hs g l) -> mval m = 1) ->
  (load_val P t c l g = 1 /\ (load_idx P t c l g < length (hs g l))%nat) \/
  (load_val P t c l g = 0 /\ (length (hs g l) <= load_idx P t c l g)%nat).
Proof.
  intros Hone. unfold load_val, read_val. destruct (nth_error (hs g l) (load_idx P t c l g)) as [m|] eqn:E.
  - left. split; [apply Hone; eapply nth_error_In; eauto|]. apply nth_error_Some. congruence.
  - right. split; [reflexivity|]. apply nth_error_None. exact E.
Qed.

(* ---------- C19, first sentence ---------- *)
Lemma false_until P progs s t c lc g' lc' es l m :
  R P progs s -> nth_error (thr s) t = Some lc -> tstep P t c (gl s) lc = Some (g', lc', es) ->
  In (Ev K_LOAD (lobj l) 1 m) es -> (0 < destroyed (gl s) l)%nat.
Proof.
  intros HR Hl Hs Hin. pose proof (R_Inv0 _ _ _ HR) as HI.
  destruct (load_event _ _ _ _ _ _ _ _ _ _ _ Hs Hin) as (l0 & k & Hpc & Hob & Hv & _).
  apply lobj_inj in Hob. subst l0.
  apply (I_dh _ _ _ HI). intros E.
  destruct (load_val_cases P t c l (gl s) (I_oneway _ _ _ HI l)) as [[_ Hlt]|[H0 _]].
  - rewrite E in Hlt. cbn in Hlt. lia.
  - rewrite H0 in Hv. discriminate.
Qed.

Lemma one_way P progs s l m : R P progs s -> In m (hs (gl s) l) -> mval m = 1.
Proof. intros HR. apply (I_oneway _ _ _ (R_Inv0 _ _ _ HR)). Qed.

Lemma store_only_true P t c g lc g' lc' es ob v m :
  tstep P t c g lc = Some (g', lc', es) -> In (Ev K_STORE ob v m) es -> v = 1.
Proof. intros Hs Hin. destruct (store_event _ _ _ _ _ _ _ _ _ _ _ Hs Hin) as (l & _ & _ & Hv & _). exact Hv. Qed.

Lemma no_null_deref P progs s : unfixed P = false -> R P progs s -> gnull (gl s) = false.
Proof. intros Hu HR. apply (I_null _ _ _ (R_Inv0 _ _ _ HR) Hu). Qed.

(* ---------- monotone parts of the state ---------- *)
Definition grows (g g' : glob) : Prop :=
  (forall u l, (seen g u l <= seen g' u l)%nat) /\
  (forall l, (length (hs g l) <= length (hs g' l))%nat) /\
  (forall u, vle (clk g u) (clk g' u)).

Lemma grows_refl g : grows g g.
Proof. repeat split; intros; try lia. apply vle_refl. Qed.
Lemma grows_trans a b c : grows a b -> grows b c -> grows a c.
Proof.
  intros (A1 & A2 & A3) (B1 & B2 & B3). repeat split; intros.
  - specialize (A1 u l). specialize (B1 u l). lia.
  - specialize (A2 l). specialize (B2 l). lia.
  - eapply vle_trans; eauto.
Qed.

Lemma clk_fupd_mono (k : nat -> vc) t v u : vle (k t) v -> vle (k u) (fupd k t v u).
Proof. intros H. unfold fupd. destruct (Nat.eqb_spec u t) as [->|]; [exact H|apply vle_refl]. Qed.

Lemma tstep_grows P t c g lc g' lc' es : tstep P t c g lc = Some (g', lc', es) -> grows g g'.
Proof.
  intros Hs. pose proof (tstep_shape _ _ _ _ _ _ _ _ Hs) as Sh. unfold step_shape in Sh.
  destruct (at_ lc) eqn:Hpc.
  - destruct Sh as (o & r & _ & Hd). destruct (dispatch_glob _ _ _ _ _ _ _ _ Hd); repeat split; cbn; intros; try lia; apply vle_refl.
  - destruct Sh as (-> & _ & _). repeat split; intros.
    + rewrite seen_do_store. destruct (Nat.eqb_spec u t) as [->|], (Nat.eqb_spec l0 l) as [->|]; cbn [andb]; lia.
    + rewrite hs_do_store. destruct (Nat.eqb_spec l0 l) as [->|]; cbn [length]; lia.
    + cbn. apply clk_fupd_mono. apply vle_inc.
  - destruct Sh as (-> & _ & _). repeat split; intros.
    + rewrite seen_do_load. destruct (Nat.eqb_spec u t) as [->|], (Nat.eqb_spec l0 l) as [->|]; cbn [andb]; lia.
    + cbn. lia.
    + cbn. apply clk_fupd_mono. apply read_clock_mono.
  - destruct Sh as (-> & _ & _). unfold do_wbeg, ft_write. cbn. apply grows_refl.
  - destruct Sh as (-> & _ & _). apply grows_refl.
  - destruct Sh as (-> & _ & _). unfold do_rbeg, ft_read. cbn. apply grows_refl.
  - destruct Sh as (-> & _ & _). apply grows_refl.
Qed.

Lemma step_sys P (s : sysT) tc :
  step glob loc (tstep P) s tc = s \/
  exists t c lc g' lc' es, tc = (t, c) /\ nth_error (thr s) t = Some lc /\
    tstep P t c (gl s) lc = Some (g', lc', es) /\ step glob loc (tstep P) s tc = Sys g' (upd (thr s) t lc').
Proof.
  unfold step, sys_step. destruct tc as [t c].
  destruct (nth_error (thr s) t) as [lc|] eqn:Hl; [|left; reflexivity].
  destruct (tstep P t c (gl s) lc) as [[[g' lc'] es]|] eqn:Hs; [|left; reflexivity].
  right. exists t, c, lc, g', lc', es. auto.
Qed.

Lemma reachable_grows P (s s' : sysT) : reachable glob loc (tstep P) s s' -> grows (gl s) (gl s').
Proof.
  intros [sc ->].
  apply (run_rel glob loc (tstep P) (fun a b => grows (gl a) (gl b))).
  - intros; apply grows_refl.
  - intros a b c; apply grows_trans.
  - intros a tc. destruct (step_sys P a tc) as [->|(t & c & lc & g' & lc' & es & _ & _ & Hs & ->)].
    + apply grows_refl.
    + cbn. eapply tstep_grows; eauto.
Qed.

(* ---------- monotone per thread (coherence) ---------- *)
Lemma load_seen P t c l g : load_val P t c l g = 1 -> (0 < seen (do_load P t c l g) t l)%nat.
Proof.
  intros Hv. rewrite seen_do_load, !Nat.eqb_refl. cbn [andb]. unfold read_stamp.
  unfold load_val, read_val in Hv. destruct (nth_error (hs g l) (load_idx P t c l g)) eqn:E; [|discriminate].
  assert (load_idx P t c l g < length (hs g l))%nat by (apply nth_error_Some; congruence). lia.
Qed.

Lemma seen_load_true P progs s t c l : R P progs s -> (0 < seen (gl s) t l)%nat -> load_val P t c l (gl s) = 1.
Proof.
  intros HR Hs. pose proof (R_Inv0 _ _ _ HR) as HI.
  destruct (pick_bounds (views P) (hs (gl s) l) (clk (gl s) t) (seen (gl s) t l) c (I_seen _ _ _ HI t l)) as [_ Hb].
  fold (load_idx P t c l (gl s)) in Hb.
  destruct (load_val_cases P t c l (gl s) (I_oneway _ _ _ HI l)) as [[H1 _]|[_ Hge]]; [exact H1|lia].
Qed.

Lemma monotone P progs s1 t c1 lc1 g1 lc1' es1 l m1 s2 c2 lc2 g2 lc2' es2 v m2 :
  R P progs s1 -> nth_error (thr s1) t = Some lc1 -> tstep P t c1 (gl s1) lc1 = Some (g1, lc1', es1) ->
  In (Ev K_LOAD (lobj l) 1 m1) es1 ->
  reachable glob loc (tstep P) (Sys g1 (upd (thr s1) t lc1')) s2 ->
  nth_error (thr s2) t = Some lc2 -> tstep P t c2 (gl s2) lc2 = Some (g2, lc2', es2) ->
  In (Ev K_LOAD (lobj l) v m2) es2 -> v = 1.
Proof.
  intros HR Hl1 Hs1 Hin1 Hreach Hl2 Hs2 Hin2.
  destruct (load_event _ _ _ _ _ _ _ _ _ _ _ Hs1 Hin1) as (l0 & k & _ & Hob & Hv & Hg).
  apply lobj_inj in Hob. subst l0.
  assert (0 < seen g1 t l)%nat as Hseen1 by (rewrite Hg; apply load_seen; auto).
  assert (R P progs (Sys g1 (upd (thr s1) t lc1'))) as HR1.
  { assert (Sys g1 (upd (thr s1) t lc1') = step glob loc (tstep P) s1 (t, c1)) as ->.
    { unfold step, sys_step. rewrite Hl1, Hs1. reflexivity. }
    apply reachable_step. exact HR. }
  assert (R P progs s2) as HR2 by (eapply reachable_trans; eauto).
  destruct (reachable_grows _ _ _ Hreach) as (Hmono & _ & _). cbn in Hmono.
  destruct (load_event _ _ _ _ _ _ _ _ _ _ _ Hs2 Hin2) as (l0 & k2 & _ & Hob & -> & _).
  apply lobj_inj in Hob. subst l0.
  apply (seen_load_true P progs s2 t c2 l HR2). specialize (Hmono t l). lia.
Qed.

(* a load that happens-after a trip store returns true *)
Lemma hb_true P progs s t c l m :
  R P progs s -> In m (hs (gl s) l) -> known (clk (gl s) t) m = true -> load_val P t c l (gl s) = 1.
Proof.
  intros HR Hin Hk. pose proof (R_Inv0 _ _ _ HR) as HI.
  destruct (In_nth_error _ _ Hin) as [j Hj].
  pose proof (pick_known (views P) _ _ _ c _ _ (I_seen _ _ _ HI t l) Hj Hk) as Hle.
  fold (load_idx P t c l (gl s)) in Hle.
  assert (j < length (hs (gl s) l))%nat by (apply nth_error_Some; congruence).
  destruct (load_val_cases P t c l (gl s) (I_oneway _ _ _ HI l)) as [[H1 _]|[_ Hge]]; [exact H1|lia].
Qed.

(* sequentially consistent instance: once stored to, every load by every thread returns true *)
Lemma sc_load_true P progs s t c l :
  views P = false -> R P progs s -> hs (gl s) l <> [] -> load_val P t c l (gl s) = 1.
Proof.
  intros Hv HR Hne. pose proof (R_Inv0 _ _ _ HR) as HI.
  unfold load_val, load_idx, pick. rewrite Hv. cbn [andb]. unfold read_val.
  destruct (hs (gl s) l) as [|m h] eqn:E; [congruence|]. cbn. apply (I_oneway _ _ _ HI l). rewrite E. left; reflexivity.
Qed.

Lemma sc_forever P progs s1 t1 c1 lc1 g1 lc1' es1 l v1 m1 s2 t2 c2 lc2 g2 lc2' es2 v m2 :
  views P = false ->
  R P progs s1 -> nth_error (thr s1) t1 = Some lc1 -> tstep P t1 c1 (gl s1) lc1 = Some (g1, lc1', es1) ->
  In (Ev K_STORE (lobj l) v1 m1) es1 ->
  reachable glob loc (tstep P) (Sys g1 (upd (thr s1) t1 lc1')) s2 ->
  nth_error (thr s2) t2 = Some lc2 -> tstep P t2 c2 (gl s2) lc2 = Some (g2, lc2', es2) ->
  In (Ev K_LOAD (lobj l) v m2) es2 -> v = 1.
Proof.
  intros Hv HR Hl1 Hs1 Hin1 Hreach Hl2 Hs2 Hin2.
  destruct (store_event _ _ _ _ _ _ _ _ _ _ _ Hs1 Hin1) as (l0 & _ & Hob & _ & Hg).
  apply lobj_inj in Hob. subst l0.
  assert (R P progs (Sys g1 (upd (thr s1) t1 lc1'))) as HR1.
  { assert (Sys g1 (upd (thr s1) t1 lc1') = step glob loc (tstep P) s1 (t1, c1)) as ->.
    { unfold step, sys_step. rewrite Hl1, Hs1. reflexivity. }
    apply reachable_step. exact HR. }
  assert (R P progs s2) as HR2 by (eapply reachable_trans; eauto).
  destruct (reachable_grows _ _ _ Hreach) as (_ & Hlen & _). cbn in Hlen. specialize (Hlen l).
  rewrite Hg, hs_do_store, Nat.eqb_refl in Hlen. cbn in Hlen.
  destruct (load_event _ _ _ _ _ _ _ _ _ _ _ Hs2 Hin2) as (l0 & k2 & _ & Hob & -> & _).
  apply lobj_inj in Hob. subst l0.
  apply (sc_load_true P progs s2 t2 c2 l Hv HR2). intros E. rewrite E in Hlen. cbn in Hlen. lia.
Qed.

(* ---------- lines are independent ---------- *)
Lemma lines_independent P t c g lc g' lc' es l' :
  tstep P t c g lc = Some (g', lc', es) ->
  (forall v m, ~ In (Ev K_STORE (lobj l') v m) es) -> hs g' l' = hs g l'.
Proof.
  intros Hs Hno. pose proof (tstep_shape _ _ _ _ _ _ _ _ Hs) as Sh. unfold step_shape in Sh.
  destruct (at_ lc) eqn:Hpc.
  - destruct Sh as (o & r & _ & Hd). destruct (dispatch_glob _ _ _ _ _ _ _ _ Hd); reflexivity.
  - destruct Sh as (-> & _ & ->). rewrite hs_do_store. destruct (Nat.eqb_spec l' l) as [->|]; [|reflexivity].
    exfalso. eapply Hno. left. reflexivity.
  - destruct Sh as (-> & _ & _). reflexivity.
  - destruct Sh as (-> & _ & _). unfold do_wbeg, ft_write. reflexivity.
  - destruct Sh as (-> & _ & _). reflexivity.
  - destruct Sh as (-> & _ & _). unfold do_rbeg, ft_read. reflexivity.
  - destruct Sh as (-> & _ & _). reflexivity.
Qed.

(* what a detector on l reads depends on l's history only (and on the reader's own view) *)
Lemma load_depends_on_own_line P t c l g g2 :
  hs g2 l = hs g l -> clk g2 t = clk g t -> seen g2 t l = seen g t l -> load_val P t c l g2 = load_val P t c l g.
Proof. intros H1 H2 H3. unfold load_val, load_idx. rewrite H1, H2, H3. reflexivity. Qed.
