(* Invariants and progress facts for the DelayedDestructor model (property C16). *)
From Coq Require Import List Arith ZArith Lia Bool.
Import ListNotations.
From GV Require Import Sched Events DelayedDestructorModel.
Local Open Scope Z_scope.
