(* Invariants and progress facts for the DelayedDestructor model (property C16). *)
From Coq Require Import List Arith ZArith Lia Bool.
Import ListNotations.
From GV Require Import Sched Events DelayedDestructorModel.

Notation sysD := (sys glob loc).
Notation runD := (run glob loc tstep).
Notation stepD := (step glob loc tstep).
Notation enabledD := (enabled glob loc tstep).

(* ---------- multisets of object ids ---------- *)
Definition cnt (o : nat) (l : list nat) : nat := count_occ Nat.eq_dec l o.
Lemma cnt_nil o : cnt o [] = 0. Proof. reflexivity. Qed.
Lemma cnt_cons o x l : cnt o (x :: l) = (if Nat.eqb x o then 1 else 0) + cnt o l.
Proof. unfold cnt. cbn. destruct (Nat.eq_dec x o), (Nat.eqb_spec x o); try congruence; reflexivity. Qed.
Lemma cnt_app o a b : cnt o (a ++ b) = cnt o a + cnt o b.
Proof. apply count_occ_app. Qed.
Lemma cnt_In o l : In o l <-> cnt o l > 0.
Proof. apply count_occ_In. Qed.
Lemma cnt_notin o l : ~ In o l <-> cnt o l = 0.
Proof. apply count_occ_not_In. Qed.
Lemma memn_In o l : memn o l = true <-> In o l.
Proof.
  unfold memn. rewrite existsb_exists. split.
  - intros [x [Hx He]]. apply Nat.eqb_eq in He. subst. exact Hx.
  - intros H. exists o. split; [exact H|apply Nat.eqb_refl].
Qed.
Lemma memn_false o l : memn o l = false <-> cnt o l = 0.
Proof.
  rewrite <- cnt_notin. rewrite <- memn_In. destruct (memn o l); split; intros H; try congruence; auto.
Qed.
Lemma fupd_eq f o v : fupd f o v o = v.
Proof. unfold fupd. rewrite Nat.eqb_refl. reflexivity. Qed.
Lemma fupd_ne f o v x : x <> o -> fupd f o v x = f x.
Proof. intros H. unfold fupd. destruct (Nat.eqb_spec x o); congruence. Qed.
Arguments cnt : simpl never.
Lemma NoDup_cnt l : NoDup l <-> forall o, cnt o l <= 1.
Proof. apply NoDup_count_occ. Qed.

(* ---------- scan: what `use_count() == 1` selects ---------- *)
Lemma scan_rc v : forall r ec r', scan v r = (ec, r') -> forall o, r' o = r o + cnt o ec.
Proof.
  induction v as [|x v IH]; intros r ec r' H o; cbn in H.
  - inversion H; subst. rewrite cnt_nil. lia.
  - destruct (Nat.eqb_spec (r x) 1) as [E|E].
    + destruct (scan v (fupd r x (S (r x)))) as [ec1 r1] eqn:S1. inversion H; subst.
      rewrite (IH _ _ _ S1 o), cnt_cons. destruct (Nat.eqb_spec x o) as [->|Hne].
      * rewrite fupd_eq. lia.
      * rewrite fupd_ne by auto. lia.
    + apply (IH _ _ _ H o).
Qed.
Lemma scan_sel v : forall r ec r', scan v r = (ec, r') ->
  forall o, cnt o ec <= 1 /\ (cnt o ec = 1 -> r o = 1 /\ In o v).
Proof.
  induction v as [|x v IH]; intros r ec r' H o; cbn in H.
  - inversion H; subst. rewrite cnt_nil. split; [lia|discriminate].
  - destruct (Nat.eqb_spec (r x) 1) as [E|E].
    + destruct (scan v (fupd r x (S (r x)))) as [ec1 r1] eqn:S1. inversion H; subst.
      destruct (IH _ _ _ S1 o) as [A B]. rewrite cnt_cons. destruct (Nat.eqb_spec x o) as [->|Hne].
      * assert (cnt o ec1 = 0).
        { destruct (cnt o ec1) as [|k] eqn:Ek; [reflexivity|]. assert (k = 0) by lia. subst.
          destruct (B eq_refl) as [B1 _]. rewrite fupd_eq in B1. lia. }
        split; [lia|]. intros _. split; [exact E|left; reflexivity].
      * rewrite fupd_ne in B by auto. split; [lia|]. intros H1. destruct B as [B1 B2]; [lia|]. split; [exact B1|right; exact B2].
    + destruct (IH _ _ _ H o) as [A B]. split; [exact A|]. intros H1. destruct (B H1). split; auto. right; auto.
Qed.

(* ---------- sweep: what remove_if + erase take out of the vector ---------- *)
Lemma sweep_rc v ep : forall r v2 r2, sweep v ep r = (v2, r2) -> forall o, r2 o + cnt o v = r o + cnt o v2 /\ cnt o v2 <= cnt o v.
Proof.
  induction v as [|x v IH]; intros r v2 r2 H o; cbn in H.
  - inversion H; subst. rewrite !cnt_nil. lia.
  - destruct (Nat.eqb (r x) 2 && memn x ep) eqn:C.
    + apply andb_true_iff in C as [C1 _]. apply Nat.eqb_eq in C1.
      destruct (IH _ _ _ H o) as [A B]. rewrite cnt_cons. destruct (Nat.eqb_spec x o) as [->|Hne].
      * rewrite fupd_eq in A. lia.
      * rewrite fupd_ne in A by auto. lia.
    + destruct (sweep v ep r) as [k r1] eqn:S1. inversion H; subst.
      destruct (IH _ _ _ S1 o) as [A B]. rewrite !cnt_cons. lia.
Qed.
Lemma sweep_keeps v ep : forall r v2 r2, sweep v ep r = (v2, r2) -> forall o, cnt o ep = 0 -> cnt o v2 = cnt o v.
Proof.
  induction v as [|x v IH]; intros r v2 r2 H o Ho; cbn in H.
  - inversion H; subst. reflexivity.
  - destruct (Nat.eqb (r x) 2 && memn x ep) eqn:C.
    + apply andb_true_iff in C as [_ C2]. apply memn_In, cnt_In in C2.
      rewrite cnt_cons. destruct (Nat.eqb_spec x o) as [->|Hne]; [lia|]. rewrite (IH _ _ _ H o Ho). lia.
    + destruct (sweep v ep r) as [k r1] eqn:S1. inversion H; subst. rewrite !cnt_cons, (IH _ _ _ S1 o Ho). reflexivity.
Qed.
Lemma sweep_removes v ep : forall r v2 r2, sweep v ep r = (v2, r2) ->
  forall o, cnt o v = 1 -> r o = 2 -> cnt o ep > 0 -> cnt o v2 = 0.
Proof.
  induction v as [|x v IH]; intros r v2 r2 H o Hc Hr Hm; cbn in H.
  - inversion H; subst. reflexivity.
  - rewrite cnt_cons in Hc. destruct (Nat.eqb (r x) 2 && memn x ep) eqn:C.
    + destruct (Nat.eqb_spec x o) as [->|Hne].
      * destruct (sweep_rc _ _ _ _ _ H o). lia.
      * apply (IH _ _ _ H o); auto. rewrite fupd_ne by auto. exact Hr.
    + destruct (sweep v ep r) as [k r1] eqn:S1. inversion H; subst. rewrite cnt_cons.
      destruct (Nat.eqb_spec x o) as [->|Hne].
      * exfalso. rewrite Hr in C. cbn in C. apply memn_false in C. lia.
      * cbn. apply (IH _ _ _ S1 o); auto.
Qed.

(* the net effect of the critical section of destroyObjects(): if the use counts are exact
   (r o = entries in the vector + other owners), the selected objects are exactly those whose only owner
   is one vector entry; those entries move to ecall, and no use count changes overall *)
Lemma scan_sweep v r (other : nat -> nat) ec r1 v2 r2 :
  (forall o, r o = cnt o v + other o) -> scan v r = (ec, r1) -> sweep v ec r1 = (v2, r2) ->
  forall o, r2 o = r o /\ cnt o v = cnt o v2 + cnt o ec /\ cnt o ec <= 1 /\
            (cnt o ec = 1 -> r o = 1 /\ cnt o v2 = 0 /\ other o = 0).
Proof.
  intros Hr Hs Hw o.
  pose proof (scan_rc _ _ _ _ Hs o) as R1. destruct (scan_sel _ _ _ _ Hs o) as [S1 S2].
  destruct (sweep_rc _ _ _ _ _ Hw o) as [W1 W2]. pose proof (Hr o) as Ho.
  destruct (cnt o ec) as [|k] eqn:Ek.
  - pose proof (sweep_keeps _ _ _ _ _ Hw o Ek). repeat split; try lia.
  - assert (k = 0) by lia. subst k. destruct (S2 eq_refl) as [E1 E2]. apply cnt_In in E2.
    assert (cnt o v = 1) as Cv by lia.
    assert (cnt o v2 = 0) as C2 by (apply (sweep_removes _ _ _ _ _ Hw o Cv); lia).
    repeat split; lia.
Qed.

(* ---------- references held by pending instructions ---------- *)
(* every shared_ptr copy a thread holds: ecall (ICb / IClear) and the by-value parameter of add *)
Definition irefs (i : instr) : list nat :=
  match i with IAddLock o => [o] | ICb _ _ ec _ => ec | IClear _ l => l | _ => [] end.
(* references the container itself put into a local vector *)
Definition crefs (i : instr) : list nat :=
  match i with ICb _ _ ec _ => ec | IClear src l => if Nat.eqb src SRC_DROP then [] else l | _ => [] end.
(* references that are not the container's own: the parameter of add, a client reference being dropped *)
Definition arefs (i : instr) : list nat :=
  match i with IAddLock o => [o] | IClear src l => if Nat.eqb src SRC_DROP then l else [] | _ => [] end.
(* destructors about to run *)
Definition idtor (i : instr) : list nat := match i with IDtor _ o => [o] | _ => [] end.

Definition stk_of (ls : list loc) (u : nat) : list instr :=
  match nth_error ls u with Some l => stk l | None => [] end.
Definition tot (f : instr -> list nat) (o : nat) (ls : list loc) : nat :=
  list_sum (map (fun l => cnt o (flat_map f (stk l))) ls).
Definition ext (g : glob) (o : nat) : nat := cnt o (map snd (slots g)).
Definition dcnt (g : glob) (o : nat) : nat := cnt o (dlog (gh g)).
Definition cbc (g : glob) (o : nat) : nat := cnt o (cblog (gh g)).

Lemma stk_of_upd ls t l l' u : nth_error ls t = Some l ->
  stk_of (upd ls t l') u = if Nat.eqb u t then stk l' else stk_of ls u.
Proof.
  intros H. unfold stk_of. destruct (Nat.eqb_spec u t) as [->|Hne].
  - rewrite (nth_upd_eq _ _ _ _ H). reflexivity.
  - rewrite nth_upd_ne by auto. reflexivity.
Qed.
Lemma stk_of_at ls t l : nth_error ls t = Some l -> stk_of ls t = stk l.
Proof. intros H. unfold stk_of. rewrite H. reflexivity. Qed.
Arguments stk_of : simpl never.

Lemma tot_upd f o ls t l l' : nth_error ls t = Some l ->
  tot f o (upd ls t l') + cnt o (flat_map f (stk l)) = tot f o ls + cnt o (flat_map f (stk l')).
Proof. intros H. unfold tot. apply (sum_upd (fun l => cnt o (flat_map f (stk l))) ls t l l' H). Qed.
(* the form used in the step proofs: the stack i :: st becomes push ++ st *)
Lemma tot_step f o ls t l i st p push r : nth_error ls t = Some l -> stk l = i :: st ->
  tot f o (upd ls t (Loc p (push ++ st) r)) + cnt o (f i) = tot f o ls + cnt o (flat_map f push).
Proof.
  intros H Hs. pose proof (tot_upd f o ls t l (Loc p (push ++ st) r) H) as E.
  rewrite Hs in E. cbn [stk flat_map] in E. rewrite flat_map_app, !cnt_app in E.
  rewrite !Nat.add_assoc in E. apply Nat.add_cancel_r in E. exact E.
Qed.
Lemma list_sum_cons a b : list_sum (a :: b) = a + list_sum b.
Proof. reflexivity. Qed.
Lemma tot_ge f o ls t l : nth_error ls t = Some l -> cnt o (flat_map f (stk l)) <= tot f o ls.
Proof.
  unfold tot. revert t. induction ls as [|h r IH]; destruct t; cbn [map nth_error]; rewrite ?list_sum_cons; intros H; try discriminate.
  - inversion H; subst. lia.
  - specialize (IH _ H). lia.
Qed.
Lemma tot_ge2 f o ls t u l l' : t <> u -> nth_error ls t = Some l -> nth_error ls u = Some l' ->
  cnt o (flat_map f (stk l)) + cnt o (flat_map f (stk l')) <= tot f o ls.
Proof.
  unfold tot. revert t u. induction ls as [|h r IH]; destruct t, u; cbn [map nth_error]; rewrite ?list_sum_cons; intros Hne H1 H2; try discriminate; try congruence.
  - inversion H1; subst. pose proof (tot_ge f o r u l' H2). unfold tot in *. lia.
  - inversion H2; subst. pose proof (tot_ge f o r t l H1). unfold tot in *. lia.
  - assert (t <> u) by congruence. specialize (IH _ _ H H1 H2). lia.
Qed.

Lemma slot_del_ext s l x : slot_get s l = Some x ->
  forall o, cnt o (map snd (slot_del s l)) + (if Nat.eqb x o then 1 else 0) = cnt o (map snd l).
Proof.
  induction l as [|[k y] l IH]; cbn; intros H o; [discriminate|].
  destruct (Nat.eqb_spec k s).
  - inversion H; subst. rewrite cnt_cons. lia.
  - cbn. rewrite !cnt_cons. specialize (IH H o). lia.
Qed.

(* ---------- shape of the stack of the thread that owns the mutex ---------- *)
Definition hold_i (i : instr) : bool :=
  match i with IUnlock | IDdLoop _ _ _ | IDdBody _ _ | ISetRvSize => true | _ => false end.
Definition quiet (st : list instr) : bool := forallb (fun i => negb (hold_i i)) st.
Definition holds (st : list instr) : bool :=
  match st with
  | IUnlock :: _ | IDdLoop _ _ _ :: _ | IDdBody _ _ :: _ | ISetRvSize :: IUnlock :: _ => true
  | _ => false
  end.
Definition wf (st : list instr) : bool :=
  match st with
  | IUnlock :: r | IDdLoop _ _ _ :: r | IDdBody _ _ :: r | ISetRvSize :: IUnlock :: r => quiet r
  | _ => quiet st
  end.
Lemma quiet_app a b : quiet (a ++ b) = quiet a && quiet b.
Proof. apply forallb_app. Qed.
Lemma quiet_not_holds st : quiet st = true -> holds st = false.
Proof. destruct st as [|i st]; [reflexivity|]. destruct i; cbn; try discriminate; reflexivity. Qed.
Lemma quiet_wf st : quiet st = true -> wf st = true.
Proof. destruct st as [|i st]; [reflexivity|]. destruct i; cbn; try discriminate; auto. Qed.

(* ---------- the mutex primitives touch nothing but the mutex ---------- *)
Lemma set_mtx_id g : g = set_mtx g (mtx g).
Proof. destruct g; reflexivity. Qed.
Lemma try_acq_mtx t c g b g' es : try_acq t c g = Some (b, g', es) -> exists m, g' = set_mtx g m.
Proof.
  unfold try_acq. destruct (locked (cf g)); [destruct (mtx g) eqn:M; [destruct (Nat.eqb c 2)|]|]; intros H; inversion H; subst.
  - eexists; apply set_mtx_id.
  - eexists; reflexivity.
  - eexists; apply set_mtx_id.
Qed.
Lemma lock_acq_mtx t g g' es : lock_acq t g = Some (g', es) -> exists m, g' = set_mtx g m.
Proof.
  unfold lock_acq. destruct (locked (cf g)); [destruct (mtx g) eqn:M|]; intros H; inversion H; subst.
  - eexists; reflexivity.
  - eexists; apply set_mtx_id.
Qed.
Lemma unlock_mtx g g' es : unlock g = (g', es) -> exists m, g' = set_mtx g m.
Proof.
  unfold unlock. destruct (locked (cf g)); intros H; inversion H; subst.
  - eexists; reflexivity.
  - eexists; apply set_mtx_id.
Qed.

(* ---------- counting invariant: use counts are exact; life cycle; conservation ---------- *)
Definition created (g : glob) (o : nat) : bool := (1 <=? o) && (o <=? nobj g).
Record InvC (g : glob) (ls : list loc) : Prop := {
  (* use_count = vector entries + client slots + references held by pending instructions *)
  C_rc : forall o, rc g o = cnt o (vec g) + ext g o + tot irefs o ls;
  (* an object whose count is 0 is destroyed or its destructor is the next thing its releaser does; never both, never twice *)
  C_life : forall o, if Nat.eqb (rc g o) 0
                     then dcnt g o + tot idtor o ls = (if created g o then 1 else 0)
                     else created g o = true /\ dcnt g o + tot idtor o ls = 0;
  (* every push into the vector is a vector entry, an entry of a local vector, or a released reference *)
  C_cons : forall o, cnt o (addlog (gh g)) = cnt o (vec g) + tot crefs o ls + cnt o (rlog (gh g));
  (* a selected object has left the vector, has no client owner, and exactly the local reference *)
  C_reaped : forall o, In o (reaped (gh g)) -> cnt o (vec g) = 0 /\ ext g o = 0 /\ tot arefs o ls = 0 /\ rc g o <= 1 /\ created g o = true;
  C_dead : cstate g = 2 -> vec g = []
}.

Lemma created_rc0 g ls o : InvC g ls -> created g o = false -> rc g o = 0 /\ cnt o (vec g) = 0 /\ ext g o = 0 /\ tot irefs o ls = 0.
Proof.
  intros HI Hc. pose proof (C_life _ _ HI o) as L. pose proof (C_rc _ _ HI o) as R.
  destruct (Nat.eqb_spec (rc g o) 0) as [E|E]; [lia|]. destruct L as [L _]. congruence.
Qed.
Lemma created_S g o : created g o = true -> o <> S (nobj g).
Proof. unfold created. intros H. apply andb_true_iff in H as [_ H]. apply Nat.leb_le in H. lia. Qed.
Lemma created_new g : created g (S (nobj g)) = false.
Proof. unfold created. apply andb_false_iff. right. apply Nat.leb_gt. lia. Qed.

(* bring the result of one instruction into a form in which every field of the new state computes *)
Ltac norm_exec H :=
  cbn [exec] in H;
  repeat match type of H with
  | context [try_acq ?t ?c ?g] =>
    let TA := fresh "TA" in let m := fresh "m" in let b := fresh "b" in
    destruct (try_acq t c g) as [[[b ?g1] ?es1]|] eqn:TA; [|discriminate H];
    destruct (try_acq_mtx _ _ _ _ _ _ TA) as [m ->]; destruct b
  | context [lock_acq ?t ?g] =>
    let LA := fresh "LA" in let m := fresh "m" in
    destruct (lock_acq t g) as [[?g1 ?es1]|] eqn:LA; [|discriminate H];
    destruct (lock_acq_mtx _ _ _ _ LA) as [m ->]
  | context [unlock ?g] =>
    let UA := fresh "UA" in let m := fresh "m" in
    destruct (unlock g) as [?g1 ?es1] eqn:UA; destruct (unlock_mtx _ _ _ UA) as [m ->]
  end.

Section ExecC.
  Variables (g : glob) (ls : list loc) (t : nat) (l : loc) (i : instr) (st : list instr) (c : nat).
  Variables (g' : glob) (r' : Z) (push : list instr) (es : list ev) (p : list op).
  Hypothesis HI : InvC g ls.
  Hypothesis Hl : nth_error ls t = Some l.
  Hypothesis Hs : stk l = i :: st.
  Hypothesis Hx : exec t c g (rv l) i = Some (g', r', push, es).
  Let ls' := upd ls t (Loc p (push ++ st) r').

  Lemma TS f o : tot f o ls' + cnt o (f i) = tot f o ls + cnt o (flat_map f push).
  Proof. apply (tot_step f o ls t l i st p push r' Hl Hs). Qed.

  (* the reference the executing instruction holds is counted *)
  Lemma ref_here f o : cnt o (f i) <= tot f o ls.
  Proof.
    pose proof (tot_ge f o ls t l Hl) as H. rewrite Hs in H. cbn [flat_map] in H. rewrite cnt_app in H. lia.
  Qed.
End ExecC.

Ltac tsf TSv o :=
  let T1 := fresh "T1" in let T2 := fresh "T2" in let T3 := fresh "T3" in let T4 := fresh "T4" in
  pose proof (TSv irefs o) as T1; pose proof (TSv idtor o) as T2; pose proof (TSv crefs o) as T3; pose proof (TSv arefs o) as T4;
  cbn [irefs idtor crefs arefs flat_map app Nat.eqb SRC_DROP SRC_CLEAR SRC_UNWIND SRC_VECTOR] in T1, T2, T3, T4;
  rewrite ?app_nil_r in T1, T2, T3, T4;
  rewrite ?cnt_app, ?cnt_cons, ?cnt_nil, ?Nat.add_0_r in T1;
  rewrite ?cnt_app, ?cnt_cons, ?cnt_nil, ?Nat.add_0_r in T2;
  rewrite ?cnt_app, ?cnt_cons, ?cnt_nil, ?Nat.add_0_r in T3;
  rewrite ?cnt_app, ?cnt_cons, ?cnt_nil, ?Nat.add_0_r in T4.
Ltac vrw := repeat match goal with H : vec ?g = _ |- context[vec ?g] => rewrite H end.
Ltac life_same TSv HL ls t :=
  let o := fresh "o" in intros o; tsf TSv o; specialize (HL o); cbn -[cnt tot] in *;
  replace (tot idtor o (upd ls t _)) with (tot idtor o ls) by lia; exact HL.
Ltac reaped_same TSv HP :=
  let o := fresh "o" in let Ho := fresh "Ho" in
  intros o Ho; tsf TSv o; destruct (HP o Ho) as [? [? [? [? ?]]]]; repeat split; (assumption || lia).
Ltac fin_simple TSv HR HL HC HP HD ls t :=
  constructor; unfold ext, dcnt, created; cbn -[cnt tot]; vrw;
  [ let o := fresh "o" in intros o; tsf TSv o; rewrite ?(HR o); vrw; lia
  | life_same TSv HL ls t
  | let o := fresh "o" in intros o; tsf TSv o; rewrite ?(HC o); vrw; lia
  | reaped_same TSv HP
  | first [exact HD | discriminate | reflexivity | (intros; congruence)] ].

Lemma upd_upd {A} (ls : list A) t a b : upd (upd ls t a) t b = upd ls t b.
Proof. revert t; induction ls; destruct t; cbn; intros; try rewrite IHls; auto. Qed.

(* pushing instructions on top of a thread's stack *)
Lemma tot_push f o ls t l push p r : nth_error ls t = Some l ->
  tot f o (upd ls t (Loc p (push ++ stk l) r)) = tot f o ls + cnt o (flat_map f push).
Proof.
  intros H. pose proof (tot_upd f o ls t l (Loc p (push ++ stk l) r) H) as E.
  cbn [stk] in E. rewrite flat_map_app, cnt_app in E. lia.
Qed.

Lemma created_mono g o : created g o = true ->
  (1 <=? o) && (o <=? S (nobj g)) = true.
Proof. unfold created. intros H. apply andb_true_iff in H as [A B]. apply Nat.leb_le in B. rewrite A. apply Nat.leb_le. lia. Qed.

Lemma new_obj_InvC g ls t l dm cm g2 x p r :
  InvC g ls -> nth_error ls t = Some l -> new_obj g dm cm = (g2, x) ->
  x = S (nobj g) /\ InvC g2 (upd ls t (Loc p ([IAddLock x] ++ stk l) r)).
Proof.
  intros HI Hl Hn. unfold new_obj in Hn. inversion Hn; subst; clear Hn. split; [reflexivity|].
  set (x := S (nobj g)).
  pose proof (fun f o => tot_push f o ls t l [IAddLock x] p r Hl) as TP.
  pose proof (C_rc _ _ HI) as HR. pose proof (C_life _ _ HI) as HL. pose proof (C_cons _ _ HI) as HC.
  pose proof (C_reaped _ _ HI) as HP. pose proof (C_dead _ _ HI) as HD.
  destruct (created_rc0 g ls x HI (created_new g)) as [X1 [X2 [X3 X4]]].
  pose proof (HL x) as HLx. rewrite X1 in HLx. cbn [Nat.eqb] in HLx.
  pose proof (created_new g) as CN. fold x in CN. rewrite CN in HLx.
  constructor; unfold ext, dcnt, created in *; cbn -[cnt tot].
  - intros o. rewrite TP. cbn [flat_map irefs app]. rewrite cnt_cons, cnt_nil.
    destruct (Nat.eqb_spec x o) as [<-|Hne]; [rewrite fupd_eq; lia|rewrite fupd_ne by auto; rewrite (HR o); lia].
  - intros o. rewrite TP. cbn [flat_map idtor app]. rewrite cnt_nil, Nat.add_0_r. specialize (HL o).
    destruct (Nat.eqb_spec x o) as [<-|Hne].
    + rewrite fupd_eq. cbn [Nat.eqb]. split; [|exact HLx]. unfold x. cbn [Nat.leb andb]. apply Nat.leb_refl.
    + rewrite fupd_ne by auto.
      assert ((o <=? x) = (o <=? nobj g)) as ->.
      { unfold x. destruct (Nat.leb_spec o (S (nobj g))), (Nat.leb_spec o (nobj g)); auto; lia. }
      exact HL.
  - intros o. rewrite TP. cbn [flat_map crefs app]. rewrite cnt_nil, Nat.add_0_r. apply HC.
  - intros o Ho. rewrite TP. cbn [flat_map arefs app]. rewrite cnt_cons, cnt_nil.
    destruct (HP o Ho) as [A [B [C [D F]]]].
    assert (o <> x) as Hne by (apply created_S; exact F).
    rewrite fupd_ne by auto. destruct (Nat.eqb_spec x o); [congruence|].
    repeat split; auto; try lia. apply (created_mono g o F).
  - exact HD.
Qed.

Lemma reenter_InvC g ls t l m g2 push p r :
  InvC g ls -> nth_error ls t = Some l -> reenter g m = (g2, push) ->
  InvC g2 (upd ls t (Loc p (push ++ stk l) r)).
Proof.
  intros HI Hl Hr.
  pose proof (fun f o => tot_push f o ls t l push p r Hl) as TP.
  pose proof (C_rc _ _ HI) as HR. pose proof (C_life _ _ HI) as HL. pose proof (C_cons _ _ HI) as HC.
  pose proof (C_reaped _ _ HI) as HP. pose proof (C_dead _ _ HI) as HD.
  unfold reenter in Hr.
  assert (Same : forall push0, flat_map irefs push0 = [] -> flat_map idtor push0 = [] -> flat_map crefs push0 = [] ->
                 flat_map arefs push0 = [] -> InvC g (upd ls t (Loc p (push0 ++ stk l) r))).
  { intros push0 Z1 Z2 Z3 Z4. pose proof (fun f o => tot_push f o ls t l push0 p r Hl) as TP0.
    constructor.
    - intros o. rewrite TP0, Z1, cnt_nil, Nat.add_0_r. apply HR.
    - intros o. rewrite TP0, Z2, cnt_nil, Nat.add_0_r. apply HL.
    - intros o. rewrite TP0, Z3, cnt_nil, Nat.add_0_r. apply HC.
    - intros o Ho. rewrite TP0, Z4, cnt_nil, Nat.add_0_r. apply HP, Ho.
    - exact HD. }
  destruct (cstate g) eqn:Cs; [|inversion Hr; subst; apply (Same []); reflexivity].
  destruct m as [|[|[|[|[|m]]]]]; try (inversion Hr; subst; apply (Same _); reflexivity).
  destruct (new_obj g 0 0) as [g3 x] eqn:N. inversion Hr; subst.
  apply (new_obj_InvC g ls t l 0 0 g2 x p r HI Hl N).
Qed.

