(* Invariants and progress facts for the DelayedDestructor model (property C16). *)
From Coq Require Import List Arith ZArith Lia Bool.
Import ListNotations.
From GV Require Import Sched Events DelayedDestructorModel.

Notation sysD := (sys glob loc).
Notation runD := (run glob loc tstep).
Notation stepD := (step glob loc tstep).
Notation enabledD := (enabled glob loc tstep).

(* ---------- multisets of object ids ---------- *)
Definition cnt (o : nat) (l : list nat) : nat := count_occ Nat.eq_dec l o.
Lemma cnt_nil o : cnt o [] = 0. Proof. reflexivity. Qed.
Lemma cnt_cons o x l : cnt o (x :: l) = (if Nat.eqb x o then 1 else 0) + cnt o l.
Proof. unfold cnt. cbn. destruct (Nat.eq_dec x o), (Nat.eqb_spec x o); try congruence; reflexivity. Qed.
Lemma cnt_app o a b : cnt o (a ++ b) = cnt o a + cnt o b.
Proof. apply count_occ_app. Qed.
Lemma cnt_In o l : In o l <-> cnt o l > 0.
Proof. apply count_occ_In. Qed.
Lemma cnt_notin o l : ~ In o l <-> cnt o l = 0.
Proof. apply count_occ_not_In. Qed.
Lemma memn_In o l : memn o l = true <-> In o l.
Proof.
  unfold memn. rewrite existsb_exists. split.
  - intros [x [Hx He]]. apply Nat.eqb_eq in He. subst. exact Hx.
  - intros H. exists o. split; [exact H|apply Nat.eqb_refl].
Qed.
Lemma memn_false o l : memn o l = false <-> cnt o l = 0.
Proof.
  rewrite <- cnt_notin. rewrite <- memn_In. destruct (memn o l); split; intros H; try congruence; auto.
Qed.
Lemma fupd_eq f o v : fupd f o v o = v.
Proof. unfold fupd. rewrite Nat.eqb_refl. reflexivity. Qed.
Lemma fupd_ne f o v x : x <> o -> fupd f o v x = f x.
Proof. intros H. unfold fupd. destruct (Nat.eqb_spec x o); congruence. Qed.
Arguments cnt : simpl never.
Lemma NoDup_cnt l : NoDup l <-> forall o, cnt o l <= 1.
Proof. apply NoDup_count_occ. Qed.

(* ---------- scan: what `use_count() == 1` selects ---------- *)
Lemma scan_rc v : forall r ec r', scan v r = (ec, r') -> forall o, r' o = r o + cnt o ec.
Proof.
  induction v as [|x v IH]; intros r ec r' H o; cbn in H.
  - inversion H; subst. rewrite cnt_nil. lia.
  - destruct (Nat.eqb_spec (r x) 1) as [E|E].
    + destruct (scan v (fupd r x (S (r x)))) as [ec1 r1] eqn:S1. inversion H; subst.
      rewrite (IH _ _ _ S1 o), cnt_cons. destruct (Nat.eqb_spec x o) as [->|Hne].
      * rewrite fupd_eq. lia.
      * rewrite fupd_ne by auto. lia.
    + apply (IH _ _ _ H o).
Qed.
Lemma scan_sel v : forall r ec r', scan v r = (ec, r') ->
  forall o, cnt o ec <= 1 /\ (cnt o ec = 1 -> r o = 1 /\ In o v).
Proof.
  induction v as [|x v IH]; intros r ec r' H o; cbn in H.
  - inversion H; subst. rewrite cnt_nil. split; [lia|discriminate].
  - destruct (Nat.eqb_spec (r x) 1) as [E|E].
    + destruct (scan v (fupd r x (S (r x)))) as [ec1 r1] eqn:S1. inversion H; subst.
      destruct (IH _ _ _ S1 o) as [A B]. rewrite cnt_cons. destruct (Nat.eqb_spec x o) as [->|Hne].
      * assert (cnt o ec1 = 0).
        { destruct (cnt o ec1) as [|k] eqn:Ek; [reflexivity|]. assert (k = 0) by lia. subst.
          destruct (B eq_refl) as [B1 _]. rewrite fupd_eq in B1. lia. }
        split; [lia|]. intros _. split; [exact E|left; reflexivity].
      * rewrite fupd_ne in B by auto. split; [lia|]. intros H1. destruct B as [B1 B2]; [lia|]. split; [exact B1|right; exact B2].
    + destruct (IH _ _ _ H o) as [A B]. split; [exact A|]. intros H1. destruct (B H1). split; auto. right; auto.
Qed.

(* ---------- sweep: what remove_if + erase take out of the vector ---------- *)
Lemma sweep_rc v ep : forall r v2 r2, sweep v ep r = (v2, r2) -> forall o, r2 o + cnt o v = r o + cnt o v2 /\ cnt o v2 <= cnt o v.
Proof.
  induction v as [|x v IH]; intros r v2 r2 H o; cbn in H.
  - inversion H; subst. rewrite !cnt_nil. lia.
  - destruct (Nat.eqb (r x) 2 && memn x ep) eqn:C.
    + apply andb_true_iff in C as [C1 _]. apply Nat.eqb_eq in C1.
      destruct (IH _ _ _ H o) as [A B]. rewrite cnt_cons. destruct (Nat.eqb_spec x o) as [->|Hne].
      * rewrite fupd_eq in A. lia.
      * rewrite fupd_ne in A by auto. lia.
    + destruct (sweep v ep r) as [k r1] eqn:S1. inversion H; subst.
      destruct (IH _ _ _ S1 o) as [A B]. rewrite !cnt_cons. lia.
Qed.
Lemma sweep_keeps v ep : forall r v2 r2, sweep v ep r = (v2, r2) -> forall o, cnt o ep = 0 -> cnt o v2 = cnt o v.
Proof.
  induction v as [|x v IH]; intros r v2 r2 H o Ho; cbn in H.
  - inversion H; subst. reflexivity.
  - destruct (Nat.eqb (r x) 2 && memn x ep) eqn:C.
    + apply andb_true_iff in C as [_ C2]. apply memn_In, cnt_In in C2.
      rewrite cnt_cons. destruct (Nat.eqb_spec x o) as [->|Hne]; [lia|]. rewrite (IH _ _ _ H o Ho). lia.
    + destruct (sweep v ep r) as [k r1] eqn:S1. inversion H; subst. rewrite !cnt_cons, (IH _ _ _ S1 o Ho). reflexivity.
Qed.
Lemma sweep_removes v ep : forall r v2 r2, sweep v ep r = (v2, r2) ->
  forall o, cnt o v = 1 -> r o = 2 -> cnt o ep > 0 -> cnt o v2 = 0.
Proof.
  induction v as [|x v IH]; intros r v2 r2 H o Hc Hr Hm; cbn in H.
  - inversion H; subst. reflexivity.
  - rewrite cnt_cons in Hc. destruct (Nat.eqb (r x) 2 && memn x ep) eqn:C.
    + destruct (Nat.eqb_spec x o) as [->|Hne].
      * destruct (sweep_rc _ _ _ _ _ H o). lia.
      * apply (IH _ _ _ H o); auto. rewrite fupd_ne by auto. exact Hr.
    + destruct (sweep v ep r) as [k r1] eqn:S1. inversion H; subst. rewrite cnt_cons.
      destruct (Nat.eqb_spec x o) as [->|Hne].
      * exfalso. rewrite Hr in C. cbn in C. apply memn_false in C. lia.
      * cbn. apply (IH _ _ _ S1 o); auto.
Qed.

(* the net effect of the critical section of destroyObjects(): if the use counts are exact
   (r o = entries in the vector + other owners), the selected objects are exactly those whose only owner
   is one vector entry; those entries move to ecall, and no use count changes overall *)
Lemma scan_sweep v r (other : nat -> nat) ec r1 v2 r2 :
  (forall o, r o = cnt o v + other o) -> scan v r = (ec, r1) -> sweep v ec r1 = (v2, r2) ->
  forall o, r2 o = r o /\ cnt o v = cnt o v2 + cnt o ec /\ cnt o ec <= 1 /\
            (cnt o ec = 1 -> r o = 1 /\ cnt o v2 = 0 /\ other o = 0).
Proof.
  intros Hr Hs Hw o.
  pose proof (scan_rc _ _ _ _ Hs o) as R1. destruct (scan_sel _ _ _ _ Hs o) as [S1 S2].
  destruct (sweep_rc _ _ _ _ _ Hw o) as [W1 W2]. pose proof (Hr o) as Ho.
  destruct (cnt o ec) as [|k] eqn:Ek.
  - pose proof (sweep_keeps _ _ _ _ _ Hw o Ek). repeat split; try lia.
  - assert (k = 0) by lia. subst k. destruct (S2 eq_refl) as [E1 E2]. apply cnt_In in E2.
    assert (cnt o v = 1) as Cv by lia.
    assert (cnt o v2 = 0) as C2 by (apply (sweep_removes _ _ _ _ _ Hw o Cv); lia).
    repeat split; lia.
Qed.

(* ---------- references held by pending instructions ---------- *)
(* every shared_ptr copy a thread holds: ecall (ICb / IClear) and the by-value parameter of add *)
Definition irefs (i : instr) : list nat :=
  match i with IAddLock o => [o] | ICb _ _ ec _ => ec | IClear _ l => l | _ => [] end.
(* references the container itself put into a local vector *)
Definition crefs (i : instr) : list nat :=
  match i with ICb _ _ ec _ => ec | IClear src l => if Nat.eqb src SRC_DROP then [] else l | _ => [] end.
(* references that are not the container's own: the parameter of add, a client reference being dropped *)
Definition arefs (i : instr) : list nat :=
  match i with IAddLock o => [o] | IClear src l => if Nat.eqb src SRC_DROP then l else [] | _ => [] end.
(* destructors about to run *)
Definition idtor (i : instr) : list nat := match i with IDtor _ o => [o] | _ => [] end.

Definition stk_of (ls : list loc) (u : nat) : list instr :=
  match nth_error ls u with Some l => stk l | None => [] end.
Definition tot (f : instr -> list nat) (o : nat) (ls : list loc) : nat :=
  list_sum (map (fun l => cnt o (flat_map f (stk l))) ls).
Definition ext (g : glob) (o : nat) : nat := cnt o (map snd (slots g)).
Definition dcnt (g : glob) (o : nat) : nat := cnt o (dlog (gh g)).
Definition cbc (g : glob) (o : nat) : nat := cnt o (cblog (gh g)).

Lemma stk_of_upd ls t l l' u : nth_error ls t = Some l ->
  stk_of (upd ls t l') u = if Nat.eqb u t then stk l' else stk_of ls u.
Proof.
  intros H. unfold stk_of. destruct (Nat.eqb_spec u t) as [->|Hne].
  - rewrite (nth_upd_eq _ _ _ _ H). reflexivity.
  - rewrite nth_upd_ne by auto. reflexivity.
Qed.
Lemma stk_of_at ls t l : nth_error ls t = Some l -> stk_of ls t = stk l.
Proof. intros H. unfold stk_of. rewrite H. reflexivity. Qed.
Arguments stk_of : simpl never.

Lemma tot_upd f o ls t l l' : nth_error ls t = Some l ->
  tot f o (upd ls t l') + cnt o (flat_map f (stk l)) = tot f o ls + cnt o (flat_map f (stk l')).
Proof. intros H. unfold tot. apply (sum_upd (fun l => cnt o (flat_map f (stk l))) ls t l l' H). Qed.
(* the form used in the step proofs: the stack i :: st becomes push ++ st *)
Lemma tot_step f o ls t l i st p push r : nth_error ls t = Some l -> stk l = i :: st ->
  tot f o (upd ls t (Loc p (push ++ st) r)) + cnt o (f i) = tot f o ls + cnt o (flat_map f push).
Proof.
  intros H Hs. pose proof (tot_upd f o ls t l (Loc p (push ++ st) r) H) as E.
  rewrite Hs in E. cbn [stk flat_map] in E. rewrite flat_map_app, !cnt_app in E.
  rewrite !Nat.add_assoc in E. apply Nat.add_cancel_r in E. exact E.
Qed.
Lemma list_sum_cons a b : list_sum (a :: b) = a + list_sum b.
Proof. reflexivity. Qed.
Lemma tot_ge f o ls t l : nth_error ls t = Some l -> cnt o (flat_map f (stk l)) <= tot f o ls.
Proof.
  unfold tot. revert t. induction ls as [|h r IH]; destruct t; cbn [map nth_error]; rewrite ?list_sum_cons; intros H; try discriminate.
  - inversion H; subst. lia.
  - specialize (IH _ H). lia.
Qed.
Lemma tot_ge2 f o ls t u l l' : t <> u -> nth_error ls t = Some l -> nth_error ls u = Some l' ->
  cnt o (flat_map f (stk l)) + cnt o (flat_map f (stk l')) <= tot f o ls.
Proof.
  unfold tot. revert t u. induction ls as [|h r IH]; destruct t, u; cbn [map nth_error]; rewrite ?list_sum_cons; intros Hne H1 H2; try discriminate; try congruence.
  - inversion H1; subst. pose proof (tot_ge f o r u l' H2). unfold tot in *. lia.
  - inversion H2; subst. pose proof (tot_ge f o r t l H1). unfold tot in *. lia.
  - assert (t <> u) by congruence. specialize (IH _ _ H H1 H2). lia.
Qed.

Lemma slot_del_ext s l x : slot_get s l = Some x ->
  forall o, cnt o (map snd (slot_del s l)) + (if Nat.eqb x o then 1 else 0) = cnt o (map snd l).
Proof.
  induction l as [|[k y] l IH]; cbn; intros H o; [discriminate|].
  destruct (Nat.eqb_spec k s).
  - inversion H; subst. rewrite cnt_cons. lia.
  - cbn. rewrite !cnt_cons. specialize (IH H o). lia.
Qed.

(* ---------- shape of the stack of the thread that owns the mutex ---------- *)
Definition hold_i (i : instr) : bool :=
  match i with IUnlock | IDdLoop _ _ _ | IDdBody _ _ | ISetRvSize => true | _ => false end.
Definition quiet (st : list instr) : bool := forallb (fun i => negb (hold_i i)) st.
Definition holds (st : list instr) : bool :=
  match st with
  | IUnlock :: _ | IDdLoop _ _ _ :: _ | IDdBody _ _ :: _ | ISetRvSize :: IUnlock :: _ => true
  | _ => false
  end.
Definition wf (st : list instr) : bool :=
  match st with
  | IUnlock :: r | IDdLoop _ _ _ :: r | IDdBody _ _ :: r | ISetRvSize :: IUnlock :: r => quiet r
  | _ => quiet st
  end.
Lemma quiet_app a b : quiet (a ++ b) = quiet a && quiet b.
Proof. apply forallb_app. Qed.
Lemma quiet_not_holds st : quiet st = true -> holds st = false.
Proof. destruct st as [|i st]; [reflexivity|]. destruct i; cbn; try discriminate; reflexivity. Qed.
Lemma quiet_wf st : quiet st = true -> wf st = true.
Proof. destruct st as [|i st]; [reflexivity|]. destruct i; cbn; try discriminate; auto. Qed.

(* ---------- the mutex primitives touch nothing but the mutex ---------- *)
Lemma set_mtx_id g : g = set_mtx g (mtx g).
Proof. destruct g; reflexivity. Qed.
Lemma try_acq_mtx t c g b g' es : try_acq t c g = Some (b, g', es) -> exists m, g' = set_mtx g m.
Proof.
  unfold try_acq. destruct (locked (cf g)); [destruct (mtx g) eqn:M; [destruct (Nat.eqb c 2)|]|]; intros H; inversion H; subst.
  - eexists; apply set_mtx_id.
  - eexists; reflexivity.
  - eexists; apply set_mtx_id.
Qed.
Lemma lock_acq_mtx t g g' es : lock_acq t g = Some (g', es) -> exists m, g' = set_mtx g m.
Proof.
  unfold lock_acq. destruct (locked (cf g)); [destruct (mtx g) eqn:M|]; intros H; inversion H; subst.
  - eexists; reflexivity.
  - eexists; apply set_mtx_id.
Qed.
Lemma unlock_mtx g g' es : unlock g = (g', es) -> exists m, g' = set_mtx g m.
Proof.
  unfold unlock. destruct (locked (cf g)); intros H; inversion H; subst.
  - eexists; reflexivity.
  - eexists; apply set_mtx_id.
Qed.

(* ---------- counting invariant: use counts are exact; life cycle; conservation ---------- *)
Definition created (g : glob) (o : nat) : bool := (1 <=? o) && (o <=? nobj g).
Record InvC (g : glob) (ls : list loc) : Prop := {
  (* use_count = vector entries + client slots + references held by pending instructions *)
  C_rc : forall o, rc g o = cnt o (vec g) + ext g o + tot irefs o ls;
  (* an object whose count is 0 is destroyed or its destructor is the next thing its releaser does; never both, never twice *)
  C_life : forall o, if Nat.eqb (rc g o) 0
                     then dcnt g o + tot idtor o ls = (if created g o then 1 else 0)
                     else created g o = true /\ dcnt g o + tot idtor o ls = 0;
  (* every push into the vector is a vector entry, an entry of a local vector, or a released reference *)
  C_cons : forall o, cnt o (addlog (gh g)) = cnt o (vec g) + tot crefs o ls + cnt o (rlog (gh g));
  (* a selected object has left the vector, has no client owner, and exactly the local reference *)
  C_reaped : forall o, In o (reaped (gh g)) -> cnt o (vec g) = 0 /\ ext g o = 0 /\ tot arefs o ls = 0 /\ rc g o <= 1 /\ created g o = true;
  C_dead : cstate g = 2 -> vec g = []
}.

Lemma created_rc0 g ls o : InvC g ls -> created g o = false -> rc g o = 0 /\ cnt o (vec g) = 0 /\ ext g o = 0 /\ tot irefs o ls = 0.
Proof.
  intros HI Hc. pose proof (C_life _ _ HI o) as L. pose proof (C_rc _ _ HI o) as R.
  destruct (Nat.eqb_spec (rc g o) 0) as [E|E]; [lia|]. destruct L as [L _]. congruence.
Qed.
Lemma created_S g o : created g o = true -> o <> S (nobj g).
Proof. unfold created. intros H. apply andb_true_iff in H as [_ H]. apply Nat.leb_le in H. lia. Qed.
Lemma created_new g : created g (S (nobj g)) = false.
Proof. unfold created. apply andb_false_iff. right. apply Nat.leb_gt. lia. Qed.

(* bring the result of one instruction into a form in which every field of the new state computes *)
Ltac norm_exec H :=
  cbn [exec] in H;
  repeat match type of H with
  | context [try_acq ?t ?c ?g] =>
    let TA := fresh "TA" in let m := fresh "m" in let b := fresh "b" in
    destruct (try_acq t c g) as [[[b ?g1] ?es1]|] eqn:TA; [|discriminate H];
    destruct (try_acq_mtx _ _ _ _ _ _ TA) as [m ->]; destruct b
  | context [lock_acq ?t ?g] =>
    let LA := fresh "LA" in let m := fresh "m" in
    destruct (lock_acq t g) as [[?g1 ?es1]|] eqn:LA; [|discriminate H];
    destruct (lock_acq_mtx _ _ _ _ LA) as [m ->]
  | context [unlock ?g] =>
    let UA := fresh "UA" in let m := fresh "m" in
    destruct (unlock g) as [?g1 ?es1] eqn:UA; destruct (unlock_mtx _ _ _ UA) as [m ->]
  end.

Section ExecC.
  Variables (g : glob) (ls : list loc) (t : nat) (l : loc) (i : instr) (st : list instr) (c : nat).
  Variables (g' : glob) (r' : Z) (push : list instr) (es : list ev) (p : list op).
  Hypothesis HI : InvC g ls.
  Hypothesis Hl : nth_error ls t = Some l.
  Hypothesis Hs : stk l = i :: st.
  Hypothesis Hx : exec t c g (rv l) i = Some (g', r', push, es).
  Let ls' := upd ls t (Loc p (push ++ st) r').

  Lemma TS f o : tot f o ls' + cnt o (f i) = tot f o ls + cnt o (flat_map f push).
  Proof. apply (tot_step f o ls t l i st p push r' Hl Hs). Qed.

  (* the reference the executing instruction holds is counted *)
  Lemma ref_here f o : cnt o (f i) <= tot f o ls.
  Proof.
    pose proof (tot_ge f o ls t l Hl) as H. rewrite Hs in H. cbn [flat_map] in H. rewrite cnt_app in H. lia.
  Qed.
End ExecC.

Ltac tsf TSv o :=
  let T1 := fresh "T1" in let T2 := fresh "T2" in let T3 := fresh "T3" in let T4 := fresh "T4" in
  pose proof (TSv irefs o) as T1; pose proof (TSv idtor o) as T2; pose proof (TSv crefs o) as T3; pose proof (TSv arefs o) as T4;
  cbn [irefs idtor crefs arefs flat_map app Nat.eqb SRC_DROP SRC_CLEAR SRC_UNWIND SRC_VECTOR] in T1, T2, T3, T4;
  rewrite ?app_nil_r in T1, T2, T3, T4;
  rewrite ?cnt_app, ?cnt_cons, ?cnt_nil, ?Nat.add_0_r in T1;
  rewrite ?cnt_app, ?cnt_cons, ?cnt_nil, ?Nat.add_0_r in T2;
  rewrite ?cnt_app, ?cnt_cons, ?cnt_nil, ?Nat.add_0_r in T3;
  rewrite ?cnt_app, ?cnt_cons, ?cnt_nil, ?Nat.add_0_r in T4.
Ltac vrw := repeat match goal with H : vec ?g = _ |- context[vec ?g] => rewrite H end.
Ltac life_same TSv HL ls t :=
  let o := fresh "o" in intros o; tsf TSv o; specialize (HL o); cbn -[cnt tot] in *;
  replace (tot idtor o (upd ls t _)) with (tot idtor o ls) by lia; exact HL.
Ltac reaped_same TSv HP :=
  let o := fresh "o" in let Ho := fresh "Ho" in
  intros o Ho; tsf TSv o; destruct (HP o Ho) as [? [? [? [? ?]]]]; repeat split; (assumption || lia).
Ltac fin_simple TSv HR HL HC HP HD ls t :=
  constructor; unfold ext, dcnt, created; cbn -[cnt tot]; vrw;
  [ let o := fresh "o" in intros o; tsf TSv o; rewrite ?(HR o); vrw; lia
  | life_same TSv HL ls t
  | let o := fresh "o" in intros o; tsf TSv o; rewrite ?(HC o); vrw; lia
  | reaped_same TSv HP
  | first [exact HD | discriminate | reflexivity | (intros; congruence)] ].

Lemma upd_upd {A} (ls : list A) t a b : upd (upd ls t a) t b = upd ls t b.
Proof. revert t; induction ls; destruct t; cbn; intros; try rewrite IHls; auto. Qed.

(* pushing instructions on top of a thread's stack *)
Lemma tot_push f o ls t l push p r : nth_error ls t = Some l ->
  tot f o (upd ls t (Loc p (push ++ stk l) r)) = tot f o ls + cnt o (flat_map f push).
Proof.
  intros H. pose proof (tot_upd f o ls t l (Loc p (push ++ stk l) r) H) as E.
  cbn [stk] in E. rewrite flat_map_app, cnt_app in E. lia.
Qed.

Lemma created_mono g o : created g o = true ->
  (1 <=? o) && (o <=? S (nobj g)) = true.
Proof. unfold created. intros H. apply andb_true_iff in H as [A B]. apply Nat.leb_le in B. rewrite A. apply Nat.leb_le. lia. Qed.

Lemma new_obj_InvC g ls t l dm cm g2 x p r :
  InvC g ls -> nth_error ls t = Some l -> new_obj g dm cm = (g2, x) ->
  x = S (nobj g) /\ InvC g2 (upd ls t (Loc p ([IAddLock x] ++ stk l) r)).
Proof.
  intros HI Hl Hn. unfold new_obj in Hn. inversion Hn; subst; clear Hn. split; [reflexivity|].
  set (x := S (nobj g)).
  pose proof (fun f o => tot_push f o ls t l [IAddLock x] p r Hl) as TP.
  pose proof (C_rc _ _ HI) as HR. pose proof (C_life _ _ HI) as HL. pose proof (C_cons _ _ HI) as HC.
  pose proof (C_reaped _ _ HI) as HP. pose proof (C_dead _ _ HI) as HD.
  destruct (created_rc0 g ls x HI (created_new g)) as [X1 [X2 [X3 X4]]].
  pose proof (HL x) as HLx. rewrite X1 in HLx. cbn [Nat.eqb] in HLx.
  pose proof (created_new g) as CN. fold x in CN. rewrite CN in HLx.
  constructor; unfold ext, dcnt, created in *; cbn -[cnt tot].
  - intros o. rewrite TP. cbn [flat_map irefs app]. rewrite cnt_cons, cnt_nil.
    destruct (Nat.eqb_spec x o) as [<-|Hne]; [rewrite fupd_eq; lia|rewrite fupd_ne by auto; rewrite (HR o); lia].
  - intros o. rewrite TP. cbn [flat_map idtor app]. rewrite cnt_nil, Nat.add_0_r. specialize (HL o).
    destruct (Nat.eqb_spec x o) as [<-|Hne].
    + rewrite fupd_eq. cbn [Nat.eqb]. split; [|exact HLx]. unfold x. cbn [Nat.leb andb]. apply Nat.leb_refl.
    + rewrite fupd_ne by auto.
      assert ((o <=? x) = (o <=? nobj g)) as ->.
      { unfold x. destruct (Nat.leb_spec o (S (nobj g))), (Nat.leb_spec o (nobj g)); auto; lia. }
      exact HL.
  - intros o. rewrite TP. cbn [flat_map crefs app]. rewrite cnt_nil, Nat.add_0_r. apply HC.
  - intros o Ho. rewrite TP. cbn [flat_map arefs app]. rewrite cnt_cons, cnt_nil.
    destruct (HP o Ho) as [A [B [C [D F]]]].
    assert (o <> x) as Hne by (apply created_S; exact F).
    rewrite fupd_ne by auto. destruct (Nat.eqb_spec x o); [congruence|].
    repeat split; auto; try lia. apply (created_mono g o F).
  - exact HD.
Qed.

Lemma reenter_InvC g ls t l m g2 push p r :
  InvC g ls -> nth_error ls t = Some l -> reenter g m = (g2, push) ->
  InvC g2 (upd ls t (Loc p (push ++ stk l) r)).
Proof.
  intros HI Hl Hr.
  pose proof (fun f o => tot_push f o ls t l push p r Hl) as TP.
  pose proof (C_rc _ _ HI) as HR. pose proof (C_life _ _ HI) as HL. pose proof (C_cons _ _ HI) as HC.
  pose proof (C_reaped _ _ HI) as HP. pose proof (C_dead _ _ HI) as HD.
  unfold reenter in Hr.
  assert (Same : forall push0, flat_map irefs push0 = [] -> flat_map idtor push0 = [] -> flat_map crefs push0 = [] ->
                 flat_map arefs push0 = [] -> InvC g (upd ls t (Loc p (push0 ++ stk l) r))).
  { intros push0 Z1 Z2 Z3 Z4. pose proof (fun f o => tot_push f o ls t l push0 p r Hl) as TP0.
    constructor.
    - intros o. rewrite TP0, Z1, cnt_nil, Nat.add_0_r. apply HR.
    - intros o. rewrite TP0, Z2, cnt_nil, Nat.add_0_r. apply HL.
    - intros o. rewrite TP0, Z3, cnt_nil, Nat.add_0_r. apply HC.
    - intros o Ho. rewrite TP0, Z4, cnt_nil, Nat.add_0_r. apply HP, Ho.
    - exact HD. }
  destruct (cstate g =? 2) eqn:Cs; [inversion Hr; subst; apply (Same []); reflexivity|].
  destruct m as [|[|[|[|[|m]]]]]; try (inversion Hr; subst; apply (Same _); reflexivity).
  - destruct (new_obj g 0 0) as [g3 x] eqn:N. inversion Hr; subst.
    apply (new_obj_InvC g ls t l 0 0 g2 x p r HI Hl N).
  - destruct (new_obj g (child_mode (S (S (S (S (S m)))))) 0) as [g3 x] eqn:N. inversion Hr; subst.
    apply (new_obj_InvC g ls t l _ 0 g2 x p r HI Hl N).
Qed.


Ltac eqcase a b :=
  let Heq := fresh "Heq" in let Hne := fresh "Hne" in
  destruct (Nat.eq_dec a b) as [Heq|Hne];
  [ subst; rewrite ?Nat.eqb_refl in *
  | let H := fresh "Hb" in pose proof (proj2 (Nat.eqb_neq a b) Hne) as H; rewrite ?H in *;
    let H2 := fresh "Hb" in pose proof (proj2 (Nat.eqb_neq b a) (not_eq_sym Hne)) as H2; rewrite ?H2 in * ].

Lemma arefs_le_irefs o st : cnt o (flat_map arefs st) <= cnt o (flat_map irefs st).
Proof.
  induction st as [|i st IH]; cbn [flat_map]; [lia|]. rewrite !cnt_app.
  assert (cnt o (arefs i) <= cnt o (irefs i)); [|lia].
  destruct i; cbn [arefs irefs]; rewrite ?cnt_nil; try lia. destruct (src =? SRC_DROP); rewrite ?cnt_nil; lia.
Qed.
Lemma tot_arefs_le o ls : tot arefs o ls <= tot irefs o ls.
Proof. unfold tot. apply sum_mono. intros x _. apply arefs_le_irefs. Qed.

Lemma slot_get_ext s l x : slot_get s l = Some x -> cnt x (map snd l) >= 1.
Proof. intros H. pose proof (slot_del_ext s l x H x) as E. rewrite Nat.eqb_refl in E. lia. Qed.

Lemma keep_InvC g ls s x : InvC g ls -> tot arefs x ls >= 1 ->
  InvC (set_slots (inc_rc g x) ((s, x) :: slots g)) ls.
Proof.
  intros HI Ha.
  pose proof (C_rc _ _ HI) as HR. pose proof (C_life _ _ HI) as HL. pose proof (C_cons _ _ HI) as HC.
  pose proof (C_reaped _ _ HI) as HP. pose proof (C_dead _ _ HI) as HD.
  pose proof (tot_arefs_le x ls) as LE.
  constructor; unfold ext, dcnt, created in *; cbn -[cnt tot].
  - intros o. rewrite cnt_cons. unfold fupd. rewrite (Nat.eqb_sym o x). eqcase x o; rewrite (HR o); lia.
  - intros o. specialize (HL o). unfold fupd. eqcase o x; [|exact HL].
    pose proof (HR x). destruct (Nat.eqb_spec (rc g x) 0); [lia|]. exact HL.
  - exact HC.
  - intros o Ho. destruct (HP o Ho) as [A [B [C [D F]]]]. rewrite cnt_cons. unfold fupd.
    assert (o <> x) by (intros ->; lia). eqcase o x; [congruence|]. repeat split; auto.
  - exact HD.
Qed.

Lemma exec_InvC g ls t l i st c g' r' push es p :
  InvC g ls -> nth_error ls t = Some l -> stk l = i :: st ->
  exec t c g (rv l) i = Some (g', r', push, es) ->
  InvC g' (upd ls t (Loc p (push ++ st) r')).
Proof.
  intros HI Hl Hs Hx.
  pose proof (fun f o => TS ls t l i st r' push p Hl Hs f o) as TSv.
  pose proof (fun f o => ref_here ls t l i st Hl Hs f o) as RH.
  pose proof (C_rc _ _ HI) as HR. pose proof (C_life _ _ HI) as HL. pose proof (C_cons _ _ HI) as HC.
  pose proof (C_reaped _ _ HI) as HP. pose proof (C_dead _ _ HI) as HD.
  destruct i; norm_exec Hx.
  all: unfold ext, dcnt, created in *.
  all: try (solve [
            repeat match type of Hx with
                   | context [if ?x then _ else _] => destruct x eqn:?
                   | context [match ?x with _ => _ end] => destruct x eqn:?
                   end; try discriminate;
            inversion Hx; subst; clear Hx; cbn [app] in *;
            fin_simple TSv HR HL HC HP HD ls t ]).
  7: { (* IDcVec *)
    inversion Hx; subst; clear Hx; cbn [app] in *.
    constructor; unfold ext, dcnt, created; cbn -[cnt tot].
    - intros o; tsf TSv o; rewrite (HR o), cnt_nil; lia.
    - life_same TSv HL ls t.
    - intros o; tsf TSv o; rewrite (HC o), cnt_nil; lia.
    - intros o Ho. tsf TSv o. destruct (HP o Ho) as [A [B [C [D F]]]]. rewrite cnt_nil. repeat split; auto; lia.
    - reflexivity. }
  2: { (* IAddLock *)
    destruct (Nat.eqb_spec (cstate g) 2) as [Ec|Ec].
    { inversion Hx; subst; clear Hx; cbn [app] in *. fin_simple TSv HR HL HC HP HD ls t. }
    norm_exec Hx. inversion Hx; subst; clear Hx; cbn [app] in *.
    constructor; unfold ext, dcnt, created; cbn -[cnt tot].
    - intros x; tsf TSv x; rewrite (HR x), cnt_app, cnt_cons, cnt_nil; lia.
    - life_same TSv HL ls t.
    - intros x; tsf TSv x; rewrite cnt_cons, (HC x), cnt_app, cnt_cons, cnt_nil; lia.
    - intros x Hx. tsf TSv x. destruct (HP x Hx) as [A [B [C [D F]]]]. rewrite cnt_app, cnt_cons, cnt_nil.
      pose proof (RH arefs x) as R. cbn [arefs] in R. rewrite cnt_cons, cnt_nil in R.
      repeat split; auto; try lia.
    - intros Hc. congruence. }
  5: { (* IDtor *)
    assert (S1 : InvC (log_d g o) (upd ls t (Loc p ([] ++ st) r'))).
    { pose proof (fun f x => TS ls t l (IDtor src o) st r' [] p Hl Hs f x) as TS1.
      constructor; unfold ext, dcnt, created; cbn -[cnt tot].
      - intros x; tsf TS1 x; rewrite (HR x); lia.
      - intros x; tsf TS1 x; specialize (HL x); cbn -[cnt tot] in *. rewrite cnt_cons.
        replace ((if o =? x then 1 else 0) + cnt x (dlog (gh g)) + tot idtor x (upd ls t {| prog := p; stk := st; rv := r' |}))
          with (cnt x (dlog (gh g)) + tot idtor x ls) by lia. exact HL.
      - intros x; tsf TS1 x; rewrite (HC x); lia.
      - reaped_same TS1 HP.
      - exact HD. }
    destruct (src <? 2).
    + destruct (reenter (log_d g o) (dmode g o)) as [g2 push2] eqn:RE. inversion Hx; subst; clear Hx.
      pose proof (reenter_InvC _ _ t _ _ _ _ p (rv l) S1 (nth_upd_eq _ _ _ _ Hl) RE) as S2.
      rewrite upd_upd in S2. cbn [stk app] in S2. exact S2.
    + inversion Hx; subst; clear Hx. exact S1. }
  4: { (* IClear *)
    destruct l0 as [|o l'].
    { inversion Hx; subst; clear Hx; cbn [app] in *. destruct src as [|[|[|src]]]; fin_simple TSv HR HL HC HP HD ls t. }
    pose proof (RH irefs o) as R1. cbn [irefs] in R1. rewrite cnt_cons, Nat.eqb_refl in R1.
    pose proof (HR o) as Ro.
    assert (G : g' = (if src =? SRC_DROP then dec_rc g o else log_rel (dec_rc g o) o)) by (inversion Hx; reflexivity).
    assert (RC : forall x, rc g' x = if Nat.eqb x o then rc g o - 1 else rc g x).
    { intros x. rewrite G, Nat.sub_1_r. destruct (src =? SRC_DROP); cbn; unfold fupd; reflexivity. }
    assert (SAME : vec g' = vec g /\ slots g' = slots g /\ dlog (gh g') = dlog (gh g) /\ addlog (gh g') = addlog (gh g) /\
                   reaped (gh g') = reaped (gh g) /\ nobj g' = nobj g /\ cstate g' = cstate g /\
                   rlog (gh g') = (if src =? SRC_DROP then [] else [o]) ++ rlog (gh g)).
    { rewrite G. destruct (src =? SRC_DROP); cbn; repeat split; reflexivity. }
    destruct SAME as [E1 [E2 [E3 [E4 [E5 [E6 [E7 E8]]]]]]].
    assert (PU : push = (if rc g o =? 1 then [IDtor src o] else []) ++ [IClear src l']) by (inversion Hx; reflexivity).
    clear Hx G. subst push.
    constructor; unfold ext, dcnt, created; rewrite ?E1, ?E2, ?E3, ?E4, ?E5, ?E6, ?E7, ?E8.
    - intros x. rewrite RC. pose proof (TSv irefs x) as T1.  rewrite flat_map_app in T1.
      assert (flat_map irefs (if rc g o =? 1 then [IDtor src o] else []) = []) as Z by (destruct (rc g o =? 1); reflexivity).
      rewrite Z in T1. cbn [irefs flat_map app] in T1. rewrite app_nil_r, cnt_cons in T1.
      eqcase o x; [lia|rewrite (HR x); lia].
    - intros x. rewrite RC. pose proof (TSv idtor x) as T2.  rewrite flat_map_app in T2.
      cbn [idtor flat_map app] in T2. rewrite app_nil_r, cnt_nil in T2. specialize (HL x). unfold dcnt, created in HL.
      eqcase o x.
      + destruct (Nat.eqb_spec (rc g x) 0) as [Z0|Z0]; [lia|]. destruct HL as [HL1 HL2].
        destruct (Nat.eqb (rc g x) 1) eqn:Z1; rewrite ?Z1 in T2; cbn [flat_map idtor app] in T2;
          rewrite ?cnt_cons, ?cnt_nil, ?Nat.eqb_refl in T2.
        * apply Nat.eqb_eq in Z1. rewrite Z1. cbn [Nat.sub Nat.eqb]. rewrite HL1.
          change (if true then 1 else 0) with 1. cbn [app]. lia.
        * apply Nat.eqb_neq in Z1. destruct (Nat.eqb_spec (rc g x - 1) 0); [lia|]. cbn [app]. split; [exact HL1|lia].
      + assert (cnt x (flat_map idtor (if rc g o =? 1 then [IDtor src o] else [])) = 0) as Z.
        { destruct (rc g o =? 1); cbn [flat_map idtor app]; rewrite ?cnt_cons, ?cnt_nil; [|reflexivity].
          destruct (Nat.eqb_spec o x); [congruence|reflexivity]. }
        replace (tot idtor x (upd ls t _)) with (tot idtor x ls) by lia. exact HL.
    - intros x. pose proof (TSv crefs x) as T3.  rewrite flat_map_app in T3.
      assert (flat_map crefs (if rc g o =? 1 then [IDtor src o] else []) = []) as Z by (destruct (rc g o =? 1); reflexivity).
      rewrite Z in T3. cbn [crefs flat_map app] in T3. rewrite (HC x).
      destruct (src =? SRC_DROP); cbn [app] in *; rewrite ?app_nil_r, ?cnt_cons, ?cnt_nil in *; lia.
    - intros x Hx. destruct (HP x Hx) as [A [B [C [D F]]]]. rewrite RC.
      pose proof (TSv arefs x) as T4.  rewrite flat_map_app in T4.
      assert (flat_map arefs (if rc g o =? 1 then [IDtor src o] else []) = []) as Z by (destruct (rc g o =? 1); reflexivity).
      rewrite Z in T4. cbn [arefs flat_map app] in T4.
      repeat split; auto.
      + destruct (src =? SRC_DROP); cbn [app] in *; rewrite ?app_nil_r, ?cnt_cons, ?cnt_nil in *; lia.
      + eqcase x o; lia.
    - exact HD. }
  3: { (* ICb *)
    set (g1 := log_cb (set_ncb g (S (ncb g))) o) in *.
    assert (S1 : forall push1, flat_map irefs push1 = ec -> flat_map idtor push1 = [] -> flat_map crefs push1 = ec ->
                 flat_map arefs push1 = [] -> InvC g1 (upd ls t (Loc p (push1 ++ st) (rv l)))).
    { intros push1 Z1 Z2 Z3 Z4.
      pose proof (fun f x => TS ls t l (ICb o rest ec esz) st (rv l) push1 p Hl Hs f x) as TS1.
      constructor; unfold ext, dcnt, created; cbn -[cnt tot].
      - intros x. pose proof (TS1 irefs x) as T. rewrite Z1 in T. cbn [irefs] in T. rewrite (HR x). lia.
      - intros x. pose proof (TS1 idtor x) as T. rewrite Z2 in T. cbn [idtor] in T. rewrite cnt_nil in T.
        specialize (HL x). replace (tot idtor x (upd ls t _)) with (tot idtor x ls) by lia. exact HL.
      - intros x. pose proof (TS1 crefs x) as T. rewrite Z3 in T. cbn [crefs] in T. rewrite (HC x). lia.
      - intros x Hxr. pose proof (TS1 arefs x) as T. rewrite Z4 in T. cbn [arefs] in T. rewrite cnt_nil in T.
        destruct (HP x Hxr) as [A [B [C [D F]]]]. repeat split; auto. lia.
      - exact HD. }
    destruct (memn (ncb g) (throws (cf g))).
    + inversion Hx; subst; clear Hx. apply S1; cbn; rewrite ?app_nil_r; reflexivity.
    + destruct (reenter g1 (cmode g o)) as [g2 push2] eqn:RE. inversion Hx; subst; clear Hx.
      assert (S1' : InvC g1 (upd ls t (Loc p (cbs_cont rest ec esz ++ st) (rv l)))).
      { apply S1; destruct rest; cbn; rewrite ?app_nil_r; reflexivity. }
      pose proof (reenter_InvC _ _ t _ _ _ _ p (rv l) S1' (nth_upd_eq _ _ _ _ Hl) RE) as S2.
      rewrite upd_upd in S2. cbn [stk] in S2. rewrite app_assoc in S2. exact S2. }
  2: { (* IDoTry *)
    cbn [vec rc set_mtx] in Hx.
    destruct (scan (vec g) (rc g)) as [ec r1] eqn:SC.
    destruct ec as [|e ec'].
    { inversion Hx; subst; clear Hx; cbn [app] in *. fin_simple TSv HR HL HC HP HD ls t. }
    remember (e :: ec') as ec eqn:Hec.
    destruct (sweep (vec g) ec r1) as [v2 r2] eqn:SW.
    pose proof (scan_sweep (vec g) (rc g) (fun o => ext g o + tot irefs o ls) ec r1 v2 r2
                  (fun o => eq_trans (HR o) (eq_sym (Nat.add_assoc _ _ _))) SC SW) as SS.
    assert (PU : flat_map irefs push = ec /\ flat_map idtor push = [] /\ flat_map crefs push = ec /\ flat_map arefs push = []).
    { inversion Hx; subst. destruct (hascb (cf g)); cbn; rewrite ?app_nil_r; repeat split; reflexivity. }
    destruct PU as [P1 [P2 [P3 P4]]].
    assert (G : g' = log_reaped (set_rc (set_vec (set_mtx g m) v2) r2) ec) by (inversion Hx; reflexivity).
    clear Hx. subst g'.
    constructor; unfold ext, dcnt, created in *; cbn -[cnt tot].
    - intros x. destruct (SS x) as [A [B [C D]]]. pose proof (TSv irefs x) as T. rewrite P1 in T. cbn [irefs] in T.
      rewrite cnt_nil in T. rewrite A, (HR x). lia.
    - intros x. destruct (SS x) as [A [B [C D]]]. pose proof (TSv idtor x) as T. rewrite P2 in T. cbn [idtor] in T.
      rewrite cnt_nil in T. rewrite A. specialize (HL x).
      replace (tot idtor x (upd ls t _)) with (tot idtor x ls) by lia. exact HL.
    - intros x. destruct (SS x) as [A [B [C D]]]. pose proof (TSv crefs x) as T. rewrite P3 in T. cbn [crefs] in T.
      rewrite cnt_nil in T. rewrite (HC x). lia.
    - intros x Hxr. destruct (SS x) as [A [B [C D]]]. pose proof (TSv arefs x) as T. rewrite P4 in T. cbn [arefs] in T.
      rewrite cnt_nil in T. rewrite A. apply in_app_or in Hxr. destruct Hxr as [Hin|Hin].
      + apply cnt_In in Hin. destruct D as [D1 [D2 D3]]; [lia|].
        pose proof (tot_arefs_le x ls). specialize (HL x). rewrite D1 in HL. cbn [Nat.eqb] in HL.
        repeat split; try lia. apply HL.
      + destruct (HP x Hin) as [Q1 [Q2 [Q3 [Q4 Q5]]]]. repeat split; auto; lia.
    - intros Hc. specialize (HD Hc). rewrite HD in SC. cbn in SC. inversion SC. congruence. }
  (* IInvoke *)
  destruct (invoke g o) as [g1 push1] eqn:IV. inversion Hx; subst; clear Hx.
  unfold invoke in IV.
  assert (F0 : forall push0, flat_map irefs push0 = [] -> flat_map idtor push0 = [] -> flat_map crefs push0 = [] ->
               flat_map arefs push0 = [] -> InvC g (upd ls t (Loc p (push0 ++ st) (rv l)))).
  { intros push0 Z1 Z2 Z3 Z4.
    pose proof (fun f x => TS ls t l (IInvoke o) st (rv l) push0 p Hl Hs f x) as TS1.
    constructor; unfold ext, dcnt, created; cbn -[cnt tot].
    - intros x. pose proof (TS1 irefs x) as T. rewrite Z1 in T. cbn [irefs] in T. rewrite (HR x). lia.
    - intros x. pose proof (TS1 idtor x) as T. rewrite Z2 in T. cbn [idtor] in T. rewrite cnt_nil in T.
      specialize (HL x). replace (tot idtor x (upd ls t _)) with (tot idtor x ls) by lia. exact HL.
    - intros x. pose proof (TS1 crefs x) as T. rewrite Z3 in T. cbn [crefs] in T. rewrite (HC x). lia.
    - intros x Hxr. pose proof (TS1 arefs x) as T. rewrite Z4 in T. cbn [arefs] in T. rewrite cnt_nil in T.
      destruct (HP x Hxr) as [A [B [C [D F]]]]. repeat split; auto. lia.
    - exact HD. }
  destruct o as [s dm cm|s| |d| | |s]; destruct (negb (cstate g =? 0)) eqn:DEAD;
    try (inversion IV; subst; apply F0; reflexivity).
  - (* Add *)
    destruct (new_obj g dm cm) as [g1 x] eqn:N.
    pose proof (F0 [ISetRv (zn x); IEndOp true] eq_refl eq_refl eq_refl eq_refl) as S0.
    destruct (new_obj_InvC _ _ t _ dm cm g1 x p (rv l) S0 (nth_upd_eq _ _ _ _ Hl) N) as [Ex S1].
    rewrite upd_upd in S1. cbn [stk app] in S1.
    set (L1 := Loc p (IAddLock x :: ISetRv (zn x) :: IEndOp true :: st) (rv l)) in *.
    assert (A1 : tot arefs x (upd ls t L1) >= 1).
    { pose proof (tot_ge arefs x (upd ls t L1) t L1 (nth_upd_eq _ _ _ _ Hl)) as T.
      change (stk L1) with (IAddLock x :: ISetRv (zn x) :: IEndOp true :: st) in T. cbn [flat_map arefs] in T.
      rewrite cnt_app, cnt_cons, Nat.eqb_refl in T. lia. }
    destruct (negb (s =? 0) && match slot_get s (slots g) with Some _ => false | None => true end);
      inversion IV; subst; clear IV; cbn [app].
    + apply keep_InvC; assumption.
    + exact S1.
  - (* Drop *)
    destruct (slot_get s (slots g)) as [x|] eqn:SG; inversion IV; subst; clear IV; [|apply F0; reflexivity].
    pose proof (slot_del_ext _ _ _ SG) as SD. pose proof (slot_get_ext _ _ _ SG) as SE.
    constructor; unfold ext, dcnt, created in *; cbn -[cnt tot].
    + intros o; tsf TSv o. specialize (SD o). rewrite (HR o). lia.
    + life_same TSv HL ls t.
    + intros o; tsf TSv o. rewrite (HC o). lia.
    + intros o Ho. tsf TSv o. destruct (HP o Ho) as [A [B [C [D F]]]]. specialize (SD o).
      assert (o <> x) by (intros ->; lia). eqcase x o; [congruence|]. repeat split; auto; lia.
    + exact HD.
  - (* Drop *)
    destruct (slot_get s (slots g)) as [x|] eqn:SG; inversion IV; subst; clear IV; [|apply F0; reflexivity].
    pose proof (slot_del_ext _ _ _ SG) as SD. pose proof (slot_get_ext _ _ _ SG) as SE.
    constructor; unfold ext, dcnt, created in *; cbn -[cnt tot].
    + intros o; tsf TSv o. specialize (SD o). rewrite (HR o). lia.
    + life_same TSv HL ls t.
    + intros o; tsf TSv o. rewrite (HC o). lia.
    + intros o Ho. tsf TSv o. destruct (HP o Ho) as [A [B [C [D F]]]]. specialize (SD o).
      assert (o <> x) by (intros ->; lia). eqcase x o; [congruence|]. repeat split; auto; lia.
    + exact HD.
  - (* Readd *)
    destruct (slot_get s (slots g)) as [x|] eqn:SG; inversion IV; subst; clear IV; [|apply F0; reflexivity].
    pose proof (slot_get_ext _ _ _ SG) as SE.
    constructor; unfold ext, dcnt, created in *; cbn -[cnt tot].
    + intros o; tsf TSv o. unfold fupd. rewrite (Nat.eqb_sym o x). eqcase x o; rewrite (HR o); lia.
    + intros o; tsf TSv o. specialize (HL o). unfold fupd.
      replace (tot idtor o (upd ls t _)) with (tot idtor o ls) by lia.
      eqcase o x; [|exact HL]. pose proof (HR x). destruct (Nat.eqb_spec (rc g x) 0); [lia|]. exact HL.
    + intros o; tsf TSv o. rewrite (HC o). lia.
    + intros o Ho. tsf TSv o. destruct (HP o Ho) as [A [B [C [D F]]]]. unfold fupd.
      assert (o <> x) by (intros ->; lia). eqcase o x; [congruence|]. repeat split; auto; lia.
    + exact HD.
Qed.

(* ---------- from single instructions to scheduling steps ---------- *)
Lemma upd_same {A} (ls : list A) t l : nth_error ls t = Some l -> upd ls t l = ls.
Proof. revert t; induction ls; destruct t; cbn; intros H; try discriminate; [inversion H; reflexivity|rewrite IHls; auto]. Qed.

Section Lift.
  Variable P : glob -> list loc -> Prop.
  Hypothesis P_exec : forall g ls t l i st c g' r' push es,
    P g ls -> nth_error ls t = Some l -> stk l = i :: st ->
    exec t c g (rv l) i = Some (g', r', push, es) -> P g' (upd ls t (Loc (prog l) (push ++ st) r')).
  (* starting an operation: the invoke pseudo-instruction is put on the empty stack *)
  Hypothesis P_invoke : forall g ls t l o p, P g ls -> nth_error ls t = Some l -> stk l = [] -> prog l = o :: p ->
    P g (upd ls t (Loc p [IInvoke o] (rv l))).

  Lemma P_settle fuel : forall t g r st evs ls p g2 r2 st2 es2,
    P g ls -> nth_error ls t = Some (Loc p st r) ->
    settle fuel t g r st evs = (g2, r2, st2, es2) -> P g2 (upd ls t (Loc p st2 r2)).
  Proof.
    induction fuel as [|f IH]; intros t g r st evs ls p g2 r2 st2 es2 HP Hl Hs; cbn in Hs.
    - inversion Hs; subst. rewrite (upd_same _ _ _ Hl). exact HP.
    - destruct st as [|i st']; [inversion Hs; subst; rewrite (upd_same _ _ _ Hl); exact HP|].
      destruct (visible g i); [inversion Hs; subst; rewrite (upd_same _ _ _ Hl); exact HP|].
      destruct (exec t 0 g r i) as [[[[g' r'] push] es]|] eqn:E; [|inversion Hs; subst; rewrite (upd_same _ _ _ Hl); exact HP].
      pose proof (P_exec g ls t (Loc p (i :: st') r) i st' 0 g' r' push es HP Hl eq_refl E) as H1. cbn [prog] in H1.
      pose proof (IH t g' r' (push ++ st') (evs ++ es) _ p g2 r2 st2 es2 H1 (nth_upd_eq _ _ _ _ Hl) Hs) as H2.
      rewrite upd_upd in H2. exact H2.
  Qed.

  Lemma P_step : forall g ls t c l g' l' es,
    P g ls -> nth_error ls t = Some l -> tstep t c g l = Some (g', l', es) -> P g' (upd ls t l').
  Proof.
    intros g ls t c l g' l' es HP Hl Hs. unfold tstep in Hs.
    assert (FIRE : forall p i st ls0, P g ls0 -> nth_error ls0 t = Some (Loc p (i :: st) (rv l)) ->
              forall g2 l2 es2,
              (if visible g i then
                 match exec t c g (rv l) i with
                 | None => None
                 | Some (g', r', push, es) =>
                   let '(g2, r2, st2, es2) := settle settle_fuel t g' r' (push ++ st) es in Some (g2, Loc p st2 r2, es2)
                 end
               else let '(g2, r2, st2, es2) := settle settle_fuel t g (rv l) (i :: st) [] in Some (g2, Loc p st2 r2, es2))
              = Some (g2, l2, es2) -> P g2 (upd ls0 t l2)).
    { intros p i st ls0 HP0 Hl0 g2 l2 es2 H. destruct (visible g i).
      - destruct (exec t c g (rv l) i) as [[[[g1 r1] push] es1]|] eqn:E; [|discriminate].
        pose proof (P_exec g ls0 t _ i st c g1 r1 push es1 HP0 Hl0 eq_refl E) as H1. cbn [prog] in H1.
        destruct (settle settle_fuel t g1 r1 (push ++ st) es1) as [[[g3 r3] st3] es3] eqn:S. inversion H; subst.
        pose proof (P_settle _ _ _ _ _ _ _ _ _ _ _ _ H1 (nth_upd_eq _ _ _ _ Hl0) S) as H2. rewrite upd_upd in H2. exact H2.
      - destruct (settle settle_fuel t g (rv l) (i :: st) []) as [[[g3 r3] st3] es3] eqn:S. inversion H; subst.
        apply (P_settle _ _ _ _ _ _ _ _ _ _ _ _ HP0 Hl0 S). }
    destruct l as [pr sk r]. cbn [stk prog rv] in *. destruct sk as [|i st].
    - destruct pr as [|o pr]; [discriminate|].
      pose proof (P_invoke g ls t _ o pr HP Hl eq_refl eq_refl) as H0. cbn [rv] in H0.
      pose proof (FIRE pr (IInvoke o) [] _ H0 (nth_upd_eq _ _ _ _ Hl) g' l' es Hs) as H1.
      rewrite upd_upd in H1. exact H1.
    - apply (FIRE pr i st ls HP Hl g' l' es Hs).
  Qed.
End Lift.

Lemma InvC_invoke g ls t l o p : InvC g ls -> nth_error ls t = Some l -> stk l = [] ->
  InvC g (upd ls t (Loc p [IInvoke o] (rv l))).
Proof.
  intros HI Hl Hs.
  assert (TP : forall f x, tot f x (upd ls t (Loc p [IInvoke o] (rv l))) = tot f x ls + cnt x (f (IInvoke o))).
  { intros f x. pose proof (tot_push f x ls t l [IInvoke o] p (rv l) Hl) as E. rewrite Hs in E. cbn [app flat_map] in E.
    rewrite app_nil_r in E. exact E. }
  destruct HI as [HR HL HC HP HD]. constructor.
  - intros x. rewrite TP. cbn [irefs]. rewrite cnt_nil, Nat.add_0_r. apply HR.
  - intros x. rewrite TP. cbn [idtor]. rewrite cnt_nil, Nat.add_0_r. apply HL.
  - intros x. rewrite TP. cbn [crefs]. rewrite cnt_nil, Nat.add_0_r. apply HC.
  - intros x Hx. rewrite TP. cbn [arefs]. rewrite cnt_nil, Nat.add_0_r. apply HP, Hx.
  - exact HD.
Qed.

Lemma InvC_step g ls t c l g' l' es :
  InvC g ls -> nth_error ls t = Some l -> tstep t c g l = Some (g', l', es) -> InvC g' (upd ls t l').
Proof. apply (P_step InvC); [intros; eapply exec_InvC; eauto|intros; apply InvC_invoke; auto]. Qed.

(* ---------- lock discipline ---------- *)
Record InvL (g : glob) (ls : list loc) : Prop := {
  L_wf : forall u, wf (stk_of ls u) = true;
  L_lock : if locked (cf g) then forall u, mtx g = Some u <-> holds (stk_of ls u) = true else mtx g = None
}.

Lemma try_acq_spec t c g b g' es : try_acq t c g = Some (b, g', es) ->
  (locked (cf g) = false /\ b = true /\ g' = g) \/
  (locked (cf g) = true /\ mtx g = None /\ b = true /\ g' = set_mtx g (Some t)) \/
  (locked (cf g) = true /\ b = false /\ g' = g /\ exists a, mtx g = Some a).
Proof.
  unfold try_acq. destruct (locked (cf g)); [destruct (mtx g) eqn:M; [destruct (Nat.eqb c 2)|]|]; intros H; inversion H; subst; eauto 10.
Qed.
Lemma lock_acq_spec t g g' es : lock_acq t g = Some (g', es) ->
  (locked (cf g) = false /\ g' = g) \/ (locked (cf g) = true /\ mtx g = None /\ g' = set_mtx g (Some t)).
Proof. unfold lock_acq. destruct (locked (cf g)); [destruct (mtx g) eqn:M|]; intros H; inversion H; subst; auto. Qed.
Lemma unlock_spec g g' es : unlock g = (g', es) ->
  (locked (cf g) = false /\ g' = g) \/ (locked (cf g) = true /\ g' = set_mtx g None).
Proof. unfold unlock. destruct (locked (cf g)); intros H; inversion H; subst; auto. Qed.

(* the shape of the stack after an instruction, in terms of what happened to the mutex *)
Definition acquired (g g' : glob) (t : nat) := locked (cf g) = true /\ mtx g = None /\ mtx g' = Some t.
Definition released (g g' : glob) := locked (cf g) = true /\ mtx g' = None.

Lemma InvL_update g ls t l p st' r' g' :
  InvL g ls -> nth_error ls t = Some l -> cf g' = cf g -> wf st' = true ->
  ((mtx g' = mtx g /\ holds st' = holds (stk l)) \/
   (acquired g g' t /\ holds st' = true) \/
   (released g g' /\ holds (stk l) = true /\ holds st' = false) \/
   (locked (cf g) = false /\ mtx g' = mtx g)) ->
  InvL g' (upd ls t (Loc p st' r')).
Proof.
  intros [HW HK] Hl Hcf Hwf Hc. constructor.
  - intros u. rewrite (stk_of_upd _ _ _ _ _ Hl). destruct (Nat.eqb_spec u t); [exact Hwf|apply HW].
  - rewrite Hcf. destruct (locked (cf g)) eqn:LK.
    + intros u. rewrite (stk_of_upd _ _ _ _ _ Hl). cbn [stk]. pose proof (HK u) as Ku. pose proof (HK t) as Kt.
      rewrite (stk_of_at _ _ _ Hl) in Kt.
      destruct Hc as [[M H]|[[[_ [M0 M1]] H]|[[[_ M1] [H0 H]]|[X _]]]]; [| | |congruence].
      * rewrite M. destruct (Nat.eqb_spec u t) as [->|Hne]; [rewrite H; exact Kt|exact Ku].
      * rewrite M1. rewrite M0 in Ku. destruct (Nat.eqb_spec u t) as [->|Hne].
        { rewrite H. split; auto. }
        { split; [intros E; inversion E; congruence|]. intros E. apply (proj2 Ku) in E. discriminate. }
      * rewrite M1. apply (proj2 Kt) in H0. rewrite H0 in Ku. destruct (Nat.eqb_spec u t) as [->|Hne].
        { rewrite H. split; discriminate. }
        { split; [discriminate|]. intros E. apply (proj2 Ku) in E. inversion E. congruence. }
    + destruct Hc as [[M _]|[[[X _] _]|[[[X _] _]|[_ M]]]]; [rewrite M; exact HK|congruence|congruence|rewrite M; exact HK].
Qed.

Lemma reenter_quiet g m g' push : reenter g m = (g', push) -> quiet push = true /\ cf g' = cf g /\ mtx g' = mtx g.
Proof.
  unfold reenter, new_obj. destruct (cstate g =? 2); [intros H; inversion H; auto|].
  destruct m as [|[|[|[|[|m]]]]]; intros H; inversion H; subst; auto.
Qed.
Lemma cbs_cont_quiet rest ec esz : quiet (cbs_cont rest ec esz) = true.
Proof. destruct rest; reflexivity. Qed.
Lemma invoke_quiet g o g' push : invoke g o = (g', push) -> quiet push = true /\ cf g' = cf g /\ mtx g' = mtx g.
Proof.
  unfold invoke. destruct o; destruct (negb (cstate g =? 0)); try (intros H; inversion H; subst; auto; fail).
  - destruct (negb (slot =? 0) && match slot_get slot (slots g) with Some _ => false | None => true end);
      intros H; inversion H; subst; auto.
  - destruct (slot_get slot (slots g)); intros H; inversion H; subst; auto.
  - destruct (slot_get slot (slots g)); intros H; inversion H; subst; auto.
  - destruct (slot_get slot (slots g)); intros H; inversion H; subst; auto.
Qed.

Lemma quiet_cons i st : quiet (i :: st) = negb (hold_i i) && quiet st.
Proof. reflexivity. Qed.
Lemma quiet_nil : quiet [] = true.
Proof. reflexivity. Qed.
Ltac normW W := cbn [wf app] in W; rewrite ?quiet_cons in W; cbn [hold_i negb andb] in W.
Ltac shape_wf W := cbn [wf app]; rewrite ?quiet_cons; cbn [hold_i negb andb]; first [exact W | apply quiet_wf; exact W].
Ltac shape_disj W :=
  first [ left; split; [reflexivity|cbn [holds app]; rewrite ?(quiet_not_holds _ W); reflexivity]
        | right; left; split; [repeat split; assumption|reflexivity]
        | right; right; left; split; [split; [assumption|reflexivity]|split; [reflexivity|cbn [app]; apply quiet_not_holds; exact W]]
        | right; right; right; split; [assumption|reflexivity] ].

Lemma exec_shape g t c r i st g' r' push es :
  wf (i :: st) = true -> exec t c g r i = Some (g', r', push, es) ->
  cf g' = cf g /\ wf (push ++ st) = true /\
  ((mtx g' = mtx g /\ holds (push ++ st) = holds (i :: st)) \/
   (acquired g g' t /\ holds (push ++ st) = true) \/
   (released g g' /\ holds (i :: st) = true /\ holds (push ++ st) = false) \/
   (locked (cf g) = false /\ mtx g' = mtx g)).
Proof.
  intros W Hx. destruct i; cbn [exec] in Hx.
  all: repeat match type of Hx with
       | context [try_acq ?t ?c ?g] =>
         let TA := fresh "TA" in destruct (try_acq t c g) as [[[?b ?g1] ?es1]|] eqn:TA; [|discriminate Hx];
         destruct (try_acq_spec _ _ _ _ _ _ TA) as [[? [? ?]]|[[? [? [? ?]]]|[? [? [? [? ?]]]]]]; subst
       | context [lock_acq ?t ?g] =>
         let LA := fresh "LA" in destruct (lock_acq t g) as [[?g1 ?es1]|] eqn:LA; [|discriminate Hx];
         destruct (lock_acq_spec _ _ _ _ LA) as [[? ?]|[? [? ?]]]; subst
       | context [unlock ?g] =>
         let UA := fresh "UA" in destruct (unlock g) as [?g1 ?es1] eqn:UA;
         destruct (unlock_spec _ _ _ UA) as [[? ?]|[? ?]]; subst
       end.
  all: try (solve [
    repeat match type of Hx with
           | context [if ?x then _ else _] => destruct x eqn:?
           | context [match ?x with _ => _ end] => destruct x eqn:?
           end; try discriminate;
    inversion Hx; subst; clear Hx;
    normW W;
    (split; [reflexivity|split; [shape_wf W|shape_disj W]]) ]).
  - (* IInvoke *)
    destruct (invoke g o) as [g1 push1] eqn:IV. inversion Hx; subst; clear Hx.
    destruct (invoke_quiet _ _ _ _ IV) as [Q [C M]]. normW W.
    split; [exact C|]. split; [apply quiet_wf; rewrite quiet_app, Q, W; reflexivity|].
    left. split; [exact M|]. cbn [holds]. apply quiet_not_holds. rewrite quiet_app, Q, W. reflexivity.
  - (* ISetRvSize *)
    inversion Hx; subst; clear Hx. cbn [app]. split; [reflexivity|].
    destruct st as [|j st]; [discriminate W|]. destruct j; try discriminate W.
    cbn [wf] in *. split; [exact W|]. left. split; reflexivity.
  - (* IAddLock *)
    destruct (cstate g =? 2).
    + inversion Hx; subst; clear Hx. normW W.
      split; [reflexivity|split; [shape_wf W|shape_disj W]].
    + destruct (lock_acq t g) as [[g1 es1]|] eqn:LA; [|discriminate Hx].
      destruct (lock_acq_spec _ _ _ _ LA) as [[? ?]|[? [? ?]]]; subst; inversion Hx; subst; clear Hx;
        normW W;
        (split; [reflexivity|split; [shape_wf W|shape_disj W]]).
  - (* ICb *)
    normW W.
    destruct (memn (ncb g) (throws (cf g))).
    + inversion Hx; subst; clear Hx. split; [reflexivity|split; [shape_wf W|shape_disj W]].
    + destruct (reenter (log_cb (set_ncb g (S (ncb g))) o) (cmode g o)) as [g2 push2] eqn:RE.
      inversion Hx; subst; clear Hx. destruct (reenter_quiet _ _ _ _ RE) as [Q [C M]].
      assert (QQ : quiet ((push2 ++ cbs_cont rest ec esz) ++ st) = true)
        by (rewrite !quiet_app, Q, cbs_cont_quiet, W; reflexivity).
      split; [exact C|]. split; [apply quiet_wf; exact QQ|]. left. split; [exact M|].
      rewrite (quiet_not_holds _ QQ). reflexivity.
  - (* IDtor *)
    normW W.
    destruct (src <? 2).
    + destruct (reenter (log_d g o) (dmode g o)) as [g2 push2] eqn:RE.
      inversion Hx; subst; clear Hx. destruct (reenter_quiet _ _ _ _ RE) as [Q [C M]].
      assert (QQ : quiet (push ++ st) = true) by (rewrite !quiet_app, Q, W; reflexivity).
      split; [exact C|]. split; [apply quiet_wf; exact QQ|]. left. split; [exact M|].
      rewrite (quiet_not_holds _ QQ). reflexivity.
    + inversion Hx; subst; clear Hx. split; [reflexivity|split; [shape_wf W|shape_disj W]].
Qed.

Lemma exec_InvL g ls t l i st c g' r' push es p :
  InvL g ls -> nth_error ls t = Some l -> stk l = i :: st ->
  exec t c g (rv l) i = Some (g', r', push, es) -> InvL g' (upd ls t (Loc p (push ++ st) r')).
Proof.
  intros HI Hl Hs Hx. pose proof (L_wf _ _ HI t) as W. rewrite (stk_of_at _ _ _ Hl), Hs in W.
  destruct (exec_shape _ _ _ _ _ _ _ _ _ _ W Hx) as [C [W' D]].
  apply (InvL_update g ls t l p _ r' g' HI Hl C W'). rewrite Hs. exact D.
Qed.
Lemma InvL_invoke g ls t l o p : InvL g ls -> nth_error ls t = Some l -> stk l = [] ->
  InvL g (upd ls t (Loc p [IInvoke o] (rv l))).
Proof.
  intros HI Hl Hs. apply (InvL_update g ls t l p [IInvoke o] (rv l) g HI Hl eq_refl); [reflexivity|].
  left. rewrite Hs. split; reflexivity.
Qed.
Lemma InvL_step g ls t c l g' l' es :
  InvL g ls -> nth_error ls t = Some l -> tstep t c g l = Some (g', l', es) -> InvL g' (upd ls t l').
Proof. apply (P_step InvL); [intros; eapply exec_InvL; eauto|intros; apply InvL_invoke; auto]. Qed.

(* ---------- callbacks ---------- *)
Definition cb_ok (g : glob) (i : instr) : Prop :=
  match i with
  | ICb x rest ec _ => hascb (cf g) = true /\ NoDup (x :: rest) /\ incl (x :: rest) ec /\
        (forall o, In o (x :: rest) -> cbc g o = 0) /\ (forall o, In o ec -> ~ In o (x :: rest) -> cbc g o = 1) /\
        (forall o, In o ec -> In o (reaped (gh g)))
  | IClear src l => src = SRC_CLEAR -> hascb (cf g) = true -> forall o, In o l -> cbc g o = 1
  | IDtor src o => src = SRC_CLEAR -> hascb (cf g) = true -> cbc g o = 1
  | _ => True
  end.
Record InvB (g : glob) (ls : list loc) : Prop := {
  B_ok : forall u i, In i (stk_of ls u) -> cb_ok g i;
  B_one : forall o, cbc g o <= 1;
  B_nocb : hascb (cf g) = false -> cblog (gh g) = [];
  B_reap : forall o, cbc g o >= 1 -> In o (reaped (gh g))
}.

Lemma cb_ok_mono g g' i : cf g' = cf g -> cblog (gh g') = cblog (gh g) -> incl (reaped (gh g)) (reaped (gh g')) ->
  cb_ok g i -> cb_ok g' i.
Proof.
  intros C B R. destruct i; cbn [cb_ok]; unfold cbc; rewrite ?C, ?B; auto.
  intros [H1 [H2 [H3 [H4 [H5 H6]]]]]. repeat split; auto.
Qed.

Definition is_cb (i : instr) : bool := match i with ICb _ _ _ _ => true | _ => false end.

Lemma reenter_ghost g m g' push : reenter g m = (g', push) ->
  cf g' = cf g /\ gh g' = gh g /\ (forall i, In i push -> forall g0, cb_ok g0 i).
Proof.
  unfold reenter, new_obj. destruct (cstate g =? 2); [intros H; inversion H; subst; repeat split; auto; intros i []|].
  destruct m as [|[|[|[|[|m]]]]]; intros H; inversion H; subst; repeat split; auto; intros i Hi g0;
    repeat (destruct Hi as [<-|Hi]; [exact I|]); destruct Hi.
Qed.
Lemma invoke_ghost g o g' push : invoke g o = (g', push) ->
  cf g' = cf g /\ gh g' = gh g /\ (forall i, In i push -> forall g0, cb_ok g0 i).
Proof.
  unfold invoke, new_obj.
  assert (T : forall i l, In i l -> (forall j, In j l -> forall g0, cb_ok g0 j) -> forall g0, cb_ok g0 i) by auto.
  destruct o; destruct (negb (cstate g =? 0));
    repeat match goal with
           | |- context [if ?x then _ else _] => destruct x
           | |- context [match ?x with _ => _ end] => destruct x
           end;
    intros H; inversion H; subst; repeat split; auto; intros i Hi gx;
    repeat (destruct Hi as [<-|Hi]; [cbn; try exact I; try (intros; discriminate)|]); try destruct Hi.
Qed.

Lemma InvB_frame g ls t l i st p push r' g' :
  InvB g ls -> nth_error ls t = Some l -> stk l = i :: st ->
  cf g' = cf g -> cblog (gh g') = cblog (gh g) -> incl (reaped (gh g)) (reaped (gh g')) ->
  (forall j, In j push -> cb_ok g' j) ->
  InvB g' (upd ls t (Loc p (push ++ st) r')).
Proof.
  intros [HO H1 HN HR] Hl Hs C B R PO. constructor.
  - intros u j. rewrite (stk_of_upd _ _ _ _ _ Hl). cbn [stk]. destruct (Nat.eqb_spec u t) as [->|Hne].
    + intros Hj. apply in_app_or in Hj. destruct Hj as [Hj|Hj]; [apply PO, Hj|].
      apply (cb_ok_mono g g' j C B R). apply (HO t). rewrite (stk_of_at _ _ _ Hl), Hs. right. exact Hj.
    + intros Hj. apply (cb_ok_mono g g' j C B R). apply (HO u), Hj.
  - intros o. unfold cbc. rewrite B. apply H1.
  - rewrite C, B. exact HN.
  - intros o. unfold cbc. rewrite B. intros H. apply R, HR, H.
Qed.

Lemma cnt_flat_in f o (j : instr) s : In j s -> cnt o (f j) <= cnt o (flat_map f s).
Proof.
  induction s as [|h s IH]; [intros []|]. intros [->|H]; cbn [flat_map]; rewrite cnt_app; [lia|]. specialize (IH H). lia.
Qed.

Lemma cb_ok_bump g g' o j : cf g' = cf g -> cblog (gh g') = o :: cblog (gh g) -> reaped (gh g') = reaped (gh g) ->
  cnt o (irefs j) = 0 -> (forall s y, j = IDtor s y -> y <> o) -> cb_ok g j -> cb_ok g' j.
Proof.
  intros C B R N D.
  assert (CB : forall y, y <> o -> cbc g' y = cbc g y).
  { intros y Hy. unfold cbc. rewrite B, cnt_cons. destruct (Nat.eqb_spec o y); [congruence|reflexivity]. }
  destruct j; cbn [cb_ok irefs] in *; auto; rewrite ?C, ?R.
  - intros [H1 [H2 [H3 [H4 [H5 H6]]]]]. apply cnt_notin in N.
    assert (forall y, In y ec -> y <> o) as NE by (intros y Hy ->; contradiction).
    repeat split; auto.
    + intros y Hy. rewrite CB; auto.
    + intros y Hy Hn. rewrite CB; auto.
  - intros H E1 E2 y Hy. apply cnt_notin in N. rewrite CB; [apply H; auto|intros ->; contradiction].
  - intros H E1 E2. rewrite CB; [apply H; auto|]. apply (D src o0 eq_refl).
Qed.

Lemma InvB_frame_cb g ls t l o rest ec esz st p push r' g' :
  InvC g ls -> InvB g ls -> nth_error ls t = Some l -> stk l = ICb o rest ec esz :: st ->
  cf g' = cf g -> cblog (gh g') = o :: cblog (gh g) -> reaped (gh g') = reaped (gh g) ->
  (forall j, In j push -> cb_ok g' j) ->
  InvB g' (upd ls t (Loc p (push ++ st) r')).
Proof.
  intros HC [HO H1 HN HR] Hl Hs C B R PO.
  assert (OKI : cb_ok g (ICb o rest ec esz)). { apply (HO t). rewrite (stk_of_at _ _ _ Hl), Hs. left. reflexivity. }
  destruct OKI as [K1 [K2 [K3 [K4 [K5 K6]]]]].
  assert (In o ec) as Oec by (apply K3; left; reflexivity).
  destruct (C_reaped _ _ HC o (K6 o Oec)) as [_ [_ [_ [RC1 _]]]].
  pose proof (C_rc _ _ HC o) as RCo. apply cnt_In in Oec.
  pose proof (tot_ge irefs o ls t l Hl) as Tt. rewrite Hs in Tt. cbn [flat_map irefs] in Tt. rewrite cnt_app in Tt.
  assert (OLD : forall u j, In j (stk_of ls u) -> (u <> t \/ In j st) -> cb_ok g' j).
  { intros u j Hj Hw. apply (cb_ok_bump g g' o j C B R); [| |apply (HO u), Hj].
    - destruct Hw as [Hne|Hin].
      + unfold stk_of in Hj. destruct (nth_error ls u) as [lu|] eqn:Hu; [|destruct Hj].
        pose proof (tot_ge2 irefs o ls t u l lu (not_eq_sym Hne) Hl Hu) as T2. rewrite Hs in T2.
        cbn [flat_map irefs] in T2. rewrite cnt_app in T2.
        pose proof (cnt_flat_in irefs o j _ Hj). lia.
      + pose proof (cnt_flat_in irefs o j _ Hin). lia.
    - intros s y -> ->. unfold stk_of in Hj. destruct (nth_error ls u) as [lu|] eqn:Hu; [|destruct Hj].
      pose proof (tot_ge idtor o ls u lu Hu) as T3. pose proof (cnt_flat_in idtor o _ _ Hj) as T4.
      cbn [idtor] in T4. rewrite cnt_cons, Nat.eqb_refl in T4.
      pose proof (C_life _ _ HC o) as L. destruct (Nat.eqb_spec (rc g o) 0); [lia|]. destruct L. lia. }
  constructor.
  - intros u j. rewrite (stk_of_upd _ _ _ _ _ Hl). cbn [stk]. destruct (Nat.eqb_spec u t) as [->|Hne].
    + intros Hj. apply in_app_or in Hj. destruct Hj as [Hj|Hj]; [apply PO, Hj|].
      apply (OLD t j); [rewrite (stk_of_at _ _ _ Hl), Hs; right; exact Hj|right; exact Hj].
    + intros Hj. apply (OLD u j Hj). left. exact Hne.
  - intros y. unfold cbc. rewrite B, cnt_cons. destruct (Nat.eqb_spec o y) as [<-|Hne]; [|apply H1].
    pose proof (K4 o (or_introl eq_refl)) as Z. unfold cbc in Z. lia.
  - rewrite C. intros E. congruence.
  - intros y. unfold cbc. rewrite B, R, cnt_cons. destruct (Nat.eqb_spec o y) as [<-|Hne]; [intros _; apply K6; apply cnt_In; exact Oec|apply HR].
Qed.

Lemma exec_InvB g ls t l i st c g' r' push es p :
  InvC g ls -> InvB g ls -> nth_error ls t = Some l -> stk l = i :: st ->
  exec t c g (rv l) i = Some (g', r', push, es) -> InvB g' (upd ls t (Loc p (push ++ st) r')).
Proof.
  intros HC HB Hl Hs Hx.
  assert (OKI : cb_ok g i). { apply (B_ok _ _ HB t). rewrite (stk_of_at _ _ _ Hl), Hs. left. reflexivity. }
  assert (TRIV : forall push0 : list instr, (forall j, In j push0 -> forall g0, cb_ok g0 j) -> forall j, In j push0 -> cb_ok g' j) by auto.
  destruct i; norm_exec Hx.
  all: try (solve [
    repeat match type of Hx with
           | context [if ?x then _ else _] => destruct x eqn:?
           | context [match ?x with _ => _ end] => destruct x eqn:?
           end; try discriminate;
    inversion Hx; subst; clear Hx;
    apply (InvB_frame _ ls t l _ st p _ _ _ HB Hl Hs); try reflexivity; try apply incl_refl;
    intros j Hj; cbn [app] in Hj;
    repeat (destruct Hj as [<-|Hj]; [cbn; try exact I; try (intros; discriminate)|]); try destruct Hj ]).
  - (* IInvoke *)
    destruct (invoke g o) as [g1 push1] eqn:IV. inversion Hx; subst; clear Hx.
    destruct (invoke_ghost _ _ _ _ IV) as [C [G PO]].
    apply (InvB_frame _ ls t l _ st p _ _ _ HB Hl Hs); rewrite ?G; auto using incl_refl.
  - (* IAddLock *)
    destruct (cstate g =? 2).
    + inversion Hx; subst; clear Hx.
      apply (InvB_frame _ ls t l _ st p _ _ _ HB Hl Hs); try reflexivity; try apply incl_refl.
      intros j [<-|[]]. cbn. unfold SRC_DROP, SRC_CLEAR. intros; discriminate.
    + norm_exec Hx. inversion Hx; subst; clear Hx.
      apply (InvB_frame _ ls t l _ st p _ _ _ HB Hl Hs); try reflexivity; try apply incl_refl.
      intros j [<-|[]]. exact I.
  - (* IDoTry *)
    cbn [vec rc set_mtx] in Hx.
    destruct (scan (vec g) (rc g)) as [ec r1] eqn:SC.
    destruct ec as [|e ec'].
    { inversion Hx; subst; clear Hx.
      apply (InvB_frame _ ls t l _ st p _ _ _ HB Hl Hs); try reflexivity; try apply incl_refl.
      intros j [<-|[]]. exact I. }
    remember (e :: ec') as ec eqn:Hec.
    destruct (sweep (vec g) ec r1) as [v2 r2] eqn:SW.
    pose proof (scan_sweep (vec g) (rc g) (fun o => ext g o + tot irefs o ls) ec r1 v2 r2
                  (fun o => eq_trans (C_rc _ _ HC o) (eq_sym (Nat.add_assoc _ _ _))) SC SW) as SS.
    inversion Hx; subst g' r' push es; clear Hx.
    apply (InvB_frame _ ls t l _ st p _ _ _ HB Hl Hs); try reflexivity.
    { cbn. apply incl_appr, incl_refl. }
    intros j [<-|Hj]; [exact I|].
    destruct (hascb (cf g)) eqn:CB.
    + rewrite Hec in Hj. cbn [cbs_cont] in Hj. destruct Hj as [<-|[]]. rewrite <- Hec. cbn [cb_ok].
      refine (conj CB (conj _ (conj _ (conj _ (conj _ _))))).
      * rewrite <- Hec. apply NoDup_cnt. intros y. apply (SS y).
      * rewrite <- Hec. apply incl_refl.
      * rewrite <- Hec. intros y Hy. apply cnt_In in Hy. destruct (SS y) as [A [B [C D]]].
        unfold cbc. cbn. fold (cbc g y). pose proof (B_one _ _ HB y) as O1.
        destruct (cbc g y) as [|k] eqn:K; [reflexivity|exfalso].
        assert (In y (reaped (gh g))) as R by (apply (B_reap _ _ HB); lia).
        destruct (C_reaped _ _ HC y R) as [V _]. lia.
      * rewrite <- Hec. intros y Hy N. contradiction.
      * intros y Hy. cbn. apply in_or_app. left. exact Hy.
    + destruct Hj as [<-|[<-|[]]]; cbn [cb_ok]; [|exact I]. cbn. rewrite CB. intros; discriminate.
  - (* ICb *)
    destruct OKI as [K1 [K2 [K3 [K4 [K5 K6]]]]].
    set (g1 := log_cb (set_ncb g (S (ncb g))) o) in *.
    assert (CB1 : forall y, cbc g1 y = (if o =? y then 1 else 0) + cbc g y).
    { intros y. unfold cbc, g1. cbn. apply cnt_cons. }
    assert (CONT : forall g2, cf g2 = cf g -> gh g2 = gh g1 -> forall j, In j (cbs_cont rest ec esz) -> cb_ok g2 j).
    { intros g2 C2 G2 j Hj.
      assert (CB2 : forall y, cbc g2 y = (if o =? y then 1 else 0) + cbc g y) by (intros y; unfold cbc; rewrite G2; apply CB1).
      inversion K2 as [|? ? K2a K2b]; subst.
      destruct rest as [|x' rest'].
      - destruct Hj as [<-|[<-|[]]]; [|exact I]. cbn [cb_ok]. intros _ _ y Hy. rewrite CB2.
        destruct (Nat.eqb_spec o y) as [<-|Hne]; [rewrite (K4 o (or_introl eq_refl)); reflexivity|].
        rewrite K5; auto. intros [E|[]]. congruence.
      - destruct Hj as [<-|[]]. cbn [cb_ok]. rewrite C2, G2.
        refine (conj K1 (conj K2b (conj _ (conj _ (conj _ K6))))).
        + intros y Hy. apply K3. right. exact Hy.
        + intros y Hy. rewrite CB2. destruct (Nat.eqb_spec o y) as [<-|Hne]; [contradiction|]. apply K4. right. exact Hy.
        + intros y Hy Hn. rewrite CB2. destruct (Nat.eqb_spec o y) as [<-|Hne]; [rewrite (K4 o (or_introl eq_refl)); reflexivity|].
          rewrite K5; auto. intros [E|E]; [congruence|contradiction]. }
    destruct (memn (ncb g) (throws (cf g))).
    + inversion Hx; subst g' r' push es; clear Hx.
      apply (InvB_frame_cb g ls t l o rest ec esz st p _ _ g1 HC HB Hl Hs); try reflexivity.
      intros j [<-|[<-|[]]]; [|exact I]. cbn. unfold SRC_UNWIND, SRC_CLEAR. intros; discriminate.
    + destruct (reenter g1 (cmode g o)) as [g2 push2] eqn:RE. destruct (reenter_ghost _ _ _ _ RE) as [A [B C']].
      inversion Hx; subst g' r' push es; clear Hx.
      apply (InvB_frame_cb g ls t l o rest ec esz st p _ _ g2 HC HB Hl Hs); rewrite ?B; try reflexivity; [exact A|].
      intros j Hj. apply in_app_or in Hj. destruct Hj as [Hj|Hj]; [apply C', Hj|]. apply (CONT g2 A B j Hj).
  - (* IClear *)
    destruct l0 as [|o l'].
    { inversion Hx; subst; clear Hx.
      apply (InvB_frame _ ls t l _ st p _ _ _ HB Hl Hs); try reflexivity; try apply incl_refl. intros j []. }
    inversion Hx; subst; clear Hx.
    apply (InvB_frame _ ls t l _ st p _ _ _ HB Hl Hs); try (destruct (src =? SRC_DROP); reflexivity).
    { destruct (src =? SRC_DROP); apply incl_refl. }
    assert (CB : cbc (if src =? SRC_DROP then dec_rc g o else log_rel (dec_rc g o) o) = cbc g)
      by (destruct (src =? SRC_DROP); reflexivity).
    assert (CF : cf (if src =? SRC_DROP then dec_rc g o else log_rel (dec_rc g o) o) = cf g)
      by (destruct (src =? SRC_DROP); reflexivity).
    cbn [cb_ok] in OKI.
    intros j Hj. apply in_app_or in Hj. destruct Hj as [Hj|[<-|[]]].
    + destruct (rc g o =? 1); [|destruct Hj]. destruct Hj as [<-|[]]. cbn [cb_ok]. rewrite CB, CF.
      intros E1 E2. apply (OKI E1 E2). left. reflexivity.
    + cbn [cb_ok]. rewrite CB, CF. intros E1 E2 y Hy. apply (OKI E1 E2). right. exact Hy.
  - (* IDtor *)
    assert (forall g2 push2, (if src <? 2 then reenter (log_d g o) (dmode g o) else (log_d g o, [])) = (g2, push2) ->
            cf g2 = cf g /\ gh g2 = gh (log_d g o) /\ (forall i, In i push2 -> forall g0, cb_ok g0 i)) as RG.
    { intros g2 push2. destruct (src <? 2).
      - intros RE. destruct (reenter_ghost _ _ _ _ RE) as [A [B C']]. repeat split; auto.
      - intros H; inversion H; subst. repeat split; auto. intros i []. }
    destruct (if src <? 2 then reenter (log_d g o) (dmode g o) else (log_d g o, [])) as [g2 push2] eqn:RE.
    destruct (RG _ _ eq_refl) as [A [B C']]. inversion Hx; subst; clear Hx.
    apply (InvB_frame _ ls t l _ st p _ _ _ HB Hl Hs); rewrite ?B; try reflexivity; auto using incl_refl.
Qed.

Lemma InvB_invoke g ls t l o p : InvB g ls -> nth_error ls t = Some l -> stk l = [] ->
  InvB g (upd ls t (Loc p [IInvoke o] (rv l))).
Proof.
  intros [HO H1 HN HR] Hl Hs. constructor; auto.
  intros u j. rewrite (stk_of_upd _ _ _ _ _ Hl). cbn [stk]. destruct (Nat.eqb_spec u t) as [->|Hne]; [|apply HO].
  intros [<-|[]]. exact I.
Qed.

(* ---------- the invariant ---------- *)
Definition Inv (g : glob) (ls : list loc) : Prop := InvC g ls /\ InvL g ls /\ InvB g ls.

Lemma Inv_step : forall g ls t c l g' l' es,
  Inv g ls -> nth_error ls t = Some l -> tstep t c g l = Some (g', l', es) -> Inv g' (upd ls t l').
Proof.
  apply (P_step Inv).
  - intros g ls t l i st c g' r' push es [HC [HL HB]] Hl Hs Hx. split; [|split].
    + eapply exec_InvC; eauto.
    + eapply exec_InvL; eauto.
    + eapply exec_InvB; eauto.
  - intros g ls t l o p [HC [HL HB]] Hl Hs _. split; [|split].
    + apply InvC_invoke; auto.
    + apply InvL_invoke; auto.
    + apply InvB_invoke; auto.
Qed.

Lemma tot_init f o progs : tot f o (map (fun p => Loc p [] 0%Z) progs) = 0.
Proof. unfold tot. induction progs as [|p r IH]; cbn [map]; [reflexivity|]. rewrite list_sum_cons, IH. reflexivity. Qed.
Lemma stk_of_init progs u : stk_of (map (fun p => Loc p [] 0%Z) progs) u = [].
Proof. unfold stk_of. rewrite nth_error_map. destruct (nth_error progs u); reflexivity. Qed.

Lemma Inv_init c progs : Inv (gl (init c progs)) (thr (init c progs)).
Proof.
  unfold init; cbn [gl thr]. split; [|split]; constructor; cbn -[cnt tot]; unfold ext, dcnt, cbc, created; cbn -[cnt tot];
    rewrite ?tot_init, ?cnt_nil; auto; try (intros o []; fail); try (intros; rewrite ?tot_init, ?cnt_nil; lia).
  - intros o. rewrite tot_init, cnt_nil. destruct o as [|o]; reflexivity.
  - intros u. rewrite stk_of_init. reflexivity.
  - destruct (locked c); [|reflexivity]. intros u. rewrite stk_of_init. split; discriminate.
  - intros u i. rewrite stk_of_init. intros [].
  - intros o. rewrite cnt_nil. lia.
Qed.

(* ---------- reachable states ---------- *)
Definition R (c : config) (progs : list (list op)) (s : sysD) : Prop := reachable glob loc tstep (init c progs) s.
Lemma R_inv c progs s : R c progs s -> Inv (gl s) (thr s).
Proof. intros H. eapply reachable_inv; [apply Inv_step|apply Inv_init|exact H]. Qed.

(* ---------- C16: the headline facts ---------- *)
Definition head_is (s : sysD) (t : nat) (i : instr) : Prop :=
  exists l st, nth_error (thr s) t = Some l /\ stk l = i :: st.

Lemma head_tot f s t i o : head_is s t i -> cnt o (f i) <= tot f o (thr s).
Proof. intros [l [st [Hl Hs]]]. apply (ref_here (thr s) t l i st Hl Hs). Qed.

Lemma destroyed_once c progs s o : R c progs s -> dcnt (gl s) o <= 1.
Proof.
  intros HR. destruct (R_inv _ _ _ HR) as [HC _]. pose proof (C_life _ _ HC o) as L.
  destruct (rc (gl s) o =? 0); [destruct (created (gl s) o)|]; lia.
Qed.

Lemma dtor_not_while_owned c progs s t src o : R c progs s -> head_is s t (IDtor src o) ->
  rc (gl s) o = 0 /\ ext (gl s) o = 0 /\ cnt o (vec (gl s)) = 0 /\ tot irefs o (thr s) = 0 /\
  dcnt (gl s) o = 0 /\ tot idtor o (thr s) = 1.
Proof.
  intros HR Hh. destruct (R_inv _ _ _ HR) as [HC _]. pose proof (C_life _ _ HC o) as L. pose proof (C_rc _ _ HC o) as RC.
  pose proof (head_tot idtor s t _ o Hh) as T. cbn [idtor] in T. rewrite cnt_cons, Nat.eqb_refl in T.
  destruct (Nat.eqb_spec (rc (gl s) o) 0) as [E|E]; [|lia]. destruct (created (gl s) o); lia.
Qed.

Lemma owned_not_destroyed c progs s o : R c progs s -> rc (gl s) o >= 1 -> dcnt (gl s) o = 0 /\ tot idtor o (thr s) = 0.
Proof.
  intros HR Hr. destruct (R_inv _ _ _ HR) as [HC _]. pose proof (C_life _ _ HC o) as L.
  destruct (Nat.eqb_spec (rc (gl s) o) 0); lia.
Qed.
Lemma client_owned_not_destroyed c progs s o : R c progs s -> ext (gl s) o >= 1 -> dcnt (gl s) o = 0 /\ tot idtor o (thr s) = 0.
Proof.
  intros HR He. apply (owned_not_destroyed c progs s o HR). destruct (R_inv _ _ _ HR) as [HC _]. rewrite (C_rc _ _ HC o). lia.
Qed.

Lemma destroyed_at_the_latest c progs s o : R c progs s -> cstate (gl s) = 2 -> created (gl s) o = true ->
  ext (gl s) o = 0 -> tot irefs o (thr s) = 0 -> dcnt (gl s) o + tot idtor o (thr s) = 1.
Proof.
  intros HR Hc Hk He Ht. destruct (R_inv _ _ _ HR) as [HC _]. pose proof (C_life _ _ HC o) as L. pose proof (C_rc _ _ HC o) as RC.
  rewrite (C_dead _ _ HC Hc), cnt_nil, He, Ht in RC. rewrite RC in L. cbn [Nat.eqb] in L. rewrite Hk in L. exact L.
Qed.

Lemma all_fin_tot f o (s : sysD) : all_fin glob loc fin s = true -> tot f o (thr s) = 0.
Proof.
  unfold all_fin, tot. induction (thr s) as [|l r IH]; [reflexivity|]. cbn [forallb map]. intros H.
  apply andb_true_iff in H as [H1 H2]. rewrite list_sum_cons, (IH H2). unfold fin in H1.
  destruct (stk l); [reflexivity|discriminate].
Qed.

Lemma destroyed_when_done c progs s o : R c progs s -> all_fin glob loc fin s = true -> cstate (gl s) = 2 ->
  created (gl s) o = true -> ext (gl s) o = 0 -> dcnt (gl s) o = 1.
Proof.
  intros HR Hf Hc Hk He.
  pose proof (destroyed_at_the_latest c progs s o HR Hc Hk He (all_fin_tot irefs o s Hf)) as H.
  rewrite (all_fin_tot idtor o s Hf) in H. lia.
Qed.

Lemma no_leak c progs s o : R c progs s -> created (gl s) o = true -> rc (gl s) o = 0 ->
  dcnt (gl s) o + tot idtor o (thr s) = 1.
Proof.
  intros HR Hk Hr. destruct (R_inv _ _ _ HR) as [HC _]. pose proof (C_life _ _ HC o) as L. rewrite Hr in L. cbn in L.
  rewrite Hk in L. exact L.
Qed.

Lemma use_count_exact c progs s o : R c progs s ->
  rc (gl s) o = cnt o (vec (gl s)) + ext (gl s) o + tot irefs o (thr s).
Proof. intros HR. destruct (R_inv _ _ _ HR) as [HC _]. apply (C_rc _ _ HC). Qed.

Lemma conservation c progs s o : R c progs s ->
  cnt o (addlog (gh (gl s))) = cnt o (vec (gl s)) + tot crefs o (thr s) + cnt o (rlog (gh (gl s))).
Proof. intros HR. destruct (R_inv _ _ _ HR) as [HC _]. apply (C_cons _ _ HC). Qed.

Lemma reaped_is_local c progs s o : R c progs s -> In o (reaped (gh (gl s))) ->
  cnt o (vec (gl s)) = 0 /\ ext (gl s) o = 0 /\ tot arefs o (thr s) = 0 /\ rc (gl s) o <= 1.
Proof. intros HR Ho. destruct (R_inv _ _ _ HR) as [HC _]. destruct (C_reaped _ _ HC o Ho) as [A [B [C' [D _]]]]. auto. Qed.

(* ---------- callbacks ---------- *)
Lemma head_cb_ok c progs s t i : R c progs s -> head_is s t i -> cb_ok (gl s) i.
Proof.
  intros HR [l [st [Hl Hs]]]. destruct (R_inv _ _ _ HR) as [_ [_ HB]]. apply (B_ok _ _ HB t).
  rewrite (stk_of_at _ _ _ Hl), Hs. left. reflexivity.
Qed.
Lemma callback_once_before_dtor c progs s t o : R c progs s -> hascb (cf (gl s)) = true ->
  head_is s t (IDtor SRC_CLEAR o) -> cbc (gl s) o = 1.
Proof. intros HR Hc Hh. apply (head_cb_ok c progs s t _ HR Hh eq_refl Hc). Qed.
Lemma callback_at_most_once c progs s o : R c progs s -> cbc (gl s) o <= 1.
Proof. intros HR. destruct (R_inv _ _ _ HR) as [_ [_ HB]]. apply (B_one _ _ HB). Qed.
Lemma callback_only_reaped c progs s o : R c progs s -> cbc (gl s) o >= 1 -> In o (reaped (gh (gl s))).
Proof. intros HR. destruct (R_inv _ _ _ HR) as [_ [_ HB]]. apply (B_reap _ _ HB). Qed.
Lemma no_callback_without_function c progs s : R c progs s -> hascb (cf (gl s)) = false -> cblog (gh (gl s)) = [].
Proof. intros HR. destruct (R_inv _ _ _ HR) as [_ [_ HB]]. apply (B_nocb _ _ HB). Qed.
(* a callback runs on a live object it has not been called on before: never after or during the destructor *)
Lemma callback_before_dtor c progs s t o rest ec esz : R c progs s -> head_is s t (ICb o rest ec esz) ->
  cbc (gl s) o = 0 /\ dcnt (gl s) o = 0 /\ tot idtor o (thr s) = 0 /\ rc (gl s) o = 1 /\ In o (reaped (gh (gl s))).
Proof.
  intros HR Hh. destruct (head_cb_ok c progs s t _ HR Hh) as [K1 [K2 [K3 [K4 [K5 K6]]]]].
  assert (In o ec) as Oec by (apply K3; left; reflexivity).
  pose proof (head_tot irefs s t _ o Hh) as T. cbn [irefs] in T. apply cnt_In in Oec.
  pose proof (use_count_exact c progs s o HR) as RC.
  destruct (owned_not_destroyed c progs s o HR) as [D1 D2]; [lia|].
  assert (In o (reaped (gh (gl s)))) as Rp by (apply K6, cnt_In; exact Oec).
  destruct (reaped_is_local c progs s o HR Rp) as [_ [_ [_ R1]]].
  repeat split; auto; [apply K4; left; reflexivity|lia].
Qed.

(* C20 clause: a throwing callback.  The step that throws leaves destroyObjects() with: the remaining callbacks
   dropped, the whole local vector still to be released (so every selected object is destroyed, outside the
   lock), and the function returning elementSize normally. *)
Lemma callback_throw c progs s t o rest ec esz cc r : R c progs s -> head_is s t (ICb o rest ec esz) ->
  memn (ncb (gl s)) (throws (cf (gl s))) = true ->
  exists g', exec t cc (gl s) r (ICb o rest ec esz) =
             Some (g', r, [IClear SRC_UNWIND ec; ISetRv (zn esz)], [E K_CALL 0 (fid_cb o); E K_THROW 0 (zn (ncb (gl s)))]) /\
             mtx g' = mtx (gl s) /\ mtx (gl s) <> Some t /\
             incl (o :: rest) ec /\ (forall y, In y rest -> cbc g' y = 0) /\ (forall y, In y ec -> In y (reaped (gh g'))).
Proof.
  intros HR Hh Ht. destruct (head_cb_ok c progs s t _ HR Hh) as [K1 [K2 [K3 [K4 [K5 K6]]]]].
  eexists. cbn [exec]. rewrite Ht. split; [reflexivity|]. cbn -[cnt].
  destruct (R_inv _ _ _ HR) as [_ [HL _]]. destruct Hh as [l [st [Hl Hs]]].
  repeat split; auto.
  - pose proof (L_lock _ _ HL) as K. destruct (locked (cf (gl s))); [|congruence].
    intros E. apply K in E. rewrite (stk_of_at _ _ _ Hl), Hs in E. discriminate.
  - intros y Hy. unfold cbc. cbn -[cnt]. rewrite cnt_cons. inversion K2; subst.
    destruct (Nat.eqb_spec o y) as [<-|Hne]; [contradiction|]. apply K4. right. exact Hy.
Qed.

(* ---------- user code and the lock ---------- *)
Definition is_user (i : instr) : bool := match i with ICb _ _ _ _ | IDtor _ _ => true | _ => false end.
Definition is_acquire (i : instr) : bool :=
  match i with ISizeLock | IAddLock _ | IDoTry | IRelock _ | IDdTry _ | IDdTryA _ _ _ | IDdTryB _ _ _ => true | _ => false end.
Definition is_timed (i : instr) : bool :=
  match i with IDoTry | IRelock _ | IDdTry _ | IDdTryA _ _ _ | IDdTryB _ _ _ => true | _ => false end.

Lemma owner_holds c progs s t : R c progs s -> mtx (gl s) = Some t -> holds (stk_of (thr s) t) = true.
Proof.
  intros HR Hm. destruct (R_inv _ _ _ HR) as [_ [HL _]]. pose proof (L_lock _ _ HL) as K.
  destruct (locked (cf (gl s))); [apply K, Hm|congruence].
Qed.
Lemma user_code_outside_lock c progs s t i : R c progs s -> head_is s t i -> is_user i = true -> mtx (gl s) <> Some t.
Proof.
  intros HR [l [st [Hl Hs]]] Hu Hm. pose proof (owner_holds c progs s t HR Hm) as H.
  rewrite (stk_of_at _ _ _ Hl), Hs in H. destruct i; discriminate.
Qed.
Lemma never_relocks_own_mutex c progs s t i : R c progs s -> head_is s t i -> is_acquire i = true -> mtx (gl s) <> Some t.
Proof.
  intros HR [l [st [Hl Hs]]] Hu Hm. pose proof (owner_holds c progs s t HR Hm) as H.
  rewrite (stk_of_at _ _ _ Hl), Hs in H. destruct i; discriminate.
Qed.
Lemma mutual_exclusion c progs s t u : R c progs s -> locked (cf (gl s)) = true ->
  holds (stk_of (thr s) t) = true -> holds (stk_of (thr s) u) = true -> t = u.
Proof.
  intros HR Hk Ht Hu. destruct (R_inv _ _ _ HR) as [_ [HL _]]. pose proof (L_lock _ _ HL) as K. rewrite Hk in K.
  apply K in Ht. apply K in Hu. congruence.
Qed.

(* ---------- progress ---------- *)
Lemma tstep_head_enabled t cc g l i st :
  stk l = i :: st -> (visible g i = true -> exec t cc g (rv l) i <> None) -> exists r, tstep t cc g l = Some r.
Proof.
  intros Hs Hv. unfold tstep. rewrite Hs. destruct (visible g i).
  - destruct (exec t cc g (rv l) i) as [[[[g1 r1] push] es1]|]; [|exfalso; apply Hv; reflexivity].
    destruct (settle settle_fuel t g1 r1 (push ++ st) es1) as [[[g3 r3] st3] es3]. eexists; reflexivity.
  - destruct (settle settle_fuel t g (rv l) (i :: st) []) as [[[g3 r3] st3] es3]. eexists; reflexivity.
Qed.

(* the owner of the mutex can always take its next step *)
Lemma holder_enabled c progs s a cc : R c progs s -> mtx (gl s) = Some a -> enabledD s a cc.
Proof.
  intros HR Hm. pose proof (owner_holds c progs s a HR Hm) as H. unfold stk_of in H.
  destruct (nth_error (thr s) a) as [l|] eqn:Hl; [|discriminate].
  destruct (stk l) as [|i st] eqn:Hs; [discriminate|].
  destruct (tstep_head_enabled a cc (gl s) l i st Hs) as [r Hr]; [|exists l, r; auto].
  intros _. destruct i; try discriminate; cbn [exec].
  - destruct (unlock (gl s)); discriminate.
  - destruct (_ && _); [destruct (_ && _)|]; discriminate.
  - destruct (_ <? _); discriminate.
Qed.

(* a timed acquisition can always complete (by timing out) *)
Lemma timed_enabled (s : sysD) t i : head_is s t i -> is_timed i = true -> enabledD s t 2.
Proof.
  intros [l [st [Hl Hs]]] Ht.
  destruct (tstep_head_enabled t 2 (gl s) l i st Hs) as [r Hr]; [|exists l, r; auto].
  intros _. destruct i; try discriminate; cbn [exec]; unfold try_acq;
    destruct (locked (cf (gl s))); [destruct (mtx (gl s))| | destruct (mtx (gl s))| |destruct (mtx (gl s))| |destruct (mtx (gl s))| |destruct (mtx (gl s))| ];
    cbn; try discriminate.
  all: destruct (scan _ _) as [ec r1]; destruct ec; [discriminate|]; destruct (sweep _ _ _); discriminate.
Qed.

(* ---------- accounting of the container operations still to be completed (the gate of DestroyContainer) ---------- *)
Definition wop (i : instr) : nat :=
  match i with IInvoke o => if counted o then 1 else 0 | IEndOp true => 1 | _ => 0 end.
Definition wstk (st : list instr) : nat := list_sum (map wop st).
Definition wloc (l : loc) : nat := length (filter counted (prog l)) + wstk (stk l).
Definition InvK (g : glob) (ls : list loc) : Prop := busy g = list_sum (map wloc ls).

Lemma wstk_app a b : wstk (a ++ b) = wstk a + wstk b.
Proof. unfold wstk. rewrite map_app, list_sum_app. reflexivity. Qed.
Lemma reenter_busy g m g' push : reenter g m = (g', push) -> busy g' = busy g /\ wstk push = 0.
Proof.
  unfold reenter, new_obj. destruct (cstate g =? 2); [intros H; inversion H; auto|].
  destruct m as [|[|[|[|[|m]]]]]; intros H; inversion H; subst; auto.
Qed.
Lemma invoke_busy g o g' push : invoke g o = (g', push) -> busy g' = busy g /\ wstk push = wop (IInvoke o).
Proof.
  unfold invoke, new_obj. destruct o; destruct (negb (cstate g =? 0));
    repeat match goal with
           | |- context [if ?x then _ else _] => destruct x
           | |- context [match ?x with _ => _ end] => destruct x
           end; intros H; inversion H; subst; auto.
Qed.

Lemma exec_busy t c g r i g' r' push es : wop i <= busy g -> exec t c g r i = Some (g', r', push, es) ->
  busy g' + wop i = busy g + wstk push.
Proof.
  intros Hb Hx. destruct i; norm_exec Hx.
  all: try (solve [
    repeat match type of Hx with
           | context [if ?x then _ else _] => destruct x eqn:?
           | context [match ?x with _ => _ end] => destruct x eqn:?
           end; try discriminate;
    inversion Hx; subst; clear Hx; cbn in *; lia ]).
  - destruct (invoke g o) as [g1 push1] eqn:IV. inversion Hx; subst. destruct (invoke_busy _ _ _ _ IV). lia.
  - destruct (cstate g =? 2); [inversion Hx; subst; cbn; lia|]. norm_exec Hx. inversion Hx; subst; cbn; lia.
  - destruct (memn (ncb g) (throws (cf g))); [inversion Hx; subst; cbn; lia|].
    destruct (reenter _ _) as [g2 push2] eqn:RE. inversion Hx; subst. destruct (reenter_busy _ _ _ _ RE) as [A B].
    rewrite wstk_app, B, A. destruct rest; cbn; lia.
  - destruct (src <? 2); [|inversion Hx; subst; cbn; lia].
    destruct (reenter _ _) as [g2 push2] eqn:RE. inversion Hx; subst. destruct (reenter_busy _ _ _ _ RE) as [A B].
    rewrite B, A. cbn. lia.
Qed.

Lemma wloc_le ls t l : nth_error ls t = Some l -> wloc l <= list_sum (map wloc ls).
Proof.
  revert t. induction ls as [|h r IH]; destruct t; cbn [nth_error map]; rewrite ?list_sum_cons; intros H; try discriminate.
  - inversion H; subst. lia.
  - specialize (IH _ H). lia.
Qed.

Lemma wloc_eq l : wloc l = length (filter counted (prog l)) + wstk (stk l).
Proof. reflexivity. Qed.
Lemma wstk_cons i st : wstk (i :: st) = wop i + wstk st.
Proof. reflexivity. Qed.

Lemma InvK_step g ls t c l g' l' es :
  InvK g ls -> nth_error ls t = Some l -> tstep t c g l = Some (g', l', es) -> InvK g' (upd ls t l').
Proof.
  apply (P_step InvK).
  - intros g0 ls0 t0 l0 i st c0 g1 r1 push es0 HK Hl Hs Hx. unfold InvK in *.
    pose proof (sum_upd wloc ls0 t0 l0 (Loc (prog l0) (push ++ st) r1) Hl) as SU.
    pose proof (wloc_le ls0 t0 l0 Hl) as LE.
    rewrite (wloc_eq l0) in SU, LE. rewrite (wloc_eq (Loc _ _ _)) in SU. cbn [prog stk] in SU. rewrite Hs in SU, LE.
    rewrite wstk_app, wstk_cons in SU. rewrite wstk_cons in LE.
    assert (wop i <= busy g0) as Hb by lia.
    pose proof (exec_busy _ _ _ _ _ _ _ _ _ Hb Hx). lia.
  - intros g0 ls0 t0 l0 o p HK Hl Hs Hp. unfold InvK in *.
    pose proof (sum_upd wloc ls0 t0 l0 (Loc p [IInvoke o] (rv l0)) Hl) as SU.
    rewrite (wloc_eq l0) in SU. rewrite (wloc_eq (Loc _ _ _)) in SU. cbn [prog stk] in SU. rewrite Hs, Hp in SU.
    rewrite wstk_cons in SU. cbn [filter wop] in SU. unfold wstk in SU. cbn [map list_sum fold_right] in SU.
    destruct (counted o); cbn [length] in SU; lia.
Qed.

Lemma InvK_init c progs : InvK (gl (init c progs)) (thr (init c progs)).
Proof.
  unfold InvK, init. cbn [gl thr busy]. rewrite map_map. f_equal. apply map_ext. intros p. unfold wloc. cbn. lia.
Qed.
Lemma R_busy c progs s : R c progs s -> InvK (gl s) (thr s).
Proof. intros H. eapply reachable_inv; [apply InvK_step|apply InvK_init|exact H]. Qed.

(* what a thread that cannot move (without a time-out) looks like *)
Opaque settle.
Lemma blocked_shape c progs s t l : R c progs s -> nth_error (thr s) t = Some l -> tstep t 0 (gl s) l = None ->
  fin l = true \/
  (exists i st a, stk l = i :: st /\ is_acquire i = true /\ mtx (gl s) = Some a /\ a <> t /\ enabledD s a 0) \/
  (exists st, stk l = IDcGate :: st /\ busy (gl s) <> 1).
Proof.
  intros HR Hl Hn. destruct (stk l) as [|i st] eqn:Hs.
  - left. unfold tstep in Hn. rewrite Hs in Hn. unfold fin. rewrite Hs. destruct (prog l) as [|o p]; [reflexivity|].
    exfalso. cbn in Hn. destruct (invoke (gl s) o) as [g1 push1]. cbn in Hn.
    destruct (settle _ _ _ _ _ _) as [[[? ?] ?] ?]. discriminate.
  - right.
    assert (HX : visible (gl s) i = true /\ exec t 0 (gl s) (rv l) i = None).
    { unfold tstep in Hn. rewrite Hs in Hn. destruct (visible (gl s) i).
      - split; [reflexivity|]. destruct (exec t 0 (gl s) (rv l) i) as [[[[? ?] ?] ?]|]; [|reflexivity].
        destruct (settle _ _ _ _ _ _) as [[[? ?] ?] ?]. discriminate.
      - destruct (settle _ _ _ _ _ _) as [[[? ?] ?] ?]. discriminate. }
    destruct HX as [_ HX].
    assert (ACQ : forall a, mtx (gl s) = Some a -> is_acquire i = true ->
                  exists i0 st0 a0, i :: st = i0 :: st0 /\ is_acquire i0 = true /\ mtx (gl s) = Some a0 /\ a0 <> t /\ enabledD s a0 0).
    { intros a Ha Hq. exists i, st, a. repeat split; auto.
      - intros ->. apply (never_relocks_own_mutex c progs s t i HR); auto. exists l, st. auto.
      - apply (holder_enabled c progs s a 0 HR Ha). }
    destruct i; cbn [exec] in HX; try discriminate.
    all: try (destruct (cstate (gl s) =? 2); [discriminate|]).
    all: try (unfold lock_acq in HX; destruct (locked (cf (gl s))); [|discriminate];
              destruct (mtx (gl s)) as [a|] eqn:Ha; [|discriminate]; left; apply (ACQ a eq_refl eq_refl)).
    all: try (unfold try_acq in HX; destruct (locked (cf (gl s)));
              [destruct (mtx (gl s)) as [a|] eqn:Ha; [left; apply (ACQ a eq_refl eq_refl)|]|]).
    all: try (destruct (unlock (gl s)); discriminate).
    all: try (destruct (invoke (gl s) o); discriminate).
    all: repeat match type of HX with
                | context [if ?x then _ else _] => destruct x eqn:?
                | context [match ?x with _ => _ end] => destruct x eqn:?
                end; try discriminate.
    all: try (right; eexists; split; [reflexivity|]; apply Nat.eqb_neq; assumption).
    all: idtac.
Qed.
Transparent settle.

(* deadlock freedom: when nothing can move (spurious wake-ups aside: there are none here), every thread has
   finished or is the harness gate of DestroyContainer waiting for other container operations *)
Lemma quiescent_shape c progs s t l : R c progs s -> quiescent glob loc tstep s -> nth_error (thr s) t = Some l ->
  fin l = true \/ (exists st, stk l = IDcGate :: st /\ busy (gl s) <> 1).
Proof.
  intros HR HQ Hl.
  assert (Hn : tstep t 0 (gl s) l = None).
  { destruct (tstep t 0 (gl s) l) as [r|] eqn:E; [|reflexivity]. exfalso. apply (HQ t 0); [lia|]. exists l, r. auto. }
  destruct (blocked_shape c progs s t l HR Hl Hn) as [F|[[i [st [a [_ [_ [_ [_ He]]]]]]]|G]]; auto.
  exfalso. apply (HQ a 0); [lia|exact He].
Qed.

(* the gate opens as soon as this is the only container operation left *)
Lemma gate_opens c progs s t l st cc : R c progs s -> nth_error (thr s) t = Some l -> stk l = IDcGate :: st ->
  list_sum (map wloc (thr s)) = 1 -> enabledD s t cc.
Proof.
  intros HR Hl Hs H1. pose proof (R_busy _ _ _ HR) as K. unfold InvK in K.
  destruct (tstep_head_enabled t cc (gl s) l IDcGate st Hs) as [r Hr]; [|exists l, r; auto].
  intros _. cbn [exec]. rewrite K, H1. discriminate.
Qed.

(* with at most one pending DestroyContainer whose thread has no later container operation: no deadlock at all *)
Lemma no_deadlock c progs s : R c progs s -> quiescent glob loc tstep s ->
  (forall t l st, nth_error (thr s) t = Some l -> stk l = IDcGate :: st ->
     wloc l = 1 /\ forall u l', u <> t -> nth_error (thr s) u = Some l' -> ~ (exists st', stk l' = IDcGate :: st')) ->
  all_fin glob loc fin s = true.
Proof.
  intros HR HQ HG. unfold all_fin. apply forallb_forall. intros l Hin. apply In_nth_error in Hin. destruct Hin as [t Hl].
  destruct (quiescent_shape c progs s t l HR HQ Hl) as [F|[st [Hs Hb]]]; [exact F|exfalso].
  destruct (HG t l st Hl Hs) as [W1 HO].
  apply (HQ t 0); [lia|]. apply (gate_opens c progs s t l st 0 HR Hl Hs).
  assert (forall u l', u <> t -> nth_error (thr s) u = Some l' -> wloc l' = 0) as Z.
  { intros u l' Hne Hu. destruct (quiescent_shape c progs s u l' HR HQ Hu) as [F|[st' [Hs' _]]].
    - unfold fin in F. unfold wloc. destruct (stk l'); [|discriminate]. destruct (prog l'); [reflexivity|discriminate].
    - exfalso. apply (HO u l' Hne Hu). exists st'. exact Hs'. }
  clear -Hl W1 Z. revert t Hl Z. induction (thr s) as [|h r IH]; intros t Hl Z; destruct t; try discriminate.
  - cbn in Hl. inversion Hl; subst. cbn [map]. rewrite list_sum_cons, W1.
    assert (list_sum (map wloc r) = 0); [|lia].
    clear -Z. assert (forall u l', nth_error r u = Some l' -> wloc l' = 0) as Z' by (intros u l' H; apply (Z (S u) l'); [lia|exact H]).
    clear Z. induction r as [|h r IH]; [reflexivity|]. cbn [map]. rewrite list_sum_cons, (Z' 0 h eq_refl), IH; [reflexivity|].
    intros u l' H. apply (Z' (S u) l' H).
  - cbn in Hl. cbn [map]. rewrite list_sum_cons, (Z 0 h); [|lia|reflexivity].
    apply (IH t Hl). intros u l' Hne Hu. apply (Z (S u) l'); [lia|exact Hu].
Qed.

From GV Require Import Progress.
(* ---------- bounded work: a measure every step decreases ---------- *)
(* budget of what a destructor / callback with re-entry mode m may still cause: the instructions it pushes plus
   the budget of the child it hands over (mode m >= 5: a chain, the child's mode is smaller) *)
Fixpoint Rr (m : nat) : nat :=
  match m with
  | 0 => 0 | 1 => 2 | 2 => 6 | 3 => 6 | 4 => 47 | 5 => 12
  | S p => 6 + Rr p
  end.
Definition qd (d : Z) (k : nat) : nat := dcount d - k.
Definition Tq (ii : nat) : nat := 6 - ii.
Definition wprog (o : op) : nat :=
  match o with
  | Add _ dm cm => 9 + Rr dm + Rr cm
  | Drop _ => 6
  | DestroyObjects => 8
  | DestroyObjectsDelay d => 7 + 14 * dcount d
  | Size => 4
  | DestroyContainer => 71
  | Readd _ => 9
  end.
Definition wi (i : instr) : nat :=
  match i with
  | IInvoke o => wprog o
  | IEndOp _ | ISetRv _ | ISetRvSize | IFault _ | IUnlock | IDtor _ _ | ISleep | IYield => 1
  | ISizeLock | IRelock _ | IDcVec => 2
  | IAddLock _ | IDoTry => 6
  | IClear _ l => 1 + 2 * length l
  | ICb _ rest ec _ => 2 * (1 + length rest) + 2 * length ec + 4
  | IDdTry d => 5 + 14 * dcount d
  | IDdLoop d k _ => 4 + 14 * qd d k
  | IDdBody d k => 13 + 14 * (qd d k - 1)
  | IDdTryA d k _ => 14 + 14 * (qd d k - 1)
  | IDdTryB d k _ => 5 + 14 * qd d k
  | IDcGate => 69
  | IDcLoop ii => 17 + 10 * Tq (S ii)
  | IDcAfter ii => 10 + 10 * Tq ii
  end.
Definition wst (st : list instr) : nat := list_sum (map wi st).
Definition pot (g : glob) (o : nat) : nat :=
  (if cbc g o =? 0 then Rr (cmode g o) else 0) + (if dcnt g o =? 0 then Rr (dmode g o) else 0).
Definition phi (g : glob) : nat := list_sum (map (pot g) (seq 1 (nobj g))).
Definition wl (l : loc) : nat := list_sum (map wprog (prog l)) + wst (stk l).
Definition mu (s : sysD) : nat := phi (gl s) + 4 * length (vec (gl s)) + list_sum (map wl (thr s)).

Lemma wst_app a b : wst (a ++ b) = wst a + wst b.
Proof. unfold wst. rewrite map_app, list_sum_app. reflexivity. Qed.
Lemma wst_cons i st : wst (i :: st) = wi i + wst st.
Proof. reflexivity. Qed.
Lemma Rr_S p : 5 <= p -> Rr (S p) = 6 + Rr p.
Proof. intros H. do 5 (destruct p as [|p]; [lia|]). reflexivity. Qed.
Lemma Rr_child m : 5 <= m -> Rr m = 6 + Rr (child_mode m).
Proof.
  intros H. unfold child_mode. destruct (Nat.eqb_spec m 5) as [->|Hne]; [reflexivity|].
  destruct m as [|p]; [lia|]. rewrite Rr_S by lia. reflexivity.
Qed.

(* sums over the objects *)
Lemma sum_change (f f' : nat -> nat) o l : NoDup l -> In o l -> (forall x, x <> o -> f' x = f x) ->
  list_sum (map f' l) + f o = list_sum (map f l) + f' o.
Proof.
  induction l as [|h r IH]; intros ND Hin Hs; [destruct Hin|]. inversion ND; subst. cbn [map]. rewrite !list_sum_cons.
  destruct Hin as [->|Hin].
  - assert (list_sum (map f' r) = list_sum (map f r)); [|lia].
    f_equal. apply map_ext_in. intros x Hx. apply Hs. intros ->. contradiction.
  - specialize (IH H2 Hin Hs). rewrite (Hs h) by (intros ->; contradiction). lia.
Qed.
Lemma sum_same (f f' : nat -> nat) l : (forall x, In x l -> f' x = f x) -> list_sum (map f' l) = list_sum (map f l).
Proof. intros H. f_equal. apply map_ext_in. exact H. Qed.
Lemma created_In g o : created g o = true <-> In o (seq 1 (nobj g)).
Proof.
  unfold created. rewrite in_seq, andb_true_iff, !Nat.leb_le. lia.
Qed.

Lemma phi_new g dm cm g' x : new_obj g dm cm = (g', x) ->
  phi g' <= phi g + Rr dm + Rr cm /\ vec g' = vec g.
Proof.
  unfold new_obj. intros H. inversion H; subst; clear H. split; [|reflexivity].
  unfold phi. cbn [nobj]. rewrite seq_S, map_app, list_sum_app. cbn [map Nat.add]. rewrite list_sum_cons.
  assert (list_sum (map (pot (Glob (cf g) (mtx g) (vec g) (cstate g) (slots g) (fupd (rc g) (S (nobj g)) 1) (S (nobj g)) (ncb g)
             (busy g) (fupd (dmode g) (S (nobj g)) dm) (fupd (cmode g) (S (nobj g)) cm) (gh g))) (seq 1 (nobj g)))
          = list_sum (map (pot g) (seq 1 (nobj g)))) as ->.
  { apply sum_same. intros o Ho. apply in_seq in Ho. unfold pot, cbc, dcnt. cbn. rewrite !fupd_ne by lia. reflexivity. }
  unfold pot at 2. cbn [cmode dmode]. rewrite !fupd_eq. cbn [list_sum fold_right].
  destruct (_ =? 0), (_ =? 0); lia.
Qed.

Lemma phi_cb g n o : created g o = true -> cbc g o = 0 ->
  phi (log_cb (set_ncb g n) o) + Rr (cmode g o) = phi g.
Proof.
  intros Hc Hz. unfold phi. cbn [nobj log_cb set_ncb set_gh].
  pose proof (sum_change (pot g) (pot (log_cb (set_ncb g n) o)) o (seq 1 (nobj g)) (seq_NoDup _ _)
                (proj1 (created_In g o) Hc)) as E.
  assert (P1 : forall x, x <> o -> pot (log_cb (set_ncb g n) o) x = pot g x).
  { intros x Hx. unfold pot, cbc, dcnt. cbn -[cnt]. rewrite cnt_cons. destruct (Nat.eqb_spec o x); [congruence|reflexivity]. }
  specialize (E P1).
  assert (P2 : pot (log_cb (set_ncb g n) o) o + Rr (cmode g o) = pot g o).
  { unfold pot, cbc, dcnt in *. cbn -[cnt]. rewrite cnt_cons, Nat.eqb_refl, Hz. cbn. lia. }
  cbn [nobj log_cb set_ncb set_gh] in E. lia.
Qed.
Lemma phi_d g o : created g o = true -> dcnt g o = 0 -> phi (log_d g o) + Rr (dmode g o) = phi g.
Proof.
  intros Hc Hz. unfold phi. cbn [nobj log_d set_gh].
  pose proof (sum_change (pot g) (pot (log_d g o)) o (seq 1 (nobj g)) (seq_NoDup _ _) (proj1 (created_In g o) Hc)) as E.
  assert (P1 : forall x, x <> o -> pot (log_d g o) x = pot g x).
  { intros x Hx. unfold pot, cbc, dcnt. cbn -[cnt]. rewrite cnt_cons. destruct (Nat.eqb_spec o x); [congruence|reflexivity]. }
  specialize (E P1).
  assert (P2 : pot (log_d g o) o + Rr (dmode g o) = pot g o).
  { unfold pot, cbc, dcnt in *. cbn -[cnt]. rewrite cnt_cons, Nat.eqb_refl, Hz. cbn. lia. }
  cbn [nobj log_d set_gh] in E. lia.
Qed.

Lemma reenter_mu g m g' push : reenter g m = (g', push) ->
  phi g' + wst push <= phi g + Rr m /\ vec g' = vec g.
Proof.
  unfold reenter. destruct (cstate g =? 2); [intros H; inversion H; subst; cbn; split; [lia|reflexivity]|].
  destruct m as [|[|[|[|[|m]]]]]; try (intros H; inversion H; subst; cbn; split; [lia|reflexivity]).
  - destruct (new_obj g 0 0) as [g1 x] eqn:N. intros H; inversion H; subst. destruct (phi_new _ _ _ _ _ N) as [A B].
    split; [cbn in *; lia|exact B].
  - destruct (new_obj g _ 0) as [g1 x] eqn:N. intros H; inversion H; subst. destruct (phi_new _ _ _ _ _ N) as [A B].
    split; [|exact B]. rewrite (Rr_child (S (S (S (S (S m)))))) by lia. cbn [wst map wi list_sum fold_right Rr] in *. lia.
Qed.

Lemma cnt_len_le l : forall c, (forall o, cnt o l <= cnt o c) -> length l <= length c.
Proof.
  induction l as [|x l IH]; intros c H; [cbn; lia|].
  assert (In x c) as Hin. { apply cnt_In. specialize (H x). rewrite cnt_cons, Nat.eqb_refl in H. lia. }
  apply in_split in Hin. destruct Hin as [c1 [c2 ->]].
  assert (length l <= length (c1 ++ c2)).
  { apply IH. intros o. specialize (H o). rewrite cnt_cons in H. rewrite !cnt_app in *. rewrite cnt_cons in H. lia. }
  rewrite !app_length in *. cbn [length] in *. lia.
Qed.

Ltac phi_norm g := repeat match goal with |- context [phi ?x] => lazymatch x with g => fail | _ => change (phi x) with (phi g) end end.
Ltac wnorm := cbn [wst map wi list_sum fold_right wprog length app].

Lemma invoke_mu g o g' push : invoke g o = (g', push) ->
  phi g' + wst push < phi g + wprog o /\ vec g' = vec g.
Proof.
  unfold invoke. destruct o; destruct (negb (cstate g =? 0)); try (intros H; injection H as <- <-; wnorm; split; [lia|reflexivity]).
  - destruct (new_obj g dm cm) as [g1 x] eqn:N. destruct (phi_new _ _ _ _ _ N) as [A B].
    assert (C : phi (set_slots (inc_rc g1 x) ((slot, x) :: slots g1)) = phi g1) by reflexivity.
    destruct (_ && _); intros H; injection H as <- <-; wnorm; rewrite ?C; split; (lia || exact B).
  - destruct (slot_get slot (slots g)); intros H; injection H as <- <-; wnorm; phi_norm g; split; (lia || reflexivity).
  - destruct (slot_get slot (slots g)); intros H; injection H as <- <-; wnorm; phi_norm g; split; (lia || reflexivity).
  - destruct (slot_get slot (slots g)); intros H; injection H as <- <-; wnorm; phi_norm g; split; (lia || reflexivity).
Qed.

Ltac bools :=
  repeat match goal with
  | H : (_ && _) = true |- _ => apply andb_true_iff in H; destruct H
  | H : (_ && _) = false |- _ => apply andb_false_iff in H
  | H : (_ <? _) = true |- _ => apply Nat.ltb_lt in H
  | H : (_ <? _) = false |- _ => apply Nat.ltb_ge in H
  | H : (_ =? _) = true |- _ => apply Nat.eqb_eq in H
  | H : (_ =? _) = false |- _ => apply Nat.eqb_neq in H
  end.

Lemma exec_mu g ls t l i st c g' r' push es :
  Inv g ls -> nth_error ls t = Some l -> stk l = i :: st -> exec t c g (rv l) i = Some (g', r', push, es) ->
  phi g' + 4 * length (vec g') + wst push < phi g + 4 * length (vec g) + wi i.
Proof.
  intros [HC [HL HB]] Hl Hs Hx.
  destruct i; norm_exec Hx.
  all: try (solve [
    repeat match type of Hx with
           | context [if ?x then _ else _] => destruct x eqn:?
           | context [match ?x with _ => _ end] => destruct x eqn:?
           end; try discriminate;
    injection Hx as <- <- <- <-; wnorm; phi_norm g;
    cbn [vec set_mtx set_vec set_cstate set_busy set_gh log_add log_rel log_reaped set_rc dec_rc length app];
    unfold qd, Tq in *; bools; rewrite ?app_length; try match goal with H : vec _ = _ |- _ => rewrite H end; cbn [length]; lia ]).
  - (* IInvoke *)
    destruct (invoke g o) as [g1 push1] eqn:IV. injection Hx as <- <- <- <-.
    destruct (invoke_mu _ _ _ _ IV) as [A B]. rewrite B. cbn [wi]. lia.
  - (* IAddLock *)
    destruct (cstate g =? 2); [injection Hx as <- <- <- <-; wnorm; lia|].
    norm_exec Hx. injection Hx as <- <- <- <-. wnorm. phi_norm g. cbn [vec set_mtx set_vec set_gh log_add].
    rewrite app_length. cbn [length]. lia.
  - (* IDoTry *)
    cbn [vec rc set_mtx] in Hx.
    destruct (scan (vec g) (rc g)) as [ec r1] eqn:SC.
    destruct ec as [|e ec']; [injection Hx as <- <- <- <-; wnorm; phi_norm g; cbn [vec set_mtx]; lia|].
    remember (e :: ec') as ec eqn:Hec.
    destruct (sweep (vec g) ec r1) as [v2 r2] eqn:SW.
    pose proof (scan_sweep (vec g) (rc g) (fun o => ext g o + tot irefs o ls) ec r1 v2 r2
                  (fun o => eq_trans (C_rc _ _ HC o) (eq_sym (Nat.add_assoc _ _ _))) SC SW) as SS.
    assert (LEN : length (v2 ++ ec) <= length (vec g)).
    { apply cnt_len_le. intros o. rewrite cnt_app. destruct (SS o) as [_ [B _]]. lia. }
    rewrite app_length in LEN.
    injection Hx as <- <- <- <-. phi_norm g. cbn [vec set_mtx set_vec set_rc set_gh log_reaped].
    rewrite wst_cons. cbn [wi].
    assert (wst (if hascb (cf g) then cbs_cont ec ec (length v2) else [IClear SRC_CLEAR ec; IRelock (length v2)]) <= 4 * length ec + 4).
    { destruct (hascb (cf g)); [rewrite Hec; cbn [cbs_cont]; wnorm; lia|wnorm; lia]. }
    lia.
  - (* ICb *)
    assert (OKI : cb_ok g (ICb o rest ec esz)). { apply (B_ok _ _ HB t). rewrite (stk_of_at _ _ _ Hl), Hs. left. reflexivity. }
    destruct OKI as [K1 [K2 [K3 [K4 [K5 K6]]]]].
    assert (created g o = true /\ cbc g o = 0) as [CR CZ].
    { split; [|apply K4; left; reflexivity]. apply (C_reaped _ _ HC o). apply K6, K3. left. reflexivity. }
    pose proof (phi_cb g (S (ncb g)) o CR CZ) as PC.
    set (g1 := log_cb (set_ncb g (S (ncb g))) o) in *.
    destruct (memn (ncb g) (throws (cf g))).
    + injection Hx as <- <- <- <-. wnorm. change (vec g1) with (vec g). lia.
    + destruct (reenter g1 (cmode g o)) as [g2 push2] eqn:RE. injection Hx as <- <- <- <-.
      destruct (reenter_mu _ _ _ _ RE) as [A B]. rewrite B. change (vec g1) with (vec g).
      rewrite wst_app.
      assert (wst (cbs_cont rest ec esz) < wi (ICb o rest ec esz)). { destruct rest; cbn [cbs_cont]; wnorm; lia. }
      lia.
  - (* IDtor *)
    assert (created g o = true /\ dcnt g o = 0) as [CR DZ].
    { pose proof (ref_here ls t l _ st Hl Hs idtor o) as T. cbn [idtor] in T. rewrite cnt_cons, Nat.eqb_refl in T.
      pose proof (C_life _ _ HC o) as L. destruct (rc g o =? 0); [|lia]. destruct (created g o); [split; [reflexivity|lia]|lia]. }
    pose proof (phi_d g o CR DZ) as PD.
    destruct (src <? 2).
    + destruct (reenter (log_d g o) (dmode g o)) as [g2 push2] eqn:RE. injection Hx as <- <- <- <-.
      destruct (reenter_mu _ _ _ _ RE) as [A B]. rewrite B. change (vec (log_d g o)) with (vec g). cbn [wi]. lia.
    + injection Hx as <- <- <- <-. wnorm. change (vec (log_d g o)) with (vec g). lia.
Qed.

Lemma wl_eq l : wl l = list_sum (map wprog (prog l)) + wst (stk l).
Proof. reflexivity. Qed.
Definition mug (g : glob) (ls : list loc) : nat := phi g + 4 * length (vec g) + list_sum (map wl ls).

Lemma exec_Inv g ls t l i st c g' r' push es p :
  Inv g ls -> nth_error ls t = Some l -> stk l = i :: st -> exec t c g (rv l) i = Some (g', r', push, es) ->
  Inv g' (upd ls t (Loc p (push ++ st) r')).
Proof.
  intros [HC [HL HB]] Hl Hs Hx. split; [|split].
  - eapply exec_InvC; eauto.
  - eapply exec_InvL; eauto.
  - eapply exec_InvB; eauto.
Qed.

Lemma exec_mug g ls t l i st c g' r' push es :
  Inv g ls -> nth_error ls t = Some l -> stk l = i :: st -> exec t c g (rv l) i = Some (g', r', push, es) ->
  mug g' (upd ls t (Loc (prog l) (push ++ st) r')) < mug g ls.
Proof.
  intros HI Hl Hs Hx. pose proof (exec_mu _ _ _ _ _ _ _ _ _ _ _ HI Hl Hs Hx) as E.
  pose proof (sum_upd wl ls t l (Loc (prog l) (push ++ st) r') Hl) as SU.
  unfold mug. rewrite (wl_eq l), (wl_eq (Loc _ _ _)) in SU. cbn [prog stk] in SU. rewrite Hs, wst_app, wst_cons in SU. lia.
Qed.

Lemma invisible_exec t g r i : visible g i = false -> exec t 0 g r i <> None.
Proof.
  intros V. destruct i; cbn [visible] in V; try discriminate; cbn [exec]; unfold try_acq, lock_acq, unlock; rewrite ?V; try discriminate.
  all: repeat match goal with
       | |- context [if ?x then _ else _] => destruct x
       | |- context [match ?x with _ => _ end] => destruct x
       end; discriminate.
Qed.

Lemma settle_mug fuel : forall t g r st evs ls p g2 r2 st2 es2,
  Inv g ls -> nth_error ls t = Some (Loc p st r) -> settle fuel t g r st evs = (g2, r2, st2, es2) ->
  Inv g2 (upd ls t (Loc p st2 r2)) /\ mug g2 (upd ls t (Loc p st2 r2)) <= mug g ls /\
  (forall i st', st = i :: st' -> visible g i = false -> fuel <> 0 -> mug g2 (upd ls t (Loc p st2 r2)) < mug g ls).
Proof.
  induction fuel as [|f IH]; intros t g r st evs ls p g2 r2 st2 es2 HI Hl Hs; cbn [settle] in Hs.
  - inversion Hs; subst. rewrite (upd_same _ _ _ Hl). split; [exact HI|split; [lia|intros ? ? ? ? F; congruence]].
  - destruct st as [|i st']; [inversion Hs; subst; rewrite (upd_same _ _ _ Hl); split; [exact HI|split; [lia|intros ? ? E; discriminate E]]|].
    destruct (visible g i) eqn:V; [inversion Hs; subst; rewrite (upd_same _ _ _ Hl); split; [exact HI|split; [lia|intros ? ? E V'; inversion E; subst; congruence]]|].
    destruct (exec t 0 g r i) as [[[[g' r'] push] es]|] eqn:E; [|exfalso; apply (invisible_exec t g r i V E)].
    pose proof (exec_Inv g ls t _ i st' 0 g' r' push es p HI Hl eq_refl E) as H1.
    pose proof (exec_mug g ls t _ i st' 0 g' r' push es HI Hl eq_refl E) as M1. cbn [prog] in M1.
    destruct (IH t g' r' (push ++ st') (evs ++ es) _ p g2 r2 st2 es2 H1 (nth_upd_eq _ _ _ _ Hl) Hs) as [H2 [M2 _]].
    rewrite upd_upd in H2, M2. split; [exact H2|split; [lia|intros; lia]].
Qed.

Lemma tstep_mug g ls t c l g' l' es :
  Inv g ls -> nth_error ls t = Some l -> tstep t c g l = Some (g', l', es) -> mug g' (upd ls t l') < mug g ls.
Proof.
  intros HI Hl Hs. unfold tstep in Hs.
  assert (FIRE : forall p i st ls0, Inv g ls0 -> nth_error ls0 t = Some (Loc p (i :: st) (rv l)) ->
            forall g2 l2 es2,
            (if visible g i then
               match exec t c g (rv l) i with
               | None => None
               | Some (g', r', push, es) =>
                 let '(g2, r2, st2, es2) := settle settle_fuel t g' r' (push ++ st) es in Some (g2, Loc p st2 r2, es2)
               end
             else let '(g2, r2, st2, es2) := settle settle_fuel t g (rv l) (i :: st) [] in Some (g2, Loc p st2 r2, es2))
            = Some (g2, l2, es2) -> mug g2 (upd ls0 t l2) < mug g ls0).
  { intros p i st ls0 HI0 Hl0 g2 l2 es2 H. destruct (visible g i) eqn:V.
    - destruct (exec t c g (rv l) i) as [[[[g1 r1] push] es1]|] eqn:E; [|discriminate].
      pose proof (exec_Inv g ls0 t _ i st c g1 r1 push es1 p HI0 Hl0 eq_refl E) as H1.
      pose proof (exec_mug g ls0 t _ i st c g1 r1 push es1 HI0 Hl0 eq_refl E) as M1. cbn [prog] in M1.
      destruct (settle settle_fuel t g1 r1 (push ++ st) es1) as [[[g3 r3] st3] es3] eqn:S. inversion H; subst.
      destruct (settle_mug _ _ _ _ _ _ _ _ _ _ _ _ H1 (nth_upd_eq _ _ _ _ Hl0) S) as [_ [M2 _]]. rewrite upd_upd in M2. lia.
    - destruct (settle settle_fuel t g (rv l) (i :: st) []) as [[[g3 r3] st3] es3] eqn:S. inversion H; subst.
      destruct (settle_mug _ _ _ _ _ _ _ _ _ _ _ _ HI0 Hl0 S) as [_ [_ M3]]. apply (M3 i st eq_refl V). discriminate. }
  destruct l as [pr sk r]. cbn [stk prog rv] in *. destruct sk as [|i st].
  - destruct pr as [|o pr]; [discriminate|].
    set (l0 := Loc pr [IInvoke o] r).
    assert (H0 : Inv g (upd ls t l0)).
    { destruct HI as [HC [HL HB]]. split; [|split].
      - apply (InvC_invoke g ls t _ o pr HC Hl eq_refl).
      - apply (InvL_invoke g ls t _ o pr HL Hl eq_refl).
      - apply (InvB_invoke g ls t _ o pr HB Hl eq_refl). }
    assert (E0 : mug g (upd ls t l0) = mug g ls).
    { unfold mug. pose proof (sum_upd wl ls t _ l0 Hl) as SU. rewrite (wl_eq (Loc (o :: pr) [] r)), (wl_eq l0) in SU. change (stk l0) with [IInvoke o] in SU. change (prog l0) with pr in SU. cbn [prog stk map] in SU.
      rewrite list_sum_cons in SU. cbn [wst map wi list_sum fold_right] in SU. lia. }
    pose proof (FIRE pr (IInvoke o) [] _ H0 (nth_upd_eq _ _ _ _ Hl) g' l' es Hs) as H1.
    rewrite upd_upd in H1. lia.
  - apply (FIRE pr i st ls HI Hl g' l' es Hs).
Qed.

Definition any_choice (c : nat) : bool := true.
Lemma mu_mug s : mu s = mug (gl s) (thr s).
Proof. reflexivity. Qed.

Lemma mu_dec s t c : Inv (gl s) (thr s) -> any_choice c = true -> enabledD s t c -> mu (stepD s (t, c)) < mu s.
Proof.
  intros HI _ [l [r [Hl Hs]]]. destruct r as [[g' l'] es].
  unfold step, sys_step. rewrite Hl, Hs. cbn [fst]. rewrite !mu_mug. cbn [gl thr].
  apply (tstep_mug _ _ _ _ _ _ _ _ HI Hl Hs).
Qed.

(* every schedule makes at most mu(s) moves: time-outs, re-entrant calls and objects handed over by destructors
   and callbacks included, no run goes on for ever *)
Lemma bounded_work c progs s sc : R c progs s -> moves glob loc tstep s sc <= mu s.
Proof.
  intros HR. eapply (moves_le_mu glob loc tstep mu Inv Inv_step any_choice); eauto.
  - intros s0 t c0. apply mu_dec.
  - apply (R_inv _ _ _ HR).
  - unfold sched_ok. apply forallb_forall. reflexivity.
Qed.

(* the choice matters only as "time-out or not" *)
Lemma try_acq_choice t c g : c <> 2 -> try_acq t c g = try_acq t 0 g.
Proof. intros H. unfold try_acq. destruct (Nat.eqb_spec c 2); [contradiction|reflexivity]. Qed.
Lemma exec_choice t c g r i : c <> 2 -> exec t c g r i = exec t 0 g r i.
Proof. intros H. destruct i; cbn [exec]; rewrite ?(try_acq_choice t c g H); reflexivity. Qed.
Lemma tstep_choice t c g l : c <> 2 -> tstep t c g l = tstep t 0 g l.
Proof.
  intros H. unfold tstep. destruct (stk l) as [|i st]; [destruct (prog l) as [|o p]; [reflexivity|]|];
    cbv beta zeta; rewrite (exec_choice t c g _ _ H); reflexivity.
Qed.

Lemma pick_move s : (exists t c, any_choice c = true /\ enabledD s t c) \/ settled glob loc tstep any_choice s.
Proof.
  destruct (enabled_choice_dec glob loc tstep s 0) as [[t He]|Hn0]; [left; exists t, 0; split; [reflexivity|exact He]|].
  destruct (enabled_choice_dec glob loc tstep s 2) as [[t He]|Hn2]; [left; exists t, 2; split; [reflexivity|exact He]|].
  right. intros t c _ [l [r [Hl Hs]]]. destruct (Nat.eq_dec c 2) as [->|Hne].
  - apply (Hn2 t). exists l, r. auto.
  - apply (Hn0 t). exists l, r. split; [exact Hl|]. rewrite <- Hs. symmetry. apply tstep_choice. exact Hne.
Qed.

(* client obligation about DestroyContainer (the hypothesis of no_deadlock), required of the states the run passes through *)
Definition gate_ok (s : sysD) : Prop :=
  forall t l st, nth_error (thr s) t = Some l -> stk l = IDcGate :: st ->
    wloc l = 1 /\ forall u l', u <> t -> nth_error (thr s) u = Some l' -> ~ (exists st', stk l' = IDcGate :: st').

Lemma eventually_finishes c progs s : R c progs s ->
  (forall s', reachable glob loc tstep s s' -> gate_ok s') ->
  exists sc, sched_ok any_choice sc /\ length sc <= mu s /\ all_fin glob loc fin (runD s sc) = true.
Proof.
  intros HR HG.
  destruct (settles glob loc tstep mu Inv Inv_step any_choice (fun s0 t c0 => mu_dec s0 t c0) pick_move s (R_inv _ _ _ HR))
    as [sc [Hok [Hlen Hset]]].
  exists sc. repeat split; auto.
  apply (no_deadlock c progs).
  - destruct HR as [sc0 ->]. exists (sc0 ++ sc). symmetry. apply run_app.
  - intros t c0 _. apply Hset. reflexivity.
  - apply HG. exists sc. reflexivity.
Qed.

(* ---------- the DestroyContainer obligation as a decidable condition on the programs ---------- *)
Definition is_dc (o : op) : bool := match o with DestroyContainer => true | _ => false end.
Definition dcp_prog (p : list op) : nat := length (filter is_dc p).
Definition nocount (p : list op) : bool := forallb (fun o => negb (counted o)) p.
(* nothing but Drop after the (first) DestroyContainer of a thread *)
Fixpoint tail_ok (p : list op) : bool :=
  match p with
  | [] => true
  | DestroyContainer :: r => nocount r
  | _ :: r => tail_ok r
  end.
(* at most one DestroyContainer in all the programs, and the thread that issues it only drops references afterwards *)
Definition dc_wf (progs : list (list op)) : bool :=
  (list_sum (map dcp_prog progs) <=? 1) && forallb tail_ok progs.

Definition gate_i (i : instr) : nat :=
  match i with IDcGate => 1 | IInvoke DestroyContainer => 1 | _ => 0 end.
Definition gates (st : list instr) : nat := list_sum (map gate_i st).
Definition dcs (l : loc) : nat := dcp_prog (prog l) + gates (stk l).
(* on a stack the gate is directly followed by the end of its operation *)
Fixpoint gshape (st : list instr) : bool :=
  match st with
  | [] => true
  | IDcGate :: r => match r with IEndOp true :: r' => gshape r' | _ => false end
  | _ :: r => gshape r
  end.
Record InvW (g : glob) (ls : list loc) : Prop := {
  W_one : list_sum (map dcs ls) <= 1;
  W_tail : forall u l, nth_error ls u = Some l -> tail_ok (prog l) = true;
  W_gate : forall u l, nth_error ls u = Some l -> gates (stk l) >= 1 -> nocount (prog l) = true;
  W_shape : forall u l, nth_error ls u = Some l -> gshape (stk l) = true;
  W_stk : forall u l, nth_error ls u = Some l -> wstk (stk l) <= 1
}.

Lemma gates_app a b : gates (a ++ b) = gates a + gates b.
Proof. unfold gates. rewrite map_app, list_sum_app. reflexivity. Qed.
Lemma nocount_tail p : nocount p = true -> tail_ok p = true /\ dcp_prog p = 0.
Proof.
  induction p as [|o p IH]; [auto|]. cbn [nocount forallb]. intros H. apply andb_true_iff in H as [H1 H2].
  destruct (IH H2) as [A B]. destruct o; cbn in H1; try discriminate. cbn. auto.
Qed.
Lemma gshape_nogate push st : gates push = 0 -> gshape (push ++ st) = gshape st.
Proof.
  induction push as [|j push IH]; [reflexivity|]. unfold gates. cbn [map]. rewrite list_sum_cons. intros H.
  assert (gate_i j = 0 /\ gates push = 0) as [A B] by (unfold gates; lia).
  cbn [app]. destruct j; cbn [gate_i] in A; try discriminate; cbn [gshape]; apply IH; exact B.
Qed.

(* what an instruction pushes: no gate, except the invocation of DestroyContainer *)
Lemma reenter_gates g m g' push : reenter g m = (g', push) -> gates push = 0 /\ wstk push = 0.
Proof.
  unfold reenter, new_obj. destruct (cstate g =? 2); [intros H; inversion H; auto|].
  destruct m as [|[|[|[|[|m]]]]]; intros H; inversion H; subst; auto.
Qed.
Lemma invoke_gates g o g' push : invoke g o = (g', push) ->
  wstk push <= wop (IInvoke o) /\ (gates push = 0 \/ (o = DestroyContainer /\ push = [IDcGate; IEndOp true])).
Proof.
  unfold invoke, new_obj. destruct o; destruct (negb (cstate g =? 0));
    repeat match goal with
           | |- context [if ?x then _ else _] => destruct x
           | |- context [match ?x with _ => _ end] => destruct x
           end; intros H; inversion H; subst; cbn; auto.
Qed.
Lemma exec_gates t c g r i g' r' push es : exec t c g r i = Some (g', r', push, es) ->
  wstk push <= wop i /\ (gates push = 0 \/ (i = IInvoke DestroyContainer /\ push = [IDcGate; IEndOp true])).
Proof.
  intros Hx. destruct i; norm_exec Hx.
  all: try (solve [
    repeat match type of Hx with
           | context [if ?x then _ else _] => destruct x eqn:?
           | context [match ?x with _ => _ end] => destruct x eqn:?
           end; try discriminate;
    inversion Hx; subst; clear Hx; cbn; (split; [lia|left; reflexivity]) ]).
  - destruct (invoke g o) as [g1 push1] eqn:IV. inversion Hx; subst. destruct (invoke_gates _ _ _ _ IV) as [A [B|[B1 B2]]].
    + split; [exact A|left; exact B].
    + split; [exact A|right; subst; auto].
  - destruct (memn (ncb g) (throws (cf g))); [inversion Hx; subst; cbn; split; [lia|left; reflexivity]|].
    destruct (reenter _ _) as [g2 push2] eqn:RE. inversion Hx; subst. destruct (reenter_gates _ _ _ _ RE) as [A B].
    rewrite gates_app, wstk_app, A, B. destruct rest; cbn; split; (lia || (left; reflexivity)).
  - destruct (src <? 2); [|inversion Hx; subst; cbn; split; [lia|left; reflexivity]].
    destruct (reenter _ _) as [g2 push2] eqn:RE. inversion Hx; subst. destruct (reenter_gates _ _ _ _ RE) as [A B].
    rewrite A, B. split; [lia|left; reflexivity].
Qed.

Lemma dcs_eq l : dcs l = dcp_prog (prog l) + gates (stk l).
Proof. reflexivity. Qed.
Lemma gates_cons i st : gates (i :: st) = gate_i i + gates st.
Proof. reflexivity. Qed.
Lemma gshape_tail i st : gshape (i :: st) = true -> gshape st = true.
Proof.
  destruct i; cbn [gshape]; auto. destruct st as [|j st]; [discriminate|]. destruct j; try discriminate.
  destruct cd; [|discriminate]. cbn [gshape]. auto.
Qed.

Lemma InvW_step g ls t c l g' l' es :
  InvW g ls -> nth_error ls t = Some l -> tstep t c g l = Some (g', l', es) -> InvW g' (upd ls t l').
Proof.
  apply (P_step InvW).
  - intros g0 ls0 t0 l0 i st c0 g1 r1 push es0 [W1 W2 W3 W4 W5] Hl Hs Hx.
    destruct (exec_gates _ _ _ _ _ _ _ _ _ Hx) as [EW EG].
    set (l1 := Loc (prog l0) (push ++ st) r1).
    assert (GL : gates (push ++ st) <= gates (i :: st)).
    { rewrite gates_app, gates_cons. destruct EG as [E|[-> ->]]; [lia|cbn; lia]. }
    assert (SH : gshape (push ++ st) = true).
    { pose proof (W4 t0 l0 Hl) as S0. rewrite Hs in S0. destruct EG as [E|[-> ->]].
      - rewrite (gshape_nogate _ _ E). apply (gshape_tail _ _ S0).
      - cbn [app gshape]. apply (gshape_tail _ _ S0). }
    assert (WS : wstk (push ++ st) <= 1).
    { pose proof (W5 t0 l0 Hl) as S0. rewrite Hs, wstk_cons in S0. rewrite wstk_app. lia. }
    constructor.
    + pose proof (sum_upd dcs ls0 t0 l0 l1 Hl) as SU. rewrite (dcs_eq l0), (dcs_eq l1) in SU. change (stk l1) with (push ++ st) in SU. change (prog l1) with (prog l0) in SU. rewrite Hs in SU. lia.
    + intros u x Hu. destruct (nth_upd _ _ _ _ _ Hu) as [[_ [-> _]]|[_ Hu']]; [apply (W2 t0 l0 Hl)|apply (W2 u x Hu')].
    + intros u x Hu. destruct (nth_upd _ _ _ _ _ Hu) as [[_ [-> _]]|[_ Hu']]; [|apply (W3 u x Hu')].
      cbn [stk prog l1]. intros G1. apply (W3 t0 l0 Hl). rewrite Hs. lia.
    + intros u x Hu. destruct (nth_upd _ _ _ _ _ Hu) as [[_ [-> _]]|[_ Hu']]; [exact SH|apply (W4 u x Hu')].
    + intros u x Hu. destruct (nth_upd _ _ _ _ _ Hu) as [[_ [-> _]]|[_ Hu']]; [exact WS|apply (W5 u x Hu')].
  - intros g0 ls0 t0 l0 o p [W1 W2 W3 W4 W5] Hl Hs Hp.
    set (l1 := Loc p [IInvoke o] (rv l0)).
    pose proof (W2 t0 l0 Hl) as T0. rewrite Hp in T0.
    assert (TP : tail_ok p = true /\ (is_dc o = true -> nocount p = true)).
    { destruct o; cbn [tail_ok is_dc] in *; split; auto; try discriminate. apply (nocount_tail p T0). }
    constructor.
    + pose proof (sum_upd dcs ls0 t0 l0 l1 Hl) as SU. rewrite (dcs_eq l0), (dcs_eq l1) in SU. change (stk l1) with [IInvoke o] in SU. change (prog l1) with p in SU. rewrite Hs, Hp in SU.
      unfold dcp_prog in SU. cbn [filter] in SU. unfold gates in SU. cbn [map list_sum fold_right] in SU.
      destruct o; cbn [is_dc length gate_i] in SU; lia.
    + intros u x Hu. destruct (nth_upd _ _ _ _ _ Hu) as [[_ [-> _]]|[_ Hu']]; [apply TP|apply (W2 u x Hu')].
    + intros u x Hu. destruct (nth_upd _ _ _ _ _ Hu) as [[_ [-> _]]|[_ Hu']]; [|apply (W3 u x Hu')].
      cbn [stk prog l1]. unfold gates. cbn [map list_sum fold_right]. intros G1. apply TP. destruct o; cbn in *; auto; lia.
    + intros u x Hu. destruct (nth_upd _ _ _ _ _ Hu) as [[_ [-> _]]|[_ Hu']]; [reflexivity|apply (W4 u x Hu')].
    + intros u x Hu. destruct (nth_upd _ _ _ _ _ Hu) as [[_ [-> _]]|[_ Hu']]; [|apply (W5 u x Hu')].
      cbn [stk l1]. unfold wstk. cbn. destruct (counted o); lia.
Qed.

Lemma InvW_init c progs : dc_wf progs = true -> InvW (gl (init c progs)) (thr (init c progs)).
Proof.
  unfold dc_wf. intros H. apply andb_true_iff in H as [H1 H2]. apply Nat.leb_le in H1.
  unfold init. cbn [gl thr].
  assert (NE : forall u l, nth_error (map (fun p => Loc p [] 0%Z) progs) u = Some l -> exists p, In p progs /\ l = Loc p [] 0%Z).
  { intros u l Hu. rewrite nth_error_map in Hu. destruct (nth_error progs u) as [p|] eqn:E; [|discriminate].
    inversion Hu; subst. exists p. split; [eapply nth_error_In; eauto|reflexivity]. }
  constructor.
  - rewrite map_map. erewrite map_ext; [exact H1|]. intros p. rewrite dcs_eq. cbn [prog stk]. unfold gates. cbn [map list_sum fold_right]. lia.
  - intros u l Hu. destruct (NE u l Hu) as [p [Hp ->]]. cbn [prog]. apply (proj1 (forallb_forall _ _) H2 p Hp).
  - intros u l Hu. destruct (NE u l Hu) as [p [Hp ->]]. cbn. lia.
  - intros u l Hu. destruct (NE u l Hu) as [p [Hp ->]]. reflexivity.
  - intros u l Hu. destruct (NE u l Hu) as [p [Hp ->]]. cbn. lia.
Qed.

Lemma sum_ge2 {A} (f : A -> nat) ls t u l l' : t <> u -> nth_error ls t = Some l -> nth_error ls u = Some l' ->
  f l + f l' <= list_sum (map f ls).
Proof.
  revert t u. induction ls as [|h r IH]; destruct t, u; cbn [nth_error map]; rewrite ?list_sum_cons; intros Hne H1 H2; try discriminate; try congruence.
  - inversion H1; subst. pose proof (sum_upd f r u l' l' H2). assert (f l' <= list_sum (map f r)); [|lia].
    clear -H2. revert u H2. induction r as [|h r IH]; destruct u; cbn [nth_error map]; rewrite ?list_sum_cons; intros H; try discriminate; [inversion H; lia|specialize (IH _ H); lia].
  - inversion H2; subst. assert (f l <= list_sum (map f r)); [|lia].
    clear -H1. revert t H1. induction r as [|h r IH]; destruct t; cbn [nth_error map]; rewrite ?list_sum_cons; intros H; try discriminate; [inversion H; lia|specialize (IH _ H); lia].
  - assert (t <> u) by congruence. specialize (IH _ _ H H1 H2). lia.
Qed.

Lemma gates_in st : (exists st', st = IDcGate :: st') -> gates st >= 1.
Proof. intros [st' ->]. rewrite gates_cons. cbn. lia. Qed.

Lemma InvW_gate_ok s : InvW (gl s) (thr s) -> gate_ok s.
Proof.
  intros [W1 W2 W3 W4 W5] t l st Hl Hs.
  assert (G1 : gates (stk l) >= 1) by (apply gates_in; eauto).
  split.
  - unfold wloc. pose proof (W3 t l Hl G1) as NC. pose proof (W4 t l Hl) as SH. pose proof (W5 t l Hl) as WS.
    assert (filter counted (prog l) = []) as ->.
    { clear -NC. induction (prog l) as [|o p IH]; [reflexivity|]. cbn in NC. apply andb_true_iff in NC as [A B].
      cbn [filter]. destruct (counted o); [discriminate|]. apply IH, B. }
    rewrite Hs in SH, WS |- *. cbn [gshape] in SH. destruct st as [|j st']; [discriminate|]. destruct j; try discriminate.
    destruct cd; [|discriminate]. rewrite !wstk_cons in *. cbn [wop length] in *. lia.
  - intros u l' Hne Hu Hg. pose proof (gates_in _ Hg) as G2.
    pose proof (sum_ge2 dcs (thr s) t u l l' (not_eq_sym Hne) Hl Hu) as S2. unfold dcs in S2 at 1 2. lia.
Qed.

Lemma R_W c progs s : dc_wf progs = true -> R c progs s -> InvW (gl s) (thr s).
Proof. intros Hw H. eapply reachable_inv; [apply InvW_step|apply (InvW_init c progs Hw)|exact H]. Qed.

(* the client obligation stated on the programs: at most one DestroyContainer, followed only by Drop in its thread *)
Lemma no_deadlock_wf c progs s : R c progs s -> dc_wf progs = true -> quiescent glob loc tstep s ->
  all_fin glob loc fin s = true.
Proof. intros HR Hw HQ. apply (no_deadlock c progs s HR HQ). apply InvW_gate_ok, (R_W c progs s Hw HR). Qed.

Lemma eventually_finishes_wf c progs s : R c progs s -> dc_wf progs = true ->
  exists sc, sched_ok any_choice sc /\ length sc <= mu s /\ all_fin glob loc fin (runD s sc) = true.
Proof.
  intros HR Hw. apply (eventually_finishes c progs s HR). intros s' Hs'.
  apply InvW_gate_ok, (R_W c progs s' Hw). apply (reachable_trans glob loc tstep _ s _ HR Hs').
Qed.
