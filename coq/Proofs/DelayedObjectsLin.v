(* DelayedObjects: linearizability in the sense of Herlihy & Wing (instance of Common/Lin.v), for every
   throw plan of X's copy constructor.

   Sequential specification: states are (container, number of copies of X made so far); the throw plan pl
   is a parameter (fault injection: the copy with a planned index throws).  spec_apply gives, for a method,
   the next state and the outcome  ORet rv | OExn (a vs::VThrow escaped) | OFault (never):
     - setDelayedValue(const X&) on a pending key makes one copy: if it throws nothing else happens;
     - fulfillAllPromises makes one copy per pending promise - int keys first, then string keys, each in key
       order - and runs the body of setDelayedValue for that key; the first copy that throws ends the call
       (the keys served so far stay served): the compound operation is cut short, and that IS its
       specification under fault injection;
     - every other method: its body `apply`.
   History: Inv t o at the K_INVOKE step of a container method, Lin t and Res t out at the step that
   releases promiseLock and emits K_RET / K_CATCH.  Every effect of a method on the container happens while
   the caller owns the lock, so every point of the critical section is a linearization point; we take the
   last one (the release).  FutReady / FutGet (client-side polling of a future, no library call) emit nothing. *)
From Coq Require Import List Arith ZArith Lia Bool.
Import ListNotations.
From GV Require Lin.
From GV Require Import Sched Events DelayedObjectsModel DelayedObjectsProofs.
Local Open Scope Z_scope.

Notation hevD := (Lin.hev op outc).
Notation EInv := (Lin.Inv op outc).
Notation ELin := (Lin.Lin op outc).
Notation ERes := (Lin.Res op outc).
Notation orec := (Lin.oprec op outc).
Notation SIdle := (Lin.Idle op).
Notation SPending := (Lin.Pending op).
Notation o_opD := (Lin.o_op op outc).

(* ---------- the sequential specification with fault injection ---------- *)
Definition sstate := (cont * Z)%type.
Definition s0 : sstate := (cont0, 0).
Definition throwsZ (pl : list Z) (n : Z) : bool := existsb (Z.eqb n) pl.

(* the loop of fulfillAllPromises over one pending map: None = ran to the end *)
Fixpoint sloop (pl : list Z) (v : Z) (k : bool) (rest : amap) (c : cont) (n : Z) : cont * Z * option outc :=
  match rest with
  | [] => (c, n, None)
  | (key, _) :: r =>
    if throwsZ pl n then (c, n + 1, Some OExn)
    else sloop pl v k r (fst (fst (apply (SetValue true k key v) c))) (n + 1)
  end.
Definition sclose (x : cont * Z * option outc) : sstate * outc :=
  match x with
  | (c, n, None) => ((c, n), ORet 0)
  | (c, n, Some o) => ((c, n), o)
  end.
(* from inside the loop over map k (rest still to do) to the end of the method *)
Definition sfin (pl : list Z) (v : Z) (k : bool) (rest : amap) (c : cont) (n : Z) : sstate * outc :=
  if k then sclose (sloop pl v true rest c n)
  else match sloop pl v false rest c n with
       | (c1, n1, Some o) => ((c1, n1), o)
       | (c1, n1, None) => sclose (sloop pl v true (pend c1 true) c1 n1)
       end.
Definition spec_apply (pl : list Z) (s : sstate) (o : op) : sstate * outc :=
  let (c, n) := s in
  match o with
  | SetValue false k key v =>
    match afind key (pend c k) with
    | None => ((c, n), ORet 0)
    | Some _ => if throwsZ pl n then ((c, n + 1), OExn)
                else let '(c', rv, flt) := apply o c in ((c', n + 1), out_of rv flt)
    end
  | FulfillAll v => sfin pl v false (pend c false) c n
  | _ => let '(c', rv, flt) := apply o c in ((c', n), out_of rv flt)
  end.

(* ---------- the annotated history of a run ---------- *)
Definition hev_of (t : nat) (l : loc) : list hevD :=
  match at_ l with
  | Idle => match prog l with
            | o :: _ => if locks o then [EInv t o] else []
            | [] => []
            end
  | P_unlock out => [ELin t; ERes t out]
  | _ => []
  end.
Fixpoint hist_of (s : sysD) (sched : list (nat * nat)) : list hevD :=
  match sched with
  | [] => []
  | (t, c) :: r =>
    match nth_error (thr s) t with
    | Some l => match tstep t c (gl s) l with Some _ => hev_of t l | None => [] end
    | None => []
    end ++ hist_of (stepD s (t, c)) r
  end.

(* the events are the K_INVOKE / K_RET / K_CATCH events of the trace *)
Lemma hev_of_events t c g l g' l' es : tstep t c g l = Some (g', l', es) ->
  match hev_of t l with
  | [] => True
  | [Lin.Inv _ _ _ o] => In (E K_INVOKE 0 (opcode o)) es /\ locks o = true
  | [Lin.Lin _ _ _; Lin.Res _ _ _ out] =>
    es = unlock_evs out /\ match out with ORet rv => In (E K_RET 0 rv) es | OExn => In (E K_CATCH 0 0) es | OFault => True end
  | _ => False
  end.
Proof.
  intros Hs. apply tstep_stepk in Hs. unfold hev_of. destruct Hs;
    match goal with Ha : at_ _ = _ |- _ => rewrite Ha end; auto.
  - rewrite H0, H1. split; [left; reflexivity|exact H1].
  - rewrite H0, H1. exact I.
  - split; [reflexivity|]. destruct out; cbn; auto.
Qed.

(* ---------- running the specification over a list of operation records ---------- *)
Definition srun (pl : list Z) (s : sstate) (L : list orec) : sstate :=
  fold_left (fun s a => fst (spec_apply pl s (o_opD a))) L s.
Lemma srun_app pl s L1 L2 : srun pl s (L1 ++ L2) = srun pl (srun pl s L1) L2.
Proof. unfold srun. apply fold_left_app. Qed.
Lemma legal_app pl L1 : forall s L2,
  Lin.legal op outc sstate (spec_apply pl) s (L1 ++ L2) <->
  Lin.legal op outc sstate (spec_apply pl) s L1 /\ Lin.legal op outc sstate (spec_apply pl) (srun pl s L1) L2.
Proof.
  induction L1 as [|a r IH]; intros s L2; cbn [app Lin.legal].
  - cbn. tauto.
  - unfold srun. cbn [fold_left]. destruct (spec_apply pl s (o_opD a)) as [s' rr] eqn:E. cbn [fst].
    rewrite IH. unfold srun. tauto.
Qed.

(* ---------- the small steps of the model against the big steps of the specification ---------- *)
Lemma sfin_step pl v k key q r c n h1 : throwsZ pl n = false -> pend c k = (key, q) :: r ->
  set_value q v (heap c) = Some h1 ->
  sfin pl v k ((key, q) :: r) c n = sfin pl v k r (iter false c k key q h1) (n + 1).
Proof.
  intros Ht Hp Hs. pose proof (iter_is_set c true k key q r v h1 Hp Hs) as Ha.
  destruct k; unfold sfin; cbn [sloop]; rewrite Ht, Ha; reflexivity.
Qed.
Lemma sfin_throw pl v k key q r c n : throwsZ pl n = true -> sfin pl v k ((key, q) :: r) c n = ((c, n + 1), OExn).
Proof. intros Ht. destruct k; unfold sfin; cbn [sloop]; rewrite Ht; reflexivity. Qed.

Lemma ful_goto_sim pl n v c0 c k r c' p' flt : CInv c -> pend c k = r -> (k = true -> pend c false = []) ->
  ful_goto false v c0 c k r = (c', p', flt) ->
  c' = c /\
  match p' with
  | P_ful v' k' key q r' c0' => v' = v /\ c0' = c0 /\ sfin pl v k' ((key, q) :: r') c n = sfin pl v k r c n
  | P_unlock out => sfin pl v k r c n = ((c, n), out)
  | _ => False
  end.
Proof.
  intros HI Hp Hk Hg. unfold ful_goto in Hg.
  assert (Hun : forall k0 key q r', pend c k0 = (key, q) :: r' -> is_unset (heap c) q = true).
  { intros k0 key q r' E. apply is_unset_true. exists k0, key. apply (C_pend _ HI). rewrite E. left; reflexivity. }
  destruct r as [|[key q] r'].
  - destruct k.
    + inversion Hg; subst. split; reflexivity.
    + destruct (pend c true) as [|[key q] r'] eqn:Ht.
      * inversion Hg; subst. split; [reflexivity|]. unfold sfin. cbn [sloop]. rewrite Ht. reflexivity.
      * rewrite (Hun true key q r' Ht) in Hg. inversion Hg; subst. split; [reflexivity|].
        repeat split. unfold sfin at 2. cbn [sloop]. rewrite Ht. reflexivity.
  - rewrite (Hun k key q r' Hp) in Hg. inversion Hg; subst. repeat split.
Qed.

Lemma enter_sim pl n o c c' p' flt : CInv c -> enter false o c = (c', p', flt) ->
  match p' with
  | P_unlock out => spec_apply pl (c, n) o = ((c', n), out)
  | P_call o' => o' = o /\ c' = c
  | P_ful v k key q r c0 => o = FulfillAll v /\ c' = c /\ c0 = c /\
                            sfin pl v k ((key, q) :: r) c n = spec_apply pl (c, n) o
  | _ => False
  end.
Proof.
  intros HI He.
  destruct o; cbn [enter] in He;
    try (unfold spec_apply; destruct (apply _ c) as [[c1 rv] fl]; inversion He; subst; reflexivity).
  - destruct mv.
    + unfold spec_apply. destruct (apply (SetValue true k key v) c) as [[c1 rv] fl]. inversion He; subst. reflexivity.
    + destruct (afind key (pend c k)) as [q|] eqn:Hf.
      * assert (is_unset (heap c) q = true) as Hu.
        { apply is_unset_true. exists k, key. apply (C_pend _ HI). apply afind_In. exact Hf. }
        rewrite Hu in He. inversion He; subst. auto.
      * inversion He; subst. unfold spec_apply. rewrite Hf. reflexivity.
  - assert (Hk0 : false = true -> pend c false = []) by discriminate.
    destruct (ful_goto_sim pl n _ _ _ _ _ _ _ _ HI eq_refl Hk0 He) as [-> Hm].
    destruct p'; try contradiction.
    + destruct Hm as [-> [-> Hm]]. repeat split. exact Hm.
    + exact Hm.
Qed.

(* ---------- the simulation between a run and the scanner of Common/Lin.v ---------- *)
Notation legalD pl := (Lin.legal op outc sstate (spec_apply pl)).
Notation scanF := (Lin.scan_from op outc).

(* what the scanner knows about a thread at pc p (stt = its status), given the operations linearized so far *)
Definition pc_ok (pl : list Z) (g : glob) (acc : list orec) (stt : Lin.status op) (p : pc) : Prop :=
  match p with
  | Idle => stt = SIdle
  | P_lock o => exists i, stt = SPending o i
  | P_call o => exists i, stt = SPending o i /\ srun pl s0 (rev acc) = (ct g, calls g)
  | P_ful v k key q r c0 =>
    exists i, stt = SPending (FulfillAll v) i /\
              sfin pl v k ((key, q) :: r) (ct g) (calls g) = spec_apply pl (srun pl s0 (rev acc)) (FulfillAll v)
  | P_unlock out =>
    exists o i, stt = SPending o i /\ spec_apply pl (srun pl s0 (rev acc)) o = ((ct g, calls g), out)
  end.
Record Sim (pl : list Z) (s : sysD) (st : nat -> Lin.status op) (acc : list orec) : Prop := {
  M_legal : legalD pl s0 (rev acc);
  (* between critical sections the specification state is the container and the copy counter *)
  M_free : mtx (gl s) = None -> srun pl s0 (rev acc) = (ct (gl s), calls (gl s));
  M_pc : forall t, pc_ok pl (gl s) acc (st t) (pcof (thr s) t)
}.

Lemma Sim_quiet pl g ls t l l' st st' acc : Sim pl (Sys g ls) st acc -> nth_error ls t = Some l ->
  (forall u, u <> t -> st' u = st u) -> pc_ok pl g acc (st' t) (at_ l') -> Sim pl (Sys g (upd ls t l')) st' acc.
Proof.
  intros [HL HF HP] Hl Hst Ht. constructor; cbn [gl thr] in *; auto.
  intros u. rewrite (pcof_upd _ _ _ _ _ Hl). destruct (Nat.eqb_spec u t) as [->|Hne]; [exact Ht|].
  rewrite (Hst _ Hne). apply HP.
Qed.
Lemma Sim_owner pl g g' ls t l l' st st' acc acc' : Base g ls -> Sim pl (Sys g ls) st acc -> nth_error ls t = Some l ->
  (mtx g = None \/ holds (at_ l) = true) -> (forall u, u <> t -> st' u = st u) ->
  legalD pl s0 (rev acc') -> (mtx g' = None -> srun pl s0 (rev acc') = (ct g', calls g')) ->
  pc_ok pl g' acc' (st' t) (at_ l') -> Sim pl (Sys g' (upd ls t l')) st' acc'.
Proof.
  intros HB [HL HF HP] Hl Hc Hst HL' HF' Ht. constructor; cbn [gl thr] in *; auto.
  intros u. rewrite (pcof_upd _ _ _ _ _ Hl). destruct (Nat.eqb_spec u t) as [->|Hne]; [exact Ht|].
  rewrite (Hst _ Hne). pose proof (others_idle _ _ _ _ u HB Hl Hc Hne) as Hh. specialize (HP u).
  destruct (pcof ls u); cbn in Hh; try discriminate; exact HP.
Qed.

Lemma throws_plan ns pl progs s : R ns pl progs s -> throws (gl s) = throwsZ pl (calls (gl s)).
Proof. intros HR. unfold throws, throwsZ. rewrite (R_plan _ _ _ _ HR). reflexivity. Qed.

Lemma supd_eq st t x : Lin.supd op st t x t = x.
Proof. unfold Lin.supd. rewrite Nat.eqb_refl. reflexivity. Qed.
Lemma supd_ne st t x u : u <> t -> Lin.supd op st t x u = st u.
Proof. intros H. unfold Lin.supd. destruct (Nat.eqb_spec u t); [contradiction|reflexivity]. Qed.

Lemma sim_step ns pl progs s t c l g' l' es n st acc :
  R ns pl progs s -> Sim pl s st acc -> nth_error (thr s) t = Some l -> tstep t c (gl s) l = Some (g', l', es) ->
  exists n' st' acc', (forall H', scanF n (hev_of t l ++ H') st acc = scanF n' H' st' acc') /\
                      Sim pl (Sys g' (upd (thr s) t l')) st' acc'.
Proof.
  intros HR HS Hl Hs. pose proof (R_base _ _ _ _ HR) as HB. pose proof (R_good _ _ _ _ HR) as HG.
  pose proof (R_cinv _ _ _ _ HR) as HC. pose proof (throws_plan _ _ _ _ HR) as Hth.
  pose proof (pcof_at _ _ _ Hl) as Hp. pose proof (M_pc _ _ _ _ HS t) as Hck. rewrite Hp in Hck.
  destruct s as [g ls]. cbn [gl thr] in *.
  apply tstep_stepk in Hs. unfold hev_of. destruct Hs.
  - (* invoke *)
    rewrite H in Hck |- *. rewrite H0, H1. cbn in Hck.
    exists (S n), (Lin.supd op st t (SPending o n)), acc. split.
    + intros H'. cbn. rewrite Hck. reflexivity.
    + eapply Sim_quiet; eauto; [intros u Hne; apply supd_ne; exact Hne|]. cbn. exists n. apply supd_eq.
  - (* client-side observation *)
    rewrite H in Hck |- *. rewrite H0, H1. cbn in Hck.
    exists n, st, acc. split; [reflexivity|]. eapply Sim_quiet; eauto.
  - (* lock + first part of the body *)
    rewrite H in Hck |- *. cbn in Hck. destruct Hck as [i Hi].
    pose proof (M_free _ _ _ _ HS H0) as Hfree. cbn [gl] in Hfree.
    pose proof (enter_sim pl (calls g) _ _ _ _ _ HC H1) as Hen.
    exists n, st, acc. split; [reflexivity|].
    eapply (Sim_owner pl g _ ls t l); eauto; [exact (M_legal _ _ _ _ HS)|cbn; discriminate|].
    cbn [at_]. destruct p'; try contradiction; cbn [pc_ok ct calls].
    + destruct Hen as [-> ->]. exists i. auto.
    + destruct Hen as [-> [-> [-> Hsf]]]. exists i. split; [exact Hi|]. rewrite Hfree. exact Hsf.
    + exists o, i. split; [exact Hi|]. rewrite Hfree. exact Hen.
  - (* the copy in setDelayedValue throws *)
    rewrite H in Hck |- *. cbn in Hck. destruct Hck as [i [Hi Hrun]].
    destruct (G_call _ _ HG t o (eq_trans Hp H)) as [_ [k [key [v [q [-> Hf]]]]]].
    exists n, st, acc. split; [reflexivity|].
    eapply (Sim_owner pl g _ ls t l); eauto; [right; rewrite H; reflexivity|exact (M_legal _ _ _ _ HS)|cbn; intros E; pose proof (B_owner _ _ HB t) as Ho; rewrite Hp, H in Ho; specialize (Ho eq_refl); congruence|].
    cbn [at_ pc_ok ct calls]. exists (SetValue false k key v), i. split; [exact Hi|].
    rewrite Hrun. unfold spec_apply. rewrite Hf, <- Hth, H0. reflexivity.
  - (* the copy in setDelayedValue succeeds *)
    rewrite H in Hck |- *. cbn in Hck. destruct Hck as [i [Hi Hrun]].
    destruct (G_call _ _ HG t o (eq_trans Hp H)) as [_ [k [key [v [q [-> Hf]]]]]].
    exists n, st, acc. split; [reflexivity|].
    eapply (Sim_owner pl g _ ls t l); eauto; [right; rewrite H; reflexivity|exact (M_legal _ _ _ _ HS)|cbn; intros E; pose proof (B_owner _ _ HB t) as Ho; rewrite Hp, H in Ho; specialize (Ho eq_refl); congruence|].
    cbn [at_ pc_ok ct calls]. exists (SetValue false k key v), i. split; [exact Hi|].
    rewrite Hrun. unfold spec_apply. rewrite Hf, <- Hth, H0, H1. reflexivity.
  - (* a copy in fulfillAllPromises throws *)
    rewrite H in Hck |- *. cbn in Hck. destruct Hck as [i [Hi Hsf]].
    exists n, st, acc. split; [reflexivity|].
    eapply (Sim_owner pl g _ ls t l); eauto; [right; rewrite H; reflexivity|exact (M_legal _ _ _ _ HS)|cbn; intros E; pose proof (B_owner _ _ HB t) as Ho; rewrite Hp, H in Ho; specialize (Ho eq_refl); congruence|].
    cbn [at_ pc_ok ct calls]. exists (FulfillAll v), i. split; [exact Hi|].
    rewrite <- Hsf. apply sfin_throw. rewrite <- Hth. exact H0.
  - (* impossible *)
    exfalso. destruct (G_ful _ _ HG t v k key q r c0 (eq_trans Hp H)) as [Hpe _].
    assert (In (key, q) (pend (ct g) k)) as Hin by (rewrite Hpe; left; reflexivity).
    destruct (set_value_ok q v _ _ _ (C_pend _ HC _ _ _ Hin)) as [h1 E]. congruence.
  - (* one more promise satisfied *)
    rewrite H in Hck |- *. cbn in Hck. destruct Hck as [i [Hi Hsf]].
    destruct (G_ful _ _ HG t v k key q r c0 (eq_trans Hp H)) as [Hpe [Hk _]].
    pose proof (iter_is_set _ true _ _ _ _ _ _ Hpe H1) as Hap.
    destruct (apply_CInv _ _ _ _ _ HC Hap) as [HC' _].
    destruct (iter_pend _ _ _ _ _ h1 HC Hpe) as [Hpe' Hpo].
    assert (Hk' : k = true -> pend (iter false (ct g) k key q h1) false = []).
    { intros ->. rewrite Hpo by discriminate. apply Hk. reflexivity. }
    destruct (ful_goto_sim pl (calls g + 1) _ _ _ _ _ _ _ _ HC' Hpe' Hk' H2) as [-> Hm].
    assert (Hstep : sfin pl v k r (iter false (ct g) k key q h1) (calls g + 1) =
                    spec_apply pl (srun pl s0 (rev acc)) (FulfillAll v)).
    { rewrite <- Hsf. symmetry. apply sfin_step; auto. rewrite <- Hth. exact H0. }
    exists n, st, acc. split; [reflexivity|].
    eapply (Sim_owner pl g _ ls t l); eauto; [right; rewrite H; reflexivity|exact (M_legal _ _ _ _ HS)|cbn; intros E; pose proof (B_owner _ _ HB t) as Ho; rewrite Hp, H in Ho; specialize (Ho eq_refl); congruence|].
    cbn [at_]. destruct p'; try contradiction; cbn [pc_ok ct calls].
    + destruct Hm as [-> [-> Hm]]. exists i. split; [exact Hi|]. rewrite Hm. exact Hstep.
    + exists (FulfillAll v), i. split; [exact Hi|]. rewrite <- Hstep. exact Hm.
  - (* unlock: linearization point and response *)
    rewrite H in Hck |- *. cbn in Hck. destruct Hck as [o [i [Hi Hsp]]].
    exists (S (S n)), (Lin.supd op (Lin.supd op st t (Lin.Linned op o i n)) t SIdle),
           (Lin.OpRec op outc t o i n (Some (S n, out)) :: acc).
    split.
    + intros H'. cbn. rewrite Hi. rewrite supd_eq. cbn. rewrite Nat.eqb_refl. reflexivity.
    + eapply (Sim_owner pl g _ ls t l); eauto.
      * right. rewrite H. reflexivity.
      * intros u Hne. rewrite !supd_ne by exact Hne. reflexivity.
      * cbn [rev]. apply legal_app. split; [exact (M_legal _ _ _ _ HS)|].
        cbn. rewrite Hsp. cbn. auto.
      * intros _. cbn [rev ct calls]. rewrite srun_app. unfold srun at 1. cbn. rewrite Hsp. reflexivity.
      * cbn. apply supd_eq.
Qed.

Lemma Sim_init ns pl progs : Sim pl (init ns pl progs) (fun _ => SIdle) [].
Proof.
  constructor; cbn.
  - exact I.
  - reflexivity.
  - intros t. unfold pcof. rewrite nth_error_map. destruct (nth_error progs t); reflexivity.
Qed.

Lemma sim_run ns pl progs : forall sched s n st acc, R ns pl progs s -> Sim pl s st acc ->
  exists L, scanF n (hist_of s sched) st acc = Some L /\ legalD pl s0 L.
Proof.
  induction sched as [|[t c] r IH]; intros s n st acc HR HS.
  - exists (rev acc). split; [reflexivity|exact (M_legal _ _ _ _ HS)].
  - cbn [hist_of].
    destruct (nth_error (thr s) t) as [l|] eqn:Hl.
    + destruct (tstep t c (gl s) l) as [[[g' l'] es]|] eqn:Hs.
      * destruct (sim_step _ _ _ _ _ _ _ _ _ _ n _ _ HR HS Hl Hs) as [n' [st' [acc' [Hscan HS']]]].
        rewrite Hscan.
        assert (E : stepD s (t, c) = Sys g' (upd (thr s) t l')) by (unfold step, sys_step; rewrite Hl, Hs; reflexivity).
        rewrite E. apply IH; [|exact HS']. rewrite <- E. apply reachable_step. exact HR.
      * cbn [app]. assert (E : stepD s (t, c) = s) by (unfold step, sys_step; rewrite Hl, Hs; reflexivity).
        rewrite E. apply IH; assumption.
    + cbn [app]. assert (E : stepD s (t, c) = s) by (unfold step, sys_step; rewrite Hl; reflexivity).
      rewrite E. apply IH; assumption.
Qed.

(* do_hist_wf: the annotated history of every run is well formed, and the operations in the order of
   their linearization points are a legal run of the sequential specification with the returned outcomes *)
Theorem hist_wf ns pl progs sched :
  exists L, Lin.scan op outc (hist_of (init ns pl progs) sched) = Some L /\ legalD pl s0 L.
Proof. apply (sim_run ns pl progs); [apply reachable_refl|apply Sim_init]. Qed.

(* do_linearizable_hw: every history of DelayedObjects is linearizable (Herlihy & Wing) w.r.t. spec_apply *)
Corollary linearizable_hw ns pl progs sched :
  Lin.linearizable op outc sstate (spec_apply pl) s0 (hist_of (init ns pl progs) sched).
Proof.
  destruct (hist_wf ns pl progs sched) as [L [Hs Hl]].
  eapply Lin.lin_points_linearizable; eauto.
Qed.
